(* Model/AckTracker.v — internal/runtime/delivery/ack_tracker.go.

   One Gallina definition per Go function, same names.  Maps are association
   lists ([al_get]/[al_set]/[al_del]); the shards of the Go tracker partition
   the keys by sessionID and every API call touches the rows of one key / one
   session under that shard's lock, so the model keeps ONE byMessage map, ONE
   bySession map and the derived counter (the Go counter is the atomic sum over
   shards).  The shard count only shows in BindBatch's [Shards] result.

   Tokens.  The Go tracker draws tokens from an atomic counter; tokens are
   opaque to callers.  The harness renames them by first occurrence in the
   results, and the model allocates them in exactly that order (BindBatch
   hands them out in input order; the compatibility Bind, whose token is never
   shown and is finished at once, does not consume a number).

   Definitions only; proofs are in Proof/AckTracker*.v. *)
From WK Require Import Base.Base Gen.Consts_C32.
Open Scope N_scope.

(* ---- association lists ------------------------------------------------------ *)
Section AL.
  Context {K V : Type} (eqb : K -> K -> bool).
  Fixpoint al_get (k : K) (m : list (K * V)) : option V :=
    match m with
    | [] => None
    | (k', v) :: r => if eqb k k' then Some v else al_get k r
    end.
  Fixpoint al_del (k : K) (m : list (K * V)) : list (K * V) :=
    match m with
    | [] => []
    | (k', v) :: r => if eqb k k' then al_del k r else (k', v) :: al_del k r
    end.
  Definition al_set (k : K) (v : V) (m : list (K * V)) : list (K * V) :=
    (k, v) :: al_del k m.
End AL.

Definition key := (N * N * N)%type.        (* ackMessageKey: uid, sessionID, messageID *)
Definition skey := (N * N)%type.           (* ackSessionKey: uid, sessionID *)
Definition key_eqb (a b : key) : bool :=
  let '(a1, a2, a3) := a in let '(b1, b2, b3) := b in (a1 =? b1) && (a2 =? b2) && (a3 =? b3).
Definition skey_eqb (a b : skey) : bool :=
  let '(a1, a2) := a in let '(b1, b2) := b in (a1 =? b1) && (a2 =? b2).

(* ---- PendingRecvAck ------------------------------------------------------------
   uid and channel id are opaque strings compared for equality only: they are
   numbered (0 = the empty string). *)
Record pending := Pend {
  p_uid : N; p_sid : N; p_mid : N; p_seq : N; p_chan : N; p_ctype : N; p_at : Z }.
Definition zero_pending : pending := Pend 0 0 0 0 0 0 0%Z.
Definition pending_eqb (a b : pending) : bool :=
  (p_uid a =? p_uid b) && (p_sid a =? p_sid b) && (p_mid a =? p_mid b) && (p_seq a =? p_seq b)
  && (p_chan a =? p_chan b) && (p_ctype a =? p_ctype b) && (p_at a =? p_at b)%Z.
Definition set_at (p : pending) (at_ : Z) : pending :=
  Pend (p_uid p) (p_sid p) (p_mid p) (p_seq p) (p_chan p) (p_ctype p) at_.
Definition key_of (p : pending) : key := (p_uid p, p_sid p, p_mid p).
Definition skey_of (p : pending) : skey := (p_uid p, p_sid p).
Definition key_skey (k : key) : skey := let '(u, s, _) := k in (u, s).
Definition key_mid (k : key) : N := let '(_, _, m) := k in m.

Definition validPendingRecvAck (p : pending) : bool :=
  negb (p_uid p =? 0) && negb (p_sid p =? 0) && negb (p_mid p =? 0).

(* ---- ackTrackerEntry; token 0 is the zero (invalid) AckBindToken ------------ *)
Record attempt := Att { a_token : N; a_pending : pending }.
Definition zero_attempt : attempt := Att 0 zero_pending.
Record entry := Ent {
  e_pending : pending; e_committed : bool; e_primary : N; e_extra : list attempt }.
Definition zero_entry : entry := Ent zero_pending false 0 [].

Fixpoint set_nth {A} (i : nat) (x : A) (l : list A) : list A :=
  match l, i with
  | [], _ => []
  | _ :: r, O => x :: r
  | y :: r, S i' => y :: set_nth i' x r
  end.

(* removeExtraAttempt: swap the last element into [index], drop the last *)
Definition removeExtraAttempt (l : list attempt) (index : nat) : list attempt :=
  let last := pred (length l) in
  removelast (if Nat.eqb index last then l else set_nth index (nth last l zero_attempt) l).

Fixpoint find_token_from (tok : N) (l : list attempt) (i : nat) : option nat :=
  match l with
  | [] => None
  | a :: r => if a_token a =? tok then Some i else find_token_from tok r (S i)
  end.
Definition find_token (tok : N) (l : list attempt) : option nat := find_token_from tok l 0.

Definition addAttempt (e : entry) (p : pending) (tok : N) : entry :=
  if negb (e_committed e) && (e_primary e =? 0)
  then Ent p (e_committed e) tok (e_extra e)
  else Ent (e_pending e) (e_committed e) (e_primary e) (e_extra e ++ [Att tok p]).

Definition finishAttempt (e : entry) (tok : N) : entry * bool :=
  if e_primary e =? tok then (Ent (e_pending e) true 0 (e_extra e), true)
  else match find_token tok (e_extra e) with
       | None => (e, false)
       | Some i =>
         let finished := nth i (e_extra e) zero_attempt in
         if negb (e_committed e) && negb (e_primary e =? 0)
         then (Ent (a_pending finished) true 0
                   (set_nth i (Att (e_primary e) (e_pending e)) (e_extra e)), true)
         else (Ent (a_pending finished) true (e_primary e) (removeExtraAttempt (e_extra e) i), true)
       end.

Definition cancelAttempt (e : entry) (tok : N) : entry * bool :=
  if e_primary e =? tok then
    match e_extra e with
    | _ :: _ =>
      if negb (e_committed e) then
        let last := pred (length (e_extra e)) in
        let promoted := nth last (e_extra e) zero_attempt in
        (Ent (a_pending promoted) (e_committed e) (a_token promoted)
             (removeExtraAttempt (e_extra e) last), true)
      else (Ent (e_pending e) (e_committed e) 0 (e_extra e), true)
    | [] => (Ent (e_pending e) (e_committed e) 0 (e_extra e), true)
    end
  else match find_token tok (e_extra e) with
       | None => (e, false)
       | Some i => (Ent (e_pending e) (e_committed e) (e_primary e)
                        (removeExtraAttempt (e_extra e) i), true)
       end.

Definition hasAttempts (e : entry) : bool :=
  negb (e_primary e =? 0) || negb (Nat.eqb (length (e_extra e)) 0).

Definition hasDeliveryAfter (e : entry) (cutoff : Z) : bool :=
  (cutoff <? p_at (e_pending e))%Z
  || existsb (fun a => (cutoff <? p_at (a_pending a))%Z) (e_extra e).

(* ---- AckTracker ------------------------------------------------------------------ *)
Record tracker := Trk {
  t_shards : Z;                          (* len(t.shards) *)
  t_limit : Z;                           (* maxPendingPerSession *)
  t_byMessage : list (key * entry);
  t_bySession : list (skey * list N);
  t_count : Z;                           (* pendingCount *)
  t_next : N }.                          (* tokens issued so far *)

Definition NewAckTracker (shardCount limit : Z) : tracker :=
  Trk (if (shardCount <=? 0)%Z then default_ack_tracker_shard_count else shardCount) limit [] [] 0%Z 0.

Definition with_maps (t : tracker) (bm : list (key * entry)) (bs : list (skey * list N)) (c : Z) (n : N) :=
  Trk (t_shards t) (t_limit t) bm bs c n.

Definition mem_mid (m : N) (ms : list N) : bool := existsb (N.eqb m) ms.
Definition add_mid (m : N) (ms : list N) : list N := if mem_mid m ms then ms else ms ++ [m].
Definition del_mid (m : N) (ms : list N) : list N := filter (fun x => negb (x =? m)) ms.

Definition deleteSessionMessageLocked (bs : list (skey * list N)) (sk : skey) (mid : N) :=
  match al_get skey_eqb sk bs with
  | None => bs
  | Some ms => match del_mid mid ms with
               | [] => al_del skey_eqb sk bs
               | ms' => al_set skey_eqb sk ms' bs
               end
  end.

(* the locked body shared by BindResult and the BindBatch loop, for a valid
   [p]; result token 0 = rejected by the per-session limit *)
Definition bind_locked (t : tracker) (now : Z) (p0 : pending) : tracker * N * bool :=
  let p := if (p_at p0 =? 0)%Z then set_at p0 now else p0 in
  let mk := key_of p in
  let sk := skey_of p in
  let messages := match al_get skey_eqb sk (t_bySession t) with Some ms => ms | None => [] end in
  let existing := al_get key_eqb mk (t_byMessage t) in
  let existed := match existing with Some _ => true | None => false end in
  if (0 <? t_limit t)%Z && negb existed && (t_limit t <=? Z.of_nat (length messages))%Z
  then (t, 0, false)
  else
    let token := t_next t + 1 in
    let e := addAttempt (match existing with Some e => e | None => zero_entry end) p token in
    (with_maps t (al_set key_eqb mk e (t_byMessage t))
               (al_set skey_eqb sk (add_mid (p_mid p) messages) (t_bySession t))
               (if existed then t_count t else (t_count t + 1)%Z) token,
     token, negb existed).

(* results *)
Inductive out :=
| RUnit
| RBool (b : bool)
| RCount (n : Z)
| RBind (bound added : bool) (tok : N) (count : Z)
| RBindBatch (toks : list N) (bound added shards count : Z)
| RCancel (canceled removed : bool) (count : Z)
| RAck (ok : bool) (p : pending)
| RList (ps : list pending).

Definition BindResult (t : tracker) (now : Z) (p : pending) : tracker * out :=
  if negb (validPendingRecvAck p) then (t, RBind false false 0 (t_count t))
  else let '(t', tok, added) := bind_locked t now p in
       (t', RBind (negb (tok =? 0)) added tok (t_count t')).

Fixpoint bind_batch_loop (t : tracker) (now : Z) (ps : list pending) : tracker * list N * Z * Z :=
  match ps with
  | [] => (t, [], 0%Z, 0%Z)
  | p :: r =>
    if negb (validPendingRecvAck p) then
      let '(t', toks, b, a) := bind_batch_loop t now r in (t', 0 :: toks, b, a)
    else
      let '(t1, tok, added) := bind_locked t now p in
      let '(t', toks, b, a) := bind_batch_loop t1 now r in
      (t', tok :: toks, if tok =? 0 then b else (b + 1)%Z, if added then (a + 1)%Z else a)
  end.

Fixpoint nodup_Z (l : list Z) : list Z :=
  match l with
  | [] => []
  | x :: r => if existsb (Z.eqb x) r then nodup_Z r else x :: nodup_Z r
  end.

(* shards locked by a batch: distinct shard indexes of the valid items *)
Definition batch_shards (t : tracker) (ps : list pending) : Z :=
  Z.of_nat (length (nodup_Z (map (fun p => (Z.of_N (p_sid p) mod t_shards t)%Z)
                                 (filter validPendingRecvAck ps)))).

Definition BindBatch (t : tracker) (now : Z) (ps : list pending) : tracker * out :=
  let '(t', toks, b, a) := bind_batch_loop t now ps in
  (t', RBindBatch toks b a (batch_shards t ps) (t_count t')).

Definition finishBindLocked (t : tracker) (p : pending) (tok : N) : tracker * bool :=
  match al_get key_eqb (key_of p) (t_byMessage t) with
  | None => (t, false)
  | Some e => let '(e', ok) := finishAttempt e tok in
              if ok then (with_maps t (al_set key_eqb (key_of p) e' (t_byMessage t)) (t_bySession t)
                                    (t_count t) (t_next t), true)
              else (t, false)
  end.

Definition FinishBind (t : tracker) (p : pending) (tok : N) : tracker * bool :=
  if negb (validPendingRecvAck p) || (tok =? 0) then (t, false) else finishBindLocked t p tok.

(* Bind: BindResult then FinishBind with the token just reserved (see header) *)
Definition Bind (t : tracker) (now : Z) (p : pending) : tracker * bool :=
  let '(t1, r) := BindResult t now p in
  match r with
  | RBind true _ tok _ =>
    let '(t2, _) := FinishBind t1 p tok in
    (with_maps t2 (t_byMessage t2) (t_bySession t2) (t_count t2) (t_next t), true)
  | _ => (t, false)
  end.

Definition batch_item_ok (ps : list pending) (toks : list N) (i : Z) : bool :=
  (0 <=? i)%Z && (i <? Z.of_nat (length ps))%Z && (i <? Z.of_nat (length toks))%Z
  && validPendingRecvAck (nth (Z.to_nat i) ps zero_pending)
  && negb (nth (Z.to_nat i) toks 0 =? 0).

Fixpoint finish_batch_loop (t : tracker) (ps : list pending) (toks : list N) (idx : list Z) : tracker * Z :=
  match idx with
  | [] => (t, 0%Z)
  | i :: r =>
    if batch_item_ok ps toks i then
      let '(t1, ok) := finishBindLocked t (nth (Z.to_nat i) ps zero_pending) (nth (Z.to_nat i) toks 0) in
      let '(t', n) := finish_batch_loop t1 ps toks r in
      (t', if ok then (n + 1)%Z else n)
    else finish_batch_loop t ps toks r
  end.

Definition FinishBindBatch (t : tracker) (ps : list pending) (toks : list N) (idx : list Z) : tracker * Z :=
  finish_batch_loop t ps toks idx.

Definition CancelBind (t : tracker) (p : pending) (tok : N) : tracker * out :=
  if negb (validPendingRecvAck p) || (tok =? 0) then (t, RCancel false false (t_count t))
  else match al_get key_eqb (key_of p) (t_byMessage t) with
       | None => (t, RCancel false false (t_count t))
       | Some e =>
         let '(e', ok) := cancelAttempt e tok in
         if negb ok then (t, RCancel false false (t_count t))
         else if e_committed e' || hasAttempts e'
         then (with_maps t (al_set key_eqb (key_of p) e' (t_byMessage t)) (t_bySession t)
                         (t_count t) (t_next t), RCancel true false (t_count t))
         else (with_maps t (al_del key_eqb (key_of p) (t_byMessage t))
                         (deleteSessionMessageLocked (t_bySession t) (skey_of p) (p_mid p))
                         (t_count t - 1)%Z (t_next t), RCancel true true (t_count t - 1)%Z)
       end.

Definition Ack (t : tracker) (uid sid mid : N) : tracker * out :=
  if (uid =? 0) || (sid =? 0) || (mid =? 0) then (t, RAck false zero_pending)
  else match al_get key_eqb (uid, sid, mid) (t_byMessage t) with
       | None => (t, RAck false zero_pending)
       | Some e =>
         (with_maps t (al_del key_eqb (uid, sid, mid) (t_byMessage t))
                    (deleteSessionMessageLocked (t_bySession t) (uid, sid) mid)
                    (t_count t - 1)%Z (t_next t), RAck true (e_pending e))
       end.

(* the loop of SessionClosed over the session's message ids *)
Fixpoint close_loop (bm : list (key * entry)) (uid sid : N) (mids : list N)
  : list (key * entry) * list pending :=
  match mids with
  | [] => (bm, [])
  | m :: r =>
    match al_get key_eqb (uid, sid, m) bm with
    | Some e => let '(bm', ps) := close_loop (al_del key_eqb (uid, sid, m) bm) uid sid r in
                (bm', e_pending e :: ps)
    | None => close_loop bm uid sid r
    end
  end.

Definition SessionClosed (t : tracker) (uid sid : N) : tracker * out :=
  if (uid =? 0) || (sid =? 0) then (t, RList [])
  else match al_get skey_eqb (uid, sid) (t_bySession t) with
       | None | Some [] => (t, RList [])
       | Some mids =>
         let '(bm, removed) := close_loop (t_byMessage t) uid sid mids in
         (with_maps t bm (al_del skey_eqb (uid, sid) (t_bySession t))
                    (t_count t - Z.of_nat (length removed))%Z (t_next t), RList removed)
       end.

(* int64 two's-complement wrap of the cutoff subtraction *)
Definition wrap_i64 (z : Z) : Z :=
  ((z + 9223372036854775808) mod 18446744073709551616 - 9223372036854775808)%Z.

Definition ttl_seconds (ttl : Z) : Z :=
  (Z.quot ttl time_second + (if Z.rem ttl time_second =? 0 then 0 else 1))%Z.

Fixpoint expire_sessions (bs : list (skey * list N)) (gone : list (key * entry)) :=
  match gone with
  | [] => bs
  | (k, _) :: r => expire_sessions (deleteSessionMessageLocked bs (key_skey k) (key_mid k)) r
  end.

Definition Expire (t : tracker) (now ttl : Z) : tracker * out :=
  if (ttl <=? 0)%Z then (t, RList [])
  else
    let cutoff := wrap_i64 (now - ttl_seconds ttl) in
    let gone := filter (fun ke => negb (hasDeliveryAfter (snd ke) cutoff)) (t_byMessage t) in
    let keep := filter (fun ke => hasDeliveryAfter (snd ke) cutoff) (t_byMessage t) in
    (with_maps t keep (expire_sessions (t_bySession t) gone)
               (t_count t - Z.of_nat (length gone))%Z (t_next t),
     RList (map (fun ke => e_pending (snd ke)) gone)).

Definition Reset (t : tracker) : tracker := with_maps t [] [] 0%Z (t_next t).

(* ---- histories ------------------------------------------------------------------- *)
Inductive op :=
| OClock (now : Z)
| OBind (p : pending)
| OBindCompat (p : pending)
| OBindBatch (ps : list pending)
| OFinish (p : pending) (tok : N)
| OFinishBatch (ps : list pending) (toks : list N) (idx : list Z)
| OCancel (p : pending) (tok : N)
| OAck (uid sid mid : N)
| OClose (uid sid : N)
| OExpire (ttl : Z)
| OReset.

(* one API call; the scripted clock is the second component of the state *)
Definition step (st : tracker * Z) (o : op) : (tracker * Z) * out :=
  let '(t, now) := st in
  match o with
  | OClock n => ((t, n), RUnit)
  | OBind p => let '(t', r) := BindResult t now p in ((t', now), r)
  | OBindCompat p => let '(t', b) := Bind t now p in ((t', now), RBool b)
  | OBindBatch ps => let '(t', r) := BindBatch t now ps in ((t', now), r)
  | OFinish p tok => let '(t', b) := FinishBind t p tok in ((t', now), RBool b)
  | OFinishBatch ps toks idx => let '(t', n) := FinishBindBatch t ps toks idx in ((t', now), RCount n)
  | OCancel p tok => let '(t', r) := CancelBind t p tok in ((t', now), r)
  | OAck u s m => let '(t', r) := Ack t u s m in ((t', now), r)
  | OClose u s => let '(t', r) := SessionClosed t u s in ((t', now), r)
  | OExpire ttl => let '(t', r) := Expire t now ttl in ((t', now), r)
  | OReset => ((Reset t, now), RUnit)
  end.

(* run a history; the trace pairs each op with its result and PendingCount() after it *)
Fixpoint run (st : tracker * Z) (ops : list op) : (tracker * Z) * list (op * out * Z) :=
  match ops with
  | [] => (st, [])
  | o :: r => let '(st1, res) := step st o in
              let '(st', tr) := run st1 r in
              (st', (o, res, t_count (fst st1)) :: tr)
  end.

(* ==== specification-level tracker used by the property monitor ======================
   per outstanding identity: the delivery time of the committed (last
   successfully finished) delivery if any, and the live reservations
   (token, delivery time). *)
Record sentry := SEnt { s_committed : option Z; s_live : list (N * Z) }.
Definition sstate := list (key * sentry).

Definition live_mem (tok : N) (l : list (N * Z)) : bool := existsb (fun a => fst a =? tok) l.
Definition live_del (tok : N) (l : list (N * Z)) : list (N * Z) :=
  filter (fun a => negb (fst a =? tok)) l.
Fixpoint live_at (tok : N) (l : list (N * Z)) : Z :=
  match l with
  | [] => 0%Z
  | a :: r => if fst a =? tok then snd a else live_at tok r
  end.

Definition eff_at (now : Z) (p : pending) : Z := if (p_at p =? 0)%Z then now else p_at p.

(* a reservation [tok] reported for [p] *)
Definition spec_bind (s : sstate) (now : Z) (p : pending) (tok : N) : option sstate :=
  let k := key_of p in
  match al_get key_eqb k s with
  | None => Some (al_set key_eqb k (SEnt None [(tok, eff_at now p)]) s)
  | Some e => if live_mem tok (s_live e) then None  (* token reused inside one identity *)
              else Some (al_set key_eqb k (SEnt (s_committed e) (s_live e ++ [(tok, eff_at now p)])) s)
  end.

Definition spec_has (s : sstate) (k : key) : bool :=
  match al_get key_eqb k s with Some _ => true | None => false end.

Definition spec_live (s : sstate) (p : pending) (tok : N) : bool :=
  negb (tok =? 0) &&
  match al_get key_eqb (key_of p) s with Some e => live_mem tok (s_live e) | None => false end.

Definition spec_finish (s : sstate) (p : pending) (tok : N) : sstate * bool :=
  if spec_live s p tok then
    match al_get key_eqb (key_of p) s with
    | Some e => (al_set key_eqb (key_of p)
                        (SEnt (Some (live_at tok (s_live e))) (live_del tok (s_live e))) s, true)
    | None => (s, false)
    end
  else (s, false).

(* rollback: (state, canceled, removed) *)
Definition spec_cancel (s : sstate) (p : pending) (tok : N) : sstate * bool * bool :=
  if spec_live s p tok then
    match al_get key_eqb (key_of p) s with
    | Some e =>
      let l := live_del tok (s_live e) in
      match s_committed e, l with
      | None, [] => (al_del key_eqb (key_of p) s, true, true)
      | c, _ => (al_set key_eqb (key_of p) (SEnt c l) s, true, false)
      end
    | None => (s, false, false)
    end
  else (s, false, false).

(* "idle past the ttl" : every committed / in-flight delivery of the identity is
   at least ttl old:  (now - at) seconds >= ttl nanoseconds, for 0 < ttl *)
Definition idle_past (now ttl at_ : Z) : bool := (ttl <=? (now - at_) * time_second)%Z.
Definition sentry_idle (now ttl : Z) (e : sentry) : bool :=
  (0 <? ttl)%Z
  && match s_committed e with Some c => idle_past now ttl c | None => true end
  && forallb (fun a => idle_past now ttl (snd a)) (s_live e).

Fixpoint keys_nodup (ks : list key) : bool :=
  match ks with
  | [] => true
  | k :: r => negb (existsb (key_eqb k) r) && keys_nodup r
  end.

Definition scount (s : sstate) : Z := Z.of_nat (length s).

Fixpoint spec_bind_batch (s : sstate) (now : Z) (ps : list pending) (toks : list N) : option sstate :=
  match ps, toks with
  | [], [] => Some s
  | p :: ps', tok :: toks' =>
    if tok =? 0 then spec_bind_batch s now ps' toks'
    else match spec_bind s now p tok with
         | None => None
         | Some s' => spec_bind_batch s' now ps' toks'
         end
  | _, _ => None   (* tokens not aligned with the input *)
  end.

Fixpoint spec_finish_batch (s : sstate) (ps : list pending) (toks : list N) (idx : list Z) : sstate * Z :=
  match idx with
  | [] => (s, 0%Z)
  | i :: r =>
    if (0 <=? i)%Z && (i <? Z.of_nat (length ps))%Z && (i <? Z.of_nat (length toks))%Z then
      let '(s1, ok) := spec_finish s (nth (Z.to_nat i) ps zero_pending) (nth (Z.to_nat i) toks 0) in
      let '(s', n) := spec_finish_batch s1 ps toks r in
      (s', if ok then (n + 1)%Z else n)
    else spec_finish_batch s ps toks r
  end.

Fixpoint spec_del_keys (s : sstate) (ks : list key) : sstate :=
  match ks with
  | [] => s
  | k :: r => spec_del_keys (al_del key_eqb k s) r
  end.

Definition count_nonzero (l : list N) : Z := Z.of_nat (length (filter (fun x => negb (x =? 0)) l)).

(* one observed step against the specification: [None] = the observation
   contradicts the property *)
Definition spec_step (s : sstate) (now : Z) (o : op) (r : out) : option (sstate * Z) :=
  match o, r with
  | OClock n, RUnit => Some (s, n)
  | OBind p, RBind bound added tok count =>
    if bound then
      if tok =? 0 then None
      else match spec_bind s now p tok with
           | None => None
           | Some s' =>
             if Bool.eqb added (negb (spec_has s (key_of p))) && (count =? scount s')%Z
             then Some (s', now) else None
           end
    else if negb added && (tok =? 0) && (count =? scount s)%Z then Some (s, now) else None
  | OBindCompat p, RBool b =>
    if b then
      (* a reservation that is finished at once: the identity is outstanding and committed *)
      let k := key_of p in
      let e' := match al_get key_eqb k s with
                | Some e => SEnt (Some (eff_at now p)) (s_live e)
                | None => SEnt (Some (eff_at now p)) []
                end in
      Some (al_set key_eqb k e' s, now)
    else Some (s, now)
  | OBindBatch ps, RBindBatch toks bound added _ count =>
    match spec_bind_batch s now ps toks with
    | None => None
    | Some s' =>
      if (bound =? count_nonzero toks)%Z && (added =? scount s' - scount s)%Z && (count =? scount s')%Z
      then Some (s', now) else None
    end
  | OFinish p tok, RBool b =>
    let '(s', ok) := spec_finish s p tok in
    if Bool.eqb b ok then Some (s', now) else None
  | OFinishBatch ps toks idx, RCount n =>
    let '(s', m) := spec_finish_batch s ps toks idx in
    if (n =? m)%Z then Some (s', now) else None
  | OCancel p tok, RCancel canceled removed count =>
    let '(s', c, rm) := spec_cancel s p tok in
    if Bool.eqb canceled c && Bool.eqb removed rm && (count =? scount s')%Z then Some (s', now) else None
  | OAck u sid m, RAck ok p =>
    if spec_has s (u, sid, m) then
      if ok && key_eqb (key_of p) (u, sid, m) then Some (al_del key_eqb (u, sid, m) s, now) else None
    else if ok then None else Some (s, now)
  | OClose u sid, RList ps =>
    (* exactly that session's identities, each once *)
    let mine := filter (fun ke => skey_eqb (key_skey (fst ke)) (u, sid)) s in
    let ks := map key_of ps in
    if keys_nodup ks && Nat.eqb (length ks) (length mine) && forallb (fun k => spec_has mine k) ks
    then Some (filter (fun ke => negb (skey_eqb (key_skey (fst ke)) (u, sid))) s, now) else None
  | OExpire ttl, RList ps =>
    (* only outstanding identities that are idle past the ttl, each once *)
    let ks := map key_of ps in
    if keys_nodup ks
       && forallb (fun k => match al_get key_eqb k s with
                            | Some e => sentry_idle now ttl e
                            | None => false
                            end) ks
    then Some (spec_del_keys s ks, now) else None
  | OReset, RUnit => Some ([], now)
  | _, _ => None
  end.

(* the whole trace: after every step the observed PendingCount() equals the
   number of outstanding identities *)
Fixpoint spec_run (s : sstate) (now : Z) (tr : list (op * out * Z)) : option sstate :=
  match tr with
  | [] => Some s
  | (o, r, c) :: rest =>
    match spec_step s now o r with
    | None => None
    | Some (s', now') => if (c =? scount s')%Z then spec_run s' now' rest else None
    end
  end.

(* ---- case-file interface ---------------------------------------------------------- *)
Record c32_case := C32Case {
  c_shards : Z; c_limit : Z; c_now : Z;
  c_steps : list (op * out * Z);             (* op, implementation result, PendingCount() after *)
  c_entries : list (key * entry);            (* final byMessage rows (export snapshot) *)
  c_sessions : list (skey * list N) }.       (* final bySession rows *)

Fixpoint remove_first {A} (eqb : A -> A -> bool) (x : A) (l : list A) : option (list A) :=
  match l with
  | [] => None
  | y :: r => if eqb x y then Some r
              else match remove_first eqb x r with Some r' => Some (y :: r') | None => None end
  end.
Fixpoint perm_eqb {A} (eqb : A -> A -> bool) (a b : list A) : bool :=
  match a with
  | [] => match b with [] => true | _ => false end
  | x :: a' => match remove_first eqb x b with Some b' => perm_eqb eqb a' b' | None => false end
  end.

Definition attempt_eqb (a b : attempt) : bool :=
  (a_token a =? a_token b) && pending_eqb (a_pending a) (a_pending b).
Definition entry_eqb (a b : entry) : bool :=
  pending_eqb (e_pending a) (e_pending b) && Bool.eqb (e_committed a) (e_committed b)
  && (e_primary a =? e_primary b) && list_eqb attempt_eqb (e_extra a) (e_extra b).

Definition out_eqb (a b : out) : bool :=
  match a, b with
  | RUnit, RUnit => true
  | RBool x, RBool y => Bool.eqb x y
  | RCount x, RCount y => (x =? y)%Z
  | RBind b1 a1 t1 c1, RBind b2 a2 t2 c2 => Bool.eqb b1 b2 && Bool.eqb a1 a2 && (t1 =? t2) && (c1 =? c2)%Z
  | RBindBatch t1 b1 a1 s1 c1, RBindBatch t2 b2 a2 s2 c2 =>
    list_eqb N.eqb t1 t2 && (b1 =? b2)%Z && (a1 =? a2)%Z && (s1 =? s2)%Z && (c1 =? c2)%Z
  | RCancel c1 r1 n1, RCancel c2 r2 n2 => Bool.eqb c1 c2 && Bool.eqb r1 r2 && (n1 =? n2)%Z
  | RAck o1 p1, RAck o2 p2 => Bool.eqb o1 o2 && pending_eqb p1 p2
  | RList l1, RList l2 => perm_eqb pending_eqb l1 l2   (* Go map iteration order *)
  | _, _ => false
  end.

Definition step_eqb (a b : op * out * Z) : bool :=
  out_eqb (snd (fst a)) (snd (fst b)) && (snd a =? snd b)%Z.

Definition entries_eqb (impl model : list (key * entry)) : bool :=
  Nat.eqb (length impl) (length model)
  && forallb (fun ke => match al_get key_eqb (fst ke) model with
                        | Some e => entry_eqb (snd ke) e
                        | None => false
                        end) impl.
Definition sessions_eqb (impl model : list (skey * list N)) : bool :=
  Nat.eqb (length impl) (length model)
  && forallb (fun ke => match al_get skey_eqb (fst ke) model with
                        | Some ms => perm_eqb N.eqb (snd ke) ms
                        | None => false
                        end) impl.

Definition C32_mismatch (c : c32_case) : bool :=
  let '((t, _), tr) := run (NewAckTracker (c_shards c) (c_limit c), c_now c) (map (fun s => fst (fst s)) (c_steps c)) in
  negb (list_eqb step_eqb (c_steps c) tr
        && entries_eqb (c_entries c) (t_byMessage t)
        && sessions_eqb (c_sessions c) (t_bySession t)).

(* the property on the implementation's observations alone:
   the observed results are those of the specification tracker, the observed
   count is the number of outstanding identities after every call, the final
   internal map holds exactly the outstanding identities and the final session
   index is its projection *)
(* the final session index is exactly the projection of the final rows: every
   indexed message id is a stored identity of that session and every stored
   identity is indexed (a closed / acked / expired identity leaves nothing behind) *)
Definition index_is_projection (entries : list (key * entry)) (sessions : list (skey * list N)) : bool :=
  forallb (fun row : skey * list N =>
             match snd row with
             | [] => false
             | ms => forallb (fun m => match al_get key_eqb (fst (fst row), snd (fst row), m) entries with
                                       | Some _ => true | None => false end) ms
             end) sessions
  && forallb (fun ke : key * entry =>
                match al_get skey_eqb (key_skey (fst ke)) sessions with
                | Some ms => mem_mid (key_mid (fst ke)) ms
                | None => false
                end) entries.

Definition C32_monitor (c : c32_case) : N :=
  match spec_run [] (c_now c) (c_steps c) with
  | None => 1
  | Some s =>
    if Nat.eqb (length (c_entries c)) (length s)
       && keys_nodup (map fst (c_entries c))
       && forallb (fun ke => spec_has s (fst ke)) (c_entries c)
       && index_is_projection (c_entries c) (c_sessions c)
    then 0 else 1
  end.
