(* Bytes.v — fixed-width big/little-endian integer codecs over [bytes] = list N,
   with round-trip, length and byte-range lemmas.  Shared by the codec models. *)
From WK Require Import Base.Base.
From Coq Require Import ZifyBool ZifyN ZifyNat.
Open Scope N_scope.

(* little-endian, [w] bytes *)
Fixpoint le_put (w : nat) (x : N) : bytes :=
  match w with
  | O => []
  | S w' => (x mod 256) :: le_put w' (x / 256)
  end.
Definition be_put (w : nat) (x : N) : bytes := rev (le_put w x).

Fixpoint le_get (bs : bytes) : N :=
  match bs with
  | [] => 0
  | b :: r => b + 256 * le_get r
  end.
Definition be_get (bs : bytes) : N := fold_left (fun acc b => acc * 256 + b) bs 0.

(* [take n bs] = Some (first n bytes, rest) when bs is long enough — the guarded slice *)
Definition take (n : nat) (bs : bytes) : option (bytes * bytes) :=
  if Nat.leb n (length bs) then Some (firstn n bs, skipn n bs) else None.

Definition put_u8 (x : N) : bytes := be_put 1 x.
Definition put_u16 (x : N) : bytes := be_put 2 x.
Definition put_u32 (x : N) : bytes := be_put 4 x.
Definition put_u64 (x : N) : bytes := be_put 8 x.

(* read a big-endian integer of [w] bytes from the front *)
Definition get_be (w : nat) (bs : bytes) : option (N * bytes) :=
  match take w bs with
  | Some (h, r) => Some (be_get h, r)
  | None => None
  end.
Definition get_le (w : nat) (bs : bytes) : option (N * bytes) :=
  match take w bs with
  | Some (h, r) => Some (le_get h, r)
  | None => None
  end.

(* ---- lemmas ------------------------------------------------------------ *)

Lemma le_put_length w : forall x, length (le_put w x) = w.
Proof. induction w as [|w IH]; intro x; simpl; [reflexivity|]. rewrite IH. reflexivity. Qed.

Lemma be_put_length w x : length (be_put w x) = w.
Proof. unfold be_put. rewrite rev_length. apply le_put_length. Qed.

Lemma le_put_all_bytes w : forall x, all_bytes (le_put w x) = true.
Proof.
  induction w as [|w IH]; intro x; [reflexivity|].
  cbn [le_put all_bytes forallb]. fold (all_bytes (le_put w (x / 256))). rewrite IH.
  unfold is_byte. assert (x mod 256 < 256) by (apply N.mod_lt; discriminate).
  apply andb_true_iff. split; [apply N.ltb_lt; assumption|reflexivity].
Qed.

Lemma all_bytes_app a b : all_bytes (a ++ b) = all_bytes a && all_bytes b.
Proof. unfold all_bytes. apply forallb_app. Qed.

Lemma all_bytes_rev a : all_bytes (rev a) = all_bytes a.
Proof.
  induction a as [|x a IH]; [reflexivity|].
  cbn [rev]. rewrite all_bytes_app, IH. cbn [all_bytes forallb].
  rewrite andb_true_r. apply andb_comm.
Qed.

Lemma be_put_all_bytes w x : all_bytes (be_put w x) = true.
Proof. unfold be_put. rewrite all_bytes_rev. apply le_put_all_bytes. Qed.

Lemma le_get_put w : forall x, x < 256 ^ N.of_nat w -> le_get (le_put w x) = x.
Proof.
  induction w as [|w IH]; intros x Hx.
  - simpl in Hx. cbn [le_put le_get]. lia.
  - cbn [le_put le_get]. rewrite IH.
    + pose proof (N.div_mod x 256). lia.
    + rewrite Nnat.Nat2N.inj_succ, N.pow_succ_r' in Hx.
      apply N.div_lt_upper_bound; [discriminate|exact Hx].
Qed.

Lemma be_get_le_get bs : be_get bs = le_get (rev bs).
Proof.
  unfold be_get. induction bs as [|b r IH] using rev_ind; [reflexivity|].
  rewrite fold_left_app, rev_app_distr. cbn [fold_left rev app le_get].
  rewrite IH. lia.
Qed.

Lemma be_get_put w x : x < 256 ^ N.of_nat w -> be_get (be_put w x) = x.
Proof.
  intro Hx. rewrite be_get_le_get. unfold be_put. rewrite rev_involutive.
  apply le_get_put. exact Hx.
Qed.

Lemma le_get_bound bs : all_bytes bs = true -> le_get bs < 256 ^ N.of_nat (length bs).
Proof.
  induction bs as [|b r IH]; intro H.
  - cbn. lia.
  - cbn [all_bytes forallb] in H. apply andb_true_iff in H. destruct H as [Hb Hr].
    unfold is_byte in Hb. apply N.ltb_lt in Hb.
    cbn [le_get length]. rewrite Nnat.Nat2N.inj_succ, N.pow_succ_r'.
    specialize (IH Hr). lia.
Qed.

Lemma le_put_get bs : all_bytes bs = true -> le_put (length bs) (le_get bs) = bs.
Proof.
  induction bs as [|b r IH]; intro H; [reflexivity|].
  cbn [all_bytes forallb] in H. apply andb_true_iff in H. destruct H as [Hb Hr].
  unfold is_byte in Hb. apply N.ltb_lt in Hb.
  cbn [length le_put le_get].
  assert (E1 : (b + 256 * le_get r) mod 256 = b).
  { replace (b + 256 * le_get r) with (b + le_get r * 256) by lia.
    rewrite N.mod_add by discriminate. apply N.mod_small. exact Hb. }
  assert (E2 : (b + 256 * le_get r) / 256 = le_get r).
  { replace (b + 256 * le_get r) with (b + le_get r * 256) by lia.
    rewrite N.div_add by discriminate.
    rewrite (N.div_small b 256) by exact Hb. lia. }
  rewrite E1, E2, (IH Hr). reflexivity.
Qed.

Lemma be_put_get bs : all_bytes bs = true -> be_put (length bs) (be_get bs) = bs.
Proof.
  intro H. unfold be_put. rewrite be_get_le_get. rewrite <- (rev_length bs).
  rewrite le_put_get by (rewrite all_bytes_rev; exact H). apply rev_involutive.
Qed.

Lemma take_app n a b : length a = n -> take n (a ++ b) = Some (a, b).
Proof.
  intro H. unfold take. rewrite app_length.
  assert (L : Nat.leb n (length a + length b) = true) by (apply Nat.leb_le; lia).
  rewrite L. subst n. rewrite firstn_app, Nat.sub_diag, firstn_all, firstn_O, app_nil_r.
  rewrite skipn_app, Nat.sub_diag, skipn_all. reflexivity.
Qed.

Lemma take_spec n bs h r : take n bs = Some (h, r) -> bs = h ++ r /\ length h = n.
Proof.
  unfold take. destruct (Nat.leb n (length bs)) eqn:L; [|discriminate].
  intro E. inversion E; subst. split.
  - symmetry. apply firstn_skipn.
  - apply firstn_length_le. apply Nat.leb_le. exact L.
Qed.

Lemma take_none n bs : take n bs = None <-> (length bs < n)%nat.
Proof.
  unfold take. destruct (Nat.leb n (length bs)) eqn:L.
  - apply Nat.leb_le in L. split; [discriminate|lia].
  - apply Nat.leb_gt in L. split; [intros _; exact L|reflexivity].
Qed.

Lemma get_be_put w x rest : x < 256 ^ N.of_nat w -> get_be w (be_put w x ++ rest) = Some (x, rest).
Proof.
  intro Hx. unfold get_be. rewrite take_app by apply be_put_length.
  rewrite be_get_put by exact Hx. reflexivity.
Qed.

Lemma get_le_put w x rest : x < 256 ^ N.of_nat w -> get_le w (le_put w x ++ rest) = Some (x, rest).
Proof.
  intro Hx. unfold get_le. rewrite take_app by apply le_put_length.
  rewrite le_get_put by exact Hx. reflexivity.
Qed.

(* same-width encodings are injective, hence [a ++ r = b ++ r'] splits *)
Lemma app_inv_length {A} (a b r r' : list A) : length a = length b -> a ++ r = b ++ r' -> a = b /\ r = r'.
Proof.
  revert b. induction a as [|x a IH]; intros [|y b] L E; try discriminate.
  - split; [reflexivity|exact E].
  - cbn in L, E. inversion E; subst. destruct (IH b) as [-> ->]; [lia|assumption|]. split; reflexivity.
Qed.

Lemma be_put_inj w x y : x < 256 ^ N.of_nat w -> y < 256 ^ N.of_nat w -> be_put w x = be_put w y -> x = y.
Proof.
  intros Hx Hy E. rewrite <- (be_get_put w x Hx), <- (be_get_put w y Hy), E. reflexivity.
Qed.

(* u64 length ‖ data : prefix-free *)
Definition put_bytes64 (d : bytes) : bytes := put_u64 (N.of_nat (length d)) ++ d.

Lemma put_bytes64_inj_app a b r r' :
  N.of_nat (length a) < 256 ^ 8 -> N.of_nat (length b) < 256 ^ 8 ->
  put_bytes64 a ++ r = put_bytes64 b ++ r' -> a = b /\ r = r'.
Proof.
  intros Ha Hb E. unfold put_bytes64, put_u64 in E. rewrite <- !app_assoc in E.
  apply app_inv_length in E; [|rewrite !be_put_length; reflexivity].
  destruct E as [E1 E2].
  apply be_put_inj in E1; [|exact Ha|exact Hb].
  apply Nnat.Nat2N.inj in E1.
  apply app_inv_length in E2; [exact E2|exact E1].
Qed.
