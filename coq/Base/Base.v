(* Base.v — shared executable helpers for every model: hex byte strings, case
   file plumbing (index filters), small list utilities.  Definitions and a few
   elementary lemmas only; stdlib only. *)
From Coq Require Export String Ascii.
From Coq Require Export NArith ZArith Bool Lia List.
Export ListNotations.
(* List is exported last so that [length], [concat], [append] name the list versions *)
Open Scope N_scope.

(* ---- bytes: a byte is an N below 256; byte strings are [list N] -------- *)

Definition bytes := list N.

Definition is_byte (b : N) : bool := b <? 256.
Definition all_bytes (bs : bytes) : bool := forallb is_byte bs.

Definition hexval (c : ascii) : N :=
  let n := N_of_ascii c in
  if (48 <=? n) && (n <=? 57) then n - 48
  else if (97 <=? n) && (n <=? 102) then n - 87
  else if (65 <=? n) && (n <=? 70) then n - 55
  else 0.

(* [hx "68690a"] = [104; 105; 10].  Used by generated case files so that byte
   strings are one token for the parser. *)
Fixpoint hx (s : string) : bytes :=
  match s with
  | String a (String b r) => (hexval a * 16 + hexval b) :: hx r
  | _ => []
  end.

(* ---- case-file plumbing ------------------------------------------------ *)

(* indexes (from 0) of the cases on which [f] is true *)
Fixpoint idx_filter_from {A} (f : A -> bool) (i : nat) (l : list A) : list nat :=
  match l with
  | [] => []
  | x :: r => if f x then i :: idx_filter_from f (S i) r
              else idx_filter_from f (S i) r
  end.
Definition idx_filter {A} (f : A -> bool) (l : list A) : list nat :=
  idx_filter_from f 0 l.

(* (index, code) for the cases whose monitor code is non-zero.
   code 0 = property holds on the case, 1 = violation,
   2+k = the case matches known-finding signature number k. *)
Fixpoint idx_codes_from {A} (f : A -> N) (i : nat) (l : list A) : list (nat * N) :=
  match l with
  | [] => []
  | x :: r => match f x with
              | 0 => idx_codes_from f (S i) r
              | c => (i, c) :: idx_codes_from f (S i) r
              end
  end.
Definition idx_codes {A} (f : A -> N) (l : list A) : list (nat * N) :=
  idx_codes_from f 0 l.

(* ---- small utilities ---------------------------------------------------- *)

Fixpoint list_eqb {A} (eqb : A -> A -> bool) (a b : list A) : bool :=
  match a, b with
  | [], [] => true
  | x :: a', y :: b' => eqb x y && list_eqb eqb a' b'
  | _, _ => false
  end.

Definition bytes_eqb : bytes -> bytes -> bool := list_eqb N.eqb.

Definition option_eqb {A} (eqb : A -> A -> bool) (a b : option A) : bool :=
  match a, b with
  | None, None => true
  | Some x, Some y => eqb x y
  | _, _ => false
  end.

Lemma list_eqb_spec {A} (eqb : A -> A -> bool)
      (H : forall x y, eqb x y = true <-> x = y) :
  forall a b, list_eqb eqb a b = true <-> a = b.
Proof.
  induction a as [|x a IH]; destruct b as [|y b]; simpl; split; intro E;
    try reflexivity; try discriminate.
  - apply andb_true_iff in E. destruct E as [E1 E2].
    apply H in E1. apply IH in E2. subst. reflexivity.
  - inversion E; subst. apply andb_true_iff. split.
    + apply H. reflexivity.
    + apply IH. reflexivity.
Qed.

Lemma bytes_eqb_eq a b : bytes_eqb a b = true <-> a = b.
Proof. apply list_eqb_spec. intros. apply N.eqb_eq. Qed.

Definition u64max : N := 18446744073709551615.
Definition u32max : N := 4294967295.
Definition u16max : N := 65535.
Definition wrap64 (x : N) : N := x mod 18446744073709551616.
Definition wrap32 (x : N) : N := x mod 4294967296.
