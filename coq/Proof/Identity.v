(* Proof/Identity.v — the entry pre-image is injective in every semantic field;
   hence equal digests mean equal content or an explicit hash collision;
   VerifyEntry accepts exactly the sealed content. *)
From WK Require Import Base.Base Base.Bytes Gen.Consts_C05 Model.Identity.
Open Scope N_scope.

(* ---- small facts --------------------------------------------------------------- *)

Lemma pow8' : 256 ^ N.of_nat 8 = 18446744073709551616. Proof. reflexivity. Qed.
Lemma pow1' : 256 ^ N.of_nat 1 = 256. Proof. reflexivity. Qed.
Lemma pow8'' : 256 ^ 8 = 18446744073709551616. Proof. reflexivity. Qed.

Lemma put_u64_inj_app x y (r r' : bytes) : u64 x = true -> u64 y = true ->
  put_u64 x ++ r = put_u64 y ++ r' -> x = y /\ r = r'.
Proof.
  unfold u64. intros Hx Hy E. apply N.ltb_lt in Hx, Hy.
  apply app_inv_length in E; [|unfold put_u64; rewrite !be_put_length; reflexivity].
  destruct E as [E1 E2]. split; [|exact E2].
  unfold put_u64 in E1. apply be_put_inj in E1; [exact E1| |]; rewrite pow8'; assumption.
Qed.

Lemma put_u8_inj_app x y (r r' : bytes) : x < 256 -> y < 256 ->
  put_u8 x ++ r = put_u8 y ++ r' -> x = y /\ r = r'.
Proof.
  intros Hx Hy E.
  apply app_inv_length in E; [|unfold put_u8; rewrite !be_put_length; reflexivity].
  destruct E as [E1 E2]. split; [|exact E2].
  unfold put_u8 in E1. apply be_put_inj in E1; [exact E1| |]; rewrite pow1'; assumption.
Qed.

Lemma fixed_inj_app (a b r r' : bytes) n : length a = n -> length b = n ->
  a ++ r = b ++ r' -> a = b /\ r = r'.
Proof. intros La Lb E. apply app_inv_length in E; [exact E|congruence]. Qed.

Lemma u64_of_i64_lt z : u64 (u64_of_i64 z) = true.
Proof.
  unfold u64, u64_of_i64. apply N.ltb_lt.
  pose proof (Z.mod_pos_bound z 18446744073709551616 eq_refl) as B.
  apply N2Z.inj_lt. rewrite Z2N.id by lia. change (Z.of_N 18446744073709551616) with 18446744073709551616%Z. lia.
Qed.

Lemma u64_of_i64_inj a b : i64 a = true -> i64 b = true -> u64_of_i64 a = u64_of_i64 b -> a = b.
Proof.
  unfold i64, u64_of_i64. rewrite !andb_true_iff, !Z.leb_le, !Z.ltb_lt. intros [A1 A2] [B1 B2] E.
  pose proof (Z.mod_pos_bound a 18446744073709551616 eq_refl) as Ma.
  pose proof (Z.mod_pos_bound b 18446744073709551616 eq_refl) as Mb.
  apply (f_equal Z.of_N) in E. rewrite !Z2N.id in E by lia.
  pose proof (Z.div_mod a 18446744073709551616 ltac:(lia)) as Da.
  pose proof (Z.div_mod b 18446744073709551616 ltac:(lia)) as Db.
  assert (Qa : (a / 18446744073709551616 = 0 \/ a / 18446744073709551616 = -1)%Z) by lia.
  assert (Qb : (b / 18446744073709551616 = 0 \/ b / 18446744073709551616 = -1)%Z) by lia.
  lia.
Qed.

Lemma sync_byte_lt b : sync_byte b < 256. Proof. destruct b; cbn; lia. Qed.
Lemma sync_byte_inj a b : sync_byte a = sync_byte b -> a = b.
Proof. destruct a, b; cbn; intro E; try reflexivity; discriminate. Qed.

Lemma len32_eq b : len32 b = true -> length b = 32%nat.
Proof. unfold len32. apply Nat.eqb_eq. Qed.

Lemma len_u64_lt b : len_u64 b = true -> N.of_nat (length b) < 256 ^ 8.
Proof. unfold len_u64. rewrite pow8''. apply N.ltb_lt. Qed.

(* the digest field of the identity is not part of the pre-image *)
Lemma preimage_with_digest e d r : preimage (with_digest e d) r = preimage e r.
Proof. reflexivity. Qed.

(* ---- injectivity of the pre-image ------------------------------------------------ *)

Record content_eq (e : entry) (r : record) (e' : entry) (r' : record) : Prop := ContentEq {
  ce_epoch : e_epoch e = e_epoch e'; ce_term : e_term e = e_term e'; ce_fence : e_fence e = e_fence e';
  ce_index : e_index e = e_index e'; ce_prev_term : e_prev_term e = e_prev_term e';
  ce_prev_index : e_prev_index e = e_prev_index e'; ce_cmd : e_cmd e = e_cmd e';
  ce_prev_digest : e_prev_digest e = e_prev_digest e';
  ce_id : r_id r = r_id r'; ce_setting : r_setting r = r_setting r'; ce_sync : r_sync r = r_sync r';
  ce_ts : r_ts r = r_ts r'; ce_uid : r_uid r = r_uid r'; ce_clientno : r_clientno r = r_clientno r';
  ce_payload : r_payload r = r_payload r' }.

Lemma content_eqb_iff e r e' r' : content_eqb e r e' r' = true <-> content_eq e r e' r'.
Proof.
  unfold content_eqb. rewrite !andb_true_iff, !N.eqb_eq, !bytes_eqb_eq, Z.eqb_eq, Bool.eqb_true_iff.
  split.
  - intros [[[[[[[[[[[[[[A1 A2] A3] A4] A5] A6] A7] A8] A9] A10] A11] A12] A13] A14] A15].
    constructor; assumption.
  - intros [A1 A2 A3 A4 A5 A6 A7 A8 A9 A10 A11 A12 A13 A14 A15]. tauto.
Qed.

Lemma entry_domain_inv e : entry_in_domain e = true ->
  u64 (e_epoch e) = true /\ u64 (e_term e) = true /\ u64 (e_fence e) = true /\ u64 (e_index e) = true
  /\ u64 (e_prev_term e) = true /\ u64 (e_prev_index e) = true
  /\ length (e_cmd e) = 32%nat /\ length (e_prev_digest e) = 32%nat.
Proof.
  unfold entry_in_domain. rewrite !andb_true_iff. intros [[[[[[[A1 A2] A3] A4] A5] A6] A7] A8].
  repeat split; try assumption; apply len32_eq; assumption.
Qed.

Lemma record_domain_inv r : record_in_domain r = true ->
  u64 (r_id r) = true /\ r_setting r < 256 /\ i64 (r_ts r) = true
  /\ N.of_nat (length (r_uid r)) < 256 ^ 8 /\ N.of_nat (length (r_clientno r)) < 256 ^ 8
  /\ N.of_nat (length (r_payload r)) < 256 ^ 8.
Proof.
  unfold record_in_domain. rewrite !andb_true_iff. intros [[[[[A1 A2] A3] A4] A5] A6].
  repeat split; try assumption; try (apply len_u64_lt; assumption). apply N.ltb_lt. exact A2.
Qed.

(* C05: equal pre-images => every semantic field equal (field domains = the Go types) *)
Lemma preimage_inj e r e' r' :
  entry_in_domain e = true -> record_in_domain r = true ->
  entry_in_domain e' = true -> record_in_domain r' = true ->
  preimage e r = preimage e' r' -> content_eq e r e' r'.
Proof.
  intros De Dr De' Dr' E.
  apply entry_domain_inv in De, De'. apply record_domain_inv in Dr, Dr'.
  destruct De as (E1 & E2 & E3 & E4 & E5 & E6 & E7 & E8).
  destruct De' as (E1' & E2' & E3' & E4' & E5' & E6' & E7' & E8').
  destruct Dr as (R1 & R2 & R3 & R4 & R5 & R6).
  destruct Dr' as (R1' & R2' & R3' & R4' & R5' & R6').
  unfold preimage in E. apply app_inv_head in E.
  apply put_u64_inj_app in E; [|assumption|assumption]. destruct E as [Q1 E].
  apply put_u64_inj_app in E; [|assumption|assumption]. destruct E as [Q2 E].
  apply put_u64_inj_app in E; [|assumption|assumption]. destruct E as [Q3 E].
  apply put_u64_inj_app in E; [|assumption|assumption]. destruct E as [Q4 E].
  apply put_u64_inj_app in E; [|assumption|assumption]. destruct E as [Q5 E].
  apply put_u64_inj_app in E; [|assumption|assumption]. destruct E as [Q6 E].
  apply (fixed_inj_app _ _ _ _ 32%nat) in E; [|assumption|assumption]. destruct E as [Q7 E].
  apply (fixed_inj_app _ _ _ _ 32%nat) in E; [|assumption|assumption]. destruct E as [Q8 E].
  apply put_u64_inj_app in E; [|assumption|assumption]. destruct E as [Q9 E].
  apply put_u8_inj_app in E; [|assumption|assumption]. destruct E as [Q10 E].
  apply put_u8_inj_app in E; [|apply sync_byte_lt|apply sync_byte_lt]. destruct E as [Q11 E].
  apply put_u64_inj_app in E; [|apply u64_of_i64_lt|apply u64_of_i64_lt]. destruct E as [Q12 E].
  apply put_bytes64_inj_app in E; [|assumption|assumption]. destruct E as [Q13 E].
  apply put_bytes64_inj_app in E; [|assumption|assumption]. destruct E as [Q14 E].
  rewrite <- (app_nil_r (put_bytes64 (r_payload r))), <- (app_nil_r (put_bytes64 (r_payload r'))) in E.
  apply put_bytes64_inj_app in E; [|assumption|assumption]. destruct E as [Q15 _].
  constructor; try assumption.
  - apply sync_byte_inj. exact Q11.
  - apply u64_of_i64_inj; assumption.
Qed.

Lemma preimage_inj_b e r e' r' :
  entry_in_domain e = true -> record_in_domain r = true ->
  entry_in_domain e' = true -> record_in_domain r' = true ->
  preimage e r = preimage e' r' -> content_eqb e r e' r' = true.
Proof. intros. apply content_eqb_iff. apply preimage_inj; assumption. Qed.

(* the converse: the pre-image depends on nothing else (not on Version, not on
   the identity's own Digest, not on the record's Index/Epoch copies) *)
Lemma content_eq_preimage e r e' r' : content_eq e r e' r' -> preimage e r = preimage e' r'.
Proof. intros [A1 A2 A3 A4 A5 A6 A7 A8 A9 A10 A11 A12 A13 A14 A15]. unfold preimage. congruence. Qed.

(* changing any semantic field changes the pre-image *)
Lemma field_change_changes_preimage e r e' r' :
  entry_in_domain e = true -> record_in_domain r = true ->
  entry_in_domain e' = true -> record_in_domain r' = true ->
  content_eqb e r e' r' = false -> preimage e r <> preimage e' r'.
Proof.
  intros De Dr De' Dr' C E. rewrite (preimage_inj_b e r e' r' De Dr De' Dr' E) in C. discriminate.
Qed.

(* ---- with the hash ------------------------------------------------------------------ *)

Definition collision (H : bytes -> bytes) : Prop := exists p1 p2, p1 <> p2 /\ H p1 = H p2.
Definition zero_image (H : bytes -> bytes) : Prop := exists p, H p = zero32.

Lemma bytes_eq_dec (a b : bytes) : {a = b} + {a <> b}.
Proof. apply list_eq_dec. apply N.eq_dec. Qed.

Section WithHash.
  Variable H : bytes -> bytes.

  (* C05: equal digests => equal content, or an explicit collision of H *)
  Lemma digest_binds e r e' r' :
    entry_in_domain e = true -> record_in_domain r = true ->
    entry_in_domain e' = true -> record_in_domain r' = true ->
    digest_proposal_entry H e r = digest_proposal_entry H e' r' ->
    content_eq e r e' r' \/ collision H.
  Proof.
    intros De Dr De' Dr' E. unfold digest_proposal_entry in E.
    destruct (bytes_eq_dec (preimage e r) (preimage e' r')) as [P|P].
    - left. apply preimage_inj; assumption.
    - right. exists (preimage e r), (preimage e' r'). split; assumption.
  Qed.

  Lemma verify_entry_iff e r :
    verify_entry H e r = true <->
    verify_guards e r = true /\ H (preimage e r) = e_digest e.
  Proof.
    unfold verify_entry, digest_proposal_entry. rewrite andb_true_iff, bytes_eqb_eq. tauto.
  Qed.

  (* verification is exact: two accepted (identity, record) pairs whose
     identities carry the same digest have the same content (or H collides) *)
  Lemma verify_exact e r e' r' :
    entry_in_domain e = true -> record_in_domain r = true ->
    entry_in_domain e' = true -> record_in_domain r' = true ->
    verify_entry H e r = true -> verify_entry H e' r' = true -> e_digest e = e_digest e' ->
    content_eq e r e' r' \/ collision H.
  Proof.
    intros De Dr De' Dr' V V' D. apply verify_entry_iff in V, V'. destruct V as [_ V]. destruct V' as [_ V'].
    apply digest_binds; try assumption. unfold digest_proposal_entry. congruence.
  Qed.

  (* verify only looks at H on this one pre-image *)
  Lemma verify_entry_ext (H2 : bytes -> bytes) e r :
    H (preimage e r) = H2 (preimage e r) -> verify_entry H e r = verify_entry H2 e r.
  Proof. intro E. unfold verify_entry, digest_proposal_entry. rewrite E. reflexivity. Qed.
End WithHash.
