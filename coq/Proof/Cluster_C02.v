(* Proof/Cluster_C02.v — C02 witnesses and bounded checks; the unbounded per-replica invariants are in
   Proof/ReplicaLog_WF.v and Proof/Cluster_WF.v. *)
From WK Require Import Base.Base.
From WK Require Import Model.ReplicaLog Model.QuorumLog Model.Cluster Model.Monitor_C02.
From WK Require Import Proof.ReplicaLog Proof.ReplicaLog_WF Proof.Cluster_WF.
Open Scope N_scope.

Definition k1_cfg : qconfig := QCfg SMem 3 2 2 3 65536 0.
Definition k1_r1 : record := Rec (TUser 1) 1 1 11 1 false 1.
Definition k1_r2 : record := Rec (TUser 2) 1 2 22 1 false 1.
Definition k1_r3 : record := Rec (TUser 3) 1 3 33 1 false 1.

(* the F1 history extended by the deposed leader's standalone checkpoint of the acknowledged
   watermark (reactor TaskStoreCheckpoint after Receipt.HW = 1) and two commits of the new leader:
   node 1 then considers offset 1 committed with the old entry, nodes 2 and 3 with the new one *)
Definition k1_ops : list qop :=
  [ OInstall 1 (1, 1, 1) false 2 no_faults; ODown 3;
    OCommit 1 (1, 1, 1) (TUser 1) [k1_r1] false no_faults; OCheckpoint 1 1; ODown 1; OUp 3;
    OInstall 2 (1, 2, 2) false 2 no_faults;
    OCommit 2 (1, 2, 2) (TUser 2) [k1_r2] false no_faults;
    OCommit 2 (1, 2, 2) (TUser 3) [k1_r3] false no_faults ].

Definition committed_entry (c : cluster) (v idx : N) : option ident :=
  let rp := net_rep (cl_net c) v in if idx <=? rp_hw rp then ent_at rp idx else None.

Lemma k1_checkpointed_entry_replaced :
  let c := snd (run_model k1_cfg (cluster_init k1_cfg) k1_ops) in
  fst (run_model k1_cfg (cluster_init k1_cfg) k1_ops) =
    [ RInstalled (1, 1, 1) 0 0; RNone; RReceipt (1, 1, 1) (TUser 1) 1 1 1; RBool true; RNone; RNone;
      RInstalled (1, 2, 2) 0 0; RReceipt (1, 2, 2) (TUser 2) 1 1 1; RReceipt (1, 2, 2) (TUser 3) 2 2 2 ] /\
  option_map i_cmd (committed_entry c 1 1) = Some (TUser 1) /\
  option_map i_cmd (committed_entry c 2 1) = Some (TUser 2) /\
  C02_monitor (model_case k1_cfg k1_ops) = 2.
Proof. repeat split; vm_compute; reflexivity. Qed.

(* the checkpoints of that history stay within the log of their node *)
Lemma k1_ops_bounded : run_bounded k1_cfg (cluster_init k1_cfg) k1_ops.
Proof. cbn [run_bounded k1_ops]. repeat split; vm_compute; discriminate. Qed.

(* ---- the C01-K2 history extended in the same way (C02-K2) -------------------------------------------------

   leader 3 writes X at 1 locally only; leader 1 (1,2,2) commits Y at 1 on {1,2} and checkpoints watermark 1;
   (1,3,3) is installed on node 2 with node 1's identity-page reply lost: node 2 truncates Y (C01-K2); node 1
   goes down, (1,4,4) is installed on node 3 (quorum LEO 0: node 3 drops X), which commits twice on {3,2}:
   node 1 considers offset 1 committed with Y, nodes 2 and 3 with the new entry *)
Definition k1_r4 : record := Rec (TUser 4) 1 4 44 1 false 1.
Definition k2_ops : list qop :=
  [ OInstall 3 (1, 1, 1) false 2 no_faults;
    OCommit 3 (1, 1, 1) (TUser 1) [k1_r1] false (Flt [] [1; 2] None []);
    OInstall 1 (1, 2, 2) false 2 no_faults;
    OCommit 1 (1, 2, 2) (TUser 2) [k1_r2] false no_faults; OCheckpoint 1 1;
    OInstall 2 (1, 3, 3) false 2 (Flt [] [] None [1]);
    ODown 1; OInstall 3 (1, 4, 4) false 2 no_faults;
    OCommit 3 (1, 4, 4) (TUser 3) [k1_r3] false no_faults;
    OCommit 3 (1, 4, 4) (TUser 4) [k1_r4] false no_faults ].

Lemma k2_checkpointed_entry_replaced :
  let c := snd (run_model k1_cfg (cluster_init k1_cfg) k2_ops) in
  fst (run_model k1_cfg (cluster_init k1_cfg) k2_ops) =
    [ RInstalled (1, 1, 1) 0 0; RErr EQuorumUnavailable; RInstalled (1, 2, 2) 0 0;
      RReceipt (1, 2, 2) (TUser 2) 1 1 1; RBool true; RInstalled (1, 3, 3) 0 0; RNone;
      RInstalled (1, 4, 4) 0 0; RReceipt (1, 4, 4) (TUser 3) 1 1 1; RReceipt (1, 4, 4) (TUser 4) 2 2 2 ] /\
  option_map i_cmd (committed_entry c 1 1) = Some (TUser 2) /\
  option_map i_cmd (committed_entry c 2 1) = Some (TUser 3) /\
  option_map i_cmd (committed_entry c 3 1) = Some (TUser 3) /\
  C02_monitor (model_case k1_cfg k2_ops) = 3.
Proof. repeat split; vm_compute; reflexivity. Qed.

Lemma k2_ops_bounded : run_bounded k1_cfg (cluster_init k1_cfg) k2_ops.
Proof. cbn [run_bounded k2_ops]. repeat split; vm_compute; discriminate. Qed.

(* ---- bounded exhaustive checks ------------------------------------------------------------------------------ *)

Fixpoint schedules02 (alphabet : list qop) (len : nat) : list (list qop) :=
  match len with
  | O => [[]]
  | S k => [] :: flat_map (fun s => map (fun op => op :: s) alphabet) (schedules02 alphabet k)
  end.

Definition c02_alphabet (ck : bool) : list qop :=
  [ OCommit 1 (1, 1, 1) (TUser 1) [k1_r1] false (Flt [] [3] None []);
    OCommit 1 (1, 1, 1) (TUser 2) [k1_r2] false no_faults;
    ODown 1; OUp 1; ODown 3; OUp 3;
    OInstall 2 (1, 2, 2) false 2 no_faults;
    OCommit 2 (1, 2, 2) (TUser 3) [k1_r3] false no_faults;
    ORepair 2 3 1 2 ] ++ (if ck then [OCheckpoint 1 1] else []).

Definition c02_codes_in (allowed : list N) (alphabet : list qop) (len : nat) : bool :=
  forallb (fun s => existsb (N.eqb (C02_monitor (model_case k1_cfg (OInstall 1 (1, 1, 1) false 2 no_faults :: s)))) allowed)
          (schedules02 alphabet len).

Lemma c02_bounded_no_checkpoint : c02_codes_in [0] (c02_alphabet false) 4 = true.
Proof. vm_compute. reflexivity. Qed.

Lemma c02_bounded_with_checkpoint : c02_codes_in [0; 2] (c02_alphabet true) 4 = true.
Proof. vm_compute. reflexivity. Qed.
