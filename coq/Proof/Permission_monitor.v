(* Proof/Permission_monitor.v — (1) the read-through permission cache is transparent over a
   fixed store, for every history of reads, resets and racing resets; (2) the case monitor
   C36_monitor accepts every trace the model produces outside the two known divergences. *)
From WK Require Import Base.Base Model.ChannelId Model.Permission Proof.Permission Proof.Permission_batch.
From WK Require Import Gen.Consts_C36.
Open Scope N_scope.

(* ---- permission_cache.go ------------------------------------------------------------------- *)
Section CacheProof.
  Context {K V : Type}.
  Variable keqb : K -> K -> bool.
  Variable cacheable : V -> bool.
  Hypothesis keqb_eq : forall a b, keqb a b = true -> a = b.
  Variable store : K -> V.
  Variable ttl : N.

  Notation cstate := (@cstate K V).

  (* every cached value is the store's answer for its key *)
  Definition cache_inv (c : cstate) : Prop :=
    forall e, In e (cs_entries c) -> ce_value e = store (ce_key e).

  Lemma cache_inv_empty : cache_inv cache_empty.
  Proof. intros e H. destruct H. Qed.

  Lemma cache_inv_reset c : cache_inv (resetAfterRestore c).
  Proof. intros e H. destruct H. Qed.

  Lemma cache_inv_delete c k g : cache_inv c -> cache_inv (CState g (cache_delete keqb k (cs_entries c))).
  Proof. intros H e He. cbn in He. apply filter_In in He. apply H, He. Qed.

  Lemma get_hit c k now v c' : cache_inv c ->
    permissionCacheGet keqb c k now = (Some v, c') -> v = store k /\ c' = c.
  Proof.
    intros Hinv. unfold permissionCacheGet, cache_find.
    destruct (find (fun e => keqb (ce_key e) k) (cs_entries c)) as [e|] eqn:E; [|discriminate].
    apply find_some in E. destruct E as [Hin Hk]. apply keqb_eq in Hk.
    destruct (now <? ce_expires e); intro H; inversion H; subst.
    split; [apply Hinv; exact Hin|reflexivity].
  Qed.

  Lemma get_miss c k now c' : cache_inv c ->
    permissionCacheGet keqb c k now = (None, c') -> cache_inv c' /\ cs_generation c' = cs_generation c.
  Proof.
    intros Hinv. unfold permissionCacheGet.
    destruct (cache_find keqb k (cs_entries c)) as [e|].
    - destruct (now <? ce_expires e); intro H; inversion H; subst.
      split; [apply cache_inv_delete; exact Hinv|reflexivity].
    - intro H. inversion H. subst. split; [exact Hinv|reflexivity].
  Qed.

  Lemma put_inv c k expires g : cache_inv c ->
    cache_inv (permissionCachePut keqb c k (store k) expires g).
  Proof.
    intros Hinv. unfold permissionCachePut. destruct (negb (cs_generation c =? g)); [exact Hinv|].
    intros e He. cbn in He. destruct He as [<-|He]; [reflexivity|].
    apply filter_In in He. destruct He as [He _].
    destruct (permissionCacheMaxEntries <=? N.of_nat (length (cs_entries c))); [destruct He|].
    apply Hinv, He.
  Qed.

  Lemma cache_read_transparent c k now v c' : cache_inv c ->
    cache_read keqb cacheable store ttl c k now = (v, c') -> v = store k /\ cache_inv c'.
  Proof.
    intros Hinv. unfold cache_read.
    destruct (permissionCacheGet keqb c k now) as [[hit|] c1] eqn:E.
    - destruct (get_hit _ _ _ _ _ Hinv E) as [-> ->]. intro H. inversion H. subst. split; [reflexivity|exact Hinv].
    - destruct (get_miss _ _ _ _ Hinv E) as [Hinv1 _].
      destruct (cacheable (store k)); intro H; inversion H; subst; split; try reflexivity.
      + apply put_inv. exact Hinv1.
      + exact Hinv1.
  Qed.

  Lemma cache_read_racing_transparent c k now v c' : cache_inv c ->
    cache_read_racing keqb cacheable store ttl c k now = (v, c') -> v = store k /\ cache_inv c'.
  Proof.
    intros Hinv. unfold cache_read_racing.
    destruct (permissionCacheGet keqb c k now) as [[hit|] c1] eqn:E.
    - destruct (get_hit _ _ _ _ _ Hinv E) as [-> ->]. intro H. inversion H. subst.
      split; [reflexivity|apply cache_inv_reset].
    - destruct (cacheable (store k)); intro H; inversion H; subst; split; try reflexivity.
      + apply put_inv. apply cache_inv_reset.
      + apply cache_inv_reset.
  Qed.

  (* the put of a racing read is dropped: the reset cache stays empty *)
  Lemma racing_put_dropped c k now v c' :
    cache_read_racing keqb cacheable store ttl c k now = (v, c') -> cs_entries c' = [].
  Proof.
    unfold cache_read_racing.
    destruct (permissionCacheGet keqb c k now) as [[hit|] c1] eqn:E.
    - intro H. inversion H. reflexivity.
    - assert (Hg : cs_generation c1 = cs_generation c).
      { unfold permissionCacheGet in E. destruct (cache_find keqb k (cs_entries c)) as [e|].
        - destruct (now <? ce_expires e); inversion E; reflexivity.
        - inversion E. reflexivity. }
      destruct (cacheable (store k)); intro H; inversion H; subst; [|reflexivity].
      unfold permissionCachePut, resetAfterRestore. cbn [cs_generation cs_entries].
      replace (cs_generation c1 + 1 =? cs_generation c1) with false; [reflexivity|].
      symmetry. apply N.eqb_neq. lia.
  Qed.

  Fixpoint read_keys (ops : list (@cache_op K)) : list K :=
    match ops with
    | [] => []
    | CRead k _ :: rest => k :: read_keys rest
    | CReadRacing k _ :: rest => k :: read_keys rest
    | CReset :: rest => read_keys rest
    end.

  Lemma cache_run_transparent : forall ops c, cache_inv c ->
    cache_run keqb cacheable store ttl c ops = map store (read_keys ops).
  Proof.
    induction ops as [|op rest IH]; intros c Hinv; [reflexivity|].
    destruct op as [k now|k now|]; cbn [cache_run read_keys map].
    - destruct (cache_read keqb cacheable store ttl c k now) as [v c'] eqn:E.
      destruct (cache_read_transparent _ _ _ _ _ Hinv E) as [-> Hinv']. f_equal. apply IH. exact Hinv'.
    - destruct (cache_read_racing keqb cacheable store ttl c k now) as [v c'] eqn:E.
      destruct (cache_read_racing_transparent _ _ _ _ _ Hinv E) as [-> Hinv']. f_equal. apply IH. exact Hinv'.
    - apply IH. apply cache_inv_reset.
  Qed.

  Lemma cache_transparent ops :
    cache_run keqb cacheable store ttl cache_empty ops = map store (read_keys ops).
  Proof. apply cache_run_transparent. apply cache_inv_empty. Qed.
End CacheProof.

(* ---- the monitor accepts the model -------------------------------------------------------------- *)

Lemma obs_eqb_refl o : obs_eqb o o = true.
Proof.
  destruct o as [r e [ch|]]; unfold obs_eqb; cbn [o_reason o_err o_chan option_eqb];
    rewrite !N.eqb_refl; [rewrite Proof.ChannelId.bytes_eqb_refl|]; reflexivity.
Qed.

Lemma list_obs_eqb_refl l : list_eqb obs_eqb l l = true.
Proof. induction l as [|o l IH]; [reflexivity|]. cbn. rewrite obs_eqb_refl, IH. reflexivity. Qed.

Definition uniform_case (cfg : pcfg) (tbl : list (pread * rresult)) (items : list pcmd) (S : list obs) : c36_case :=
  C36Case cfg tbl items (map (fun p => (p, S)) path_ids).

Lemma path_obs_uniform cfg tbl items S p : In p path_ids ->
  path_obs (uniform_case cfg tbl items S) p = Some S.
Proof.
  unfold path_ids. cbn [In]. intro H.
  repeat (destruct H as [<-|H]; [reflexivity|]). destruct H.
Qed.

Definition no_divergence_P (cfg : pcfg) (tbl : list (pread * rresult)) (items : list pcmd) : Prop :=
  forall c, In c items -> sig_k1 c = false /\ k2_cond (facts_single (table_reader tbl) cfg c) = false.

Definition no_k3_P (cfg : pcfg) (tbl : list (pread * rresult)) (items : list pcmd) : Prop :=
  forall c, In c items -> k3_cond (facts_single (table_reader tbl) cfg c) = false.

Lemma no_divergence_spec cfg tbl items : no_divergence cfg tbl items = true ->
  no_divergence_P cfg tbl items /\ no_k3_P cfg tbl items.
Proof.
  unfold no_divergence, no_divergence_P, no_k3_P. intros H. rewrite forallb_forall in H.
  split; intros c Hc; specialize (H c Hc); cbv zeta in H;
    apply andb_true_iff in H; destruct H as [H H3]; apply andb_true_iff in H; destruct H as [H1 H2];
    apply negb_true_iff in H1; apply negb_true_iff in H2; apply negb_true_iff in H3; [split|]; assumption.
Qed.

Lemma batch_each_agrees rd cfg : forall items,
  (forall c, In c items -> sig_k1 c = false /\ k2_cond (facts_single rd cfg c) = false) ->
  flat_map (fun cmd => map obs_of (batch_outcomes rd cfg [cmd])) items
  = map (fun cmd => obs_of (single_outcome rd cfg cmd)) items.
Proof.
  induction items as [|c rest IH]; intro H; [reflexivity|].
  cbn [flat_map map]. rewrite IH by (intros x Hx; apply H; right; exact Hx).
  rewrite batch_outcomes_itemwise. cbn [map app]. f_equal.
  destruct (H c (or_introl eq_refl)) as [H1 H2]. apply batch1_agrees_single; assumption.
Qed.

Lemma model_case_uniform cfg tbl items : no_divergence_P cfg tbl items ->
  model_case cfg tbl items = uniform_case cfg tbl items (single_obs cfg tbl items).
Proof.
  intro H. unfold model_case, uniform_case. f_equal.
  assert (Hall : model_batch_all (C36Case cfg tbl items []) = single_obs cfg tbl items).
  { unfold model_batch_all, single_obs. cbn [k_table k_cfg k_items]. apply batch_agrees_single. exact H. }
  assert (Heach : model_batch_each (C36Case cfg tbl items []) = single_obs cfg tbl items).
  { unfold model_batch_each, single_obs. cbn [k_table k_cfg k_items]. apply batch_each_agrees. exact H. }
  unfold path_ids. cbn [map]. unfold model_path.
  change (4 =? 4) with true. change (5 =? 5) with true. cbv iota.
  rewrite Hall, Heach. reflexivity.
Qed.

Lemma spec_obs_is_single rd cfg cmd : spec_obs rd cfg cmd = obs_of (single_outcome rd cfg cmd).
Proof.
  unfold spec_obs, single_outcome. rewrite <- single_is_first_failing. reflexivity.
Qed.

Lemma obs_of_fields ch r : o_reason (obs_of (ch, r)) = fst r /\ o_err (obs_of (ch, r)) = errc_code (snd r).
Proof. split; reflexivity. Qed.

Lemma item_code_uniform cfg tbl items pre cmd rest :
  items = pre ++ cmd :: rest ->
  k3_cond (facts_single (table_reader tbl) cfg cmd) = false ->
  item_code (uniform_case cfg tbl items (single_obs cfg tbl items)) (table_reader tbl) (length pre) cmd = 0.
Proof.
  intros Hitems Hk3. unfold item_code.
  rewrite !path_obs_uniform by (cbv; tauto).
  assert (Hn : nth_obs (single_obs cfg tbl items) (length pre)
               = Some (obs_of (single_outcome (table_reader tbl) cfg cmd))).
  { unfold nth_obs, single_obs. rewrite Hitems, map_app. rewrite nth_error_app2 by (rewrite map_length; lia).
    rewrite map_length, Nat.sub_diag. reflexivity. }
  rewrite Hn. cbn [forallb]. rewrite !path_obs_uniform by (cbv; tauto). rewrite Hn.
  rewrite obs_eqb_refl. cbn [andb negb].
  cbn [k_cfg uniform_case]. rewrite spec_obs_is_single, obs_eqb_refl. cbn [negb].
  change (0 =? 1) with false. cbn [orb]. change (0 <? N.max 0 0) with false. cbv iota.
  unfold single_outcome.
  destruct (obs_of_fields (single_out cmd) (checkSendPermission (facts_single (table_reader tbl) cfg cmd))) as [-> ->].
  unfold k3_cond, decide_single in Hk3. rewrite Hk3. reflexivity.
Qed.

Lemma item_codes_uniform cfg tbl items : no_k3_P cfg tbl items -> forall rest pre,
  items = pre ++ rest ->
  Forall (fun x => x = 0)
         (item_codes (uniform_case cfg tbl items (single_obs cfg tbl items)) (table_reader tbl) (length pre) rest).
Proof.
  intro Hk3. induction rest as [|cmd rest IH]; intros pre H; [constructor|].
  cbn [item_codes]. constructor.
  - apply (item_code_uniform cfg tbl items pre cmd rest H).
    apply Hk3. rewrite H. apply in_or_app. right. left. reflexivity.
  - specialize (IH (pre ++ [cmd])). rewrite app_length in IH. cbn [length] in IH.
    replace (length pre + 1)%nat with (S (length pre)) in IH by lia.
    apply IH. rewrite <- app_assoc. exact H.
Qed.

Lemma existsb_zeros v l : v <> 0 -> Forall (fun x => x = 0) l -> existsb (N.eqb v) l = false.
Proof.
  intros Hv H. induction H as [|x l Hx _ IH]; [reflexivity|]. cbn. subst x.
  rewrite IH, orb_false_r. apply N.eqb_neq. exact Hv.
Qed.

Lemma monitor_uniform cfg tbl items : no_k3_P cfg tbl items ->
  C36_monitor (uniform_case cfg tbl items (single_obs cfg tbl items)) = 0.
Proof.
  intro Hk3. unfold C36_monitor.
  assert (Hl : lengths_ok (uniform_case cfg tbl items (single_obs cfg tbl items)) = true).
  { unfold lengths_ok. apply forallb_forall. intros p Hp. rewrite path_obs_uniform by exact Hp.
    cbn [k_items uniform_case]. unfold single_obs. rewrite map_length. apply Nat.eqb_refl. }
  rewrite Hl. cbn [negb].
  cbn [k_table k_items uniform_case].
  pose proof (item_codes_uniform cfg tbl items Hk3 items [] eq_refl) as Hz. cbn [length] in Hz.
  rewrite (existsb_zeros 1 _ ltac:(discriminate) Hz), (existsb_zeros 2 _ ltac:(discriminate) Hz),
    (existsb_zeros 3 _ ltac:(discriminate) Hz), (existsb_zeros 4 _ ltac:(discriminate) Hz). reflexivity.
Qed.

Lemma mismatch_uniform cfg tbl items : no_divergence_P cfg tbl items ->
  C36_mismatch (model_case cfg tbl items) = false.
Proof.
  intro H. unfold C36_mismatch. apply negb_false_iff. apply forallb_forall. intros p Hp.
  assert (Hobs : path_obs (model_case cfg tbl items) p = Some (model_path (model_case cfg tbl items) p)).
  { unfold model_case at 1. unfold path_ids in *. cbn [In] in Hp.
    repeat (destruct Hp as [<-|Hp]; [reflexivity|]). destruct Hp. }
  rewrite Hobs. apply list_obs_eqb_refl.
Qed.

Lemma model_satisfies_monitor cfg tbl items : no_divergence cfg tbl items = true ->
  C36_monitor (model_case cfg tbl items) = 0 /\ C36_mismatch (model_case cfg tbl items) = false.
Proof.
  intro H. apply no_divergence_spec in H. destruct H as [H Hk3]. split.
  - rewrite (model_case_uniform cfg tbl items H). apply monitor_uniform. exact Hk3.
  - apply mismatch_uniform. exact H.
Qed.

(* the monitor flags the known divergences with their own codes, on the model's traces *)
Lemma monitor_k1_example :
  C36_monitor (model_case k1_cfg [(containsRead 1 channelTypePerson (hs "b") channelTypePerson (hs "a"),
                                   RR false false false false false true false);
                                  (containsRead 1 channelTypePerson (hs "b____cmd") channelTypePerson (hs "a"), zero_result);
                                  (chanRead (hs "a") channelTypePerson, zero_result);
                                  (chanRead (hs "a@b") channelTypePerson, zero_result);
                                  (chanRead (hs "a@b____cmd") channelTypePerson, zero_result)]
                         [k1_cmd]) = 2.
Proof. vm_compute. reflexivity. Qed.

Lemma monitor_k2_example :
  C36_monitor (model_case k1_cfg [(chanRead (hs "a") channelTypePerson, RR true true false false false false false);
                                  (chanRead (hs "peer") channelTypePerson, zero_result)]
                         [k2_cmd]) = 3.
Proof. vm_compute. reflexivity. Qed.

(* and a plain disagreement (a batch path reporting Success where Send reports SendBan) is a violation *)
Lemma monitor_violation_example :
  C36_monitor (C36Case k1_cfg [(chanRead (hs "a") channelTypePerson, RR true true false false false false false);
                               (chanRead (hs "g") channelTypeGroup, RR true false false false false false false)]
                 [PCmd (hs "a") (hs "d") (hs "g") channelTypeGroup false false 0]
                 [(0, [Obs ReasonSendBan 0 None]); (1, [Obs ReasonSendBan 0 None]); (2, [Obs ReasonSendBan 0 None]);
                  (3, [Obs ReasonSendBan 0 None]); (4, [Obs ReasonSuccess 0 (Some (hs "g"))]);
                  (5, [Obs ReasonSendBan 0 None]); (6, [Obs ReasonSendBan 0 None]); (7, [Obs ReasonSendBan 0 None])]) = 1.
Proof. vm_compute. reflexivity. Qed.

(* all paths agree on SendBan for a disbanded group: the order of the code, not of the text *)
Lemma monitor_k3_example :
  C36_monitor (model_case k1_cfg [(chanRead (hs "a") channelTypePerson, RR true true false false false false false);
                                  (chanRead (hs "g") channelTypeGroup, RR true false true true false false false)]
                         [PCmd (hs "a") (hs "d") (hs "g") channelTypeGroup false false 0]) = 4.
Proof. vm_compute. reflexivity. Qed.
