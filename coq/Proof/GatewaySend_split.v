(* Proof/GatewaySend_split.v — the pure splitter lemma for dispatchMailboxBatch:
   the sub-batches concatenate to the input, are non-empty, have at most
   maxRecords items, and exceed maxBytes only as singletons. *)
From WK Require Import Base.Base Model.GatewaySend.
Open Scope N_scope.

Section SplitFacts.
  Context {A : Type} (size : A -> N) (maxrec : nat) (maxbytes : N).
  Hypothesis Hrec : (1 <= maxrec)%nat.

  Lemma split_go_concat : forall items cur cb,
    concat (split_go size maxrec maxbytes cur cb items) = cur ++ items.
  Proof.
    induction items as [|x r IH]; intros cur cb.
    - cbn [split_go]. destruct cur; cbn [concat]; rewrite ?app_nil_r; reflexivity.
    - cbn [split_go].
      destruct (match cur with [] => false | _ :: _ => (0 <? maxbytes) && (maxbytes <? cb + size x) end).
      + destruct (maxrec <=? length ([] ++ [x]))%nat;
          rewrite ?concat_app; cbn [concat app]; rewrite IH; cbn [app];
          rewrite ?app_nil_r; reflexivity.
      + destruct (maxrec <=? length (cur ++ [x]))%nat;
          cbn [concat app]; rewrite IH; cbn [app]; rewrite <- ?app_assoc; reflexivity.
  Qed.

  Definition sizes (l : list A) : N := sumN (map size l).

  Lemma sizes_cons x l : sizes (x :: l) = size x + sizes l.
  Proof. reflexivity. Qed.

  Lemma sizes_app a b : sizes (a ++ b) = sizes a + sizes b.
  Proof.
    induction a as [|x a IH]; cbn [app].
    - unfold sizes at 2. cbn. lia.
    - rewrite !sizes_cons, IH. lia.
  Qed.

  (* what every emitted sub-batch satisfies *)
  Definition good (b : list A) : Prop :=
    b <> [] /\ (length b <= maxrec)%nat /\ (0 < maxbytes -> sizes b <= maxbytes \/ length b = 1%nat).

  (* the loop invariant on (cur, cb) = (items[start:i], byteCount) *)
  Definition cur_ok (cur : list A) (cb : N) : Prop :=
    cb = sizes cur /\ (length cur < maxrec)%nat /\
    (cur = [] \/ (0 < maxbytes -> cb <= maxbytes \/ length cur = 1%nat)).

  Lemma split_go_good : forall items cur cb,
    cur_ok cur cb -> Forall good (split_go size maxrec maxbytes cur cb items).
  Proof.
    induction items as [|x r IH]; intros cur cb [Hcb [Hlen Hb]].
    - cbn [split_go]. destruct cur as [|y cur'] eqn:E; [constructor|].
      constructor; [|constructor]. rewrite <- E in *. repeat split.
      + subst cur. discriminate.
      + lia.
      + destruct Hb as [Hb|Hb]; [subst; discriminate|]. intro H0. subst cb. exact (Hb H0).
    - cbn [split_go].
      assert (Hsingle : cur_ok [] 0) by (split; [reflexivity | split; [cbn [length]; lia | left; reflexivity]]).
      assert (Hx1 : good [x]).
      { repeat split; [discriminate | cbn [length]; lia | intros _; right; reflexivity]. }
      assert (Hjoin : forall (Hnf : 0 < maxbytes -> cb + size x <= maxbytes \/ length (cur ++ [x]) = 1%nat),
                 Forall good (if (maxrec <=? length (cur ++ [x]))%nat
                              then [] ++ [cur ++ [x]] ++ split_go size maxrec maxbytes [] 0 r
                              else [] ++ split_go size maxrec maxbytes (cur ++ [x]) (cb + size x) r)).
      { intros Hbytes.
        assert (Hnew : cb + size x = sizes (cur ++ [x])).
        { rewrite sizes_app. subst cb. rewrite sizes_cons. unfold sizes at 3. cbn. lia. }
        cbn [app].
        destruct (maxrec <=? length (cur ++ [x]))%nat eqn:Hm.
        - constructor.
          + repeat split.
            * destruct cur; discriminate.
            * rewrite app_length. cbn [length]. lia.
            * intro H0. rewrite <- Hnew. exact (Hbytes H0).
          + apply IH. exact Hsingle.
        - apply IH. apply Nat.leb_gt in Hm. repeat split.
          + exact Hnew.
          + exact Hm.
          + right. exact Hbytes. }
      destruct cur as [|y cur'].
      + (* i = start: x opens the sub-batch *)
        apply Hjoin. intros _. right. reflexivity.
      + destruct ((0 <? maxbytes) && (maxbytes <? cb + size x)) eqn:Hf.
        * (* cur is emitted as is, x starts a new sub-batch *)
          assert (Hcur : good (y :: cur')).
          { repeat split.
            - discriminate.
            - lia.
            - destruct Hb as [Hb|Hb]; [discriminate|]. intro H0. subst cb. exact (Hb H0). }
          cbn [app].
          destruct (maxrec <=? length [x])%nat eqn:Hm.
          -- constructor; [exact Hcur|]. constructor; [exact Hx1|]. apply IH. exact Hsingle.
          -- constructor; [exact Hcur|].
             apply IH. apply Nat.leb_gt in Hm. cbn [length] in Hm. repeat split.
             ++ rewrite sizes_cons. unfold sizes. cbn. lia.
             ++ cbn [length]. lia.
             ++ right. intros _. right. reflexivity.
        * apply Hjoin. intro H0. left.
          apply andb_false_iff in Hf. destruct Hf as [Hf|Hf]; apply N.ltb_ge in Hf; lia.
  Qed.
End SplitFacts.

Lemma eff_maxrec_pos m : (1 <= eff_maxrec m)%nat.
Proof. destruct m; cbn; lia. Qed.

(* c28_split_partition *)
Theorem split_partition {A} (size : A -> N) (maxrec : nat) (maxbytes : N) (items : list A) :
  concat (split size maxrec maxbytes items) = items
  /\ Forall (fun b => b <> []
                      /\ (length b <= eff_maxrec maxrec)%nat
                      /\ (0 < maxbytes -> sumN (map size b) <= maxbytes \/ length b = 1%nat))
            (split size maxrec maxbytes items).
Proof.
  split.
  - unfold split. rewrite split_go_concat. reflexivity.
  - unfold split. apply (split_go_good size (eff_maxrec maxrec) maxbytes (eff_maxrec_pos maxrec)).
    repeat split.
    + pose proof (eff_maxrec_pos maxrec). cbn [length]. lia.
    + left. reflexivity.
Qed.

Lemma units_concat {A} (c : cfg) (size : A -> N) (items : list A) :
  concat (units c size items) = items.
Proof.
  unfold units. destruct (c_batch c).
  - apply split_partition.
  - induction items as [|x r IH]; cbn [map concat app]; [reflexivity|]. rewrite IH. reflexivity.
Qed.

Lemma units_nonempty {A} (c : cfg) (size : A -> N) (items : list A) :
  Forall (fun b => b <> []) (units c size items).
Proof.
  unfold units. destruct (c_batch c).
  - pose proof (proj2 (split_partition size (c_maxrec c) (c_maxbytes c) items)) as H.
    eapply Forall_impl; [|exact H]. cbn. intros b Hb. apply Hb.
  - induction items; cbn [map]; constructor; [discriminate|assumption].
Qed.
