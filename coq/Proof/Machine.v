(* Proof/Machine.v — helper lemmas for Model/Machine.v and the watermark invariant (C06). *)
From WK Require Import Base.Base Gen.Consts_C06 Model.Machine.
Open Scope N_scope.

(* ---- mem / nodup_b --------------------------------------------------------------------- *)
Lemma mem_In x l : mem x l = true <-> In x l.
Proof.
  unfold mem. rewrite existsb_exists. split.
  - intros [y [Hy E]]. apply N.eqb_eq in E. subst y. exact Hy.
  - intro H. exists x. split; [exact H | apply N.eqb_refl].
Qed.

Lemma mem_false x l : mem x l = false <-> ~ In x l.
Proof.
  rewrite <- mem_In. destruct (mem x l); split; intro H.
  - discriminate.
  - exfalso. apply H. reflexivity.
  - discriminate.
  - reflexivity.
Qed.

Lemma nodup_b_NoDup l : nodup_b l = true <-> NoDup l.
Proof.
  induction l as [|x l IH]; cbn [nodup_b].
  - split; [intros; constructor | reflexivity].
  - rewrite andb_true_iff, negb_true_iff, mem_false, IH. split.
    + intros [H1 H2]. constructor; assumption.
    + intro H. inversion H; subst. split; assumption.
Qed.

(* ---- PendingAppends ----------------------------------------------------------------------- *)
Lemma find_w_op op l w : find_w op l = Some w -> w_op w = op.
Proof.
  induction l as [|x l IH]; cbn [find_w]; intro H; [discriminate|].
  destruct (w_op x =? op) eqn:E.
  - inversion H; subst. apply N.eqb_eq. exact E.
  - apply IH. exact H.
Qed.

Lemma find_w_In op l w : find_w op l = Some w -> In w l.
Proof.
  induction l as [|x l IH]; cbn [find_w]; intro H; [discriminate|].
  destruct (w_op x =? op) eqn:E.
  - inversion H; subst. left. reflexivity.
  - right. apply IH. exact H.
Qed.

Lemma find_w_none op l : find_w op l = None <-> ~ In op (pend_ids l).
Proof.
  induction l as [|x l IH]; cbn [find_w pend_ids map].
  - split; [intros _ []| reflexivity].
  - destruct (w_op x =? op) eqn:E.
    + apply N.eqb_eq in E. split; [discriminate|]. intro H. exfalso. apply H. left. exact E.
    + apply N.eqb_neq in E. rewrite IH. unfold pend_ids. split.
      * intros H [H1|H1]; [apply E; exact H1 | apply H; exact H1].
      * intros H H1. apply H. right. exact H1.
Qed.

Lemma find_w_some_ids op l w : find_w op l = Some w -> In op (pend_ids l).
Proof.
  intro H. destruct (in_dec N.eq_dec op (pend_ids l)) as [I|I]; [exact I|].
  apply find_w_none in I. rewrite I in H. discriminate.
Qed.

Lemma ids_find_some op l : In op (pend_ids l) -> exists w, find_w op l = Some w.
Proof.
  intro H. destruct (find_w op l) as [w|] eqn:E; [exists w; reflexivity|].
  apply find_w_none in E. contradiction.
Qed.

Lemma find_del a b l : find_w a (del_w b l) = if a =? b then None else find_w a l.
Proof.
  unfold del_w. induction l as [|x l IH]; cbn [filter find_w].
  - destruct (a =? b); reflexivity.
  - destruct (w_op x =? b) eqn:E1; cbn [negb].
    + rewrite IH. destruct (a =? b) eqn:E2; [reflexivity|].
      destruct (w_op x =? a) eqn:E3; [|reflexivity].
      apply N.eqb_eq in E1, E3. apply N.eqb_neq in E2. congruence.
    + cbn [find_w]. destruct (w_op x =? a) eqn:E3.
      * destruct (a =? b) eqn:E2; [|reflexivity].
        apply N.eqb_eq in E2, E3. apply N.eqb_neq in E1. congruence.
      * exact IH.
Qed.

Lemma del_ids_In w ids l : In w (del_ids ids l) <-> In w l /\ ~ In (w_op w) ids.
Proof.
  unfold del_ids. rewrite filter_In, negb_true_iff, mem_false. reflexivity.
Qed.

Lemma del_w_In w op l : In w (del_w op l) <-> In w l /\ w_op w <> op.
Proof.
  unfold del_w. rewrite filter_In, negb_true_iff, N.eqb_neq. reflexivity.
Qed.

Lemma del_ids_cons op cs l : del_ids (op :: cs) l = del_ids cs (del_w op l).
Proof.
  unfold del_ids, del_w. induction l as [|x l IH]; cbn [filter]; [reflexivity|].
  unfold mem at 1. cbn [existsb]. fold (mem (w_op x) cs).
  destruct (w_op x =? op) eqn:E; cbn [negb orb].
  - exact IH.
  - cbn [filter]. destruct (mem (w_op x) cs); cbn [negb]; rewrite IH; reflexivity.
Qed.

Lemma del_ids_nil l : del_ids [] l = l.
Proof.
  unfold del_ids. induction l as [|x l IH]; cbn [filter]; [reflexivity|].
  rewrite IH. reflexivity.
Qed.

Lemma ids_del_ids x cs l : In x (pend_ids (del_ids cs l)) <-> In x (pend_ids l) /\ ~ In x cs.
Proof.
  unfold pend_ids. rewrite !in_map_iff. split.
  - intros [w [E H]]. apply del_ids_In in H. destruct H as [H1 H2]. subst x. split; [|exact H2].
    exists w. split; [reflexivity|exact H1].
  - intros [[w [E H]] H2]. exists w. split; [exact E|]. apply del_ids_In. subst x. split; assumption.
Qed.

Lemma ids_del_w x op l : In x (pend_ids (del_w op l)) <-> In x (pend_ids l) /\ x <> op.
Proof.
  unfold pend_ids. rewrite !in_map_iff. split.
  - intros [w [E H]]. apply del_w_In in H. destruct H as [H1 H2]. subst x. split; [|exact H2].
    exists w. split; [reflexivity|exact H1].
  - intros [[w [E H]] H2]. exists w. split; [exact E|]. apply del_w_In. subst x. split; assumption.
Qed.

Lemma ids_ins_w x w l : In x (pend_ids (ins_w w l)) -> x = w_op w \/ In x (pend_ids l).
Proof.
  induction l as [|y l IH]; cbn [ins_w pend_ids map].
  - intros [H|[]]. left. symmetry. exact H.
  - destruct (w_op w <? w_op y).
    + cbn [map]. intros [H|H]; [left; symmetry; exact H | right; exact H].
    + destruct (w_op w =? w_op y).
      * cbn [map]. intros [H|H]; [left; symmetry; exact H | right; right; exact H].
      * cbn [map]. intros [H|H]; [right; left; exact H|].
        destruct (IH H) as [H1|H1]; [left; exact H1 | right; right; exact H1].
Qed.

Lemma In_ins_w v w l : In v (ins_w w l) -> v = w \/ In v l.
Proof.
  induction l as [|y l IH]; cbn [ins_w].
  - intros [H|[]]. left. symmetry. exact H.
  - destruct (w_op w <? w_op y).
    + intros [H|H]; [left; symmetry; exact H | right; exact H].
    + destruct (w_op w =? w_op y).
      * intros [H|H]; [left; symmetry; exact H | right; right; exact H].
      * intros [H|H]; [right; left; exact H|].
        destruct (IH H) as [H1|H1]; [left; exact H1 | right; right; exact H1].
Qed.

Lemma ids_upd_w w l : pend_ids (upd_w w l) = pend_ids l.
Proof.
  unfold upd_w, pend_ids. rewrite map_map. apply map_ext_in. intros x _.
  destruct (w_op x =? w_op w) eqn:E; [|reflexivity]. apply N.eqb_eq in E. symmetry. exact E.
Qed.

Lemma In_upd_w v w l : In v (upd_w w l) -> v = w \/ In v l.
Proof.
  unfold upd_w. rewrite in_map_iff. intros [x [E H]].
  destruct (w_op x =? w_op w); [left; symmetry; exact E | right; subst v; exact H].
Qed.

Lemma find_upd_w a w l :
  find_w a (upd_w w l) =
  match find_w a l with
  | None => None
  | Some x => if a =? w_op w then Some w else Some x
  end.
Proof.
  unfold upd_w. induction l as [|x l IH]; cbn [map find_w]; [reflexivity|].
  destruct (w_op x =? w_op w) eqn:E1.
  - apply N.eqb_eq in E1. destruct (w_op w =? a) eqn:E2.
    + apply N.eqb_eq in E2.
      assert (H : w_op x =? a = true) by (apply N.eqb_eq; congruence). rewrite H.
      assert (H0 : a =? w_op w = true) by (apply N.eqb_eq; congruence). rewrite H0. reflexivity.
    + assert (H : w_op x =? a = false) by (rewrite E1; exact E2). rewrite H. exact IH.
  - destruct (w_op x =? a) eqn:E2.
    + apply N.eqb_eq in E2.
      assert (H : a =? w_op w = false) by (rewrite <- E2; exact E1). rewrite H. reflexivity.
    + exact IH.
Qed.

(* ---- Progress -------------------------------------------------------------------------------- *)
Lemma pr_get_set n k v p : pr_get n (pr_set k v p) = if n =? k then v else pr_get n p.
Proof.
  induction p as [|[k' x] p IH]; cbn [pr_set pr_get].
  - rewrite (N.eqb_sym k n). reflexivity.
  - destruct (k <? k') eqn:E1.
    + cbn [pr_get]. rewrite (N.eqb_sym k n). reflexivity.
    + destruct (k =? k') eqn:E2.
      * apply N.eqb_eq in E2. subst k'. cbn [pr_get]. rewrite (N.eqb_sym k n).
        destruct (n =? k); reflexivity.
      * cbn [pr_get]. destruct (k' =? n) eqn:E3.
        -- apply N.eqb_eq in E3. subst k'. rewrite (N.eqb_sym n k), E2. reflexivity.
        -- exact IH.
Qed.

(* ---- sort_desc / nth --------------------------------------------------------------------------- *)
Lemma ins_desc_Forall (P : N -> Prop) x l : P x -> Forall P l -> Forall P (ins_desc x l).
Proof.
  intros Hx H. induction H as [|y l Hy H IH]; cbn [ins_desc].
  - constructor; [exact Hx|constructor].
  - destruct (y <=? x).
    + constructor; [exact Hx|]. constructor; assumption.
    + constructor; assumption.
Qed.

Lemma sort_desc_Forall (P : N -> Prop) l : Forall P l -> Forall P (sort_desc l).
Proof.
  unfold sort_desc. intro H. induction H as [|y l Hy H IH]; cbn [fold_right].
  - constructor.
  - apply ins_desc_Forall; assumption.
Qed.

Lemma nth_Forall (P : N -> Prop) l i d : P d -> Forall P l -> P (nth i l d).
Proof.
  intros Hd H. revert i. induction H as [|y l Hy H IH]; intro i; destruct i; cbn [nth]; auto.
Qed.

(* ---- frames: which fields a transition touches ---------------------------------------------------- *)
(* everything except PendingAppends / PendingAppendOrder / InflightAppend is unchanged *)
Definition same_but_app (s s' : state) : Prop :=
  s_key s' = s_key s /\ s_local s' = s_local s /\ s_gen s' = s_gen s /\ s_id s' = s_id s
  /\ s_epoch s' = s_epoch s /\ s_lepoch s' = s_lepoch s /\ s_role s' = s_role s
  /\ s_status s' = s_status s /\ s_leader s' = s_leader s /\ s_replicas s' = s_replicas s
  /\ s_isr s' = s_isr s /\ s_minisr s' = s_minisr s /\ s_leo s' = s_leo s /\ s_hw s' = s_hw s
  /\ s_cp s' = s_cp s /\ s_ready s' = s_ready s /\ s_progress s' = s_progress s.

Lemma same_but_app_refl s : same_but_app s s.
Proof. unfold same_but_app. repeat split. Qed.

Lemma same_but_app_set_app s p o i : same_but_app s (set_app s p o i).
Proof. unfold same_but_app. repeat split. Qed.

Lemma same_but_app_trans a b c : same_but_app a b -> same_but_app b c -> same_but_app a c.
Proof.
  unfold same_but_app. intros H1 H2.
  repeat match goal with H : _ /\ _ |- _ => destruct H end.
  repeat split; congruence.
Qed.

(* ---- the watermark invariant ------------------------------------------------------------------------- *)
Definition prog_le (s : state) : Prop := forall n, pr_get n (s_progress s) <= s_leo s.

Definition WM (s : state) : Prop := s_cp s <= s_hw s /\ s_hw s <= s_leo s /\ prog_le s.

Lemma WM_same s s' : same_but_app s s' -> WM s -> WM s'.
Proof.
  unfold same_but_app, WM, prog_le. intros H [H1 [H2 H3]].
  repeat match goal with H : _ /\ _ |- _ => destruct H end.
  split; [congruence|]. split; [congruence|].
  intro n. replace (s_progress s') with (s_progress s) by congruence.
  replace (s_leo s') with (s_leo s) by congruence. apply H3.
Qed.

Lemma advance_hw_frame s :
  s_leo (advance_hw s) = s_leo s /\ s_cp (advance_hw s) = s_cp s
  /\ s_progress (advance_hw s) = s_progress s /\ s_pending (advance_hw s) = s_pending s
  /\ s_order (advance_hw s) = s_order s /\ s_infl (advance_hw s) = s_infl s
  /\ s_epoch (advance_hw s) = s_epoch s /\ s_lepoch (advance_hw s) = s_lepoch s
  /\ s_role (advance_hw s) = s_role s /\ s_local (advance_hw s) = s_local s
  /\ s_replicas (advance_hw s) = s_replicas s.
Proof.
  unfold advance_hw.
  destruct ((s_minisr s <=? 0)%Z || (Z.of_nat (length (s_isr s)) <? s_minisr s)%Z);
    [repeat split|].
  destruct (nth _ _ _ <=? s_hw s); repeat split.
Qed.

Lemma advance_hw_mono s : s_hw s <= s_hw (advance_hw s).
Proof.
  unfold advance_hw.
  destruct ((s_minisr s <=? 0)%Z || (Z.of_nat (length (s_isr s)) <? s_minisr s)%Z);
    [apply N.le_refl|].
  destruct (nth _ _ _ <=? s_hw s) eqn:E; [apply N.le_refl|].
  apply N.leb_gt in E. cbn [set_hw s_hw]. apply N.lt_le_incl. exact E.
Qed.

Lemma advance_hw_le s : prog_le s -> s_hw s <= s_leo s -> s_hw (advance_hw s) <= s_leo s.
Proof.
  intros Hp Hh. unfold advance_hw.
  destruct ((s_minisr s <=? 0)%Z || (Z.of_nat (length (s_isr s)) <? s_minisr s)%Z); [exact Hh|].
  destruct (nth _ _ _ <=? s_hw s) eqn:E; [exact Hh|].
  cbn [set_hw s_hw].
  apply (nth_Forall (fun x => x <= s_leo s)); [apply N.le_0_l|].
  apply sort_desc_Forall. apply Forall_forall. intros x Hx.
  apply in_map_iff in Hx. destruct Hx as [n [E1 _]]. subst x. apply Hp.
Qed.

Lemma WM_advance_hw s : WM s -> WM (advance_hw s).
Proof.
  intros [H1 [H2 H3]]. pose proof (advance_hw_frame s) as F.
  destruct F as [F1 [F2 [F3 _]]]. unfold WM, prog_le. rewrite F1, F2, F3.
  split; [|split].
  - eapply N.le_trans; [exact H1|apply advance_hw_mono].
  - apply advance_hw_le; assumption.
  - exact H3.
Qed.
