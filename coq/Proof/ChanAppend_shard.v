(* Proof/ChanAppend_shard.v — writer creation and reclaim in one shard (shard.go
   getOrCreate / reclaimIdleWritersLocked, writer.go idleExpired): the sweep only
   removes writers that own no admitted, unfinished send, so at every moment a
   channel has AT MOST ONE writer holding such work — the "single scheduled writer
   per channel" the ordering clause of C29 relies on.  With the idleness test
   replaced by "nothing runnable right now" the statement is false. *)
From WK Require Import Base.Base Gen.Consts_C29 Model.ChanAppend.
Open Scope N_scope.

Lemma wmap_set_keys ch w m :
  map fst (wmap_set ch w m) = if existsb (N.eqb ch) (map fst m) then map fst m else map fst m ++ [ch].
Proof.
  induction m as [|[k v] m IH]; cbn [wmap_set map fst existsb]; [reflexivity|].
  rewrite (N.eqb_sym ch k). destruct (k =? ch) eqn:E; cbn [orb map fst]; [reflexivity|].
  rewrite IH. destruct (existsb (N.eqb ch) (map fst m)); reflexivity.
Qed.

Lemma nodup_snoc {A} (l : list A) x : NoDup l -> ~ In x l -> NoDup (l ++ [x]).
Proof.
  induction l as [|y l IH]; intros H Hx; cbn [app]; [constructor; [intros []|constructor]|].
  inversion H as [|z m Hy Hnd]; subst. constructor.
  - intro Hin. apply in_app_iff in Hin. destruct Hin as [Hin|[Hin|[]]]; [contradiction|].
    subst. apply Hx. left. reflexivity.
  - apply IH; [exact Hnd|]. intro Hin. apply Hx. right. exact Hin.
Qed.

Lemma wmap_set_nodup ch w m : NoDup (map fst m) -> NoDup (map fst (wmap_set ch w m)).
Proof.
  intro H. rewrite wmap_set_keys. destruct (existsb (N.eqb ch) (map fst m)) eqn:E; [exact H|].
  apply nodup_snoc; [exact H|].
  intro Hin. assert (X : existsb (N.eqb ch) (map fst m) = true).
  { apply existsb_exists. exists ch. split; [exact Hin|apply N.eqb_refl]. }
  congruence.
Qed.

Lemma filter_keys_nodup (f : N * swriter -> bool) m : NoDup (map fst m) -> NoDup (map fst (filter f m)).
Proof.
  induction m as [|p m IH]; intro H; cbn [filter]; [constructor|].
  cbn [map] in H. inversion H as [|x l Hx Hnd]; subst.
  destruct (f p); [|apply IH; exact Hnd]. cbn [map]. constructor; [|apply IH; exact Hnd].
  intro Hin. apply Hx. apply in_map_iff in Hin. destruct Hin as [q [E Hq]]. apply filter_In in Hq.
  apply in_map_iff. exists q. tauto.
Qed.

(* what the sweep may remove: unscheduled writers without work *)
Definition harmless (w : swriter) : Prop := has_work w = false /\ sw_scheduled w = false.

Lemma expired_harmless w now ret : idleExpired w now ret = true -> harmless w.
Proof.
  unfold idleExpired, idleExpired_with, harmless, has_work.
  destruct ((ret <=? 0)%Z); cbn [orb]; [discriminate|].
  destruct (sw_scheduled w); [discriminate|].
  destruct (writer_idle w); cbn [negb]; [|discriminate]. auto.
Qed.

Lemma harmless_finish w n : harmless w -> sw_finish w n = w.
Proof.
  intros [H _]. unfold has_work, writer_idle in H. apply negb_false_iff in H.
  apply andb_true_iff in H. destruct H as [_ H]. apply negb_true_iff in H.
  unfold hasPendingWork in H. apply orb_false_iff in H. destruct H as [H _].
  apply orb_false_iff in H. destruct H as [H _]. apply orb_false_iff in H. destruct H as [_ H].
  unfold sw_finish. rewrite H. reflexivity.
Qed.

Record SInv (s : shard) : Prop := {
  si_keys : NoDup (map fst (sh_writers s));
  si_orphans : forall p, In p (sh_orphans s) -> harmless (snd p) }.

Lemma set_nth_same {A} k (x : A) l : nth_error l k = Some x -> set_nth k x l = l.
Proof.
  revert k. induction l as [|y l IH]; intros k H; [destruct k; discriminate|].
  destruct k as [|k]; cbn [set_nth nth_error] in *; [inversion H; reflexivity|]. f_equal. apply IH. exact H.
Qed.

Lemma sstep_inv s e : SInv s -> SInv (sstep writer_idle s e).
Proof.
  intros [K O]. destruct e as [ch items|ch|ch n|k n|k|d]; cbn [sstep].
  - destruct (wmap_get ch (sh_writers s)) as [w|].
    + constructor; cbn [sh_writers sh_orphans]; [apply wmap_set_nodup; exact K|exact O].
    + constructor; cbn [sh_writers sh_orphans].
      * apply wmap_set_nodup. apply filter_keys_nodup. exact K.
      * intros p Hp. apply in_app_iff in Hp. destruct Hp as [Hp|Hp]; [apply O; exact Hp|].
        apply filter_In in Hp. destruct Hp as [_ Hp]. eapply expired_harmless. exact Hp.
  - destruct (wmap_get ch (sh_writers s)) as [w|]; [|constructor; assumption].
    destruct (sw_scheduled w); [|constructor; assumption].
    constructor; cbn [sh_writers sh_orphans]; [apply wmap_set_nodup; exact K|exact O].
  - destruct (wmap_get ch (sh_writers s)) as [w|]; [|constructor; assumption].
    constructor; cbn [sh_writers sh_orphans]; [apply wmap_set_nodup; exact K|exact O].
  - destruct (nth_error (sh_orphans s) k) as [[ch w]|] eqn:E; [|constructor; assumption].
    pose proof (O _ (nth_error_In _ _ E)) as Hh. cbn [snd] in Hh.
    rewrite (harmless_finish w n Hh), (set_nth_same _ _ _ E). destruct s; constructor; assumption.
  - destruct (nth_error (sh_orphans s) k) as [[ch w]|] eqn:E; [|constructor; assumption].
    pose proof (O _ (nth_error_In _ _ E)) as [_ Hs]. cbn [snd] in Hs. rewrite Hs. constructor; assumption.
  - constructor; assumption.
Qed.

Lemma srun_inv ret hw limit evs : SInv (srun writer_idle ret hw limit evs).
Proof.
  unfold srun. assert (H : SInv (Shard [] [] 1 ret hw limit)) by (constructor; [constructor|intros p []]).
  revert H. generalize (Shard [] [] 1 ret hw limit). induction evs as [|e evs IH]; intros s H; cbn [fold_left]; [exact H|].
  apply IH. apply sstep_inv. exact H.
Qed.

(* the writers of channel [ch] — mapped or already swept — that still own unfinished work *)
Definition working_writers (s : shard) (ch : N) : list (N * swriter) :=
  filter (fun p => (fst p =? ch) && has_work (snd p)) (sh_writers s ++ sh_orphans s).

Lemma filter_key_le1 (f : swriter -> bool) (ch : N) (m : list (N * swriter)) :
  NoDup (map fst m) -> (length (filter (fun p : N * swriter => (fst p =? ch)%N && f (snd p)) m) <= 1)%nat.
Proof.
  induction m as [|[k w] m IH]; intro H; cbn [filter length]; [lia|].
  cbn [map fst] in H. inversion H as [|x l Hx Hnd]; subst. cbn [fst snd].
  destruct (k =? ch) eqn:E; cbn [andb]; [|apply IH; exact Hnd].
  apply N.eqb_eq in E. subst k.
  assert (Hz : filter (fun p : N * swriter => (fst p =? ch) && f (snd p)) m = []).
  { clear -Hx. induction m as [|[k v] m IHm]; [reflexivity|]. cbn [filter fst snd].
    cbn [map fst] in Hx. destruct (k =? ch) eqn:E; cbn [andb].
    - apply N.eqb_eq in E. subst k. exfalso. apply Hx. left. reflexivity.
    - apply IHm. intro Hin. apply Hx. right. exact Hin. }
  destruct (f w); [rewrite Hz; cbn; lia|apply IH; exact Hnd].
Qed.

(* at every moment, for every interleaving, a channel has at most one writer that
   holds admitted-but-unfinished work *)
Theorem single_working_writer : forall ret hw limit evs ch,
  (length (working_writers (srun writer_idle ret hw limit evs) ch) <= 1)%nat.
Proof.
  intros ret hw limit evs ch. destruct (srun_inv ret hw limit evs) as [K O].
  unfold working_writers. rewrite filter_app, app_length.
  assert (Hz : filter (fun p : N * swriter => (fst p =? ch) && has_work (snd p))
                      (sh_orphans (srun writer_idle ret hw limit evs)) = []).
  { generalize O. generalize (sh_orphans (srun writer_idle ret hw limit evs)).
    induction l as [|p l IH]; intro Ho; [reflexivity|]. cbn [filter].
    destruct (Ho p (or_introl eq_refl)) as [Hw _]. rewrite Hw, andb_false_r.
    apply IH. intros q Hq. apply Ho. right. exact Hq. }
  rewrite Hz. cbn [length]. pose proof (filter_key_le1 has_work ch _ K). lia.
Qed.

(* the seeded predicate "nothing runnable right now": a writer whose append is in
   flight, with a send admitted behind it, is swept; the next send to the channel gets a
   second writer, and both hold work *)
Definition idle_nothing_runnable (w : swriter) : bool := negb (hasRunnableWorkLocked w).

Definition reclaim_witness : list sev :=
  let it := fun i => [PSend 0 0 dflt_cmd i false 0 i] in
  [SSubmit 1 (it 1); SAdvance 1; SSubmit 1 (it 2); SAdvance 1; STick 100;
   SSubmit 2 (it 9); SSubmit 1 (it 3)].

Theorem single_working_writer_refuted :
  length (working_writers (srun idle_nothing_runnable 10 0 1 reclaim_witness) 1) = 2%nat.
Proof. vm_compute. reflexivity. Qed.

(* ... while the code's test keeps the one writer on the same events *)
Example reclaim_witness_code :
  length (working_writers (srun writer_idle 10 0 1 reclaim_witness) 1) = 1%nat
  /\ sh_orphans (srun writer_idle 10 0 1 reclaim_witness) = [].
Proof. vm_compute. split; reflexivity. Qed.

(* on a row of an "idle" case the monitor accepts whatever the model answers *)
Lemma idle_expired_no_work w now ret : idleExpired w now ret = true -> has_work w = false.
Proof. intro H. apply (expired_harmless _ _ _ H). Qed.
