(* Proof/Machine_range.v — assignInflightRecordsToWaiters never slices out of range in a
   reachable state: the record counts of the in-flight batch are positive and add up to the
   number of flattened records (C06).  This discharges the one place where the model replaces a
   Go panic (slice bounds) by a total function. *)
From WK Require Import Base.Base Gen.Consts_C06 Model.Machine Proof.Machine Proof.Machine_steps
     Proof.Machine_trans.
Open Scope N_scope.

Definition count_sum (counts : list N) : nat := fold_right (fun c a => (N.to_nat c + a)%nat) 0%nat counts.

Definition infl_wf (f : inflight) : Prop :=
  Forall (fun c => 0 < c) (f_counts f) /\ count_sum (f_counts f) = length (f_recs f).

Definition IW (s : state) : Prop :=
  match s_infl s with None => True | Some f => infl_wf f end.

Lemma assign_offsets_length : forall recs base, length (assign_offsets recs base) = length recs.
Proof.
  induction recs as [|[i x] r IH]; intro base; cbn [assign_offsets length]; [reflexivity|].
  rewrite IH. reflexivity.
Qed.

Lemma assign_in_range_ok recs : forall ids next counts pend,
  Forall (fun c => 0 < c) counts -> (next + count_sum counts <= length recs)%nat ->
  assign_in_range recs next ids counts pend = true.
Proof.
  induction ids as [|op ids IH]; intros next counts pend Hpos Hsum; cbn [assign_in_range]; [reflexivity|].
  destruct counts as [|c cs].
  - cbn [count_sum fold_right] in Hsum. cbn [tl]. destruct (find_w op pend) as [w|].
    + apply andb_true_iff. split.
      * apply Nat.leb_le. apply Nat.min_glb; lia.
      * apply IH; [constructor|]. cbn [count_sum fold_right]. pose proof (Nat.le_min_r (next + (if Nat.eqb 0 0 then length (w_recs w) else 0)) (length recs)). lia.
    + apply IH; [constructor|]. cbn [count_sum fold_right]. lia.
  - inversion Hpos as [|c0 cs0 Hc Hcs]; subst. cbn [count_sum fold_right] in Hsum.
    fold (count_sum cs) in Hsum. cbn [tl].
    assert (Hn : N.to_nat c <> 0%nat) by lia.
    destruct (find_w op pend) as [w|].
    + apply Nat.eqb_neq in Hn. rewrite Hn. apply andb_true_iff. split.
      * apply Nat.leb_le. apply Nat.min_glb; lia.
      * apply IH; [exact Hcs|]. pose proof (Nat.le_min_l (next + N.to_nat c) (length recs)). lia.
    + apply IH; [exact Hcs|]. lia.
Qed.

(* ---- the in-flight batch is well formed in every reachable state ------------------------------------ *)
Lemma propose_check_nonempty pend : forall ws seen,
  propose_check pend seen ws = 0 -> forall b, In b ws -> b_ids b <> [].
Proof.
  induction ws as [|b r IH]; intros seen H b' Hb'; [destruct Hb'|].
  cbn [propose_check] in H. destruct (b_ids b) as [|i0 ir] eqn:Ib; [vm_compute in H; discriminate|].
  destruct (mem (b_op b) seen); [vm_compute in H; discriminate|].
  destruct (find_w (b_op b) pend); [vm_compute in H; discriminate|].
  destruct Hb' as [Hb'|Hb'].
  - subst b'. rewrite Ib. discriminate.
  - eapply IH; eassumption.
Qed.

Lemma new_batch_wf batch (ws : list bwaiter) :
  (forall b, In b ws -> b_ids b <> []) ->
  infl_wf (Inflight batch (concat (map (fun b => new_recs (b_ids b)) ws)) (map b_op ws)
                    (map (fun b => N.of_nat (length (b_ids b))) ws)).
Proof.
  intro H. unfold infl_wf. cbn [f_counts f_recs]. split.
  - apply Forall_forall. intros c Hc. apply in_map_iff in Hc. destruct Hc as [b [E Hb]].
    subst c. specialize (H b Hb). destruct (b_ids b); [exfalso; apply H; reflexivity|].
    cbn [length]. lia.
  - clear H. induction ws as [|b r IH]; cbn [map concat count_sum fold_right]; [reflexivity|].
    fold (count_sum (map (fun b0 => N.of_nat (length (b_ids b0))) r)).
    rewrite app_length, IH. unfold new_recs. rewrite map_length, Nat2N.id. reflexivity.
Qed.

Lemma complete_waiters_infl s order s' rs : complete_waiters s order = (s', rs) -> s_infl s' = s_infl s.
Proof. intro H. destruct (complete_waiters_spec _ _ _ _ H) as [_ [I _]]. exact I. Qed.

Lemma fail_inflight_IW s err s' d : fail_inflight s err = (s', d) -> IW s -> IW s'.
Proof.
  unfold fail_inflight, IW. destruct (s_infl s) as [f|] eqn:I.
  - destruct (fail_loop err (f_ids f) (s_pending s)) as [[rs cs] p']. intro H. inversion H; subst.
    st. auto.
  - intro H. inversion H; subst. rewrite I. auto.
Qed.

Lemma step_IW s e s' d : step s e = (s', d) -> IW s -> IW s'.
Proof.
  intros H HI. destruct e; cbn [step] in H.
  - unfold apply_meta in H. destruct (validate_meta s m); [|inversion H; subst; exact HI].
    destruct (m_status m =? StatusDeleted); inversion H; subst; unfold IW in *; st;
      destruct (should_clear s m); auto.
  - unfold propose_batch in H.
    destruct ((s_status s =? StatusDeleted) || (s_status s =? StatusDeleting)); [inversion H; subst; exact HI|].
    destruct (negb (s_role s =? RoleLeader)); [inversion H; subst; exact HI|].
    destruct (negb (s_ready s)); [inversion H; subst; exact HI|].
    destruct (s_infl s) eqn:I; [inversion H; subst; exact HI|].
    destruct (propose_check (s_pending s) [] ws) eqn:C; [|inversion H; subst; exact HI].
    destruct ws as [|b0 ws0]; [inversion H; subst; exact HI|].
    destruct (propose_admit (s_pending s) (s_order s) (b0 :: ws0)) as [p' o'].
    apply (f_equal fst) in H. cbn [fst] in H. subst s'.
    unfold IW; st. apply new_batch_wf. eapply propose_check_nonempty. exact C.
  - unfold propose_batch in H.
    destruct ((s_status s =? StatusDeleted) || (s_status s =? StatusDeleting)); [inversion H; subst; exact HI|].
    destruct (negb (s_role s =? RoleLeader)); [inversion H; subst; exact HI|].
    destruct (negb (s_ready s)); [inversion H; subst; exact HI|].
    destruct (s_infl s) eqn:I; [inversion H; subst; exact HI|].
    destruct (propose_check (s_pending s) [] [BWaiter op mode ids false]) eqn:C; [|inversion H; subst; exact HI].
    destruct (propose_admit (s_pending s) (s_order s) [BWaiter op mode ids false]) as [p' o'].
    apply (f_equal fst) in H. cbn [fst] in H. subst s'.
    unfold IW; st. apply new_batch_wf. eapply propose_check_nonempty. exact C.
  - unfold apply_stored in H. destruct (negb (matches_fence s f)); [inversion H; subst; exact HI|].
    destruct (negb (err =? 0)); [eapply fail_inflight_IW; eassumption|].
    destruct (s_infl s) as [i|] eqn:I; [|inversion H; subst; exact HI]. cbv zeta in H.
    match type of H with (match complete_waiters ?mm ?o with _ => _ end) = _ =>
      destruct (complete_waiters mm o) as [s4 rs] eqn:CW end.
    inversion H; subst. apply complete_waiters_infl in CW. unfold IW. rewrite CW. exact Logic.I.
  - unfold apply_quorum in H. destruct (negb (matches_fence s f)); [inversion H; subst; exact HI|].
    destruct (negb (err =? 0)); [eapply fail_inflight_IW; eassumption|].
    destruct (s_infl s) as [i|] eqn:I; [|inversion H; subst; exact HI]. cbv zeta in H.
    match type of H with (if ?c then _ else _) = _ => destruct c end;
      [eapply fail_inflight_IW; eassumption|].
    match type of H with (match complete_waiters ?mm ?o with _ => _ end) = _ =>
      destruct (complete_waiters mm o) as [s5 rs] eqn:CW end.
    inversion H; subst. apply complete_waiters_infl in CW. unfold IW. rewrite CW. exact Logic.I.
  - assert (A : forall off', apply_follower_ack s follower off' = (s', d) -> IW s').
    { intros off' Ha. unfold apply_follower_ack in Ha.
      destruct (negb (s_role s =? RoleLeader) || negb (mem follower (s_replicas s)));
        [inversion Ha; subst; exact HI|]. cbv zeta in Ha.
      match type of Ha with (match complete_waiters (advance_hw ?x) _ with _ => _ end) = _ =>
        set (s1 := x) in * end.
      destruct (complete_waiters (advance_hw s1) (s_order (advance_hw s1))) as [s3 rs] eqn:CW.
      inversion Ha; subst. apply complete_waiters_infl in CW.
      pose proof (advance_hw_frame s1) as [_ [_ [_ [_ [_ [F6 _]]]]]].
      unfold IW in *. rewrite CW, F6. unfold s1.
      destruct (pr_get follower (s_progress s) <? off'); st; exact HI. }
    unfold step_ack in H. destruct r;
      repeat match type of H with
             | (if ?c then _ else _) = _ => destruct c
             | (_, _) = _ => inversion H; subst; exact HI
             | apply_follower_ack _ _ _ = _ => eapply A; exact H
             end.
  - unfold cancel_waiter in H. destruct (find_w op (s_pending s)); inversion H; subst; [|exact HI].
    unfold IW in *; st. exact HI.
  - unfold abort_batch in H. destruct (s_infl s) as [f|] eqn:I; [|inversion H; subst; exact HI].
    destruct (f_op f =? batch); inversion H; subst; [|exact HI]. unfold IW; st. exact Logic.I.
Qed.

Lemma IW_run_state : forall evs s, IW s -> IW (run_state s evs).
Proof.
  induction evs as [|e evs IH]; intros s HI; cbn [run_state]; [exact HI|].
  apply IH. destruct (step s e) as [s' d] eqn:E. cbn [fst]. eapply step_IW; eassumption.
Qed.

Theorem no_slice_out_of_range key local gen id leo hw cp evs i base :
  let s := run_state (init_state key local gen id leo hw cp) evs in
  s_infl s = Some i ->
  assign_in_range (assign_offsets (f_recs i) base) 0 (f_ids i) (f_counts i) (s_pending s) = true.
Proof.
  cbv zeta. intro H.
  assert (W : IW (run_state (init_state key local gen id leo hw cp) evs)).
  { apply IW_run_state. exact Logic.I. }
  unfold IW in W. rewrite H in W. destruct W as [Hpos Hsum].
  apply assign_in_range_ok; [exact Hpos|]. rewrite assign_offsets_length, Hsum. lia.
Qed.
