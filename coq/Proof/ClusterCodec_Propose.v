(* Proof/ClusterCodec_Propose.v — the fixed-width envelopes of
   pkg/cluster/propose/codec.go and pkg/cluster/net/codec.go. *)
From WK Require Import Base.Base Base.Bytes Gen.Consts_C27 Model.ClusterCodec_Propose.
From Coq Require Import ZifyBool ZifyN ZifyNat.
Open Scope N_scope.

Lemma len2 (l : bytes) : length l = 2%nat -> exists a b, l = [a; b].
Proof. destruct l as [|a [|b [|c l]]]; cbn; intro H; try discriminate. eauto. Qed.
Lemma len4 (l : bytes) : length l = 4%nat -> exists a b c d, l = [a; b; c; d].
Proof. destruct l as [|a [|b [|c [|d [|e l]]]]]; cbn; intro H; try discriminate. eauto 6. Qed.

Lemma put_u16_shape x : x < 65536 -> exists a b, put_u16 x = [a; b] /\ be_get [a; b] = x.
Proof.
  intro H. destruct (len2 (put_u16 x)) as (a & b & E); [apply be_put_length|].
  exists a, b. split; [exact E|]. rewrite <- E. apply be_get_put. exact H.
Qed.
Lemma put_u32_shape x : x < 4294967296 -> exists a b c d, put_u32 x = [a; b; c; d] /\ be_get [a; b; c; d] = x.
Proof.
  intro H. destruct (len4 (put_u32 x)) as (a & b & c & d & E); [apply be_put_length|].
  exists a, b, c, d. split; [exact E|]. rewrite <- E. apply be_get_put. exact H.
Qed.

(* ---- propose payload envelope -------------------------------------------------------------- *)

Theorem payload_roundtrip : forall slot cmd,
  slot < 65536 -> DecodePayload (EncodePayload slot cmd) = Some (slot, cmd).
Proof.
  intros slot cmd H. destruct (put_u16_shape slot H) as (a & b & E & G).
  unfold EncodePayload, DecodePayload. rewrite E. cbn [app length Nat.ltb Nat.leb at_ nth].
  rewrite N.eqb_refl. cbn [negb orb sl skipn firstn Nat.sub]. rewrite G. reflexivity.
Qed.

(* fewer than 3 bytes are rejected ... *)
Theorem payload_short_rejected : forall p, (length p < 3)%nat -> DecodePayload p = None.
Proof.
  intros p H. unfold DecodePayload. assert (E : Nat.ltb (length p) 3 = true) by (apply Nat.ltb_lt; exact H).
  rewrite E. reflexivity.
Qed.

(* ... and a longer prefix of an envelope is the envelope of a prefix of the command:
   the envelope carries its command to the end of the input, no decoder could tell *)
Theorem payload_prefix : forall slot cmd k,
  slot < 65536 -> (k <= length cmd)%nat ->
  firstn (3 + k) (EncodePayload slot cmd) = EncodePayload slot (firstn k cmd).
Proof.
  intros slot cmd k H Hk. destruct (put_u16_shape slot H) as (a & b & E & _).
  unfold EncodePayload. rewrite E. reflexivity.
Qed.

(* ---- forward request -------------------------------------------------------------------------- *)

Lemma forward_encoding r :
  forward_wf r = true ->
  exists a b c d e f g h i j,
    EncodeForwardRequest r =
      Some ([forwardVersion; fw_class r; if fw_want_result r then forwardFlagWantResult else 0;
             a; b; c; d; e; f; g; h; i; j] ++ fw_payload r)
    /\ be_get [a; b; c; d] = fw_slot_id r /\ be_get [e; f] = fw_hash_slot r
    /\ be_get [g; h; i; j] = N.of_nat (length (fw_payload r)).
Proof.
  unfold forward_wf, u32max1. intro W.
  repeat (apply andb_true_iff in W; destruct W as [W ?]).
  destruct (put_u32_shape (fw_slot_id r)) as (a & b & c & d & E1 & G1); [lia|].
  destruct (put_u16_shape (fw_hash_slot r)) as (e & f & E2 & G2); [lia|].
  destruct (put_u32_shape (N.of_nat (length (fw_payload r)))) as (g & h & i & j & E3 & G3); [lia|].
  exists a, b, c, d, e, f, g, h, i, j. unfold EncodeForwardRequest, u32max1.
  assert (Z1 : (fw_slot_id r =? 0) = false) by lia.
  assert (Z2 : (N.of_nat (length (fw_payload r)) =? 0) = false) by lia.
  rewrite Z1, Z2. cbn [orb].
  rewrite N.mod_small by lia. rewrite E1, E2, E3.
  assert (Ec : normalizeProposalClass (fw_class r) = fw_class r) by (apply N.eqb_eq; assumption).
  rewrite Ec. repeat split; assumption.
Qed.

Theorem forward_roundtrip : forall r,
  forward_wf r = true ->
  exists e, EncodeForwardRequest r = Some e /\ DecodeForwardRequest e = Some r.
Proof.
  intros r W. destruct (forward_encoding r W) as (a & b & c & d & e & f & g & h & i & j & E & G1 & G2 & G3).
  eexists. split; [exact E|].
  unfold forward_wf in W. repeat (apply andb_true_iff in W; destruct W as [W ?]).
  unfold DecodeForwardRequest.
  set (p := fw_payload r) in *.
  assert (L : length ([forwardVersion; fw_class r; if fw_want_result r then forwardFlagWantResult else 0;
                       a; b; c; d; e; f; g; h; i; j] ++ p) = (13 + length p)%nat)
    by (rewrite app_length; reflexivity).
  rewrite L.
  assert (L1 : Nat.ltb (13 + length p) 11 = false) by (apply Nat.ltb_ge; lia).
  assert (L2 : Nat.ltb (13 + length p) 13 = false) by (apply Nat.ltb_ge; lia).
  rewrite L1. cbn [app at_ nth].
  change (forwardVersion =? forwardVersionLegacy) with false.
  change (forwardVersion =? forwardVersionClass) with false.
  change (forwardVersion =? forwardVersion) with true. cbv iota.
  rewrite L2. cbn [sl skipn firstn Nat.sub].
  rewrite G1, G2, G3.
  replace (13 + length p - 13)%nat with (length p) by lia. rewrite N.eqb_refl. cbn [negb].
  assert (Ec : normalizeProposalClass (fw_class r) = fw_class r) by (apply N.eqb_eq; assumption).
  rewrite Ec.
  assert (Ef : flag_set (if fw_want_result r then forwardFlagWantResult else 0) forwardFlagWantResult
               = fw_want_result r) by (destruct (fw_want_result r); reflexivity).
  rewrite Ef. destruct r; reflexivity.
Qed.

Lemma firstn_prefix {A} (p s : list A) n : (n <= length p)%nat -> firstn n (p ++ s) = firstn n p.
Proof.
  intro H. rewrite firstn_app. replace (n - length p)%nat with 0%nat by lia.
  rewrite firstn_O, app_nil_r. reflexivity.
Qed.

(* every strict prefix of an encoded forward request is rejected: the declared payload
   length no longer matches what is left *)
Theorem forward_truncation_rejected : forall r e p s,
  forward_wf r = true -> EncodeForwardRequest r = Some e ->
  e = p ++ s -> s <> [] -> DecodeForwardRequest p = None.
Proof.
  intros r e p s W He Hp Hs.
  destruct (forward_encoding r W) as (a & b & c & d & e1 & f & g & h & i & j & E & G1 & G2 & G3).
  rewrite E in He. injection He as <-.
  set (hdr := [forwardVersion; fw_class r; if fw_want_result r then forwardFlagWantResult else 0;
               a; b; c; d; e1; f; g; h; i; j]) in *.
  assert (Ls : (0 < length s)%nat) by (destruct s; [contradiction|cbn; lia]).
  assert (Lt : (length p + length s = 13 + length (fw_payload r))%nat).
  { rewrite <- app_length, <- Hp. unfold hdr. cbn [app length]. lia. }
  unfold DecodeForwardRequest.
  destruct (Nat.ltb (length p) 11) eqn:L11; [reflexivity|]. apply Nat.ltb_ge in L11.
  (* the first 11 bytes of p are those of the header *)
  assert (P13 : firstn 11 p = firstn 11 hdr).
  { rewrite <- (firstn_prefix p s 11) by lia. rewrite <- Hp. reflexivity. }
  destruct p as [|p0 p]; [cbn in L11; lia|].
  cbn [firstn hdr] in P13. injection P13 as -> P13.
  cbn [at_ nth].
  change (forwardVersion =? forwardVersionLegacy) with false.
  change (forwardVersion =? forwardVersionClass) with false.
  change (forwardVersion =? forwardVersion) with true. cbv iota.
  destruct (Nat.ltb (length (forwardVersion :: p)) 13) eqn:L13; [reflexivity|]. apply Nat.ltb_ge in L13.
  assert (Q : firstn 13 (forwardVersion :: p) = hdr).
  { rewrite <- (firstn_prefix (forwardVersion :: p) s 13) by lia. rewrite <- Hp. reflexivity. }
  assert (S : sl 9 13 (forwardVersion :: p) = [g; h; i; j]).
  { assert (X : forwardVersion :: p = hdr ++ skipn 13 (forwardVersion :: p))
      by (rewrite <- Q; symmetry; apply firstn_skipn).
    unfold sl. rewrite X. unfold hdr. reflexivity. }
  rewrite S, G3.
  assert (Ne : (N.of_nat (length (fw_payload r)) =? N.of_nat (length (forwardVersion :: p) - 13)) = false).
  { apply N.eqb_neq. intro Eq. apply Nnat.Nat2N.inj in Eq. lia. }
  rewrite Ne. reflexivity.
Qed.

(* ---- cluster net header --------------------------------------------------------------------------- *)

Theorem header_roundtrip : forall version kind payload,
  CheckHeader (PutHeader [] version kind ++ payload) version kind = Some payload.
Proof.
  intros. unfold CheckHeader, PutHeader. cbn [app length Nat.ltb Nat.leb at_ nth].
  rewrite !N.eqb_refl. reflexivity.
Qed.

Theorem header_short_rejected : forall p v k, (length p < 2)%nat -> CheckHeader p v k = None.
Proof.
  intros p v k H. unfold CheckHeader. assert (E : Nat.ltb (length p) 2 = true) by (apply Nat.ltb_lt; exact H).
  rewrite E. reflexivity.
Qed.

(* a header of another version or kind is rejected *)
Theorem header_mismatch_rejected : forall v k v' k' payload,
  (v =? v') && (k =? k') = false -> CheckHeader (PutHeader [] v k ++ payload) v' k' = None.
Proof.
  intros v k v' k' payload H. unfold CheckHeader, PutHeader. cbn [app length Nat.ltb Nat.leb at_ nth].
  destruct (v =? v'); [|reflexivity]. destruct (k =? k'); [discriminate|reflexivity].
Qed.

(* a legacy (version 1) forward frame still decodes, with the foreground class *)
Example forward_legacy_example :
  DecodeForwardRequest (hx "010000000700090000000268") = None
  /\ DecodeForwardRequest (hx "01000000070009000000026869")
     = Some (ForwardRequest 7 9 ProposalClassForeground false (hx "6869")).
Proof. split; vm_compute; reflexivity. Qed.
