(* Proof/SlotFSM_monitor.v — the monitor of C13 accepts every trace of the model on logs of good
   commands whose one-command-per-batch run meets no error: C13_monitor = 0 on the case built
   from the model's own runs (any digest function that ignores the applied index, any hash of
   the result bytes, any batch partitions).  This links the monitor evaluated on the
   implementation's traces to the partition theorem: a monitor failure on a case on which the
   model and the implementation agree contradicts fsm_partition_invariant. *)
From WK Require Import Base.Base.
From WK Require Import Gen.Consts_C15 Gen.Consts_C17 Gen.Consts_C13.
From WK Require Import Model.RuntimeMeta Model.ChanMigration Model.SlotFSM Model.SlotFSM_tlv Model.SlotFSM_C13.
From WK Require Import Proof.SlotFSM_machine Proof.SlotFSM_inst.
From Coq Require Import ZifyBool ZifyN ZifyNat.
Open Scope N_scope.

(* ---- the operations of good commands are good; a good batch never meets a stale commit ---------------- *)

Lemma loc_view_ops_good cfg lx hs t : Forall good_wop (snd (loc_view cfg lx hs t)).
Proof.
  unfold loc_view.
  destruct (negb (hs_source match lx with Some x => x | None => fresh_state cfg hs t end =? cfg_slot cfg)
            || negb (hs_target match lx with Some x => x | None => fresh_state cfg hs t end =? t));
    cbn; repeat constructor.
Qed.

Lemma spec_ops_good cfg L M c key upd ops r :
  stage_spec cfg L M c = PDone key upd ops r -> Forall good_wop ops.
Proof.
  unfold stage_spec. destruct (negb (fc_slot_ok c)); [discriminate|].
  destruct (resolveHashSlot cfg c) as [hs|]; [|discriminate].
  assert (Hplain : forall k,
             (if fenced_view cfg (L hs) hs then PDone None None [] (R_FENCED, [])
              else match outbox_view cfg (L hs) c hs with
                   | None => PDone None None (plain_ops hs k) (R_OK, [])
                   | Some (x', ops0, fw) => PDone None (Some x') (plain_ops hs k ++ ops0) (R_OK, fw)
                   end) = PDone key upd ops r -> Forall good_wop ops).
  { intros k H. destruct (fenced_view cfg (L hs) hs); [inversion H; constructor|].
    unfold outbox_view in H. destruct (isApplyDelta (fc_cmd c)); [inversion H; apply plain_ops_good|].
    destruct (mig_get (cfg_migs cfg) hs) as [[t ph]|]; [|inversion H; apply plain_ops_good].
    destruct (negb ((ph =? migrationPhaseDelta) || (ph =? migrationPhaseSwitching))); [inversion H; apply plain_ops_good|].
    pose proof (loc_view_ops_good cfg (L hs) hs t) as G0.
    destruct (loc_view cfg (L hs) hs t) as [x ops0]. cbn [snd] in G0. inversion H; subst.
    apply Forall_app. split; [apply plain_ops_good|]. apply Forall_app. split; [exact G0|repeat constructor]. }
  destruct (fc_cmd c) as [|create uid token flag level|cm|s i h [o|]|h target|h s t i|h s t i|k]; try apply Hplain.
  - destruct (M (DKey hs s i)); intro H; inversion H; subst; [constructor|].
    apply Forall_app. split; [apply plain_ops_good|repeat constructor].
  - destruct (h =? hs); [|discriminate]. unfold fence_view.
    destruct (migrationForFence cfg hs target) as [[t ph]|]; [|discriminate].
    destruct (t =? 0); [discriminate|].
    pose proof (loc_view_ops_good cfg (L hs) hs t) as G0.
    destruct (loc_view cfg (L hs) hs t) as [x ops0]. cbn [snd] in G0.
    destruct (negb (hs_fence_index x =? 0)); intro H; inversion H; subst; [exact G0|].
    apply Forall_app. split; [exact G0|repeat constructor].
  - unfold ack_view.
    destruct (negb (h =? hs) || negb (s =? cfg_slot cfg) || (t =? 0) || (i =? 0)); [discriminate|].
    destruct (L hs) as [x|]; [|intro H; inversion H; constructor].
    destruct (negb (hs_source x =? s) || negb (hs_target x =? t) || (hs_last_outbox x <? i));
      intro H; inversion H; subst; repeat constructor.
Qed.

Lemma stage_all_good_ops cfg d : forall cs b ops rs,
    Forall good_cmd cs -> stage_all (fsm_stage cfg) d b cs = inr (ops, rs) -> Forall good_wop ops.
Proof.
  induction cs as [|c cs IH]; intros b ops rs Hg H; cbn [stage_all] in H.
  - inversion H. constructor.
  - inversion Hg as [|? ? Hc Hcs]; subst.
    rewrite (stage_good_eq cfg d b c Hc) in H.
    destruct (stage_spec cfg (load_state d b) (delta_seen d b) c) as [e|key upd ops_c r] eqn:S; cbn [lift_spec] in H; [discriminate|].
    match type of H with context [stage_all _ d ?b' cs] => destruct (stage_all (fsm_stage cfg) d b' cs) as [e|[ops_r rs']] eqn:Sr end;
      [discriminate|].
    inversion H; subst. apply Forall_app. split; [exact (spec_ops_good _ _ _ _ _ _ _ _ S)|exact (IH _ _ _ Hcs Sr)].
Qed.

Definition last_index (cs : list fcmd) : N := match rev cs with c :: _ => fc_index c | [] => 0 end.

(* a good batch that returns results committed in one piece: the watermark is the last index *)
Lemma good_batch_applied cfg d cs d' rs :
  Forall good_cmd cs -> last_index cs <> 0 ->
  fsm_apply_batch cfg d cs = (d', BRes rs) -> st_applied_index d' = last_index cs.
Proof.
  intros Hg Hl H. unfold fsm_apply_batch, ApplyBatch, apply_core in H.
  destruct (stage_all (fsm_stage cfg) d bstate0 cs) as [e|[ops rs0]] eqn:St; [discriminate|].
  pose proof (stage_all_good_ops cfg d cs bstate0 ops rs0 Hg St) as G.
  assert (Gf : Forall good_wop (ops ++ fsm_finish cs)).
  { apply Forall_app. split; [exact G|]. unfold fsm_finish. destruct (rev cs) as [|c r]; [constructor|].
    destruct (fc_index c =? 0); repeat constructor. }
  rewrite (run_ops_good _ d (fsm_v0 d) Gf) in H. inversion H; subst. clear H.
  cbn [fsm_flush ca_pend fsm_v0]. rewrite fold_left_app. unfold fsm_finish, last_index in *.
  destruct (rev cs) as [|c r]; [contradiction|].
  assert (E : (fc_index c =? 0) = false) by (apply N.eqb_neq; exact Hl). rewrite E. reflexivity.
Qed.

(* ---- single-command batches ---------------------------------------------------------------------------------- *)

Lemma batch_single cfg s c :
  fsm_apply_batch cfg s [c] =
  match apply_one (fsm_stage cfg) bstate0 fsm_finish fsm_v0 fsm_run_op fsm_flush (R_STALE, []) s c with
  | (s', inl e) => (s', BErr e)
  | (s', inr x) => (s', BRes [x])
  end.
Proof.
  unfold fsm_apply_batch, ApplyBatch, apply_one, apply_core. cbn [stage_all].
  destruct (fsm_stage cfg s bstate0 c) as [e|t' ops x]; [reflexivity|].
  destruct (run_ops fsm_run_op s (fsm_v0 s) ((ops ++ []) ++ fsm_finish [c])); reflexivity.
Qed.

(* ---- the model's own case ----------------------------------------------------------------------------------------- *)

Section ModelCase.
  Variable cfg : fsm_cfg.
  Variable dg : store -> N.                       (* digest of the tables *)
  Hypothesis dg_eqv : forall a b, store_eqv a b -> dg a = dg b.
  Variable hr : fres -> N.                        (* hash of the result bytes *)

  Notation singles := (fsm_apply_individually cfg).
  Notation one := (apply_one (fsm_stage cfg) bstate0 fsm_finish fsm_v0 fsm_run_op fsm_flush (R_STALE, [])).

  Definition robs (r : fres) : N * N := (fst r, hr r).

  Definition obs_of (s : store) (out : @bres fres) : bobs :=
    BObs (match out with BErr e => BFatal e | BRes rs => BOk (map robs rs) end) (dg s) (st_applied_index s).

  Fixpoint ref_run (s : store) (cs : list fcmd) : list bobs :=
    match cs with
    | [] => []
    | c :: r => let '(s', out) := fsm_apply_batch cfg s [c] in
                obs_of s' out :: match out with BErr _ => [] | BRes _ => ref_run s' r end
    end.

  Fixpoint part_run (s : store) (bs : list (list fcmd)) : list bobs :=
    match bs with
    | [] => []
    | b :: r => let '(s', out) := fsm_apply_batch cfg s b in
                obs_of s' out :: match out with BErr _ => [] | BRes _ => part_run s' r end
    end.

  Definition model_case (es : list entry) (szs : list (list N)) : c13_case :=
    let cs := to_fcmds 1 es in
    C13Case cfg true es (dg store_empty) (ref_run store_empty cs)
            (map (fun sz => Part sz (part_run store_empty (split_sizes sz cs)) None) szs) [] None.

  (* ---- the reference run of a log that meets no error ---------------------------------------------------------- *)

  Lemma singles_cons s c r s' rs :
    singles s (c :: r) = (s', BRes rs) ->
    exists s1 x rs', one s c = (s1, inr x) /\ singles s1 r = (s', BRes rs') /\ rs = x :: rs'.
  Proof.
    unfold fsm_apply_individually. cbn [apply_individually].
    destruct (one s c) as [s1 [e|x]] eqn:O; [discriminate|].
    destruct (apply_individually _ _ _ _ _ _ _ s1 r) as [s2 [e|rs']] eqn:R; [discriminate|].
    intro H. inversion H; subst. exists s1, x, rs'. auto.
  Qed.

  Lemma ref_run_cons s c r s1 x :
    one s c = (s1, inr x) -> ref_run s (c :: r) = obs_of s1 (BRes [x]) :: ref_run s1 r.
  Proof. intro H. cbn [ref_run]. rewrite batch_single, H. reflexivity. Qed.

  Lemma ref_run_app a : forall s b s' rs,
      singles s (a ++ b) = (s', BRes rs) ->
      exists sa ra rb, singles s a = (sa, BRes ra) /\ singles sa b = (s', BRes rb) /\ rs = ra ++ rb
                       /\ ref_run s (a ++ b) = ref_run s a ++ ref_run sa b
                       /\ length (ref_run s a) = length a.
  Proof.
    induction a as [|c a IH]; intros s b s' rs H.
    - exists s, [], rs. cbn. repeat split; auto.
    - cbn [app] in H. destruct (singles_cons _ _ _ _ _ H) as (s1 & x & rs' & H1 & Hr & ->).
      destruct (IH s1 b s' rs' Hr) as (sa & ra & rb & Ha & Hb & -> & Happ & Hlen).
      exists sa, (x :: ra), rb. split.
      + unfold fsm_apply_individually in *. cbn [apply_individually]. rewrite H1, Ha. reflexivity.
      + split; [exact Hb|]. split; [reflexivity|]. split.
        * cbn [app]. rewrite !(ref_run_cons _ _ _ _ _ H1). rewrite Happ. reflexivity.
        * rewrite (ref_run_cons _ _ _ _ _ H1). cbn [length]. rewrite Hlen. reflexivity.
  Qed.

  Lemma seg_results_ref a : forall s sa ra,
      singles s a = (sa, BRes ra) -> seg_results (ref_run s a) = Some (map robs ra).
  Proof.
    induction a as [|c a IH]; intros s sa ra H.
    - cbn in H. inversion H. reflexivity.
    - destruct (singles_cons _ _ _ _ _ H) as (s1 & x & rs' & H1 & Hr & ->).
      rewrite (ref_run_cons _ _ _ _ _ H1). cbn [seg_results obs_of bo_out map]. rewrite (IH _ _ _ Hr). reflexivity.
  Qed.

  Lemma fold_seg_step_ref a : forall s sa ra pos dgst floor,
      singles s a = (sa, BRes ra) -> (floor <= pos)%nat ->
      exists floor',
        fold_left seg_step (ref_run s a) (WSt pos dgst floor)
        = WSt (pos + length a) (match a with [] => dgst | _ => dg sa end) floor'
        /\ (floor' <= pos + length a)%nat.
  Proof.
    induction a as [|c a IH]; intros s sa ra pos dgst floor H Hf.
    - cbn in H. inversion H; subst. exists floor. cbn. rewrite Nat.add_0_r. split; [reflexivity|lia].
    - destruct (singles_cons _ _ _ _ _ H) as (s1 & x & rs' & H1 & Hr & ->).
      rewrite (ref_run_cons _ _ _ _ _ H1). cbn [fold_left].
      assert (Hstep : exists f1, seg_step (WSt pos dgst floor) (obs_of s1 (BRes [x])) = WSt (S pos) (dg s1) f1 /\ (f1 <= S pos)%nat).
      { unfold seg_step, obs_of. cbn [bo_out map robs bo_digest w_pos w_floor].
        destruct (fst x =? R_STALE); eexists; split; try reflexivity; lia. }
      destruct Hstep as (f1 & -> & Hf1).
      destruct (IH s1 sa rs' (S pos) (dg s1) f1 Hr Hf1) as (floor' & Hfold & Hfl).
      exists floor'. rewrite Hfold. cbn [length]. split.
      + f_equal; [lia|]. destruct a; [|reflexivity]. cbn in Hr. inversion Hr. reflexivity.
      + lia.
  Qed.

  (* ---- indexes ---------------------------------------------------------------------------------------------------------- *)

  Lemma to_fcmds_firstn n : forall i es, firstn n (to_fcmds i es) = to_fcmds i (firstn n es).
  Proof.
    induction n as [|n IH]; intros i es; [reflexivity|]. destruct es as [|e es]; [reflexivity|].
    cbn [to_fcmds firstn]. rewrite IH. reflexivity.
  Qed.

  Lemma to_fcmds_skipn n : forall i es, skipn n (to_fcmds i es) = to_fcmds (i + N.of_nat n) (skipn n es).
  Proof.
    induction n as [|n IH]; intros i es.
    - cbn. rewrite N.add_0_r. reflexivity.
    - destruct es as [|e es]; [reflexivity|]. cbn [to_fcmds skipn]. rewrite IH. f_equal. lia.
  Qed.

  Lemma to_fcmds_length i es : length (to_fcmds i es) = length es.
  Proof. revert i. induction es as [|e es IH]; intro i; cbn [to_fcmds length]; [reflexivity|]. rewrite IH. reflexivity. Qed.

  Lemma to_fcmds_last : forall es i, es <> [] -> last_index (to_fcmds i es) = i + N.of_nat (length es) - 1.
  Proof.
    intros es i Hne. unfold last_index.
    assert (H : forall es i, es <> [] -> exists c r, rev (to_fcmds i es) = c :: r /\ fc_index c = i + N.of_nat (length es) - 1).
    { clear. induction es as [|e es IH]; intros i Hne; [contradiction|].
      cbn [to_fcmds rev length]. destruct es as [|e2 es].
      - cbn. eexists _, []. split; [reflexivity|]. cbn. lia.
      - destruct (IH (i + 1) ltac:(discriminate)) as (c & r & Hr & Hi).
        rewrite Hr. cbn [app]. exists c, (r ++ [FCmd (e_slot_ok e) (e_hs e) i (e_cmd e) (e_data e)]).
        split; [reflexivity|]. rewrite Hi. cbn [length]. lia. }
    destruct (H es i Hne) as (c & r & -> & Hi). exact Hi.
  Qed.

  Lemma split_sizes_concat sizes : forall (l : list fcmd),
      fold_right (fun s acc => (N.to_nat s + acc)%nat) 0%nat sizes = length l ->
      concat (split_sizes sizes l) = l.
  Proof.
    induction sizes as [|s sizes IH]; intros l H; cbn [split_sizes concat fold_right] in *.
    - destruct l; [reflexivity|discriminate].
    - rewrite IH; [apply firstn_skipn|]. rewrite skipn_length. lia.
  Qed.

  (* ---- one batch of a partition against the reference run ------------------------------------------------------------------ *)

  Lemma good_app a b : Forall good_cmd (a ++ b) -> Forall good_cmd a /\ Forall good_cmd b.
  Proof. apply Forall_app. Qed.

  (* the partition state is equivalent to the reference state: the batch returns the reference
     results and reaches an equivalent store *)
  Lemma batch_vs_singles sp sr b sb rb :
    Forall good_cmd b -> store_eqv sp sr ->
    singles sr b = (sb, BRes rb) ->
    exists sp', fsm_apply_batch cfg sp b = (sp', BRes rb) /\ store_eqv sp' sb.
  Proof.
    intros Hg E Hs.
    pose proof (singles_eqv (fsm_stage cfg) bstate0 fsm_finish fsm_v0 fsm_run_op fsm_flush (R_STALE, [])
                  store_eqv store_eqv_sym store_eqv_trans good_cmd good_wop (fun _ _ => True) agree
                  fsm_H_init fsm_H_op (fsm_H_stage cfg) fsm_H_finish b sr sp Hg E) as Hse.
    unfold fsm_apply_individually in Hs. rewrite Hs in Hse.
    destruct (apply_individually (fsm_stage cfg) bstate0 fsm_finish fsm_v0 fsm_run_op fsm_flush (R_STALE, []) sp b)
      as [spb [e|rb']] eqn:Hsp; [contradiction|]. destruct Hse as (<- & Epb).
    destruct (fsm_apply_batch cfg sp b) as [sp' [e|rs2]] eqn:HB.
    - exfalso. destruct (fsm_fatal_agrees cfg sp b sp' e Hg HB) as (s3 & e' & H3 & _).
      unfold fsm_apply_individually in H3. rewrite Hsp in H3. discriminate.
    - destruct (fsm_batch_eq_singles cfg sp b sp' rs2 Hg HB) as (s3 & H3 & E3).
      unfold fsm_apply_individually in H3. rewrite Hsp in H3. inversion H3; subst s3 rs2.
      exists sp'. split; [reflexivity|]. eapply store_eqv_trans; [apply store_eqv_sym; exact E3|exact Epb].
  Qed.

  Lemma list_eqb_res_refl l : list_eqb res_eqb l l = true.
  Proof.
    induction l as [|x l IH]; [reflexivity|]. cbn [list_eqb]. rewrite IH. unfold res_eqb. rewrite !N.eqb_refl. reflexivity.
  Qed.

  (* ---- the walk ---------------------------------------------------------------------------------------------------------------- *)

  Lemma walk_model sizes : forall es pos sr sp floor sfin rs done,
      let i := N.of_nat pos + 1 in
      let cs := to_fcmds i es in
      Forall good_cmd cs ->
      store_eqv sp sr ->
      (floor <= pos)%nat ->
      singles sr cs = (sfin, BRes rs) ->
      Forall (fun s => 1 <= s) sizes ->
      fold_right (fun s acc => (N.to_nat s + acc)%nat) 0%nat sizes = length es ->
      walk (WSt pos (dg sr) floor) done (ref_run sr cs) es sizes (part_run sp (split_sizes sizes cs)) = 0.
  Proof.
    induction sizes as [|s sizes IH]; intros es pos sr sp floor sfin rs done i cs Hg E Hfl Hs Hsz Hsum.
    - cbn [split_sizes part_run walk]. reflexivity.
    - inversion Hsz as [|? ? Hs1 Hszr]; subst. cbn [fold_right] in Hsum.
      set (len := N.to_nat s) in *. assert (Hlen1 : (1 <= len)%nat) by (subst len; lia).
      assert (Hlen : (len <= length es)%nat) by lia.
      cbn [split_sizes part_run]. fold len.
      set (b := firstn len cs). set (rest := skipn len cs).
      assert (Hcs : cs = b ++ rest) by (symmetry; apply firstn_skipn).
      assert (Hb : b = to_fcmds i (firstn len es)) by (subst b cs; apply to_fcmds_firstn).
      assert (Hrest : rest = to_fcmds (N.of_nat (pos + len) + 1) (skipn len es)).
      { subst rest cs. rewrite to_fcmds_skipn. f_equal. subst i. lia. }
      rewrite Hcs in Hg. destruct (good_app _ _ Hg) as (Hgb & Hgr).
      rewrite Hcs in Hs. destruct (ref_run_app b sr rest sfin rs Hs) as (sb & rb & rr & Hsb & Hsr & -> & Happ & Hrl).
      destruct (batch_vs_singles sp sr b sb rb Hgb E Hsb) as (sp' & HB & E').
      rewrite HB. cbn [walk obs_of bo_out bo_digest bo_applied].
      (* the reference segment *)
      assert (Hbl : length b = len).
      { rewrite Hb, to_fcmds_length, firstn_length. lia. }
      assert (Hseg : firstn len (ref_run sr cs) = ref_run sr b).
      { rewrite Hcs, Happ. rewrite firstn_app, Hrl, Hbl, Nat.sub_diag. cbn [firstn]. rewrite app_nil_r.
        rewrite <- Hbl at 1. rewrite <- Hrl. apply firstn_all. }
      assert (Hskip : skipn len (ref_run sr cs) = ref_run sb rest).
      { rewrite Hcs, Happ. rewrite skipn_app, Hrl, Hbl, Nat.sub_diag. cbn [skipn].
        rewrite <- Hbl at 1. rewrite <- Hrl. rewrite skipn_all. reflexivity. }
      fold len. rewrite Hseg, (seg_results_ref b sr sb rb Hsb), Hrl, Hbl, Nat.eqb_refl.
      destruct (fold_seg_step_ref b sr sb rb pos (dg sr) floor Hsb Hfl) as (floor' & Hfold & Hfl').
      rewrite Hfold, Hbl.
      assert (Hbne : b <> []). { intro X. rewrite X in Hbl. cbn in Hbl. lia. }
      destruct b as [|c0 b0] eqn:Hbeq; [contradiction|]. rewrite <- Hbeq in *.
      cbn [w_digest w_floor w_pos].
      rewrite list_eqb_res_refl. rewrite (dg_eqv sp' sb E'), N.eqb_refl.
      (* the applied index *)
      assert (Hne : firstn len es <> []).
      { intro X. rewrite Hb, X in Hbl. cbn in Hbl. lia. }
      assert (Hli : last_index b = N.of_nat (pos + len)).
      { rewrite Hb, (to_fcmds_last _ _ Hne), firstn_length. subst i. lia. }
      assert (Hap : st_applied_index sp' = N.of_nat (pos + len)).
      { rewrite <- Hli. apply (good_batch_applied cfg sp b sp' rb Hgb); [rewrite Hli; lia|exact HB]. }
      rewrite Hap, Nat2N.id.
      assert (L1 : Nat.leb floor' (pos + len) = true) by (apply Nat.leb_le; rewrite <- Hbl; exact Hfl').
      assert (L2 : Nat.leb (pos + len) (pos + len) = true) by (apply Nat.leb_le; lia).
      rewrite L1, L2. cbn [andb].
      rewrite Hskip, Hrest.
      replace (dg sb) with (dg sb) by reflexivity.
      rewrite Hrest in Hgr, Hsr.
      apply (IH (skipn len es) (pos + len)%nat sb sp' floor' sfin rr (done ++ firstn len es));
        [exact Hgr|exact E'|rewrite <- Hbl; exact Hfl'|exact Hsr|exact Hszr|rewrite skipn_length; lia].
  Qed.

  (* ---- the reference run as the monitor reads it ---------------------------------------------------------------------------------- *)

  Lemma accepted_not_refused c s1 x s e :
    one s c = (s1, inr x) ->
    fc_slot_ok c = e_slot_ok e -> fc_hs c = e_hs e -> fc_cmd c = e_cmd e ->
    (forall k, e_cmd e <> HOpaque k) ->
    must_be_refused cfg e = false.
  Proof.
    intros H Hso Hhs Hcmd Hno. unfold apply_one, apply_core in H. cbn [stage_all] in H.
    unfold fsm_stage in H. rewrite Hso in H.
    destruct (e_slot_ok e) eqn:So; cbn [negb] in H; [|inversion H].
    destruct (resolveHashSlot cfg c) as [hs|] eqn:R; [|inversion H].
    unfold must_be_refused. rewrite So. cbn [negb orb].
    unfold resolveHashSlot in R. rewrite Hcmd, Hhs in R. unfold type_byte.
    destruct (e_cmd e) eqn:K; try (exfalso; eapply Hno; reflexivity);
      try (destruct (memN (if (e_hs e =? 0) && cfg_allow_legacy cfg then cfg_legacy cfg else e_hs e) (cfg_owned cfg));
           [reflexivity|cbn in R; try discriminate]);
      try (apply andb_false_iff; right; vm_compute; reflexivity).
  Qed.

  Lemma ref_ok_model es : forall pos sr sfin rs c0,
      let i := N.of_nat pos + 1 in
      let cs := to_fcmds i es in
      Forall good_cmd cs ->
      singles sr cs = (sfin, BRes rs) ->
      c_cfg c0 = cfg ->
      st_applied_index sr = N.of_nat pos \/ True ->
      ref_ok c0 pos es (ref_run sr cs) (dg sr) (st_applied_index sr) = true.
  Proof.
    induction es as [|e es IH]; intros pos sr sfin rs c0 i cs Hg Hs Hcfg _.
    - reflexivity.
    - cbn [to_fcmds] in cs. subst cs. inversion Hg as [|? ? Hc Hcs]; subst.
      destruct (singles_cons _ _ _ _ _ Hs) as (s1 & x & rs' & H1 & Hr & ->).
      rewrite (ref_run_cons _ _ _ _ _ H1). cbn [ref_ok obs_of bo_out map bo_applied bo_digest].
      rewrite Hcfg.
      rewrite (accepted_not_refused _ s1 x sr e H1); try reflexivity.
      + cbn [negb andb].
        assert (Hap : st_applied_index s1 = N.of_nat (S pos)).
        { pose proof (batch_single cfg sr (FCmd (e_slot_ok e) (e_hs e) i (e_cmd e) (e_data e))) as Hb. rewrite H1 in Hb.
          rewrite (good_batch_applied cfg sr [FCmd (e_slot_ok e) (e_hs e) i (e_cmd e) (e_data e)] s1 [x]); auto.
          - unfold last_index. cbn. subst i. lia.
          - unfold last_index. cbn. subst i. lia. }
        rewrite Hap, N.eqb_refl. cbn [orb andb].
        replace (i + 1) with (N.of_nat (S pos) + 1) in * by (subst i; lia).
        rewrite <- Hap at 2.
        apply (IH (S pos) s1 sfin rs' c0); auto.
      + intros k Hk. unfold good_cmd in Hc. cbn [fc_cmd] in Hc. rewrite Hk in Hc. discriminate.
  Qed.

  Lemma ref_run_length cs : forall s sfin rs, singles s cs = (sfin, BRes rs) -> length (ref_run s cs) = length cs.
  Proof.
    intros s sfin rs H. rewrite <- (app_nil_r cs) in H.
    destruct (ref_run_app cs s [] sfin rs H) as (_ & _ & _ & _ & _ & _ & _ & Hl). exact Hl.
  Qed.

  (* ---- the theorem ------------------------------------------------------------------------------------------------------------------- *)

  Theorem model_satisfies_monitor es szs sfin rs :
    Forall good_cmd (to_fcmds 1 es) ->
    singles store_empty (to_fcmds 1 es) = (sfin, BRes rs) ->
    Forall (fun sizes => Forall (fun s => 1 <= s) sizes
                         /\ fold_right (fun s acc => (N.to_nat s + acc)%nat) 0%nat sizes = length es) szs ->
    C13_monitor (model_case es szs) = 0.
  Proof.
    intros Hg Hs Hszs. unfold C13_monitor.
    set (c := model_case es szs).
    assert (Hr : ref_ok c 0 (c_log c) (c_ref c) (c_d0 c) 0 = true).
    { exact (ref_ok_model es 0 store_empty sfin rs c Hg Hs eq_refl (or_intror I)). }
    assert (Hc : ref_complete c = true).
    { unfold ref_complete. subst c. cbn [model_case c_ref c_log].
      rewrite (ref_run_length _ _ _ _ Hs), to_fcmds_length, Nat.eqb_refl. reflexivity. }
    rewrite Hr, Hc. cbn [andb negb]. subst c. cbn [model_case c_snaps forallb negb c_parts c_ref c_log c_d0].
    rewrite map_map. cbn [p_sizes p_obs].
    assert (Hall : forall sz, In sz szs ->
               walk (WSt 0 (dg store_empty) 0) [] (ref_run store_empty (to_fcmds 1 es)) es sz
                    (part_run store_empty (split_sizes sz (to_fcmds 1 es))) = 0).
    { intros sz Hin. rewrite Forall_forall in Hszs. destruct (Hszs sz Hin) as (H1 & H2).
      apply (walk_model sz es 0 store_empty store_empty 0 sfin rs []); auto.
      apply store_eqv_refl. }
    clear Hszs Hr Hc. induction szs as [|sz szs IHs]; [reflexivity|].
    cbn [map max_code]. rewrite (Hall sz (or_introl eq_refl)).
    rewrite IHs; [reflexivity|]. intros sz' Hin. apply Hall. right. exact Hin.
  Qed.
End ModelCase.
