(* Proof/SlotFSM_c39_link.v — the monitor of C39 on the traces of the two-slot model.

   [gen] turns a script without observations into the case the harness would print if the
   implementation behaved like the model (digests: an injective encoding of the user rows).
   The monitor is then evaluated on every in-order delivery schedule of bounded length of a
   script with two writes of one register, a fence in the same batch, a write behind the fence,
   a refused write on the target before the switch and on the source after it
   (bounded check by vm_compute; the unbounded statements are the theorems of Properties/C39.v). *)
From WK Require Import Base.Base.
From WK Require Import Gen.Consts_C15 Gen.Consts_C17 Gen.Consts_C13.
From WK Require Import Model.RuntimeMeta Model.ChanMigration Model.SlotFSM Model.SlotFSM_tlv Model.SlotFSM_C13 Model.SlotFSM_C39.
Open Scope N_scope.

(* an injective digest of the user table (Cantor pairing over an injective encoding of byte strings) *)
Definition cpair (a b : N) : N := (a + b) * (a + b + 1) / 2 + b.
Definition enc_bytes (b : bytes) : N := fold_left (fun acc x => acc * 257 + x + 1) b 0.
Definition enc_z (z : Z) : N := match z with Z0 => 0 | Zpos p => 2 * Npos p | Zneg p => 2 * Npos p + 1 end.
Definition enc_row (u : urow) : N :=
  cpair (ur_hs u) (cpair (enc_bytes (ur_uid u)) (cpair (enc_bytes (ur_token u)) (cpair (enc_z (ur_flag u)) (enc_z (ur_level u))))).
Definition enc_rows (l : list urow) : N := fold_left (fun acc u => cpair acc (enc_row u) + 1) l 0.
Definition dg_all (s : store) : N := enc_rows (st_users s).
Definition dg_mig (s : store) : N := enc_rows (filter (fun u => ur_hs u =? HS_MIG) (st_users s)).

Inductive istep :=
| ISrc (cmds : list entry) | ITgt (cmds : list entry) | IStartDelta | ISnapshot
| IDeliver (idxs : list N) | ISwitch.

Definition obs_of (s : store) (r : @bres fres) : bobs :=
  BObs (match r with BErr e => BFatal e | BRes rs => BOk (map (fun x => (fst x, 0)) rs) end) (dg_all s) (st_applied_index s).

(* the observed step and the next system *)
Definition gen_step (y : sys) (delivered : list N) (st : istep) : step * sys * list N :=
  match st with
  | ISrc cmds =>
      let log := to_fcmds (y_src_idx y + 1) cmds in
      let '(s', r) := fsm_apply_batch (y_src_cfg y) (y_src y) log in
      let f := forwards_of r in
      (SSrc cmds (obs_of s' r) (map fw_index f),
       Sys s' (y_src_cfg y) (y_src_idx y + N.of_nat (length cmds)) (y_tgt y) (y_tgt_cfg y) (y_tgt_idx y)
           (y_fwd y ++ f) (y_log y ++ map (fun c => (fc_index c, fc_cmd c)) log), delivered)
  | ITgt cmds =>
      let log := to_fcmds (y_tgt_idx y + 1) cmds in
      let '(t', r) := fsm_apply_batch (y_tgt_cfg y) (y_tgt y) log in
      (STgt cmds (obs_of t' r),
       Sys (y_src y) (y_src_cfg y) (y_src_idx y) t' (y_tgt_cfg y) (y_tgt_idx y + N.of_nat (length cmds)) (y_fwd y) (y_log y),
       delivered)
  | IStartDelta => (SStartDelta, match sys_step y SStartDelta with Some y' => y' | None => y end, delivered)
  | ISnapshot => (SSnapshot true, match sys_step y (SSnapshot true) with Some y' => y' | None => y end, delivered)
  | IDeliver idxs =>
      let log := delta_cmds y (y_tgt_idx y + 1) idxs in
      let '(t', r) := fsm_apply_batch (y_tgt_cfg y) (y_tgt y) log in
      (SDeliver idxs [] (obs_of t' r) (dg_mig (y_tgt y)) (dg_mig t') (applied_indexes t'),
       Sys (y_src y) (y_src_cfg y) (y_src_idx y) t' (y_tgt_cfg y) (y_tgt_idx y + N.of_nat (length idxs)) (y_fwd y) (y_log y),
       match r with BRes _ => delivered ++ idxs | BErr _ => delivered end)
  | ISwitch =>
      let complete := forallb (fun f => memN (fw_index f) delivered) (y_fwd y) in
      (SSwitch complete (dg_mig (y_src y)) (dg_mig (y_tgt y)),
       match sys_step y (SSwitch complete 0 0) with Some y' => y' | None => y end, delivered)
  end.

Fixpoint gen (y : sys) (delivered : list N) (l : list istep) : list step :=
  match l with
  | [] => []
  | st :: r => let '(o, y', d') := gen_step y delivered st in o :: gen y' d' r
  end.

(* the script *)
Definition w (tok : bytes) : entry := Entry true 12 (HUser false (hx "7531") tok 0%Z 0%Z) (hx "0101") None None.
Definition script (schedule : list (list N)) : list istep :=
  [ISrc [w (hx "30")]; IStartDelta; ISrc [w (hx "61")]; ISnapshot; ITgt [w (hx "7a")];
   ISrc [w (hx "62"); Entry true 12 (HFence 12 0) (hx "0115") None None; w (hx "63")]]
  ++ map IDeliver schedule
  ++ [ISwitch; ISrc [w (hx "64")]; ITgt [w (hx "65")]].

(* forwarded source indexes of the script: 2 (write a), 3 (write b), 4 (the fence) *)
Definition in_order (flat : list N) : bool :=
  (* first occurrences in increasing order *)
  let fix go (seen : list N) (mx : N) (l : list N) : bool :=
      match l with
      | [] => true
      | x :: r => if memN x seen then go seen mx r else (mx <? x) && go (x :: seen) x r
      end in go [] 0 flat.

Fixpoint all_lists (n : nat) (alphabet : list N) : list (list N) :=
  match n with
  | O => [[]]
  | S k => [] :: concat (map (fun l => map (fun a => a :: l) alphabet) (all_lists k alphabet))
  end.

(* schedules: every list of at most 5 deliveries over the three forwarded indexes whose first
   occurrences are in source order, delivered as batches of one, or as one batch *)
Definition schedules : list (list (list N)) :=
  let flats := filter in_order (all_lists 5 [2; 3; 4]) in
  map (fun f => map (fun x => [x]) f) flats ++ map (fun f => match f with [] => [] | _ => [f] end) flats.

Definition monitor_ok (schedule : list (list N)) : bool :=
  C39_monitor (C39Case true (gen sys0 [] (script schedule)) None None) =? 0.

Lemma monitor_accepts_model_bounded : forallb monitor_ok schedules = true.
Proof. vm_compute. reflexivity. Qed.

(* the check is not vacuous: the complete schedules reach the switch with equal tables, and some
   schedule contains duplicates *)
Lemma bounded_family_size : (200 <? N.of_nat (length schedules)) = true.
Proof. vm_compute. reflexivity. Qed.

(* ... and the monitor does reject an out-of-order complete schedule of the same script *)
Lemma monitor_rejects_reordered : monitor_ok [[3]; [2]; [4]] = false.
Proof. vm_compute. reflexivity. Qed.
