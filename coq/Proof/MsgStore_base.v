(* Proof/MsgStore_base.v — groundwork for the proofs about Model/MsgStore.v:
   decidable key equality, typed stores, characterisation of the scans by point
   reads, effect of the staged batches on point reads. *)
From WK Require Import Base.Base Model.KV Gen.Consts_C07 Model.MsgStore Proof.KV.
From Coq Require Import Sorting.Permutation Sorting.Sorted.

(* ---- equalities ------------------------------------------------------------------- *)

Lemma bytes_eqb_refl b : bytes_eqb b b = true.
Proof. apply bytes_eqb_eq. reflexivity. Qed.

Lemma bytes_eqb_neq a b : a <> b -> bytes_eqb a b = false.
Proof.
  intro H. destruct (bytes_eqb a b) eqn:E; [|reflexivity].
  apply bytes_eqb_eq in E. contradiction.
Qed.

Lemma bytes_eqb_false a b : bytes_eqb a b = false -> a <> b.
Proof. intros E H. subst. rewrite bytes_eqb_refl in E. discriminate. Qed.

Lemma is_nil_true b : is_nil b = true <-> b = [].
Proof. destruct b; cbn; split; intro H; try reflexivity; discriminate. Qed.

Lemma is_nil_false b : is_nil b = false <-> b <> [].
Proof. destruct b; cbn; split; intro H; try discriminate; try reflexivity; contradiction. Qed.

Ltac beq :=
  repeat match goal with
         | H : (_ && _) = true |- _ => apply andb_true_iff in H; destruct H
         | H : (_ =? _) = true |- _ => apply N.eqb_eq in H
         | H : bytes_eqb _ _ = true |- _ => apply bytes_eqb_eq in H
         end.

Lemma key_eqb_eq a b : key_eqb a b = true <-> a = b.
Proof.
  split.
  - destruct a, b; cbn [key_eqb]; intro H; try discriminate H; beq; subst; reflexivity.
  - intro H. subst b. destruct a; cbn [key_eqb];
      rewrite ?N.eqb_refl, ?bytes_eqb_refl; reflexivity.
Qed.

Lemma key_eqb_refl k : key_eqb k k = true.
Proof. apply key_eqb_eq. reflexivity. Qed.

Lemma key_eqb_neq a b : a <> b -> key_eqb a b = false.
Proof. apply (keqb_neq key_eqb key_eqb_eq). Qed.

(* ---- kget / kapply -------------------------------------------------------------------- *)

Definition keff := batch_effect key_eqb (V := value).
Definition swf (s : kvs) : Prop := wf (K := key) (V := value) s.

Lemma kget_apply k b (s : kvs) : kget k (kapply s b) = keff k b (kget k s).
Proof. unfold kget, kapply, keff. apply get_apply_batch. exact key_eqb_eq. Qed.

Lemma swf_apply b (s : kvs) : swf s -> swf (kapply s b).
Proof. unfold swf, kapply. apply wf_apply_batch. exact key_eqb_eq. Qed.

Lemma keff_app k b1 b2 cur : keff k (b1 ++ b2) cur = keff k b2 (keff k b1 cur).
Proof. apply batch_effect_app. Qed.

Lemma keff_nil k cur : keff k [] cur = cur.
Proof. reflexivity. Qed.

Lemma keff_cons k o b cur : keff k (o :: b) cur = keff k b (op_effect key_eqb k o cur).
Proof. reflexivity. Qed.

Lemma kin_iff_get k v (s : kvs) : swf s -> (In (k, v) s <-> kget k s = Some v).
Proof. unfold swf, kget. apply in_iff_get. exact key_eqb_eq. Qed.

(* a batch of point deletes *)
Definition del_keys (b : kbatch) : list key :=
  flat_map (fun o => match o with Del k => [k] | _ => [] end) b.
Definition all_del (b : kbatch) : Prop :=
  Forall (fun o => match o with Del _ => True | _ => False end) b.

Lemma keff_dels k b : all_del b -> forall cur,
  keff k b cur = if existsb (key_eqb k) (del_keys b) then None else cur.
Proof.
  induction 1 as [|o b Ho Hb IH]; intro cur; [reflexivity|].
  rewrite keff_cons. destruct o as [? ?|k'|?]; try contradiction.
  cbn [op_effect del_keys flat_map app existsb]. rewrite IH.
  destruct (key_eqb k k'); cbn [orb]; [destruct (existsb _ _); reflexivity|reflexivity].
Qed.

Lemma all_del_app b1 b2 : all_del b1 -> all_del b2 -> all_del (b1 ++ b2).
Proof. apply Forall_app_intro || (intros; apply Forall_app; split; assumption). Qed.

Lemma all_del_flat_map {A} (f : A -> kbatch) l :
  (forall x, all_del (f x)) -> all_del (flat_map f l).
Proof.
  intro H. induction l as [|x l IH]; cbn [flat_map]; [constructor|].
  apply Forall_app. split; [apply H|exact IH].
Qed.

Lemma del_keys_app b1 b2 : del_keys (b1 ++ b2) = del_keys b1 ++ del_keys b2.
Proof. unfold del_keys. apply flat_map_app. Qed.

Lemma del_keys_flat_map {A} (f : A -> kbatch) l :
  del_keys (flat_map f l) = flat_map (fun x => del_keys (f x)) l.
Proof.
  induction l as [|x l IH]; cbn [flat_map]; [reflexivity|].
  rewrite del_keys_app, IH. reflexivity.
Qed.

Lemma existsb_key_in k l : existsb (key_eqb k) l = true <-> In k l.
Proof.
  rewrite existsb_exists. split.
  - intros [x [Hx E]]. apply key_eqb_eq in E. subst. exact Hx.
  - intro H. exists k. split; [exact H|apply key_eqb_refl].
Qed.

Lemma existsb_key_notin k l : existsb (key_eqb k) l = false <-> ~ In k l.
Proof.
  rewrite <- existsb_key_in. destruct (existsb (key_eqb k) l); split; intro H;
    try discriminate; try reflexivity; try (intro; discriminate). exfalso. apply H. reflexivity.
Qed.

(* ---- scans as point reads ---------------------------------------------------------------- *)

Lemma in_rows_unsorted (s : kvs) c r :
  In r (rows_unsorted s c) <-> exists q, In (KyRow c q, VRow r) s.
Proof.
  unfold rows_unsorted. rewrite in_flat_map. split.
  - intros [[k v] [Hin Hr]]. destruct k; try contradiction. destruct v; try contradiction.
    destruct (c0 =? c) eqn:E; [|contradiction]. apply N.eqb_eq in E. subst.
    destruct Hr as [Hr|[]]. subst. eexists. exact Hin.
  - intros [q Hin]. exists (KyRow c q, VRow r). split; [exact Hin|].
    rewrite N.eqb_refl. left. reflexivity.
Qed.

Lemma in_rows_of (s : kvs) c r :
  swf s -> (In r (rows_of s c) <-> exists q, kget (KyRow c q) s = Some (VRow r)).
Proof.
  intro W. unfold rows_of. rewrite in_sort_by, in_rows_unsorted.
  split; intros [q H]; exists q; apply (kin_iff_get _ _ _ W); exact H.
Qed.

Lemma rows_of_sorted (s : kvs) c : sorted_le r_seq (rows_of s c).
Proof. apply sort_by_sorted. Qed.

Lemma in_idem_entries (s : kvs) c n u q i h :
  swf s -> (In (n, u, (q, i, h)) (idem_entries s c) <-> kget (KyIdem c n u) s = Some (VIdem q i h)).
Proof.
  intro W. rewrite <- (kin_iff_get _ _ _ W). unfold idem_entries. rewrite in_flat_map. split.
  - intros [[k v] [Hin Hr]]. destruct k; try contradiction. destruct v; try contradiction.
    destruct (c0 =? c) eqn:E; [|contradiction]. apply N.eqb_eq in E. subst.
    destruct Hr as [Hr|[]]. injection Hr as -> -> -> -> ->. exact Hin.
  - intro Hin. exists (KyIdem c n u, VIdem q i h). split; [exact Hin|].
    rewrite N.eqb_refl. left. reflexivity.
Qed.

Lemma in_cidx_seqs (s : kvs) c n q :
  swf s -> (In q (cidx_seqs s c n) <-> exists v, kget (KyCidx c n q) s = Some v).
Proof.
  intro W. unfold cidx_seqs. rewrite in_flat_map. split.
  - intros [[k v] [Hin Hr]]. destruct k; try contradiction.
    destruct ((c0 =? c) && bytes_eqb cno n) eqn:E; [|contradiction]. beq. subst.
    destruct Hr as [Hr|[]]. subst. exists v. apply (kin_iff_get _ _ _ W). exact Hin.
  - intros [v H]. apply (kin_iff_get _ _ _ W) in H. exists (KyCidx c n q, v). split; [exact H|].
    rewrite N.eqb_refl, bytes_eqb_refl. left. reflexivity.
Qed.

Lemma in_sseq_seqs (s : kvs) c u q :
  swf s -> (In q (sseq_seqs s c u) <-> exists v, kget (KySseq c u q) s = Some v).
Proof.
  intro W. unfold sseq_seqs. rewrite in_flat_map. split.
  - intros [[k v] [Hin Hr]]. destruct k; try contradiction.
    destruct ((c0 =? c) && bytes_eqb uid u) eqn:E; [|contradiction]. beq. subst.
    destruct Hr as [Hr|[]]. subst. exists v. apply (kin_iff_get _ _ _ W). exact Hin.
  - intros [v H]. apply (kin_iff_get _ _ _ W) in H. exists (KySseq c u q, v). split; [exact H|].
    rewrite N.eqb_refl, bytes_eqb_refl. left. reflexivity.
Qed.

Lemma in_hist_points (s : kvs) c o e :
  swf s -> (In (o, e) (hist_points s c) <-> exists v, kget (KyHist c o e) s = Some v).
Proof.
  intro W. unfold hist_points. rewrite in_flat_map. split.
  - intros [[k v] [Hin Hr]]. destruct k; try contradiction.
    destruct (c0 =? c) eqn:E; [|contradiction]. beq. subst.
    destruct Hr as [Hr|[]]. injection Hr as -> ->. exists v. apply (kin_iff_get _ _ _ W). exact Hin.
  - intros [v H]. apply (kin_iff_get _ _ _ W) in H. exists (KyHist c o e, v). split; [exact H|].
    rewrite N.eqb_refl. left. reflexivity.
Qed.

(* ---- max of a list of rows ------------------------------------------------------------------ *)

Lemma fold_max_ge (l : list row) : forall m, m <= fold_left (fun m r => N.max m (r_seq r)) l m.
Proof.
  induction l as [|r l IH]; intro m; cbn [fold_left]; [lia|].
  specialize (IH (N.max m (r_seq r))). lia.
Qed.

Lemma fold_max_in (l : list row) : forall m r, In r l -> r_seq r <= fold_left (fun m r => N.max m (r_seq r)) l m.
Proof.
  induction l as [|x l IH]; intros m r []; cbn [fold_left].
  - subst. pose proof (fold_max_ge l (N.max m (r_seq r))). lia.
  - apply IH. assumption.
Qed.

Lemma fold_max_cases (l : list row) : forall m,
  fold_left (fun m r => N.max m (r_seq r)) l m = m
  \/ exists r, In r l /\ fold_left (fun m r => N.max m (r_seq r)) l m = r_seq r.
Proof.
  induction l as [|x l IH]; intro m; cbn [fold_left]; [left; reflexivity|].
  destruct (IH (N.max m (r_seq x))) as [E|[r [Hr E]]].
  - rewrite E. destruct (N.max_spec m (r_seq x)) as [[_ E2]|[_ E2]]; rewrite E2.
    + right. exists x. split; [left; reflexivity|reflexivity].
    + left. reflexivity.
  - right. exists r. split; [right; exact Hr|exact E].
Qed.

Lemma max_seq_in l r : In r l -> r_seq r <= max_seq l.
Proof. apply fold_max_in. Qed.

Lemma max_seq_cases l : (max_seq l = 0) \/ exists r, In r l /\ max_seq l = r_seq r.
Proof. apply fold_max_cases. Qed.

(* the greatest sequence of a list is determined by its elements *)
Lemma max_seq_ext l1 l2 : (forall r, In r l1 <-> In r l2) -> max_seq l1 = max_seq l2.
Proof.
  intro H. apply N.le_antisymm.
  - destruct (max_seq_cases l1) as [E|[r [Hr E]]]; [lia|]. rewrite E. apply max_seq_in. apply H. exact Hr.
  - destruct (max_seq_cases l2) as [E|[r [Hr E]]]; [lia|]. rewrite E. apply max_seq_in. apply H. exact Hr.
Qed.

Lemma fold_Nmax_ge (l : list N) : forall m, m <= fold_left N.max l m.
Proof.
  induction l as [|x l IH]; intro m; cbn [fold_left]; [lia|]. specialize (IH (N.max m x)). lia.
Qed.

Lemma fold_Nmax_in (l : list N) : forall m x, In x l -> x <= fold_left N.max l m.
Proof.
  induction l as [|y l IH]; intros m x []; cbn [fold_left].
  - subst. pose proof (fold_Nmax_ge l (N.max m x)). lia.
  - apply IH. assumption.
Qed.

Lemma fold_Nmax_cases (l : list N) : forall m,
  fold_left N.max l m = m \/ In (fold_left N.max l m) l.
Proof.
  induction l as [|x l IH]; intro m; cbn [fold_left]; [left; reflexivity|].
  destruct (IH (N.max m x)) as [E|Hin].
  - rewrite E. destruct (N.max_spec m x) as [[_ E2]|[_ E2]]; rewrite E2; [right; left; reflexivity|left; reflexivity].
  - right. right. exact Hin.
Qed.
