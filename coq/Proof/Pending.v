(* Proof/Pending.v — correlation invariants of the pending-request table over
   ALL interleavings of its atomic steps (Model/Pending.v [tstep]/[trun]):
   a channel only ever receives a message completed for the request id it was
   registered under; it receives at most one message; no trySend finds a full
   buffer; after FailAll nothing is registered any more. *)
From WK Require Import Base.Base Base.Bytes Gen.Consts_C26 Model.Pending.
Open Scope N_scope.

(* ---- counting ------------------------------------------------------------------- *)

Definition cn {A} (c : N) (l : list (N * A)) : nat := length (filter (fun x => fst x =? c) l).
Definition ce (c : N) (es : list (N * N)) : nat := length (filter (fun e => snd e =? c) es).

Lemma count_chan_cn {A} c (l : list (N * A)) : count_chan c l = N.of_nat (cn c l).
Proof. reflexivity. Qed.

Lemma cn_app {A} c (a b : list (N * A)) : cn c (a ++ b) = (cn c a + cn c b)%nat.
Proof. unfold cn. rewrite filter_app, app_length. reflexivity. Qed.

Lemma cn_cons {A} c (x : N * A) l : cn c (x :: l) = ((if (fst x =? c)%N then 1 else 0) + cn c l)%nat.
Proof. unfold cn. cbn [filter]. destruct (fst x =? c); reflexivity. Qed.

Lemma ce_cons c (x : N * N) l : ce c (x :: l) = ((if (snd x =? c)%N then 1 else 0) + ce c l)%nat.
Proof. unfold ce. cbn [filter]. destruct (snd x =? c); reflexivity. Qed.

Lemma cn_remove_nth {A} c : forall k (l : list (N * A)) x, nth_error l k = Some x ->
  (cn c (remove_nth k l) + (if (fst x =? c)%N then 1 else 0))%nat = cn c l.
Proof.
  induction k as [|k IH]; intros [|y l] x E; try discriminate.
  - cbn in E. inversion E; subst. cbn [remove_nth]. rewrite cn_cons. lia.
  - cbn in E. cbn [remove_nth]. rewrite !cn_cons. specialize (IH l x E). lia.
Qed.

Lemma in_remove_nth {A} : forall k (l : list A) y, In y (remove_nth k l) -> In y l.
Proof.
  induction k as [|k IH]; intros [|x l] y H; cbn [remove_nth] in H; try contradiction.
  - right. exact H.
  - destruct H as [->|H]; [left; reflexivity|right; exact (IH _ _ H)].
Qed.

Lemma take_first_some c' : forall l m r, take_first c' l = (Some m, r) ->
  In (c', m) l /\ (forall y, In y r -> In y l)
  /\ forall c, (cn c r + (if (c' =? c)%N then 1 else 0))%nat = cn c l.
Proof.
  induction l as [|x l IH]; intros m r E; [discriminate|].
  cbn [take_first] in E. destruct (fst x =? c') eqn:F.
  - inversion E; subst. apply N.eqb_eq in F. destruct x as [xc xm]. cbn in F. subst xc.
    split; [left; reflexivity|]. split; [intros y Hy; right; exact Hy|].
    intro c. rewrite cn_cons. cbn [fst]. lia.
  - destruct (take_first c' l) as [m' r'] eqn:T. inversion E; subst.
    destruct (IH m r' eq_refl) as (I1 & I2 & I3).
    split; [right; exact I1|]. split.
    + intros y [->|Hy]; [left; reflexivity|right; exact (I2 y Hy)].
    + intro c. rewrite !cn_cons. specialize (I3 c). lia.
Qed.

Lemma take_first_none c' : forall l r, take_first c' l = (None, r) -> r = l.
Proof.
  induction l as [|x l IH]; intros r E; [inversion E; reflexivity|].
  cbn [take_first] in E. destruct (fst x =? c'); [discriminate|].
  destruct (take_first c' l) as [m' r'] eqn:T. inversion E; subst. f_equal. apply IH. reflexivity.
Qed.

Lemma in_remove_id id es x : In x (remove_id id es) -> In x es /\ fst x <> id.
Proof.
  unfold remove_id. intro H. apply filter_In in H. destruct H as [H1 H2].
  split; [exact H1|]. apply negb_true_iff, N.eqb_neq in H2. exact H2.
Qed.

Lemma ce_remove_id_le c id es : (ce c (remove_id id es) <= ce c es)%nat.
Proof.
  induction es as [|x es IH]; [apply Nat.le_refl|].
  unfold remove_id in *. cbn [filter]. destruct (negb (fst x =? id)); rewrite ?ce_cons; lia.
Qed.

Lemma lookup_none_remove id es : lookup id es = None -> remove_id id es = es.
Proof.
  unfold lookup, remove_id. induction es as [|x es IH]; [reflexivity|].
  cbn [find filter]. destruct (fst x =? id); [discriminate|]. cbn [negb]. intro H. f_equal. exact (IH H).
Qed.

Lemma lookup_some_in id es c : lookup id es = Some c -> In (id, c) es.
Proof.
  unfold lookup. destruct (find (fun e => fst e =? id) es) as [[i c']|] eqn:F; [|discriminate].
  intro E. inversion E; subst. apply find_some in F. destruct F as [F1 F2].
  apply N.eqb_eq in F2. cbn in F2. subst. exact F1.
Qed.

Lemma not_in_remove_id id es : ~ In id (map fst es) -> remove_id id es = es.
Proof.
  intro H. unfold remove_id. induction es as [|x es IH]; [reflexivity|].
  cbn [filter]. destruct (fst x =? id) eqn:E.
  - exfalso. apply H. left. apply N.eqb_eq. exact E.
  - cbn [negb]. f_equal. apply IH. intro I. apply H. right. exact I.
Qed.

(* with unique ids, removing id takes out exactly the one entry it names *)
Lemma ce_remove_id_found c id es c' : NoDup (map fst es) -> lookup id es = Some c' ->
  (ce c (remove_id id es) + (if (c' =? c)%N then 1 else 0))%nat = ce c es.
Proof.
  induction es as [|x es IH]; intros ND L; [discriminate|].
  cbn [map] in ND. inversion ND as [|? ? NI ND']; subst.
  unfold lookup in L. cbn [find] in L. unfold remove_id. cbn [filter].
  destruct (fst x =? id) eqn:E.
  - inversion L; subst. cbn [negb]. apply N.eqb_eq in E.
    fold (remove_id id es). rewrite not_in_remove_id by (rewrite <- E; exact NI).
    rewrite ce_cons. lia.
  - cbn [negb]. rewrite !ce_cons. fold (remove_id id es).
    assert (L' : lookup id es = Some c') by exact L. specialize (IH ND' L'). lia.
Qed.

Lemma nodup_remove_id id es : NoDup (map fst es) -> NoDup (map fst (remove_id id es)).
Proof.
  induction es as [|x es IH]; intro ND; [constructor|].
  cbn [map] in ND. inversion ND as [|? ? NI ND']; subst.
  unfold remove_id. cbn [filter]. destruct (negb (fst x =? id)).
  - cbn [map]. constructor; [|exact (IH ND')].
    intro I. apply NI. apply in_map_iff in I. destruct I as (y & Ey & Iy).
    apply in_remove_id in Iy. destruct Iy as [Iy _]. apply in_map_iff. exists y. split; assumption.
  - exact (IH ND').
Qed.

(* ---- the invariant ----------------------------------------------------------------- *)

Definition tok (c : N) (g : gstate) : nat :=
  (ce c (ps_entries (g_st g)) + cn c (ps_inflight (g_st g)) + cn c (ps_bufs (g_st g)) + cn c (g_recvd g))%nat.

Definition msgs (g : gstate) : list (N * msg) :=
  ps_inflight (g_st g) ++ ps_bufs (g_st g) ++ g_recvd g.

Record Inv (cap : N -> N) (g : gstate) : Prop := MkInv {
  inv_entries : forall id c, In (id, c) (ps_entries (g_st g)) -> In (c, id) (g_owner g);
  inv_ids : NoDup (map fst (ps_entries (g_st g)));
  inv_msgs : forall c m id, In (c, m) (msgs g) -> m_tag m = Some id -> In (c, id) (g_owner g);
  inv_owner_chan : NoDup (map fst (g_owner g));
  inv_owner_id : NoDup (map snd (g_owner g));
  inv_tok : forall c, (tok c g <= 1)%nat;
  inv_used : forall c, (1 <= tok c g)%nat -> chan_used c g = true;
  inv_cap : forall c, chan_used c g = true -> 1 <= cap c;
  inv_drops : g_drops g = 0 }.

Lemma inv_init cap : Inv cap ginit.
Proof.
  constructor; cbn; try (intros; contradiction); try constructor; try reflexivity.
  - intros c H. unfold tok in H. cbn in H. lia.
  - intros c H. discriminate.
Qed.

Lemma existsb_fst_in (c : N) (l : list (N * N)) : existsb (fun x => fst x =? c) l = false -> ~ In c (map fst l).
Proof.
  intros E I. apply in_map_iff in I. destruct I as (x & Ex & Ix).
  assert (existsb (fun y => fst y =? c) l = true).
  { apply existsb_exists. exists x. split; [exact Ix|]. apply N.eqb_eq. exact Ex. }
  congruence.
Qed.

Lemma existsb_snd_in (id : N) (l : list (N * N)) : existsb (fun x => snd x =? id) l = false -> ~ In id (map snd l).
Proof.
  intros E I. apply in_map_iff in I. destruct I as (x & Ex & Ix).
  assert (existsb (fun y => snd y =? id) l = true).
  { apply existsb_exists. exists x. split; [exact Ix|]. apply N.eqb_eq. exact Ex. }
  congruence.
Qed.

Lemma chan_used_mono_owner c g c0 id0 s' cc r d :
  chan_used c g = true -> chan_used c (GState s' ((c0, id0) :: g_owner g) cc r d) = true
  \/ existsb (N.eqb c) (g_cchans g) = true.
Proof.
  unfold chan_used. cbn [g_owner g_cchans existsb fst]. intro H.
  apply orb_true_iff in H. destruct H as [H|H]; [left|right; exact H].
  rewrite H. rewrite orb_true_r. reflexivity.
Qed.

(* the remove-like steps (Complete's critical section, FailAll taking an entry) *)
Lemma inv_remove cap g id m :
  Inv cap g -> (forall i, m_tag m = Some i -> i = id) ->
  Inv cap (GState (fst (remove id m (g_st g))) (g_owner g) (g_cchans g) (g_recvd g) (g_drops g)).
Proof.
  intros I TG. destruct I as [IA IB IC ID ID2 IE IF IG IH].
  unfold remove. destruct (lookup id (ps_entries (g_st g))) as [c0|] eqn:L.
  - cbn [fst].
    pose proof (lookup_some_in _ _ _ L) as IN0.
    constructor; cbn [g_st g_owner g_cchans g_recvd g_drops ps_entries ps_inflight ps_bufs].
    + intros i c H. apply in_remove_id in H. destruct H as [H _]. exact (IA i c H).
    + apply nodup_remove_id. exact IB.
    + intros c mm i H T. unfold msgs in H. cbn [g_st g_recvd ps_inflight ps_bufs] in H.
      rewrite <- app_assoc in H. apply in_app_or in H. destruct H as [H|H].
      * apply (IC c mm i); [|exact T]. unfold msgs. apply in_or_app. left. exact H.
      * apply in_app_or in H. destruct H as [H|H].
        -- destruct H as [H|[]]. inversion H; subst. rewrite (TG i T). exact (IA _ _ IN0).
        -- apply (IC c mm i); [|exact T]. unfold msgs. apply in_or_app. right. exact H.
    + exact ID.
    + exact ID2.
    + intro c. specialize (IE c). unfold tok in *.
      cbn [g_st g_recvd ps_entries ps_inflight ps_bufs].
      pose proof (ce_remove_id_found c id _ c0 IB L) as CE.
      rewrite cn_app. unfold cn at 2. cbn [filter fst]. destruct (c0 =? c); cbn [length] in *; lia.
    + intros c H. apply IF. unfold tok in *.
      cbn [g_st g_recvd ps_entries ps_inflight ps_bufs] in H.
      pose proof (ce_remove_id_found c id _ c0 IB L) as CE.
      rewrite cn_app in H. unfold cn at 2 in H. cbn [filter fst] in H. destruct (c0 =? c); cbn [length] in *; lia.
    + exact IG.
    + exact IH.
  - cbn [fst]. destruct g as [s ow cc rc dr]. cbn in *. constructor; assumption.
Qed.

Lemma texec_inv cap g t g' : Inv cap g -> texec cap g t = Some g' -> Inv cap g'.
Proof.
  intros I E. destruct t as [id c|c|id|id p e|e|id e|k|c]; cbn [texec] in E.
  - (* TInsert *)
    destruct (ps_closed (g_st g) || id_used id g || chan_used c g || (cap c =? 0)) eqn:G; [discriminate|].
    inversion E; subst g'. clear E.
    rewrite !orb_false_iff in G. destruct G as [[[G1 G2] G3] G4].
    destruct I as [IA IB IC ID ID2 IE IF IG IH].
    assert (NID : ~ In id (map fst (ps_entries (g_st g)))).
    { intro IN. apply in_map_iff in IN. destruct IN as ([i c'] & Ei & Ii). cbn in Ei. subst i.
      apply IA in Ii. unfold id_used in G2.
      assert (existsb (fun x => snd x =? id) (g_owner g) = true).
      { apply existsb_exists. exists (c', id). split; [exact Ii|]. apply N.eqb_refl. }
      congruence. }
    assert (T0 : tok c g = 0%nat).
    { destruct (tok c g) eqn:T; [reflexivity|]. assert (chan_used c g = true) by (apply IF; lia). congruence. }
    unfold chan_used in G3. apply orb_false_iff in G3. destruct G3 as [G3a G3b].
    constructor; cbn [g_st g_owner g_cchans g_recvd g_drops insert ps_entries ps_inflight ps_bufs].
    + intros i c' [H|H].
      * inversion H; subst. left. reflexivity.
      * apply in_remove_id in H. destruct H as [H _]. right. exact (IA i c' H).
    + cbn [map fst]. rewrite (not_in_remove_id id _ NID). constructor; assumption.
    + intros c' m i H T. right. apply (IC c' m i); [|exact T]. exact H.
    + cbn [map fst]. constructor; [apply existsb_fst_in; exact G3a|exact ID].
    + cbn [map snd]. constructor; [apply existsb_snd_in; exact G2|exact ID2].
    + intro c'. specialize (IE c'). unfold tok in *. cbn [g_st g_recvd insert ps_entries ps_inflight ps_bufs].
      rewrite (not_in_remove_id id _ NID), ce_cons. cbn [snd].
      destruct (c =? c') eqn:Ec; [|lia]. apply N.eqb_eq in Ec. subst c'. unfold tok in T0. lia.
    + intros c' H. unfold chan_used. cbn [g_owner g_cchans existsb fst].
      destruct (c =? c') eqn:Ec; [reflexivity|]. cbn [orb].
      apply IF. unfold tok in *. cbn [g_st g_recvd insert ps_entries ps_inflight ps_bufs] in H.
      rewrite (not_in_remove_id id _ NID), ce_cons in H. cbn [snd] in H. rewrite Ec in H. lia.
    + intros c' H. unfold chan_used in H. cbn [g_owner g_cchans existsb fst] in H.
      destruct (c =? c') eqn:Ec.
      * apply N.eqb_eq in Ec. subst c'. apply N.eqb_neq in G4. lia.
      * cbn [orb] in H. apply IG. exact H.
    + exact IH.
  - (* TStoreClosed *)
    destruct (negb (ps_closed (g_st g)) || chan_used c g || (cap c =? 0)) eqn:G; [discriminate|].
    inversion E; subst g'. clear E.
    rewrite !orb_false_iff in G. destruct G as [[G1 G3] G4].
    destruct I as [IA IB IC ID ID2 IE IF IG IH].
    assert (T0 : tok c g = 0%nat).
    { destruct (tok c g) eqn:T; [reflexivity|]. assert (chan_used c g = true) by (apply IF; lia). congruence. }
    constructor; cbn [g_st g_owner g_cchans g_recvd g_drops store_closed ps_entries ps_inflight ps_bufs];
      try assumption.
    + intros c' m i H T. unfold msgs in H. cbn [g_st g_recvd store_closed ps_inflight ps_bufs] in H.
      rewrite <- app_assoc in H. apply in_app_or in H. destruct H as [H|H].
      * apply (IC c' m i); [|exact T]. unfold msgs. apply in_or_app. left. exact H.
      * apply in_app_or in H. destruct H as [H|H].
        -- destruct H as [H|[]]. inversion H; subst. discriminate.
        -- apply (IC c' m i); [|exact T]. unfold msgs. apply in_or_app. right. exact H.
    + intro c'. specialize (IE c'). unfold tok in *. cbn [g_st g_recvd store_closed ps_entries ps_inflight ps_bufs].
      rewrite cn_app. unfold cn at 2. cbn [filter fst].
      destruct (c =? c') eqn:Ec; cbn [length]; [|lia]. apply N.eqb_eq in Ec. subst c'. unfold tok in T0. lia.
    + intros c' H. unfold chan_used. cbn [g_owner g_cchans existsb].
      destruct (c' =? c) eqn:Ec; [rewrite orb_true_r; reflexivity|]. cbn [orb].
      unfold chan_used in IF. apply IF. unfold tok in *.
      cbn [g_st g_recvd store_closed ps_entries ps_inflight ps_bufs] in H.
      rewrite cn_app in H. unfold cn at 2 in H. cbn [filter fst] in H.
      rewrite N.eqb_sym, Ec in H. cbn [length] in H. lia.
    + intros c' H. unfold chan_used in H. cbn [g_owner g_cchans existsb] in H.
      destruct (c' =? c) eqn:Ec.
      * apply N.eqb_eq in Ec. subst c'. apply N.eqb_neq in G4. lia.
      * cbn [orb] in H. apply IG. exact H.
  - (* TDelete *)
    inversion E; subst g'. clear E. destruct I as [IA IB IC ID ID2 IE IF IG IH].
    constructor; cbn [g_st g_owner g_cchans g_recvd g_drops delete ps_entries ps_inflight ps_bufs]; try assumption.
    + intros i c H. apply in_remove_id in H. destruct H as [H _]. exact (IA i c H).
    + apply nodup_remove_id. exact IB.
    + intro c. specialize (IE c). unfold tok in *. cbn [g_st g_recvd delete ps_entries ps_inflight ps_bufs].
      pose proof (ce_remove_id_le c id (ps_entries (g_st g))). lia.
    + intros c H. apply IF. unfold tok in *. cbn [g_st g_recvd delete ps_entries ps_inflight ps_bufs] in H.
      pose proof (ce_remove_id_le c id (ps_entries (g_st g))). lia.
  - (* TRemove *)
    inversion E; subst g'. apply inv_remove; [exact I|]. cbn. intros i Hi. inversion Hi. reflexivity.
  - (* TClose *)
    inversion E; subst g'. clear E. destruct I as [IA IB IC ID ID2 IE IF IG IH]. unfold close.
    destruct (ps_closed (g_st g)); [destruct g; constructor; assumption|].
    constructor; cbn [g_st g_owner g_cchans g_recvd g_drops ps_entries ps_inflight ps_bufs]; assumption.
  - (* TFailOne *)
    destruct (negb (ps_closed (g_st g))); [discriminate|]. inversion E; subst g'.
    unfold fail_one. apply inv_remove; [exact I|]. cbn. intros i Hi. discriminate.
  - (* TSend *)
    destruct (send cap k (g_st g)) as [s' dropped] eqn:S. inversion E; subst g'. clear E.
    unfold send in S. destruct (nth_error (ps_inflight (g_st g)) k) as [[c m]|] eqn:NE.
    + destruct I as [IA IB IC ID ID2 IE IF IG IH].
      pose proof (cn_remove_nth c k _ _ NE) as RN. cbn [fst] in RN. rewrite N.eqb_refl in RN.
      assert (ROOM : count_chan c (ps_bufs (g_st g)) <? cap c = true).
      { apply N.ltb_lt. rewrite count_chan_cn.
        pose proof (IE c) as T. unfold tok in T.
        assert (U : chan_used c g = true) by (apply IF; unfold tok; lia).
        pose proof (IG c U). lia. }
      rewrite ROOM in S. inversion S; subst s' dropped. clear S.
      constructor; cbn [g_st g_owner g_cchans g_recvd g_drops ps_entries ps_inflight ps_bufs]; try assumption.
      * intros c' mm i H T. apply (IC c' mm i); [|exact T].
        unfold msgs in *. cbn [g_st g_recvd ps_inflight ps_bufs] in H.
        apply in_app_or in H. destruct H as [H|H].
        -- apply in_or_app. left. exact (in_remove_nth _ _ _ H).
        -- rewrite <- app_assoc in H. apply in_app_or in H. destruct H as [H|H].
           ++ apply in_or_app. right. apply in_or_app. left. exact H.
           ++ destruct H as [H|H].
              ** inversion H; subst. apply in_or_app. left. exact (nth_error_In _ _ NE).
              ** apply in_or_app. right. apply in_or_app. right. exact H.
      * intro c'. specialize (IE c'). unfold tok in *. cbn [g_st g_recvd ps_entries ps_inflight ps_bufs].
        pose proof (cn_remove_nth c' k _ _ NE) as R. cbn [fst] in R.
        rewrite cn_app. unfold cn at 3. cbn [filter fst]. destruct (c =? c'); cbn [length] in *; lia.
      * intros c' H. apply IF. unfold tok in *. cbn [g_st g_recvd ps_entries ps_inflight ps_bufs] in H.
        pose proof (cn_remove_nth c' k _ _ NE) as R. cbn [fst] in R.
        rewrite cn_app in H. unfold cn at 3 in H. cbn [filter fst] in H. destruct (c =? c'); cbn [length] in *; lia.
    + inversion S; subst s' dropped. destruct g; exact I.
  - (* TRecv *)
    destruct (recv c (g_st g)) as [s' m] eqn:R. inversion E; subst g'. clear E.
    unfold recv in R. destruct (take_first c (ps_bufs (g_st g))) as [m' b] eqn:T. inversion R; subst s' m. clear R.
    destruct I as [IA IB IC ID ID2 IE IF IG IH].
    destruct m' as [x|].
    + destruct (take_first_some _ _ _ _ T) as (T1 & T2 & T3).
      constructor; cbn [g_st g_owner g_cchans g_recvd g_drops ps_entries ps_inflight ps_bufs]; try assumption.
      * intros c' mm i H TG. apply (IC c' mm i); [|exact TG].
        unfold msgs in *. cbn [g_st g_recvd ps_inflight ps_bufs] in H.
        apply in_app_or in H. destruct H as [H|H]; [apply in_or_app; left; exact H|].
        apply in_app_or in H. destruct H as [H|H].
        -- apply in_or_app. right. apply in_or_app. left. exact (T2 _ H).
        -- destruct H as [H|H].
           ++ inversion H; subst. apply in_or_app. right. apply in_or_app. left. exact T1.
           ++ apply in_or_app. right. apply in_or_app. right. exact H.
      * intro c'. specialize (IE c'). specialize (T3 c'). unfold tok in *.
        cbn [g_st g_recvd ps_entries ps_inflight ps_bufs]. rewrite cn_cons. cbn [fst]. lia.
      * intros c' H. apply IF. specialize (T3 c'). unfold tok in *.
        cbn [g_st g_recvd ps_entries ps_inflight ps_bufs] in H. rewrite cn_cons in H. cbn [fst] in H. lia.
    + apply take_first_none in T. subst b. destruct g as [[? ? ? ? ?] ? ? ? ?]. cbn in *.
      constructor; assumption.
Qed.

Lemma trun_inv cap : forall tr g g', Inv cap g -> trun cap g tr = Some g' -> Inv cap g'.
Proof.
  induction tr as [|t tr IH]; intros g g' I E; cbn [trun] in E.
  - inversion E; subst. exact I.
  - destruct (texec cap g t) as [g1|] eqn:X; [|discriminate].
    exact (IH g1 g' (texec_inv cap g t g1 I X) E).
Qed.

(* ---- the theorems ------------------------------------------------------------------- *)

(* never another call's response: whatever channel c receives was completed for
   the one request id that c was registered under *)
Lemma own_response cap tr g c m id :
  trun cap ginit tr = Some g -> In (c, m) (g_recvd g) -> m_tag m = Some id ->
  In (c, id) (g_owner g) /\ forall id', In (c, id') (g_owner g) -> id' = id.
Proof.
  intros R IN T. pose proof (trun_inv cap tr ginit g (inv_init cap) R) as I.
  assert (O : In (c, id) (g_owner g)).
  { apply (inv_msgs cap g I c m id); [|exact T]. unfold msgs. apply in_or_app. right. apply in_or_app. right. exact IN. }
  split; [exact O|]. intros id' O'.
  pose proof (inv_owner_chan cap g I) as ND. clear -ND O O'.
  induction (g_owner g) as [|x l IHl]; [contradiction|].
  cbn [map] in ND. inversion ND as [|? ? NI ND']; subst.
  destruct O as [O|O], O' as [O'|O'].
  - congruence.
  - subst x. exfalso. apply NI. apply in_map_iff. exists (c, id'). split; [reflexivity|exact O'].
  - subst x. exfalso. apply NI. apply in_map_iff. exists (c, id). split; [reflexivity|exact O].
  - exact (IHl O O' ND').
Qed.

(* and conversely a response completed for id can only show up on id's channel *)
Lemma response_goes_to_owner cap tr g c c' m id :
  trun cap ginit tr = Some g -> In (c, m) (msgs g) -> m_tag m = Some id -> In (c', id) (g_owner g) -> c = c'.
Proof.
  intros R IN T O'. pose proof (trun_inv cap tr ginit g (inv_init cap) R) as I.
  pose proof (inv_msgs cap g I c m id IN T) as O.
  pose proof (inv_owner_id cap g I) as ND. clear -ND O O'.
  induction (g_owner g) as [|x l IHl]; [contradiction|].
  cbn [map] in ND. inversion ND as [|? ? NI ND']; subst.
  destruct O as [O|O], O' as [O'|O'].
  - congruence.
  - subst x. exfalso. apply NI. apply in_map_iff. exists (c', id). split; [reflexivity|exact O'].
  - subst x. exfalso. apply NI. apply in_map_iff. exists (c, id). split; [reflexivity|exact O].
  - exact (IHl O' O ND').
Qed.

(* a caller receives at most one value *)
Lemma at_most_one cap tr g c :
  trun cap ginit tr = Some g -> count_chan c (g_recvd g) <= 1.
Proof.
  intro R. pose proof (trun_inv cap tr ginit g (inv_init cap) R) as I.
  pose proof (inv_tok cap g I c) as T. unfold tok in T. rewrite count_chan_cn. lia.
Qed.

(* no trySend ever finds the buffer full: the capacity-1 channel of Conn.Call suffices *)
Lemma no_drop cap tr g : trun cap ginit tr = Some g -> g_drops g = 0.
Proof. intro R. exact (inv_drops cap g (trun_inv cap tr ginit g (inv_init cap) R)). Qed.

(* ---- after FailAll ---------------------------------------------------------------------- *)

Lemma send_entries cap k s : ps_entries (fst (send cap k s)) = ps_entries s
  /\ ps_closed (fst (send cap k s)) = ps_closed s /\ ps_close_err (fst (send cap k s)) = ps_close_err s.
Proof.
  unfold send. destruct (nth_error (ps_inflight s) k) as [[c m]|]; [|repeat split].
  destruct (count_chan c (ps_bufs s) <? cap c); repeat split.
Qed.

Lemma send_all_entries cap : forall f s, ps_entries (send_all cap f s) = ps_entries s
  /\ ps_closed (send_all cap f s) = ps_closed s /\ ps_close_err (send_all cap f s) = ps_close_err s.
Proof.
  induction f as [|f IH]; intro s; cbn [send_all]; [repeat split|].
  destruct (ps_inflight s); [repeat split|].
  destruct (IH (fst (send cap 0 s))) as (A & B & C). destruct (send_entries cap 0 s) as (A' & B' & C').
  repeat split; congruence.
Qed.

Lemma flush_entries cap s : ps_entries (flush cap s) = ps_entries s /\ ps_closed (flush cap s) = ps_closed s.
Proof. unfold flush. destruct (send_all_entries cap (length (ps_inflight s)) s) as (A & B & _). split; assumption. Qed.

Lemma fail_one_entries id e s : ps_entries (fail_one id e s) = remove_id id (ps_entries s)
  /\ ps_closed (fail_one id e s) = ps_closed s.
Proof.
  unfold fail_one, remove. destruct (lookup id (ps_entries s)) eqn:L; cbn [fst ps_entries ps_closed].
  - split; reflexivity.
  - split; [symmetry; apply lookup_none_remove; exact L|reflexivity].
Qed.

Lemma fold_fail_entries e : forall l s x,
  In x (ps_entries (fold_left (fun st id => fail_one id e st) l s)) -> In x (ps_entries s) /\ ~ In (fst x) l.
Proof.
  induction l as [|id l IH]; intros s x H; cbn [fold_left] in H.
  - split; [exact H|intros []].
  - apply IH in H. destruct H as [H1 H2]. destruct (fail_one_entries id e s) as [FE _]. rewrite FE in H1.
    apply in_remove_id in H1. destruct H1 as [H1 H3]. split; [exact H1|].
    intros [E|I]; [symmetry in E; contradiction|contradiction].
Qed.

Lemma fold_fail_closed e : forall l s, ps_closed (fold_left (fun st id => fail_one id e st) l s) = ps_closed s.
Proof.
  induction l as [|id l IH]; intro s; cbn [fold_left]; [reflexivity|].
  rewrite IH. apply fail_one_entries.
Qed.

(* FailAll leaves nothing registered and the table closed *)
Lemma fail_all_empties cap e s :
  ps_entries (fail_all cap e s) = [] /\ ps_closed (fail_all cap e s) = true.
Proof.
  unfold fail_all. cbv zeta.
  destruct (flush_entries cap (fold_left (fun st id => fail_one id e st) (map fst (ps_entries (close e s))) (close e s))) as [FE FC].
  rewrite FE, FC. split.
  - destruct (ps_entries (fold_left _ _ _)) as [|x l] eqn:Q; [reflexivity|].
    exfalso. assert (IN : In x (ps_entries (fold_left (fun st id => fail_one id e st) (map fst (ps_entries (close e s))) (close e s)))).
    { rewrite Q. left. reflexivity. }
    apply fold_fail_entries in IN. destruct IN as [I1 I2]. apply I2. apply in_map. exact I1.
  - rewrite fold_fail_closed. unfold close. destruct (ps_closed s) eqn:C; [exact C|reflexivity].
Qed.

(* once closed and empty, the table stays empty whatever is called on it *)
Lemma closed_stays_empty caps s o :
  ps_closed s = true -> ps_entries s = [] ->
  ps_closed (fst (pstep caps s o)) = true /\ ps_entries (fst (pstep caps s o)) = [].
Proof.
  intros C E. destruct o as [id c|id|id p e|e| |c]; cbn [pstep].
  - destruct (cap_of caps c =? 0); cbn [fst]; [split; assumption|].
    unfold store. rewrite C. destruct (flush_entries (cap_of caps) (store_closed c s)) as [FE FC].
    rewrite FE, FC. cbn [store_closed ps_entries ps_closed]. split; assumption.
  - cbn [fst delete ps_closed ps_entries]. rewrite E. split; [exact C|reflexivity].
  - unfold complete, remove. rewrite E. cbn [lookup find fst]. split; assumption.
  - cbn [fst]. destruct (fail_all_empties (cap_of caps) e s) as [A B]. split; assumption.
  - cbn [fst]. split; assumption.
  - unfold recv. destruct (take_first c (ps_bufs s)). cbn [fst ps_closed ps_entries]. split; assumption.
Qed.

(* ---- the methods are the step sequences one uninterrupted call performs -------------------- *)

Lemma complete_as_steps cap id p e g :
  ps_inflight (g_st g) = [] ->
  exists g', trun cap g [TRemove id p e; TSend 0] = Some g'
             /\ g_st g' = fst (complete cap id p e (g_st g)).
Proof.
  intro EI. cbn [trun texec]. unfold complete.
  destruct (remove id (Msg (Some id) p e) (g_st g)) as [s1 ok] eqn:R. cbn [fst g_st].
  destruct (send cap 0 s1) as [s2 d] eqn:S. eexists. split; [reflexivity|]. cbn [g_st fst].
  unfold remove in R. destruct (lookup id (ps_entries (g_st g))) as [c|].
  - inversion R; subst s1 ok. clear R. rewrite EI in *. cbn [app] in *.
    unfold flush. cbn [ps_inflight length send_all]. rewrite S. cbn [fst].
    unfold send in S. cbn [ps_inflight nth_error remove_nth] in S.
    destruct (count_chan c (ps_bufs (g_st g)) <? cap c); inversion S; subst; reflexivity.
  - inversion R; subst s1 ok. unfold send in S. rewrite EI in S. cbn [nth_error] in S. inversion S. reflexivity.
Qed.

Lemma store_as_steps cap id c g :
  ps_inflight (g_st g) = [] -> id_used id g = false -> chan_used c g = false -> 1 <= cap c ->
  exists g', trun cap g (if ps_closed (g_st g) then [TStoreClosed c; TSend 0] else [TInsert id c]) = Some g'
             /\ g_st g' = store cap id c (g_st g).
Proof.
  intros EI U1 U2 CP. unfold store.
  assert (C0 : cap c =? 0 = false) by (apply N.eqb_neq; lia).
  destruct (ps_closed (g_st g)) eqn:CL; cbn [trun texec]; rewrite CL, ?U1, U2, C0; cbn [negb orb].
  - assert (SC : store_closed c (g_st g) =
                 PState (ps_entries (g_st g)) (ps_closed (g_st g)) (ps_close_err (g_st g))
                        [(c, Msg None [] (ps_close_err (g_st g)))] (ps_bufs (g_st g))).
    { unfold store_closed. rewrite EI. reflexivity. }
    destruct (send cap 0 (store_closed c (g_st g))) as [s2 d] eqn:S. cbn [g_st]. rewrite S.
    eexists. split; [reflexivity|]. cbn [g_st].
    unfold flush. rewrite SC in *. cbn [ps_inflight length send_all]. rewrite S. reflexivity.
  - eexists. split; reflexivity.
Qed.
