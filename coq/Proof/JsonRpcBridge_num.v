(* Proof/JsonRpcBridge_num.v — strconv.ParseInt / ParseUint invert FormatInt / FormatUint
   (the message-id strings of the bridge), uint8 conversions, Setting bit packing. *)
From WK Require Import Base.Base Gen.Consts_C24 Model.JsonRpcBridge.
From Coq Require Import ZifyBool ZifyN ZifyNat.
Ltac Zify.zify_post_hook ::= Z.div_mod_to_equations.
Open Scope N_scope.

(* ---- decimal digits ------------------------------------------------------------------------ *)

Lemma dec_digits_app fuel : forall n acc, dec_digits fuel n acc = dec_digits fuel n [] ++ acc.
Proof.
  induction fuel as [|f IH]; intros n acc; [reflexivity|].
  cbn [dec_digits]. destruct (n / 10 =? 0); [reflexivity|].
  rewrite (IH (n / 10) ((48 + n mod 10) :: acc)), (IH (n / 10) [48 + n mod 10]).
  rewrite <- app_assoc. reflexivity.
Qed.

Definition is_digit (c : N) : bool := (48 <=? c) && (c <=? 57).

Lemma dec_digits_digits fuel : forall n acc, forallb is_digit acc = true -> forallb is_digit (dec_digits fuel n acc) = true.
Proof.
  induction fuel as [|f IH]; intros n acc H; [exact H|].
  cbn [dec_digits].
  assert (H' : forallb is_digit ((48 + n mod 10) :: acc) = true).
  { cbn [forallb]. rewrite H. unfold is_digit. pose proof (N.mod_lt n 10). lia. }
  destruct (n / 10 =? 0); [exact H'|apply IH; exact H'].
Qed.

Lemma dec_digits_cons f n : exists c r, dec_digits (S f) n [] = c :: r /\ is_digit c = true.
Proof.
  pose proof (dec_digits_digits (S f) n [] eq_refl) as D.
  destruct (dec_digits (S f) n []) as [|c r] eqn:E.
  - exfalso. cbn [dec_digits] in E. destruct (n / 10 =? 0); [discriminate|].
    rewrite dec_digits_app in E. destruct (dec_digits f (n / 10) []); discriminate.
  - exists c, r. split; [reflexivity|]. cbn [forallb] in D. apply andb_true_iff in D. apply D.
Qed.

(* the parse loop runs over the digits of n: accumulator a becomes a * 10^k + n *)
Lemma parse_dec_digits fuel : forall n a rest, n < 2 ^ N.of_nat fuel ->
  a * 10 ^ N.of_nat (length (dec_digits fuel n [])) + n <= max_u64 ->
  parse_uint_loop (dec_digits fuel n [] ++ rest) a =
  parse_uint_loop rest (a * 10 ^ N.of_nat (length (dec_digits fuel n [])) + n).
Proof.
  induction fuel as [|f IH]; intros n a rest Hn Hmax.
  - cbn in Hn. assert (n = 0) by lia. subst n. cbn [dec_digits app length]. cbn in Hmax.
    f_equal. cbn. lia.
  - cbn [dec_digits] in *.
    assert (Hd : n mod 10 < 10) by (apply N.mod_lt; discriminate).
    destruct (n / 10 =? 0) eqn:Q.
    + cbn [length app] in *. change (10 ^ N.of_nat 1) with 10 in *.
      assert (n = n mod 10) by lia.
      cbn [parse_uint_loop].
      replace ((48 <=? 48 + n mod 10) && (48 + n mod 10 <=? 57)) with true by lia.
      unfold cutoff_u64, max_u64 in *.
      destruct (1844674407370955162 <=? a) eqn:C; [lia|].
      replace (48 + n mod 10 - 48) with (n mod 10) by lia.
      destruct (18446744073709551615 <? a * 10 + n mod 10) eqn:M; [lia|].
      f_equal. lia.
    + rewrite dec_digits_app in *. rewrite app_length in Hmax. cbn [length] in Hmax.
      rewrite app_length. cbn [length].
      set (k := length (dec_digits f (n / 10) [])) in *.
      replace (N.of_nat (k + 1)) with (N.succ (N.of_nat k)) in * by lia.
      rewrite N.pow_succ_r' in *.
      set (P := 10 ^ N.of_nat k) in *.
      assert (EP : a * (10 * P) = (a * P) * 10) by (rewrite (N.mul_comm 10 P), N.mul_assoc; reflexivity).
      rewrite EP in *. set (X := a * P) in *.
      rewrite <- app_assoc. cbn [app].
      assert (Hn' : n / 10 < 2 ^ N.of_nat f).
      { rewrite Nnat.Nat2N.inj_succ, N.pow_succ_r' in Hn. lia. }
      unfold max_u64 in *.
      rewrite (IH (n / 10) a ((48 + n mod 10) :: rest) Hn') by (fold k; fold P; fold X; unfold max_u64; lia).
      fold k. fold P. fold X.
      cbn [parse_uint_loop].
      replace ((48 <=? 48 + n mod 10) && (48 + n mod 10 <=? 57)) with true by lia.
      unfold cutoff_u64, max_u64.
      destruct (1844674407370955162 <=? X + n / 10) eqn:C; [lia|].
      replace (48 + n mod 10 - 48) with (n mod 10) by lia.
      destruct (18446744073709551615 <? (X + n / 10) * 10 + n mod 10) eqn:M; [lia|].
      f_equal. lia.
Qed.

Lemma log2_fuel n : n < 2 ^ N.of_nat (S (N.to_nat (N.log2 n))).
Proof.
  rewrite Nnat.Nat2N.inj_succ, Nnat.N2Nat.id.
  destruct (N.eq_dec n 0) as [->|Hz]; [reflexivity|].
  apply N.log2_spec. lia.
Qed.

Theorem parse_uint_format n : n <= max_u64 -> parse_uint (format_uint n) = PuVal n.
Proof.
  intro H. unfold format_uint.
  destruct (dec_digits_cons (N.to_nat (N.log2 n)) n) as (c & r & E & _).
  unfold parse_uint. rewrite E, <- E.
  rewrite <- (app_nil_r (dec_digits _ n [])).
  rewrite parse_dec_digits; [reflexivity|apply log2_fuel|exact H].
Qed.

Theorem parse_uint64_value_format n : n <= max_u64 -> parse_uint64_value (format_uint n) = n.
Proof. intro H. unfold parse_uint64_value. rewrite parse_uint_format by exact H. reflexivity. Qed.

(* ParseInt(FormatInt(z)) = z on the whole int64 range *)
Theorem parse_int_format z : (-9223372036854775808 <= z <= 9223372036854775807)%Z ->
  parse_int64_value (format_int z) = z.
Proof.
  intro H. unfold format_int. destruct z as [|p|p].
  - vm_compute. reflexivity.
  - cbn [Z.to_N].
    destruct (dec_digits_cons (N.to_nat (N.log2 (Npos p))) (Npos p)) as (c & r & E & D).
    unfold format_uint. unfold parse_int64_value. rewrite E.
    unfold is_digit in D.
    replace (c =? 45) with false by lia. replace ((c =? 43) || false) with false by lia.
    rewrite <- E. fold (format_uint (Npos p)).
    rewrite parse_uint_format by (unfold max_u64; lia).
    destruct (9223372036854775808 <=? N.pos p) eqn:Q; [lia|]. reflexivity.
  - unfold parse_int64_value. rewrite N.eqb_refl. cbn [orb]. replace (45 =? 43) with false by reflexivity.
    cbn [orb]. rewrite parse_uint_format by (unfold max_u64; lia).
    destruct (9223372036854775808 <? N.pos p) eqn:Q; [lia|]. reflexivity.
Qed.

(* ---- uint8 ------------------------------------------------------------------------------------ *)

Lemma to_u8_of_N v : v < 256 -> to_u8 (Z.of_N v) = v.
Proof. intro H. unfold to_u8. rewrite Z.mod_small by lia. lia. Qed.

(* ---- Setting bits ------------------------------------------------------------------------------ *)

Definition below (n : nat) : list N := map N.of_nat (seq 0 n).

Lemma forall_below (f : N -> bool) n : forallb f (below n) = true -> forall i, i < N.of_nat n -> f i = true.
Proof.
  intros H i Hi. rewrite forallb_forall in H. apply H. unfold below. apply in_map_iff.
  exists (N.to_nat i). split; [lia|]. apply in_seq. lia.
Qed.

(* SettingFlags express exactly the four masked bits, in both directions *)
Lemma setting_flags_roundtrip s : s < 256 ->
  N.land (setting_to_proto (flags_of_setting s)) setting_mask = N.land s setting_mask.
Proof.
  intro H.
  assert (E : forallb (fun s => N.land (setting_to_proto (flags_of_setting s)) setting_mask =? N.land s setting_mask) (below 256) = true)
    by (vm_compute; reflexivity).
  apply N.eqb_eq. exact (forall_below _ _ E s H).
Qed.

Lemma setting_opt_roundtrip s : s < 256 ->
  N.land (setting_of_flags (fromProtoSetting s)) setting_mask = N.land s setting_mask.
Proof.
  intro H.
  assert (E : forallb (fun s => N.land (setting_of_flags (fromProtoSetting s)) setting_mask =? N.land s setting_mask) (below 256) = true)
    by (vm_compute; reflexivity).
  apply N.eqb_eq. exact (forall_below _ _ E s H).
Qed.

(* and nothing else: a Setting written by the bridge has no bit outside the mask *)
Lemma setting_to_proto_masked sf : N.land (setting_to_proto sf) setting_mask = setting_to_proto sf.
Proof. destruct sf as [[] [] [] []]; vm_compute; reflexivity. Qed.
