(* Proof/Archive_publish.v — C38, part 3: an archive that PublishArchive reports as published
   verifies, and VerifyPublishedArchive returns the manifest PublishArchive returned. *)
From WK Require Import Base.Base Gen.Consts_C38 Model.Archive Proof.Archive.
Open Scope N_scope.

(* ---- shapes of keys ------------------------------------------------------------------------ *)
Lemma prefixb_app : forall p s, prefixb p s = true -> exists r, s = p ++ r.
Proof.
  induction p as [|a p IH]; intros s E; [exists s; reflexivity|].
  destruct s as [|b s]; [discriminate|]. cbn [prefixb] in E. apply andb_true_iff in E.
  destruct E as [E1 E2]. apply N.eqb_eq in E1. subst b.
  destruct (IH s E2) as (r & Er). exists r. subst s. reflexivity.
Qed.

Lemma forallb_ext_in' {A} (f g : A -> bool) : forall l, (forall x, In x l -> f x = g x) -> forallb f l = forallb g l.
Proof.
  induction l as [|x l IH]; intro Hx; [reflexivity|]. cbn [forallb].
  rewrite (Hx x (or_introl eq_refl)), IH; [reflexivity|]. intros y Hy. apply Hx. right. exact Hy.
Qed.

Definition slots_shaped (k : bytes) : Prop := exists r, k = sx "slots/" ++ r.

Lemma slot_prefix_shaped hs r : slots_shaped (slot_prefix hs ++ r).
Proof. unfold slot_prefix. exists (pad0 3 (dec_N hs) ++ r). rewrite app_assoc. reflexivity. Qed.

Lemma slot_manifest_key_shaped hs key : validate_slot_manifest_key hs key = true -> slots_shaped key.
Proof.
  unfold validate_slot_manifest_key. intro E. apply andb_true_iff in E. destruct E as [E _].
  apply andb_true_iff in E. destruct E as [_ E]. apply prefixb_app in E. destruct E as (r & E).
  subst key. rewrite <- app_assoc. apply slot_prefix_shaped.
Qed.

Lemma slot_chunk_key_shaped hs p c : slot_chunk_key_ok hs p c = true -> slots_shaped (cr_key c).
Proof.
  unfold slot_chunk_key_ok. intro E. apply orb_true_iff in E. destruct E as [E|E].
  - apply bytes_eqb_eq in E. rewrite E. apply slot_prefix_shaped.
  - apply andb_true_iff in E. destruct E as [E _]. apply prefixb_app in E. destruct E as (r & E).
    rewrite E. rewrite <- app_assoc. apply slot_prefix_shaped.
Qed.

Lemma validate_slot_chunks_shaped : forall hs cs meta msg lo lb sb rc mx out,
  validate_slot_chunks hs cs meta msg lo lb sb rc mx = Some out ->
  Forall (fun c => slots_shaped (cr_key c)) cs.
Proof.
  induction cs as [|c rest IH]; intros meta msg lo lb sb rc mx out E; [constructor|].
  cbn [validate_slot_chunks] in E.
  destruct (negb (bytes_eqb (cr_kind c) ChunkKindMetadata || bytes_eqb (cr_kind c) ChunkKindMessages)); [discriminate|].
  destruct ((if bytes_eqb (cr_kind c) ChunkKindMetadata then 1 else 2) <? lo); [discriminate|].
  destruct (step_kst (if bytes_eqb (cr_kind c) ChunkKindMetadata then meta else msg) c) as [s'|]; [|discriminate].
  destruct (negb (slot_chunk_key_ok hs (if bytes_eqb (cr_kind c) ChunkKindMetadata then sx "meta" else sx "messages") c)) eqn:Ek;
    [discriminate|].
  destruct (negb (validate_chunk_descriptor (cr_desc c))); [discriminate|].
  destruct (bytes_eqb (cr_kind c) ChunkKindMetadata && negb (cr_max_id c =? 0)); [discriminate|].
  apply negb_false_true in Ek. constructor; [eapply slot_chunk_key_shaped; exact Ek|].
  eapply IH. exact E.
Qed.

Lemma validate_slot_manifest_shaped m :
  validate_slot_manifest m = None -> Forall (fun c => slots_shaped (cr_key c)) (sm_chunks m).
Proof.
  unfold validate_slot_manifest. intro V.
  repeat match type of V with
         | (if ?c then Some _ else _) = None => destruct c; [discriminate|]
         end.
  destruct (validate_slot_chunks (sm_hash_slot m) (sm_chunks m) (KST 1 0 0 false) (KST 1 1 0 false) 0 0 0 0 0)
    as [out|] eqn:E; [|discriminate].
  eapply validate_slot_chunks_shaped. exact E.
Qed.

(* the literal keys *)
Lemma sx_slots_head r : sx "slots/" ++ r = 115 :: (sx "lots/" ++ r).
Proof. reflexivity. Qed.

Lemma root_slots_neq_manifest id r : root_of id ++ sx "slots/" ++ r <> manifest_key id.
Proof. unfold manifest_key. intro E. apply app_inv_head in E. vm_compute in E. discriminate. Qed.
Lemma root_slots_neq_complete id r : root_of id ++ sx "slots/" ++ r <> complete_key id.
Proof. unfold complete_key. intro E. apply app_inv_head in E. vm_compute in E. discriminate. Qed.
Lemma root_neq_catalog id id' r : root_of id ++ r <> catalog_key id'.
Proof. unfold root_of, catalog_key. intro E. vm_compute in E. discriminate. Qed.
Lemma root_neq_repo id r : root_of id ++ r <> RepositoryMarkerKey.
Proof. unfold root_of. intro E. vm_compute in E. discriminate. Qed.
Lemma manifest_neq_complete id : manifest_key id <> complete_key id.
Proof. unfold manifest_key, complete_key. intro E. apply app_inv_head in E. vm_compute in E. discriminate. Qed.
Lemma corrupt_neq_manifest id : corrupt_key id <> manifest_key id.
Proof. unfold manifest_key, corrupt_key. intro E. apply app_inv_head in E. vm_compute in E. discriminate. Qed.
Lemma corrupt_neq_complete id : corrupt_key id <> complete_key id.
Proof. unfold complete_key, corrupt_key. intro E. apply app_inv_head in E. vm_compute in E. discriminate. Qed.

Lemma max_archive_le_stored : maxArchiveManifestBytes <= maxStoredManifestBytes.
Proof. vm_compute. discriminate. Qed.

Section Publish.
  Variable body : Type.
  Variable blen : body -> N.
  Variable H : body -> bytes.
  Variable unz : body -> option (N * bytes).
  Variable json_archive : body -> option archive_manifest.
  Variable json_slot : body -> option slot_manifest.
  Variable json_marker : body -> option complete_marker.
  Variable json_repo : body -> option repo_marker.
  Variable canon_archive : archive_manifest -> body -> bool.
  Variable canon_slot : slot_manifest -> body -> bool.
  Variable canon_marker : complete_marker -> body -> bool.
  Variable canon_repo : repo_marker -> body -> bool.
  Variable enc_archive : archive_manifest -> body.
  Variable enc_marker : complete_marker -> body.
  Variable enc_repo : repo_marker -> body.
  Variable body_eqb : body -> body -> bool.

  (* what the proof needs from the JSON layer and bytes.Equal *)
  Hypothesis body_eqb_eq : forall a b, body_eqb a b = true -> a = b.
  (* decoding an encoding canonically can only give the encoded manifest back *)
  Hypothesis json_enc_archive_inv : forall m m',
    json_archive (enc_archive m) = Some m' -> canon_archive m' (enc_archive m) = true -> m' = m.
  (* the COMPLETE marker is written without being read back: its encoding must decode to it,
     canonically, and be a non-empty object within the manifest cap *)
  Definition marker_faithful (k : complete_marker) : Prop :=
    json_marker (enc_marker k) = Some k /\ canon_marker k (enc_marker k) = true
    /\ 0 < blen (enc_marker k) /\ blen (enc_marker k) <= maxStoredManifestBytes.

  Local Notation store := (store body).
  Local Notation get := (get body).
  Local Notation put := (put body).
  Local Notation read := (read_stored_object body blen).
  Local Notation honest := (honest_object body blen).
  Local Notation load_archive := (load_archive_manifest body json_archive canon_archive).
  Local Notation load_slot := (load_slot_manifest body json_slot canon_slot).
  Local Notation slotref := (load_stored_slot_reference body blen H unz json_slot canon_slot).
  Local Notation verify := (verify_published_archive body blen H unz json_archive json_slot json_marker
                              canon_archive canon_slot canon_marker).
  Local Notation chunk_ok := (chunk_consistentb body blen H unz).
  Local Notation slot_ok := (slot_consistentb body blen H unz json_slot canon_slot).
  Local Notation consistent := (consistentb body blen H unz json_archive json_slot json_marker
                                  canon_archive canon_slot canon_marker).
  Local Notation put_imm := (put_immutable_object body blen body_eqb).
  Local Notation ensure := (ensure_repository body blen json_repo canon_repo enc_repo).
  Local Notation pslots := (publish_slots body blen H unz json_slot canon_slot).
  Local Notation publish := (publish_archive body blen H unz json_archive json_slot json_marker json_repo
                               canon_archive canon_slot canon_marker canon_repo
                               enc_archive enc_marker enc_repo body_eqb).

  (* ---- putImmutableObject ------------------------------------------------------------------- *)
  Lemma put_imm_spec st key b st' :
    put_imm st key b = (st', Ok tt) ->
    get st' key = Some (b, blen b) /\ (forall k, k <> key -> get st' k = get st k).
  Proof.
    unfold put_immutable_object, store_put.
    destruct (get st key) as [[b0 sz]|] eqn:G.
    - destruct (read st key maxArchiveManifestBytes) as [ex|e] eqn:R; [|intro E; inversion E].
      destruct (body_eqb ex b) eqn:Eb; [|intro E; inversion E].
      intro E. inversion E; subst st'. apply body_eqb_eq in Eb. subst ex.
      apply read_ok_iff in R. apply honest_get in R. destruct R as (G' & _).
      split; [exact G'|reflexivity].
    - intro E. inversion E; subst st'. split; [apply get_put_same|].
      intros k Hne. apply get_put_other. auto.
  Qed.

  (* ---- EnsureRepository touches repository.json only ----------------------------------------- *)
  Lemma ensure_frame st cluster now st' r :
    ensure st cluster now = (st', r) -> forall k, k <> RepositoryMarkerKey -> get st' k = get st k.
  Proof.
    unfold ensure_repository.
    destruct (bytes_eqb cluster [] || (now <=? 0)%Z); [intro E; inversion E; reflexivity|].
    destruct (get st RepositoryMarkerKey) as [[b sz]|] eqn:G.
    - destruct ((sz =? 0) || (repo_marker_max <? sz)); [intro E; inversion E; reflexivity|].
      destruct (negb (blen b =? sz)); [intro E; inversion E; reflexivity|].
      destruct (load_repository_marker body json_repo canon_repo b) as [m|e]; [|intro E; inversion E; reflexivity].
      destruct (bytes_eqb (rm_cluster m) cluster); intro E; inversion E; reflexivity.
    - destruct (marshal_repository_marker body enc_repo _) as [b|e]; [|intro E; inversion E; reflexivity].
      unfold store_put. rewrite G.
      intro E. inversion E; subst st'. intros k Hne. apply get_put_other. auto.
  Qed.

  (* ---- consistency depends on the objects under the archive root only ---------------------- *)
  Lemma chunk_ok_ext st st' root c :
    get st' (root ++ cr_key c) = get st (root ++ cr_key c) -> chunk_ok st' root c = chunk_ok st root c.
  Proof. intro E. unfold chunk_consistentb. rewrite E. reflexivity. Qed.

  Lemma slot_ok_ext st st' id i r :
    slots_shaped (sr_key r) ->
    (forall k, get st' (root_of id ++ sx "slots/" ++ k) = get st (root_of id ++ sx "slots/" ++ k)) ->
    slot_ok st id i r = true -> slot_ok st' id i r = true.
  Proof.
    intros (kr & Ekr) Hag. unfold slot_consistentb, honest_object. rewrite Ekr, Hag.
    intro C. apply andb_true_iff in C. destruct C as [C0 C]. rewrite C0. cbn [andb].
    destruct (get st (root_of id ++ sx "slots/" ++ kr)) as [[b sz]|]; [|discriminate].
    destruct ((sz =? blen b) && (0 <? sz) && (sz <=? maxStoredManifestBytes)); [|discriminate].
    destruct (load_slot b) as [sm|e] eqn:L; [|discriminate].
    apply andb_true_iff in C. destruct C as [C1 C2]. rewrite C1. cbn [andb].
    assert (Hsh : Forall (fun c => slots_shaped (cr_key c)) (sm_chunks sm)).
    { apply validate_slot_manifest_shaped. unfold load_slot_manifest in L.
      destruct (json_slot b) as [m0|]; [|discriminate].
      destruct (validate_slot_manifest m0) eqn:V; [discriminate|].
      destruct (canon_slot m0 b); [|discriminate]. inversion L; subst. exact V. }
    rewrite <- C2. apply forallb_ext_in'.
    intros c Hin. rewrite Forall_forall in Hsh. destruct (Hsh c Hin) as (kc & Ekc).
    apply chunk_ok_ext. rewrite Ekc. apply Hag.
  Qed.

  Lemma slots_ok_ext st st' id : forall slots i,
    Forall (fun r => slots_shaped (sr_key r)) slots ->
    (forall k, get st' (root_of id ++ sx "slots/" ++ k) = get st (root_of id ++ sx "slots/" ++ k)) ->
    forallb_idx (slot_ok st id) i slots = true -> forallb_idx (slot_ok st' id) i slots = true.
  Proof.
    induction slots as [|r rest IH]; intros i Hsh Hag C; [reflexivity|].
    cbn [forallb_idx] in *. inversion Hsh; subst. apply andb_true_iff in C. destruct C as [C1 C2].
    rewrite (slot_ok_ext st st' id i r); auto. cbn [andb]. apply IH; auto.
  Qed.

  Lemma consistent_ext st st' id m :
    (forall k, get st' (root_of id ++ k) = get st (root_of id ++ k)) ->
    consistent st id m = true -> consistent st' id m = true.
  Proof.
    intros Hag. unfold consistentb, honest_object, manifest_key, complete_key, corrupt_key.
    rewrite !Hag. intro C.
    destruct (negb (bytes_eqb id [])); [|discriminate]. cbn [andb] in *.
    destruct (get st (root_of id ++ sx "CORRUPT")); [discriminate|]. cbn [andb] in *.
    destruct (get st (root_of id ++ sx "manifest.json")) as [[mb sz]|]; [|discriminate].
    destruct ((sz =? blen mb) && (0 <? sz) && (sz <=? maxStoredManifestBytes)); [|discriminate].
    destruct (get st (root_of id ++ sx "COMPLETE")) as [[kb sz']|]; [|discriminate].
    destruct ((sz' =? blen kb) && (0 <? sz') && (sz' <=? maxStoredManifestBytes)); [|discriminate].
    destruct (load_archive mb) as [m'|e] eqn:L; [|discriminate].
    destruct (json_marker kb) as [k|]; [|discriminate].
    apply andb_true_iff in C. destruct C as [C1 C2]. rewrite C1. cbn [andb].
    assert (Hval : validate_archive_manifest m' = None).
    { unfold load_archive_manifest in L. destruct (json_archive mb) as [m2|]; [|discriminate].
      destruct (validate_archive_manifest m2) eqn:Ev2; [discriminate|].
      destruct (canon_archive m2 mb); [|discriminate]. inversion L; subst. exact Ev2. }
    destruct (validate_archive_slots m' Hval) as (_ & Hwf).
    apply (slots_ok_ext st st' id); [| |exact C2].
    - rewrite Forall_forall in *. intros r Hin. destruct (Hwf r Hin) as (_ & Hk & _).
      eapply slot_manifest_key_shaped. exact Hk.
    - intro k0. apply Hag.
  Qed.

  (* ---- the per-slot loop of PublishArchive -------------------------------------------------- *)
  Lemma slotref_ok st id r a sm :
    slotref st id r true = Ok (a, sm) ->
    a = r /\ slots_shaped (sr_key r) /\ slot_ok st id (sr_hash_slot r) r = true.
  Proof.
    intro E. assert (a = r) by (eapply slotref_returns_expected; exact E). subst a.
    destruct (proj1 (slotref_ok_iff body blen H unz json_slot canon_slot st id r)) as (_ & Hk & _ & Hok);
      [eexists; eexists; exact E|].
    split; [reflexivity|]. split; [eapply slot_manifest_key_shaped; exact Hk|exact Hok].
  Qed.

  Lemma publish_slots_spec st id : forall slots i refs lb sb rc mx cs ce out tot cut,
    pslots st id i slots refs lb sb rc mx cs ce = Ok (out, tot, cut) ->
    out = rev refs ++ slots
    /\ Forall (fun r => slots_shaped (sr_key r)) slots
    /\ forallb_idx (slot_ok st id) i slots = true.
  Proof.
    induction slots as [|r rest IH]; intros i refs lb sb rc mx cs ce out tot cut E.
    - cbn [publish_slots] in E. inversion E. rewrite app_nil_r. repeat split; constructor.
    - cbn [publish_slots] in E.
      destruct (negb (sr_hash_slot r =? i)) eqn:Ei; [discriminate|].
      apply negb_false_true in Ei. apply N.eqb_eq in Ei.
      destruct (slotref st id r true) as [[a sm]|e] eqn:Er; [|discriminate].
      apply slotref_ok in Er. destruct Er as (Ea & Hsh & Hok). subst a.
      apply IH in E. destruct E as (Eo & Hshs & Hoks).
      split; [rewrite Eo; cbn [rev]; rewrite <- app_assoc; reflexivity|].
      split; [constructor; assumption|].
      cbn [forallb_idx]. rewrite <- Ei at 1. rewrite Hok. exact Hoks.
  Qed.


  (* ---- PublishArchive only adds objects, under keys that were absent ----------------------- *)
  Inductive extends (st : store) : store -> Prop :=
  | ext_refl : extends st st
  | ext_put st' k b : extends st st' -> get st' k = None -> extends st (put k b (blen b) st').

  Lemma extends_news st st' : extends st st' ->
    exists news, st' = news ++ st
                 /\ Forall (fun e => get st (fst e) = None /\ snd e <> None) news
                 /\ (forall k, get st' k = None -> get st k = None).
  Proof.
    induction 1 as [|st' k b Hex IH Hk].
    - exists []. repeat split; auto.
    - destruct IH as (news & E & Hall & Hnone).
      exists ((k, Some (b, blen b)) :: news). subst st'. repeat split.
      + constructor; [|exact Hall]. cbn [fst snd]. split; [apply Hnone; exact Hk|discriminate].
      + intros k0 G. unfold Archive.put in G. cbn [Archive.get] in G.
        destruct (bytes_eqb k k0); [discriminate|]. apply Hnone. exact G.
  Qed.

  Lemma put_imm_extends st0 st key b st' r :
    extends st0 st -> put_imm st key b = (st', r) -> extends st0 st'.
  Proof.
    intros Hex. unfold put_immutable_object, store_put.
    destruct (get st key) as [[b0 sz]|] eqn:G.
    - destruct (read st key maxArchiveManifestBytes) as [ex|e]; [|intro E; inversion E; subst; exact Hex].
      destruct (body_eqb ex b); intro E; inversion E; subst; exact Hex.
    - intro E. inversion E; subst. apply ext_put; assumption.
  Qed.

  Lemma ensure_extends st0 st cluster now st' r :
    extends st0 st -> ensure st cluster now = (st', r) -> extends st0 st'.
  Proof.
    intros Hex. unfold ensure_repository.
    destruct (bytes_eqb cluster [] || (now <=? 0)%Z); [intro E; inversion E; subst; exact Hex|].
    destruct (get st RepositoryMarkerKey) as [[b sz]|] eqn:G.
    - destruct ((sz =? 0) || (repo_marker_max <? sz)); [intro E; inversion E; subst; exact Hex|].
      destruct (negb (blen b =? sz)); [intro E; inversion E; subst; exact Hex|].
      destruct (load_repository_marker body json_repo canon_repo b) as [m|e]; [|intro E; inversion E; subst; exact Hex].
      destruct (bytes_eqb (rm_cluster m) cluster); intro E; inversion E; subst; exact Hex.
    - destruct (marshal_repository_marker body enc_repo _) as [b|e]; [|intro E; inversion E; subst; exact Hex].
      unfold store_put. rewrite G. intro E. inversion E; subst. apply ext_put; assumption.
  Qed.

  Lemma publish_extends st rq st' r : publish st rq = (st', r) -> extends st st'.
  Proof.
    unfold publish_archive. set (id := pr_id rq).
    destruct (read st (complete_key id) maxArchiveManifestBytes) as [existing|e] eqn:Rc.
    - destruct (verify st id) as [m0|e]; [|intro E; inversion E; constructor].
      match goal with |- context [if ?c then _ else _] => destruct c end; [intro E; inversion E; constructor|].
      destruct (put_imm st (catalog_key id) existing) as [st1 [[]|e]] eqn:Pc; intro E; inversion E; subst;
        eapply put_imm_extends; try exact Pc; constructor.
    - destruct e; try (intro E; inversion E; constructor; fail).
      destruct (ensure st (pr_cluster rq) (pr_completed rq)) as [st1 [rm|e]] eqn:En;
        [|intro E; inversion E; subst; eapply ensure_extends; [constructor|exact En]].
      assert (X1 : extends st st1) by (eapply ensure_extends; [constructor|exact En]).
      match goal with |- context [if ?c then _ else _] => destruct c end; [intro E; inversion E; subst; exact X1|].
      destruct (pslots st1 id 0 (pr_slots rq) [] 0 0 0 0 0%Z 0%Z) as [[[refs [[[lb sb] rc] mx]] [cs ce]]|e];
        [|intro E; inversion E; subst; exact X1].
      destruct (marshal_archive_manifest body enc_archive _) as [b|e]; [|intro E; inversion E; subst; exact X1].
      destruct (put_imm st1 (manifest_key id) b) as [st2 [[]|e]] eqn:P2;
        [|intro E; inversion E; subst; eapply put_imm_extends; [exact X1|exact P2]].
      assert (X2 : extends st st2) by (eapply put_imm_extends; [exact X1|exact P2]).
      destruct (read st2 (manifest_key id) maxArchiveManifestBytes) as [loaded|e]; [|intro E; inversion E; subst; exact X2].
      destruct (load_archive loaded) as [m2|e]; [|intro E; inversion E; subst; exact X2].
      destruct (new_complete_marker body blen H json_archive canon_archive loaded) as [k|e];
        [|intro E; inversion E; subst; exact X2].
      destruct (marshal_complete_marker body enc_marker k) as [kb|e]; [|intro E; inversion E; subst; exact X2].
      destruct (put_imm st2 (complete_key id) kb) as [st3 [[]|e]] eqn:P3;
        [|intro E; inversion E; subst; eapply put_imm_extends; [exact X2|exact P3]].
      assert (X3 : extends st st3) by (eapply put_imm_extends; [exact X2|exact P3]).
      destruct (put_imm st3 (catalog_key id) kb) as [st4 [[]|e]] eqn:P4; intro E; inversion E; subst;
        eapply put_imm_extends; try exact P4; exact X3.
  Qed.

  (* ---- the theorem ---------------------------------------------------------------------------- *)
  Theorem published_consistent st rq st' m :
    publish st rq = (st', Ok m) -> get st (corrupt_key (pr_id rq)) = None ->
    (forall k, get st (complete_key (pr_id rq)) = None ->
               get st' (complete_key (pr_id rq)) = Some (enc_marker k, blen (enc_marker k)) ->
               validate_complete_marker k = None -> cm_bytes k <= maxArchiveManifestBytes -> marker_faithful k) ->
    consistent st' (pr_id rq) m = true.
  Proof.
    unfold publish_archive. set (id := pr_id rq). intros P Hnc Hmk.
    destruct (read st (complete_key id) maxArchiveManifestBytes) as [existing|e] eqn:Rc.
    - (* COMPLETE already there: verify, then (re)write the catalog entry *)
      destruct (verify st id) as [m0|e] eqn:V; [|inversion P].
      destruct (negb (bytes_eqb (am_trigger m0) (pr_trigger rq)) || negb (bytes_eqb (am_cluster m0) (pr_cluster rq))
                || negb (bytes_eqb (am_app m0) (pr_app rq)) || negb (am_started m0 =? pr_started rq)%Z
                || negb (am_completed m0 =? pr_completed rq)%Z); [inversion P|].
      destruct (put_imm st (catalog_key id) existing) as [st1 [[]|e]] eqn:Pc; inversion P; subst st1 m0.
      apply put_imm_spec in Pc. destruct Pc as (_ & Hfr).
      apply (consistent_ext st st' id m); [|apply verify_sound; exact V].
      intro k. apply Hfr. apply root_neq_catalog.
    - destruct e; try (inversion P; fail).
      (* fresh publication *)
      assert (Gc : get st (complete_key id) = None).
      { unfold read_stored_object in Rc. destruct (get st (complete_key id)) as [[b sz]|]; [|reflexivity].
        destruct ((sz =? 0) || (maxArchiveManifestBytes <? sz)); [discriminate|].
        destruct (negb (blen b =? sz) || (maxArchiveManifestBytes <? blen b)); discriminate. }
      destruct (ensure st (pr_cluster rq) (pr_completed rq)) as [st1 [rm|e]] eqn:En; [|inversion P].
      pose proof (ensure_frame _ _ _ _ _ En) as F1.
      destruct (negb (N.of_nat (length (pr_slots rq)) =? DefaultHashSlotCount)); [inversion P|].
      destruct (pslots st1 id 0 (pr_slots rq) [] 0 0 0 0 0%Z 0%Z) as [[[refs [[[lb sb] rc] mx]] [cs ce]]|e] eqn:Ps;
        [|inversion P].
      apply publish_slots_spec in Ps. destruct Ps as (Erefs & Hsh & Hoks). cbn [rev app] in Erefs. subst refs.
      set (m1 := AM ArchiveFormat ArchiveVersion id (pr_trigger rq) (pr_cluster rq) (pr_app rq)
                    (Z.of_N DefaultHashSlotCount) (pr_started rq) (pr_completed rq) cs ce
                    CompressionZstd ChecksumSHA256 lb sb rc mx (pr_slots rq)) in *.
      unfold marshal_archive_manifest in P.
      destruct (validate_archive_manifest m1) eqn:Vm; [inversion P|].
      destruct (put_imm st1 (manifest_key id) (enc_archive m1)) as [st2 [[]|e]] eqn:P2; [|inversion P].
      apply put_imm_spec in P2. destruct P2 as (G2 & F2).
      destruct (read st2 (manifest_key id) maxArchiveManifestBytes) as [loaded|e] eqn:R2; [|inversion P].
      apply read_ok_iff in R2. apply honest_get in R2. destruct R2 as (G2' & Hpos & Hle).
      rewrite G2 in G2'. inversion G2' as [[Eloaded]]. clear G2'.
      rewrite <- Eloaded in *. clear Eloaded loaded.
      destruct (load_archive (enc_archive m1)) as [m2|e] eqn:La; [|inversion P].
      unfold new_complete_marker in P. rewrite La in P.
      set (k := CM CompleteMarkerFormat CompleteMarkerVersion (H (enc_archive m1)) (blen (enc_archive m1))) in *.
      unfold marshal_complete_marker in P.
      destruct (validate_complete_marker k) eqn:Vk; [inversion P|].
      destruct (put_imm st2 (complete_key id) (enc_marker k)) as [st3 [[]|e]] eqn:P3; [|inversion P].
      apply put_imm_spec in P3. destruct P3 as (G3 & F3).
      destruct (put_imm st3 (catalog_key id) (enc_marker k)) as [st4 [[]|e]] eqn:P4; inversion P; subst st4 m.
      apply put_imm_spec in P4. destruct P4 as (_ & F4).
      (* the objects of the result *)
      assert (Gm : get st' (manifest_key id) = Some (enc_archive m1, blen (enc_archive m1))).
      { rewrite F4 by (unfold manifest_key; apply root_neq_catalog).
        rewrite F3 by apply manifest_neq_complete. exact G2. }
      assert (Gk : get st' (complete_key id) = Some (enc_marker k, blen (enc_marker k))).
      { rewrite F4 by (unfold complete_key; apply root_neq_catalog). exact G3. }
      assert (Gx : get st' (corrupt_key id) = None).
      { rewrite F4 by (unfold corrupt_key; apply root_neq_catalog).
        rewrite F3 by apply corrupt_neq_complete. rewrite F2 by apply corrupt_neq_manifest.
        rewrite F1 by (unfold corrupt_key; apply root_neq_repo). exact Hnc. }
      assert (Gs : forall x, get st' (root_of id ++ sx "slots/" ++ x) = get st1 (root_of id ++ sx "slots/" ++ x)).
      { intro x. rewrite F4 by apply root_neq_catalog. rewrite F3 by apply root_slots_neq_complete.
        rewrite F2 by apply root_slots_neq_manifest. reflexivity. }
      assert (Ja : json_archive (enc_archive m1) = Some m1 /\ canon_archive m1 (enc_archive m1) = true).
      { unfold load_archive_manifest in La.
        destruct (json_archive (enc_archive m1)) as [m3|] eqn:J3; [|discriminate].
        destruct (validate_archive_manifest m3); [discriminate|].
        destruct (canon_archive m3 (enc_archive m1)) eqn:C3; [|discriminate].
        assert (m3 = m1) by (apply json_enc_archive_inv; assumption). subst m3. split; [reflexivity|exact C3]. }
      destruct Ja as (Ja & Ca).
      destruct (Hmk k Gc Gk Vk Hle) as (Jk & Ck & Kpos & Kle).
      assert (Hid : bytes_eqb id [] = false).
      { unfold validate_archive_manifest in Vm.
        destruct (negb (bytes_eqb (am_format m1) ArchiveFormat)); [discriminate|].
        destruct (negb (am_version m1 =? ArchiveVersion)); [discriminate|].
        destruct (negb (validate_backup_identity (am_id m1))) eqn:Ei; [discriminate|].
        apply negb_false_true in Ei. unfold validate_backup_identity in Ei.
        cbn [am_id m1] in Ei. destruct id; [discriminate|reflexivity]. }
      unfold consistentb, honest_object. rewrite Hid, Gx, Gm, Gk. cbn [negb andb].
      rewrite !N.eqb_refl.
      assert (Hp1 : (0 <? blen (enc_archive m1)) = true) by (apply N.ltb_lt; exact Hpos).
      assert (Hl1 : (blen (enc_archive m1) <=? maxStoredManifestBytes) = true).
      { apply N.leb_le. pose proof max_archive_le_stored. lia. }
      assert (Hp2 : (0 <? blen (enc_marker k)) = true) by (apply N.ltb_lt; exact Kpos).
      assert (Hl2 : (blen (enc_marker k) <=? maxStoredManifestBytes) = true) by (apply N.leb_le; exact Kle).
      rewrite Hp1, Hl1, Hp2, Hl2. cbn [andb].
      unfold load_archive_manifest. rewrite Ja, Vm, Ca, Jk, Vk, Ck.
      rewrite archive_manifest_eqb_refl. cbn [am_id m1 cm_bytes cm_sha k andb].
      rewrite !bytes_eqb_refl, N.eqb_refl. cbn [andb am_slots m1].
      apply (slots_ok_ext st1 st' id); assumption.
  Qed.

  Theorem published_verifies st rq st' m :
    publish st rq = (st', Ok m) -> get st (corrupt_key (pr_id rq)) = None ->
    (forall k, validate_complete_marker k = None -> cm_bytes k <= maxArchiveManifestBytes -> marker_faithful k) ->
    verify st' (pr_id rq) = Ok m.
  Proof.
    intros P Hnc Hmk. apply verify_complete. eapply published_consistent; try eassumption.
    intros k _ _ Vk Hle. apply Hmk; assumption.
  Qed.
End Publish.
