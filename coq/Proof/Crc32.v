(* Proof/Crc32.v — the table-driven loop equals the bitwise CRC for every byte
   list; the regenerated IEEETable is the table of the IEEE polynomial. *)
From WK Require Import Base.Base Gen.Consts_C21 Model.Crc32.
Open Scope N_scope.

Lemma table_is_ieee : gen_table = IEEETable.
Proof. vm_compute. reflexivity. Qed.

Lemma table_length : length IEEETable = 256%nat.
Proof. rewrite <- table_is_ieee. reflexivity. Qed.

(* bit_step is GF(2)-linear *)
Lemma odd_lxor a b : N.odd (N.lxor a b) = xorb (N.odd a) (N.odd b).
Proof. rewrite <- !N.bit0_odd. apply N.lxor_spec. Qed.

Lemma lxor_cancel x y p : N.lxor x y = N.lxor (N.lxor x p) (N.lxor y p).
Proof.
  apply N.bits_inj. intro n. rewrite !N.lxor_spec.
  destruct (N.testbit x n), (N.testbit y n), (N.testbit p n); reflexivity.
Qed.

Lemma lxor_swap_r x y p : N.lxor (N.lxor x y) p = N.lxor (N.lxor x p) y.
Proof.
  apply N.bits_inj. intro n. rewrite !N.lxor_spec.
  destruct (N.testbit x n), (N.testbit y n), (N.testbit p n); reflexivity.
Qed.

Lemma bit_step_lxor a b : bit_step (N.lxor a b) = N.lxor (bit_step a) (bit_step b).
Proof.
  unfold bit_step. rewrite odd_lxor, N.shiftr_lxor.
  set (x := N.shiftr a 1). set (y := N.shiftr b 1).
  destruct (N.odd a), (N.odd b); cbn [xorb].
  - apply lxor_cancel.
  - apply lxor_swap_r.
  - apply N.lxor_assoc.
  - reflexivity.
Qed.

Lemma step8_lxor a b : step8 (N.lxor a b) = N.lxor (step8 a) (step8 b).
Proof. unfold step8. rewrite !bit_step_lxor. reflexivity. Qed.

(* on a multiple of 256 eight steps just shift *)
Lemma bit_step_even h : N.odd h = false -> bit_step h = N.shiftr h 1.
Proof. unfold bit_step. intros ->. reflexivity. Qed.

Lemma odd_shiftl_pos h k : 0 < k -> N.odd (N.shiftl h k) = false.
Proof.
  intros Hk. rewrite <- N.bit0_odd. apply N.shiftl_spec_low. exact Hk.
Qed.

Lemma shiftr1_shiftl h k : 0 < k -> N.shiftr (N.shiftl h k) 1 = N.shiftl h (k - 1).
Proof.
  intros Hk. apply N.bits_inj. intro n.
  rewrite N.shiftr_spec by apply N.le_0_l.
  destruct (N.lt_ge_cases (n + 1) k) as [Hlt|Hge].
  - rewrite N.shiftl_spec_low by exact Hlt.
    rewrite N.shiftl_spec_low by lia. reflexivity.
  - rewrite N.shiftl_spec_high by (try apply N.le_0_l; exact Hge).
    rewrite N.shiftl_spec_high by (try apply N.le_0_l; lia).
    f_equal. lia.
Qed.

Lemma bit_step_shiftl h k : 0 < k -> bit_step (N.shiftl h k) = N.shiftl h (k - 1).
Proof.
  intros Hk. rewrite bit_step_even by (apply odd_shiftl_pos; exact Hk).
  apply shiftr1_shiftl. exact Hk.
Qed.

Lemma step8_shiftl8 h : step8 (N.shiftl h 8) = h.
Proof.
  unfold step8.
  rewrite (bit_step_shiftl h 8) by lia. change (8 - 1) with 7.
  rewrite (bit_step_shiftl h 7) by lia. change (7 - 1) with 6.
  rewrite (bit_step_shiftl h 6) by lia. change (6 - 1) with 5.
  rewrite (bit_step_shiftl h 5) by lia. change (5 - 1) with 4.
  rewrite (bit_step_shiftl h 4) by lia. change (4 - 1) with 3.
  rewrite (bit_step_shiftl h 3) by lia. change (3 - 1) with 2.
  rewrite (bit_step_shiftl h 2) by lia. change (2 - 1) with 1.
  rewrite (bit_step_shiftl h 1) by lia. change (1 - 1) with 0.
  apply N.shiftl_0_r.
Qed.

(* split x into low byte and the rest *)
Lemma split_low8 x : x = N.lxor (x mod 256) (N.shiftl (N.shiftr x 8) 8).
Proof.
  apply N.bits_inj. intro n. rewrite N.lxor_spec.
  change 256 with (2 ^ 8).
  destruct (N.lt_ge_cases n 8) as [Hlt|Hge].
  - rewrite N.mod_pow2_bits_low by exact Hlt.
    rewrite N.shiftl_spec_low by exact Hlt. rewrite xorb_false_r. reflexivity.
  - rewrite N.mod_pow2_bits_high by exact Hge.
    rewrite N.shiftl_spec_high by (try apply N.le_0_l; exact Hge).
    rewrite N.shiftr_spec by apply N.le_0_l.
    replace (n - 8 + 8) with n by lia. rewrite xorb_false_l. reflexivity.
Qed.

Lemma nth_map_seq (f : nat -> N) k n : (k < n)%nat -> nth k (map f (seq 0 n)) 0 = f k.
Proof.
  intros Hk. rewrite (nth_indep _ 0 (f 0%nat)) by (rewrite map_length, seq_length; exact Hk).
  rewrite (map_nth f (seq 0 n) 0%nat k). rewrite seq_nth by exact Hk. reflexivity.
Qed.

Lemma nth_gen_table i : i < 256 -> nth (N.to_nat i) gen_table 0 = step8 i.
Proof.
  intros Hi. unfold gen_table. rewrite nth_map_seq by lia. rewrite N2Nat.id. reflexivity.
Qed.

Lemma step8_split x : step8 x = N.lxor (nth (N.to_nat (x mod 256)) IEEETable 0) (N.shiftr x 8).
Proof.
  rewrite (split_low8 x) at 1. rewrite step8_lxor, step8_shiftl8.
  rewrite <- table_is_ieee, nth_gen_table; [reflexivity|].
  apply N.mod_lt. discriminate.
Qed.

Lemma lxor_mod256 c b : b < 256 -> (N.lxor c b) mod 256 = N.lxor (c mod 256) b.
Proof.
  intros Hb. apply N.bits_inj. intro n. change 256 with (2 ^ 8).
  destruct (N.lt_ge_cases n 8) as [Hlt|Hge].
  - rewrite N.mod_pow2_bits_low by exact Hlt. rewrite !N.lxor_spec.
    rewrite N.mod_pow2_bits_low by exact Hlt. reflexivity.
  - rewrite N.mod_pow2_bits_high by exact Hge. rewrite N.lxor_spec.
    rewrite N.mod_pow2_bits_high by exact Hge.
    assert (Hbn : N.testbit b n = false).
    { destruct (N.eq_dec b 0) as [->|Hnz]; [apply N.bits_0|].
      apply N.bits_above_log2. apply N.log2_lt_pow2; [lia|].
      apply N.lt_le_trans with (2 ^ 8); [exact Hb|].
      apply N.pow_le_mono_r; [discriminate|exact Hge]. }
    rewrite Hbn. reflexivity.
Qed.

Lemma shiftr8_lxor_byte c b : b < 256 -> N.shiftr (N.lxor c b) 8 = N.shiftr c 8.
Proof.
  intros Hb. rewrite N.shiftr_lxor.
  assert (N.shiftr b 8 = 0) as ->.
  { rewrite N.shiftr_div_pow2. apply N.div_small. exact Hb. }
  apply N.lxor_0_r.
Qed.

Lemma upd_table_eq c b : b < 256 -> upd_table c b = upd_bitwise c b.
Proof.
  intros Hb. unfold upd_table, upd_bitwise. rewrite step8_split.
  rewrite lxor_mod256 by exact Hb. rewrite shiftr8_lxor_byte by exact Hb.
  reflexivity.
Qed.

Lemma fold_upd_eq bs : forall c, all_bytes bs = true ->
  fold_left upd_table bs c = fold_left upd_bitwise bs c.
Proof.
  induction bs as [|b bs IH]; intros c Hall; [reflexivity|].
  simpl in Hall. apply andb_true_iff in Hall. destruct Hall as [Hb Hall].
  unfold is_byte in Hb. apply N.ltb_lt in Hb.
  cbn [fold_left]. rewrite upd_table_eq by exact Hb. apply IH. exact Hall.
Qed.

Lemma crc32_table_eq_bitwise bs : all_bytes bs = true -> crc32_table bs = crc32_bitwise bs.
Proof. intros H. unfold crc32_table, crc32_bitwise. rewrite fold_upd_eq by exact H. reflexivity. Qed.

Lemma slots_agree key count : all_bytes key = true ->
  routing_slot key count = hashslot_slot key count.
Proof. intros H. unfold routing_slot, hashslot_slot. rewrite crc32_table_eq_bitwise by exact H. reflexivity. Qed.

Lemma routing_slot_lt key count : 0 < count -> routing_slot key count < count.
Proof.
  intros Hc. unfold routing_slot. destruct (N.eqb_spec count 0) as [->|Hnz]; [lia|].
  apply N.mod_lt. exact Hnz.
Qed.

Lemma hashslot_slot_lt key count : 0 < count -> hashslot_slot key count < count.
Proof.
  intros Hc. unfold hashslot_slot. destruct (N.eqb_spec count 0) as [->|Hnz]; [lia|].
  apply N.mod_lt. exact Hnz.
Qed.

Lemma slot_zero_count key : routing_slot key 0 = 0 /\ hashslot_slot key 0 = 0.
Proof. split; reflexivity. Qed.

(* the CRC stays a 32-bit value, so the Go uint32 arithmetic never truncates *)
Lemma bit_step_bound c : c < 2 ^ 32 -> bit_step c < 2 ^ 32.
Proof.
  intros Hc. unfold bit_step.
  assert (Hs : N.shiftr c 1 < 2 ^ 31).
  { rewrite N.shiftr_div_pow2. change (2 ^ 1) with 2.
    apply N.div_lt_upper_bound; [discriminate|]. change (2 * 2 ^ 31) with (2 ^ 32). exact Hc. }
  destruct (N.odd c).
  - destruct (N.eq_dec (N.lxor (N.shiftr c 1) poly) 0) as [->|Hnz]; [reflexivity|].
    apply N.log2_lt_pow2; [lia|].
    eapply N.le_lt_trans; [apply N.log2_lxor|].
    apply N.max_lub_lt.
    + destruct (N.eq_dec (N.shiftr c 1) 0) as [->|Hz]; [reflexivity|].
      apply N.log2_lt_pow2; [lia|]. eapply N.lt_trans; [exact Hs|]. reflexivity.
    + reflexivity.
  - eapply N.lt_trans; [exact Hs|]. reflexivity.
Qed.

(* the model's monitor and mismatch are consistent with the theorems:
   if the implementation outputs equal the model's, the monitor accepts *)
Lemma model_satisfies_monitor key count : all_bytes key = true ->
  C21_monitor (C21Case key count (routing_slot key count) (hashslot_slot key count)
                       (hashslot_slot key count) (crc32_table key) (crc32_bitwise key)) = 0.
Proof.
  intros H. unfold C21_monitor. cbn [c21_routing c21_hashslot c21_bench c21_count c21_crc c21_std].
  rewrite slots_agree by exact H. rewrite crc32_table_eq_bitwise by exact H.
  rewrite !N.eqb_refl. simpl.
  destruct (N.eqb_spec count 0) as [->|Hnz]; [reflexivity|].
  simpl. assert (Hlt : hashslot_slot key count < count) by (apply hashslot_slot_lt; lia).
  apply N.ltb_lt in Hlt. rewrite Hlt. reflexivity.
Qed.
