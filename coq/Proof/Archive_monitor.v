(* Proof/Archive_monitor.v — C38, part 4: the case monitor is the property the theorems are
   about.  Whenever the implementation's answers on a case agree with the model's
   ([C38_mismatch] = false), the monitor holds ([C38_monitor] = 0): for archive histories
   through verify <-> consistent and published => consistent, for codec ops through
   "accepted <-> canonical encoding of a valid manifest". *)
From WK Require Import Base.Base Gen.Consts_C38 Model.Archive Model.Archive_C38.
From WK Require Import Proof.Archive Proof.Archive_publish.
Open Scope N_scope.

Lemma negb_false_iff' b : negb b = false -> b = true.
Proof. destruct b; [reflexivity|discriminate]. Qed.

(* ---- codec ops ---------------------------------------------------------------------------- *)
Lemma res_eqb_ok_inv {A} (eqb : A -> A -> bool) (x : res A) (r : res A) :
  res_eqb eqb x r = true ->
  match x, r with Ok a, Ok b => eqb a b = true | Err _, Err _ => True | _, _ => False end.
Proof. destruct x, r; cbn [res_eqb]; intro E; try discriminate; auto. Qed.

Theorem codec_agree_monitor o : cstep_mismatch o = false -> cstep_monitor o = 0.
Proof.
  unfold cstep_mismatch, cstep_monitor. intro M. apply negb_false_iff' in M.
  destruct o as [b raw r|b raw r|b raw r|b raw r|kb mb rawk rawm sha r|mb rawm sha r
                 |m r|m r|m r|m r|m r|hs chunks r|key ok|hs key ok|s ok|s ok|len sha unz d r].
  - (* CLoadArchive *)
    unfold c_load_archive, load_archive_manifest, load_agree, strict_ok in *.
    destruct raw as [m|]; [|destruct r; cbn in *; [discriminate|reflexivity]].
    destruct (validate_archive_manifest m); cbn [is_none andb];
      [destruct r; cbn in *; [discriminate|reflexivity]|].
    destruct (canon_archive_bytes m b); destruct r; cbn in *; try discriminate; reflexivity.
  - unfold c_load_slot, load_slot_manifest, load_agree, strict_ok in *.
    destruct raw as [m|]; [|destruct r; cbn in *; [discriminate|reflexivity]].
    destruct (validate_slot_manifest m); cbn [is_none andb];
      [destruct r; cbn in *; [discriminate|reflexivity]|].
    destruct (canon_slot_bytes m b); destruct r; cbn in *; try discriminate; reflexivity.
  - unfold c_load_msg, load_message_chunk_manifest, load_agree, strict_ok in *.
    destruct raw as [m|]; [|destruct r; cbn in *; [discriminate|reflexivity]].
    destruct (validate_message_chunk_manifest m); cbn [is_none andb];
      [destruct r; cbn in *; [discriminate|reflexivity]|].
    destruct (canon_msg_bytes m b); destruct r; cbn in *; try discriminate; reflexivity.
  - unfold c_load_repo, load_repository_marker, load_agree, strict_ok in *.
    destruct raw as [m|]; [|destruct r; cbn in *; [discriminate|reflexivity]].
    destruct (validate_repository_marker m); cbn [is_none andb];
      [destruct r; cbn in *; [discriminate|reflexivity]|].
    destruct (canon_repo_bytes m b); destruct r; cbn in *; try discriminate; reflexivity.
  - (* CLoadMarker *)
    unfold c_load_marker, load_complete_marker, load_archive_manifest, load_agree in *.
    destruct rawk as [k|]; [|destruct r; cbn in *; [discriminate|reflexivity]].
    destruct (validate_complete_marker k); cbn [is_none andb];
      [destruct r; cbn in *; [discriminate|reflexivity]|].
    destruct (canon_marker_bytes k kb); cbn [negb andb]; [|destruct r; cbn in *; [discriminate|reflexivity]].
    destruct (cm_bytes k =? blen_bytes mb); cbn [negb andb]; [|destruct r; cbn in *; [discriminate|reflexivity]].
    destruct (bytes_eqb (cm_sha k) sha); cbn [negb andb]; [|destruct r; cbn in *; [discriminate|reflexivity]].
    destruct rawm as [m|]; [|destruct r; cbn in *; [discriminate|reflexivity]].
    destruct (validate_archive_manifest m); cbn [is_none andb];
      [destruct r; cbn in *; [discriminate|reflexivity]|].
    destruct (canon_archive_bytes m mb); destruct r; cbn in *; try discriminate; reflexivity.
  - (* CNewMarker *)
    unfold c_new_marker, new_complete_marker, load_archive_manifest in *.
    destruct rawm as [m|]; [|destruct r; cbn in *; [discriminate|reflexivity]].
    destruct (validate_archive_manifest m); cbn [is_none andb];
      [destruct r; cbn in *; [discriminate|reflexivity]|].
    destruct (canon_archive_bytes m mb); destruct r as [k|e]; cbn [res_eqb] in M; try discriminate; cbn [negb andb];
      [|reflexivity].
    apply complete_marker_eqb_eq in M. subst k. rewrite complete_marker_eqb_refl. reflexivity.
  - (* CMarshalArchive *)
    unfold marshal_archive_manifest, canon_archive_bytes in *.
    destruct (validate_archive_manifest m); destruct r; cbn [res_eqb is_none negb andb] in *; try discriminate;
      try reflexivity. rewrite M. reflexivity.
  - unfold marshal_slot_manifest_bytes, canon_slot_bytes in *.
    destruct (validate_slot_manifest m); cbn [is_none negb andb orb].
    + destruct r; cbn [res_eqb] in *; try discriminate; reflexivity.
    + destruct (MaxSlotManifestBytes <? blen_bytes (enc_slot_manifest_bytes m));
        destruct r; cbn [res_eqb] in *; try discriminate; try reflexivity. rewrite M. reflexivity.
  - unfold marshal_msg_manifest_bytes, canon_msg_bytes in *.
    destruct (validate_message_chunk_manifest m); cbn [is_none negb andb orb].
    + destruct r; cbn [res_eqb] in *; try discriminate; reflexivity.
    + destruct (MaxSlotManifestBytes <? blen_bytes (enc_msg_manifest_bytes m));
        destruct r; cbn [res_eqb] in *; try discriminate; try reflexivity. rewrite M. reflexivity.
  - unfold marshal_complete_marker, canon_marker_bytes in *.
    destruct (validate_complete_marker m); destruct r; cbn [res_eqb is_none negb andb] in *; try discriminate;
      try reflexivity. rewrite M. reflexivity.
  - unfold marshal_repository_marker, canon_repo_bytes in *.
    destruct (validate_repository_marker m); destruct r; cbn [res_eqb is_none negb andb] in *; try discriminate;
      try reflexivity. rewrite M. reflexivity.
  - (* CNewMsg *)
    unfold new_message_chunk_manifest in M.
    match type of M with context [validate_message_chunk_manifest ?x] => set (m0 := x) in * end.
    destruct (validate_message_chunk_manifest m0) eqn:V; destruct r as [m'|e']; cbn [res_eqb] in M; try discriminate;
      try reflexivity.
    apply msg_manifest_eqb_eq in M. subst m'. rewrite V. cbn [is_none andb mm_hash_slot mm_chunks m0].
    rewrite N.eqb_refl, (list_eqb_refl _ chunk_ref_eqb_refl). reflexivity.
  - reflexivity.
  - reflexivity.
  - reflexivity.
  - reflexivity.
  - (* CDecodeChunk *)
    unfold decode_chunk in M.
    destruct (validate_chunk_descriptor d); cbn [negb andb];
      [|destruct r; cbn in *; [discriminate|reflexivity]].
    destruct unz as [[ll lh]|]; [|destruct r; cbn in *; [discriminate|reflexivity]].
    destruct (len =? cd_stored_bytes d); cbn [negb orb andb]; [|destruct r; cbn in *; [discriminate|reflexivity]].
    destruct (bytes_eqb sha (cd_stored_sha d)); cbn [negb orb andb]; [|destruct r; cbn in *; [discriminate|reflexivity]].
    destruct (ll =? cd_logical_bytes d); cbn [negb orb andb]; [|destruct r; cbn in *; [discriminate|reflexivity]].
    destruct (bytes_eqb lh (cd_logical_sha d)); destruct r; cbn in *; try discriminate; reflexivity.
Qed.

(* ---- the table instance ----------------------------------------------------------------------- *)
Section Table.
  Variable tbl : list body_info.

  Lemma find_body_spec p : forall l i,
    (exists x, nth_error l (N.to_nat (find_body p i l - i)) = Some x /\ p x = true /\ find_body p i l - i < N.of_nat (length l))
    \/ find_body p i l = i + N.of_nat (length l).
  Proof.
    induction l as [|x l IH]; intro i; [right; cbn; lia|].
    cbn [find_body]. destruct (p x) eqn:Px.
    - left. exists x. rewrite N.sub_diag. split; [reflexivity|]. split; [exact Px|]. cbn [length]. rewrite Nat2N.inj_succ. lia.
    - destruct (IH (i + 1)) as [(y & Hn & Hp & Hlt)|E].
      + left. exists y.
        assert (Hge : i + 1 <= find_body p (i + 1) l).
        { clear. revert i. induction l as [|z l IH]; intro i; cbn [find_body]; [lia|].
          destruct (p z); [lia|]. specialize (IH (i + 1)). lia. }
        replace (find_body p (i + 1) l - i) with (N.succ (find_body p (i + 1) l - (i + 1))) by lia.
        rewrite N2Nat.inj_succ. cbn [nth_error length]. rewrite Nat2N.inj_succ. repeat split; auto; lia.
      + right. rewrite E. cbn [length]. rewrite Nat2N.inj_succ. lia.
  Qed.

  Lemma info_nth_error b x : nth_error tbl (N.to_nat b) = Some x -> info tbl b = x.
  Proof. intro E. unfold info. apply nth_error_nth. exact E. Qed.

  Lemma info_overflow b : N.of_nat (length tbl) <= b -> info tbl b = BRaw 0 [].
  Proof. intro E. unfold info. apply nth_overflow. lia. Qed.

  Lemma id_enc_archive_inv m m' :
    id_json_archive tbl (id_enc_archive tbl m) = Some m' ->
    id_canon_archive tbl m' (id_enc_archive tbl m) = true -> m' = m.
  Proof.
    unfold id_json_archive, id_canon_archive, id_enc_archive.
    match goal with |- context [find_body ?p 0 tbl] => destruct (find_body_spec p tbl 0) as [(x & Hn & Hp & _)|E] end.
    - rewrite N.sub_0_r in Hn. rewrite (info_nth_error _ _ Hn).
      destruct (bi_arch x) as [[m'' c]|]; [|discriminate]. destruct c; [|discriminate].
      apply archive_manifest_eqb_eq in Hp. subst m''. cbn. intro E. inversion E. reflexivity.
    - rewrite E, info_overflow by lia. cbn. discriminate.
  Qed.

  Lemma marker_faithful_id k :
    tbl_wf tbl = true -> id_enc_marker tbl k < N.of_nat (length tbl) ->
    marker_faithful N (id_blen tbl) (id_json_marker tbl) (id_canon_marker tbl) (id_enc_marker tbl) k.
  Proof.
    intros Hwf Hlt. unfold marker_faithful, id_json_marker, id_canon_marker, id_blen, id_enc_marker in *.
    match goal with |- context [find_body ?p 0 tbl] => destruct (find_body_spec p tbl 0) as [(x & Hn & Hp & _)|E] end.
    - rewrite N.sub_0_r in Hn. rewrite (info_nth_error _ _ Hn).
      destruct (bi_marker x) as [[k' c]|] eqn:Bm; [|discriminate]. destruct c; [|discriminate].
      apply complete_marker_eqb_eq in Hp. subst k'. cbn [option_map fst].
      unfold tbl_wf in Hwf. rewrite forallb_forall in Hwf.
      specialize (Hwf x (nth_error_In _ _ Hn)). rewrite Bm in Hwf.
      apply andb_true_iff in Hwf. destruct Hwf as [H1 H2]. apply N.ltb_lt in H1. apply N.leb_le in H2.
      repeat split; auto.
    - exfalso. rewrite E in Hlt. lia.
  Qed.

  Local Notation st_t := (store N).
  Local Notation getN := (get N).

  (* ---- stores built by puts ------------------------------------------------------------------ *)
  Lemma apply_puts_rev : forall puts (st : st_t), apply_puts puts st = rev (map entry_of puts) ++ st.
  Proof.
    induction puts as [|[[k b] sz] puts IH]; intro st; [reflexivity|].
    cbn [apply_puts fold_left map rev]. fold (apply_puts puts (put N k b sz st)). rewrite IH.
    unfold put, entry_of. cbn [fst snd]. rewrite <- app_assoc. reflexivity.
  Qed.

  Lemma entry_eqb_eq a b : entry_eqb a b = true -> a = b.
  Proof.
    destruct a as [ka [[ba sa]|]], b as [kb [[bb sb]|]]; unfold entry_eqb; cbn [fst snd option_eqb]; intro E;
      apply andb_true_iff in E; destruct E as [E1 E2]; apply bytes_eqb_eq in E1; subst; try discriminate; [|reflexivity].
    apply andb_true_iff in E2. destruct E2 as [E2 E3]. apply N.eqb_eq in E2. apply N.eqb_eq in E3. subst. reflexivity.
  Qed.

  Lemma puts_match_store (st : st_t) news puts :
    puts_match st (news ++ st) puts = true -> apply_puts puts st = news ++ st.
  Proof.
    unfold puts_match. rewrite app_length, Nat.add_sub.
    rewrite firstn_app, Nat.sub_diag, firstn_all. cbn [firstn]. rewrite app_nil_r.
    intro E. apply (list_eqb_eq _ entry_eqb_eq) in E. rewrite apply_puts_rev, E. reflexivity.
  Qed.
End Table.

(* ---- archive steps ------------------------------------------------------------------------------ *)
Section Steps.
  Variable tbl : list body_info.
  Hypothesis Hwf : tbl_wf tbl = true.
  Local Notation st_t := (store N).
  Local Notation getN := (get N).

  Lemma res_eqb2_ok_inv {A B} (eqb : A -> B -> bool) (x : res A) (b : B) :
    res_eqb2 eqb x (Ok b) = true -> exists a, x = Ok a /\ eqb a b = true.
  Proof. destruct x as [a|e]; cbn [res_eqb2]; intro E; [exists a; auto|discriminate]. Qed.

  Lemma opt_eqb_some {A} (eqb : A -> A -> bool) (o : option A) (m : A) :
    opt_eqb eqb o m = true -> exists x, o = Some x /\ eqb x m = true.
  Proof. destruct o as [x|]; cbn [opt_eqb]; intro E; [exists x; auto|discriminate]. Qed.

  Lemma read_consumed_le (st : st_t) key maxb : read_consumed tbl st key maxb <= maxb + 1.
  Proof.
    unfold read_consumed, read_pulled. destruct (getN st key) as [[b sz]|]; [|lia].
    destruct ((sz =? 0) || (maxb <? sz)); [lia|]. apply N.le_min_r.
  Qed.

  Lemma get_app_in (news st : st_t) k v :
    getN (news ++ st) k = Some v -> getN st k = None -> In (k, Some v) news.
  Proof.
    induction news as [|[k' o] news IH]; cbn [app Archive.get]; intros G Gn; [rewrite G in Gn; discriminate|].
    destruct (bytes_eqb k' k) eqn:E.
    - apply bytes_eqb_eq in E. subst. left. reflexivity.
    - right. apply IH; assumption.
  Qed.

  Lemma slot_answer st id hs key v ref sm k :
    load_stored_slot_at_key N (id_blen tbl) (id_H tbl) (id_unz tbl) (id_json_slot tbl) (id_canon_slot tbl)
                            st id hs key v = Ok (ref, sm) ->
    id_json_slot tbl k = Some sm ->
    slot_answer_ok tbl st id hs key v ref k = true.
  Proof.
    intros E Jk. apply at_key_ok in E. destruct E as (b & Hh & Hl & Hhs & Href & Hv).
    unfold slot_answer_ok, a_honest, a_load_slot_manifest, a_chunk_consistentb. rewrite Hh, Hl, Jk.
    rewrite slot_manifest_eqb_refl, Hhs, N.eqb_refl, Href, slot_ref_eqb_refl. cbn [andb].
    destruct v; cbn [negb orb]; [apply Hv; reflexivity|reflexivity].
  Qed.

  Theorem astep_agree_monitor (st : st_t) o :
    aop_ids_ok (N.of_nat (length tbl)) o = true ->
    astep_mismatch tbl st o = false -> astep_monitor tbl st o = 0.
  Proof.
    intros Hids M. unfold astep_mismatch in M. apply negb_false_iff' in M.
    destruct o as [key b sz|key|key maxb r consumed|id r|id r|id hs v r|id e v r|id key sha r
                   |cluster now r puts|rq r puts]; cbn [astep_monitor]; try reflexivity.
    - (* ARead *)
      apply andb_true_iff in M. destruct M as [M1 M2]. apply N.eqb_eq in M2. subst consumed.
      assert (Hle : (read_consumed tbl st key maxb <=? maxb + 1) = true) by (apply N.leb_le, read_consumed_le).
      rewrite Hle. cbn [negb].
      destruct r as [b|e]; [|reflexivity].
      unfold a_read in M1. destruct (read_stored_object N (id_blen tbl) st key maxb) as [b'|e] eqn:R; [|discriminate].
      cbn [res_eqb] in M1. apply N.eqb_eq in M1. subst b'.
      apply read_ok_iff in R. apply honest_get in R. destruct R as (G & Hp & Hl). rewrite G.
      rewrite !N.eqb_refl. apply N.ltb_lt in Hp. apply N.leb_le in Hl. rewrite Hp, Hl. reflexivity.
    - (* AVerify *)
      destruct r as [k|e].
      + apply res_eqb2_ok_inv in M. destruct M as (m & V & E).
        apply opt_eqb_some in E. destruct E as (m' & J & E). apply archive_manifest_eqb_eq in E. subst m'.
        rewrite J. unfold a_verify in V. apply verify_sound in V. unfold a_consistentb. rewrite V. reflexivity.
      + destruct (a_stored_manifest tbl st id) as [m|] eqn:S; [|reflexivity].
        destruct (a_consistentb tbl st id m) eqn:C; [|reflexivity].
        unfold a_consistentb in C. apply verify_complete in C. unfold a_verify in M. rewrite C in M. discriminate.
    - (* ASlot *)
      destruct r as [[ref k]|e]; [|reflexivity].
      apply res_eqb2_ok_inv in M. destruct M as ([ref0 sm] & S & E). cbn [fst snd] in E.
      apply andb_true_iff in E. destruct E as [E1 E2]. apply slot_ref_eqb_eq in E1. subst ref0.
      apply opt_eqb_some in E2. destruct E2 as (sm' & J & E2). apply slot_manifest_eqb_eq in E2. subst sm'.
      unfold a_slot, load_stored_slot in S.
      destruct (DefaultHashSlotCount <=? hs) eqn:Eh; [discriminate|]. apply N.leb_gt in Eh.
      assert (Hlt : (hs <? DefaultHashSlotCount) = true) by (apply N.ltb_lt; exact Eh). rewrite Hlt.
      rewrite (slot_answer _ _ _ _ _ _ _ _ S J). reflexivity.
    - (* ASlotRef *)
      destruct r as [[ref k]|e0]; [|reflexivity].
      apply res_eqb2_ok_inv in M. destruct M as ([ref0 sm] & S & E). cbn [fst snd] in E.
      apply andb_true_iff in E. destruct E as [E1 E2]. apply slot_ref_eqb_eq in E1. subst ref0.
      apply opt_eqb_some in E2. destruct E2 as (sm' & J & E2). apply slot_manifest_eqb_eq in E2. subst sm'.
      unfold a_slotref, load_stored_slot_reference in S.
      destruct ((DefaultHashSlotCount <=? sr_hash_slot e) || negb (validate_slot_manifest_key (sr_hash_slot e) (sr_key e))
                || negb (validate_sha256 (sr_sha e))); [discriminate|].
      destruct (load_stored_slot_at_key N (id_blen tbl) (id_H tbl) (id_unz tbl) (id_json_slot tbl) (id_canon_slot tbl)
                  st id (sr_hash_slot e) (sr_key e) v) as [[a0 m0]|e1] eqn:A; [|discriminate].
      destruct (slot_ref_eqb a0 e) eqn:Ea; [|discriminate]. inversion S; subst a0 m0.
      rewrite Ea. rewrite (slot_answer _ _ _ _ _ _ _ _ A J). reflexivity.
    - (* AMsgIdx *)
      destruct r as [k|e]; [|reflexivity].
      apply res_eqb2_ok_inv in M. destruct M as (m & S & E).
      apply opt_eqb_some in E. destruct E as (m' & J & E). apply msg_manifest_eqb_eq in E. subst m'.
      unfold a_msgidx, load_stored_message_chunk_manifest in S.
      destruct (negb (validate_sha256 sha) || negb (validate_repository_key (root_of id ++ key))); [discriminate|].
      destruct (read_stored_object N (id_blen tbl) st (root_of id ++ key) MaxSlotManifestBytes) as [b|e] eqn:R; [|discriminate].
      destruct (negb (bytes_eqb (id_H tbl b) sha)) eqn:Hs; [discriminate|]. apply negb_false_iff' in Hs.
      apply read_ok_iff in R. unfold a_honest, a_load_msg. rewrite R, S, J, msg_manifest_eqb_refl, Hs. reflexivity.
    - (* APublish *)
      destruct r as [k|e]; [|reflexivity].
      destruct (a_publish tbl st rq) as [st' r'] eqn:P.
      apply andb_true_iff in M. destruct M as [M1 M2].
      apply res_eqb2_ok_inv in M1. destruct M1 as (m & Er & E). subst r'.
      apply opt_eqb_some in E. destruct E as (m' & J & E). apply archive_manifest_eqb_eq in E. subst m'.
      unfold a_publish in P.
      pose proof (publish_extends _ _ _ _ _ _ _ _ _ _ _ _ _ _ _ _ _ _ _ _ P) as X.
      apply extends_news in X. destruct X as (news & Est & Hnews & _). subst st'.
      pose proof (puts_match_store st news puts M2) as Eap.
      assert (Enews : news = rev (map entry_of puts)).
      { rewrite apply_puts_rev in Eap. apply app_inv_tail in Eap. symmetry. exact Eap. }
      (* every write went to a key that was absent *)
      assert (Habs : forallb (fun p => match getN st (fst (fst p)) with None => true | Some _ => false end) puts = true).
      { apply forallb_forall. intros p Hp. rewrite Forall_forall in Hnews.
        destruct (Hnews (entry_of p)) as (G & _); [rewrite Enews; apply in_rev; rewrite rev_involutive; apply in_map; exact Hp|].
        unfold entry_of in G. cbn [fst] in G. rewrite G. reflexivity. }
      rewrite Habs. cbn [negb].
      destruct (getN st (corrupt_key (pr_id rq))) eqn:Gc; [reflexivity|].
      rewrite J, Eap. unfold a_consistentb.
      rewrite (published_consistent N (id_blen tbl) (id_H tbl) (id_unz tbl) (id_json_archive tbl) (id_json_slot tbl)
                 (id_json_marker tbl) (id_json_repo tbl) (id_canon_archive tbl) (id_canon_slot tbl) (id_canon_marker tbl)
                 (id_canon_repo tbl) (id_enc_archive tbl) (id_enc_marker tbl) (id_enc_repo tbl) N.eqb
                 (fun a b E => proj1 (N.eqb_eq a b) E) (id_enc_archive_inv tbl) st rq (news ++ st) m P Gc); [reflexivity|].
      intros k0 Gk0 Gk1 Vk Hle. apply marker_faithful_id; [exact Hwf|].
      (* the COMPLETE object is one of the observed writes, whose body ids are in range *)
      apply get_app_in in Gk1; [|exact Gk0].
      rewrite Enews in Gk1. apply in_rev in Gk1. apply in_map_iff in Gk1.
      destruct Gk1 as (p & Ep & Hp). cbn [aop_ids_ok] in Hids. rewrite forallb_forall in Hids.
      specialize (Hids p Hp). apply N.ltb_lt in Hids. unfold entry_of in Ep.
      assert (Hx : snd (fst p) = id_enc_marker tbl k0) by congruence.
      rewrite <- Hx. exact Hids.
  Qed.

  Theorem arun_agree_monitor : forall ops (st : st_t),
    forallb (aop_ids_ok (N.of_nat (length tbl))) ops = true ->
    arun_mismatch tbl st ops = false -> arun_monitor tbl st ops = 0.
  Proof.
    induction ops as [|o ops IH]; intros st Hids M; [reflexivity|].
    cbn [forallb] in Hids. apply andb_true_iff in Hids. destruct Hids as [H1 H2].
    cbn [arun_mismatch] in M. apply orb_false_iff in M. destruct M as [M1 M2].
    cbn [arun_monitor]. rewrite (astep_agree_monitor st o H1 M1). apply IH; assumption.
  Qed.
End Steps.

(* whenever the implementation's answers agree with the model on a case, the monitor holds *)
Theorem agree_monitor c : C38_mismatch c = false -> C38_monitor c = 0.
Proof.
  destruct c as [ops|tbl ops]; cbn [C38_mismatch C38_monitor]; intro M.
  - induction ops as [|o ops IH]; [reflexivity|]. cbn [existsb] in M. apply orb_false_iff in M. destruct M as [M1 M2].
    cbn [first_code]. rewrite (codec_agree_monitor o M1). apply IH. exact M2.
  - apply orb_false_iff in M. destruct M as [W M]. apply negb_false_iff' in W. unfold case_wf in W.
    apply andb_true_iff in W. destruct W as [W1 W2]. apply arun_agree_monitor; assumption.
Qed.
