(* Proof/CtrlFSM_handlers.v — the handler contract of Proof/CtrlFSM_frame.v discharged for the
   transcribed applyMutation (Model/CtrlFSM.v).

   Good s := Validate s /\ Normalize s = s /\ s_rev s < 2^64.
   For every handler and every command:
     - on a state with revision 0 it returns the state unchanged with a Noop/Rejected result
       (applyInit excepted: it may return the validated, normalized initial state, Changed);
     - on a Good state the outcome is Noop/Rejected with the state untouched, or Changed
       through validateChanged (revision + 1, validated, normalized), or Updated
       (applyReportNodeHealth: same revision, validated, only the health reports differ);
     - it never reads the checksum field ([*_ck] lemmas). *)
From WK Require Import Base.Base.
From WK Require Import Gen.Consts_C18 Model.CtrlFSM Proof.CtrlFSM_norm Proof.CtrlFSM_getset.
From Coq Require Import ZifyBool ZifyN ZifyNat.
Open Scope N_scope.

Definition two64 : N := 18446744073709551616.

Definition Good (s : CState) : Prop := Validate s = true /\ Normalize s = s /\ s_rev s < two64.

(* equal but for applied index and checksum; equal but for those and the health reports *)
Definition body_eq (a b : CState) : bool := CState_body_eqb (set_applied a 0) (set_applied b 0).
Definition logical_eq (a b : CState) : bool :=
  CState_body_eqb (set_health (set_applied a 0) []) (set_health (set_applied b 0) []).

Lemma Validate_rev s : Validate s = true -> s_rev s <> 0.
Proof.
  unfold Validate, validate_normalized. intro H.
  repeat (apply andb_true_iff in H; destruct H as [H ?]).
  rewrite s_rev_Normalize in *. lia.
Qed.

Lemma Good_rev s : Good s -> s_rev s <> 0.
Proof. intros (V & _ & _). apply Validate_rev. exact V. Qed.

(* ---- outcomes --------------------------------------------------------------------- *)

Definition post_ok (s s' : CState) (r : Result) : Prop :=
  Good s' /\ s_applied s' = s_applied s
  /\ (((r_class r = cNoop \/ r_class r = cRejected) /\ s' = s)
      \/ (r_class r = cChanged /\ s_rev s' = s_rev s + 1)
      \/ (r_class r = cUpdated /\ s_rev s' = s_rev s /\ logical_eq s' s = true)).

Definition pre_ok (s s' : CState) (r : Result) : Prop :=
  s' = s /\ (r_class r = cNoop \/ r_class r = cRejected).

(* what a handler must satisfy on state s *)
Definition ok (s : CState) (p : CState * Result) : Prop :=
  (s_rev s = 0 -> pre_ok s (fst p) (snd p)) /\ (Good s -> post_ok s (fst p) (snd p)).

Lemma ok_reject s x : ok s (s, reject x).
Proof.
  split; intro H; cbn [fst snd].
  - split; [reflexivity|right; reflexivity].
  - split; [exact H|]. split; [reflexivity|]. left. split; [right; reflexivity|reflexivity].
Qed.

Lemma ok_noop s x : ok s (s, noop x).
Proof.
  split; intro H; cbn [fst snd].
  - split; [reflexivity|left; reflexivity].
  - split; [exact H|]. split; [reflexivity|]. left. split; [left; reflexivity|reflexivity].
Qed.

(* an outcome that is only reachable with revision <> 0 *)
Lemma ok_post s p : s_rev s <> 0 -> (Good s -> post_ok s (fst p) (snd p)) -> ok s p.
Proof. intros Hr H. split; [intro E; contradiction|exact H]. Qed.

Lemma post_noop_same s n x : Good s -> n = s -> post_ok s n (noop x).
Proof.
  intros Hg ->. split; [exact Hg|]. split; [reflexivity|]. left. split; [left; reflexivity|reflexivity].
Qed.

Lemma wrap64_succ_lt x : wrap64_succ x < two64.
Proof. unfold wrap64_succ, wrap64, two64. apply N.mod_lt. discriminate. Qed.

Lemma wrap64_succ_nz x : x < two64 -> wrap64_succ x <> 0 -> wrap64_succ x = x + 1.
Proof.
  unfold wrap64_succ, wrap64, two64. intros Hx Hnz.
  destruct (N.eq_dec (x + 1) 18446744073709551616) as [E|E].
  - exfalso. apply Hnz. rewrite E. apply N.mod_same. discriminate.
  - apply N.mod_small. lia.
Qed.

(* validateChanged on a normalized candidate that kept revision and applied index *)
Lemma post_validateChanged next n cmd :
  Good next -> Normalize n = n -> s_rev n = s_rev next -> s_applied n = s_applied next ->
  post_ok next (fst (validateChanged n next cmd)) (snd (validateChanged n next cmd)).
Proof.
  intros Hg Hn Hr Ha. unfold validateChanged.
  set (n' := set_updated (set_rev n (wrap64_succ (s_rev n))) (nextUpdatedAt (s_updated next) (k_issued cmd))).
  destruct (Validate n') eqn:V; cbn [fst snd].
  - assert (Hrev : s_rev n' = wrap64_succ (s_rev next)) by (subst n'; autorewrite with getset; rewrite Hr; reflexivity).
    assert (Hnz : s_rev n' <> 0) by (apply Validate_rev; exact V).
    destruct Hg as (_ & _ & Hlt).
    split.
    + split; [exact V|]. split.
      * subst n'. rewrite Normalize_set_updated, Normalize_set_rev, Hn. reflexivity.
      * rewrite Hrev. apply wrap64_succ_lt.
    + split; [subst n'; autorewrite with getset; exact Ha|].
      right; left. split; [reflexivity|]. rewrite Hrev. apply wrap64_succ_nz; [exact Hlt|]. rewrite <- Hrev. exact Hnz.
  - split; [exact Hg|]. split; [reflexivity|]. left. split; [right; reflexivity|reflexivity].
Qed.

(* the shape shared by the upsert / replace handlers:
   n := Normalize (mutated next); if the touched fields are unchanged then no-op else validateChanged *)
Lemma post_upsert next n cmd (same : bool) :
  Good next -> Normalize n = n -> s_rev n = s_rev next -> s_applied n = s_applied next ->
  (same = true -> n = next) ->
  let p := if same then (n, noop ReasonNoChange) else validateChanged n next cmd in
  post_ok next (fst p) (snd p).
Proof.
  intros Hg Hn Hr Ha Hs. cbv zeta. destruct same.
  - cbn [fst snd]. apply post_noop_same; [exact Hg|apply Hs; reflexivity].
  - apply post_validateChanged; assumption.
Qed.

(* ---- the handlers --------------------------------------------------------------------- *)

Ltac rev0 E := let H := fresh in intro H; rewrite H in E; discriminate E.

Lemma applyUpsertNode_ok s cmd : ok s (applyUpsertNode s cmd).
Proof.
  unfold applyUpsertNode. destruct (k_node cmd) as [node|]; [|apply ok_reject].
  destruct (s_rev s =? 0) eqn:E; [apply ok_reject|].
  apply ok_post; [lia|]. intro Hg.
  apply (post_upsert s (Normalize (upsertNode s node)) cmd); try assumption; try reflexivity.
  - apply Normalize_idem.
  - intro Heq. apply (list_eqb_spec Node_eqb Node_eqb_eq) in Heq.
    destruct Hg as (_ & Hn & _). unfold upsertNode in *. rewrite Normalize_set_nodes, Hn in *.
    autorewrite with getset in Heq. rewrite <- Heq. apply set_nodes_id.
Qed.

Lemma applyUpdateControllerVoters_ok s cmd : ok s (applyUpdateControllerVoters s cmd).
Proof.
  unfold applyUpdateControllerVoters.
  destruct (s_rev s =? 0) eqn:E; [apply ok_reject|].
  apply ok_post; [lia|]. intro Hg.
  apply (post_upsert s (Normalize (set_controllers s (k_controllers cmd))) cmd); try assumption; try reflexivity.
  - apply Normalize_idem.
  - intro Heq. apply (list_eqb_spec Voter_eqb Voter_eqb_eq) in Heq.
    destruct Hg as (_ & Hn & _). rewrite Normalize_set_controllers, Hn in *.
    autorewrite with getset in Heq. rewrite <- Heq. apply set_controllers_id.
Qed.

Lemma applyReplaceHashSlotTable_ok s cmd : ok s (applyReplaceHashSlotTable s cmd).
Proof.
  unfold applyReplaceHashSlotTable. destruct (k_hashslots cmd) as [t|]; [|apply ok_reject].
  destruct (s_rev s =? 0) eqn:E; [apply ok_reject|].
  apply ok_post; [lia|]. intro Hg.
  apply (post_upsert s (Normalize (set_hashslots s t)) cmd); try assumption; try reflexivity.
  - apply Normalize_idem.
  - intro Heq. apply HTable_eqb_eq in Heq.
    destruct Hg as (_ & Hn & _). rewrite Normalize_set_hashslots, Hn in *.
    autorewrite with getset in Heq. rewrite <- Heq. apply set_hashslots_id.
Qed.

Lemma applyReplaceScheduledBackupState_ok s cmd : ok s (applyReplaceScheduledBackupState s cmd).
Proof.
  unfold applyReplaceScheduledBackupState. destruct (k_sb cmd) as [b|]; [|apply ok_reject].
  destruct (s_rev s =? 0) eqn:E; [apply ok_reject|].
  apply ok_post; [lia|]. intro Hg.
  apply (post_upsert s (Normalize (set_sb s (Some b))) cmd); try assumption; try reflexivity.
  - apply Normalize_idem.
  - intro Heq. apply (option_eqb_eq SBlob_eqb SBlob_eqb_eq) in Heq.
    destruct Hg as (_ & Hn & _). rewrite Normalize_set_sb, Hn in *.
    autorewrite with getset in Heq. rewrite <- Heq. apply set_sb_id.
Qed.

Lemma applyReplaceOpsMCPState_ok s cmd : ok s (applyReplaceOpsMCPState s cmd).
Proof.
  unfold applyReplaceOpsMCPState. destruct (k_ops cmd) as [b|]; [|apply ok_reject].
  destruct (s_rev s =? 0) eqn:E; [apply ok_reject|].
  match goal with |- context [if ?c then (s, reject _) else _] => destruct c; [apply ok_reject|] end.
  apply ok_post; [lia|]. intro Hg.
  apply (post_upsert s (Normalize (set_ops s (Some b))) cmd); try assumption; try reflexivity.
  - apply Normalize_idem.
  - intro Heq. apply (option_eqb_eq OBlob_eqb OBlob_eqb_eq) in Heq.
    destruct Hg as (_ & Hn & _). rewrite Normalize_set_ops, Hn in *.
    autorewrite with getset in Heq. rewrite <- Heq. apply set_ops_id.
Qed.

Lemma applyUpsertSlotAssignmentAndTask_ok s cmd : ok s (applyUpsertSlotAssignmentAndTask s cmd).
Proof.
  unfold applyUpsertSlotAssignmentAndTask.
  destruct (k_assign cmd) as [a|]; [|apply ok_reject]. destruct (k_task cmd) as [t|]; [|apply ok_reject].
  destruct (s_rev s =? 0) eqn:E; [apply ok_reject|].
  destruct (negb (t_slot t =? sa_slot a)); [apply ok_reject|].
  apply ok_post; [lia|]. intro Hg.
  apply (post_upsert s (Normalize (upsertTask (upsertAssignment s a) t)) cmd); try assumption; try reflexivity.
  - apply Normalize_idem.
  - intro Heq. apply andb_true_iff in Heq. destruct Heq as [H1 H2].
    apply (list_eqb_spec Assign_eqb Assign_eqb_eq) in H1. apply (list_eqb_spec Task_eqb Task_eqb_eq) in H2.
    destruct Hg as (_ & Hn & _). unfold upsertTask, upsertAssignment in *.
    rewrite Normalize_set_tasks, Normalize_set_slots, Hn in *.
    autorewrite with getset in H1, H2. autorewrite with getset. rewrite <- H1, <- H2.
    rewrite set_slots_id. apply set_tasks_id.
Qed.

Lemma applyUpsertSlotReplicaMoveTask_ok s cmd : ok s (applyUpsertSlotReplicaMoveTask s cmd).
Proof.
  unfold applyUpsertSlotReplicaMoveTask. destruct (k_task cmd) as [t|]; [|apply ok_reject].
  destruct (s_rev s =? 0) eqn:E; cbn [orb]; [apply ok_reject|].
  destruct (negb (bytes_eqb (t_kind t) TaskKindSlotReplicaMove)); [apply ok_reject|].
  apply ok_post; [lia|]. intro Hg.
  apply (post_upsert s (Normalize (upsertTask s t)) cmd); try assumption; try reflexivity.
  - apply Normalize_idem.
  - intro Heq. apply (list_eqb_spec Task_eqb Task_eqb_eq) in Heq.
    destruct Hg as (_ & Hn & _). unfold upsertTask in *. rewrite Normalize_set_tasks, Hn in *.
    autorewrite with getset in Heq. rewrite <- Heq. apply set_tasks_id.
Qed.

(* ---- handlers with fences: every guard returns the state untouched ------------------------ *)

Lemma ok_same s r : r_class r = cNoop \/ r_class r = cRejected -> ok s (s, r).
Proof.
  intro Hc. split; intro H; cbn [fst snd].
  - split; [reflexivity|exact Hc].
  - split; [exact H|]. split; [reflexivity|]. left. split; [exact Hc|reflexivity].
Qed.

Lemma taskResultGuard_class t tr :
  hasApplyOutcome (taskResultGuard t tr) = true ->
  r_class (taskResultGuard t tr) = cNoop \/ r_class (taskResultGuard t tr) = cRejected.
Proof.
  unfold taskResultGuard.
  repeat match goal with |- context [if ?c then _ else _] => destruct c end;
    cbn; intro H; auto; discriminate.
Qed.

Lemma taskProgressGuard_class t tp :
  hasApplyOutcome (taskProgressGuard t tp) = true ->
  r_class (taskProgressGuard t tp) = cNoop \/ r_class (taskProgressGuard t tp) = cRejected.
Proof.
  unfold taskProgressGuard.
  repeat match goal with |- context [if ?c then _ else _] => destruct c end;
    cbn; intro H; auto; discriminate.
Qed.

Ltac split_guards :=
  repeat (cbv zeta;
          match goal with
          | |- ok _ (if ?c then _ else _) => destruct c eqn:?
          | |- ok _ (match ?x with Some _ => _ | None => _ end) => destruct x eqn:?
          end);
  try apply ok_reject; try apply ok_noop.

(* a leaf "validateChanged (Normalize m) s cmd" where m keeps revision and applied index *)
Ltac leaf_vc :=
  apply ok_post; [lia|];
  let Hg := fresh "Hg" in
  intro Hg; apply post_validateChanged; [exact Hg|apply Normalize_idem|reflexivity|reflexivity].

Lemma set_tasks_noop s v :
  Good s -> list_eqb Task_eqb (s_tasks s) (s_tasks (Normalize (set_tasks s v))) = true ->
  Normalize (set_tasks s v) = s.
Proof.
  intros (_ & Hn & _) Heq. apply (list_eqb_spec Task_eqb Task_eqb_eq) in Heq.
  rewrite Normalize_set_tasks, Hn in *. autorewrite with getset in Heq. rewrite <- Heq. apply set_tasks_id.
Qed.

Lemma applyAdvanceSlotReplicaMovePhase_ok s cmd : ok s (applyAdvanceSlotReplicaMovePhase s cmd).
Proof. unfold applyAdvanceSlotReplicaMovePhase. split_guards. leaf_vc. Qed.

Lemma applyCommitSlotReplicaMove_ok s cmd : ok s (applyCommitSlotReplicaMove s cmd).
Proof. unfold applyCommitSlotReplicaMove. split_guards. leaf_vc. Qed.

Lemma applyCompleteTask_ok s cmd : ok s (applyCompleteTask s cmd).
Proof.
  unfold applyCompleteTask. split_guards.
  - apply ok_same. apply taskResultGuard_class. assumption.
  - leaf_vc.
Qed.

Lemma applyFailTask_ok s cmd : ok s (applyFailTask s cmd).
Proof.
  unfold applyFailTask. split_guards.
  - apply ok_same. apply taskResultGuard_class. assumption.
  - leaf_vc.
Qed.

Lemma applyReportTaskProgress_ok s cmd : ok s (applyReportTaskProgress s cmd).
Proof.
  unfold applyReportTaskProgress. split_guards.
  - apply ok_same. apply taskProgressGuard_class. assumption.
  - apply ok_post; [lia|]. intro Hg. cbn [fst snd]. apply post_noop_same; [exact Hg|].
    apply set_tasks_noop; assumption.
  - leaf_vc.
Qed.

Lemma applyPromoteControllerVoter_ok s cmd : ok s (applyPromoteControllerVoter s cmd).
Proof.
  unfold applyPromoteControllerVoter. split_guards.
  - apply ok_post; [lia|]. intro Hg. cbn [fst snd]. apply post_noop_same; [exact Hg|].
    match goal with H : _ && _ = true |- _ => apply andb_true_iff in H; destruct H as [H1 H2] end.
    apply (list_eqb_spec Voter_eqb Voter_eqb_eq) in H1. apply (list_eqb_spec Node_eqb Node_eqb_eq) in H2.
    destruct Hg as (_ & Hn & _).
    rewrite Normalize_set_nodes, Normalize_set_controllers, Hn in *.
    autorewrite with getset in H1, H2. rewrite <- H1, <- H2.
    rewrite set_controllers_id. apply set_nodes_id.
  - leaf_vc.
Qed.

Lemma set_health_set_health s a b : set_health (set_health s a) b = set_health s b.
Proof. reflexivity. Qed.

Lemma applyReportNodeHealth_ok s i cmd : ok s (applyReportNodeHealth s i cmd).
Proof.
  unfold applyReportNodeHealth. split_guards.
  - (* no-op: the stored reports are put back *)
    apply ok_post; [lia|]. intro Hg. cbn [fst snd]. apply post_noop_same; [exact Hg|].
    destruct Hg as (_ & Hn & _). unfold upsertNodeHealthReport.
    rewrite Normalize_set_health, Hn, set_health_set_health. apply set_health_id.
  - (* Updated *)
    apply ok_post; [lia|]. intro Hg. cbn [fst snd].
    destruct Hg as (Hv & Hn & Hlt).
    split.
    + split; [|split].
      * match goal with H : negb (Validate ?n) = false |- _ => destruct (Validate n); [reflexivity|discriminate H] end.
      * apply Normalize_idem.
      * exact Hlt.
    + split; [reflexivity|]. right; right. split; [reflexivity|]. split; [reflexivity|].
      unfold logical_eq, upsertNodeHealthReport. rewrite Normalize_set_health, Hn.
      apply CState_body_eqb_refl.
Qed.

(* ---- applyInit ---------------------------------------------------------------------------------- *)

Lemma initialState_facts i issued idx st :
  initialStateFromCommand i issued idx = Some st ->
  Good st /\ s_rev st = 1 /\ s_applied st = idx.
Proof.
  unfold initialStateFromCommand.
  destruct (BuildInitialHashSlotTable _ _) as [table|]; [|discriminate].
  match goal with |- context [Validate ?x] => destruct (Validate x) eqn:V; [|discriminate] end.
  intro H. inversion H; subst st; clear H.
  split; [|split; reflexivity].
  split; [exact V|]. split; [apply Normalize_idem|].
  rewrite s_rev_Normalize. cbn [s_rev]. reflexivity.
Qed.

(* on a state with revision <> 0 applyInit never changes anything *)
Lemma applyInit_post s idx cmd : Good s -> post_ok s (fst (applyInit s idx cmd)) (snd (applyInit s idx cmd)).
Proof.
  intro Hg. pose proof (Good_rev _ Hg) as Hr. unfold applyInit.
  destruct (k_init cmd) as [i|]; [|apply (proj2 (ok_reject s _) Hg)].
  destruct (initialStateFromCommand i (k_issued cmd) idx) as [initial|]; [|apply (proj2 (ok_reject s _) Hg)].
  rewrite (proj2 (N.eqb_neq _ _) Hr).
  destruct (equivalentInit s initial); [apply (proj2 (ok_noop s _) Hg)|apply (proj2 (ok_reject s _) Hg)].
Qed.

(* on ClusterState{} it either installs the validated initial state or rejects *)
Lemma applyInit_pre idx cmd :
  let s' := fst (applyInit empty_state idx cmd) in
  let r := snd (applyInit empty_state idx cmd) in
  (s_rev s' = 0 -> s' = empty_state /\ (r_class r = cNoop \/ r_class r = cRejected))
  /\ (s_rev s' <> 0 -> r_class r = cChanged /\ s_rev s' = 1 /\ s_applied s' <= idx /\ Good s').
Proof.
  cbv zeta. unfold applyInit.
  destruct (k_init cmd) as [i|]; cbn [fst snd].
  2:{ split; [intros _; split; [reflexivity|right; reflexivity]|intro H; exfalso; apply H; reflexivity]. }
  destruct (initialStateFromCommand i (k_issued cmd) idx) as [initial|] eqn:Ei; cbn [fst snd].
  2:{ split; [intros _; split; [reflexivity|right; reflexivity]|intro H; exfalso; apply H; reflexivity]. }
  destruct (initialState_facts _ _ _ _ Ei) as (Hg & Hr & Ha).
  change (s_rev empty_state =? 0) with true. cbn [fst snd].
  split; [intro H; rewrite Hr in H; discriminate H|].
  intros _. split; [reflexivity|]. split; [exact Hr|]. split; [lia|exact Hg].
Qed.

(* ---- applyMutation -------------------------------------------------------------------------------- *)

Lemma dispatch_ok s idx cmd : ok s (dispatch s idx cmd).
Proof.
  unfold dispatch.
  repeat match goal with |- ok _ (if ?c then _ else _) => destruct c end;
    first [ apply applyUpsertNode_ok | apply applyUpdateControllerVoters_ok | apply applyPromoteControllerVoter_ok
          | apply applyReplaceHashSlotTable_ok | apply applyReplaceScheduledBackupState_ok | apply applyReplaceOpsMCPState_ok
          | apply applyUpsertSlotAssignmentAndTask_ok | apply applyUpsertSlotReplicaMoveTask_ok
          | apply applyAdvanceSlotReplicaMovePhase_ok | apply applyCommitSlotReplicaMove_ok | apply applyCompleteTask_ok
          | apply applyFailTask_ok | apply applyReportTaskProgress_ok | apply applyReportNodeHealth_ok | apply ok_reject ].
Qed.

Lemma guarded_ok s idx cmd : ok s (guarded s idx cmd).
Proof.
  unfold guarded. pose proof (dispatch_ok s idx cmd) as H.
  destruct (dispatch s idx cmd) as [n r]. destruct (r_class r =? cChanged); [|exact H].
  exact H.
Qed.

Lemma option_result_class (o : option Result) (P : Result -> Prop) :
  (forall r, o = Some r -> P r) -> forall r, o = Some r -> P r.
Proof. auto. Qed.

Ltac guard_classes f :=
  unfold f, revision_mismatch;
  repeat match goal with
         | |- context [if ?c then _ else _] => destruct c
         | |- context [match ?x with Some _ => _ | None => _ end] => destruct x
         end;
  intros r H; inversion H; subst; cbn; auto.

Lemma handleBootstrap_class cur cmd r :
  handleBootstrapRevisionMismatch cur cmd = Some r -> r_class r = cNoop \/ r_class r = cRejected.
Proof. revert r. guard_classes handleBootstrapRevisionMismatch. Qed.
Lemma handleLeaderTransfer_class cur cmd r :
  handleLeaderTransferRevisionMismatch cur cmd = Some r -> r_class r = cNoop \/ r_class r = cRejected.
Proof. revert r. guard_classes handleLeaderTransferRevisionMismatch. Qed.
Lemma handleFailTask_class cur cmd r :
  handleFailTaskRevisionMismatch cur cmd = Some r -> r_class r = cNoop \/ r_class r = cRejected.
Proof. revert r. guard_classes handleFailTaskRevisionMismatch. Qed.
Lemma handleTaskProgress_class cur cmd r :
  handleTaskProgressRevisionMismatch cur cmd = Some r -> r_class r = cNoop \/ r_class r = cRejected.
Proof. revert r. guard_classes handleTaskProgressRevisionMismatch. Qed.

Lemma opt_res_ok s (o : option Result) k :
  (forall r, o = Some r -> r_class r = cNoop \/ r_class r = cRejected) ->
  ok s (k tt) -> ok s (opt_res o s k).
Proof.
  intros Hc Hk. unfold opt_res. destruct o as [r|]; [|exact Hk]. apply ok_same. apply Hc. reflexivity.
Qed.

(* every kind but init *)
Lemma applyMutation_ok s idx term cmd :
  bytes_eqb (k_kind cmd) KindInitClusterState = false -> ok s (applyMutation s idx term cmd).
Proof.
  intro Hk. unfold applyMutation. rewrite Hk.
  repeat match goal with
         | |- ok _ (if ?c then _ else _) => destruct c
         | |- ok _ (match ?x with Some _ => _ | None => _ end) => destruct x
         end;
    try apply ok_reject; try apply ok_noop; try apply guarded_ok;
    apply opt_res_ok; try apply guarded_ok.
  - intros r. apply handleBootstrap_class.
  - intros r. apply handleLeaderTransfer_class.
  - intros r. apply handleFailTask_class.
  - intros r. apply handleTaskProgress_class.
Qed.

(* ---- no handler reads the checksum field ------------------------------------------------------------ *)

Definition ckmap (x : bytes) (p : CState * Result) : CState * Result := (set_checksum (fst p) x, snd p).

Lemma validateChanged_ck n b x cmd :
  validateChanged (set_checksum n x) (set_checksum b x) cmd = ckmap x (validateChanged n b cmd).
Proof. unfold validateChanged, ckmap. autorewrite with ckpush. destruct (Validate _); reflexivity. Qed.

Ltac ck_step :=
  first [ progress autorewrite with ckpush
        | progress rewrite ?validateChanged_ck
        | match goal with |- context [match ?x with Some _ => _ | None => _ end] => destruct x end
        | match goal with |- context [if ?c then _ else _] => destruct c end ].

Ltac ck_cases := repeat ck_step; cbn [fst snd]; try reflexivity.

Ltac ck_tac h :=
  unfold h, upsertNode, upsertAssignment, upsertTask, upsertNodeHealthReport, ckmap; cbv zeta; ck_cases.

Lemma applyUpsertNode_ck s x cmd : applyUpsertNode (set_checksum s x) cmd = ckmap x (applyUpsertNode s cmd).
Proof. ck_tac applyUpsertNode. Qed.
Lemma applyUpdateControllerVoters_ck s x cmd : applyUpdateControllerVoters (set_checksum s x) cmd = ckmap x (applyUpdateControllerVoters s cmd).
Proof. ck_tac applyUpdateControllerVoters. Qed.
Lemma applyPromoteControllerVoter_ck s x cmd : applyPromoteControllerVoter (set_checksum s x) cmd = ckmap x (applyPromoteControllerVoter s cmd).
Proof. ck_tac applyPromoteControllerVoter. Qed.
Lemma applyReplaceHashSlotTable_ck s x cmd : applyReplaceHashSlotTable (set_checksum s x) cmd = ckmap x (applyReplaceHashSlotTable s cmd).
Proof. ck_tac applyReplaceHashSlotTable. Qed.
Lemma applyReplaceScheduledBackupState_ck s x cmd : applyReplaceScheduledBackupState (set_checksum s x) cmd = ckmap x (applyReplaceScheduledBackupState s cmd).
Proof. ck_tac applyReplaceScheduledBackupState. Qed.
Lemma applyReplaceOpsMCPState_ck s x cmd : applyReplaceOpsMCPState (set_checksum s x) cmd = ckmap x (applyReplaceOpsMCPState s cmd).
Proof. ck_tac applyReplaceOpsMCPState. Qed.
Lemma applyUpsertSlotAssignmentAndTask_ck s x cmd : applyUpsertSlotAssignmentAndTask (set_checksum s x) cmd = ckmap x (applyUpsertSlotAssignmentAndTask s cmd).
Proof. ck_tac applyUpsertSlotAssignmentAndTask. Qed.
Lemma applyUpsertSlotReplicaMoveTask_ck s x cmd : applyUpsertSlotReplicaMoveTask (set_checksum s x) cmd = ckmap x (applyUpsertSlotReplicaMoveTask s cmd).
Proof. ck_tac applyUpsertSlotReplicaMoveTask. Qed.
Lemma applyAdvanceSlotReplicaMovePhase_ck s x cmd : applyAdvanceSlotReplicaMovePhase (set_checksum s x) cmd = ckmap x (applyAdvanceSlotReplicaMovePhase s cmd).
Proof. ck_tac applyAdvanceSlotReplicaMovePhase. Qed.
Lemma applyCommitSlotReplicaMove_ck s x cmd : applyCommitSlotReplicaMove (set_checksum s x) cmd = ckmap x (applyCommitSlotReplicaMove s cmd).
Proof. ck_tac applyCommitSlotReplicaMove. Qed.
Lemma applyCompleteTask_ck s x cmd : applyCompleteTask (set_checksum s x) cmd = ckmap x (applyCompleteTask s cmd).
Proof. ck_tac applyCompleteTask. Qed.
Lemma applyFailTask_ck s x cmd : applyFailTask (set_checksum s x) cmd = ckmap x (applyFailTask s cmd).
Proof. ck_tac applyFailTask. Qed.
Lemma applyReportTaskProgress_ck s x cmd : applyReportTaskProgress (set_checksum s x) cmd = ckmap x (applyReportTaskProgress s cmd).
Proof. ck_tac applyReportTaskProgress. Qed.
Lemma applyReportNodeHealth_ck s x i cmd : applyReportNodeHealth (set_checksum s x) i cmd = ckmap x (applyReportNodeHealth s i cmd).
Proof. ck_tac applyReportNodeHealth. Qed.

Global Hint Rewrite applyUpsertNode_ck applyUpdateControllerVoters_ck applyPromoteControllerVoter_ck
       applyReplaceHashSlotTable_ck applyReplaceScheduledBackupState_ck applyReplaceOpsMCPState_ck
       applyUpsertSlotAssignmentAndTask_ck applyUpsertSlotReplicaMoveTask_ck applyAdvanceSlotReplicaMovePhase_ck
       applyCommitSlotReplicaMove_ck applyCompleteTask_ck applyFailTask_ck applyReportTaskProgress_ck
       applyReportNodeHealth_ck : hck.

Lemma dispatch_ck s x i cmd : dispatch (set_checksum s x) i cmd = ckmap x (dispatch s i cmd).
Proof. unfold dispatch. autorewrite with hck. unfold ckmap. ck_cases. Qed.

Lemma guarded_ck s x i cmd : guarded (set_checksum s x) i cmd = ckmap x (guarded s i cmd).
Proof.
  unfold guarded. rewrite dispatch_ck. unfold ckmap. destruct (dispatch s i cmd) as [n r]. cbn [fst snd].
  autorewrite with ckpush. destruct (r_class r =? cChanged); reflexivity.
Qed.

Lemma revision_mismatch_ck s x cmd : revision_mismatch (set_checksum s x) cmd = revision_mismatch s cmd.
Proof. reflexivity. Qed.
Lemma handleBootstrap_ck s x cmd : handleBootstrapRevisionMismatch (set_checksum s x) cmd = handleBootstrapRevisionMismatch s cmd.
Proof. reflexivity. Qed.
Lemma handleLeaderTransfer_ck s x cmd : handleLeaderTransferRevisionMismatch (set_checksum s x) cmd = handleLeaderTransferRevisionMismatch s cmd.
Proof. reflexivity. Qed.
Lemma handleFailTask_ck s x cmd : handleFailTaskRevisionMismatch (set_checksum s x) cmd = handleFailTaskRevisionMismatch s cmd.
Proof. reflexivity. Qed.
Lemma handleTaskProgress_ck s x cmd : handleTaskProgressRevisionMismatch (set_checksum s x) cmd = handleTaskProgressRevisionMismatch s cmd.
Proof. reflexivity. Qed.
Lemma isNonBootstrapIdempotent_ck s x cmd : isNonBootstrapIdempotent (set_checksum s x) cmd = isNonBootstrapIdempotent s cmd.
Proof. reflexivity. Qed.
Lemma equivalentInit_ck s x i : equivalentInit (set_checksum s x) i = equivalentInit s i.
Proof. reflexivity. Qed.

(* equal but for the checksum field: states after, and equal results *)
Lemma applyMutation_ck s x i t cmd :
  set_checksum (fst (applyMutation (set_checksum s x) i t cmd)) [] = set_checksum (fst (applyMutation s i t cmd)) []
  /\ snd (applyMutation (set_checksum s x) i t cmd) = snd (applyMutation s i t cmd).
Proof.
  unfold applyMutation.
  rewrite !revision_mismatch_ck, handleBootstrap_ck, handleLeaderTransfer_ck, handleFailTask_ck,
          handleTaskProgress_ck, isNonBootstrapIdempotent_ck, guarded_ck.
  destruct (bytes_eqb (k_kind cmd) KindInitClusterState).
  - unfold applyInit.
    destruct (k_init cmd) as [ic|]; [|split; reflexivity].
    destruct (initialStateFromCommand ic (k_issued cmd) i) as [initial|]; [|split; reflexivity].
    rewrite equivalentInit_ck. autorewrite with ckpush.
    repeat match goal with |- context [if ?c then _ else _] => destruct c end; cbn [fst snd]; split; reflexivity.
  - unfold opt_res, ckmap.
    repeat match goal with
           | |- context [if ?c then _ else _] => destruct c
           | |- context [match ?y with Some _ => _ | None => _ end] => destruct y
           end; cbn [fst snd]; split; reflexivity.
Qed.

Lemma applyMutation_blind s1 s2 i t cmd :
  set_checksum s1 [] = set_checksum s2 [] ->
  set_checksum (fst (applyMutation s1 i t cmd)) [] = set_checksum (fst (applyMutation s2 i t cmd)) []
  /\ snd (applyMutation s1 i t cmd) = snd (applyMutation s2 i t cmd).
Proof.
  intro H.
  rewrite <- (set_checksum_id s1), <- (set_checksum_id s2).
  rewrite <- (set_checksum_set_checksum s1 [] (s_checksum s1)), <- (set_checksum_set_checksum s2 [] (s_checksum s2)).
  rewrite H.
  destruct (applyMutation_ck (set_checksum s2 []) (s_checksum s1) i t cmd) as [A1 A2].
  destruct (applyMutation_ck (set_checksum s2 []) (s_checksum s2) i t cmd) as [B1 B2].
  split; congruence.
Qed.
