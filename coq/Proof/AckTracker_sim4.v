(* Proof/AckTracker_sim4.v — Bind (compatibility), the two batch calls, Reset;
   every step and every history of the model is accepted by the specification. *)
From WK Require Import Base.Base Gen.Consts_C32 Model.AckTracker.
From WK Require Import Proof.AckTracker_map Proof.AckTracker_entry Proof.AckTracker_index Proof.AckTracker_inv
     Proof.AckTracker_sim Proof.AckTracker_sim2 Proof.AckTracker_sim3.
From Coq Require Import Permutation.
Open Scope N_scope.

(* ---- Bind = BindResult ; FinishBind ------------------------------------------------------- *)
Lemma al_del_idem {V} k (m : list (key * V)) : al_del key_eqb k (al_del key_eqb k m) = al_del key_eqb k m.
Proof. apply k_del_notin. apply k_get_del_same. Qed.

Lemma al_set_set {V} k (v v' : V) m : al_set key_eqb k v (al_set key_eqb k v' m) = al_set key_eqb k v m.
Proof.
  unfold al_set. simpl. rewrite (proj2 (key_eqb_spec k k) eq_refl). rewrite al_del_idem. reflexivity.
Qed.

Lemma live_fresh_app tok z l :
  live_mem tok l = false ->
  live_mem tok (l ++ [(tok, z)]) = true /\ live_at tok (l ++ [(tok, z)]) = z /\ live_del tok (l ++ [(tok, z)]) = l.
Proof.
  induction l as [|a l IH]; simpl.
  - intros _. unfold live_mem, live_del. simpl. rewrite N.eqb_refl. simpl. auto.
  - unfold live_mem, live_del in *. simpl. destruct (fst a =? tok) eqn:E; simpl; [discriminate|].
    intro H. destruct (IH H) as [H1 [H2 H3]]. rewrite H1, H2, H3. auto.
Qed.

Lemma spec_bind_finish s now p tok s1 :
  tok <> 0 -> spec_bind s now p tok = Some s1 ->
  spec_finish s1 p tok =
  (al_set key_eqb (key_of p)
          match kget (key_of p) s with
          | Some e => SEnt (Some (eff_at now p)) (s_live e)
          | None => SEnt (Some (eff_at now p)) []
          end s, true).
Proof.
  intros TZ. unfold spec_bind, spec_finish, spec_live.
  assert (TB : negb (tok =? 0) = true) by (apply negb_true_iff; apply N.eqb_neq; exact TZ).
  rewrite TB. cbn [andb].
  destruct (kget (key_of p) s) as [e|] eqn:G.
  - destruct (live_mem tok (s_live e)) eqn:M; [discriminate|]. intro H. inversion H. subst s1. clear H.
    rewrite k_get_set_same. cbn [s_live s_committed].
    destruct (live_fresh_app tok (eff_at now p) (s_live e) M) as [H1 [H2 H3]].
    rewrite H1, H2, H3. rewrite al_set_set. reflexivity.
  - intro H. inversion H. subst s1. clear H.
    rewrite k_get_set_same. cbn [s_live s_committed].
    destruct (live_fresh_app tok (eff_at now p) [] eq_refl) as [H1 [H2 H3]]. simpl app in *.
    rewrite H1, H2, H3. rewrite al_set_set. reflexivity.
Qed.

Lemma Bind_sim t s now p :
  Sim t s ->
  let '(t', b) := Bind t now p in
  exists s', spec_step s now (OBindCompat p) (RBool b) = Some (s', now) /\ Sim t' s'
  /\ t_next t' = t_next t /\ t_limit t' = t_limit t /\ t_shards t' = t_shards t.
Proof.
  intros S. unfold Bind, BindResult.
  destruct (validPendingRecvAck p) eqn:V; cbn [negb].
  2:{ exists s. split; [reflexivity|]. split; [exact S|]. repeat split; reflexivity. }
  pose proof (bind_locked_sim t s now p S V) as BL.
  destruct (bind_locked t now p) as [[t1 tok] added].
  destruct BL as [[B1 [B2 B3]]|[B1 [B2 [B3 [B4 [B5 [B6 [B7 [s1 [B8 B9]]]]]]]]]].
  { subst tok. simpl. exists s. split; [reflexivity|]. split; [exact S|]. repeat split; reflexivity. }
  assert (TZ : tok <> 0) by (rewrite B1; lia).
  assert (TB : (tok =? 0) = false) by (apply N.eqb_neq; exact TZ).
  rewrite TB. cbn [negb]. unfold FinishBind. rewrite V, TB. cbn [negb orb].
  pose proof (finishBindLocked_sim t1 s1 p tok B9 TZ) as FL.
  rewrite (spec_bind_finish s now p tok s1 TZ B8) in FL.
  destruct (finishBindLocked t1 p tok) as [t2 ok].
  destruct FL as [F1 [[I2 R2] [F3 [F4 [F5 [F6 [F7 F8]]]]]]].
  eexists. split; [reflexivity|]. split; [|proj; repeat split; congruence].
  pose proof S as [I R]. split.
  - constructor; proj.
    + apply (inv_nodup t2 I2).
    + apply (inv_count t2 I2).
    + apply (inv_index t2 I2).
    + intros k e G. destruct (key_eq_dec k (key_of p)) as [E|E].
      * subst k. destruct (inv_entries t2 I2 _ _ G) as [[W A K B] KV]. split; [|exact KV].
        constructor; [exact W|exact A|exact K|].
        intros x Hx. pose proof (B x Hx) as LE. rewrite F3, B2, B1 in LE.
        assert (NE : x <> tok) by (intro X; subst x; apply (F8 F1 _ G); exact Hx).
        rewrite B1 in NE. lia.
      * rewrite (F7 k E), (B7 k E) in G. apply (inv_entries t I _ _ G).
    + rewrite F4, B3. intros LP sk ms G. pose proof (inv_limit t2 I2) as L. rewrite F4, B3 in L. apply (L LP _ _ G).
  - proj. exact R2.
Qed.

(* ---- BindBatch -------------------------------------------------------------------------------- *)
Lemma count_nonzero_cons x l :
  count_nonzero (x :: l) = if x =? 0 then count_nonzero l else (count_nonzero l + 1)%Z.
Proof. unfold count_nonzero. simpl. destruct (x =? 0); simpl; lia. Qed.

Lemma bind_batch_loop_sim now ps : forall t s,
  Sim t s ->
  let '(t', toks, b, a) := bind_batch_loop t now ps in
  exists s', spec_bind_batch s now ps toks = Some s' /\ Sim t' s'
  /\ b = count_nonzero toks /\ a = (scount s' - scount s)%Z
  /\ t_limit t' = t_limit t /\ t_shards t' = t_shards t.
Proof.
  induction ps as [|p r IH]; intros t s S.
  - simpl. exists s. split; [reflexivity|]. split; [exact S|]. repeat split; try reflexivity. lia.
  - cbn [bind_batch_loop]. destruct (validPendingRecvAck p) eqn:V; cbn [negb].
    + pose proof (bind_locked_sim t s now p S V) as BL.
      destruct (bind_locked t now p) as [[t1 tok] added].
      destruct BL as [[B1 [B2 B3]]|[B1 [B2 [B3 [B4 [B5 [B6 [B7 [s1 [B8 B9]]]]]]]]]].
      * subst tok t1 added. specialize (IH t s S).
        destruct (bind_batch_loop t now r) as [[[t' toks] b] a].
        destruct IH as [s' [H1 [H2 [H3 [H4 [H5 H6]]]]]].
        exists s'. cbn [spec_bind_batch]. rewrite N.eqb_refl, count_nonzero_cons, N.eqb_refl.
        split; [exact H1|]. split; [exact H2|]. repeat split; assumption.
      * assert (TZ : (tok =? 0) = false) by (apply N.eqb_neq; rewrite B1; lia).
        specialize (IH t1 s1 B9).
        destruct (bind_batch_loop t1 now r) as [[[t' toks] b] a].
        destruct IH as [s' [H1 [H2 [H3 [H4 [H5 H6]]]]]].
        exists s'. cbn [spec_bind_batch]. rewrite TZ, B8, count_nonzero_cons, TZ.
        split; [exact H1|]. split; [exact H2|]. split; [rewrite H3; reflexivity|].
        split; [|split; congruence].
        rewrite H4. rewrite (sim_count _ _ B9), (sim_count _ _ S), B6. destruct added; lia.
    + specialize (IH t s S).
      destruct (bind_batch_loop t now r) as [[[t' toks] b] a].
      destruct IH as [s' [H1 [H2 [H3 [H4 [H5 H6]]]]]].
      exists s'. cbn [spec_bind_batch]. rewrite N.eqb_refl, count_nonzero_cons, N.eqb_refl.
      split; [exact H1|]. split; [exact H2|]. repeat split; assumption.
Qed.

(* ---- FinishBindBatch ------------------------------------------------------------------------- *)
Lemma finish_batch_loop_sim ps toks idx : forall t s,
  Sim t s ->
  let '(t', n) := finish_batch_loop t ps toks idx in
  let '(s', m) := spec_finish_batch s ps toks idx in
  n = m /\ Sim t' s' /\ t_limit t' = t_limit t /\ t_shards t' = t_shards t.
Proof.
  induction idx as [|i r IH]; intros t s S.
  - simpl. split; [reflexivity|]. split; [exact S|]. split; reflexivity.
  - cbn [finish_batch_loop spec_finish_batch]. unfold batch_item_ok.
    destruct ((0 <=? i)%Z && (i <? Z.of_nat (length ps))%Z && (i <? Z.of_nat (length toks))%Z) eqn:RANGE; cbn [andb].
    + set (p := nth (Z.to_nat i) ps zero_pending). set (tok := nth (Z.to_nat i) toks 0).
      destruct (validPendingRecvAck p && negb (tok =? 0)) eqn:OK.
      * apply andb_true_iff in OK. destruct OK as [_ TZ]. apply negb_true_iff in TZ. apply N.eqb_neq in TZ.
        pose proof (finishBindLocked_sim t s p tok S TZ) as FL.
        destruct (finishBindLocked t p tok) as [t1 ok]. destruct (spec_finish s p tok) as [s1 ok'].
        destruct FL as [F1 [F2 [F3 [F4 [F5 _]]]]].
        specialize (IH t1 s1 F2).
        destruct (finish_batch_loop t1 ps toks r) as [t' n]. destruct (spec_finish_batch s1 ps toks r) as [s' m].
        destruct IH as [H1 [H2 [H3 H4]]]. subst ok' m.
        split; [reflexivity|]. split; [exact H2|]. split; congruence.
      * rewrite (spec_finish_invalid t s p tok S OK). specialize (IH t s S).
        destruct (finish_batch_loop t ps toks r) as [t' n]. destruct (spec_finish_batch s ps toks r) as [s' m].
        exact IH.
    + apply IH. exact S.
Qed.

(* ---- Reset, NewAckTracker ---------------------------------------------------------------------- *)
Lemma si_empty : session_index_ok [] [].
Proof.
  constructor; [constructor|discriminate|].
  intros u s m. split; [intros [ms [H _]]; discriminate|intro H; exfalso; apply H; reflexivity].
Qed.

Lemma Sim_empty shards limit next : Sim (Trk shards limit [] [] 0%Z next) [].
Proof.
  split; [|apply rel_nil]. constructor; simpl; try discriminate; [constructor|reflexivity|apply si_empty].
Qed.

(* ---- one step, whole histories ----------------------------------------------------------------- *)
Definition op_in_range (o : op) : Prop :=
  match o with
  | OClock n => (0 <= n <= i64_max)%Z
  | OExpire ttl => (ttl <= i64_max)%Z
  | _ => True
  end.

Lemma step_sim t s now o :
  Sim t s -> (0 <= now <= i64_max)%Z -> op_in_range o ->
  let '((t', now'), r) := step (t, now) o in
  exists s', spec_step s now o r = Some (s', now') /\ Sim t' s' /\ (0 <= now' <= i64_max)%Z
  /\ t_limit t' = t_limit t /\ t_shards t' = t_shards t.
Proof.
  intros S Hn Ho. destruct o; cbn [step].
  - (* clock *) exists s. split; [reflexivity|]. split; [exact S|]. split; [exact Ho|]. split; reflexivity.
  - (* BindResult *)
    unfold BindResult. destruct (validPendingRecvAck p) eqn:V; cbn [negb].
    + pose proof (bind_locked_sim t s now p S V) as BL.
      destruct (bind_locked t now p) as [[t1 tok] added].
      destruct BL as [[B1 [B2 B3]]|[B1 [B2 [B3 [B4 [B5 [B6 [B7 [s1 [B8 B9]]]]]]]]]].
      * subst tok t1 added. exists s. cbn [spec_step N.eqb negb]. rewrite (sim_count _ _ S), Z.eqb_refl.
        split; [reflexivity|]. split; [exact S|]. split; [exact Hn|]. split; reflexivity.
      * assert (TZ : (tok =? 0) = false) by (apply N.eqb_neq; rewrite B1; lia).
        exists s1. cbn [spec_step]. rewrite TZ. cbn [negb]. rewrite B8.
        rewrite (sim_count _ _ B9), Z.eqb_refl, B5. rewrite Bool.eqb_reflx. cbn [andb].
        split; [reflexivity|]. split; [exact B9|]. split; [exact Hn|]. split; assumption.
    + exists s. cbn [spec_step negb N.eqb andb]. rewrite (sim_count _ _ S), Z.eqb_refl.
      split; [reflexivity|]. split; [exact S|]. split; [exact Hn|]. split; reflexivity.
  - (* Bind *)
    pose proof (Bind_sim t s now p S) as B. destruct (Bind t now p) as [t' b].
    destruct B as [s' [H1 [H2 [H3 [H4 H5]]]]]. exists s'.
    split; [exact H1|]. split; [exact H2|]. split; [exact Hn|]. split; assumption.
  - (* BindBatch *)
    unfold BindBatch. pose proof (bind_batch_loop_sim now ps t s S) as B.
    destruct (bind_batch_loop t now ps) as [[[t' toks] b] a].
    destruct B as [s' [H1 [H2 [H3 [H4 [H5 H6]]]]]]. exists s'. cbn [spec_step]. rewrite H1.
    rewrite H3, H4, (sim_count _ _ H2), !Z.eqb_refl. cbn [andb].
    split; [reflexivity|]. split; [exact H2|]. split; [exact Hn|]. split; assumption.
  - (* FinishBind *)
    pose proof (FinishBind_sim t s p tok S) as F. destruct (FinishBind t p tok) as [t' ok].
    cbn [spec_step]. destruct (spec_finish s p tok) as [s' ok'].
    destruct F as [F1 [F2 [F3 [F4 F5]]]]. subst ok'. exists s'. rewrite Bool.eqb_reflx.
    split; [reflexivity|]. split; [exact F2|]. split; [exact Hn|]. split; assumption.
  - (* FinishBindBatch *)
    unfold FinishBindBatch. pose proof (finish_batch_loop_sim ps toks idx t s S) as F.
    destruct (finish_batch_loop t ps toks idx) as [t' n]. cbn [spec_step].
    destruct (spec_finish_batch s ps toks idx) as [s' m]. destruct F as [F1 [F2 [F3 F4]]]. subst m.
    exists s'. rewrite Z.eqb_refl. split; [reflexivity|]. split; [exact F2|]. split; [exact Hn|]. split; assumption.
  - (* CancelBind *)
    pose proof (CancelBind_sim t s p tok S) as C. destruct (CancelBind t p tok) as [t' r].
    cbn [spec_step]. destruct (spec_cancel s p tok) as [[s' c] rm].
    destruct C as [C1 [C2 [C3 [C4 C5]]]]. subst r. exists s'.
    rewrite !Bool.eqb_reflx, (sim_count _ _ C2), Z.eqb_refl. cbn [andb].
    split; [reflexivity|]. split; [exact C2|]. split; [exact Hn|]. split; assumption.
  - (* Ack *)
    pose proof (Ack_sim t s uid sid mid S) as A. destruct (Ack t uid sid mid) as [t' r].
    destruct A as [ok [p [A1 [A2 [A3 [A4 [A5 [A6 A7]]]]]]]]. subst r. cbn [spec_step].
    rewrite <- A2. destruct ok.
    + exists (al_del key_eqb (uid, sid, mid) s). cbn [andb].
      rewrite (A3 eq_refl), (proj2 (key_eqb_spec _ _) eq_refl).
      split; [reflexivity|]. split; [exact A4|]. split; [exact Hn|]. split; assumption.
    + exists s. split; [reflexivity|]. split; [exact A4|]. split; [exact Hn|]. split; assumption.
  - (* SessionClosed *)
    pose proof (SessionClosed_sim t s uid sid now S) as C. destruct (SessionClosed t uid sid) as [t' r].
    destruct C as [s' [C1 [C2 [C3 [C4 C5]]]]]. exists s'.
    split; [exact C1|]. split; [exact C2|]. split; [exact Hn|]. split; assumption.
  - (* Expire *)
    pose proof (Expire_sim t s now ttl S Hn Ho) as E. destruct (Expire t now ttl) as [t' r].
    destruct E as [s' [E1 [E2 [E3 [E4 E5]]]]]. exists s'.
    split; [exact E1|]. split; [exact E2|]. split; [exact Hn|]. split; assumption.
  - (* Reset *)
    exists []. split; [reflexivity|]. split; [apply Sim_empty|]. split; [exact Hn|]. split; reflexivity.
Qed.

Lemma run_sim ops : forall t s now,
  Sim t s -> (0 <= now <= i64_max)%Z -> Forall op_in_range ops ->
  let '((t', _), tr) := run (t, now) ops in
  exists s', spec_run s now tr = Some s' /\ Sim t' s' /\ t_limit t' = t_limit t /\ t_shards t' = t_shards t.
Proof.
  induction ops as [|o r IH]; intros t s now S Hn HR.
  - simpl. exists s. split; [reflexivity|]. split; [exact S|]. split; reflexivity.
  - inversion HR as [|? ? Ho HR']. subst. cbn [run].
    pose proof (step_sim t s now o S Hn Ho) as ST.
    destruct (step (t, now) o) as [[t1 now1] res].
    destruct ST as [s1 [S1 [S2 [S3 [S4 S5]]]]].
    specialize (IH t1 s1 now1 S2 S3 HR').
    destruct (run (t1, now1) r) as [[t' now'] tr].
    destruct IH as [s' [I1 [I2 [I3 I4]]]].
    exists s'. cbn [spec_run fst]. rewrite S1. rewrite (sim_count _ _ S2), Z.eqb_refl.
    split; [exact I1|]. split; [exact I2|]. split; congruence.
Qed.

Lemma reachable_sim shards limit now ops :
  (0 <= now <= i64_max)%Z -> Forall op_in_range ops ->
  let '((t, _), tr) := run (NewAckTracker shards limit, now) ops in
  exists s, spec_run [] now tr = Some s /\ Sim t s /\ t_limit t = limit.
Proof.
  intros Hn HR.
  pose proof (run_sim ops (NewAckTracker shards limit) [] now (Sim_empty _ _ _) Hn HR) as RS.
  destruct (run (NewAckTracker shards limit, now) ops) as [[t now'] tr].
  destruct RS as [s [H1 [H2 [H3 _]]]]. exists s. split; [exact H1|]. split; [exact H2|exact H3].
Qed.

(* the monitor accepts every history of the model *)
Lemma model_satisfies_monitor shards limit now ops :
  (0 <= now <= i64_max)%Z -> Forall op_in_range ops ->
  let '((t, _), tr) := run (NewAckTracker shards limit, now) ops in
  C32_monitor (C32Case shards limit now tr (t_byMessage t) (t_bySession t)) = 0.
Proof.
  intros Hn HR. pose proof (reachable_sim shards limit now ops Hn HR) as RS.
  destruct (run (NewAckTracker shards limit, now) ops) as [[t now'] tr].
  destruct RS as [s [H1 [[I R] _]]]. unfold C32_monitor. cbn [c_now c_steps c_entries]. rewrite H1.
  assert (X1 : Nat.eqb (length (t_byMessage t)) (length s) = true).
  { apply Nat.eqb_eq. symmetry. apply rel_length; [apply (inv_nodup t I)|exact R]. }
  assert (X2 : keys_nodup (map fst (t_byMessage t)) = true).
  { apply keys_nodup_spec. apply (inv_nodup t I). }
  assert (X3 : forallb (fun ke : key * entry => spec_has s (fst ke)) (t_byMessage t) = true).
  { apply forallb_forall. intros [k e] Hin. simpl. rewrite (rel_has _ _ _ R).
    rewrite (k_in_get _ _ _ (inv_nodup t I) Hin). reflexivity. }
  assert (X4 : index_is_projection (t_byMessage t) (t_bySession t) = true).
  { pose proof (inv_index t I) as [S1 S2 S3]. unfold index_is_projection. apply andb_true_iff. split.
    - apply forallb_forall. intros [[u sid] ms] Hin. cbn [fst snd].
      pose proof (s_in_get _ _ _ S1 Hin) as G. destruct (S2 _ _ G) as [NE _].
      destruct ms as [|m0 r0]; [contradiction|]. apply forallb_forall. intros m Hm.
      assert (HK : has_key (t_byMessage t) (u, sid, m)) by (apply S3; eexists; split; [exact G|exact Hm]).
      unfold has_key in HK. destruct (kget (u, sid, m) (t_byMessage t)); [reflexivity|contradiction].
    - apply forallb_forall. intros [[[u sid] m] e] Hin. cbn [fst key_skey key_mid].
      pose proof (k_in_get _ _ _ (inv_nodup t I) Hin) as G.
      assert (HK : has_key (t_byMessage t) (u, sid, m)) by (unfold has_key; rewrite G; discriminate).
      apply S3 in HK. destruct HK as [ms [G1 G2]]. rewrite G1. apply mem_mid_in. exact G2. }
  cbn [c_sessions]. rewrite X1, X2, X3, X4. reflexivity.
Qed.
