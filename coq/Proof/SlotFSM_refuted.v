(* Proof/SlotFSM_refuted.v — the batch-transparency statement is FALSE of the faithful model
   (and of the code) on the channel-migration commands and on the outbox cleanup command.

   Each witness below is a corpus input of C13 (corpus/C13/<name>.json) together with the
   observations of the real state machine on it (printed by harness/cmd/C13_C39); for each:
     - the model reproduces the observations, including those of the diverging partition
       (C13_mismatch = false);
     - the monitor classifies the divergence as the known finding named in the file name;
     - on the model alone: the log applied as ONE batch and the log applied one command per
       batch give different results or different tables.
   GENERATED from the corpus by the harness output; regenerate when the corpus changes. *)
From WK Require Import Base.Base.
From WK Require Import Gen.Consts_C15 Gen.Consts_C17 Gen.Consts_C13.
From WK Require Import Model.RuntimeMeta Model.ChanMigration Model.SlotFSM Model.SlotFSM_tlv Model.SlotFSM_C13.
Open Scope N_scope.

(* the two runs of the model on the log of a case, from the empty store: one batch / one per batch *)
Definition one_batch (c : c13_case) := fsm_apply_batch (c_cfg c) store_empty (to_fcmds 1 (c_log c)).
Definition one_each (c : c13_case) := fsm_apply_individually (c_cfg c) store_empty (to_fcmds 1 (c_log c)).

Definition fres_eqb (a b : fres) : bool := (fst a =? fst b) && list_eqb (fun x y => fw_index x =? fw_index y) (snd a) (snd b).
Definition bres_eqb (a b : @bres fres) : bool :=
  match a, b with
  | BErr x, BErr y => x =? y
  | BRes x, BRes y => list_eqb fres_eqb x y
  | _, _ => false
  end.
(* the tables, the applied index apart *)
Definition store_data_eqb (a b : store) : bool :=
  list_eqb urow_eqb (st_users a) (st_users b)
  && list_eqb (fun x y => (fst x =? fst y) && db_eqb (snd x) (snd y)) (st_cm a) (st_cm b)
  && list_eqb hs_state_eqb (st_states a) (st_states b)
  && list_eqb outbox_eqb (st_outbox a) (st_outbox b)
  && list_eqb dkey_eqb (st_applied a) (st_applied b).
Definition same_outcome (x y : store * @bres fres) : bool :=
  bres_eqb (snd x) (snd y) && store_data_eqb (fst x) (fst y).

Fixpoint flatten (outs : list (@bres fres)) : @bres fres :=
  match outs with
  | [] => BRes []
  | BErr e :: _ => BErr e
  | BRes rs :: r => match flatten r with BRes rs' => BRes (rs ++ rs') | BErr e => BErr e end
  end.

(* the log applied under the partition with the given batch sizes *)
Definition under (c : c13_case) (sizes : list N) : store * @bres fres :=
  let '(s, outs) := fsm_apply_partition (c_cfg c) store_empty (split_sizes sizes (to_fcmds 1 (c_log c))) in
  (s, flatten outs).

(* some partition of the case departs from the one-command-per-batch run, on the model *)
Definition diverges (c : c13_case) : bool :=
  existsb (fun p => negb (same_outcome (under c (p_sizes p)) (one_each c))) (c_parts c).

Definition w_k1_reactivate_terminal_then_create : c13_case :=
  (C13Case (Cfg 11 [11; 12] 11 false []) true [(Entry true 11 (HCM (CCreate (Task (hx "7441") 1 1 1 (hx "6731") (2)%Z 1 2 2 0 0 [] 0 (0)%Z false 0 0 (0)%Z proof_zero 0 (0)%Z [] [] [] (10)%Z (10)%Z (0)%Z progress_zero))) [] None); (Entry true 11 (HCM (CAdvance (TGuard (hx "6731") (2)%Z (hx "7441") 1 1 0 (0)%Z (10)%Z) 4 1 0 (0)%Z [] [] [] (20)%Z (20)%Z progress_zero proof_zero 0)) [] None); (Entry true 11 (HCM (CAdvance (TGuard (hx "6731") (2)%Z (hx "7441") 4 1 0 (0)%Z (20)%Z) 2 1 0 (0)%Z [] [] [] (30)%Z (0)%Z progress_zero proof_zero 0)) [] None); (Entry true 11 (HCM (CCreate (Task (hx "7442") 1 1 1 (hx "6731") (2)%Z 1 2 2 0 0 [] 0 (0)%Z false 0 0 (0)%Z proof_zero 0 (0)%Z [] [] [] (10)%Z (10)%Z (0)%Z progress_zero))) [] None)] 1406798228487054592 [(BObs (BOk [(0, 15183413101789618141)]) 16631123309888254723 1); (BObs (BOk [(0, 15183413101789618141)]) 7978658743034841071 2); (BObs (BOk [(0, 15183413101789618141)]) 10815827912382278469 3); (BObs (BOk [(1, 15195458097672424536)]) 10815827912382278469 3)] [(Part [4] [(BObs (BOk [(0, 15183413101789618141); (0, 15183413101789618141); (0, 15183413101789618141); (1, 15195458097672424536)]) 16659081241265668619 4)] (Some (Dump [] [(CmObs 11 [(Task (hx "7441") 1 2 1 (hx "6731") (2)%Z 1 2 2 0 0 [] 0 (0)%Z false 0 0 (0)%Z proof_zero 0 (0)%Z [] [] [] (10)%Z (30)%Z (0)%Z progress_zero)] [((ChanKey (hx "6731") (2)%Z), (Some (hx "7441")))] [((ChanKey (hx "6731") (2)%Z), None)]); (CmObs 12 [] [((ChanKey (hx "6731") (2)%Z), None)] [((ChanKey (hx "6731") (2)%Z), None)]); (CmObs 13 [] [((ChanKey (hx "6731") (2)%Z), None)] [((ChanKey (hx "6731") (2)%Z), None)])] [] [] [] 4))); (Part [1; 1; 2] [(BObs (BOk [(0, 15183413101789618141)]) 16631123309888254723 1); (BObs (BOk [(0, 15183413101789618141)]) 7978658743034841071 2); (BObs (BOk [(0, 15183413101789618141); (0, 15183413101789618141)]) 14279933408363493833 4)] (Some (Dump [] [(CmObs 11 [(Task (hx "7441") 1 2 1 (hx "6731") (2)%Z 1 2 2 0 0 [] 0 (0)%Z false 0 0 (0)%Z proof_zero 0 (0)%Z [] [] [] (10)%Z (30)%Z (0)%Z progress_zero); (Task (hx "7442") 1 1 1 (hx "6731") (2)%Z 1 2 2 0 0 [] 0 (0)%Z false 0 0 (0)%Z proof_zero 0 (0)%Z [] [] [] (10)%Z (10)%Z (0)%Z progress_zero)] [((ChanKey (hx "6731") (2)%Z), (Some (hx "7442")))] [((ChanKey (hx "6731") (2)%Z), None)]); (CmObs 12 [] [((ChanKey (hx "6731") (2)%Z), None)] [((ChanKey (hx "6731") (2)%Z), None)]); (CmObs 13 [] [((ChanKey (hx "6731") (2)%Z), None)] [((ChanKey (hx "6731") (2)%Z), None)])] [] [] [] 4)))] [(SnapObs 2 true 15672066392214199541 15672066392214199541 12746679097007546138 12746679097007546138)] (Some (Dump [] [(CmObs 11 [(Task (hx "7441") 1 2 1 (hx "6731") (2)%Z 1 2 2 0 0 [] 0 (0)%Z false 0 0 (0)%Z proof_zero 0 (0)%Z [] [] [] (10)%Z (30)%Z (0)%Z progress_zero)] [((ChanKey (hx "6731") (2)%Z), (Some (hx "7441")))] [((ChanKey (hx "6731") (2)%Z), None)]); (CmObs 12 [] [((ChanKey (hx "6731") (2)%Z), None)] [((ChanKey (hx "6731") (2)%Z), None)]); (CmObs 13 [] [((ChanKey (hx "6731") (2)%Z), None)] [((ChanKey (hx "6731") (2)%Z), None)])] [] [] [] 3))).

Lemma w_k1_reactivate_terminal_then_create_model_matches : C13_mismatch w_k1_reactivate_terminal_then_create = false.
Proof. vm_compute. reflexivity. Qed.
Lemma w_k1_reactivate_terminal_then_create_code : C13_monitor w_k1_reactivate_terminal_then_create = 2.
Proof. vm_compute. reflexivity. Qed.
Lemma w_k1_reactivate_terminal_then_create_diverges : diverges w_k1_reactivate_terminal_then_create = true.
Proof. vm_compute. reflexivity. Qed.

Definition w_k2_create_complete_create : c13_case :=
  (C13Case (Cfg 11 [11; 12] 11 false []) true [(Entry true 11 (HCM (CCreate (Task (hx "7441") 1 1 1 (hx "6731") (2)%Z 1 2 2 0 0 [] 0 (0)%Z false 0 0 (0)%Z proof_zero 0 (0)%Z [] [] [] (10)%Z (10)%Z (0)%Z progress_zero))) [] None); (Entry true 11 (HCM (CAdvance (TGuard (hx "6731") (2)%Z (hx "7441") 1 1 0 (0)%Z (10)%Z) 4 1 0 (0)%Z [] [] [] (20)%Z (20)%Z progress_zero proof_zero 0)) [] None); (Entry true 11 (HCM (CCreate (Task (hx "7442") 1 1 1 (hx "6731") (2)%Z 1 2 2 0 0 [] 0 (0)%Z false 0 0 (0)%Z proof_zero 0 (0)%Z [] [] [] (10)%Z (10)%Z (0)%Z progress_zero))) [] None)] 1406798228487054592 [(BObs (BOk [(0, 15183413101789618141)]) 16631123309888254723 1); (BObs (BOk [(0, 15183413101789618141)]) 7978658743034841071 2); (BObs (BOk [(0, 15183413101789618141)]) 17611507649795400691 3)] [(Part [3] [(BObs (BOk [(0, 15183413101789618141); (0, 15183413101789618141); (1, 15195458097672424536)]) 3801880155396749162 3)] (Some (Dump [] [(CmObs 11 [(Task (hx "7441") 1 4 1 (hx "6731") (2)%Z 1 2 2 0 0 [] 0 (0)%Z false 0 0 (0)%Z proof_zero 0 (0)%Z [] [] [] (10)%Z (20)%Z (20)%Z progress_zero)] [((ChanKey (hx "6731") (2)%Z), (Some (hx "7441")))] [((ChanKey (hx "6731") (2)%Z), None)]); (CmObs 12 [] [((ChanKey (hx "6731") (2)%Z), None)] [((ChanKey (hx "6731") (2)%Z), None)]); (CmObs 13 [] [((ChanKey (hx "6731") (2)%Z), None)] [((ChanKey (hx "6731") (2)%Z), None)])] [] [] [] 3)))] [(SnapObs 1 true 14129127428975134386 14129127428975134386 11665985047424855758 11665985047424855758)] (Some (Dump [] [(CmObs 11 [(Task (hx "7441") 1 4 1 (hx "6731") (2)%Z 1 2 2 0 0 [] 0 (0)%Z false 0 0 (0)%Z proof_zero 0 (0)%Z [] [] [] (10)%Z (20)%Z (20)%Z progress_zero); (Task (hx "7442") 1 1 1 (hx "6731") (2)%Z 1 2 2 0 0 [] 0 (0)%Z false 0 0 (0)%Z proof_zero 0 (0)%Z [] [] [] (10)%Z (10)%Z (0)%Z progress_zero)] [((ChanKey (hx "6731") (2)%Z), (Some (hx "7442")))] [((ChanKey (hx "6731") (2)%Z), None)]); (CmObs 12 [] [((ChanKey (hx "6731") (2)%Z), None)] [((ChanKey (hx "6731") (2)%Z), None)]); (CmObs 13 [] [((ChanKey (hx "6731") (2)%Z), None)] [((ChanKey (hx "6731") (2)%Z), None)])] [] [] [] 3))).

Lemma w_k2_create_complete_create_model_matches : C13_mismatch w_k2_create_complete_create = false.
Proof. vm_compute. reflexivity. Qed.
Lemma w_k2_create_complete_create_code : C13_monitor w_k2_create_complete_create = 3.
Proof. vm_compute. reflexivity. Qed.
Lemma w_k2_create_complete_create_diverges : diverges w_k2_create_complete_create = true.
Proof. vm_compute. reflexivity. Qed.

Definition w_k3_complete_then_gc : c13_case :=
  (C13Case (Cfg 11 [11; 12] 11 false []) true [(Entry true 11 (HCM (CCreate (Task (hx "7441") 1 1 1 (hx "6731") (2)%Z 1 2 2 0 0 [] 0 (0)%Z false 0 0 (0)%Z proof_zero 0 (0)%Z [] [] [] (10)%Z (10)%Z (0)%Z progress_zero))) [] None); (Entry true 11 (HCM (CAdvance (TGuard (hx "6731") (2)%Z (hx "7441") 1 1 0 (0)%Z (10)%Z) 4 1 0 (0)%Z [] [] [] (20)%Z (20)%Z progress_zero proof_zero 0)) [] None); (Entry true 11 (HCM (CGC (1000)%Z (10)%Z)) [] None)] 1406798228487054592 [(BObs (BOk [(0, 15183413101789618141)]) 16631123309888254723 1); (BObs (BOk [(0, 15183413101789618141)]) 7978658743034841071 2); (BObs (BOk [(101, 14597054052757429612)]) 1406798228487054592 3)] [(Part [3] [(BObs (BOk [(0, 15183413101789618141); (0, 15183413101789618141); (100, 1580999312285076677)]) 3801880155396749162 3)] (Some (Dump [] [(CmObs 11 [(Task (hx "7441") 1 4 1 (hx "6731") (2)%Z 1 2 2 0 0 [] 0 (0)%Z false 0 0 (0)%Z proof_zero 0 (0)%Z [] [] [] (10)%Z (20)%Z (20)%Z progress_zero)] [((ChanKey (hx "6731") (2)%Z), (Some (hx "7441")))] [((ChanKey (hx "6731") (2)%Z), None)]); (CmObs 12 [] [((ChanKey (hx "6731") (2)%Z), None)] [((ChanKey (hx "6731") (2)%Z), None)]); (CmObs 13 [] [((ChanKey (hx "6731") (2)%Z), None)] [((ChanKey (hx "6731") (2)%Z), None)])] [] [] [] 3))); (Part [1; 2] [(BObs (BOk [(0, 15183413101789618141)]) 16631123309888254723 1); (BObs (BOk [(0, 15183413101789618141); (100, 1580999312285076677)]) 7978658743034841071 3)] (Some (Dump [] [(CmObs 11 [(Task (hx "7441") 1 4 1 (hx "6731") (2)%Z 1 2 2 0 0 [] 0 (0)%Z false 0 0 (0)%Z proof_zero 0 (0)%Z [] [] [] (10)%Z (20)%Z (20)%Z progress_zero)] [((ChanKey (hx "6731") (2)%Z), None)] [((ChanKey (hx "6731") (2)%Z), None)]); (CmObs 12 [] [((ChanKey (hx "6731") (2)%Z), None)] [((ChanKey (hx "6731") (2)%Z), None)]); (CmObs 13 [] [((ChanKey (hx "6731") (2)%Z), None)] [((ChanKey (hx "6731") (2)%Z), None)])] [] [] [] 3)))] [(SnapObs 3 true 254516036370617935 254516036370617935 254516036370617935 254516036370617935)] (Some (Dump [] [(CmObs 11 [] [((ChanKey (hx "6731") (2)%Z), None)] [((ChanKey (hx "6731") (2)%Z), None)]); (CmObs 12 [] [((ChanKey (hx "6731") (2)%Z), None)] [((ChanKey (hx "6731") (2)%Z), None)]); (CmObs 13 [] [((ChanKey (hx "6731") (2)%Z), None)] [((ChanKey (hx "6731") (2)%Z), None)])] [] [] [] 3))).

Lemma w_k3_complete_then_gc_model_matches : C13_mismatch w_k3_complete_then_gc = false.
Proof. vm_compute. reflexivity. Qed.
Lemma w_k3_complete_then_gc_code : C13_monitor w_k3_complete_then_gc = 4.
Proof. vm_compute. reflexivity. Qed.
Lemma w_k3_complete_then_gc_diverges : diverges w_k3_complete_then_gc = true.
Proof. vm_compute. reflexivity. Qed.

Definition w_k3_gc_then_advance : c13_case :=
  (C13Case (Cfg 11 [11; 12] 11 false []) true [(Entry true 11 (HCM (CCreate (Task (hx "7441") 1 1 1 (hx "6731") (2)%Z 1 2 2 0 0 [] 0 (0)%Z false 0 0 (0)%Z proof_zero 0 (0)%Z [] [] [] (10)%Z (10)%Z (0)%Z progress_zero))) [] None); (Entry true 11 (HCM (CAdvance (TGuard (hx "6731") (2)%Z (hx "7441") 1 1 0 (0)%Z (10)%Z) 4 1 0 (0)%Z [] [] [] (20)%Z (20)%Z progress_zero proof_zero 0)) [] None); (Entry true 11 (HCM (CGC (1000)%Z (10)%Z)) [] None); (Entry true 11 (HCM (CAdvance (TGuard (hx "6731") (2)%Z (hx "7441") 4 1 0 (0)%Z (20)%Z) 4 1 0 (0)%Z [] [] [] (30)%Z (20)%Z progress_zero proof_zero 0)) [] None)] 1406798228487054592 [(BObs (BOk [(0, 15183413101789618141)]) 16631123309888254723 1); (BObs (BOk [(0, 15183413101789618141)]) 7978658743034841071 2); (BObs (BOk [(101, 14597054052757429612)]) 1406798228487054592 3); (BObs (BOk [(1, 15195458097672424536)]) 1406798228487054592 3)] [(Part [4] [(BObs (BOk [(0, 15183413101789618141); (0, 15183413101789618141); (100, 1580999312285076677); (0, 15183413101789618141)]) 14712745213836656554 4)] (Some (Dump [] [(CmObs 11 [(Task (hx "7441") 1 4 1 (hx "6731") (2)%Z 1 2 2 0 0 [] 0 (0)%Z false 0 0 (0)%Z proof_zero 0 (0)%Z [] [] [] (10)%Z (30)%Z (20)%Z progress_zero)] [((ChanKey (hx "6731") (2)%Z), (Some (hx "7441")))] [((ChanKey (hx "6731") (2)%Z), None)]); (CmObs 12 [] [((ChanKey (hx "6731") (2)%Z), None)] [((ChanKey (hx "6731") (2)%Z), None)]); (CmObs 13 [] [((ChanKey (hx "6731") (2)%Z), None)] [((ChanKey (hx "6731") (2)%Z), None)])] [] [] [] 4))); (Part [1; 1; 2] [(BObs (BOk [(0, 15183413101789618141)]) 16631123309888254723 1); (BObs (BOk [(0, 15183413101789618141)]) 7978658743034841071 2); (BObs (BOk [(101, 14597054052757429612); (0, 15183413101789618141)]) 10080072046152161713 4)] (Some (Dump [] [(CmObs 11 [(Task (hx "7441") 1 4 1 (hx "6731") (2)%Z 1 2 2 0 0 [] 0 (0)%Z false 0 0 (0)%Z proof_zero 0 (0)%Z [] [] [] (10)%Z (30)%Z (20)%Z progress_zero)] [((ChanKey (hx "6731") (2)%Z), None)] [((ChanKey (hx "6731") (2)%Z), None)]); (CmObs 12 [] [((ChanKey (hx "6731") (2)%Z), None)] [((ChanKey (hx "6731") (2)%Z), None)]); (CmObs 13 [] [((ChanKey (hx "6731") (2)%Z), None)] [((ChanKey (hx "6731") (2)%Z), None)])] [] [] [] 4)))] [] (Some (Dump [] [(CmObs 11 [] [((ChanKey (hx "6731") (2)%Z), None)] [((ChanKey (hx "6731") (2)%Z), None)]); (CmObs 12 [] [((ChanKey (hx "6731") (2)%Z), None)] [((ChanKey (hx "6731") (2)%Z), None)]); (CmObs 13 [] [((ChanKey (hx "6731") (2)%Z), None)] [((ChanKey (hx "6731") (2)%Z), None)])] [] [] [] 3))).

Lemma w_k3_gc_then_advance_model_matches : C13_mismatch w_k3_gc_then_advance = false.
Proof. vm_compute. reflexivity. Qed.
Lemma w_k3_gc_then_advance_code : C13_monitor w_k3_gc_then_advance = 4.
Proof. vm_compute. reflexivity. Qed.
Lemma w_k3_gc_then_advance_diverges : diverges w_k3_gc_then_advance = true.
Proof. vm_compute. reflexivity. Qed.

Definition w_k4_cleanup_then_write : c13_case :=
  (C13Case (Cfg 11 [11; 12] 11 false [(12, (22, 1))]) true [(Entry true 12 (HUser false (hx "7531") (hx "61") (0)%Z (0)%Z) (hx "0101010000000275310200000001610300000008000000000000000004000000080000000000000000") None); (Entry true 12 (HFence 12 0) (hx "01150100000008000000000000000c") (Some ((hx "01150100000008000000000000000c"), (DecFence 12 0)))); (Entry true 12 (HCleanup 12 11 22 100) (hx "01170100000008000000000000000c0200000008000000000000000b0300000008000000000000001604000000080000000000000064") (Some ((hx "01170100000008000000000000000c0200000008000000000000000b0300000008000000000000001604000000080000000000000064"), (DecCleanup 12 11 22 100)))); (Entry true 12 (HUser false (hx "7532") (hx "62") (0)%Z (0)%Z) (hx "0101010000000275320200000001620300000008000000000000000004000000080000000000000000") None)] 1406798228487054592 [(BObs (BOk [(0, 15183413101789618141)]) 5565672845181255018 1); (BObs (BOk [(0, 15183413101789618141)]) 17197953111745008743 2); (BObs (BOk [(0, 15183413101789618141)]) 14345801168442350465 3); (BObs (BOk [(0, 15183413101789618141)]) 7940099259732584800 4)] [(Part [4] [(BObs (BOk [(0, 15183413101789618141); (0, 15183413101789618141); (0, 15183413101789618141); (0, 15183413101789618141)]) 7940099259732584800 4)] None); (Part [1; 1; 2] [(BObs (BOk [(0, 15183413101789618141)]) 5565672845181255018 1); (BObs (BOk [(0, 15183413101789618141)]) 17197953111745008743 2); (BObs (BOk [(0, 15183413101789618141); (2, 18176285294611080462)]) 14345801168442350465 4)] (Some (Dump [(URow 12 (hx "7531") (hx "61") (0)%Z (0)%Z)] [(CmObs 11 [] [] []); (CmObs 12 [] [] []); (CmObs 13 [] [] [])] [] [] [] 4)))] [(SnapObs 2 true 9474363810363000622 9474363810363000622 11472486770364345084 11472486770364345084)] (Some (Dump [(URow 12 (hx "7531") (hx "61") (0)%Z (0)%Z); (URow 12 (hx "7532") (hx "62") (0)%Z (0)%Z)] [(CmObs 11 [] [] []); (CmObs 12 [] [] []); (CmObs 13 [] [] [])] [(HsState 12 11 22 1 0 4 0)] [(Outbox 12 11 22 4 (hx "0101010000000275320200000001620300000008000000000000000004000000080000000000000000"))] [] 4))).

Lemma w_k4_cleanup_then_write_model_matches : C13_mismatch w_k4_cleanup_then_write = false.
Proof. vm_compute. reflexivity. Qed.
Lemma w_k4_cleanup_then_write_code : C13_monitor w_k4_cleanup_then_write = 5.
Proof. vm_compute. reflexivity. Qed.
Lemma w_k4_cleanup_then_write_diverges : diverges w_k4_cleanup_then_write = true.
Proof. vm_compute. reflexivity. Qed.

Definition w_k5_create_claim_complete : c13_case :=
  (C13Case (Cfg 11 [11; 12] 11 false []) true [(Entry true 11 (HCM (CCreate (Task (hx "7441") 1 1 1 (hx "6731") (2)%Z 1 2 2 0 0 [] 0 (0)%Z false 0 0 (0)%Z proof_zero 0 (0)%Z [] [] [] (10)%Z (10)%Z (0)%Z progress_zero))) [] None); (Entry true 11 (HCM (CClaim (TGuard (hx "6731") (2)%Z (hx "7441") 1 1 0 (0)%Z (10)%Z) 2 1 7 (500)%Z (12)%Z (15)%Z)) [] None); (Entry true 11 (HCM (CAdvance (TGuard (hx "6731") (2)%Z (hx "7441") 2 1 7 (500)%Z (15)%Z) 4 1 0 (0)%Z [] [] [] (20)%Z (20)%Z progress_zero proof_zero 0)) [] None)] 1406798228487054592 [(BObs (BOk [(0, 15183413101789618141)]) 16631123309888254723 1); (BObs (BOk [(0, 15183413101789618141)]) 17624981202538831081 2); (BObs (BOk [(0, 15183413101789618141)]) 11623327525298207664 3)] [(Part [3] [(BObs (BOk [(0, 15183413101789618141); (0, 15183413101789618141); (0, 15183413101789618141)]) 13326193666947027838 3)] (Some (Dump [] [(CmObs 11 [(Task (hx "7441") 1 4 1 (hx "6731") (2)%Z 1 2 2 0 0 [] 0 (0)%Z false 0 7 (500)%Z proof_zero 0 (0)%Z [] [] [] (10)%Z (20)%Z (20)%Z progress_zero)] [((ChanKey (hx "6731") (2)%Z), (Some (hx "7441")))] [((ChanKey (hx "6731") (2)%Z), None)]); (CmObs 12 [] [((ChanKey (hx "6731") (2)%Z), None)] [((ChanKey (hx "6731") (2)%Z), None)]); (CmObs 13 [] [((ChanKey (hx "6731") (2)%Z), None)] [((ChanKey (hx "6731") (2)%Z), None)])] [] [] [] 3)))] [(SnapObs 3 true 16815204713595391086 16815204713595391086 16815204713595391086 16815204713595391086)] (Some (Dump [] [(CmObs 11 [(Task (hx "7441") 1 4 1 (hx "6731") (2)%Z 1 2 2 0 0 [] 0 (0)%Z false 0 7 (500)%Z proof_zero 0 (0)%Z [] [] [] (10)%Z (20)%Z (20)%Z progress_zero)] [((ChanKey (hx "6731") (2)%Z), None)] [((ChanKey (hx "6731") (2)%Z), None)]); (CmObs 12 [] [((ChanKey (hx "6731") (2)%Z), None)] [((ChanKey (hx "6731") (2)%Z), None)]); (CmObs 13 [] [((ChanKey (hx "6731") (2)%Z), None)] [((ChanKey (hx "6731") (2)%Z), None)])] [] [] [] 3))).

Lemma w_k5_create_claim_complete_model_matches : C13_mismatch w_k5_create_claim_complete = false.
Proof. vm_compute. reflexivity. Qed.
Lemma w_k5_create_claim_complete_code : C13_monitor w_k5_create_claim_complete = 6.
Proof. vm_compute. reflexivity. Qed.
Lemma w_k5_create_claim_complete_diverges : diverges w_k5_create_claim_complete = true.
Proof. vm_compute. reflexivity. Qed.

Definition w_k5_two_terminal_writes : c13_case :=
  (C13Case (Cfg 11 [11; 12] 11 false []) true [(Entry true 11 (HCM (CCreate (Task (hx "7441") 1 1 1 (hx "6731") (2)%Z 1 2 2 0 0 [] 0 (0)%Z false 0 0 (0)%Z proof_zero 0 (0)%Z [] [] [] (10)%Z (10)%Z (0)%Z progress_zero))) [] None); (Entry true 11 (HCM (CAdvance (TGuard (hx "6731") (2)%Z (hx "7441") 1 1 0 (0)%Z (10)%Z) 5 1 0 (0)%Z [] [] [] (20)%Z (20)%Z progress_zero proof_zero 0)) [] None); (Entry true 11 (HCM (CAdvance (TGuard (hx "6731") (2)%Z (hx "7441") 5 1 0 (0)%Z (20)%Z) 4 1 0 (0)%Z [] [] [] (30)%Z (30)%Z progress_zero proof_zero 0)) [] None)] 1406798228487054592 [(BObs (BOk [(0, 15183413101789618141)]) 16631123309888254723 1); (BObs (BOk [(0, 15183413101789618141)]) 8925514104101585836 2); (BObs (BOk [(0, 15183413101789618141)]) 13218228474143211260 3)] [(Part [3] [(BObs (BOk [(0, 15183413101789618141); (0, 15183413101789618141); (0, 15183413101789618141)]) 6784371398711375101 3)] (Some (Dump [] [(CmObs 11 [(Task (hx "7441") 1 4 1 (hx "6731") (2)%Z 1 2 2 0 0 [] 0 (0)%Z false 0 0 (0)%Z proof_zero 0 (0)%Z [] [] [] (10)%Z (30)%Z (30)%Z progress_zero)] [((ChanKey (hx "6731") (2)%Z), (Some (hx "7441")))] [((ChanKey (hx "6731") (2)%Z), None)]); (CmObs 12 [] [((ChanKey (hx "6731") (2)%Z), None)] [((ChanKey (hx "6731") (2)%Z), None)]); (CmObs 13 [] [((ChanKey (hx "6731") (2)%Z), None)] [((ChanKey (hx "6731") (2)%Z), None)])] [] [] [] 3))); (Part [1; 2] [(BObs (BOk [(0, 15183413101789618141)]) 16631123309888254723 1); (BObs (BOk [(0, 15183413101789618141); (0, 15183413101789618141)]) 10546497243442891279 3)] None)] [] (Some (Dump [] [(CmObs 11 [(Task (hx "7441") 1 4 1 (hx "6731") (2)%Z 1 2 2 0 0 [] 0 (0)%Z false 0 0 (0)%Z proof_zero 0 (0)%Z [] [] [] (10)%Z (30)%Z (30)%Z progress_zero)] [((ChanKey (hx "6731") (2)%Z), None)] [((ChanKey (hx "6731") (2)%Z), None)]); (CmObs 12 [] [((ChanKey (hx "6731") (2)%Z), None)] [((ChanKey (hx "6731") (2)%Z), None)]); (CmObs 13 [] [((ChanKey (hx "6731") (2)%Z), None)] [((ChanKey (hx "6731") (2)%Z), None)])] [] [] [] 3))).

Lemma w_k5_two_terminal_writes_model_matches : C13_mismatch w_k5_two_terminal_writes = false.
Proof. vm_compute. reflexivity. Qed.
Lemma w_k5_two_terminal_writes_code : C13_monitor w_k5_two_terminal_writes = 6.
Proof. vm_compute. reflexivity. Qed.
Lemma w_k5_two_terminal_writes_diverges : diverges w_k5_two_terminal_writes = true.
Proof. vm_compute. reflexivity. Qed.


(* the five refutations *)
Lemma k1_refuted : exists c, C13_mismatch c = false /\ C13_monitor c = 2 /\ diverges c = true.
Proof. exists w_k1_reactivate_terminal_then_create.
  exact (conj w_k1_reactivate_terminal_then_create_model_matches
        (conj w_k1_reactivate_terminal_then_create_code w_k1_reactivate_terminal_then_create_diverges)). Qed.
Lemma k2_refuted : exists c, C13_mismatch c = false /\ C13_monitor c = 3 /\ diverges c = true.
Proof. exists w_k2_create_complete_create.
  exact (conj w_k2_create_complete_create_model_matches
        (conj w_k2_create_complete_create_code w_k2_create_complete_create_diverges)). Qed.
Lemma k3_refuted : exists c, C13_mismatch c = false /\ C13_monitor c = 4 /\ diverges c = true.
Proof. exists w_k3_complete_then_gc.
  exact (conj w_k3_complete_then_gc_model_matches (conj w_k3_complete_then_gc_code w_k3_complete_then_gc_diverges)). Qed.
Lemma k4_refuted : exists c, C13_mismatch c = false /\ C13_monitor c = 5 /\ diverges c = true.
Proof. exists w_k4_cleanup_then_write.
  exact (conj w_k4_cleanup_then_write_model_matches (conj w_k4_cleanup_then_write_code w_k4_cleanup_then_write_diverges)). Qed.
Lemma k5_refuted : exists c, C13_mismatch c = false /\ C13_monitor c = 6 /\ diverges c = true.
Proof. exists w_k5_create_claim_complete.
  exact (conj w_k5_create_claim_complete_model_matches
        (conj w_k5_create_claim_complete_code w_k5_create_claim_complete_diverges)). Qed.
