(* Proof/Presence_map.v — map instances and small list facts for Model/Presence.v *)
From WK Require Import Base.Base Gen.Consts_C33 Model.Presence Proof.AckTracker_map.
From Coq Require Import Permutation Sorted.
Open Scope N_scope.

Lemma ikey_eqb_spec : forall a b : ikey, ikey_eqb a b = true <-> a = b.
Proof.
  intros [[[a1 a2] a3] a4] [[[b1 b2] b3] b4]. unfold ikey_eqb.
  rewrite !andb_true_iff, !N.eqb_eq. split.
  - intros [[[H1 H2] H3] H4]. subst. reflexivity.
  - intro H. inversion H. auto.
Qed.

Lemma ikey_eq_dec (a b : ikey) : {a = b} + {a <> b}.
Proof. repeat decide equality. Qed.

Lemma ikey_eqb_refl k : ikey_eqb k k = true.
Proof. apply ikey_eqb_spec. reflexivity. Qed.

Lemma ikey_eqb_neq a b : a <> b -> ikey_eqb a b = false.
Proof. intro H. destruct (ikey_eqb a b) eqn:E; [|reflexivity]. apply ikey_eqb_spec in E. contradiction. Qed.

Lemma Neqb_spec : forall a b : N, N.eqb a b = true <-> a = b.
Proof. intros. apply N.eqb_eq. Qed.

(* identity-keyed maps *)
Definition i_get_del_other {V} := @al_get_del_other ikey V ikey_eqb ikey_eqb_spec.
Definition i_get_set_same {V} := @al_get_set_same ikey V ikey_eqb ikey_eqb_spec.
Definition i_get_set_other {V} := @al_get_set_other ikey V ikey_eqb ikey_eqb_spec.
Definition i_get_none_iff {V} := @al_get_none_iff ikey V ikey_eqb ikey_eqb_spec.
Definition i_get_some_in {V} := @al_get_some_in ikey V ikey_eqb ikey_eqb_spec.
Definition i_get_some_key {V} := @al_get_some_key ikey V ikey_eqb ikey_eqb_spec.
Definition i_in_get {V} := @al_in_get ikey V ikey_eqb ikey_eqb_spec.
Definition i_keys_del {V} := @al_keys_del ikey V ikey_eqb ikey_eqb_spec.
Definition i_del_nodup {V} := @al_del_nodup ikey V ikey_eqb ikey_eqb_spec.
Definition i_set_nodup {V} := @al_set_nodup ikey V ikey_eqb ikey_eqb_spec.
Definition i_get_filter {V} := @al_get_filter ikey V ikey_eqb ikey_eqb_spec.
Definition i_get_del_same {V} := @al_get_del_same ikey V ikey_eqb.
Definition i_del_notin {V} := @al_del_notin ikey V ikey_eqb.
(* number-keyed maps (hash slot, uid, pending token) *)
Definition n_get_del_other {V} := @al_get_del_other N V N.eqb Neqb_spec.
Definition n_get_set_same {V} := @al_get_set_same N V N.eqb Neqb_spec.
Definition n_get_set_other {V} := @al_get_set_other N V N.eqb Neqb_spec.
Definition n_get_none_iff {V} := @al_get_none_iff N V N.eqb Neqb_spec.
Definition n_get_some_in {V} := @al_get_some_in N V N.eqb Neqb_spec.
Definition n_in_get {V} := @al_in_get N V N.eqb Neqb_spec.
Definition n_del_nodup {V} := @al_del_nodup N V N.eqb Neqb_spec.
Definition n_set_nodup {V} := @al_set_nodup N V N.eqb Neqb_spec.
Definition n_get_del_same {V} := @al_get_del_same N V N.eqb.

(* al_del is a filter *)
Lemma al_del_filter {K V} (eqb : K -> K -> bool) k (m : list (K * V)) :
  al_del eqb k m = filter (fun kv => negb (eqb k (fst kv))) m.
Proof.
  induction m as [|[k' v] m IH]; simpl; [reflexivity|]. destruct (eqb k k'); simpl; rewrite IH; reflexivity.
Qed.

(* ---- key sets ------------------------------------------------------------------------- *)
Lemma mem_key_in k ks : mem_key k ks = true <-> In k ks.
Proof.
  unfold mem_key. rewrite existsb_exists. split.
  - intros [x [H1 H2]]. apply ikey_eqb_spec in H2. subst. exact H1.
  - intro H. exists k. split; [exact H|apply ikey_eqb_refl].
Qed.

Lemma add_key_in k ks x : In x (add_key k ks) <-> x = k \/ In x ks.
Proof.
  unfold add_key. destruct (mem_key k ks) eqn:E.
  - apply mem_key_in in E. split; [intro H; right; exact H|intros [H|H]; [subst; exact E|exact H]].
  - rewrite in_app_iff. simpl. split.
    + intros [H|[H|[]]]; [right; exact H|left; symmetry; exact H].
    + intros [H|H]; [right; left; symmetry; exact H|left; exact H].
Qed.

Lemma add_key_nodup k ks : NoDup ks -> NoDup (add_key k ks).
Proof.
  intro H. unfold add_key. destruct (mem_key k ks) eqn:E; [exact H|].
  eapply Permutation_NoDup; [apply Permutation_cons_append|].
  constructor; [|exact H]. intro H1. apply mem_key_in in H1. congruence.
Qed.

Lemma del_key_in k ks x : In x (del_key k ks) <-> x <> k /\ In x ks.
Proof.
  unfold del_key. rewrite filter_In, negb_true_iff. split.
  - intros [H1 H2]. split; [|exact H1]. intro X. subst. rewrite ikey_eqb_refl in H2. discriminate.
  - intros [H1 H2]. split; [exact H2|]. apply ikey_eqb_neq. exact H1.
Qed.

Lemma del_key_nodup k ks : NoDup ks -> NoDup (del_key k ks).
Proof. apply NoDup_filter. Qed.

(* ---- lessIdentityKey is a strict total order ----------------------------------------------- *)
Lemma less_irrefl k : lessIdentityKey k k = false.
Proof. destruct k as [[[u n] b] s]. unfold lessIdentityKey. rewrite !N.eqb_refl. reflexivity. Qed.

Lemma less_trans a b c : lessIdentityKey a b = true -> lessIdentityKey b c = true -> lessIdentityKey a c = true.
Proof.
  destruct a as [[[au an] ab] as_]. destruct b as [[[bu bn] bb] bs]. destruct c as [[[cu cn] cb] cs].
  unfold lessIdentityKey.
  repeat match goal with |- context [?x =? ?y] => destruct (N.eqb_spec x y); subst; simpl end;
    rewrite ?N.ltb_lt in *; intros; try lia; try discriminate.
Qed.

Lemma less_total a b : a <> b -> lessIdentityKey a b = true \/ lessIdentityKey b a = true.
Proof.
  destruct a as [[[au an] ab] as_]. destruct b as [[[bu bn] bb] bs]. intro H.
  unfold lessIdentityKey.
  repeat match goal with |- context [?x =? ?y] => destruct (N.eqb_spec x y); subst; simpl end;
    rewrite ?N.ltb_lt; try lia; try congruence.
Qed.

(* ---- insertion sort --------------------------------------------------------------------------- *)
Lemma insert_by_perm {A} (lt : A -> A -> bool) x l : Permutation (insert_by lt x l) (x :: l).
Proof.
  induction l as [|y r IH]; simpl; [apply Permutation_refl|].
  destruct (lt x y); [apply Permutation_refl|].
  eapply Permutation_trans; [apply perm_skip; exact IH|]. apply perm_swap.
Qed.

Lemma sort_by_perm {A} (lt : A -> A -> bool) l : Permutation (sort_by lt l) l.
Proof.
  induction l as [|x r IH]; simpl; [constructor|].
  eapply Permutation_trans; [apply insert_by_perm|]. apply perm_skip. exact IH.
Qed.

Lemma sort_by_length {A} (lt : A -> A -> bool) l : length (sort_by lt l) = length l.
Proof. apply Permutation_length. apply sort_by_perm. Qed.

Section SortKeys.
  Context {A : Type} (key : A -> ikey).
  Let lt (a b : A) := lessIdentityKey (key a) (key b).

  Lemma insert_by_sorted x l :
    ~ In (key x) (map key l) ->
    StronglySorted (fun a b => lt a b = true) l ->
    StronglySorted (fun a b => lt a b = true) (insert_by lt x l).
  Proof.
    induction l as [|y r IH]; intros Hn HS; simpl.
    - constructor; [constructor|constructor].
    - inversion HS as [|? ? HS' HF]. subst.
      destruct (lt x y) eqn:E.
      + constructor; [exact HS|]. constructor; [exact E|].
        rewrite Forall_forall in *. intros z Hz. unfold lt in *. eapply less_trans; [exact E|apply HF; exact Hz].
      + constructor.
        * apply IH; [intro H; apply Hn; right; exact H|exact HS'].
        * assert (YX : lt y x = true).
          { unfold lt in *. destruct (less_total (key y) (key x)) as [H|H]; [|exact H|congruence].
            intro X. apply Hn. left. exact X. }
          rewrite Forall_forall in *. intros z Hz.
          eapply Permutation_in in Hz; [|apply insert_by_perm]. destruct Hz as [Hz|Hz]; [subst; exact YX|apply HF; exact Hz].
  Qed.

  Lemma sort_by_sorted l :
    NoDup (map key l) -> StronglySorted (fun a b => lt a b = true) (sort_by lt l).
  Proof.
    induction l as [|x r IH]; intro ND; simpl; [constructor|].
    inversion ND as [|? ? Hn ND']. subst. apply insert_by_sorted; [|apply IH; exact ND'].
    intro H. apply Hn. eapply Permutation_in; [apply Permutation_map; apply sort_by_perm|exact H].
  Qed.
End SortKeys.

(* the boolean used by the monitor *)
Lemma strictly_sorted_of_strong ks :
  StronglySorted (fun a b => lessIdentityKey a b = true) ks -> strictly_sorted ks = true.
Proof.
  induction 1 as [|k r HS IH HF]; [reflexivity|].
  simpl. destruct r as [|k2 r']; [reflexivity|]. rewrite IH. inversion HF. subst. rewrite H1. reflexivity.
Qed.
