(* Proof/ChanMigration_trace.v — the model's own trace of a history of one-command
   batches, the simulation relation between the model database and the monitor state, and
   the state clauses of the monitor on such a trace (rejected batches change nothing; at most
   one active task per channel). *)
From WK Require Import Base.Base.
From WK Require Import Gen.Consts_C15 Gen.Consts_C17 Model.RuntimeMeta Model.ChanMigration Model.ChanMigration_C17.
From WK Require Import Proof.RuntimeMeta Proof.ChanMigration Proof.ChanMigration_cmds Proof.ChanMigration_inv
                       Proof.ChanMigration_step.
Open Scope N_scope.

(* what the harness would print for database [d] over the channel alphabet [chs] *)
Definition obs_of (chs : list chan_key) (d : db) (r : bres) : obs :=
  Obs r (db_tasks d) (map (fun c => (c, active_get d c)) chs) (map (fun c => (c, meta_get d c)) chs).

Fixpoint model_trace (chs : list chan_key) (d : db) (cs : list cmd) : list (list cmd * obs) :=
  match cs with
  | [] => []
  | c :: r =>
    let d' := fst (apply_one d c) in
    ([c], obs_of chs d' (bres_of (snd (apply_one d c)))) :: model_trace chs d' r
  end.

(* the trace is exactly what run_mismatch compares against: the model agrees with it *)
Lemma model_trace_no_mismatch chs cs : forall d, run_mismatch d (model_trace chs d cs) = false.
Proof.
  induction cs as [|c r IH]; intro d; cbn [model_trace run_mismatch]; [reflexivity|].
  rewrite ApplyBatch_single.
  set (d' := fst (apply_one d c)). set (x := bres_of (snd (apply_one d c))).
  assert (M : obs_matches d' x (obs_of chs d' x) = true).
  { unfold obs_matches, obs_of. cbn [o_res o_tasks o_active o_metas].
    assert (R : bres_eqb x x = true).
    { destruct x as [e|rs]; cbn [bres_eqb]; [destruct e; reflexivity|].
      induction rs as [|n rs IHr]; cbn [list_eqb]; [reflexivity|rewrite N.eqb_refl; exact IHr]. }
    rewrite R. cbn [andb].
    assert (T : forall l, list_eqb task_eqb l l = true).
    { induction l as [|t l IHl]; cbn [list_eqb]; [reflexivity|rewrite task_eqb_refl; exact IHl]. }
    rewrite T. cbn [andb].
    apply andb_true_iff. split.
    - apply forallb_forall. intros [c0 v] Hin. apply in_map_iff in Hin. destruct Hin as [c1 [E _]].
      inversion E; subst. cbn [fst snd]. destruct (active_get d' c0); cbn [option_eqb]; [apply bytes_eqb_refl|reflexivity].
    - apply forallb_forall. intros [c0 v] Hin. apply in_map_iff in Hin. destruct Hin as [c1 [E _]].
      inversion E; subst. cbn [fst snd]. destruct (meta_get d' c0); cbn [option_eqb]; [apply runtime_meta_eqb_refl|reflexivity]. }
  rewrite M. apply IH.
Qed.

(* ---- snapshots of the model's observations ---------------------------------------------------- *)

Lemma assoc_get_map {V} (f : chan_key -> V) chs c :
  In c chs -> assoc_get chan_key_eqb (map (fun c => (c, f c)) chs) c = Some (f c).
Proof.
  induction chs as [|c0 r IH]; cbn [map assoc_get In]; [intros []|].
  intros [H|H].
  - subst. rewrite chan_key_eqb_refl. reflexivity.
  - destruct (chan_key_eqb c0 c) eqn:E; [apply chan_key_eqb_eq in E; subst; reflexivity|auto].
Qed.

Lemma assoc_get_map_none {V} (f : chan_key -> V) chs c :
  ~ In c chs -> assoc_get chan_key_eqb (map (fun c => (c, f c)) chs) c = None.
Proof.
  induction chs as [|c0 r IH]; cbn [map assoc_get In]; [reflexivity|].
  intro H. destruct (chan_key_eqb c0 c) eqn:E.
  - apply chan_key_eqb_eq in E. subst. exfalso. apply H. auto.
  - apply IH. intro K. apply H. auto.
Qed.

Lemma snap_task_obs chs d r k : snap_task (snap_of (obs_of chs d r)) k = task_get (db_tasks d) k.
Proof. reflexivity. Qed.

Lemma snap_active_obs chs d r c : In c chs -> snap_active (snap_of (obs_of chs d r)) c = active_get d c.
Proof. intro H. unfold snap_active, snap_of, obs_of. cbn [s_active o_active]. rewrite assoc_get_map by exact H. reflexivity. Qed.

Lemma snap_meta_obs chs d r c : In c chs -> snap_meta (snap_of (obs_of chs d r)) c = meta_get d c.
Proof. intro H. unfold snap_meta, snap_of, obs_of. cbn [s_metas o_metas]. rewrite assoc_get_map by exact H. reflexivity. Qed.

(* the snapshot [p] the monitor remembers shows database [d] on the alphabet *)
Definition shows (chs : list chan_key) (p : snap) (d : db) : Prop :=
  s_tasks p = db_tasks d
  /\ forall c, In c chs -> snap_active p c = active_get d c /\ snap_meta p c = meta_get d c.

Lemma shows_obs chs d r : shows chs (snap_of (obs_of chs d r)) d.
Proof. split; [reflexivity|]. intros c H. split; [apply snap_active_obs|apply snap_meta_obs]; exact H. Qed.

Lemma shows_empty chs : shows chs snap_empty db_empty.
Proof. split; [reflexivity|]. intros c _. split; reflexivity. Qed.

(* ---- accepted commands of a one-command batch ----------------------------------------------------- *)

Definition accepted (x : res N) : bool := match x with Ok 0 => true | _ => false end.

Lemma ok_cmds_single c x : ok_cmds [c] (bres_of x) = if accepted x then [c] else [].
Proof.
  unfold ok_cmds. cbn [indexed length filter map fst snd].
  destruct x as [n|e]; cbn [bres_of cmd_ok accepted].
  - cbn [nth_error]. destruct n as [|p]; [reflexivity|]. cbn [N.eqb]. reflexivity.
  - reflexivity.
Qed.

Lemma not_accepted_same d c : accepted (snd (apply_one d c)) = false -> fst (apply_one d c) = d.
Proof.
  intro H. destruct (apply_one d c) as [d' x] eqn:E. cbn [fst snd] in *.
  apply (apply_one_rejected _ _ _ _ E). intro K. subst x. discriminate.
Qed.

Lemma accepted_eq d c : accepted (snd (apply_one d c)) = true -> apply_one d c = (fst (apply_one d c), Ok 0).
Proof.
  destruct (apply_one d c) as [d' x]. cbn [fst snd]. destruct x as [n|e]; [|discriminate].
  destruct n; [reflexivity|discriminate].
Qed.

(* ---- clause: a rejected batch changes nothing ----------------------------------------------------------- *)

Lemma list_eqb_task_refl l : list_eqb task_eqb l l = true.
Proof. induction l as [|t l IH]; cbn [list_eqb]; [reflexivity|rewrite task_eqb_refl; exact IH]. Qed.

Lemma snap_unchanged_shows chs p d r : shows chs p d -> snap_unchanged p (snap_of (obs_of chs d r)) = true.
Proof.
  intros [T S]. unfold snap_unchanged, snap_of, obs_of. cbn [s_tasks s_active s_metas o_tasks o_active o_metas].
  rewrite T, list_eqb_task_refl. cbn [andb].
  apply andb_true_iff. split; apply forallb_forall; intros [c0 v] Hin; apply in_map_iff in Hin;
    destruct Hin as [c1 [E Hc]]; inversion E; subst; cbn [fst snd]; destruct (S _ Hc) as [S1 S2].
  - rewrite S1. destruct (active_get d c0); cbn [option_eqb]; [apply bytes_eqb_refl|reflexivity].
  - rewrite S2. destruct (meta_get d c0); cbn [option_eqb]; [apply runtime_meta_eqb_refl|reflexivity].
Qed.

Lemma all_stale_single x : all_stale (bres_of x) || match bres_of x with BErr _ => true | _ => false end = negb (accepted x)
                           \/ accepted x = false.
Proof. destruct x as [n|e]; cbn; [destruct n; auto|auto]. Qed.

(* ---- clause: single active task ---------------------------------------------------------------------------- *)

Lemma active_on_unique d ch t1 t2 :
  db_inv d -> In t1 (filter (fun t => chan_key_eqb (task_chan t) ch && isActive t) (db_tasks d)) ->
  In t2 (filter (fun t => chan_key_eqb (task_chan t) ch && isActive t) (db_tasks d)) -> t1 = t2.
Proof.
  intros I H1 H2. apply filter_In in H1. apply filter_In in H2.
  destruct H1 as [I1 F1], H2 as [I2 F2]. b2p.
  apply chan_key_eqb_eq in H, H1. eapply inv_single_active; eauto. congruence.
Qed.

Lemma nodup_filter {A} (f : A -> bool) (g : A -> tkey) l : NoDup (map g l) -> NoDup (map g (filter f l)).
Proof.
  induction l as [|a l IH]; cbn [filter map]; intro N; [constructor|].
  inversion N as [|? ? N1 N2]; subst.
  destruct (f a); [|auto]. cbn [map]. constructor; [|auto].
  intro H. apply N1. apply in_map_iff in H. destruct H as [b [E Hb]]. apply filter_In in Hb.
  rewrite <- E. apply in_map. tauto.
Qed.

Lemma active_on_short d ch :
  db_inv d ->
  filter (fun t => chan_key_eqb (task_chan t) ch && isActive t) (db_tasks d) = []
  \/ exists t, filter (fun t => chan_key_eqb (task_chan t) ch && isActive t) (db_tasks d) = [t].
Proof.
  intro I.
  pose proof (active_on_unique d ch) as U.
  pose proof (nodup_filter (fun t => chan_key_eqb (task_chan t) ch && isActive t) task_key (db_tasks d) (proj1 I)) as N.
  destruct (filter (fun t => chan_key_eqb (task_chan t) ch && isActive t) (db_tasks d)) as [|a [|b r]].
  - left. reflexivity.
  - right. exists a. reflexivity.
  - exfalso. assert (a = b) by (apply U; auto; [left|right; left]; reflexivity).
    subst b. cbn [map] in N. inversion N as [|? ? N1 _]. apply N1. left. reflexivity.
Qed.

Lemma single_active_code_zero chs cs okc p d r ch :
  db_inv d -> single_active_code cs okc p (snap_of (obs_of chs d r)) [] ch = 0.
Proof.
  intro I. unfold single_active_code. cbn [chan_in existsb].
  unfold active_on. cbn [snap_of obs_of s_tasks o_tasks s_active o_active].
  destruct (active_on_short d ch I) as [E|[t E]]; rewrite E; [reflexivity|].
  assert (Ht : In t (filter (fun t => chan_key_eqb (task_chan t) ch && isActive t) (db_tasks d)))
    by (rewrite E; left; reflexivity).
  apply filter_In in Ht. destruct Ht as [It Ft]. b2p. apply chan_key_eqb_eq in H. subst ch.
  destruct (in_dec (fun a b => match chan_key_eqb a b as x return (chan_key_eqb a b = x -> {a = b} + {a <> b}) with
                               | true => fun E0 => left (proj1 (chan_key_eqb_eq a b) E0)
                               | false => fun E0 => right (proj1 (chan_key_eqb_neq a b) E0)
                               end eq_refl) (task_chan t) chs) as [Hin|Hnin].
  - rewrite assoc_get_map by exact Hin. rewrite (proj2 I _ It H0), bytes_eqb_refl. reflexivity.
  - rewrite assoc_get_map_none by exact Hnin. reflexivity.
Qed.

Lemma combine_zero_l b : combine 0 b = b.
Proof. unfold combine. destruct (b =? 1) eqn:E; cbn [orb N.eqb]; [apply N.eqb_eq in E; auto|reflexivity]. Qed.

Lemma single_active_step_zero chs cs okc p d r :
  db_inv d -> single_active_step cs okc p (snap_of (obs_of chs d r)) [] = (0, []).
Proof.
  intro I. unfold single_active_step.
  generalize (chans_of_tasks (s_tasks (snap_of (obs_of chs d r))) []).
  induction l as [|ch l IH]; cbn [fold_left]; [reflexivity|].
  cbn [fst snd]. rewrite (single_active_code_zero chs cs okc p d r ch I). cbn [combine N.eqb orb N.leb].
  exact IH.
Qed.
