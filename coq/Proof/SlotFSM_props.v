(* Proof/SlotFSM_props.v — point properties of the slot state machine model (Model/SlotFSM.v):
   refusal of commands for hash slots the slot does not own, refusal of ordinary writes
   behind a migration fence, idempotence of apply_delta. *)
From WK Require Import Base.Base.
From WK Require Import Gen.Consts_C15 Gen.Consts_C17 Gen.Consts_C13.
From WK Require Import Model.RuntimeMeta Model.ChanMigration Model.SlotFSM.
From WK Require Import Proof.SlotFSM_machine Proof.SlotFSM_inst.
Open Scope N_scope.

(* ---- a staging error aborts the whole batch, nothing is written ------------------------------------ *)

Lemma stage_all_fatal_member cfg d : forall cs t c,
    In c cs -> (forall t', exists e, fsm_stage cfg d t' c = SFatal e) ->
    exists e, stage_all (fsm_stage cfg) d t cs = inl e.
Proof.
  induction cs as [|x cs IH]; intros t c Hin Hf; [contradiction|].
  cbn [stage_all]. destruct (fsm_stage cfg d t x) as [e|t' ops r] eqn:Sx; [eauto|].
  destruct Hin as [->|Hin].
  - destruct (Hf t) as (e & He). rewrite He in Sx. discriminate.
  - destruct (IH t' c Hin Hf) as (e & He). rewrite He. eauto.
Qed.

Theorem fsm_stage_error_no_effect cfg d cs e :
  stage_all (fsm_stage cfg) d bstate0 cs = inl e -> fsm_apply_batch cfg d cs = (d, BErr e).
Proof.
  intro H. unfold fsm_apply_batch, ApplyBatch, apply_core. rewrite H. reflexivity.
Qed.

(* resolveHashSlot refuses an ordinary or channel command for a hash slot that is not owned *)
Lemma resolve_unowned cfg c :
  isMigrationMaintenanceCommand (fc_cmd c) = false ->
  memN (if (fc_hs c =? 0) && cfg_allow_legacy cfg then cfg_legacy cfg else fc_hs c) (cfg_owned cfg) = false ->
  resolveHashSlot cfg c = None.
Proof.
  unfold resolveHashSlot. intros Hm Ho.
  destruct (fc_cmd c); cbn in Hm; try discriminate; rewrite Ho; reflexivity.
Qed.

(* a batch containing a command with a foreign slot id, or for a hash slot the slot does not own,
   is refused as a whole and leaves the store as it was *)
Theorem fsm_unowned_refused cfg d cs c :
  In c cs ->
  fc_slot_ok c = false \/ resolveHashSlot cfg c = None ->
  exists e, fsm_apply_batch cfg d cs = (d, BErr e).
Proof.
  intros Hin Hbad.
  destruct (stage_all_fatal_member cfg d cs bstate0 c Hin) as (e & He).
  - intro t'. unfold fsm_stage. destruct Hbad as [Hs|Hr].
    + rewrite Hs. cbn. eauto.
    + destruct (negb (fc_slot_ok c)); [eauto|]. rewrite Hr. eauto.
  - exists e. apply fsm_stage_error_no_effect. exact He.
Qed.

(* ---- behind the fence ------------------------------------------------------------------------------------- *)

(* an ordinary command for a hash slot whose durable (or staged) migration state carries a fence of
   this slot is answered hash_slot_fenced and stages nothing *)
Theorem fsm_fenced_refused cfg d b c hs x :
  fc_slot_ok c = true ->
  resolveHashSlot cfg c = Some hs ->
  isMigrationMaintenanceCommand (fc_cmd c) = false ->
  load_state d b hs = Some x ->
  hs_source x = cfg_slot cfg -> hs_fence_index x <> 0 ->
  (forall t ph, mig_get (cfg_migs cfg) hs = Some (t, ph) -> t = 0 \/ t = hs_target x) ->
  fsm_stage cfg d b c = SDone b [] (R_FENCED, []).
Proof.
  intros Hs Hr Hm Hl Hsrc Hf Hmig. unfold fsm_stage. rewrite Hs, Hr, Hm. cbn [negb andb].
  assert (F : isHashSlotFenced cfg d b hs = true).
  { unfold isHashSlotFenced. rewrite Hl, Hsrc, N.eqb_refl. cbn [negb orb].
    destruct (hs_fence_index x =? 0) eqn:E; [apply N.eqb_eq in E; contradiction|].
    destruct (mig_get (cfg_migs cfg) hs) as [[t ph]|] eqn:Mg; [|reflexivity].
    destruct (Hmig t ph eq_refl) as [Ht|Ht]; subst t.
    - reflexivity.
    - rewrite N.eqb_refl. cbn. destruct (hs_target x =? 0); reflexivity. }
  rewrite F. reflexivity.
Qed.

(* ---- apply_delta is applied once ------------------------------------------------------------------------------ *)

(* replay: the delta's record is durable or was staged earlier in the batch -> ok, nothing staged *)
Theorem fsm_delta_replay_noop cfg d b c s i h orig :
  fc_slot_ok c = true -> fc_cmd c = HDelta s i h orig -> fc_hs c = h -> s <> 0 -> i <> 0 ->
  delta_seen d b (DKey h s i) = true ->
  fsm_stage cfg d b c = SDone b [] (R_OK, []).
Proof.
  intros Hs Hc Hh Hs0 Hi0 Hseen. unfold fsm_stage. rewrite Hs. cbn [negb].
  unfold resolveHashSlot. rewrite Hc, Hh, N.eqb_refl. cbn [isMigrationMaintenanceCommand negb andb].
  unfold delta_seen in Hseen.
  destruct (dkey_mem (DKey h s i) (bs_delta b)) eqn:P; [reflexivity|].
  cbn [orb] in Hseen. cbn [dk_src dk_idx].
  assert (E1 : (s =? 0) = false) by (apply N.eqb_neq; exact Hs0).
  assert (E2 : (i =? 0) = false) by (apply N.eqb_neq; exact Hi0).
  rewrite E1, E2, Hseen. reflexivity.
Qed.

(* first application of a good delta: the original command's operations and the applied record *)
Theorem fsm_delta_first cfg d b c s i h o :
  fc_slot_ok c = true -> fc_cmd c = HDelta s i h (Some o) -> fc_hs c = h -> s <> 0 -> i <> 0 ->
  inner_ok h o = true ->
  delta_seen d b (DKey h s i) = false ->
  fsm_stage cfg d b c =
  SDone (set_bs_delta b (DKey h s i :: bs_delta b)) (plain_ops h o ++ [WMarkApplied (DKey h s i)]) (R_OK, []).
Proof.
  intros Hs Hc Hh Hs0 Hi0 Hin Hseen.
  assert (G : good_cmd c).
  { unfold good_cmd. rewrite Hc. cbn [good_hcmd].
    assert (E1 : (s =? 0) = false) by (apply N.eqb_neq; exact Hs0).
    assert (E2 : (i =? 0) = false) by (apply N.eqb_neq; exact Hi0).
    rewrite E1, E2, Hin. reflexivity. }
  rewrite (stage_good_eq cfg d b c G). unfold stage_spec, lift_spec, hs_of. rewrite Hs. cbn [negb].
  unfold resolveHashSlot. rewrite Hc, Hh, N.eqb_refl. rewrite Hseen. cbn [upd_b]. reflexivity.
Qed.

(* a single-command batch with a replayed delta changes nothing but the applied index *)
Theorem fsm_delta_batch_idempotent cfg d c s i h orig :
  fc_slot_ok c = true -> fc_cmd c = HDelta s i h orig -> fc_hs c = h -> s <> 0 -> i <> 0 ->
  dkey_mem (DKey h s i) (st_applied d) = true ->
  exists d', fsm_apply_batch cfg d [c] = (d', BRes [(R_OK, [])]) /\ store_eqv d' d.
Proof.
  intros Hs Hc Hh Hs0 Hi0 Hap.
  assert (St : fsm_stage cfg d bstate0 c = SDone bstate0 [] (R_OK, [])).
  { apply (fsm_delta_replay_noop cfg d bstate0 c s i h orig); auto;
      unfold delta_seen; rewrite Hap; apply orb_true_r. }
  unfold fsm_apply_batch, ApplyBatch, apply_core. cbn [stage_all]. rewrite St. cbn [app].
  unfold fsm_finish. cbn [rev app].
  destruct (fc_index c =? 0).
  - cbn. exists d. split; [reflexivity|apply store_eqv_refl].
  - cbn [run_ops]. rewrite run_op_good by exact I. cbn.
    eexists. split; [reflexivity|]. repeat split.
Qed.
