(* Proof/AckTracker.v — the clauses of C32 as statements about the model of
   internal/runtime/delivery/ack_tracker.go, for every reachable tracker state. *)
From WK Require Import Base.Base Gen.Consts_C32 Model.AckTracker.
From WK Require Import Proof.AckTracker_map Proof.AckTracker_entry Proof.AckTracker_index Proof.AckTracker_inv
     Proof.AckTracker_sim Proof.AckTracker_sim2 Proof.AckTracker_sim3 Proof.AckTracker_sim4.
From Coq Require Import Permutation.
Open Scope N_scope.

(* a tracker state is reachable when some history of API calls on a fresh
   tracker (any shard count, any per-session limit, clock in the int64 Unix-second
   range, ttl arguments of type int64) ends in it *)
Definition reachable (t : tracker) : Prop :=
  exists shards limit now ops,
    (0 <= now <= i64_max)%Z /\ Forall op_in_range ops
    /\ fst (fst (run (NewAckTracker shards limit, now) ops)) = t.

Lemma reachable_inv t : reachable t -> Inv t.
Proof.
  intros [shards [limit [now [ops [Hn [HR E]]]]]].
  pose proof (reachable_sim shards limit now ops Hn HR) as RS.
  destruct (run (NewAckTracker shards limit, now) ops) as [[t0 now'] tr]. simpl in E. subst t0.
  destruct RS as [s [_ [[I _] _]]]. exact I.
Qed.

(* 1. the derived counter is the number of rows, and rows are distinct identities *)
Lemma count_exact t :
  reachable t -> t_count t = Z.of_nat (length (t_byMessage t)) /\ NoDup (map fst (t_byMessage t)).
Proof. intro H. apply reachable_inv in H. split; [apply (inv_count t H)|apply (inv_nodup t H)]. Qed.

(* 2. bySession is exactly the projection of byMessage *)
Lemma index_consistent t :
  reachable t ->
  forall u s m,
    (exists ms, al_get skey_eqb (u, s) (t_bySession t) = Some ms /\ In m ms)
    <-> al_get key_eqb (u, s, m) (t_byMessage t) <> None.
Proof. intros H u s m. apply reachable_inv in H. apply (si_proj _ _ (inv_index t H)). Qed.

Lemma index_rows t :
  reachable t -> forall sk ms, al_get skey_eqb sk (t_bySession t) = Some ms -> ms <> [] /\ NoDup ms.
Proof. intros H. apply reachable_inv in H. apply (si_rows _ _ (inv_index t H)). Qed.

(* 3. an acknowledgement removes exactly the matching identity *)
Lemma ack_only_matching t u s m :
  reachable t ->
  let '(t', r) := Ack t u s m in
  (forall k, k <> (u, s, m) -> kget k (t_byMessage t') = kget k (t_byMessage t))
  /\ kget (u, s, m) (t_byMessage t') = None
  /\ match kget (u, s, m) (t_byMessage t) with
     | Some e => r = RAck true (e_pending e) /\ t_count t' = (t_count t - 1)%Z
     | None => r = RAck false zero_pending /\ t' = t
     end.
Proof.
  intro H. apply reachable_inv in H. unfold Ack.
  destruct ((u =? 0) || (s =? 0) || (m =? 0)) eqn:C.
  - assert (G : kget (u, s, m) (t_byMessage t) = None).
    { destruct (kget (u, s, m) (t_byMessage t)) eqn:G; [|reflexivity].
      destruct (inv_entries t H _ _ G) as [_ [K1 [K2 K3]]].
      apply N.eqb_neq in K1, K2, K3. rewrite K1, K2, K3 in C. discriminate. }
    rewrite G. auto.
  - destruct (kget (u, s, m) (t_byMessage t)) as [e|] eqn:G; proj.
    + split; [intros k Hk; apply k_get_del_other; congruence|]. split; [apply k_get_del_same|auto].
    + rewrite G. auto.
Qed.

(* 4. rolling back one reservation never removes an identity that is committed
      or still has another live reservation; other identities are untouched *)
Definition other_live (e : entry) (tok : N) : Prop :=
  (e_primary e <> 0 /\ e_primary e <> tok) \/ exists a, In a (e_extra e) /\ a_token a <> tok.

Lemma other_live_abs e tok : entry_wf e -> other_live e tok -> exists x, x <> tok /\ In x (map fst (abs_live e)).
Proof.
  intros W [[H1 H2]|[a [H1 H2]]].
  - exists (e_primary e). split; [exact H2|]. unfold abs_live. rewrite map_app, prim_live_fst.
    apply in_or_app. left. apply N.eqb_neq in H1. rewrite H1. left. reflexivity.
  - exists (a_token a). split; [exact H2|]. unfold abs_live. rewrite map_app, ext_live_fst.
    apply in_or_app. right. apply in_map. exact H1.
Qed.

Lemma cancel_keeps_committed t p tok e :
  reachable t -> kget (key_of p) (t_byMessage t) = Some e ->
  e_committed e = true \/ other_live e tok ->
  let '(t', r) := CancelBind t p tok in
  kget (key_of p) (t_byMessage t') <> None
  /\ (forall k, k <> key_of p -> kget k (t_byMessage t') = kget k (t_byMessage t))
  /\ t_count t' = t_count t
  /\ exists c, r = RCancel c false (t_count t).
Proof.
  intros H G HY. apply reachable_inv in H. unfold CancelBind.
  destruct (negb (validPendingRecvAck p) || (tok =? 0)) eqn:C.
  { rewrite G. split; [discriminate|]. split; [reflexivity|]. split; [reflexivity|eexists; reflexivity]. }
  apply orb_false_iff in C. destruct C as [_ TZ]. apply N.eqb_neq in TZ.
  rewrite G. destruct (inv_entries t H _ _ G) as [[W A K B] _].
  pose proof (cancelAttempt_abs e tok W TZ) as CA.
  destruct (cancelAttempt e tok) as [e' ok]. destruct CA as [F1 [F2 F3]].
  destruct ok; cbn [negb].
  2:{ rewrite G. split; [discriminate|]. split; [reflexivity|]. split; [reflexivity|eexists; reflexivity]. }
  destruct (F3 eq_refl) as [C1 [C2 [C3 [C4 C5]]]].
  destruct (e_committed e' || hasAttempts e') eqn:FL; proj.
  - rewrite k_get_set_same. split; [discriminate|].
    split; [intros k Hk; apply k_get_set_other; congruence|]. split; [reflexivity|eexists; reflexivity].
  - exfalso. destruct C4 as [C4 _]. destruct (C4 eq_refl) as [X1 X2].
    destruct HY as [HY|HY].
    + rewrite C1 in X1. unfold abs_committed in X1. rewrite HY in X1. discriminate.
    + destruct (other_live_abs e tok W HY) as [x [Hx1 Hx2]].
      assert (IN : In x (map fst (live_del tok (abs_live e)))) by (apply live_del_fst; split; assumption).
      eapply Permutation_in in IN; [|apply Permutation_map; apply Permutation_sym; exact C2].
      rewrite X2 in IN. destruct IN.
Qed.

(* 5. closing a session removes exactly that session's identities *)
Lemma session_closed_exact t u s :
  reachable t ->
  let '(t', r) := SessionClosed t u s in
  exists ps, r = RList ps
  /\ (forall k, kget k (t_byMessage t') =
                if skey_eqb (key_skey k) (u, s) then None else kget k (t_byMessage t))
  /\ (forall p, In p ps <-> exists k e, key_skey k = (u, s) /\ kget k (t_byMessage t) = Some e /\ p = e_pending e)
  /\ t_count t' = (t_count t - Z.of_nat (length ps))%Z
  /\ NoDup (map key_of ps).
Proof.
  intro H. apply reachable_inv in H. rename H into I. unfold SessionClosed.
  assert (NOTHING : (forall k e, kget k (t_byMessage t) = Some e -> key_skey k <> (u, s)) ->
            exists ps : list pending, RList [] = RList ps
            /\ (forall k, kget k (t_byMessage t) = if skey_eqb (key_skey k) (u, s) then None else kget k (t_byMessage t))
            /\ (forall p, In p ps <-> exists k e, key_skey k = (u, s) /\ kget k (t_byMessage t) = Some e /\ p = e_pending e)
            /\ t_count t = (t_count t - Z.of_nat (length ps))%Z /\ NoDup (map key_of ps)).
  { intro NO. exists []. split; [reflexivity|]. split; [|split; [|split; [simpl; lia|constructor]]].
    - intro k. destruct (skey_eqb (key_skey k) (u, s)) eqn:E; [|reflexivity]. apply skey_eqb_spec in E.
      destruct (kget k (t_byMessage t)) eqn:G; [|reflexivity]. exfalso. apply (NO _ _ G E).
    - intro p. split; [intros []|]. intros [k [e [E [G _]]]]. apply (NO _ _ G E). }
  destruct ((u =? 0) || (s =? 0)) eqn:C.
  { apply NOTHING. intros k e G X. destruct (inv_entries t I _ _ G) as [_ KV].
    destruct k as [[ku ks] km]. simpl in X. inversion X. subst. destruct KV as [K1 [K2 _]].
    apply N.eqb_neq in K1, K2. rewrite K1, K2 in C. discriminate. }
  destruct (sget (u, s) (t_bySession t)) as [mids|] eqn:GS.
  2:{ apply NOTHING. intros k e G X. apply key_skey_eq in X.
      assert (HK : has_key (t_byMessage t) (u, s, key_mid k)) by (unfold has_key; rewrite <- X, G; discriminate).
      apply (si_proj _ _ (inv_index t I)) in HK. destruct HK as [ms [HK _]]. congruence. }
  destruct (si_rows _ _ (inv_index t I) _ _ GS) as [NE NDm].
  destruct mids as [|m0 r0]; [contradiction|]. remember (m0 :: r0) as mids eqn:EM. clear EM m0 r0.
  pose proof (close_loop_spec u s mids NDm (t_byMessage t) (inv_nodup t I)) as CL.
  destruct (close_loop (t_byMessage t) u s mids) as [bm' ps]. destruct CL as [C1 [C2 [C3 C4]]].
  assert (ALL : forall m, In m mids -> exists e, kget (u, s, m) (t_byMessage t) = Some e).
  { intros m Hm. assert (HK : has_key (t_byMessage t) (u, s, m)).
    { apply (si_proj _ _ (inv_index t I)). exists mids. split; [exact GS|exact Hm]. }
    unfold has_key in HK. destruct (kget (u, s, m) (t_byMessage t)); [eexists; reflexivity|contradiction]. }
  assert (NOT : forall m, ~ In m mids -> kget (u, s, m) (t_byMessage t) = None).
  { intros m Hm. destruct (kget (u, s, m) (t_byMessage t)) eqn:G; [|reflexivity]. exfalso. apply Hm.
    assert (HK : has_key (t_byMessage t) (u, s, m)) by (unfold has_key; rewrite G; discriminate).
    apply (si_proj _ _ (inv_index t I)) in HK. destruct HK as [ms [H1 H2]]. congruence. }
  assert (KS : map key_of ps = map (fun m => (u, s, m)) mids).
  { rewrite C3. clear C3 C4. generalize ALL. generalize mids. induction mids0 as [|m r IH]; intro A; [reflexivity|].
    simpl. destruct (A m (or_introl eq_refl)) as [e G]. rewrite G. simpl. f_equal.
    - destruct (inv_entries t I _ _ G) as [[_ _ K _] _]. apply K. left. reflexivity.
    - apply IH. intros x Hx. apply A. right. exact Hx. }
  exists ps. proj. split; [reflexivity|]. split; [|split; [|split]].
  - intro k. rewrite C2. destruct (skey_eqb (key_skey k) (u, s)) eqn:E; [|reflexivity]. cbn [andb].
    destruct (mem_mid (key_mid k) mids) eqn:M; [reflexivity|].
    apply skey_eqb_spec in E. apply key_skey_eq in E. rewrite E. apply NOT.
    intro X. apply mem_mid_in in X. congruence.
  - intro p. rewrite C3, in_flat_map. split.
    + intros [m [Hm Hp]]. destruct (kget (u, s, m) (t_byMessage t)) as [e|] eqn:G; [|destruct Hp].
      destruct Hp as [Hp|[]]. exists (u, s, m), e. auto.
    + intros [k [e [E [G Hp]]]]. apply key_skey_eq in E. exists (key_mid k). split.
      * destruct (in_dec N.eq_dec (key_mid k) mids) as [Y|Y]; [exact Y|]. apply NOT in Y. congruence.
      * rewrite <- E, G. left. symmetry. exact Hp.
  - assert (L : length ps = length mids) by (rewrite <- (map_length key_of ps), KS, map_length; reflexivity).
    lia.
  - rewrite KS. apply FinFun.Injective_map_NoDup; [|exact NDm]. intros a b X. inversion X. reflexivity.
Qed.

(* 6. expiry removes exactly the identities all of whose committed and in-flight
      deliveries are at least ttl old; nothing else changes *)
Definition entry_candidates (e : entry) : list Z :=
  p_at (e_pending e) :: map (fun a => p_at (a_pending a)) (e_extra e).

Lemma hasDeliveryAfter_candidates e cutoff :
  hasDeliveryAfter e cutoff = false <-> forall a, In a (entry_candidates e) -> (a <= cutoff)%Z.
Proof.
  unfold hasDeliveryAfter, entry_candidates. rewrite orb_false_iff. split.
  - intros [H1 H2] a [Ha|Ha].
    + subst a. apply Z.ltb_ge in H1. exact H1.
    + apply in_map_iff in Ha. destruct Ha as [x [E1 E2]]. subst a.
      destruct (Z_le_gt_dec (p_at (a_pending x)) cutoff) as [L|L]; [exact L|exfalso].
      assert (X : existsb (fun a => (cutoff <? p_at (a_pending a))%Z) (e_extra e) = true).
      { apply existsb_exists. exists x. split; [exact E2|apply Z.ltb_lt; lia]. }
      congruence.
  - intro H. split.
    + apply Z.ltb_ge. apply H. left. reflexivity.
    + destruct (existsb (fun a => (cutoff <? p_at (a_pending a))%Z) (e_extra e)) eqn:X; [|reflexivity].
      apply existsb_exists in X. destruct X as [x [E1 E2]]. apply Z.ltb_lt in E2.
      assert (L : (p_at (a_pending x) <= cutoff)%Z) by (apply H; right; apply in_map_iff; exists x; auto). lia.
Qed.

Lemma expire_only_idle t now ttl :
  reachable t -> (0 <= now <= i64_max)%Z -> (ttl <= i64_max)%Z ->
  let '(t', r) := Expire t now ttl in
  (forall k e, kget k (t_byMessage t) = Some e ->
     (kget k (t_byMessage t') = None <->
      (0 < ttl)%Z /\ forall a, In a (entry_candidates e) -> (ttl <= (now - a) * time_second)%Z)
     /\ (kget k (t_byMessage t') = None \/ kget k (t_byMessage t') = Some e))
  /\ (forall k, kget k (t_byMessage t) = None -> kget k (t_byMessage t') = None)
  /\ exists ps, r = RList ps /\ t_count t' = (t_count t - Z.of_nat (length ps))%Z
     /\ (forall p, In p ps <-> exists k e, kget k (t_byMessage t) = Some e
                                /\ kget k (t_byMessage t') = None /\ p = e_pending e).
Proof.
  intros H Hn Ht. apply reachable_inv in H. rename H into I. unfold Expire.
  destruct (ttl <=? 0)%Z eqn:TZ.
  { apply Z.leb_le in TZ. split; [|split].
    - intros k e G. split; [|right; exact G]. rewrite G. split; [discriminate|]. intros [X _]. lia.
    - auto.
    - exists []. split; [reflexivity|]. split; [simpl; lia|]. intro p. split; [intros []|].
      intros [k [e [G1 [G2 _]]]]. congruence. }
  apply Z.leb_gt in TZ. proj. rewrite (cutoff_no_wrap now ttl Hn (conj TZ Ht)).
  set (cutoff := (now - ttl_seconds ttl)%Z).
  assert (GETK : forall k, kget k (filter (fun ke : key * entry => hasDeliveryAfter (snd ke) cutoff) (t_byMessage t))
                 = match kget k (t_byMessage t) with
                   | Some e => if hasDeliveryAfter e cutoff then Some e else None
                   | None => None
                   end).
  { intro k. rewrite (k_get_filter _ _ _ (inv_nodup t I)). reflexivity. }
  assert (IDLE : forall e, hasDeliveryAfter e cutoff = false <->
                           forall a, In a (entry_candidates e) -> (ttl <= (now - a) * time_second)%Z).
  { intro e. rewrite hasDeliveryAfter_candidates. split; intros X a Ha; specialize (X a Ha).
    - apply (ttl_seconds_spec ttl (now - a) TZ). unfold cutoff in X. lia.
    - apply (ttl_seconds_spec ttl (now - a) TZ) in X. unfold cutoff. lia. }
  split; [|split].
  - intros k e G. rewrite GETK, G. destruct (hasDeliveryAfter e cutoff) eqn:HD.
    + split; [|right; reflexivity]. split; [discriminate|]. intros [_ X]. apply IDLE in X. congruence.
    + split; [|left; reflexivity]. split; [|reflexivity]. intros _. split; [exact TZ|]. apply IDLE. exact HD.
  - intros k G. rewrite GETK, G. reflexivity.
  - eexists. split; [reflexivity|]. split; [rewrite map_length; reflexivity|].
    intro p. rewrite in_map_iff. split.
    + intros [[k e] [E1 E2]]. simpl in E1. apply filter_In in E2. destruct E2 as [E2 E3]. simpl in E3.
      apply negb_true_iff in E3. pose proof (k_in_get _ _ _ (inv_nodup t I) E2) as G.
      exists k, e. split; [exact G|]. split; [rewrite GETK, G, E3; reflexivity|symmetry; exact E1].
    + intros [k [e [G [G' Hp]]]]. exists (k, e). split; [symmetry; exact Hp|].
      apply filter_In. split; [apply (k_get_some_in _ _ _ G)|]. simpl.
      rewrite GETK, G in G'. destruct (hasDeliveryAfter e cutoff); [discriminate|reflexivity].
Qed.

(* 7. the per-session limit bounds every session's outstanding identities *)
Lemma per_session_bound t :
  reachable t -> (0 < t_limit t)%Z ->
  forall sk ms, al_get skey_eqb sk (t_bySession t) = Some ms -> (Z.of_nat (length ms) <= t_limit t)%Z.
Proof. intros H. apply reachable_inv in H. apply (inv_limit t H). Qed.
