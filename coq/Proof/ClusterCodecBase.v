(* Proof/ClusterCodecBase.v — the lemmas of the codec combinators, proved once
   by induction on the format:
     decode_encode        decode (encode v ++ rest) = Some (v, rest)      (round trip)
     decode_stable        a successful parse is unchanged by appending input
     decode_shrinks       the leftover is a suffix no longer than the input
     truncation_rejected  no strict prefix of an encoding is accepted
     allocs_bounded       every allocation request is bounded BEFORE it is made
     veqb_sound / veqb_refl
*)
From WK Require Import Base.Base Base.Bytes Model.ClusterCodecBase.
From Coq Require Import ZifyBool ZifyN ZifyNat.
Open Scope N_scope.

(* ---- uvarint ---------------------------------------------------------------- *)

(* values encodable in [fuel] bytes under Go's overflow rule; [ulimit 10 = 2^64] *)
Fixpoint ulimit (fuel : nat) : N :=
  match fuel with
  | O => 0
  | S f => match f with O => 2 | S _ => 128 * ulimit f end
  end.

Lemma ulimit_10 : ulimit 10 = two64.
Proof. vm_compute. reflexivity. Qed.

Lemma ulimit_S f : ulimit (S (S f)) = 128 * ulimit (S f).
Proof. reflexivity. Qed.

Lemma uvar_loop_enc : forall fuel x mul acc rest,
  x < ulimit fuel ->
  uvar_loop fuel mul acc (uvar_enc fuel x ++ rest) = Some (acc + x * mul, rest).
Proof.
  induction fuel as [|f IH]; intros x mul acc rest Hx.
  - cbn in Hx. lia.
  - cbn [uvar_enc uvar_loop]. destruct (x <? 128) eqn:Hs.
    + cbn [app]. rewrite Hs. destruct f as [|f'].
      * cbn in Hx. assert (E : (1 <? x) = false) by lia. rewrite E. reflexivity.
      * reflexivity.
    + cbn [app].
      assert (Hb : (x mod 128 + 128 <? 128) = false) by lia. rewrite Hb.
      destruct f as [|f'].
      * cbn in Hx. lia.
      * rewrite ulimit_S in Hx. rewrite IH.
        -- f_equal. f_equal. pose proof (N.div_mod x 128).
           replace (x mod 128 + 128 - 128) with (x mod 128) by lia. nia.
        -- apply N.div_lt_upper_bound; [discriminate|exact Hx].
Qed.

Lemma p_uvarint_put x rest : x < two64 -> p_uvarint (put_uvarint x ++ rest) = Some (x, rest).
Proof.
  intro H. unfold p_uvarint, put_uvarint. rewrite uvar_loop_enc by (rewrite ulimit_10; exact H).
  f_equal. f_equal. lia.
Qed.

Lemma uvar_loop_stable : forall fuel mul acc a v r b,
  uvar_loop fuel mul acc a = Some (v, r) -> uvar_loop fuel mul acc (a ++ b) = Some (v, r ++ b).
Proof.
  induction fuel as [|f IH]; intros mul acc a v r b H; [discriminate|].
  destruct a as [|x a]; [discriminate|].
  cbn [uvar_loop app] in *. destruct (x <? 128).
  - destruct f.
    + destruct (1 <? x); [discriminate|]. inversion H; subst. reflexivity.
    + inversion H; subst. reflexivity.
  - apply IH. exact H.
Qed.

Lemma uvar_loop_shrinks : forall fuel mul acc a v r,
  uvar_loop fuel mul acc a = Some (v, r) -> (length r < length a)%nat.
Proof.
  induction fuel as [|f IH]; intros mul acc a v r H; [discriminate|].
  destruct a as [|x a]; [discriminate|].
  cbn [uvar_loop] in H. destruct (x <? 128).
  - destruct f.
    + destruct (1 <? x); [discriminate|]. inversion H; subst. cbn. lia.
    + inversion H; subst. cbn. lia.
  - apply IH in H. cbn. lia.
Qed.

Lemma uvar_enc_nonempty : forall fuel x, (0 < fuel)%nat -> (1 <= length (uvar_enc fuel x))%nat.
Proof.
  intros [|f] x H; [lia|]. cbn [uvar_enc]. destruct (x <? 128); cbn; lia.
Qed.

Lemma put_uvarint_nonempty x : (1 <= length (put_uvarint x))%nat.
Proof. apply uvar_enc_nonempty. lia. Qed.

(* ---- zigzag -------------------------------------------------------------------- *)

Lemma zigzag_range z : (- two63 <= z < two63)%Z -> zigzag z < two64.
Proof. unfold zigzag, two63, two64. intro H. destruct (z <? 0)%Z eqn:E; lia. Qed.

Lemma unzigzag_zigzag z : (- two63 <= z < two63)%Z -> unzigzag (zigzag z) = z.
Proof.
  unfold zigzag, unzigzag, two63. intro H.
  destruct (z <? 0)%Z eqn:E.
  - assert (Ho : N.even (Z.to_N (-2 * z - 1)) = false).
    { replace (Z.to_N (-2 * z - 1)) with (1 + 2 * Z.to_N (- z - 1)) by lia.
      rewrite N.even_add_mul_2. reflexivity. }
    rewrite Ho.
    replace (Z.to_N (-2 * z - 1)) with (1 + Z.to_N (- z - 1) * 2) by lia.
    rewrite N.div_add by discriminate. cbn. lia.
  - assert (He : N.even (Z.to_N (2 * z)) = true).
    { replace (Z.to_N (2 * z)) with (0 + 2 * Z.to_N z) by lia.
      rewrite N.even_add_mul_2. reflexivity. }
    rewrite He.
    replace (Z.to_N (2 * z)) with (Z.to_N z * 2) by lia.
    rewrite N.div_mul by discriminate. lia.
Qed.

(* ---- take ------------------------------------------------------------------------ *)

Lemma take_stable n a h r b : take n a = Some (h, r) -> take n (a ++ b) = Some (h, r ++ b).
Proof.
  intro H. apply take_spec in H. destruct H as [-> Hl].
  rewrite <- app_assoc. apply take_app. exact Hl.
Qed.

Lemma take_shrinks n a h r : take n a = Some (h, r) -> (length r <= length a)%nat.
Proof.
  intro H. apply take_spec in H. destruct H as [-> _]. rewrite app_length. lia.
Qed.

Lemma blen_app {A} (a b : list A) : blen (a ++ b) = blen a + blen b.
Proof. unfold blen. rewrite app_length. lia. Qed.

Lemma to_nat_blen {A} (l : list A) : N.to_nat (blen l) = length l.
Proof. unfold blen. apply Nnat.Nat2N.id. Qed.

(* ---- the linear-time primitives are the ones of Base.Bytes ---------------------------- *)

Lemma ctake_eq : forall n bs, ctake n bs = take n bs.
Proof.
  induction n as [|n IH]; intro bs.
  - unfold take. cbn. reflexivity.
  - destruct bs as [|b r]; [reflexivity|].
    cbn [ctake]. rewrite IH. unfold take. cbn [length Nat.leb firstn skipn].
    destruct (Nat.leb n (length r)); reflexivity.
Qed.

Lemma cget_be_eq w bs : cget_be w bs = get_be w bs.
Proof. unfold cget_be, get_be. rewrite ctake_eq. reflexivity. Qed.

Lemma has_len_eq {A} : forall (bs : list A) n, has_len bs n = (n <=? blen bs).
Proof.
  induction bs as [|b r IH]; intro n; cbn [has_len].
  - unfold blen. cbn. destruct (n =? 0) eqn:E; lia.
  - destruct (n =? 0) eqn:E.
    + unfold blen. lia.
    + rewrite IH. unfold blen. cbn [length]. lia.
Qed.

Lemma ntake_eq : forall bs n,
  ntake bs n = if n <=? blen bs then take (N.to_nat n) bs else None.
Proof.
  induction bs as [|b r IH]; intro n; cbn [ntake].
  - destruct (n =? 0) eqn:E.
    + apply N.eqb_eq in E. subst. reflexivity.
    + unfold blen. cbn [length]. assert (L : (n <=? N.of_nat 0) = false) by lia. rewrite L. reflexivity.
  - destruct (n =? 0) eqn:E.
    + apply N.eqb_eq in E. subst. reflexivity.
    + rewrite IH. unfold blen. cbn [length].
      replace (N.to_nat n) with (S (N.to_nat (n - 1))) by lia.
      destruct (n - 1 <=? N.of_nat (length r)) eqn:L.
      * assert (L' : (n <=? N.of_nat (S (length r))) = true) by lia. rewrite L'.
        unfold take. cbn [length Nat.leb firstn skipn].
        destruct (Nat.leb (N.to_nat (n - 1)) (length r)); reflexivity.
      * assert (L' : (n <=? N.of_nat (S (length r))) = false) by lia. rewrite L'. reflexivity.
Qed.

(* the definitions with [take] / [blen], which the lemmas below are about *)
Definition p_bytes_len_old (max : N) : parser N :=
  fun bs => match p_uvarint bs with
            | Some (n, r) => if (n <=? max) && (n <=? blen r) then Some (n, r) else None
            | None => None
            end.
Definition p_bytes_old (max : N) : parser bytes :=
  fun bs => match p_bytes_len_old max bs with
            | Some (n, r) => take (N.to_nat n) r
            | None => None
            end.
Definition p_count_old (ck : count_kind) (max : N) : parser (option N) :=
  fun bs =>
    match ck with
    | CKConst =>
      match p_uvarint bs with
      | Some (n, r) => if n <=? max then Some (Some n, r) else None
      | None => None
      end
    | CKNilable =>
      match p_uvarint bs with
      | Some (v, r) => if v =? 0 then Some (None, r)
                       else if v - 1 <=? max then Some (Some (v - 1), r) else None
      | None => None
      end
    | CKRem =>
      match p_uvarint bs with
      | Some (n, r) => if n <=? blen r then Some (Some n, r) else None
      | None => None
      end
    | CKPresRem =>
      match bs with
      | [] => None
      | b :: r0 =>
        if b =? 0 then Some (None, r0)
        else if b =? 1 then
          match p_uvarint r0 with
          | Some (n, r) => if n <=? blen r then Some (Some n, r) else None
          | None => None
          end
        else None
      end
    end.

Lemma p_bytes_len_eq max bs : p_bytes_len max bs = p_bytes_len_old max bs.
Proof.
  unfold p_bytes_len, p_bytes_len_old. destruct (p_uvarint bs) as [[n r]|]; [|reflexivity].
  rewrite has_len_eq. reflexivity.
Qed.

Lemma p_bytes_eq max bs : p_bytes max bs = p_bytes_old max bs.
Proof.
  unfold p_bytes, p_bytes_old, p_bytes_len_old. destruct (p_uvarint bs) as [[n r]|]; [|reflexivity].
  rewrite ntake_eq. destruct (n <=? max); destruct (n <=? blen r); reflexivity.
Qed.

Lemma p_count_eq ck max bs : p_count ck max bs = p_count_old ck max bs.
Proof.
  unfold p_count, p_count_old. destruct ck; try reflexivity.
  - destruct (p_uvarint bs) as [[n r]|]; [|reflexivity]. rewrite has_len_eq. reflexivity.
  - destruct bs as [|b r0]; [reflexivity|]. destruct (b =? 0); [reflexivity|].
    destruct (b =? 1); [|reflexivity].
    destruct (p_uvarint r0) as [[n r]|]; [|reflexivity]. rewrite has_len_eq. reflexivity.
Qed.

(* ---- counts ------------------------------------------------------------------------ *)

Lemma p_count_stable ck max a c r b :
  p_count ck max a = Some (c, r) -> p_count ck max (a ++ b) = Some (c, r ++ b).
Proof.
  rewrite !p_count_eq. unfold p_count_old. destruct ck.
  - destruct (p_uvarint a) as [[n r0]|] eqn:E; [|discriminate].
    unfold p_uvarint in *. rewrite (uvar_loop_stable _ _ _ _ _ _ b E).
    destruct (n <=? max); [|discriminate]. intro H; inversion H; subst. reflexivity.
  - destruct (p_uvarint a) as [[n r0]|] eqn:E; [|discriminate].
    unfold p_uvarint in *. rewrite (uvar_loop_stable _ _ _ _ _ _ b E).
    destruct (n =? 0).
    + intro H; inversion H; subst. reflexivity.
    + destruct (n - 1 <=? max); [|discriminate]. intro H; inversion H; subst. reflexivity.
  - destruct (p_uvarint a) as [[n r0]|] eqn:E; [|discriminate].
    unfold p_uvarint in *. rewrite (uvar_loop_stable _ _ _ _ _ _ b E).
    destruct (n <=? blen r0) eqn:L; [|discriminate]. intro H; inversion H; subst.
    rewrite blen_app. assert (L' : (n <=? blen r + blen b) = true) by lia. rewrite L'. reflexivity.
  - destruct a as [|x a]; [discriminate|]. cbn [app].
    destruct (x =? 0).
    + intro H; inversion H; subst. reflexivity.
    + destruct (x =? 1); [|discriminate].
      destruct (p_uvarint a) as [[n r0]|] eqn:E; [|discriminate].
      unfold p_uvarint in *. rewrite (uvar_loop_stable _ _ _ _ _ _ b E).
      destruct (n <=? blen r0) eqn:L; [|discriminate]. intro H; inversion H; subst.
      rewrite blen_app. assert (L' : (n <=? blen r + blen b) = true) by lia. rewrite L'. reflexivity.
Qed.

Lemma p_count_shrinks ck max a c r :
  p_count ck max a = Some (c, r) -> (length r <= length a)%nat.
Proof.
  rewrite p_count_eq. unfold p_count_old. destruct ck.
  - destruct (p_uvarint a) as [[n r0]|] eqn:E; [|discriminate].
    apply uvar_loop_shrinks in E. destruct (n <=? max); [|discriminate].
    intro H; inversion H; subst. lia.
  - destruct (p_uvarint a) as [[n r0]|] eqn:E; [|discriminate].
    apply uvar_loop_shrinks in E. destruct (n =? 0).
    + intro H; inversion H; subst. lia.
    + destruct (n - 1 <=? max); [|discriminate]. intro H; inversion H; subst. lia.
  - destruct (p_uvarint a) as [[n r0]|] eqn:E; [|discriminate].
    apply uvar_loop_shrinks in E. destruct (n <=? blen r0); [|discriminate].
    intro H; inversion H; subst. lia.
  - destruct a as [|x a]; [discriminate|]. destruct (x =? 0).
    + intro H; inversion H; subst. cbn. lia.
    + destruct (x =? 1); [|discriminate].
      destruct (p_uvarint a) as [[n r0]|] eqn:E; [|discriminate].
      apply uvar_loop_shrinks in E. destruct (n <=? blen r0); [|discriminate].
      intro H; inversion H; subst. cbn. lia.
Qed.

(* the declared count is checked before anything is allocated *)
Lemma p_count_bounded ck max a n r :
  p_count ck max a = Some (Some n, r) ->
  (ck_rem ck = false -> n <= max) /\ (ck_rem ck = true -> n <= blen r).
Proof.
  rewrite p_count_eq. unfold p_count_old. destruct ck; cbn [ck_rem].
  - destruct (p_uvarint a) as [[m r0]|]; [|discriminate].
    destruct (m <=? max) eqn:L; [|discriminate]. intro H; inversion H; subst.
    split; intro; [lia|discriminate].
  - destruct (p_uvarint a) as [[m r0]|]; [|discriminate].
    destruct (m =? 0); [discriminate|].
    destruct (m - 1 <=? max) eqn:L; [|discriminate]. intro H; inversion H; subst.
    split; intro; [lia|discriminate].
  - destruct (p_uvarint a) as [[m r0]|]; [|discriminate].
    destruct (m <=? blen r0) eqn:L; [|discriminate]. intro H; inversion H; subst.
    split; intro; [discriminate|lia].
  - destruct a as [|x a]; [discriminate|]. destruct (x =? 0); [discriminate|].
    destruct (x =? 1); [|discriminate].
    destruct (p_uvarint a) as [[m r0]|]; [|discriminate].
    destruct (m <=? blen r0) eqn:L; [|discriminate]. intro H; inversion H; subst.
    split; intro; [discriminate|lia].
Qed.

(* ---- repetition --------------------------------------------------------------------- *)

  Lemma rep_dec_enc {A} (dec : nat -> parser A) (enc : nat -> A -> bytes) (ok : nat -> A -> bool) :
    (forall i a rest, ok i a = true -> dec i (enc i a ++ rest) = Some (a, rest)) ->
    forall l i rest, rep_all ok i l = true ->
      rep_dec dec i (length l) (rep_enc enc i l ++ rest) = Some (l, rest).
  Proof.
    intros Hd. induction l as [|a l IH]; intros i rest H; [reflexivity|].
    cbn [rep_all] in H. apply andb_true_iff in H. destruct H as [H1 H2].
    cbn [length rep_enc rep_dec]. rewrite <- app_assoc, (Hd _ _ _ H1), (IH _ _ H2). reflexivity.
  Qed.

  Lemma rep_dec_stable {A} (dec : nat -> parser A) :
    (forall i a v r b, dec i a = Some (v, r) -> dec i (a ++ b) = Some (v, r ++ b)) ->
    forall n i a l r b, rep_dec dec i n a = Some (l, r) -> rep_dec dec i n (a ++ b) = Some (l, r ++ b).
  Proof.
    intros Hs. induction n as [|n IH]; intros i a l r b H.
    - cbn in *. inversion H; subst. reflexivity.
    - cbn [rep_dec] in *. destruct (dec i a) as [[x r0]|] eqn:E; [|discriminate].
      rewrite (Hs _ _ _ _ b E).
      destruct (rep_dec dec (S i) n r0) as [[l0 r1]|] eqn:E2; [|discriminate].
      rewrite (IH _ _ _ _ b E2). inversion H; subst. reflexivity.
  Qed.

  Lemma rep_dec_shrinks {A} (dec : nat -> parser A) :
    (forall i a v r, dec i a = Some (v, r) -> (length r <= length a)%nat) ->
    forall n i a l r, rep_dec dec i n a = Some (l, r) -> (length r <= length a)%nat.
  Proof.
    intros Hs. induction n as [|n IH]; intros i a l r H.
    - cbn in H. inversion H; subst. lia.
    - cbn [rep_dec] in H. destruct (dec i a) as [[x r0]|] eqn:E; [|discriminate].
      destruct (rep_dec dec (S i) n r0) as [[l0 r1]|] eqn:E2; [|discriminate].
      inversion H; subst. apply Hs in E. apply IH in E2. lia.
  Qed.

  Lemma rep_dec_length {A} (dec : nat -> parser A) : forall n i a l r, rep_dec dec i n a = Some (l, r) -> length l = n.
  Proof.
    induction n as [|n IH]; intros i a l r H.
    - cbn in H. inversion H; subst. reflexivity.
    - cbn [rep_dec] in H. destruct (dec i a) as [[x r0]|]; [|discriminate].
      destruct (rep_dec dec (S i) n r0) as [[l0 r1]|] eqn:E2; [|discriminate].
      inversion H; subst. cbn. f_equal. eapply IH. exact E2.
  Qed.

  (* a list of n elements of at least one byte each has at least n bytes *)
  Lemma rep_enc_length_ge {A} (enc : nat -> A -> bytes) :
    forall l i, (forall j a, In a l -> (1 <= length (enc j a))%nat) ->
      (length l <= length (rep_enc enc i l))%nat.
  Proof.
    induction l as [|a l IH]; intros i H; [cbn; lia|].
    cbn [rep_enc length]. rewrite app_length.
    specialize (H i a (or_introl eq_refl)) as H1.
    specialize (IH (S i) (fun j x Hx => H j x (or_intror Hx))). lia.
  Qed.

Lemma rep_eqb_sound {A} (e : nat -> A -> A -> bool) :
  (forall i x y, e i x y = true -> x = y) ->
  forall l l' i, rep_eqb e i l l' = true -> l = l'.
Proof.
  intros He. induction l as [|a l IH]; intros [|b l'] i H; try discriminate; [reflexivity|].
  cbn [rep_eqb] in H. apply andb_true_iff in H. destruct H as [H1 H2].
  apply He in H1. apply IH in H2. subst. reflexivity.
Qed.

Lemma rep_eqb_refl {A} (e : nat -> A -> A -> bool) (ok : nat -> A -> bool) :
  (forall i x, ok i x = true -> e i x x = true) ->
  forall l i, rep_all ok i l = true -> rep_eqb e i l l = true.
Proof.
  intros He. induction l as [|a l IH]; intros i H; [reflexivity|].
  cbn [rep_all] in H. apply andb_true_iff in H. destruct H as [H1 H2].
  cbn [rep_eqb]. rewrite (He _ _ H1), (IH _ H2). reflexivity.
Qed.

(* ---- the four generic theorems ------------------------------------------------------ *)

Theorem decode_encode : forall A (f : fmt A) v rest,
  wf f v = true -> decode f (encode f v ++ rest) = Some (v, rest).
Proof.
  induction f; intros v0 rest Hwf; cbn [wf encode decode] in *.
  - (* FByte *) reflexivity.
  - (* FBool *) destruct v0; reflexivity.
  - (* FBe *) rewrite cget_be_eq. apply get_be_put. apply N.ltb_lt. exact Hwf.
  - (* FUvarint *) apply p_uvarint_put. apply N.ltb_lt. exact Hwf.
  - (* FVarint *)
    apply andb_true_iff in Hwf. destruct Hwf as [H1 H2].
    apply Z.leb_le in H1. apply Z.ltb_lt in H2.
    unfold p_varint, put_varint. rewrite p_uvarint_put by (apply zigzag_range; lia).
    rewrite unzigzag_zigzag by lia. reflexivity.
  - (* FFixed *) rewrite ctake_eq. apply take_app. apply Nat.eqb_eq. exact Hwf.
  - (* FBytes *)
    apply andb_true_iff in Hwf. destruct Hwf as [H1 H2].
    rewrite p_bytes_eq. unfold p_bytes_old, p_bytes_len_old, put_bytes. rewrite <- app_assoc.
    rewrite p_uvarint_put by (apply N.ltb_lt; exact H2).
    rewrite blen_app. assert (E : (blen v0 <=? blen v0 + blen rest) = true) by lia.
    rewrite H1, E. cbn [andb]. rewrite to_nat_blen. apply take_app. reflexivity.
  - (* FConst *) apply H in Hwf. subst. reflexivity.
  - (* FSeq *)
    destruct v0 as [a b]. cbn [fst snd] in *. apply andb_true_iff in Hwf. destruct Hwf as [H1 H2].
    rewrite <- app_assoc, (IHf1 _ _ H1), (IHf2 _ _ H2). reflexivity.
  - (* FBind *)
    destruct v0 as [a b]. cbn [fst snd] in *. apply andb_true_iff in Hwf. destruct Hwf as [H1 H2].
    rewrite <- app_assoc, (IHf _ _ H1), (H _ _ _ H2). reflexivity.
  - (* FMapD *)
    apply andb_true_iff in Hwf. destruct Hwf as [Hdom Hwf].
    destruct (from v0) as [a|] eqn:E; [|discriminate].
    rewrite (IHf _ _ Hwf). rewrite (H _ _ E Hdom). reflexivity.
  - (* FGuard *)
    apply andb_true_iff in Hwf. destruct Hwf as [H1 H2].
    rewrite (IHf _ _ H1), H2. reflexivity.
  - (* FOpt *)
    destruct v0 as [a|]; cbn [app]; [|reflexivity].
    cbn. rewrite (IHf _ _ Hwf). reflexivity.
  - (* FList *)
    destruct v0 as [l|].
    + apply andb_true_iff in Hwf. destruct Hwf as [Hwf Hall].
      apply andb_true_iff in Hwf. destruct Hwf as [Hlen Hcnt].
      assert (Hrep : rep_dec (fun i => decode (f i)) 0 (length l)
                       (rep_enc (fun i => encode (f i)) 0 l ++ rest) = Some (l, rest)).
      { apply (rep_dec_enc (fun i => decode (f i)) (fun i => encode (f i)) (fun i => wf (f i))); [|exact Hall].
        intros i a r Ha. apply H. exact Ha. }
      unfold two64 in Hlen.
      rewrite p_count_eq. destruct ck; cbn [ck_rem put_count] in *; unfold p_count_old; rewrite <- app_assoc.
      * rewrite p_uvarint_put by (unfold two64; lia). rewrite Hcnt, to_nat_blen, Hrep. reflexivity.
      * rewrite p_uvarint_put by (unfold two64; lia).
        assert (E0 : (blen l + 1 =? 0) = false) by lia. rewrite E0.
        replace (blen l + 1 - 1) with (blen l) by lia.
        rewrite Hcnt, to_nat_blen, Hrep. reflexivity.
      * rewrite p_uvarint_put by (unfold two64; lia). rewrite blen_app.
        assert (E : (blen l <=? blen (rep_enc (fun i => encode (f i)) 0 l) + blen rest) = true) by lia.
        rewrite E, to_nat_blen, Hrep. reflexivity.
      * cbn [app N.eqb Pos.eqb]. rewrite p_uvarint_put by (unfold two64; lia). rewrite blen_app.
        assert (E : (blen l <=? blen (rep_enc (fun i => encode (f i)) 0 l) + blen rest) = true) by lia.
        rewrite E, to_nat_blen, Hrep. reflexivity.
    + rewrite p_count_eq. destruct ck; cbn [ck_nilable put_count] in *; try discriminate; unfold p_count_old.
      * rewrite p_uvarint_put by (unfold two64; lia). reflexivity.
      * reflexivity.
Qed.

Theorem decode_stable : forall A (f : fmt A) a v r b,
  decode f a = Some (v, r) -> decode f (a ++ b) = Some (v, r ++ b).
Proof.
  induction f; intros a0 v0 r b0 Hd; cbn [decode] in *.
  - (* FByte *) destruct a0; [discriminate|]. inversion Hd; subst. reflexivity.
  - (* FBool *) destruct a0 as [|x a0]; [discriminate|]. cbn [p_bool app] in *.
    destruct (x =? 0); [inversion Hd; subst; reflexivity|].
    destruct (x =? 1); [inversion Hd; subst; reflexivity|discriminate].
  - (* FBe *) rewrite cget_be_eq in *. unfold get_be in *. destruct (take w a0) as [[h t]|] eqn:E; [|discriminate].
    rewrite (take_stable _ _ _ _ b0 E). inversion Hd; subst. reflexivity.
  - (* FUvarint *) apply uvar_loop_stable. exact Hd.
  - (* FVarint *) unfold p_varint in *. destruct (p_uvarint a0) as [[u t]|] eqn:E; [|discriminate].
    unfold p_uvarint in *. rewrite (uvar_loop_stable _ _ _ _ _ _ b0 E). inversion Hd; subst. reflexivity.
  - (* FFixed *) rewrite ctake_eq in *. apply take_stable. exact Hd.
  - (* FBytes *)
    rewrite p_bytes_eq in *.
    unfold p_bytes_old, p_bytes_len_old in *. destruct (p_uvarint a0) as [[m t]|] eqn:E; [|discriminate].
    unfold p_uvarint in *. rewrite (uvar_loop_stable _ _ _ _ _ _ b0 E).
    destruct ((m <=? max) && (m <=? blen t)) eqn:L; [|discriminate].
    apply andb_true_iff in L. destruct L as [L1 L2].
    rewrite blen_app. assert (L' : (m <=? blen t + blen b0) = true) by lia. rewrite L1, L'. cbn [andb].
    apply take_stable. exact Hd.
  - (* FConst *) inversion Hd; subst. reflexivity.
  - (* FSeq *)
    destruct (decode f1 a0) as [[x t]|] eqn:E1; [|discriminate].
    destruct (decode f2 t) as [[y t']|] eqn:E2; [|discriminate].
    rewrite (IHf1 _ _ _ b0 E1), (IHf2 _ _ _ b0 E2). inversion Hd; subst. reflexivity.
  - (* FBind *)
    destruct (decode f a0) as [[x t]|] eqn:E1; [|discriminate].
    destruct (decode (k x) t) as [[y t']|] eqn:E2; [|discriminate].
    rewrite (IHf _ _ _ b0 E1), (H _ _ _ _ b0 E2). inversion Hd; subst. reflexivity.
  - (* FMap *)
    destruct (decode f a0) as [[x t]|] eqn:E1; [|discriminate].
    rewrite (IHf _ _ _ b0 E1). inversion Hd; subst. reflexivity.
  - (* FGuard *)
    destruct (decode f a0) as [[x t]|] eqn:E1; [|discriminate].
    rewrite (IHf _ _ _ b0 E1). destruct (ok x); [|discriminate]. inversion Hd; subst. reflexivity.
  - (* FOpt *)
    destruct a0 as [|x a0]; [discriminate|]. cbn [app].
    destruct (x =? 0); [inversion Hd; subst; reflexivity|].
    destruct (x =? 1); [|discriminate].
    destruct (decode f a0) as [[y t]|] eqn:E1; [|discriminate].
    rewrite (IHf _ _ _ b0 E1). inversion Hd; subst. reflexivity.
  - (* FList *)
    destruct (p_count ck max a0) as [[c t]|] eqn:E; [|discriminate].
    rewrite (p_count_stable _ _ _ _ _ b0 E).
    destruct c as [n|]; [|inversion Hd; subst; reflexivity].
    destruct (rep_dec (fun i => decode (f i)) 0 (N.to_nat n) t) as [[l t']|] eqn:E2; [|discriminate].
    rewrite (rep_dec_stable (fun i => decode (f i)) H _ _ _ _ _ b0 E2).
    inversion Hd; subst. reflexivity.
Qed.

Theorem decode_shrinks : forall A (f : fmt A) a v r,
  decode f a = Some (v, r) -> (length r <= length a)%nat.
Proof.
  induction f; intros a0 v0 r Hd; cbn [decode] in *.
  - destruct a0; [discriminate|]. inversion Hd; subst. cbn. lia.
  - destruct a0 as [|x a0]; [discriminate|]. cbn [p_bool] in Hd.
    destruct (x =? 0); [inversion Hd; subst; cbn; lia|].
    destruct (x =? 1); [inversion Hd; subst; cbn; lia|discriminate].
  - rewrite cget_be_eq in Hd. unfold get_be in Hd. destruct (take w a0) as [[h t]|] eqn:E; [|discriminate].
    apply take_shrinks in E. inversion Hd; subst. exact E.
  - apply uvar_loop_shrinks in Hd. lia.
  - unfold p_varint in Hd. destruct (p_uvarint a0) as [[u t]|] eqn:E; [|discriminate].
    apply uvar_loop_shrinks in E. inversion Hd; subst. lia.
  - rewrite ctake_eq in Hd. apply take_shrinks in Hd. exact Hd.
  - rewrite p_bytes_eq in Hd. unfold p_bytes_old, p_bytes_len_old in Hd. destruct (p_uvarint a0) as [[m t]|] eqn:E; [|discriminate].
    apply uvar_loop_shrinks in E. destruct ((m <=? max) && (m <=? blen t)); [|discriminate].
    apply take_shrinks in Hd. lia.
  - inversion Hd; subst. lia.
  - destruct (decode f1 a0) as [[x t]|] eqn:E1; [|discriminate].
    destruct (decode f2 t) as [[y t']|] eqn:E2; [|discriminate].
    apply IHf1 in E1. apply IHf2 in E2. inversion Hd; subst. lia.
  - destruct (decode f a0) as [[x t]|] eqn:E1; [|discriminate].
    destruct (decode (k x) t) as [[y t']|] eqn:E2; [|discriminate].
    apply IHf in E1. apply H in E2. inversion Hd; subst. lia.
  - destruct (decode f a0) as [[x t]|] eqn:E1; [|discriminate].
    apply IHf in E1. inversion Hd; subst. lia.
  - destruct (decode f a0) as [[x t]|] eqn:E1; [|discriminate].
    apply IHf in E1. destruct (ok x); [|discriminate]. inversion Hd; subst. lia.
  - destruct a0 as [|x a0]; [discriminate|].
    destruct (x =? 0); [inversion Hd; subst; cbn; lia|].
    destruct (x =? 1); [|discriminate].
    destruct (decode f a0) as [[y t]|] eqn:E1; [|discriminate].
    apply IHf in E1. inversion Hd; subst. cbn. lia.
  - destruct (p_count ck max a0) as [[c t]|] eqn:E; [|discriminate].
    apply p_count_shrinks in E.
    destruct c as [n|]; [|inversion Hd; subst; exact E].
    destruct (rep_dec (fun i => decode (f i)) 0 (N.to_nat n) t) as [[l t']|] eqn:E2; [|discriminate].
    apply (rep_dec_shrinks (fun i => decode (f i)) H) in E2. inversion Hd; subst. lia.
Qed.

(* what a packing format returns is an image of its packing function *)
Lemma decode_FMapD_inv {A B} (f : fmt A) (to : A -> B) from dom H data b r :
  decode (FMapD f to from dom H) data = Some (b, r) -> exists a, b = to a.
Proof.
  cbn [decode]. destruct (decode f data) as [[a t]|]; [|discriminate].
  intro E. inversion E. eauto.
Qed.

(* decoding what was encoded, as a whole input *)
Theorem decode_full_encode : forall A (f : fmt A) v,
  wf f v = true -> decode_full f (encode f v) = Some v.
Proof.
  intros A f v H. unfold decode_full.
  pose proof (decode_encode A f v [] H) as E. rewrite app_nil_r in E. rewrite E. reflexivity.
Qed.

(* every strict prefix of an encoding is rejected *)
Theorem truncation_rejected : forall A (f : fmt A) v p s,
  wf f v = true -> encode f v = p ++ s -> s <> [] -> decode_full f p = None.
Proof.
  intros A f v p s Hwf He Hs. unfold decode_full.
  destruct (decode f p) as [[v' r]|] eqn:E; [|reflexivity].
  destruct r as [|x r]; [|reflexivity]. exfalso.
  apply (decode_stable _ _ _ _ _ s) in E. rewrite <- He in E.
  pose proof (decode_encode A f v [] Hwf) as E2. rewrite app_nil_r in E2.
  rewrite E2 in E. inversion E; subst. apply Hs. reflexivity.
Qed.

(* ... and so is every encoding followed by extra bytes *)
Theorem trailing_rejected : forall A (f : fmt A) v s,
  wf f v = true -> s <> [] -> decode_full f (encode f v ++ s) = None.
Proof.
  intros A f v s Hwf Hs. unfold decode_full. rewrite (decode_encode A f v s Hwf).
  destruct s; [contradiction|reflexivity].
Qed.

(* ---- allocation ---------------------------------------------------------------------- *)

Lemma alloc_ok_mono r c len len' a : len <= len' -> alloc_ok r c len a -> alloc_ok r c len' a.
Proof. unfold alloc_ok. destruct a, r; lia. Qed.

Lemma Forall_alloc_mono r c len len' l :
  len <= len' -> Forall (alloc_ok r c len) l -> Forall (alloc_ok r c len') l.
Proof.
  intros Hl H. eapply Forall_impl; [|exact H]. intros a Ha. eapply alloc_ok_mono; eassumption.
Qed.

Lemma blen_le {A} (r a : list A) : (length r <= length a)%nat -> blen r <= blen a.
Proof. unfold blen. lia. Qed.

Lemma rep_allocs_bounded {A} (dec : nat -> parser A) (al : nat -> bytes -> list alloc_req) r c :
  (forall i a v t, dec i a = Some (v, t) -> (length t <= length a)%nat) ->
  (forall i bs, Forall (alloc_ok r c (blen bs)) (al i bs)) ->
  forall n i bs, Forall (alloc_ok r c (blen bs)) (rep_allocs dec al i n bs).
Proof.
  intros Hs Ha. induction n as [|n IH]; intros i bs; [constructor|].
  cbn [rep_allocs]. apply Forall_app. split; [apply Ha|].
  destruct (dec i bs) as [[x t]|] eqn:E; [|constructor].
  apply Hs in E. eapply Forall_alloc_mono; [apply blen_le; exact E|apply IH].
Qed.

(* Every allocation request issued while decoding ANY input is bounded before
   it is made: a list whose count is checked against a constant has at most c
   elements, a list whose count is checked against the remaining input has at
   most that many, and a byte copy is never longer than the input. *)
Theorem allocs_bounded : forall A (f : fmt A) r c bs,
  capped r c f -> Forall (alloc_ok r c (blen bs)) (allocs f bs).
Proof.
  induction f; intros r c bs Hc; cbn [allocs capped] in *; try constructor.
  - (* FBytes *)
    destruct (p_bytes_len max bs) as [[n t]|] eqn:E; [|constructor].
    constructor; [|constructor]. rewrite p_bytes_len_eq in E. unfold p_bytes_len_old in E.
    destruct (p_uvarint bs) as [[m t0]|] eqn:E1; [|discriminate].
    apply uvar_loop_shrinks in E1.
    destruct ((m <=? max) && (m <=? blen t0)) eqn:L; [|discriminate].
    inversion E; subst. cbn. unfold blen in *. lia.
  - (* FSeq *)
    destruct Hc as [H1 H2]. apply Forall_app. split; [apply IHf1; exact H1|].
    destruct (decode f1 bs) as [[x t]|] eqn:E; [|constructor].
    apply decode_shrinks in E. eapply Forall_alloc_mono; [apply blen_le; exact E|apply IHf2; exact H2].
  - (* FBind *)
    destruct Hc as [H1 H2]. apply Forall_app. split; [apply IHf; exact H1|].
    destruct (decode f bs) as [[x t]|] eqn:E; [|constructor].
    apply decode_shrinks in E. eapply Forall_alloc_mono; [apply blen_le; exact E|apply H; apply H2].
  - (* FMapD *) apply IHf. exact Hc.
  - (* FGuard *) apply IHf. exact Hc.
  - (* FOpt *)
    destruct bs as [|x t]; [constructor|]. destruct (x =? 1); [|constructor].
    eapply Forall_alloc_mono; [|apply IHf; exact Hc]. unfold blen. cbn [length]. lia.
  - (* FList *)
    destruct Hc as [Hmax Hel].
    destruct (p_count ck max bs) as [[[n|] t]|] eqn:E; try constructor.
    + pose proof (p_count_bounded _ _ _ _ _ E) as [B1 B2].
      pose proof (p_count_shrinks _ _ _ _ _ E) as Sh. apply blen_le in Sh.
      cbn. destruct (ck_rem ck) eqn:R.
      * specialize (B2 eq_refl). subst r. lia.
      * specialize (B1 eq_refl). destruct r; lia.
    + pose proof (p_count_shrinks _ _ _ _ _ E) as Sh.
      eapply Forall_alloc_mono; [apply blen_le; exact Sh|].
      apply rep_allocs_bounded.
      * intros i a v t0. apply decode_shrinks.
      * intros i bs0. apply H. apply Hel.
Qed.

(* ---- equality -------------------------------------------------------------------------- *)

Theorem veqb_sound : forall A (f : fmt A) x y, veqb f x y = true -> x = y.
Proof.
  induction f; intros x y E; cbn [veqb] in *.
  - apply N.eqb_eq. exact E.
  - apply Bool.eqb_prop. exact E.
  - apply N.eqb_eq. exact E.
  - apply N.eqb_eq. exact E.
  - apply Z.eqb_eq. exact E.
  - apply bytes_eqb_eq. exact E.
  - apply bytes_eqb_eq. exact E.
  - apply andb_true_iff in E. destruct E as [E1 E2]. apply H in E1. apply H in E2. congruence.
  - destruct x as [a b], y as [a' b']. cbn [fst snd] in *.
    apply andb_true_iff in E. destruct E as [E1 E2].
    apply IHf1 in E1. apply IHf2 in E2. subst. reflexivity.
  - destruct x as [a b], y as [a' b']. cbn [fst snd] in *.
    apply andb_true_iff in E. destruct E as [E1 E2].
    apply IHf in E1. subst. apply H in E2. subst. reflexivity.
  - apply andb_true_iff in E. destruct E as [E0 E]. apply andb_true_iff in E0. destruct E0 as [Dx Dy].
    destruct (from x) as [a|] eqn:Ex; [|discriminate].
    destruct (from y) as [b|] eqn:Ey; [|discriminate].
    apply IHf in E. subst. rewrite <- (H _ _ Ex Dx), <- (H _ _ Ey Dy). reflexivity.
  - apply IHf. exact E.
  - destruct x as [a|], y as [b|]; try discriminate; [|reflexivity].
    f_equal. apply IHf. exact E.
  - destruct x as [l|], y as [l'|]; try discriminate; [|reflexivity].
    f_equal. eapply rep_eqb_sound; [|exact E]. intros i a b. apply H.
Qed.

Theorem veqb_refl : forall A (f : fmt A) x, wf f x = true -> veqb f x x = true.
Proof.
  induction f; intros x W; cbn [veqb wf] in *.
  - apply N.eqb_refl.
  - destruct x; reflexivity.
  - apply N.eqb_refl.
  - apply N.eqb_refl.
  - apply Z.eqb_refl.
  - apply bytes_eqb_eq. reflexivity.
  - apply bytes_eqb_eq. reflexivity.
  - rewrite W. reflexivity.
  - apply andb_true_iff in W. destruct W as [W1 W2]. rewrite (IHf1 _ W1), (IHf2 _ W2). reflexivity.
  - apply andb_true_iff in W. destruct W as [W1 W2]. rewrite (IHf _ W1), (H _ _ W2). reflexivity.
  - apply andb_true_iff in W. destruct W as [D W]. rewrite D. cbn [andb].
    destruct (from x) as [a|]; [|discriminate]. apply IHf. exact W.
  - apply andb_true_iff in W. destruct W as [W1 _]. apply IHf. exact W1.
  - destruct x as [a|]; [|reflexivity]. apply IHf. exact W.
  - destruct x as [l|]; [|reflexivity].
    apply andb_true_iff in W. destruct W as [_ W2].
    eapply rep_eqb_refl; [|exact W2]. intros i a. apply H.
Qed.

(* comparing decode results *)
Lemma option_veqb_sound {A} (f : fmt A) (x y : option A) :
  option_eqb (veqb f) x y = true -> x = y.
Proof.
  destruct x, y; cbn; try discriminate; [|reflexivity].
  intro E. f_equal. apply veqb_sound with (f := f). exact E.
Qed.

(* ---- what a decoder accepts is in the encoder's domain --------------------------------------
   For formats whose counts are all checked against constants ([wfmt]): every value
   decoded from a byte string satisfies [wf] — every declared bound, range check and
   guard of the format holds of it.  (The accept set is inside the domain; with
   [decode_encode] the two are linked in both directions.) *)

Fixpoint wfmt {A} (f : fmt A) : Prop :=
  match f with
  | FConst v is_v _ => is_v v = true
  | FSeq fa fb => wfmt fa /\ wfmt fb
  | FBind fa k => wfmt fa /\ forall a, wfmt (k a)
  | FMapD f to from dom _ => wfmt f /\ forall a, wf f a = true -> dom (to a) = true /\ from (to a) = Some a
  | FGuard f ok => (forall v, ok v = false) \/ wfmt f
  | FOpt f => wfmt f
  | FList ck max f => ck_rem ck = false /\ max < two64 - 1 /\ forall i, wfmt (f i)
  | _ => True
  end.

Lemma ulimit_ge2 : forall f, 2 <= ulimit (S f).
Proof.
  induction f as [|f IH]; [cbn; lia|]. rewrite ulimit_S. lia.
Qed.

Lemma uvar_loop_value : forall fuel mul acc a v r,
  uvar_loop fuel mul acc a = Some (v, r) -> all_bytes a = true ->
  (exists x, v = acc + mul * x /\ x < ulimit fuel) /\ all_bytes r = true.
Proof.
  induction fuel as [|f IH]; intros mul acc a v r H B; [discriminate|].
  destruct a as [|b a]; [discriminate|].
  cbn [all_bytes forallb] in B. apply andb_true_iff in B. destruct B as [Bb Ba].
  unfold is_byte in Bb. cbn [uvar_loop] in H. destruct (b <? 128) eqn:Hb.
  - destruct f as [|f'].
    + destruct (1 <? b) eqn:H1; [discriminate|]. inversion H; subst. split; [|exact Ba].
      exists b. split; [lia|cbn; lia].
    + inversion H; subst. split; [|exact Ba]. exists b. split; [lia|].
      rewrite ulimit_S. pose proof (ulimit_ge2 f'). lia.
  - apply IH in H; [|exact Ba]. destruct H as [(x & Ev & Hx) Br]. split; [|exact Br].
    exists ((b - 128) + 128 * x). split; [subst v; lia|].
    destruct f as [|f']; [cbn in Hx; lia|]. rewrite ulimit_S. lia.
Qed.

Lemma p_uvarint_value a v r :
  p_uvarint a = Some (v, r) -> all_bytes a = true -> v < two64 /\ all_bytes r = true.
Proof.
  intros H B. unfold p_uvarint in H. apply uvar_loop_value in H; [|exact B].
  destruct H as [(x & -> & Hx) Br]. rewrite ulimit_10 in Hx. split; [lia|exact Br].
Qed.

Lemma take_all_bytes n a h r :
  take n a = Some (h, r) -> all_bytes a = true -> all_bytes h = true /\ all_bytes r = true /\ length h = n.
Proof.
  intros H B. apply take_spec in H. destruct H as [-> L]. rewrite all_bytes_app in B.
  apply andb_true_iff in B. destruct B as [B1 B2]. repeat split; assumption.
Qed.

Lemma be_get_bound h : all_bytes h = true -> be_get h < 256 ^ N.of_nat (length h).
Proof.
  intro B. rewrite be_get_le_get, <- rev_length. apply le_get_bound. rewrite all_bytes_rev. exact B.
Qed.

Lemma unzigzag_range u : u < two64 -> (- two63 <=? unzigzag u)%Z && (unzigzag u <? two63)%Z = true.
Proof.
  unfold unzigzag, two64, two63. intro H.
  assert (u / 2 < 9223372036854775808) by (apply N.div_lt_upper_bound; lia).
  destruct (N.even u); lia.
Qed.

Lemma rep_dec_wf {A} (dec : nat -> parser A) (ok : nat -> A -> bool) :
  (forall i a v r, dec i a = Some (v, r) -> all_bytes a = true -> ok i v = true /\ all_bytes r = true) ->
  forall n i a l r, rep_dec dec i n a = Some (l, r) -> all_bytes a = true ->
    rep_all ok i l = true /\ all_bytes r = true.
Proof.
  intro Hd. induction n as [|n IH]; intros i a l r H B.
  - cbn in H. inversion H; subst. split; [reflexivity|exact B].
  - cbn [rep_dec] in H. destruct (dec i a) as [[x t]|] eqn:E; [|discriminate].
    destruct (rep_dec dec (S i) n t) as [[l0 t0]|] eqn:E2; [|discriminate].
    inversion H; subst. apply Hd in E; [|exact B]. destruct E as [Ox Bt].
    apply IH in E2; [|exact Bt]. destruct E2 as [Ol Br]. split; [|exact Br].
    cbn [rep_all]. rewrite Ox, Ol. reflexivity.
Qed.

Theorem decode_wf : forall A (f : fmt A) a v r,
  wfmt f -> all_bytes a = true -> decode f a = Some (v, r) ->
  wf f v = true /\ all_bytes r = true.
Proof.
  induction f; intros a0 v0 r W HB Hd; cbn [decode wf wfmt] in *.
  - (* FByte *) destruct a0 as [|x t]; [discriminate|]. inversion Hd; subst.
    cbn [all_bytes forallb] in HB. apply andb_true_iff in HB. exact HB.
  - (* FBool *) destruct a0 as [|x t]; [discriminate|]. cbn [p_bool] in Hd.
    cbn [all_bytes forallb] in HB. apply andb_true_iff in HB. destruct HB as [_ HB].
    destruct (x =? 0); [inversion Hd; subst; split; [reflexivity|exact HB]|].
    destruct (x =? 1); [inversion Hd; subst; split; [reflexivity|exact HB]|discriminate].
  - (* FBe *) rewrite cget_be_eq in Hd. unfold get_be in Hd.
    destruct (take w a0) as [[h t]|] eqn:E; [|discriminate]. inversion Hd; subst.
    apply take_all_bytes in E; [|exact HB]. destruct E as (Bh & Bt & L).
    split; [|exact Bt]. apply N.ltb_lt. rewrite <- L. apply be_get_bound. exact Bh.
  - (* FUvarint *) apply p_uvarint_value in Hd; [|exact HB]. destruct Hd as [Hv Br].
    split; [apply N.ltb_lt; exact Hv|exact Br].
  - (* FVarint *) unfold p_varint in Hd. destruct (p_uvarint a0) as [[u t]|] eqn:E; [|discriminate].
    inversion Hd; subst. apply p_uvarint_value in E; [|exact HB]. destruct E as [Hu Bt].
    split; [apply unzigzag_range; exact Hu|exact Bt].
  - (* FFixed *) rewrite ctake_eq in Hd. apply take_all_bytes in Hd; [|exact HB].
    destruct Hd as (_ & Bt & L). split; [apply Nat.eqb_eq; exact L|exact Bt].
  - (* FBytes *) rewrite p_bytes_eq in Hd. unfold p_bytes_old, p_bytes_len_old in Hd.
    destruct (p_uvarint a0) as [[m t]|] eqn:E; [|discriminate].
    apply p_uvarint_value in E; [|exact HB]. destruct E as [Hm Bt].
    destruct ((m <=? max) && (m <=? blen t)) eqn:L; [|discriminate].
    apply andb_true_iff in L. destruct L as [L1 L2].
    apply take_all_bytes in Hd; [|exact Bt]. destruct Hd as (_ & Br & Lh).
    split; [|exact Br]. unfold blen. rewrite Lh. rewrite Nnat.N2Nat.id.
    apply andb_true_iff. split; [exact L1|apply N.ltb_lt; exact Hm].
  - (* FConst *) inversion Hd; subst. split; [exact W|exact HB].
  - (* FSeq *) destruct W as [W1 W2].
    destruct (decode f1 a0) as [[x t]|] eqn:E1; [|discriminate].
    destruct (decode f2 t) as [[y t']|] eqn:E2; [|discriminate]. inversion Hd; subst.
    apply IHf1 in E1; [|exact W1|exact HB]. destruct E1 as [Wx Bt].
    apply IHf2 in E2; [|exact W2|exact Bt]. destruct E2 as [Wy Br].
    cbn [fst snd]. rewrite Wx, Wy. split; [reflexivity|exact Br].
  - (* FBind *) destruct W as [W1 W2].
    destruct (decode f a0) as [[x t]|] eqn:E1; [|discriminate].
    destruct (decode (k x) t) as [[y t']|] eqn:E2; [|discriminate]. inversion Hd; subst.
    apply IHf in E1; [|exact W1|exact HB]. destruct E1 as [Wx Bt].
    apply H in E2; [|apply W2|exact Bt]. destruct E2 as [Wy Br].
    cbn [fst snd]. rewrite Wx, Wy. split; [reflexivity|exact Br].
  - (* FMapD *) destruct W as [W1 W2].
    destruct (decode f a0) as [[x t]|] eqn:E1; [|discriminate]. inversion Hd; subst.
    apply IHf in E1; [|exact W1|exact HB]. destruct E1 as [Wx Bt].
    destruct (W2 x Wx) as [D F]. rewrite D, F, Wx. split; [reflexivity|exact Bt].
  - (* FGuard *)
    destruct (decode f a0) as [[x t]|] eqn:E1; [|discriminate].
    destruct (ok x) eqn:O; [|discriminate]. inversion Hd; subst.
    destruct W as [W|W]; [rewrite W in O; discriminate|].
    apply IHf in E1; [|exact W|exact HB]. destruct E1 as [Wx Bt]. rewrite Wx, O. split; [reflexivity|exact Bt].
  - (* FOpt *)
    destruct a0 as [|x t]; [discriminate|].
    cbn [all_bytes forallb] in HB. apply andb_true_iff in HB. destruct HB as [_ HB].
    destruct (x =? 0); [inversion Hd; subst; split; [reflexivity|exact HB]|].
    destruct (x =? 1); [|discriminate].
    destruct (decode f t) as [[y t']|] eqn:E1; [|discriminate]. inversion Hd; subst.
    apply IHf in E1; [|exact W|exact HB]. exact E1.
  - (* FList *)
    destruct W as (Wk & Wm & Wf). rewrite p_count_eq in Hd. unfold p_count_old in Hd.
    assert (Hel : forall i a v t, decode (f i) a = Some (v, t) -> all_bytes a = true ->
                                  wf (f i) v = true /\ all_bytes t = true).
    { intros i a v t E Ba. eapply H; [apply Wf|exact Ba|exact E]. }
    unfold two64 in Wm.
    destruct ck; cbn [ck_rem ck_nilable] in *; try discriminate.
    + (* CKConst *)
      destruct (p_uvarint a0) as [[n t]|] eqn:E; [|discriminate].
      apply p_uvarint_value in E; [|exact HB]. destruct E as [Hn Bt].
      destruct (n <=? max) eqn:L; [|discriminate].
      destruct (rep_dec (fun i => decode (f i)) 0 (N.to_nat n) t) as [[l t']|] eqn:E2; [|discriminate].
      inversion Hd; subst. pose proof (rep_dec_length _ _ _ _ _ _ E2) as Ll.
      apply (rep_dec_wf _ (fun i => wf (f i)) Hel) in E2; [|exact Bt]. destruct E2 as [Al Br].
      split; [|exact Br]. unfold blen. rewrite Ll, Nnat.N2Nat.id, Al.
      assert (X1 : (n <? two64 - 1) = true) by (unfold two64; lia). rewrite X1, L. reflexivity.
    + (* CKNilable *)
      destruct (p_uvarint a0) as [[n t]|] eqn:E; [|discriminate].
      apply p_uvarint_value in E; [|exact HB]. destruct E as [Hn Bt]. unfold two64 in Hn.
      destruct (n =? 0) eqn:Z; [inversion Hd; subst; split; [reflexivity|exact Bt]|].
      destruct (n - 1 <=? max) eqn:L; [|discriminate].
      destruct (rep_dec (fun i => decode (f i)) 0 (N.to_nat (n - 1)) t) as [[l t']|] eqn:E2; [|discriminate].
      inversion Hd; subst. pose proof (rep_dec_length _ _ _ _ _ _ E2) as Ll.
      apply (rep_dec_wf _ (fun i => wf (f i)) Hel) in E2; [|exact Bt]. destruct E2 as [Al Br].
      split; [|exact Br]. unfold blen. rewrite Ll, Nnat.N2Nat.id, Al.
      assert (X1 : (n - 1 <? two64 - 1) = true) by (unfold two64; lia). rewrite X1, L. reflexivity.
Qed.

(* the whole-input form *)
Theorem decode_full_wf : forall A (f : fmt A) a v,
  wfmt f -> all_bytes a = true -> decode_full f a = Some v -> wf f v = true.
Proof.
  intros A f a v W B H. unfold decode_full in H.
  destruct (decode f a) as [[v' r]|] eqn:E; [|discriminate]. destruct r; [|discriminate].
  inversion H; subst. eapply decode_wf; eassumption.
Qed.
