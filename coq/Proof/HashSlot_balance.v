(* Proof/HashSlot_balance.v — what the three planners achieve on a table that maps
   every hash slot to a physical slot:
   rebalance: every active slot ends with exactly its ideal share;
   add: the new slot gets exactly its ideal share, no donor is taken below its
        ideal share, and a table within one of ideal stays within one;
   remove: the removed slot ends empty, no receiver is filled above its ideal
        share, and on a table within one of ideal no remaining slot ends more
        than one ABOVE its ideal share (it may end more than one below: C20-K2). *)
From WK Require Import Base.Base Model.HashSlot Proof.HashSlot_table Proof.HashSlot_lists Proof.HashSlot_plan.
From Coq Require Import ZifyBool ZifyN ZifyNat Sorting.Sorted Sorting.Permutation.
Open Scope N_scope.

Definition nzl (l : list N) : Prop := Forall (fun s => s <> 0) l.

(* ---- a per-slot function of [current] across one transfer ------------------------------------ *)

Lemma sumf_transfer_phi (phi : N -> N -> N) cur d r l : NoDup l -> In d l -> In r l -> d <> r ->
  sumf (fun s => phi (aget 0 (transfer cur d r) s) s) l + phi (aget 0 cur d) d + phi (aget 0 cur r) r
  = sumf (fun s => phi (aget 0 cur s) s) l + phi (aget 0 cur d - 1) d + phi (aget 0 cur r + 1) r.
Proof.
  intros ND Id Ir D.
  set (f0 := fun s => phi (aget 0 cur s) s).
  set (f1 := fun s => if s =? d then phi (aget 0 cur d - 1) d else f0 s).
  set (f2 := fun s => if s =? r then phi (aget 0 cur r + 1) r else f1 s).
  assert (E : forall s, phi (aget 0 (transfer cur d r) s) s = f2 s).
  { intro s. rewrite transfer_get by exact D. unfold f2, f1, f0.
    destruct (s =? d) eqn:E1; destruct (s =? r) eqn:E2; try reflexivity.
    - apply N.eqb_eq in E1, E2. congruence.
    - apply N.eqb_eq in E1. subst s. reflexivity.
    - apply N.eqb_eq in E2. subst s. reflexivity. }
  rewrite (sumf_ext _ _ l (fun s _ => E s)).
  pose proof (sumf_upd f1 f2 r l ND Ir) as U1.
  assert (Q1 : forall s, s <> r -> f2 s = f1 s).
  { intros s Hs. unfold f2. apply N.eqb_neq in Hs. rewrite Hs. reflexivity. }
  specialize (U1 Q1).
  pose proof (sumf_upd f0 f1 d l ND Id) as U2.
  assert (Q2 : forall s, s <> d -> f1 s = f0 s).
  { intros s Hs. unfold f1. apply N.eqb_neq in Hs. rewrite Hs. reflexivity. }
  specialize (U2 Q2).
  assert (F2r : f2 r = phi (aget 0 cur r + 1) r) by (unfold f2; rewrite N.eqb_refl; reflexivity).
  assert (F1r : f1 r = phi (aget 0 cur r) r).
  { unfold f1, f0. assert (Q : (r =? d) = false) by (apply N.eqb_neq; congruence). rewrite Q. reflexivity. }
  assert (F1d : f1 d = phi (aget 0 cur d - 1) d) by (unfold f1; rewrite N.eqb_refl; reflexivity).
  assert (F0d : f0 d = phi (aget 0 cur d) d) by reflexivity.
  change (sumf (fun s => phi (aget 0 cur s) s) l) with (sumf f0 l). lia.
Qed.

Lemma sumf_in_le f a l : In a l -> f a <= sumf f l.
Proof.
  induction l as [|x l IH]; intro I; [destruct I|]. rewrite sumf_cons. destruct I as [I|I]; [subst; lia|].
  specialize (IH I). lia.
Qed.

Lemma active_not_zero t : ~ In 0 (active_slot_ids t).
Proof. rewrite in_active. intros [H _]. congruence. Qed.

Lemma sum_cnt_active t : wf t -> nzl (t_assign t) ->
  sumf (cnt (t_assign t)) (active_slot_ids t) = t_count t.
Proof.
  intros W NZ. rewrite sumf_cnt; [exact W|apply active_nodup|apply assign_in_active; exact NZ].
Qed.

(* ================================ rebalance ======================================== *)

Lemma rebalance_choose_some tgt slots cur d r : ~ In 0 slots ->
  rebalance_choose tgt slots cur = Some (d, r) ->
  In d slots /\ In r slots /\ aget 0 tgt d < aget 0 cur d /\ aget 0 cur r < aget 0 tgt r /\ d <> 0 /\ r <> 0.
Proof.
  intros NZ H. unfold rebalance_choose in H.
  pose proof (select_largest_spec cur tgt slots NZ) as S1. pose proof (select_smallest_spec cur tgt slots NZ) as S2.
  cbn zeta in S1, S2.
  destruct (select_largest_surplus_slot cur tgt slots =? 0) eqn:E1; [discriminate|].
  destruct (select_smallest_deficit_slot cur tgt slots =? 0) eqn:E2; [discriminate|].
  cbn [orb] in H. inversion H; subst. apply N.eqb_neq in E1, E2.
  destruct S1 as [[A _]|[_ [A [B _]]]]; [contradiction|]. destruct S2 as [[C _]|[_ [C [D _]]]]; [contradiction|].
  repeat split; assumption.
Qed.

Lemma rebalance_choose_none tgt slots cur : ~ In 0 slots ->
  rebalance_choose tgt slots cur = None ->
  (forall x, In x slots -> aget 0 cur x <= aget 0 tgt x) \/ (forall x, In x slots -> aget 0 tgt x <= aget 0 cur x).
Proof.
  intros NZ H. unfold rebalance_choose in H.
  pose proof (select_largest_spec cur tgt slots NZ) as S1. pose proof (select_smallest_spec cur tgt slots NZ) as S2.
  cbn zeta in S1, S2.
  destruct (select_largest_surplus_slot cur tgt slots =? 0) eqn:E1.
  - apply N.eqb_eq in E1. destruct S1 as [[_ A]|[A _]]; [left; exact A|contradiction].
  - destruct (select_smallest_deficit_slot cur tgt slots =? 0) eqn:E2; [|discriminate].
    apply N.eqb_eq in E2. destruct S2 as [[_ A]|[A _]]; [right; exact A|contradiction].
Qed.

Section Rebalance.
  Variable t : table.
  Hypothesis W : wf t.
  Let A := active_slot_ids t.
  Let T := t_count t.
  Let tgt := ideal_slot_counts T A.
  Let cur0 := slot_counts t A.
  Let owned0 := slot_hash_slots t A.
  Let choose := rebalance_choose tgt A.

  Lemma reb_choose_ok : choose_ok choose A.
  Proof.
    intros cur d r H. destruct (rebalance_choose_some tgt A cur d r (active_not_zero t) H) as [Id [Ir [B [C [Dz Rz]]]]].
    split; [intro; subst; lia|]. split; [exact Id|]. split; [exact Ir|]. split; [lia|exact Rz].
  Qed.

  Lemma reb_struct :
    Forall (move_ok (t_assign t) A) (fst (transfer_loop (plan_fuel t) choose cur0 owned0))
    /\ NoDup (map mv_hs (fst (transfer_loop (plan_fuel t) choose cur0 owned0)))
    /\ tracks (apply_moves (fst (transfer_loop (plan_fuel t) choose cur0 owned0)) (t_assign t))
              (snd (transfer_loop (plan_fuel t) choose cur0 owned0)) A.
  Proof.
    destruct (loop_struct choose A reb_choose_ok (plan_fuel t) cur0 owned0 (t_assign t)
                (slot_hash_slots_ok t A) (slot_counts_tracks t A)) as [F [ND [_ TR]]].
    split; [exact F|]. split; [exact ND|exact TR].
  Qed.

  Hypothesis NZ : nzl (t_assign t).
  Hypothesis NE : A <> [].

  Let tg_spec : forall s, In s A -> aget 0 tgt s = spec_ideal T A s.
  Proof. intros s I. apply ideal_slot_counts_spec; [apply active_nodup|exact I]. Qed.

  Lemma reb_sum_tgt : sumf (aget 0 tgt) A = T.
  Proof.
    rewrite (sumf_ext _ (spec_ideal T A) A tg_spec). apply sumf_spec_ideal; [apply active_nodup|exact NE].
  Qed.

  Lemma reb_final : forall s, In s A ->
    aget 0 (snd (transfer_loop (plan_fuel t) choose cur0 owned0)) s = aget 0 tgt s.
  Proof.
    pose proof (active_nodup t) as ND. fold A in ND.
    rewrite (loop_cur choose (fun cur s => aget 0 tgt s < aget 0 cur s)).
    - set (I := fun cur : list (N * N) => sumf (aget 0 cur) A = T).
      set (mu := fun cur : list (N * N) => sumf (fun s => aget 0 cur s - aget 0 tgt s) A).
      assert (STEP : forall cur d r, I cur -> choose cur = Some (d, r) ->
                                     I (transfer cur d r) /\ mu (transfer cur d r) < mu cur).
      { intros cur d r Ic CH.
        destruct (rebalance_choose_some tgt A cur d r (active_not_zero t) CH) as [Id [Ir [B [C [Dz Rz]]]]].
        assert (D : d <> r) by (intro; subst; lia). split.
        - unfold I in *. rewrite sumf_transfer; [exact Ic|exact ND|exact Id|exact Ir|exact D|lia].
        - unfold mu. pose proof (sumf_transfer_phi (fun v s => v - aget 0 tgt s) cur d r A ND Id Ir D) as Q.
          cbn beta in Q. lia. }
      assert (I0 : I cur0).
      { unfold I. rewrite (sumf_ext _ (cnt (t_assign t)) A) by (intros s Is; apply slot_counts_get; exact Is).
        apply sum_cnt_active; assumption. }
      assert (M0 : mu cur0 < N.of_nat (plan_fuel t)).
      { assert (mu cur0 <= sumf (aget 0 cur0) A) by (apply sumf_le; intros; lia).
        unfold I in I0. unfold plan_fuel. unfold wf in W. fold T in W. lia. }
      pose proof (cur_loop_exit choose I mu STEP (plan_fuel t) cur0 I0 M0) as EX.
      pose proof (cur_loop_inv choose I (fun cur d r Ic CH => proj1 (STEP cur d r Ic CH)) (plan_fuel t) cur0 I0) as IF.
      set (c := cur_loop (plan_fuel t) choose cur0) in *.
      unfold I in IF. pose proof reb_sum_tgt as ST.
      destruct (rebalance_choose_none tgt A c (active_not_zero t) EX) as [LE|GE].
      + apply sumf_eq_le; [lia|exact LE].
      + intros s Is. symmetry. revert s Is. apply sumf_eq_le; [lia|exact GE].
    - intros cur d r CH. destruct (rebalance_choose_some tgt A cur d r (active_not_zero t) CH) as [Id [Ir [B [C [Dz Rz]]]]].
      split; [exact B|]. split; [lia|intro; subst; lia].
    - intros cur d r s CH Ps. destruct (rebalance_choose_some tgt A cur d r (active_not_zero t) CH) as [Id [Ir [B [C [Dz Rz]]]]].
      assert (D : d <> r) by (intro; subst; lia). rewrite transfer_get in Ps by exact D.
      destruct (s =? d) eqn:E1; [apply N.eqb_eq in E1; subst s; split; [lia|exact D]|].
      destruct (s =? r) eqn:E2; [apply N.eqb_eq in E2; subst s; lia|].
      apply N.eqb_neq in E2. split; [exact Ps|exact E2].
    - intros s Ps. destruct (in_dec N.eq_dec s A) as [Is|Ns].
      + unfold owned0, cur0. rewrite slot_hash_slots_len, slot_counts_get by exact Is. reflexivity.
      + unfold cur0 in Ps. rewrite slot_counts_out in Ps by exact Ns. lia.
  Qed.
End Rebalance.

(* the rebalance plan is well formed for every table *)
Theorem rebalance_moves_ok t : wf t ->
  moves_ok t (compute_rebalance_plan t) = true /\ Forall (fun m => mv_to m <> 0) (compute_rebalance_plan t).
Proof.
  intro W. unfold compute_rebalance_plan, compute_rebalance_plan_full.
  destruct (active_slot_ids t) as [|a [|b rest]] eqn:EA; try (cbn [fst]; split; [reflexivity|constructor]).
  rewrite <- EA. destruct (reb_struct t) as [F [ND _]].
  split; [apply (moves_ok_of t _ (active_slot_ids t) W F ND)|].
  apply Forall_forall. intros m Im. rewrite Forall_forall in F. destruct (F m Im) as [_ [_ [_ [Q _]]]]. exact Q.
Qed.

(* after applying the rebalance plan every active slot holds exactly its ideal share *)
Theorem rebalance_exact t : wf t -> nzl (t_assign t) ->
  forall s, In s (active_slot_ids t) ->
    cnt (apply_moves (compute_rebalance_plan t) (t_assign t)) s = spec_ideal (t_count t) (active_slot_ids t) s.
Proof.
  intros W NZ s Is. unfold compute_rebalance_plan, compute_rebalance_plan_full.
  destruct (active_slot_ids t) as [|a [|b rest]] eqn:EA.
  - destruct Is.
  - cbn [fst apply_moves fold_left]. destruct Is as [Q|[]]. subst s.
    pose proof (sum_cnt_active t W NZ) as S. rewrite EA in S. rewrite sumf_cons in S. cbn [sumf fold_right] in S.
    unfold spec_ideal. cbn [length]. change (N.of_nat 1) with 1. cbn [N.eqb].
    rewrite N.div_1_r, N.mod_1_r. destruct (rank a [a] <? 0) eqn:E; lia.
  - rewrite <- EA in *. destruct (reb_struct t) as [_ [_ TR]].
    assert (NE : active_slot_ids t <> []) by (rewrite EA; discriminate).
    rewrite <- (TR s Is). rewrite (reb_final t W NZ NE s Is).
    apply ideal_slot_counts_spec; [apply active_nodup|exact Is].
Qed.

(* ================================ add ============================================== *)

Lemma add_choose_some tgt existing new cur d r : ~ In 0 existing ->
  add_choose tgt existing new cur = Some (d, r) ->
  r = new /\ aget 0 cur new < aget 0 tgt new /\ In d existing /\ aget 0 tgt d < aget 0 cur d /\ d <> 0
  /\ forall x, In x existing -> aget 0 cur x - aget 0 tgt x <= aget 0 cur d - aget 0 tgt d.
Proof.
  intros NZ H. unfold add_choose in H.
  destruct (aget 0 cur new <? aget 0 tgt new) eqn:E0; [|discriminate].
  pose proof (select_largest_spec cur tgt existing NZ) as S1. cbn zeta in S1.
  destruct (select_largest_surplus_slot cur tgt existing =? 0) eqn:E1; [discriminate|].
  inversion H; subst. apply N.eqb_neq in E1. destruct S1 as [[A _]|[_ [A [B C]]]]; [contradiction|].
  split; [reflexivity|]. split; [lia|]. split; [exact A|]. split; [exact B|]. split; [exact E1|exact C].
Qed.

Lemma add_choose_none tgt existing new cur : ~ In 0 existing ->
  add_choose tgt existing new cur = None ->
  aget 0 tgt new <= aget 0 cur new \/ (forall x, In x existing -> aget 0 cur x <= aget 0 tgt x).
Proof.
  intros NZ H. unfold add_choose in H.
  destruct (aget 0 cur new <? aget 0 tgt new) eqn:E0; [|left; lia].
  pose proof (select_largest_spec cur tgt existing NZ) as S1. cbn zeta in S1.
  destruct (select_largest_surplus_slot cur tgt existing =? 0) eqn:E1; [|discriminate].
  apply N.eqb_eq in E1. destruct S1 as [[_ A]|[A _]]; [right; exact A|contradiction].
Qed.

Section Add.
  Variable t : table.
  Variable n : N.
  Hypothesis W : wf t.
  Hypothesis Nnz : n <> 0.
  Let E := active_slot_ids t.
  Hypothesis Nnew : ~ In n E.
  Let T := t_count t.
  Let S' := sort_ids (E ++ [n]).
  Let tgt := ideal_slot_counts T S'.
  Let cur0 := slot_counts t S'.
  Let owned0 := slot_hash_slots t E.
  Let choose := add_choose tgt E n.

  Lemma add_EN_nodup : NoDup (E ++ [n]).
  Proof.
    pose proof (active_nodup t) as ND. fold E in ND.
    eapply Permutation_NoDup; [apply Permutation_cons_append|]. constructor; assumption.
  Qed.

  Lemma add_S_nodup : NoDup S'.
  Proof. apply sort_ids_nodup, add_EN_nodup. Qed.

  Lemma add_S_perm : Permutation S' (n :: E).
  Proof.
    eapply Permutation_trans; [apply sort_ids_perm|]. apply Permutation_sym, Permutation_cons_append.
  Qed.

  Lemma add_in_S s : In s S' <-> s = n \/ In s E.
  Proof.
    split; intro H.
    - pose proof (Permutation_in s add_S_perm H) as [Q|Q]; [left; congruence|right; exact Q].
    - apply (Permutation_in s (Permutation_sym add_S_perm)). destruct H as [Q|Q]; [left; congruence|right; exact Q].
  Qed.

  Lemma add_choose_ok : choose_ok choose S'.
  Proof.
    intros cur d r H. destruct (add_choose_some tgt E n cur d r (active_not_zero t) H) as [Rn [A [Id [B [Dz _]]]]].
    subst r. split; [intro; subst; contradiction|]. split; [apply add_in_S; right; exact Id|].
    split; [apply add_in_S; left; reflexivity|]. split; [lia|exact Nnz].
  Qed.

  Lemma add_owned_ok : owned_ok (t_assign t) owned0.
  Proof. apply slot_hash_slots_ok. Qed.

  Lemma add_struct :
    Forall (move_ok (t_assign t) S') (fst (transfer_loop (plan_fuel t) choose cur0 owned0))
    /\ NoDup (map mv_hs (fst (transfer_loop (plan_fuel t) choose cur0 owned0)))
    /\ tracks (apply_moves (fst (transfer_loop (plan_fuel t) choose cur0 owned0)) (t_assign t))
              (snd (transfer_loop (plan_fuel t) choose cur0 owned0)) S'.
  Proof.
    destruct (loop_struct choose S' add_choose_ok (plan_fuel t) cur0 owned0 (t_assign t)
                add_owned_ok (slot_counts_tracks t S')) as [F [ND [_ TR]]].
    split; [exact F|]. split; [exact ND|exact TR].
  Qed.

  Hypothesis NZ : nzl (t_assign t).

  Let tg_spec : forall s, In s S' -> aget 0 tgt s = spec_ideal T S' s.
  Proof. intros s I. apply ideal_slot_counts_spec; [apply add_S_nodup|exact I]. Qed.

  Lemma add_sum_tgt : sumf (aget 0 tgt) S' = T.
  Proof.
    rewrite (sumf_ext _ (spec_ideal T S') S' tg_spec). apply sumf_spec_ideal; [apply add_S_nodup|].
    intro Q. assert (In n S') by (apply add_in_S; left; reflexivity). rewrite Q in H. destruct H.
  Qed.

  Lemma add_cur0 s : In s S' -> aget 0 cur0 s = cnt (t_assign t) s.
  Proof. intro I. apply slot_counts_get. exact I. Qed.

  Lemma add_cur0_new : aget 0 cur0 n = 0.
  Proof.
    rewrite add_cur0 by (apply add_in_S; left; reflexivity). apply cnt_zero_iff. intro I.
    apply Nnew. apply in_active. split; assumption.
  Qed.

  (* the invariant of the add loop *)
  Definition add_inv (cur : list (N * N)) : Prop :=
    sumf (aget 0 cur) S' = T
    /\ aget 0 cur n <= aget 0 tgt n
    /\ (forall s, In s E ->
          (aget 0 cur0 s <= aget 0 tgt s -> aget 0 cur s = aget 0 cur0 s)
          /\ (aget 0 tgt s <= aget 0 cur0 s -> aget 0 tgt s <= aget 0 cur s <= aget 0 cur0 s))
    /\ (forall i j, In i E -> In j E -> aget 0 cur i < aget 0 cur0 i ->
          aget 0 cur j + aget 0 tgt i <= aget 0 cur i + aget 0 tgt j + 1).

  Lemma add_inv_step cur d r : add_inv cur -> choose cur = Some (d, r) ->
    add_inv (transfer cur d r) /\ aget 0 tgt n - aget 0 (transfer cur d r) n < aget 0 tgt n - aget 0 cur n.
  Proof.
    intros [I1 [I2 [I3 I4]]] CH.
    destruct (add_choose_some tgt E n cur d r (active_not_zero t) CH) as [Rn [A [Id [B [Dz MX]]]]]. subst r.
    assert (D : d <> n) by (intro; subst; contradiction).
    pose proof add_S_nodup as ND.
    assert (IdS : In d S') by (apply add_in_S; right; exact Id).
    assert (InS : In n S') by (apply add_in_S; left; reflexivity).
    split; [split; [|split; [|split]]|].
    - rewrite sumf_transfer; [exact I1|exact ND|exact IdS|exact InS|exact D|lia].
    - rewrite transfer_get by exact D. assert (Q : (n =? d) = false) by (apply N.eqb_neq; congruence).
      rewrite Q, N.eqb_refl. lia.
    - intros s Is. rewrite transfer_get by exact D. destruct (I3 s Is) as [P1 P2].
      destruct (s =? d) eqn:E1.
      + apply N.eqb_eq in E1. subst s. split; intro Q; lia.
      + destruct (s =? n) eqn:E2; [apply N.eqb_eq in E2; subst s; contradiction|]. split; assumption.
    - intros i j Ii Ij Ti. rewrite !transfer_get by exact D. rewrite transfer_get in Ti by exact D.
      assert (Ein : (i =? n) = false) by (apply N.eqb_neq; intro; subst; contradiction).
      assert (Ejn : (j =? n) = false) by (apply N.eqb_neq; intro; subst; contradiction).
      rewrite Ein in *. rewrite Ejn.
      pose proof (MX j Ij) as Mj. pose proof (MX i Ii) as Mi.
      destruct (i =? d) eqn:E1; destruct (j =? d) eqn:E2.
      + apply N.eqb_eq in E1, E2. subst. lia.
      + apply N.eqb_eq in E1. subst i. lia.
      + apply N.eqb_eq in E2. subst j. specialize (I4 i d Ii Id Ti). lia.
      + apply (I4 i j Ii Ij Ti).
    - rewrite transfer_get by exact D. assert (Q : (n =? d) = false) by (apply N.eqb_neq; congruence).
      rewrite Q, N.eqb_refl. lia.
  Qed.

  Lemma add_inv0 : add_inv cur0.
  Proof.
    unfold add_inv. split; [|split; [|split]].
    - rewrite (sumf_ext _ (cnt (t_assign t)) S') by (intros s Is; apply add_cur0; exact Is).
      rewrite sumf_cnt; [exact W|apply add_S_nodup|].
      intros x Ix. apply add_in_S. right. apply assign_in_active; assumption.
    - rewrite add_cur0_new. lia.
    - intros s Is. split; intro; lia.
    - intros i j _ _ H. lia.
  Qed.

  Lemma add_final : let c := snd (transfer_loop (plan_fuel t) choose cur0 owned0) in
    add_inv c /\ aget 0 c n = aget 0 tgt n.
  Proof.
    cbn zeta. rewrite (loop_cur choose (fun _ s => In s E)).
    - set (mu := fun cur : list (N * N) => aget 0 tgt n - aget 0 cur n).
      assert (M0 : mu cur0 < N.of_nat (plan_fuel t)).
      { unfold mu. assert (aget 0 tgt n <= T).
        { rewrite <- add_sum_tgt. apply sumf_in_le. apply add_in_S. left. reflexivity. }
        unfold plan_fuel. unfold wf in W. fold T in W. lia. }
      pose proof (cur_loop_exit choose add_inv mu add_inv_step (plan_fuel t) cur0 add_inv0 M0) as EX.
      pose proof (cur_loop_inv choose add_inv (fun cur d r Ic CH => proj1 (add_inv_step cur d r Ic CH))
                               (plan_fuel t) cur0 add_inv0) as IF.
      set (c := cur_loop (plan_fuel t) choose cur0) in *. split; [exact IF|].
      destruct IF as [I1 [I2 _]].
      destruct (add_choose_none tgt E n c (active_not_zero t) EX) as [GE|LE]; [lia|].
      (* no donor left: the existing slots hold at most their targets, so the new one holds at least its own *)
      rewrite (sumf_perm _ _ _ add_S_perm), sumf_cons in I1.
      pose proof add_sum_tgt as ST. rewrite (sumf_perm _ _ _ add_S_perm), sumf_cons in ST.
      pose proof (sumf_le (aget 0 c) (aget 0 tgt) E LE). lia.
    - intros cur d r CH. destruct (add_choose_some tgt E n cur d r (active_not_zero t) CH) as [Rn [A [Id [B [Dz _]]]]].
      subst r. split; [exact Id|]. split; [lia|intro; subst; contradiction].
    - intros cur d r s CH Ps. destruct (add_choose_some tgt E n cur d r (active_not_zero t) CH) as [Rn _].
      subst r. split; [exact Ps|intro; subst; contradiction].
    - intros s Is. unfold owned0. rewrite slot_hash_slots_len by exact Is.
      symmetry. apply add_cur0. apply add_in_S. right. exact Is.
  Qed.
End Add.

(* a levelled withdrawal from the slots above their new ideal keeps a within-one table within one *)
Lemma levelled_balanced (E : list N) (h c t t' : N -> N) :
  sumf h E = sumf t E -> sumf c E = sumf t' E ->
  (forall s, In s E -> t' s <= t s) ->
  (forall s, In s E -> h s <= t s + 1 /\ t s <= h s + 1) ->
  (forall s, In s E -> (h s <= t' s -> c s = h s) /\ (t' s <= h s -> t' s <= c s <= h s)) ->
  (forall i j, In i E -> In j E -> c i < h i -> c j + t' i <= c i + t' j + 1) ->
  forall s, In s E -> c s <= t' s + 1 /\ t' s <= c s + 1.
Proof.
  intros SH SC MONO PRE NC LV s Is.
  split.
  2:{ destruct (NC s Is) as [A B]. specialize (MONO s Is). destruct (PRE s Is) as [P1 P2].
      destruct (N.le_gt_cases (h s) (t' s)) as [Q|Q]; [rewrite (A Q); lia|]. specialize (B ltac:(lia)). lia. }
  destruct (N.le_gt_cases (c s) (t' s + 1)) as [Q|Q]; [exact Q|exfalso].
  (* slot s keeps a surplus of at least two: then h + t' <= c + t everywhere, strictly at s *)
  assert (PW : forall x, In x E -> h x + t' x <= c x + t x).
  { intros x Ix. destruct (NC x Ix) as [A B]. specialize (MONO x Ix). destruct (PRE x Ix) as [P1 P2].
    destruct (N.le_gt_cases (h x) (t' x)) as [Q1|Q1]; [rewrite (A Q1); lia|].
    specialize (B ltac:(lia)).
    destruct (N.eq_dec (c x) (h x)) as [Q2|Q2]; [lia|].
    specialize (LV x s Ix Is ltac:(lia)). lia. }
  assert (ST : h s + t' s < c s + t s) by (destruct (PRE s Is); lia).
  pose proof (sumf_lt (fun x => h x + t' x) (fun x => c x + t x) E s Is ST PW) as L.
  rewrite !sumf_plus in L. lia.
Qed.

(* ================================ remove ============================================ *)

Lemma remove_choose_some tgt remaining rm cur d r : ~ In 0 remaining ->
  remove_choose tgt remaining rm cur = Some (d, r) ->
  d = rm /\ 0 < aget 0 cur rm /\ In r remaining /\ aget 0 cur r < aget 0 tgt r /\ r <> 0.
Proof.
  intros NZ H. unfold remove_choose in H.
  destruct (0 <? aget 0 cur rm) eqn:E0; [|discriminate].
  pose proof (select_smallest_spec cur tgt remaining NZ) as S1. cbn zeta in S1.
  destruct (select_smallest_deficit_slot cur tgt remaining =? 0) eqn:E1; [discriminate|].
  inversion H; subst. apply N.eqb_neq in E1. destruct S1 as [[A _]|[_ [A [B C]]]]; [contradiction|].
  split; [reflexivity|]. split; [lia|]. split; [exact A|]. split; [exact B|exact E1].
Qed.

Lemma remove_choose_none tgt remaining rm cur : ~ In 0 remaining ->
  remove_choose tgt remaining rm cur = None ->
  aget 0 cur rm = 0 \/ (forall x, In x remaining -> aget 0 tgt x <= aget 0 cur x).
Proof.
  intros NZ H. unfold remove_choose in H.
  destruct (0 <? aget 0 cur rm) eqn:E0; [|left; lia].
  pose proof (select_smallest_spec cur tgt remaining NZ) as S1. cbn zeta in S1.
  destruct (select_smallest_deficit_slot cur tgt remaining =? 0) eqn:E1; [|discriminate].
  apply N.eqb_eq in E1. destruct S1 as [[_ A]|[A _]]; [right; exact A|contradiction].
Qed.

Section Remove.
  Variable t : table.
  Variable x : N.
  Hypothesis W : wf t.
  Let A := active_slot_ids t.
  Hypothesis Xin : In x A.
  Let R := active_slot_ids_excluding t x.
  Hypothesis RNE : R <> [].
  Let T := t_count t.
  Let dom := R ++ [x].
  Let tgt := ideal_slot_counts T R.
  Let cur0 := slot_counts t dom.
  Let owned0 := slot_hash_slots t [x].
  Let choose := remove_choose tgt R x.

  Lemma rem_in_R s : In s R <-> In s A /\ s <> x.
  Proof.
    unfold R, active_slot_ids_excluding. rewrite filter_In. fold A. split; intros [P Q]; (split; [exact P|]).
    - apply negb_true_iff, N.eqb_neq in Q. exact Q.
    - apply negb_true_iff, N.eqb_neq. exact Q.
  Qed.

  Lemma rem_R_nodup : NoDup R.
  Proof. unfold R, active_slot_ids_excluding. apply NoDup_filter, active_nodup. Qed.

  Lemma rem_R_nz : ~ In 0 R.
  Proof. rewrite rem_in_R. intros [H _]. apply (active_not_zero t H). Qed.

  Lemma rem_dom_nodup : NoDup dom.
  Proof.
    unfold dom. eapply Permutation_NoDup; [apply Permutation_cons_append|].
    constructor; [|apply rem_R_nodup]. rewrite rem_in_R. intros [_ H]. congruence.
  Qed.

  Lemma rem_dom_perm : Permutation dom (x :: R).
  Proof. unfold dom. apply Permutation_sym, Permutation_cons_append. Qed.

  Lemma rem_in_dom s : In s dom <-> s = x \/ In s R.
  Proof.
    split; intro H.
    - pose proof (Permutation_in s rem_dom_perm H) as [Q|Q]; [left; congruence|right; exact Q].
    - apply (Permutation_in s (Permutation_sym rem_dom_perm)). destruct H as [Q|Q]; [left; congruence|right; exact Q].
  Qed.

  (* R plus x is the active set *)
  Lemma rem_A_perm : Permutation A (x :: R).
  Proof.
    apply NoDup_Permutation; [apply active_nodup|constructor; [rewrite rem_in_R; intros [_ H]; congruence|apply rem_R_nodup]|].
    intro s. cbn [In]. rewrite rem_in_R. split.
    - intro I. destruct (N.eq_dec x s) as [Q|Q]; [left; exact Q|right; split; [exact I|congruence]].
    - intros [Q|[Q _]]; [subst; exact Xin|exact Q].
  Qed.

  Lemma rem_choose_ok : choose_ok choose dom.
  Proof.
    intros cur d r H. destruct (remove_choose_some tgt R x cur d r rem_R_nz H) as [Dx [P [Ir [B Rz]]]]. subst d.
    split; [intro Q; apply rem_in_R in Ir; destruct Ir as [_ Ir]; congruence|].
    split; [apply rem_in_dom; left; reflexivity|]. split; [apply rem_in_dom; right; exact Ir|]. split; [lia|exact Rz].
  Qed.

  Lemma rem_struct :
    Forall (move_ok (t_assign t) dom) (fst (transfer_loop (plan_fuel t) choose cur0 owned0))
    /\ NoDup (map mv_hs (fst (transfer_loop (plan_fuel t) choose cur0 owned0)))
    /\ tracks (apply_moves (fst (transfer_loop (plan_fuel t) choose cur0 owned0)) (t_assign t))
              (snd (transfer_loop (plan_fuel t) choose cur0 owned0)) dom.
  Proof.
    destruct (loop_struct choose dom rem_choose_ok (plan_fuel t) cur0 owned0 (t_assign t)
                (slot_hash_slots_ok t [x]) (slot_counts_tracks t dom)) as [F [ND [_ TR]]].
    split; [exact F|]. split; [exact ND|exact TR].
  Qed.

  Hypothesis NZ : nzl (t_assign t).

  Let tg_spec : forall s, In s R -> aget 0 tgt s = spec_ideal T R s.
  Proof. intros s I. apply ideal_slot_counts_spec; [apply rem_R_nodup|exact I]. Qed.

  Lemma rem_sum_tgt : sumf (aget 0 tgt) R = T.
  Proof. rewrite (sumf_ext _ (spec_ideal T R) R tg_spec). apply sumf_spec_ideal; [apply rem_R_nodup|exact RNE]. Qed.

  Lemma rem_cur0 s : In s dom -> aget 0 cur0 s = cnt (t_assign t) s.
  Proof. intro I. apply slot_counts_get. exact I. Qed.

  Definition rem_inv (cur : list (N * N)) : Prop :=
    sumf (aget 0 cur) dom = T
    /\ (forall s, In s R ->
          (aget 0 tgt s <= aget 0 cur0 s -> aget 0 cur s = aget 0 cur0 s)
          /\ (aget 0 cur0 s <= aget 0 tgt s -> aget 0 cur0 s <= aget 0 cur s <= aget 0 tgt s)).

  Lemma rem_inv_step cur d r : rem_inv cur -> choose cur = Some (d, r) ->
    rem_inv (transfer cur d r) /\ aget 0 (transfer cur d r) x < aget 0 cur x.
  Proof.
    intros [I1 I3] CH. destruct (remove_choose_some tgt R x cur d r rem_R_nz CH) as [Dx [P [Ir [B Rz]]]]. subst d.
    assert (D : x <> r) by (intro Q; apply rem_in_R in Ir; destruct Ir as [_ Ir]; congruence).
    split; [split|].
    - rewrite sumf_transfer; [exact I1|apply rem_dom_nodup|apply rem_in_dom; left; reflexivity
                              |apply rem_in_dom; right; exact Ir|exact D|lia].
    - intros s Is. rewrite transfer_get by exact D. destruct (I3 s Is) as [P1 P2].
      assert (E1 : (s =? x) = false) by (apply N.eqb_neq; intro Q; apply rem_in_R in Is; destruct Is as [_ Is]; congruence).
      rewrite E1. destruct (s =? r) eqn:E2; [|split; assumption].
      apply N.eqb_eq in E2. subst s. split; intro Q; lia.
    - rewrite transfer_get by exact D. rewrite N.eqb_refl. lia.
  Qed.

  Lemma rem_inv0 : rem_inv cur0.
  Proof.
    split.
    - rewrite (sumf_ext _ (cnt (t_assign t)) dom) by (intros s Is; apply rem_cur0; exact Is).
      rewrite sumf_cnt; [exact W|apply rem_dom_nodup|].
      intros y Iy. apply rem_in_dom. destruct (N.eq_dec y x) as [Q|Q]; [left; exact Q|right].
      apply rem_in_R. split; [apply assign_in_active; assumption|exact Q].
    - intros s Is. split; intro; lia.
  Qed.

  Lemma rem_final : let c := snd (transfer_loop (plan_fuel t) choose cur0 owned0) in
    rem_inv c /\ aget 0 c x = 0.
  Proof.
    cbn zeta. rewrite (loop_cur choose (fun _ s => s = x)).
    - set (mu := fun cur : list (N * N) => aget 0 cur x).
      assert (M0 : mu cur0 < N.of_nat (plan_fuel t)).
      { unfold mu. rewrite rem_cur0 by (apply rem_in_dom; left; reflexivity).
        pose proof (cnt_le_length (t_assign t) x). unfold plan_fuel. lia. }
      pose proof (cur_loop_exit choose rem_inv mu rem_inv_step (plan_fuel t) cur0 rem_inv0 M0) as EX.
      pose proof (cur_loop_inv choose rem_inv (fun cur d r Ic CH => proj1 (rem_inv_step cur d r Ic CH))
                               (plan_fuel t) cur0 rem_inv0) as IF.
      set (c := cur_loop (plan_fuel t) choose cur0) in *. split; [exact IF|].
      destruct IF as [I1 _].
      destruct (remove_choose_none tgt R x c rem_R_nz EX) as [Z|GE]; [exact Z|].
      rewrite (sumf_perm _ _ _ rem_dom_perm), sumf_cons in I1.
      pose proof rem_sum_tgt as ST. pose proof (sumf_le (aget 0 tgt) (aget 0 c) R GE). lia.
    - intros cur d r CH. destruct (remove_choose_some tgt R x cur d r rem_R_nz CH) as [Dx [P [Ir [B Rz]]]].
      split; [exact Dx|]. split; [rewrite Dx; lia|]. intro Q. apply rem_in_R in Ir. destruct Ir as [_ Ir]. congruence.
    - intros cur d r s CH Ps. destruct (remove_choose_some tgt R x cur d r rem_R_nz CH) as [Dx [P [Ir [B Rz]]]].
      split; [exact Ps|]. intro Q. apply rem_in_R in Ir. destruct Ir as [_ Ir]. congruence.
    - intros s Ps. subst s. unfold owned0. rewrite slot_hash_slots_len by (left; reflexivity).
      symmetry. apply rem_cur0. apply rem_in_dom. left. reflexivity.
  Qed.
End Remove.

(* ================================ top-level statements ================================ *)

Lemma transfer_loop_length choose : forall fuel cur owned,
  (length (fst (transfer_loop fuel choose cur owned)) <= fuel)%nat.
Proof.
  induction fuel as [|f IH]; intros cur owned; cbn [transfer_loop]; [cbn; lia|].
  destruct (choose cur) as [[d r]|]; [|cbn; lia].
  destruct (pop_owned_hash_slot owned d) as [[hs owned']|]; [|cbn; lia].
  specialize (IH (transfer cur d r) owned').
  destruct (transfer_loop f choose (transfer cur d r) owned') as [p c]. cbn [fst length] in *. lia.
Qed.

Lemma Forall_move_ok_incl assign dom dom' p : (forall s, In s dom -> In s dom') ->
  Forall (move_ok assign dom) p -> Forall (move_ok assign dom') p.
Proof.
  intros H F. apply Forall_forall. intros m Im. rewrite Forall_forall in F.
  destruct (F m Im) as [A [B [C [D [E G]]]]]. unfold move_ok. repeat split; try assumption; apply H; assumption.
Qed.

(* ---- rebalance ---- *)

Theorem rebalance_plan_struct t : wf t ->
  Forall (move_ok (t_assign t) (active_slot_ids t)) (compute_rebalance_plan t)
  /\ NoDup (map mv_hs (compute_rebalance_plan t))
  /\ (length (compute_rebalance_plan t) <= plan_fuel t)%nat.
Proof.
  intro W. unfold compute_rebalance_plan, compute_rebalance_plan_full.
  destruct (active_slot_ids t) as [|a [|b rest]] eqn:EA;
    try (cbn [fst map length]; split; [constructor|split; [constructor|lia]]).
  rewrite <- EA. destruct (reb_struct t) as [F [ND _]].
  split; [exact F|]. split; [exact ND|apply transfer_loop_length].
Qed.

(* ---- add ---- *)

Theorem add_plan_struct t n : wf t ->
  Forall (move_ok (t_assign t) (n :: active_slot_ids t)) (compute_add_slot_plan t n)
  /\ NoDup (map mv_hs (compute_add_slot_plan t n))
  /\ (length (compute_add_slot_plan t n) <= plan_fuel t)%nat.
Proof.
  intro W. unfold compute_add_slot_plan, compute_add_slot_plan_full.
  destruct (n =? 0) eqn:E0; [cbn [fst map length]; split; [constructor|split; [constructor|lia]]|].
  destruct (mem n (active_slot_ids t)) eqn:M; [cbn [fst map length]; split; [constructor|split; [constructor|lia]]|].
  apply N.eqb_neq in E0. apply mem_false in M.
  destruct (add_struct t n E0 M) as [F [ND _]].
  split; [|split; [exact ND|apply transfer_loop_length]].
  eapply Forall_move_ok_incl; [|exact F]. intros s Is. apply (add_in_S t n) in Is. destruct Is as [Q|Q]; [left; congruence|right; exact Q].
Qed.

Definition holds (assign : list N) (s : N) : N := cnt assign s.

(* the add plan on a table that maps every hash slot to a physical slot *)
Theorem add_plan_result t n : wf t -> nzl (t_assign t) -> n <> 0 -> ~ In n (active_slot_ids t) ->
  let E := active_slot_ids t in
  let parts := n :: E in
  let post := apply_moves (compute_add_slot_plan t n) (t_assign t) in
  (* the new slot gets exactly its ideal share *)
  cnt post n = spec_ideal (t_count t) parts n
  (* a donor is never taken below its ideal share, a slot at or below it is not touched *)
  /\ (forall s, In s E ->
        (cnt (t_assign t) s <= spec_ideal (t_count t) parts s -> cnt post s = cnt (t_assign t) s)
        /\ (spec_ideal (t_count t) parts s <= cnt (t_assign t) s ->
            spec_ideal (t_count t) parts s <= cnt post s <= cnt (t_assign t) s))
  (* a table within one of ideal stays within one *)
  /\ (balanced (t_count t) (t_assign t) E = true -> balanced (t_count t) post parts = true).
Proof.
  intros W NZ Nnz Nnew E parts post.
  assert (PL : post = apply_moves (fst (transfer_loop (plan_fuel t) (add_choose (ideal_slot_counts (t_count t) (sort_ids (E ++ [n]))) E n)
                                         (slot_counts t (sort_ids (E ++ [n]))) (slot_hash_slots t E))) (t_assign t)).
  { unfold post, compute_add_slot_plan, compute_add_slot_plan_full.
    assert (E0 : (n =? 0) = false) by (apply N.eqb_neq; exact Nnz).
    assert (M : mem n (active_slot_ids t) = false) by (apply mem_false; exact Nnew).
    rewrite E0, M. reflexivity. }
  destruct (add_struct t n Nnz Nnew) as [_ [_ TR]]. fold E in TR.
  destruct (add_final t n W Nnz Nnew NZ) as [[I1 [I2 [I3 I4]]] FN]. fold E in I1, I2, I3, I4, FN.
  set (S' := sort_ids (E ++ [n])) in *.
  set (tgt := ideal_slot_counts (t_count t) S') in *.
  set (cur0 := slot_counts t S') in *.
  set (c := snd (transfer_loop (plan_fuel t) (add_choose tgt E n) cur0 (slot_hash_slots t E))) in *.
  rewrite <- PL in TR.
  pose proof (add_S_perm t n) as PS. fold E S' in PS.
  assert (InS : forall s, In s S' <-> s = n \/ In s E) by (intro s; apply (add_in_S t n)).
  assert (TG : forall s, In s S' -> aget 0 tgt s = spec_ideal (t_count t) parts s).
  { intros s Is. unfold tgt. rewrite ideal_slot_counts_spec by (try apply (add_S_nodup t n Nnew); exact Is).
    apply spec_ideal_perm. exact PS. }
  assert (C0 : forall s, In s S' -> aget 0 cur0 s = cnt (t_assign t) s) by (intros s Is; apply (add_cur0 t n); exact Is).
  assert (NS : In n S') by (apply InS; left; reflexivity).
  split; [|split].
  - rewrite <- (TR n NS), FN. apply TG. exact NS.
  - intros s Is. assert (IsS : In s S') by (apply InS; right; exact Is).
    destruct (I3 s Is) as [P1 P2]. rewrite <- (TR s IsS), <- (C0 s IsS), <- (TG s IsS). split; assumption.
  - intro PRE. unfold balanced in *. rewrite forallb_forall in *. intros s Is.
    unfold within_one. apply andb_true_iff.
    destruct Is as [Q|Is].
    + subst s. rewrite <- (TR n NS), FN, (TG n NS). split; apply N.leb_le; lia.
    + assert (IsS : In s S') by (apply InS; right; exact Is).
      assert (ENE : E <> []) by (intro Q; rewrite Q in Is; destruct Is).
      pose proof (active_nodup t) as NDE. fold E in NDE.
      assert (LB : cnt post s <= spec_ideal (t_count t) parts s + 1 /\ spec_ideal (t_count t) parts s <= cnt post s + 1).
      { apply (levelled_balanced E (cnt (t_assign t)) (cnt post) (spec_ideal (t_count t) E) (spec_ideal (t_count t) parts)).
        - transitivity (t_count t); [exact (sum_cnt_active t W NZ)|symmetry; apply sumf_spec_ideal; assumption].
        - (* both sums are the total minus the share of the new slot *)
          assert (A1 : sumf (cnt post) S' = t_count t).
          { rewrite <- I1. apply sumf_ext. intros y Iy. symmetry. apply TR. exact Iy. }
          assert (A2 : sumf (spec_ideal (t_count t) parts) S' = t_count t).
          { transitivity (sumf (aget 0 tgt) S'); [apply sumf_ext; intros y Iy; symmetry; apply TG; exact Iy|exact (add_sum_tgt t n Nnew)]. }
          rewrite (sumf_perm _ _ _ PS), sumf_cons in A1. rewrite (sumf_perm _ _ _ PS), sumf_cons in A2.
          assert (cnt post n = spec_ideal (t_count t) parts n) by (rewrite <- (TR n NS), FN; apply TG; exact NS). lia.
        - (* a share never grows when a slot joins *)
          intros y Iy. unfold spec_ideal, parts. cbn [length].
          assert (K : 1 <= N.of_nat (length E)) by (destruct E; [congruence|cbn [length]; lia]).
          assert (K1 : (N.of_nat (S (length E)) =? 0) = false) by (apply N.eqb_neq; lia).
          assert (K2 : (N.of_nat (length E) =? 0) = false) by (apply N.eqb_neq; lia).
          rewrite K1, K2. replace (N.of_nat (S (length E))) with (N.of_nat (length E) + 1) by lia.
          apply ideal_mono; [exact K|]. rewrite rank_cons. lia.
        - intros y Iy. specialize (PRE y Iy). unfold within_one in PRE. apply andb_true_iff in PRE.
          destruct PRE as [Q1 Q2]. apply N.leb_le in Q1, Q2. split; assumption.
        - intros y Iy. assert (IyS : In y S') by (apply InS; right; exact Iy).
          destruct (I3 y Iy) as [P1 P2]. rewrite <- (TR y IyS), <- (C0 y IyS), <- (TG y IyS). split; assumption.
        - intros i j Ii Ij. assert (IiS : In i S') by (apply InS; right; exact Ii).
          assert (IjS : In j S') by (apply InS; right; exact Ij).
          rewrite <- (TR i IiS), <- (TR j IjS), <- (C0 i IiS), <- (TG i IiS), <- (TG j IjS). apply I4; assumption.
        - exact Is. }
      split; apply N.leb_le; lia.
Qed.

(* ---- remove ---- *)

Lemma hash_slots_of_nil t x : hash_slots_of t x = [] <-> ~ In x (t_assign t).
Proof.
  rewrite <- cnt_zero_iff. unfold hash_slots_of. rewrite <- (indices_of_length (t_assign t) x 0).
  destruct (indices_of 0 (t_assign t) x); cbn [length]; split; intro H; try reflexivity; try discriminate; lia.
Qed.

Theorem remove_plan_struct t x : wf t ->
  Forall (move_ok (t_assign t) (active_slot_ids t)) (compute_remove_slot_plan t x)
  /\ NoDup (map mv_hs (compute_remove_slot_plan t x))
  /\ (length (compute_remove_slot_plan t x) <= plan_fuel t)%nat.
Proof.
  intro W. unfold compute_remove_slot_plan, compute_remove_slot_plan_full.
  destruct (x =? 0) eqn:E0; [cbn [fst map length]; split; [constructor|split; [constructor|lia]]|].
  destruct (hash_slots_of t x) as [|h0 hr] eqn:EH; [cbn [fst map length]; split; [constructor|split; [constructor|lia]]|].
  destruct (active_slot_ids_excluding t x) as [|r0 rr] eqn:ER; [cbn [fst map length]; split; [constructor|split; [constructor|lia]]|].
  rewrite <- ER. apply N.eqb_neq in E0.
  assert (Xin : In x (active_slot_ids t)).
  { apply in_active. split; [exact E0|]. destruct (in_dec N.eq_dec x (t_assign t)) as [I|I]; [exact I|].
    apply hash_slots_of_nil in I. rewrite I in EH. discriminate. }
  destruct (rem_struct t x) as [F [ND _]].
  split; [|split; [exact ND|apply transfer_loop_length]].
  eapply Forall_move_ok_incl; [|exact F]. intros s Is. apply (rem_in_dom t x) in Is.
  destruct Is as [Q|Q]; [subst; exact Xin|]. apply (rem_in_R t x) in Q. destruct Q as [Q _]. exact Q.
Qed.

(* the remove plan on a table that maps every hash slot to a physical slot *)
Theorem remove_plan_result t x : wf t -> nzl (t_assign t) -> In x (active_slot_ids t) ->
  active_slot_ids_excluding t x <> [] ->
  let A := active_slot_ids t in
  let R := active_slot_ids_excluding t x in
  let post := apply_moves (compute_remove_slot_plan t x) (t_assign t) in
  (* the removed slot ends empty *)
  cnt post x = 0
  (* a receiver is never filled above its ideal share, a slot at or above it is not touched *)
  /\ (forall s, In s R ->
        (spec_ideal (t_count t) R s <= cnt (t_assign t) s -> cnt post s = cnt (t_assign t) s)
        /\ (cnt (t_assign t) s <= spec_ideal (t_count t) R s ->
            cnt (t_assign t) s <= cnt post s <= spec_ideal (t_count t) R s))
  (* on a table within one of ideal no remaining slot ends more than one above its ideal share *)
  /\ (balanced (t_count t) (t_assign t) A = true -> not_over (t_count t) post R = true).
Proof.
  intros W NZ Xin RNE A R post.
  assert (Xnz : x <> 0) by (apply in_active in Xin; destruct Xin; assumption).
  assert (PL : post = apply_moves (fst (transfer_loop (plan_fuel t) (remove_choose (ideal_slot_counts (t_count t) R) R x)
                                         (slot_counts t (R ++ [x])) (slot_hash_slots t [x]))) (t_assign t)).
  { unfold post, compute_remove_slot_plan, compute_remove_slot_plan_full.
    assert (E0 : (x =? 0) = false) by (apply N.eqb_neq; exact Xnz). rewrite E0.
    destruct (hash_slots_of t x) as [|h0 hr] eqn:EH.
    { apply hash_slots_of_nil in EH. exfalso. apply EH. apply in_active in Xin. destruct Xin; assumption. }
    unfold R. destruct (active_slot_ids_excluding t x) as [|r0 rr] eqn:ER; [congruence|]. reflexivity. }
  destruct (rem_struct t x) as [_ [_ TR]]. fold R in TR.
  destruct (rem_final t x W RNE NZ) as [[I1 I3] FN]. fold R in I1, I3, FN.
  set (tgt := ideal_slot_counts (t_count t) R) in *.
  set (cur0 := slot_counts t (R ++ [x])) in *.
  set (c := snd (transfer_loop (plan_fuel t) (remove_choose tgt R x) cur0 (slot_hash_slots t [x]))) in *.
  rewrite <- PL in TR.
  assert (InD : forall s, In s (R ++ [x]) <-> s = x \/ In s R) by (intro s; apply (rem_in_dom t x)).
  assert (TG : forall s, In s R -> aget 0 tgt s = spec_ideal (t_count t) R s).
  { intros s Is. unfold tgt. apply ideal_slot_counts_spec; [apply (rem_R_nodup t x)|exact Is]. }
  assert (C0 : forall s, In s (R ++ [x]) -> aget 0 cur0 s = cnt (t_assign t) s) by (intros s Is; apply (rem_cur0 t x); exact Is).
  assert (NC : forall s, In s R ->
        (spec_ideal (t_count t) R s <= cnt (t_assign t) s -> cnt post s = cnt (t_assign t) s)
        /\ (cnt (t_assign t) s <= spec_ideal (t_count t) R s ->
            cnt (t_assign t) s <= cnt post s <= spec_ideal (t_count t) R s)).
  { intros s Is. assert (IsD : In s (R ++ [x])) by (apply InD; right; exact Is).
    destruct (I3 s Is) as [P1 P2]. rewrite <- (TR s IsD), <- (C0 s IsD), <- (TG s Is). split; assumption. }
  split; [|split; [exact NC|]].
  - rewrite <- (TR x) by (apply InD; left; reflexivity). exact FN.
  - intro PRE. unfold balanced, not_over in *. rewrite forallb_forall in *. intros s Is.
    apply N.leb_le. destruct (NC s Is) as [P1 P2].
    assert (IsA : In s A) by (apply (rem_in_R t x) in Is; destruct Is; assumption).
    specialize (PRE s IsA). unfold within_one in PRE. apply andb_true_iff in PRE. destruct PRE as [Q1 _]. apply N.leb_le in Q1.
    (* a share never shrinks when a slot leaves *)
    assert (MONO : spec_ideal (t_count t) A s <= spec_ideal (t_count t) R s).
    { pose proof (Permutation_length (rem_A_perm t x Xin RNE)) as LA. fold A R in LA. cbn [length] in LA.
      assert (K : 1 <= N.of_nat (length R)) by (unfold R; destruct (active_slot_ids_excluding t x); [congruence|cbn [length]; lia]).
      unfold spec_ideal. rewrite LA.
      assert (K1 : (N.of_nat (S (length R)) =? 0) = false) by (apply N.eqb_neq; lia).
      assert (K2 : (N.of_nat (length R) =? 0) = false) by (apply N.eqb_neq; lia).
      rewrite K1, K2. replace (N.of_nat (S (length R))) with (N.of_nat (length R) + 1) by lia.
      apply ideal_mono; [exact K|]. unfold R, active_slot_ids_excluding. apply rank_filter_le. }
    destruct (N.le_gt_cases (spec_ideal (t_count t) R s) (cnt (t_assign t) s)) as [G|G].
    + rewrite (P1 G). lia.
    + specialize (P2 ltac:(lia)). lia.
Qed.
