(* Proof/Backup_roundtrip.v — C11, part 3: what is written is what is read back.
   - the framing decoders invert the encoders (both stream formats);
   - a successful import into a store that holds none of the channels restores every
     section exactly (catalog, checkpoint, system entries, rows) and touches nothing else;
   - an exported section holds only rows at or below the cut, in increasing order. *)
From WK Require Import Base.Base Base.Bytes Gen.Consts_C11 Model.Backup Proof.Backup Proof.Backup_import.
From Coq Require Import ZifyBool ZifyN ZifyNat.
Open Scope N_scope.

Lemma bytes_eqb_refl' a : bytes_eqb a a = true.
Proof. apply bytes_eqb_eq. reflexivity. Qed.

(* ---- well-formed sections (what a Go value can be) ------------------------------------------ *)
Definition field_ok (b : bytes) : Prop := N.of_nat (length b) <= maxMessageBackupStreamFieldBytes.
Definition row_wf (r : raw_row) : Prop := rr_seq r < 2 ^ 64 /\ field_ok (rr_header r) /\ field_ok (rr_payload r).
Definition chan_wf (c : raw_chan) : Prop :=
  field_ok (rc_key c) /\ field_ok (rc_id c) /\ length (rc_ckpt c) = 24%nat
  /\ Forall (fun e => field_ok (fst e) /\ field_ok (snd e)) (rc_sys c)
  /\ N.of_nat (length (rc_sys c)) < 2 ^ 64
  /\ rc_count c = N.of_nat (length (rc_rows c)) /\ rc_count c < 2 ^ 64
  /\ Forall row_wf (rc_rows c).

Lemma cap_lt_2_64 : maxMessageBackupStreamFieldBytes < 2 ^ 64.
Proof. vm_compute. reflexivity. Qed.

Lemma field_rt b rest : field_ok b -> get_field maxMessageBackupStreamFieldBytes (put_field b ++ rest) = Some (b, rest).
Proof. intro H. apply field_roundtrip; [exact H|]. unfold field_ok in H. pose proof cap_lt_2_64. lia. Qed.

Lemma put_field_nonempty b : (1 <= length (put_field b))%nat.
Proof.
  unfold put_field, put_uvarint. cbn [put_uvarint_fuel].
  destruct (N.of_nat (length b) <? 128); rewrite app_length; cbn [length]; lia.
Qed.

Lemma dec_sys_list_rt : forall l rest,
  Forall (fun e => field_ok (fst e) /\ field_ok (snd e)) l ->
  dec_sys_list (length l) (concat (map enc_sys l) ++ rest) = Some (l, rest).
Proof.
  induction l as [|[k v] l IH]; intros rest Hwf; [reflexivity|].
  inversion Hwf as [|? ? [Hk Hv] Hwf']; subst. cbn [fst snd] in *.
  cbn [length map concat dec_sys_list]. unfold enc_sys. cbn [fst snd].
  rewrite <- !app_assoc. rewrite field_rt by exact Hk. rewrite field_rt by exact Hv.
  rewrite IH by exact Hwf'. reflexivity.
Qed.

Lemma dec_row_list_rt : forall l rest,
  Forall row_wf l -> dec_row_list (length l) (concat (map enc_row l) ++ rest) = Some (l, rest).
Proof.
  induction l as [|[sq h p] l IH]; intros rest Hwf; [reflexivity|].
  inversion Hwf as [|? ? (Hs & Hh & Hp) Hwf']; subst. cbn [rr_seq rr_header rr_payload] in *.
  cbn [length map concat dec_row_list]. unfold enc_row. cbn [rr_seq rr_header rr_payload].
  rewrite <- !app_assoc. unfold put_u64. rewrite get_be_put by (exact Hs).
  rewrite field_rt by exact Hh. rewrite field_rt by exact Hp. rewrite IH by exact Hwf'. reflexivity.
Qed.

Lemma concat_enc_length {A} (enc : A -> bytes) (Hne : forall x, (1 <= length (enc x))%nat) :
  forall l, (length l <= length (concat (map enc l)))%nat.
Proof.
  induction l as [|x l IH]; [cbn; lia|]. cbn [map concat length]. rewrite app_length. specialize (Hne x). lia.
Qed.

Lemma bounded_exact cnt n bs : cnt = N.of_nat n -> (n <= length bs)%nat -> bounded cnt bs = n.
Proof. intros E L. unfold bounded. subst cnt. rewrite N.min_l by lia. apply Nat2N.id. Qed.

Lemma enc_sys_nonempty e : (1 <= length (enc_sys e))%nat.
Proof. unfold enc_sys. rewrite app_length. pose proof (put_field_nonempty (fst e)). lia. Qed.
Lemma enc_row_nonempty r : (1 <= length (enc_row r))%nat.
Proof. unfold enc_row, put_u64. rewrite app_length, be_put_length. lia. Qed.

(* one channel section *)
Lemma dec_chan_rt c rest : chan_wf c -> dec_chan (enc_chan c ++ rest) = Some (c, rest).
Proof.
  intros (Hk & Hi & Hc & Hs & Hsn & Hcnt & Hcl & Hr).
  unfold dec_chan, dec_chan_header, enc_chan. rewrite <- !app_assoc.
  rewrite field_rt by exact Hk. rewrite field_rt by exact Hi. cbn [app].
  rewrite take_app by exact Hc.
  rewrite uvarint_roundtrip by exact Hsn.
  rewrite (bounded_exact _ (length (rc_sys c))); [|reflexivity|].
  2:{ rewrite app_length. pose proof (concat_enc_length enc_sys enc_sys_nonempty (rc_sys c)). lia. }
  rewrite dec_sys_list_rt by exact Hs.
  rewrite uvarint_roundtrip by exact Hcl. cbn [rc_count].
  rewrite (bounded_exact _ (length (rc_rows c))); [|exact Hcnt|].
  2:{ rewrite app_length. pose proof (concat_enc_length enc_row enc_row_nonempty (rc_rows c)). lia. }
  rewrite dec_row_list_rt by exact Hr.
  destruct c; reflexivity.
Qed.

Lemma enc_chan_nonempty c : (1 <= length (enc_chan c))%nat.
Proof. unfold enc_chan. rewrite app_length. pose proof (put_field_nonempty (rc_key c)). lia. Qed.

Lemma dec_chan_list_rt : forall l rest,
  Forall chan_wf l -> dec_chan_list (length l) (concat (map enc_chan l) ++ rest) = Some (l, rest).
Proof.
  induction l as [|c l IH]; intros rest Hwf; [reflexivity|].
  inversion Hwf; subst. cbn [length map concat dec_chan_list]. rewrite <- app_assoc.
  rewrite dec_chan_rt by assumption. rewrite IH by assumption. reflexivity.
Qed.

(* the message stream: decoding an encoded snapshot gives the snapshot back and nothing is left *)
Theorem msg_payload_roundtrip s :
  rs_hash_slot s < 2 ^ 16 -> N.of_nat (length (rs_chans s)) < 2 ^ 32 -> Forall chan_wf (rs_chans s) ->
  dec_msg_payload (enc_msg_payload s) = Some (s, []).
Proof.
  intros Hh Hn Hwf. unfold dec_msg_payload, enc_msg_payload.
  rewrite take_app by reflexivity. rewrite bytes_eqb_refl'. cbn [negb].
  unfold put_u16 at 1. rewrite get_be_put by (vm_compute; reflexivity). rewrite N.eqb_refl. cbn [negb].
  unfold put_u16. rewrite get_be_put by exact Hh.
  unfold put_u32. rewrite get_be_put by exact Hn.
  rewrite (bounded_exact _ (length (rs_chans s))); [|reflexivity|].
  2:{ pose proof (concat_enc_length enc_chan enc_chan_nonempty (rs_chans s)). lia. }
  rewrite <- (app_nil_r (concat (map enc_chan (rs_chans s)))).
  rewrite dec_chan_list_rt by exact Hwf. destruct s; reflexivity.
Qed.

(* ---- the metadata stream ---------------------------------------------------------------------- *)
Definition entry_wf (e : kv) : Prop :=
  N.of_nat (length (fst e)) <= maxSlotSnapshotStreamEntryBytes /\ N.of_nat (length (snd e)) <= maxSlotSnapshotStreamEntryBytes.

Lemma meta_cap_lt_2_64 : maxSlotSnapshotStreamEntryBytes < 2 ^ 64.
Proof. vm_compute. reflexivity. Qed.

Lemma dec_entry_rt e rest : entry_wf e -> dec_entry (enc_entry e ++ rest) = Some (e, rest).
Proof.
  intros (Hk & Hv). unfold dec_entry, enc_entry. rewrite <- !app_assoc. pose proof meta_cap_lt_2_64.
  rewrite uvarint_roundtrip by lia.
  assert (E1 : (maxSlotSnapshotStreamEntryBytes <? N.of_nat (length (fst e))) = false) by (apply N.ltb_ge; exact Hk).
  rewrite E1. rewrite uvarint_roundtrip by lia.
  assert (E2 : (maxSlotSnapshotStreamEntryBytes <? N.of_nat (length (snd e))) = false) by (apply N.ltb_ge; exact Hv).
  rewrite E2.
  assert (L1 : (N.of_nat (length (fst e ++ snd e ++ rest)) <? N.of_nat (length (fst e))) = false).
  { apply N.ltb_ge. rewrite app_length. lia. }
  rewrite L1. rewrite Nat2N.id. rewrite take_app by reflexivity.
  assert (L2 : (N.of_nat (length (snd e ++ rest)) <? N.of_nat (length (snd e))) = false).
  { apply N.ltb_ge. rewrite app_length. lia. }
  rewrite L2. rewrite Nat2N.id. rewrite take_app by reflexivity. destruct e; reflexivity.
Qed.

Lemma enc_entry_nonempty e : (1 <= length (enc_entry e))%nat.
Proof.
  unfold enc_entry, put_uvarint. cbn [put_uvarint_fuel]. rewrite app_length.
  destruct (N.of_nat (length (fst e)) <? 128); cbn [length]; lia.
Qed.

Lemma dec_entry_list_rt : forall l rest,
  Forall entry_wf l -> dec_entry_list (length l) (concat (map enc_entry l) ++ rest) = Some (l, rest).
Proof.
  induction l as [|e l IH]; intros rest Hwf; [reflexivity|].
  inversion Hwf; subst. cbn [length map concat dec_entry_list]. rewrite <- app_assoc.
  rewrite dec_entry_rt by assumption. rewrite IH by assumption. reflexivity.
Qed.

Lemma dec_u16_list_rt : forall l rest,
  Forall (fun x => x < 2 ^ 16) l -> dec_u16_list (length l) (concat (map put_u16 l) ++ rest) = Some (l, rest).
Proof.
  induction l as [|x l IH]; intros rest Hwf; [reflexivity|].
  inversion Hwf; subst. cbn [length map concat dec_u16_list]. rewrite <- app_assoc.
  unfold put_u16 at 1. rewrite get_be_put by assumption. rewrite IH by assumption. reflexivity.
Qed.

Theorem meta_payload_roundtrip s :
  rm_slots s <> [] -> N.of_nat (length (rm_slots s)) < 2 ^ 16 -> Forall (fun x => x < 2 ^ 16) (rm_slots s) ->
  rm_count s = N.of_nat (length (rm_entries s)) -> rm_count s <= 9223372036854775807 ->
  Forall entry_wf (rm_entries s) ->
  dec_meta_payload (enc_meta_payload s) = Some (s, []).
Proof.
  intros Hne Hn Hs Hc Hcl Hwf. unfold dec_meta_payload, enc_meta_payload.
  rewrite take_app by reflexivity. rewrite bytes_eqb_refl'. cbn [negb].
  unfold put_u16 at 1. rewrite get_be_put by (vm_compute; reflexivity). rewrite N.eqb_refl. cbn [negb].
  unfold put_u16 at 1. rewrite get_be_put by exact Hn.
  assert (Ez : (N.of_nat (length (rm_slots s)) =? 0) = false).
  { apply N.eqb_neq. destruct (rm_slots s); [contradiction|cbn [length]; lia]. }
  rewrite Ez. rewrite Nat2N.id. rewrite dec_u16_list_rt by exact Hs.
  unfold put_u64. rewrite get_be_put by lia.
  assert (El : (9223372036854775807 <? rm_count s) = false) by (apply N.ltb_ge; exact Hcl). rewrite El.
  rewrite (bounded_exact _ (length (rm_entries s))); [|exact Hc|].
  2:{ pose proof (concat_enc_length enc_entry enc_entry_nonempty (rm_entries s)). lia. }
  rewrite <- (app_nil_r (concat (map enc_entry (rm_entries s)))).
  rewrite dec_entry_list_rt by exact Hwf. destruct s; reflexivity.
Qed.

(* ---- an exported section holds nothing above the cut ------------------------------------------- *)
Lemma rows_through_bound hw : forall rows, Forall (fun r => rw_seq r <= hw) (rows_through hw rows).
Proof.
  induction rows as [|r rest IH]; cbn [rows_through]; [constructor|].
  destruct (hw <? rw_seq r) eqn:E; [constructor|]. apply N.ltb_ge in E. constructor; assumption.
Qed.

Theorem exported_rows_within_cut vt d c s :
  export_chan vt d c = Ok s -> Forall (fun r => rr_seq r <= cu_hw c) (rc_rows s).
Proof.
  unfold export_chan.
  destruct (match ch_cat d with Some (id, ty) => _ | None => None end); [discriminate|].
  destruct (match ch_ret d with Some (e, retained) => _ | None => _ end) as [leo|e]; [|discriminate].
  destruct (leo <? cu_hw c); [discriminate|].
  destruct (filter_sys (cu_hw c) (ch_sys d)) as [kept|e]; [|discriminate].
  destruct (lookup_valid vt (ch_key d) (cu_hw c) (map se_key kept)) as [v|]; [|discriminate].
  destruct (negb (v =? 0)); [discriminate|].
  set (rows := if cu_hw c =? 0 then [] else rows_through (cu_hw c) (ch_rows d)).
  destruct (first_row_err rows); [discriminate|].
  destruct (negb (forallb rw_ident_ok rows)); [discriminate|].
  intro H. inversion H; subst. cbn [rc_rows].
  assert (Hb : Forall (fun r => rw_seq r <= cu_hw c) rows).
  { unfold rows. destruct (cu_hw c =? 0); [constructor|apply rows_through_bound]. }
  clear - Hb. induction rows as [|r rest IH]; cbn [map]; [constructor|].
  inversion Hb; subst. constructor; [cbn [rr_seq]; assumption|apply IH; assumption].
Qed.

(* ---- a successful import restores every section exactly ---------------------------------------- *)
Section Restore.
  (* the restored form of one section *)
  Definition restored (c : raw_chan) : chan_dump := install_rows (rc_rows c) (install_meta c (empty_dump (rc_key c))).

  Lemma install_parse : forall n prev orc bs tgt msgs maxid tgt' m mx rest,
    parse_chans true n None prev orc bs tgt msgs maxid = (tgt', Ok (None, m, mx, rest)) ->
    (forall key, prev = [] \/ bytes_ltb prev key = true -> absent key tgt) ->
    exists l, dec_chan_list n bs = Some (l, rest)
              /\ (forall c, In c l -> find_dump (rc_key c) tgt' = restored c)
              /\ (forall key, (forall c, In c l -> rc_key c <> key) -> find_dump key tgt' = find_dump key tgt).
  Proof.
    induction n as [|n IH]; intros prev orc bs tgt msgs maxid tgt' m mx rest H Habs.
    - cbn [parse_chans] in H. inversion H; subst. exists []. split; [reflexivity|]. split; [intros c []|reflexivity].
    - cbn [parse_chans] in H. cbn [ctx_check] in H.
      destruct (parse_chan_header prev bs) as [[h r7]|e] eqn:Eh; [|inversion H].
      destruct orc as [|o orc']; [inversion H|].
      destruct (negb (co_valid o =? 0)); [inversion H|].
      destruct (negb (co_ident_err o =? 0)); [inversion H|].
      assert (Hhdr := parse_chan_header_frames _ _ _ _ Eh).
      (* key of the section: not empty, above the previous one *)
      assert (Hkey : rc_key h <> [] /\ (prev = [] \/ bytes_ltb prev (rc_key h) = true) /\ rc_rows h = []).
      { unfold parse_chan_header in Eh.
        destruct (get_field _ bs) as [[key r1]|]; [|discriminate].
        destruct (get_field _ r1) as [[id r2]|]; [|discriminate].
        destruct r2 as [|ty r3]; [discriminate|].
        destruct (bytes_eqb key [] || bytes_eqb id [] || (negb (bytes_eqb prev []) && negb (bytes_ltb prev key))) eqn:Ec; [discriminate|].
        destruct (take 24 r3) as [[ckp r4]|]; [|discriminate].
        destruct (get_uvarint r4) as [[nsys r5]|]; [|discriminate].
        destruct (maxMessageBackupSystemEntries <? nsys); [discriminate|].
        destruct (dec_sys_list (bounded nsys r5) r5) as [[sys r6]|]; [|discriminate].
        destruct (negb (forallb _ sys)); [discriminate|].
        destruct (get_uvarint r6) as [[cnt r7']|]; [|discriminate].
        destruct (9223372036854775807 <? cnt); [discriminate|].
        inversion Eh; subst. cbn [rc_key rc_rows].
        apply orb_false_iff in Ec. destruct Ec as [Ec1 Ec]. apply orb_false_iff in Ec1. destruct Ec1 as [Ek _].
        split; [intro E; subst key; cbn in Ek; discriminate|]. split; [|reflexivity].
        apply andb_false_iff in Ec. destruct Ec as [Ec|Ec].
        - left. apply negb_false_iff in Ec. apply bytes_eqb_eq in Ec. exact Ec.
        - right. apply negb_false_iff in Ec. exact Ec. }
      destruct Hkey as (Hne & Hlt & Hnorows).
      pose proof (Habs (rc_key h) Hlt) as Hab. unfold absent in Hab. rewrite Hab in H.
      cbn [ch_cat ch_ckpt empty_dump orb andb] in H.
      destruct (read_rows (bounded (rc_count h) r7) None (ckpt_hw (rc_ckpt h)) 0 (co_rows o) r7 [] 0)
        as [rows [[[c2 mx2] rest2]|e]] eqn:Er; [|inversion H].
      assert (c2 = None) by (eapply read_rows_none; exact Er). subst c2.
      destruct (18446744073709551615 - msgs <? rc_count h); [inversion H|].
      apply read_rows_frames in Er. destruct Er as (lr & Hdr & Hrows). cbn [rev app] in Hrows. subst rows.
      set (tgt2 := update_dump (rc_key h) (install_rows lr) (update_dump (rc_key h) (install_meta h) tgt)) in *.
      destruct (IH (rc_key h) orc' rest2 tgt2 _ _ tgt' m mx rest H) as (l & Hdl & Hin & Hout).
      { intros key [E|L]; [contradiction|].
        assert (Hk : key <> rc_key h) by (intro E; subst key; rewrite bytes_ltb_irrefl in L; discriminate).
        unfold absent, tgt2.
        rewrite (find_dump_update_other key (rc_key h) _ (install_rows_key lr) Hk).
        rewrite (find_dump_update_other key (rc_key h) _ (install_meta_key h) Hk).
        apply Habs. destruct Hlt as [Hp|Hp]; [left; exact Hp|right; exact (bytes_ltb_trans _ _ _ Hp L)]. }
      exists (with_rows h lr :: l). split.
      { cbn [dec_chan_list]. unfold dec_chan. rewrite Hhdr, Hdr, Hdl. reflexivity. }
      (* the keys of the later sections are above this one *)
      assert (Hlater : forall c, In c l -> bytes_ltb (rc_key h) (rc_key c) = true).
      { clear - Hdl H. clearbody tgt2. revert Hdl H. generalize (rc_key h) as k0.
        (* every section parsed after prev = k0 has a key above k0; proved by re-running the header checks *)
        revert orc' rest2 tgt2 tgt' l. generalize (msgs + rc_count h) (N.max maxid mx2).
        induction n as [|n IHn]; intros a b orc rest0 t0 t1 l k0 Hd Hp c Hc.
        - cbn [dec_chan_list] in Hd. inversion Hd; subst. destruct Hc.
        - cbn [parse_chans] in Hp. cbn [ctx_check] in Hp.
          destruct (parse_chan_header k0 rest0) as [[h1 r1]|e] eqn:Eh1; [|inversion Hp].
          destruct orc as [|o1 orc1]; [inversion Hp|].
          destruct (negb (co_valid o1 =? 0)); [inversion Hp|].
          destruct (negb (co_ident_err o1 =? 0)); [inversion Hp|].
          match type of Hp with (if ?cf then _ else _) = _ => destruct cf end; [inversion Hp|].
          destruct (read_rows (bounded (rc_count h1) r1) None (ckpt_hw (rc_ckpt h1)) 0 (co_rows o1) r1 [] 0)
            as [rows1 [[[c3 mx3] rest3]|e]] eqn:Er1; [|inversion Hp].
          assert (c3 = None) by (eapply read_rows_none; exact Er1). subst c3.
          destruct (18446744073709551615 - a <? rc_count h1); [inversion Hp|].
          pose proof (parse_chan_header_frames _ _ _ _ Eh1) as Hh1.
          apply read_rows_frames in Er1. destruct Er1 as (lr1 & Hdr1 & _).
          cbn [dec_chan_list] in Hd. unfold dec_chan in Hd. rewrite Hh1, Hdr1 in Hd.
          destruct (dec_chan_list n rest3) as [[l1 r9]|] eqn:Hd1; [|discriminate].
          inversion Hd; subst.
          assert (Hk1 : bytes_ltb k0 (rc_key h1) = true \/ k0 = []).
          { unfold parse_chan_header in Eh1.
            destruct (get_field _ rest0) as [[key r10]|]; [|discriminate].
            destruct (get_field _ r10) as [[id r2]|]; [|discriminate].
            destruct r2 as [|ty r3]; [discriminate|].
            destruct (bytes_eqb key [] || bytes_eqb id [] || (negb (bytes_eqb k0 []) && negb (bytes_ltb k0 key))) eqn:Ec; [discriminate|].
            destruct (take 24 r3) as [[ckp r4]|]; [|discriminate].
            destruct (get_uvarint r4) as [[nsys r5]|]; [|discriminate].
            destruct (maxMessageBackupSystemEntries <? nsys); [discriminate|].
            destruct (dec_sys_list (bounded nsys r5) r5) as [[sys r6]|]; [|discriminate].
            destruct (negb (forallb _ sys)); [discriminate|].
            destruct (get_uvarint r6) as [[cnt r7']|]; [|discriminate].
            destruct (9223372036854775807 <? cnt); [discriminate|].
            inversion Eh1; subst. cbn [rc_key].
            apply orb_false_iff in Ec. destruct Ec as [_ Ec]. apply andb_false_iff in Ec. destruct Ec as [Ec|Ec].
            - right. apply negb_false_iff in Ec. apply bytes_eqb_eq in Ec. exact Ec.
            - left. apply negb_false_iff in Ec. exact Ec. }
          destruct Hc as [Hc|Hc].
          + subst c. cbn [rc_key with_rows]. destruct Hk1 as [Hk1|Hk1]; [exact Hk1|].
            (* k0 = [] cannot be: the caller passes the key of an accepted section *)
            subst k0. destruct (rc_key h1) eqn:Ek; [|reflexivity].
            exfalso. unfold parse_chan_header in Eh1.
            destruct (get_field _ rest0) as [[key r10]|]; [|discriminate].
            destruct (get_field _ r10) as [[id r2]|]; [|discriminate].
            destruct r2 as [|ty r3]; [discriminate|].
            destruct (bytes_eqb key [] || bytes_eqb id [] || (negb (bytes_eqb [] []) && negb (bytes_ltb [] key))) eqn:Ec; [discriminate|].
            destruct (take 24 r3) as [[ckp r4]|]; [|discriminate].
            destruct (get_uvarint r4) as [[nsys r5]|]; [|discriminate].
            destruct (maxMessageBackupSystemEntries <? nsys); [discriminate|].
            destruct (dec_sys_list (bounded nsys r5) r5) as [[sys r6]|]; [|discriminate].
            destruct (negb (forallb _ sys)); [discriminate|].
            destruct (get_uvarint r6) as [[cnt r7']|]; [|discriminate].
            destruct (9223372036854775807 <? cnt); [discriminate|].
            inversion Eh1; subst. cbn [rc_key] in Ek. subst key. cbn in Ec. discriminate.
          + assert (Hl1 : bytes_ltb (rc_key h1) (rc_key c) = true) by (eapply IHn; eassumption).
            destruct Hk1 as [Hk1|Hk1]; [eapply bytes_ltb_trans; eassumption|].
            subst k0. destruct (rc_key c); [destruct (rc_key h1); discriminate|reflexivity]. }
      split.
      + intros c [E|Hc].
        * subst c. cbn [rc_key with_rows].
          rewrite Hout.
          -- unfold tgt2. rewrite (find_dump_update_same _ _ (install_rows_key lr)).
             rewrite (find_dump_update_same _ _ (install_meta_key h)). rewrite Hab.
             unfold restored. cbn [rc_rows rc_key with_rows]. destruct h; reflexivity.
          -- intros c Hc E. apply Hlater in Hc. rewrite E in Hc. rewrite bytes_ltb_irrefl in Hc. discriminate.
        * apply Hin. exact Hc.
      + intros key Hk. rewrite Hout by (intros c Hc; apply Hk; right; exact Hc).
        assert (Hne2 : key <> rc_key h).
        { intro E. apply (Hk (with_rows h lr)); [left; reflexivity|]. cbn [rc_key with_rows]. symmetry. exact E. }
        unfold tgt2. rewrite (find_dump_update_other key (rc_key h) _ (install_rows_key lr) Hne2).
        apply (find_dump_update_other key (rc_key h) _ (install_meta_key h) Hne2).
  Qed.
End Restore.

(* ImportBackupSnapshotReader, uncancelled, on a store that holds none of the channels: when it
   succeeds the store holds, for every section of the stream, exactly that section — catalog
   identity, checkpoint, the system entries (key order, later duplicates winning), the rows in
   sequence order — and every other channel is as before *)
Theorem restore_exact ck orc stream tgt tgt' st :
  (forall key, absent key tgt) ->
  import_reader ck None orc stream tgt = (tgt', Ok st) ->
  exists p s, verify_checksum ck stream = Ok p /\ dec_msg_payload p = Some (s, [])
              /\ (forall c, In c (rs_chans s) -> find_dump (rc_key c) tgt' = restored c)
              /\ (forall key, (forall c, In c (rs_chans s) -> rc_key c <> key) -> find_dump key tgt' = find_dump key tgt).
Proof.
  intros Habs. unfold import_reader.
  destruct (verify_checksum ck stream) as [p|e] eqn:Ev; [|intro H; inversion H].
  destruct (parse_stream false None orc p tgt) as [t1 [[c1 st1]|e]] eqn:E1; [|intro H; inversion H].
  destruct (parse_stream true c1 orc p tgt) as [t2 [[c2 st2]|e]] eqn:E2; [|intro H; inversion H].
  destruct (stats_eqb st2 st1); intro H; inversion H; subst t2. clear H.
  (* the validation pass leaves the context absent *)
  assert (c1 = None).
  { unfold parse_stream in E1.
    destruct (take 4 p) as [[mg r0]|]; [|inversion E1].
    destruct (negb (bytes_eqb mg msgMagic)); [inversion E1|].
    destruct (get_be 2 r0) as [[ver r1]|]; [|inversion E1].
    destruct (negb (ver =? msgVersion)); [inversion E1|].
    destruct (get_be 2 r1) as [[hs r2]|]; [|inversion E1].
    destruct (get_be 4 r2) as [[n r3]|]; [|inversion E1].
    destruct (maxMessageBackupStreamChannels <? n); [inversion E1|].
    destruct (parse_chans false (bounded n r3) None [] orc r3 tgt 0 0) as [t3 [[[[c3 m] mx] rest]|e]] eqn:Ep; [|inversion E1].
    assert (c3 = None) by (eapply parse_chans_none; exact Ep). subst c3.
    destruct rest; inversion E1; reflexivity. }
  subst c1. clear E1.
  unfold parse_stream in E2.
  destruct (take 4 p) as [[mg r0]|] eqn:T0; [|inversion E2].
  destruct (negb (bytes_eqb mg msgMagic)) eqn:T1; [inversion E2|].
  destruct (get_be 2 r0) as [[ver r1]|] eqn:T2; [|inversion E2].
  destruct (negb (ver =? msgVersion)) eqn:T3; [inversion E2|].
  destruct (get_be 2 r1) as [[hs r2]|] eqn:T4; [|inversion E2].
  destruct (get_be 4 r2) as [[n r3]|] eqn:T5; [|inversion E2].
  destruct (maxMessageBackupStreamChannels <? n); [inversion E2|].
  destruct (parse_chans true (bounded n r3) None [] orc r3 tgt 0 0) as [t3 [[[[c3 m] mx] rest]|e]] eqn:Ep; [|inversion E2].
  assert (c3 = None) by (eapply parse_chans_none; exact Ep). subst c3.
  destruct rest as [|b rest]; [|inversion E2]. inversion E2; subst t3. clear E2.
  destruct (install_parse _ _ _ _ _ _ _ _ _ _ _ Ep) as (l & Hd & Hin & Hout).
  { intros key _. apply Habs. }
  exists p, (RS hs l). split; [reflexivity|]. split.
  { unfold dec_msg_payload. rewrite T0, T1, T2, T3, T4, T5, Hd. reflexivity. }
  cbn [rs_chans]. split; assumption.
Qed.
