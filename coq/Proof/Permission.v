(* Proof/Permission.v — decision-level theorems of C36: the per-send path and the
   read-plan path decide alike on every fact record (except the C36-K2 ordering
   divergence, characterised exactly), the decision is the first failing check of the
   precedence table, system senders skip exactly the non-terminal checks. *)
From WK Require Import Base.Base Model.ChannelId Model.Permission.
From WK Require Import Gen.Consts_C36.
Open Scope N_scope.

(* case analysis driven by the decision tree: split a boolean / enum variable only when
   it is the head of a match, so irrelevant facts are never enumerated *)
Ltac split_head :=
  match goal with
  | |- context [match ?b with _ => _ end] => is_var b; destruct b
  end.
Ltac tree := cbv; repeat (split_head; cbv); try reflexivity; try discriminate; auto.

Ltac destruct_facts f :=
  destruct f as [ty rs su ce nm ne ss ds de rsy wl ag vs
                 [sf ssb sb sd sa sv se] [tf tsb tb td ta tv te] [cf csb cb cd ca cv cer]
                 [df dsb db dd da dv der] [uf usb ub ud ua uv uer]
                 [hf hsb hb hd ha hv her] [af asb ab ad aa av aer]].

(* ---- C36-K2: where the two paths order their checks differently --------------------------- *)

Lemma paths_agree (f : facts) : k2_cond f = false -> decide_batch f = decide_single f.
Proof. destruct_facts f. unfold k2_cond. tree. Qed.

(* exactly what happens under k2_cond *)
Lemma paths_k2 (f : facts) : k2_cond f = true ->
  decide_batch f = (ReasonSuccess, EPerson)
  /\ decide_single f = first_failing (sender_checks f ++ terminal_checks f ++ [(true, (0, EPerson))]).
Proof. destruct_facts f. unfold k2_cond. split; revert H; tree. Qed.

(* even then, neither path lets the send through *)
Lemma paths_k2_both_reject (f : facts) : k2_cond f = true ->
  ok (decide_batch f) = false /\ ok (decide_single f) = false.
Proof. destruct_facts f. unfold k2_cond. split; revert H; tree. Qed.

(* in every case the two paths agree on whether the send is let through *)
Lemma paths_same_admission (f : facts) : ok (decide_batch f) = ok (decide_single f).
Proof.
  destruct (k2_cond f) eqn:E.
  - destruct (paths_k2_both_reject f E) as [-> ->]. reflexivity.
  - rewrite (paths_agree f E). reflexivity.
Qed.

Definition k2_witness : facts :=
  Facts TPerson false false false false false false false true false false AgErr false
        (RR true true false false false false false)       (* sender: found, SendBan *)
        zero_result zero_result zero_result zero_result zero_result zero_result.

Lemma paths_agree_refuted : exists f, decide_batch f <> decide_single f.
Proof. exists k2_witness. vm_compute. discriminate. Qed.

(* ---- precedence ------------------------------------------------------------------------------ *)

Lemma single_is_first_failing (f : facts) : decide_single f = spec_decision f.
Proof. destruct_facts f. tree. Qed.

Lemma batch_is_first_failing (f : facts) : k2_cond f = false -> decide_batch f = spec_decision f.
Proof. intro H. rewrite (paths_agree f H). apply single_is_first_failing. Qed.

(* ---- system senders --------------------------------------------------------------------------- *)

(* the command is checked at all, and its channel id could be normalised *)
Definition checked (f : facts) : bool :=
  negb (permission_free f) && negb (is_person (f_type f) && f_norm f && f_norm_err f).

(* a system uid is subject to the terminal check and to nothing else, on both paths *)
Lemma system_uid_bypass (f : facts) : checked f = true -> f_sender_sys f = true ->
  decide_single f = first_failing (terminal_checks f)
  /\ decide_batch f = first_failing (terminal_checks f).
Proof. destruct_facts f. unfold checked. intros H1 H2. split; revert H1 H2; tree. Qed.

(* a system device: the sender's SendBan, then the terminal check, nothing else *)
Lemma system_device_bypass (f : facts) : checked f = true -> f_sender_sys f = false ->
  f_device_sys f = true ->
  decide_single f = first_failing (sender_checks f ++ terminal_checks f)
  /\ decide_batch f = first_failing (sender_checks f ++ terminal_checks f).
Proof. destruct_facts f. unfold checked. intros H1 H2 H3. split; revert H1 H2 H3; tree. Qed.

(* the terminal check is never bypassed: a disbanded channel accepts nothing that is checked *)
Definition target_disbanded (f : facts) : bool :=
  negb (r_err (f_target f)) && r_found (f_target f) && r_disband (f_target f).

Lemma disband_is_terminal (f : facts) : checked f = true -> target_disbanded f = true ->
  ok (decide_single f) = false /\ ok (decide_batch f) = false.
Proof.
  intros H1 H2.
  assert (Hs : ok (decide_single f) = false).
  { destruct_facts f. unfold checked, target_disbanded in *. revert H1 H2. tree. }
  split; [exact Hs | rewrite paths_same_admission; exact Hs].
Qed.

(* for a system uid the disbanded state is the reported reason *)
Lemma system_uid_disband (f : facts) : checked f = true -> f_sender_sys f = true ->
  target_disbanded f = true ->
  decide_single f = (ReasonDisband, ENone) /\ decide_batch f = (ReasonDisband, ENone).
Proof.
  destruct_facts f. unfold checked, target_disbanded. intros H1 H2 H3. split; revert H1 H2 H3; tree.
Qed.

(* the reasons in use are pairwise distinct, so "reason" identifies the failing check *)
Lemma reasons_distinct :
  NoDup [ReasonSuccess; ReasonChannelNotExist; ReasonSystemError; ReasonSubscriberNotExist;
         ReasonInBlacklist; ReasonNotAllowSend; ReasonNotInWhitelist; ReasonBan; ReasonDisband;
         ReasonSendBan].
Proof.
  repeat (constructor; [cbv; intuition discriminate|]). constructor.
Qed.
