(* Proof/Permission.v — decision-level theorems of C36: the per-send path and the
   read-plan path decide alike on every fact record (except the C36-K2 ordering
   divergence, characterised exactly), the decision is the first failing check of the
   precedence table, system senders skip exactly the non-terminal checks. *)
From WK Require Import Base.Base Model.ChannelId Model.Permission.
From WK Require Import Gen.Consts_C36.
Open Scope N_scope.

(* case analysis driven by the decision tree: split a boolean / enum variable only when
   it is the head of a match, so irrelevant facts are never enumerated *)
Ltac split_head :=
  match goal with
  | |- context [match ?b with _ => _ end] => is_var b; destruct b
  end.
Ltac tree := cbv; repeat (split_head; cbv); try reflexivity; try discriminate; auto.

Ltac destruct_facts f :=
  destruct f as [ty rs su ce nm ne ss ds de rsy wl ag vs
                 [sf ssb sb sd sa sv se] [tf tsb tb td ta tv te] [cf csb cb cd ca cv cer]
                 [df dsb db dd da dv der] [uf usb ub ud ua uv uer]
                 [hf hsb hb hd ha hv her] [af asb ab ad aa av aer]].

(* ---- C36-K2: where the two paths order their checks differently --------------------------- *)

Lemma paths_agree (f : facts) : k2_cond f = false -> decide_batch f = decide_single f.
Proof. destruct_facts f. unfold k2_cond. tree. Qed.

(* exactly what happens under k2_cond *)
Lemma paths_k2 (f : facts) : k2_cond f = true ->
  decide_batch f = (ReasonSuccess, EPerson)
  /\ decide_single f = first_failing (sender_checks f ++ terminal_checks f ++ [(true, (0, EPerson))]).
Proof. destruct_facts f. unfold k2_cond. split; revert H; tree. Qed.

(* even then, neither path lets the send through *)
Lemma paths_k2_both_reject (f : facts) : k2_cond f = true ->
  ok (decide_batch f) = false /\ ok (decide_single f) = false.
Proof. destruct_facts f. unfold k2_cond. split; revert H; tree. Qed.

(* in every case the two paths agree on whether the send is let through *)
Lemma paths_same_admission (f : facts) : ok (decide_batch f) = ok (decide_single f).
Proof.
  destruct (k2_cond f) eqn:E.
  - destruct (paths_k2_both_reject f E) as [-> ->]. reflexivity.
  - rewrite (paths_agree f E). reflexivity.
Qed.

Definition k2_witness : facts :=
  Facts TPerson false false false false false false false true false false AgErr false
        (RR true true false false false false false)       (* sender: found, SendBan *)
        zero_result zero_result zero_result zero_result zero_result zero_result.

Lemma paths_agree_refuted : exists f, decide_batch f <> decide_single f.
Proof. exists k2_witness. vm_compute. discriminate. Qed.

(* ---- precedence ------------------------------------------------------------------------------ *)

Lemma single_is_first_failing (f : facts) : decide_single f = spec_decision f.
Proof. destruct_facts f. tree. Qed.

Lemma batch_is_first_failing (f : facts) : k2_cond f = false -> decide_batch f = spec_decision f.
Proof. intro H. rewrite (paths_agree f H). apply single_is_first_failing. Qed.

(* ---- system senders --------------------------------------------------------------------------- *)

(* a system uid is subject to the terminal check and to nothing else, on both paths *)
Lemma system_uid_bypass (f : facts) : checked f = true -> f_sender_sys f = true ->
  decide_single f = first_failing (terminal_checks f)
  /\ decide_batch f = first_failing (terminal_checks f).
Proof. destruct_facts f. unfold checked. intros H1 H2. split; revert H1 H2; tree. Qed.

(* a system device: the sender's SendBan, then the terminal check, nothing else *)
Lemma system_device_bypass (f : facts) : checked f = true -> f_sender_sys f = false ->
  f_device_sys f = true ->
  decide_single f = first_failing (sender_checks f ++ terminal_checks f)
  /\ decide_batch f = first_failing (sender_checks f ++ terminal_checks f).
Proof. destruct_facts f. unfold checked. intros H1 H2 H3. split; revert H1 H2 H3; tree. Qed.

(* the terminal check is never bypassed: a disbanded channel accepts nothing that is checked *)
Lemma disband_is_terminal (f : facts) : checked f = true -> target_disbanded f = true ->
  ok (decide_single f) = false /\ ok (decide_batch f) = false.
Proof.
  intros H1 H2.
  assert (Hs : ok (decide_single f) = false).
  { destruct_facts f. unfold checked, target_disbanded in *. revert H1 H2. tree. }
  split; [exact Hs | rewrite paths_same_admission; exact Hs].
Qed.

(* for a system uid the disbanded state is the reported reason *)
Lemma system_uid_disband (f : facts) : checked f = true -> f_sender_sys f = true ->
  target_disbanded f = true ->
  decide_single f = (ReasonDisband, ENone) /\ decide_batch f = (ReasonDisband, ENone).
Proof.
  destruct_facts f. unfold checked, target_disbanded. intros H1 H2 H3. split; revert H1 H2 H3; tree.
Qed.

(* ---- C36-K3: "disbanded channels first" is not the order of the code ------------------------------ *)

Ltac disj := solve [repeat split; reflexivity] || (left; disj) || (right; disj).
Ltac tree_disj := cbv; repeat (split_head; cbv); try discriminate; intros; disj.

(* group: sender send-banned, group banned AND disbanded *)
Definition k3_witness_sendban : facts :=
  Facts TGroup false false false false false false false false false false AgErr false
        (RR true true false false false false false)       (* sender: found, SendBan *)
        (RR true false true true false false false)        (* group: found, Ban, Disband *)
        zero_result zero_result zero_result zero_result zero_result.
Definition k3_witness_ban : facts :=
  Facts TGroup false false false false false false false false false false AgErr false
        (RR true false false false false false false)      (* sender: found, no SendBan *)
        (RR true false true true false false false)        (* group: found, Ban, Disband *)
        zero_result zero_result zero_result zero_result zero_result.

Lemma disband_first_refuted :
  (checked k3_witness_sendban = true /\ target_disbanded k3_witness_sendban = true
   /\ decide_single k3_witness_sendban = (ReasonSendBan, ENone)
   /\ decide_batch k3_witness_sendban = (ReasonSendBan, ENone)
   /\ k3_cond k3_witness_sendban = true)
  /\ (checked k3_witness_ban = true /\ target_disbanded k3_witness_ban = true
      /\ decide_single k3_witness_ban = (ReasonBan, ENone)
      /\ decide_batch k3_witness_ban = (ReasonBan, ENone)
      /\ k3_cond k3_witness_ban = true).
Proof. vm_compute. repeat split. Qed.

(* apart from those two shadowing reasons (and a failed read of the sender's row) Disband comes
   first: a disbanded target never yields Success or any later reason *)
Lemma disbanded_outcomes (f : facts) : checked f = true -> target_disbanded f = true ->
  decide_single f = (ReasonDisband, ENone)
  \/ (f_sender_sys f = false /\ decide_single f = (ReasonSendBan, ENone))
  \/ (f_type f = TGroup /\ f_sender_sys f = false /\ f_device_sys f = false
      /\ decide_single f = (ReasonBan, ENone))
  \/ (f_sender_sys f = false /\ r_err (f_sender f) = true
      /\ decide_single f = (ReasonSystemError, EStore)).
Proof.
  destruct_facts f. unfold checked, target_disbanded. intros H1 H2. revert H1 H2. tree_disj.
Qed.

Lemma disbanded_outcomes_batch (f : facts) : k2_cond f = false ->
  checked f = true -> target_disbanded f = true ->
  decide_batch f = (ReasonDisband, ENone)
  \/ (f_sender_sys f = false /\ decide_batch f = (ReasonSendBan, ENone))
  \/ (f_type f = TGroup /\ f_sender_sys f = false /\ f_device_sys f = false
      /\ decide_batch f = (ReasonBan, ENone))
  \/ (f_sender_sys f = false /\ r_err (f_sender f) = true
      /\ decide_batch f = (ReasonSystemError, EStore)).
Proof. intro H. rewrite (paths_agree f H). apply disbanded_outcomes. Qed.

(* and when no earlier check of the existing order fails, Disband is what is reported *)
Lemma disband_unshadowed (f : facts) : checked f = true -> target_disbanded f = true ->
  shadowed f = false -> decide_single f = (ReasonDisband, ENone).
Proof.
  destruct_facts f. unfold checked, target_disbanded, shadowed. intros H1 H2 H3. revert H1 H2 H3. tree.
Qed.

(* the K3 signature is exactly: checked, disbanded target, shadowed by SendBan or Ban *)
Lemma k3_cond_spec (f : facts) : k3_cond f = true ->
  checked f = true /\ target_disbanded f = true
  /\ (decide_single f = (ReasonSendBan, ENone) \/ decide_single f = (ReasonBan, ENone)).
Proof.
  destruct_facts f. unfold k3_cond, sig_k3.
  cbv; repeat (split_head; cbv); try discriminate; intros; repeat split; disj.
Qed.

(* the reasons in use are pairwise distinct, so "reason" identifies the failing check *)
Lemma reasons_distinct :
  NoDup [ReasonSuccess; ReasonChannelNotExist; ReasonSystemError; ReasonSubscriberNotExist;
         ReasonInBlacklist; ReasonNotAllowSend; ReasonNotInWhitelist; ReasonBan; ReasonDisband;
         ReasonSendBan].
Proof.
  repeat (constructor; [cbv; intuition discriminate|]). constructor.
Qed.
