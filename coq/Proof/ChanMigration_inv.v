(* Proof/ChanMigration_inv.v — histories of one-command ApplyBatch calls:
   what one accepted command does to the database, and the invariant
   "distinct keys, and every active task is the one the active index of its channel
   points at" (hence at most one active task per channel). *)
From WK Require Import Base.Base.
From WK Require Import Gen.Consts_C15 Gen.Consts_C17 Model.RuntimeMeta Model.ChanMigration Model.ChanMigration_C17.
From WK Require Import Proof.RuntimeMeta Proof.ChanMigration Proof.ChanMigration_cmds.
Open Scope N_scope.

(* ---- the operations one command stages ----------------------------------------------------- *)

Definition cmd_valid (c : cmd) : bool :=
  match c with
  | CUpsertMeta m => validateChannelRuntimeMeta (upsert_wire m)
  | CCreate t => validateChannelMigrationTask t
  | CCreateGuarded t g => validateChannelMigrationTaskCreate t g
  | CClaim g _ _ owner lease now _ => validateChannelMigrationTaskClaim g owner lease now
  | CAdvance _ _ _ _ _ _ _ _ _ _ _ _ _ => true
  | CSetFence h reason until_ms => validateChannelMigrationFenceRequest h reason until_ms
  | CReset h now => validateChannelMigrationResetFenceRequest h now
  | CCommit h desired next_epoch lease now => validateChannelMigrationLeaderTransferRequest h desired next_epoch lease now
  | CAddLearner h target => validateChannelMigrationAddLearnerRequest h target
  | CPromote h source target now => validateChannelMigrationPromoteLearnerRequest h source target now
  | CClear h completed => validateChannelMigrationClearFenceRequest h completed
  | CAbort h completed _ => validateChannelMigrationAbortRequest h completed
  | CGC before limit => validateChannelMigrationTaskGCRequest before limit
  end.

Definition ops_of (c : cmd) : list op :=
  match c with
  | CUpsertMeta m => [OpUpsertMeta (upsert_wire m)]
  | CCreate t => [OpCreate t]
  | CCreateGuarded t g => [OpGuardCheck t g; OpCreate t]
  | CClaim _ _ _ _ _ _ _ | CAdvance _ _ _ _ _ _ _ _ _ _ _ _ _ => [OpTask c]
  | CGC before limit => [OpGC before limit]
  | _ => [OpTaskMeta c]
  end.

Lemma validateCreate_task t g : validateChannelMigrationTaskCreate t g = true -> validateChannelMigrationTask t = true.
Proof. unfold validateChannelMigrationTaskCreate. intro H. b2p. assumption. Qed.

(* staging one command on an empty write batch *)
Lemma stage_all_single c :
  stage_all wb_empty [c] =
  if cmd_valid c then Ok (WBatch (ops_of c)
                                 (match c with CCreate t | CCreateGuarded t _ => [(task_key t, t)] | _ => [] end)
                                 (match c with
                                  | CCreate t | CCreateGuarded t _ => if isActive t then [task_chan t] else []
                                  | _ => [] end), [0])
  else Err EInvalidArgument.
Proof.
  destruct c; cbn [stage_all stage_cmd cmd_valid ops_of].
  - unfold stage_guarded. destruct (validateChannelRuntimeMeta (upsert_wire m)); reflexivity.
  - unfold stageCreate. destruct (validateChannelMigrationTask t); cbn [negb]; [|reflexivity].
    cbn [wb_empty wb_creates assoc_get wb_active existsb wb_ops app].
    rewrite andb_false_r. destruct (isActive t); reflexivity.
  - destruct (validateChannelMigrationTaskCreate t g) eqn:V; cbn [negb]; [|reflexivity].
    unfold stageCreate. rewrite (validateCreate_task _ _ V). cbn [negb].
    cbn [wb_add wb_empty wb_creates assoc_get wb_active existsb wb_ops app].
    rewrite andb_false_r. destruct (isActive t); reflexivity.
  - unfold stage_guarded. destruct (validateChannelMigrationTaskClaim g owner owner_lease now); reflexivity.
  - reflexivity.
  - unfold stage_guarded. destruct (validateChannelMigrationFenceRequest h reason until_ms); reflexivity.
  - unfold stage_guarded. destruct (validateChannelMigrationResetFenceRequest h now); reflexivity.
  - unfold stage_guarded. destruct (validateChannelMigrationLeaderTransferRequest h desired_leader next_leader_epoch lease_until now); reflexivity.
  - unfold stage_guarded. destruct (validateChannelMigrationAddLearnerRequest h target); reflexivity.
  - unfold stage_guarded. destruct (validateChannelMigrationPromoteLearnerRequest h source target now); reflexivity.
  - unfold stage_guarded. destruct (validateChannelMigrationClearFenceRequest h completed); reflexivity.
  - unfold stage_guarded. destruct (validateChannelMigrationAbortRequest h completed); reflexivity.
  - unfold stage_guarded. destruct (validateChannelMigrationTaskGCRequest before limit); reflexivity.
Qed.

(* ApplyBatch of one command, spelled out *)
Lemma apply_one_spec d c :
  apply_one d c =
  if cmd_valid c then
    match run_ops d (CState d [] []) (ops_of c) with
    | Ok cs => (cs_pend cs, Ok 0)
    | Err e => if isStaleMetaCommitError e then (d, Ok 1) else (d, Err e)
    end
  else (d, Err EInvalidArgument).
Proof.
  unfold apply_one, apply_core. rewrite stage_all_single.
  destruct (cmd_valid c); [|reflexivity].
  cbn [wb_ops]. unfold commit.
  destruct (run_ops d (CState d [] []) (ops_of c)) as [cs|e]; [reflexivity|].
  destruct (isStaleMetaCommitError e); reflexivity.
Qed.

Lemma apply_one_rejected d c d' r : apply_one d c = (d', r) -> r <> Ok 0 -> d' = d.
Proof.
  rewrite apply_one_spec. destruct (cmd_valid c).
  - destruct (run_ops d (CState d [] []) (ops_of c)) as [cs|e].
    + intros H N. inversion H; subst. contradiction.
    + destruct (isStaleMetaCommitError e); intros H _; inversion H; reflexivity.
  - intros H _. inversion H. reflexivity.
Qed.

(* ---- the invariant ----------------------------------------------------------------------------- *)

Definition active_indexed (d : db) : Prop :=
  forall t, In t (db_tasks d) -> isActive t = true -> active_get d (task_chan t) = Some (t_task_id t).

Definition db_inv (d : db) : Prop := tasks_wf (db_tasks d) /\ active_indexed d.

Lemma db_inv_empty : db_inv db_empty.
Proof. split; [constructor|intros t []]. Qed.

(* THEOREM c17_single_active (state form): under the invariant two active tasks of one channel are the same row *)
Theorem inv_single_active d t1 t2 :
  db_inv d -> In t1 (db_tasks d) -> In t2 (db_tasks d) ->
  isActive t1 = true -> isActive t2 = true -> task_chan t1 = task_chan t2 -> t1 = t2.
Proof.
  intros [W A] I1 I2 A1 A2 C.
  pose proof (A _ I1 A1) as G1. pose proof (A _ I2 A2) as G2.
  rewrite C in G1. rewrite G1 in G2. inversion G2 as [Id].
  assert (K : task_key t1 = task_key t2) by (unfold task_key; rewrite C, Id; reflexivity).
  pose proof (tasks_wf_get _ _ W I1) as T1. pose proof (tasks_wf_get _ _ W I2) as T2.
  rewrite K in T1. rewrite T1 in T2. inversion T2. reflexivity.
Qed.

Lemma active_get_set d c id c' :
  active_get (db_set_active d c id) c' = if chan_key_eqb c c' then Some id else active_get d c'.
Proof. unfold active_get, db_set_active. cbn [db_active]. apply chan_get_put. Qed.

Lemma active_get_del d c c' :
  active_get (db_del_active d c) c' = if chan_key_eqb c c' then None else active_get d c'.
Proof. unfold active_get, db_del_active. cbn [db_active]. apply chan_get_del. Qed.

Lemma active_get_put_task d t c : active_get (db_put_task d t) c = active_get d c.
Proof. reflexivity. Qed.

Lemma task_key_chan t u : task_key t = task_key u -> task_chan t = task_chan u.
Proof. unfold task_key. intro H. inversion H. unfold task_chan. congruence. Qed.

Lemma same_chan_id_key t u : task_chan t = task_chan u -> t_task_id t = t_task_id u -> task_key t = task_key u.
Proof. unfold task_key. intros H1 H2. rewrite H1, H2. reflexivity. Qed.

(* stageUpsertChannelMigrationTask on a consistent database (one-command batch: pend = d) *)
Lemma stageUpsert_inv d t d' :
  db_inv d -> stageUpsertChannelMigrationTask d d t = Ok d' ->
  db_inv d' /\ db_tasks d' = task_put (db_tasks d) t /\ db_metas d' = db_metas d.
Proof.
  intros [W A]. unfold stageUpsertChannelMigrationTask.
  destruct (negb (validateChannelMigrationTask t)); [discriminate|].
  destruct (isActive t) eqn:Act.
  - destruct (negb (ensureChannelMigrationActiveAvailable d t)) eqn:En; [discriminate|].
    apply negb_false_iff in En.
    intro H. inversion H; subst d'. clear H.
    split; [|split; reflexivity].
    split; [apply tasks_wf_put; exact W|].
    intros u Hu Au. cbn [db_put_task db_tasks] in Hu. apply in_task_put in Hu.
    rewrite active_get_put_task, active_get_set.
    destruct Hu as [Hu|[Hu Ku]].
    + subst u. rewrite chan_key_eqb_refl. reflexivity.
    + cbn [db_set_active db_tasks] in Hu.
      destruct (chan_key_eqb (task_chan t) (task_chan u)) eqn:C.
      * exfalso. apply chan_key_eqb_eq in C.
        pose proof (A _ Hu Au) as G. rewrite <- C in G.
        unfold ensureChannelMigrationActiveAvailable in En. rewrite G in En.
        destruct (bytes_eqb (t_task_id u) (t_task_id t)) eqn:B.
        -- apply bytes_eqb_eq in B. apply Ku. apply same_chan_id_key; congruence.
        -- assert (TK : TKey (task_chan t) (t_task_id u) = task_key u) by (unfold task_key; rewrite C; reflexivity).
           rewrite TK, (tasks_wf_get _ _ W Hu), Au in En. discriminate.
      * apply A; assumption.
  - assert (Hres : d' = db_put_task (db_del_active d (task_chan t)) t
                   /\ (exists e, task_get (db_tasks d) (task_key t) = Some e /\ isActive e = true)
                   \/ d' = db_put_task d t ->
            db_inv d' /\ db_tasks d' = task_put (db_tasks d) t /\ db_metas d' = db_metas d).
    { intros [[Hd [e [Ge Ae]]]|Hd]; subst d'.
      - split; [|split; reflexivity].
        split; [apply tasks_wf_put; exact W|].
        intros u Hu Au. cbn [db_put_task db_tasks db_del_active] in Hu. apply in_task_put in Hu.
        rewrite active_get_put_task, active_get_del.
        destruct Hu as [Hu|[Hu Ku]]; [subst u; rewrite Au in Act; discriminate|].
        destruct (chan_key_eqb (task_chan t) (task_chan u)) eqn:C.
        + exfalso. apply chan_key_eqb_eq in C.
          pose proof (task_get_in _ _ _ Ge) as Ie. pose proof (task_get_key _ _ _ Ge) as Ke.
          assert (Ce : task_chan e = task_chan u) by (rewrite <- C; apply task_key_chan; exact Ke).
          assert (e = u) by (eapply inv_single_active; eauto; split; assumption).
          subst e. contradiction.
        + apply A; assumption.
      - split; [|split; reflexivity].
        split; [apply tasks_wf_put; exact W|].
        intros u Hu Au. cbn [db_put_task db_tasks] in Hu. apply in_task_put in Hu.
        rewrite active_get_put_task.
        destruct Hu as [Hu|[Hu Ku]]; [subst u; rewrite Au in Act; discriminate|].
        apply A; assumption. }
    destruct (task_get (db_tasks d) (task_key t)) as [e|] eqn:Ge.
    + destruct (isActive e) eqn:Ae; intro H; inversion H; subst d'; apply Hres.
      * left. split; [reflexivity|]. exists e. auto.
      * right. reflexivity.
    + intro H. inversion H; subst d'. apply Hres. right. reflexivity.
Qed.

(* the garbage collector only removes rows *)
Lemma gc_scan_spec l pend before limit deleted :
  db_active (gc_scan l pend before limit deleted) = db_active pend
  /\ db_metas (gc_scan l pend before limit deleted) = db_metas pend
  /\ (tasks_wf (db_tasks pend) -> tasks_wf (db_tasks (gc_scan l pend before limit deleted)))
  /\ (forall u, In u (db_tasks (gc_scan l pend before limit deleted)) -> In u (db_tasks pend))
  /\ (forall k, task_get (db_tasks (gc_scan l pend before limit deleted)) k = task_get (db_tasks pend) k
                \/ (task_get (db_tasks (gc_scan l pend before limit deleted)) k = None
                    /\ exists t, In t l /\ task_key t = k /\ isTerminal t = true)).
Proof.
  revert pend deleted. induction l as [|t r IH]; intros pend deleted; cbn [gc_scan].
  - repeat split; auto.
  - destruct (limit <=? deleted)%Z; [repeat split; auto|].
    destruct (negb (isTerminal t) || (before <=? t_completed_at_ms t)%Z) eqn:E.
    + destruct (IH pend deleted) as (A & B & C & D & F). repeat split; auto.
      intro k. destruct (F k) as [F1|[F1 [u [U1 [U2 U3]]]]]; [left; exact F1|right].
      split; [exact F1|]. exists u. repeat split; auto. right. exact U1.
    + destruct (IH (db_del_task pend (task_key t)) (deleted + 1)%Z) as (A & B & C & D & F).
      apply orb_false_iff in E. destruct E as [E1 E2]. apply negb_false_iff in E1.
      repeat split.
      * rewrite A. reflexivity.
      * rewrite B. reflexivity.
      * intro W. apply C. cbn [db_del_task db_tasks]. apply tasks_wf_del. exact W.
      * intros u Hu. apply D in Hu. cbn [db_del_task db_tasks] in Hu. apply in_task_del in Hu. tauto.
      * intro k. destruct (F k) as [F1|[F1 [u [U1 [U2 U3]]]]].
        -- cbn [db_del_task db_tasks] in F1. rewrite task_get_del in F1.
           destruct (tkey_eqb (task_key t) k) eqn:K.
           ++ right. split; [exact F1|]. exists t. apply tkey_eqb_eq in K. repeat split; auto. left. reflexivity.
           ++ left. exact F1.
        -- right. split; [exact F1|]. exists u. repeat split; auto. right. exact U1.
Qed.

(* one operation of a one-command batch *)
Lemma run_op_inv d o cs' :
  db_inv d -> run_op d (CState d [] []) o = Ok cs' -> db_inv (cs_pend cs').
Proof.
  intros I. destruct o; cbn [run_op].
  - (* upsert meta *)
    unfold opUpsertMeta.
    destruct (resolveMonotonicChannelRuntimeMeta _ _ m) as [next result].
    destruct (result =? MonotonicIgnoredStale); [intro H; inversion H; exact I|].
    destruct (result =? MonotonicConflict); [discriminate|].
    intro H. inversion H; subst cs'. exact I.
  - (* create *)
    unfold opCreate, loadChannelMigrationTask. cbn [cs_otasks assoc_get cs_pend].
    destruct (task_get (db_tasks d) (task_key t)) as [e|].
    + destruct (task_eqb e t); [intro H; inversion H; exact I|discriminate].
    + destruct (stageUpsertChannelMigrationTask d d t) as [pend|e] eqn:U; [|discriminate].
      intro H. inversion H; subst cs'. cbn [cs_write_task cs_pend].
      apply (stageUpsert_inv _ _ _ I U).
  - (* guard check *)
    unfold opGuardCheck.
    destruct (loadChannelMigrationTask d (CState d [] []) (task_key t)) as [e|].
    + destruct (task_eqb e t); [intro H; inversion H; exact I|discriminate].
    + destruct (loadRuntimeMeta d (CState d [] []) (rguard_chan g)) as [m|]; [|discriminate].
      destruct (rguard_matches g m); [intro H; inversion H; exact I|discriminate].
  - (* claim / advance *)
    unfold stageChannelMigrationTask.
    destruct (cmd_tguard c) as [g|]; [|discriminate].
    destruct (loadChannelMigrationTask d (CState d [] []) (tguard_key g)) as [t|]; [|discriminate].
    destruct (negb (tguard_matches g t)); [discriminate|].
    destruct (mutate_task c t) as [next|e]; [|discriminate].
    cbn [cs_pend].
    destruct (stageUpsertChannelMigrationTask d d next) as [pend|e] eqn:U; [|discriminate].
    intro H. inversion H; subst cs'. cbn [cs_write_task cs_pend]. apply (stageUpsert_inv _ _ _ I U).
  - (* task + meta *)
    unfold stageChannelMigrationTaskAndMeta.
    destruct (cmd_trans c) as [h|]; [|discriminate].
    destruct (loadChannelMigrationTask d (CState d [] []) (tguard_key (tr_guard h))) as [t|]; [|discriminate].
    destruct (loadRuntimeMeta d (CState d [] []) (rguard_chan (tr_rguard h))) as [m|]; [|discriminate].
    destruct (mutate_task_meta c t m) as [[nt nm]|e]; [|discriminate].
    destruct (negb (tguard_matches (tr_guard h) t) || negb (rguard_matches (tr_rguard h) m)).
    + destruct (task_eqb t nt && channelRuntimeMetaEqual m (bumpRuntimeRoute m (normalizeChannelRuntimeMeta nm) true));
        [intro H; inversion H; exact I|discriminate].
    + destruct (isTerminal t && negb (task_eqb t nt)); [discriminate|].
      destruct (negb (validateChannelMigrationTask nt)); [discriminate|].
      destruct (negb (validateChannelRuntimeMeta (bumpRuntimeRoute m (normalizeChannelRuntimeMeta nm) true)));
        [discriminate|].
      cbn [cs_pend].
      destruct (stageUpsertChannelMigrationTask d d nt) as [pend|e] eqn:U; [|discriminate].
      intro H. inversion H; subst cs'. cbn [cs_pend].
      destruct (stageUpsert_inv _ _ _ I U) as [[W A] _].
      split; [exact W|exact A].
  - (* gc *)
    unfold opGC. intro H. inversion H; subst cs'. cbn [cs_pend].
    destruct I as [W A].
    destruct (gc_scan_spec (db_tasks d) d before limit 0%Z) as (G1 & G2 & G3 & G4 & G5).
    split; [apply G3; exact W|].
    intros u Hu Au. unfold active_get. rewrite G1. apply A; auto.
Qed.

Lemma opGuardCheck_same d cs t g cs' : opGuardCheck d cs t g = Ok cs' -> cs' = cs.
Proof.
  unfold opGuardCheck.
  destruct (loadChannelMigrationTask d cs (task_key t)) as [e|].
  - destruct (task_eqb e t); [intro H; inversion H; reflexivity|discriminate].
  - destruct (loadRuntimeMeta d cs (rguard_chan g)) as [m|]; [|discriminate].
    destruct (rguard_matches g m); [intro H; inversion H; reflexivity|discriminate].
Qed.

(* THEOREM c17_single_active (step form): a one-command ApplyBatch preserves the invariant *)
Theorem apply_one_inv d c d' r : db_inv d -> apply_one d c = (d', r) -> db_inv d'.
Proof.
  intros I. rewrite apply_one_spec.
  destruct (cmd_valid c); [|intro H; inversion H; subst; exact I].
  destruct (run_ops d (CState d [] []) (ops_of c)) as [cs|e] eqn:R.
  - intro H. inversion H; subst d' r. clear H.
    destruct c; cbn [ops_of run_ops] in R;
      try (destruct (run_op d (CState d [] []) _) as [cs1|e1] eqn:R1; [|discriminate];
           inversion R; subst cs1; eapply run_op_inv; eauto; fail).
    (* guarded create: two operations *)
    cbn [run_op] in R.
    destruct (opGuardCheck d (CState d [] []) t g) as [cs1|e1] eqn:R1; [|discriminate].
    apply opGuardCheck_same in R1. subst cs1.
    destruct (opCreate d (CState d [] []) t) as [cs2|e2] eqn:R2; [|discriminate].
    inversion R; subst cs2. eapply (run_op_inv d (OpCreate t)); eauto.
  - destruct (isStaleMetaCommitError e); intro H; inversion H; subst; exact I.
Qed.

(* histories of one-command batches *)
Fixpoint run_singles (d : db) (cs : list cmd) : db :=
  match cs with
  | [] => d
  | c :: r => run_singles (fst (apply_one d c)) r
  end.

Theorem run_singles_inv cs : forall d, db_inv d -> db_inv (run_singles d cs).
Proof.
  induction cs as [|c r IH]; intros d I; cbn [run_singles]; [exact I|].
  apply IH. destruct (apply_one d c) as [d' res] eqn:E. cbn [fst]. eapply apply_one_inv; eauto.
Qed.

Lemma run_singles_single_active :
  forall cs t1 t2,
    let d := run_singles db_empty cs in
    In t1 (db_tasks d) -> In t2 (db_tasks d) ->
    isActive t1 = true -> isActive t2 = true -> task_chan t1 = task_chan t2 ->
    t1 = t2 /\ active_get d (task_chan t1) = Some (t_task_id t1).
Proof.
  intros cs t1 t2 d I1 I2 A1 A2 C.
  pose proof (run_singles_inv cs db_empty db_inv_empty) as I.
  split; [eapply inv_single_active; eauto|apply (proj2 I); assumption].
Qed.
