(* Proof/MsgStore_frame.v — scans depend only on the keys they iterate over; the
   effect of the staged row writes / deletes on point reads; framing of the
   relation [Rkv]. *)
From WK Require Import Base.Base Model.KV Gen.Consts_C07 Model.MsgStore Model.MsgStore_C07
     Proof.KV Proof.MsgStore_base Proof.MsgStore_rel Proof.MsgStore_reads.
From Coq Require Import Sorting.Permutation Sorting.Sorted.

(* ---- lexicographic sort of history points ------------------------------------------------------- *)

Definition pair_lt (a b : N * N) : Prop := fst a < fst b \/ (fst a = fst b /\ snd a < snd b).
Definition pair_le (a b : N * N) : Prop := pair_lt a b \/ a = b.

Lemma pair_leb_le a b : pair_leb a b = true <-> pair_le a b.
Proof.
  unfold pair_leb, pair_le, pair_lt. destruct a as [a1 a2], b as [b1 b2]. cbn [fst snd].
  rewrite orb_true_iff, andb_true_iff, N.ltb_lt, N.eqb_eq, N.leb_le. split.
  - intros [H|[H1 H2]]; [left; left; exact H|].
    destruct (N.eq_dec a2 b2); [right; subst; reflexivity|left; right; split; [exact H1|lia]].
  - intros [[H|[H1 H2]]|H]; [left; exact H|right; split; [exact H1|lia]|injection H as -> ->; right; split; [reflexivity|lia]].
Qed.

Lemma pair_leb_total a b : pair_leb a b = false -> pair_lt b a.
Proof.
  unfold pair_leb, pair_lt. destruct a as [a1 a2], b as [b1 b2]. cbn [fst snd].
  rewrite orb_false_iff, andb_false_iff, N.ltb_ge, N.eqb_neq, N.leb_gt. intros [H1 [H2|H2]]; lia.
Qed.

Lemma pair_lt_trans a b c : pair_lt a b -> pair_lt b c -> pair_lt a c.
Proof. unfold pair_lt. intros [H1|[H1 H1']] [H2|[H2 H2']]; [left; lia|left; lia|left; lia|right; split; lia]. Qed.

Lemma pair_lt_irrefl a : ~ pair_lt a a.
Proof. unfold pair_lt. intros [H|[_ H]]; lia. Qed.

Definition psorted (l : list (N * N)) : Prop := StronglySorted pair_lt l.

Lemma insert_pair_in x y l : In y (insert_pair x l) <-> y = x \/ In y l.
Proof.
  induction l as [|z l IH]; cbn [insert_pair].
  - cbn. intuition.
  - destruct (pair_leb x z); cbn [In]; [intuition|]. rewrite IH. intuition.
Qed.

Lemma insert_pair_sorted x l : psorted l -> ~ In x l -> psorted (insert_pair x l).
Proof.
  unfold psorted. induction 1 as [|z l Hs IH Hall]; intro Hn; cbn [insert_pair].
  - constructor; [constructor|constructor].
  - destruct (pair_leb x z) eqn:E.
    + apply pair_leb_le in E. destruct E as [E|E]; [|subst; exfalso; apply Hn; left; reflexivity].
      constructor; [constructor; assumption|]. constructor; [exact E|].
      eapply Forall_impl; [|exact Hall]. intros w Hw. eapply pair_lt_trans; eassumption.
    + apply pair_leb_total in E. constructor.
      * apply IH. intro Hx. apply Hn. right. exact Hx.
      * apply Forall_forall. intros w Hw. apply insert_pair_in in Hw. destruct Hw as [->|Hw]; [exact E|].
        eapply Forall_forall in Hall; eassumption.
Qed.

Lemma sort_pairs_in x l : In x (sort_pairs l) <-> In x l.
Proof.
  unfold sort_pairs. induction l as [|y l IH]; cbn [fold_right]; [tauto|].
  rewrite insert_pair_in, IH. cbn [In]. intuition.
Qed.

Lemma sort_pairs_sorted l : NoDup l -> psorted (sort_pairs l).
Proof.
  unfold sort_pairs. induction 1 as [|x l Hx Hl IH]; cbn [fold_right]; [constructor|].
  apply insert_pair_sorted; [exact IH|]. intro H. apply (proj1 (sort_pairs_in x l)) in H. contradiction.
Qed.

Lemma psorted_unique l1 : forall l2, psorted l1 -> psorted l2 -> (forall x, In x l1 <-> In x l2) -> l1 = l2.
Proof.
  unfold psorted. induction l1 as [|x l1 IH]; intros l2 H1 H2 Hiff.
  - destruct l2 as [|y l2]; [reflexivity|]. exfalso. apply (Hiff y). left. reflexivity.
  - destruct l2 as [|y l2]; [exfalso; apply (Hiff x); left; reflexivity|].
    inversion H1 as [|? ? Hs1 Ha1]; subst. inversion H2 as [|? ? Hs2 Ha2]; subst.
    assert (Exy : x = y).
    { assert (Hx : In x (y :: l2)) by (apply Hiff; left; reflexivity).
      assert (Hy : In y (x :: l1)) by (apply Hiff; left; reflexivity).
      destruct Hx as [Hx|Hx]; [symmetry; exact Hx|]. destruct Hy as [Hy|Hy]; [exact Hy|].
      eapply Forall_forall in Ha1; [|exact Hy]. eapply Forall_forall in Ha2; [|exact Hx].
      exfalso. apply (pair_lt_irrefl x). eapply pair_lt_trans; eassumption. }
    subst y. f_equal. apply IH; [exact Hs1|exact Hs2|].
    intro z. split; intro Hz.
    + assert (Hz' : In z (x :: l2)) by (apply Hiff; right; exact Hz).
      destruct Hz' as [Hz'|Hz']; [|exact Hz']. subst z. eapply Forall_forall in Ha1; [|exact Hz].
      exfalso. apply (pair_lt_irrefl x). exact Ha1.
    + assert (Hz' : In z (x :: l1)) by (apply Hiff; right; exact Hz).
      destruct Hz' as [Hz'|Hz']; [|exact Hz']. subst z. eapply Forall_forall in Ha2; [|exact Hz].
      exfalso. apply (pair_lt_irrefl x). exact Ha2.
Qed.

Lemma nodup_hist_points (kv : kvs) c : swf kv -> NoDup (hist_points kv c).
Proof.
  intro W. unfold hist_points. apply (NoDup_flat_map_inj).
  - apply swf_nodup. exact W.
  - intros [k v] _. destruct k; try constructor. destruct (c0 =? c); [|constructor]. constructor; [intros []|constructor].
  - intros [k1 v1] [k2 v2] b H1 H2 Hb1 Hb2.
    destruct k1; try contradiction. destruct (c0 =? c) eqn:E1; [|contradiction]. destruct Hb1 as [<-|[]].
    destruct k2; try contradiction. destruct (c1 =? c) eqn:E2; [|contradiction]. destruct Hb2 as [Hb2|[]].
    injection Hb2 as -> ->. apply N.eqb_eq in E1, E2. subst.
    assert (G1 := proj1 (kin_iff_get _ _ _ W) H1). assert (G2 := proj1 (kin_iff_get _ _ _ W) H2).
    rewrite G1 in G2. injection G2 as ->. reflexivity.
Qed.

Lemma loadHistory_sorted (kv : kvs) c : swf kv -> psorted (loadHistory kv c).
Proof. intro W. apply sort_pairs_sorted. apply nodup_hist_points. exact W. Qed.

Lemma in_loadHistory (kv : kvs) c o e : swf kv -> (In (o, e) (loadHistory kv c) <-> has kv (KyHist c o e)).
Proof.
  intro W. unfold loadHistory. rewrite sort_pairs_in, (in_hist_points _ _ _ _ W). unfold has.
  destruct (kget (KyHist c o e) kv) as [v|]; split; intro H; try (exists v; reflexivity); try discriminate.
  - destruct H as [v' H]. discriminate.
  - contradiction.
Qed.

(* ---- scans depend only on their own keys --------------------------------------------------------- *)

Lemma loadHistory_ext (kv kv' : kvs) c :
  swf kv -> swf kv' -> (forall o e, kget (KyHist c o e) kv' = kget (KyHist c o e) kv) ->
  loadHistory kv' c = loadHistory kv c.
Proof.
  intros W W' H. apply psorted_unique; try (apply loadHistory_sorted; assumption).
  intros [o e]. rewrite !in_loadHistory by assumption. unfold has. rewrite H. tauto.
Qed.

Lemma recoverLEO_char (kv : kvs) c rows :
  swf kv -> (forall q r, kget (KyRow c q) kv = Some (VRow r) <-> (In r rows /\ r_seq r = q)) ->
  recoverLEO kv c = match loadRetentionState kv c with
                    | Some (_, _, rm) => if max_seq rows <? rm then rm else max_seq rows
                    | None => max_seq rows
                    end.
Proof.
  intros W Hg. unfold recoverLEO.
  assert (E : max_seq (rows_unsorted kv c) = max_seq rows).
  { apply max_seq_ext. intro r. rewrite in_rows_unsorted. split.
    - intros [q Hin]. apply (kin_iff_get _ _ _ W) in Hin. apply Hg in Hin. apply Hin.
    - intro Hin. exists (r_seq r). apply (kin_iff_get _ _ _ W). apply Hg. split; [exact Hin|reflexivity]. }
  rewrite E. reflexivity.
Qed.

Lemma max_seq_app l1 l2 : max_seq (l1 ++ l2) = N.max (max_seq l1) (max_seq l2).
Proof.
  apply N.le_antisymm.
  - destruct (max_seq_cases (l1 ++ l2)) as [E|[r [Hr E]]]; [lia|]. rewrite E.
    apply in_app_or in Hr. destruct Hr as [Hr|Hr]; apply max_seq_in in Hr; lia.
  - apply N.max_lub.
    + destruct (max_seq_cases l1) as [E|[r [Hr E]]]; [lia|]. rewrite E. apply max_seq_in. apply in_or_app. left. exact Hr.
    + destruct (max_seq_cases l2) as [E|[r [Hr E]]]; [lia|]. rewrite E. apply max_seq_in. apply in_or_app. right. exact Hr.
Qed.

Lemma max_seq_le l b : Forall (fun r => r_seq r <= b) l -> max_seq l <= b.
Proof.
  intro H. destruct (max_seq_cases l) as [E|[r [Hr E]]]; [lia|]. rewrite E.
  eapply Forall_forall in H; [exact H|exact Hr].
Qed.

(* ---- the staged writes of one row -------------------------------------------------------------------- *)

Definition cidx_cond (r : row) : bool := negb (is_nil (r_cno r)) && is_nil (r_uid r).
Definition idem_cond (r : row) : bool := negb (is_nil (r_uid r)) && negb (is_nil (r_cno r)).
Definition sseq_cond (r : row) : bool := negb (is_nil (r_uid r)) && (N.land (r_flags r) syncOnceFlag =? 0).

Lemma keff_stage_row k c r cur :
  keff k (stageMessageRow c r) cur =
  match k with
  | KyRow c' q => if (c' =? c) && (q =? r_seq r) then Some (VRow r) else cur
  | KyGid i => if i =? r_id r then Some (VGid c (r_seq r)) else cur
  | KyCidx c' n q => if cidx_cond r && ((c' =? c) && bytes_eqb n (r_cno r) && (q =? r_seq r))
                     then Some (VNum (r_seq r)) else cur
  | KyIdem c' n u => if idem_cond r && ((c' =? c) && bytes_eqb n (r_cno r) && bytes_eqb u (r_uid r))
                     then Some (VIdem (r_seq r) (r_id r) (r_hash r)) else cur
  | KySseq c' u q => if sseq_cond r && ((c' =? c) && bytes_eqb u (r_uid r) && (q =? r_seq r))
                     then Some (VNum (r_id r)) else cur
  | _ => cur
  end.
Proof.
  unfold stageMessageRow. fold (cidx_cond r) (idem_cond r) (sseq_cond r).
  destruct (cidx_cond r), (idem_cond r), (sseq_cond r); destruct k;
    cbn [keff batch_effect fold_left app op_effect key_eqb andb];
    repeat match goal with
           | |- context [if ?b then _ else _] => destruct b
           end; reflexivity.
Qed.

(* deleting one row *)
Definition row_del_keys (c : N) (r : row) : list key :=
  [KyRow c (r_seq r)]
  ++ (if negb (r_id r =? 0) then [KyGid (r_id r)] else [])
  ++ (if cidx_cond r then [KyCidx c (r_cno r) (r_seq r)] else [])
  ++ (if idem_cond r then [KyIdem c (r_cno r) (r_uid r)] else [])
  ++ (if negb (is_nil (r_uid r)) then [KySseq c (r_uid r) (r_seq r)] else []).

Lemma stageDelete_all_del c r : all_del (stageDeleteMessage c r).
Proof.
  unfold stageDeleteMessage, all_del.
  repeat (apply Forall_app; split); repeat match goal with |- context [if ?b then _ else _] => destruct b end;
    repeat constructor.
Qed.

Lemma stageDelete_keys c r : del_keys (stageDeleteMessage c r) = row_del_keys c r.
Proof.
  unfold stageDeleteMessage, row_del_keys, cidx_cond, idem_cond. rewrite !del_keys_app.
  repeat match goal with |- context [if ?b then _ else _] => destruct b end; reflexivity.
Qed.

Definition deleted_keys (c : N) (D : list row) : list key := flat_map (row_del_keys c) D.

Lemma keff_delete_rows k c D cur :
  keff k (flat_map (stageDeleteMessage c) D) cur = if existsb (key_eqb k) (deleted_keys c D) then None else cur.
Proof.
  rewrite keff_dels by (apply all_del_flat_map; apply stageDelete_all_del).
  rewrite del_keys_flat_map. unfold deleted_keys.
  replace (flat_map (fun x => del_keys (stageDeleteMessage c x)) D) with (flat_map (row_del_keys c) D); [reflexivity|].
  induction D as [|r D IH]; cbn [flat_map]; [reflexivity|]. rewrite stageDelete_keys, IH. reflexivity.
Qed.

Lemma in_deleted_keys k c D :
  In k (deleted_keys c D) <-> exists r, In r D /\ In k (row_del_keys c r).
Proof. unfold deleted_keys. apply in_flat_map. Qed.

Ltac solve_or := solve [ reflexivity | left; solve_or | right; solve_or ].

Lemma in_row_del_keys k c r :
  In k (row_del_keys c r) <->
  match k with
  | KyRow c' q => c' = c /\ q = r_seq r
  | KyGid i => i = r_id r /\ r_id r <> 0
  | KyCidx c' n q => c' = c /\ n = r_cno r /\ q = r_seq r /\ r_cno r <> [] /\ r_uid r = []
  | KyIdem c' n u => c' = c /\ n = r_cno r /\ u = r_uid r /\ r_uid r <> [] /\ r_cno r <> []
  | KySseq c' u q => c' = c /\ u = r_uid r /\ q = r_seq r /\ r_uid r <> []
  | _ => False
  end.
Proof.
  unfold row_del_keys, cidx_cond, idem_cond. rewrite !in_app_iff.
  destruct (r_id r =? 0) eqn:Ei; [apply N.eqb_eq in Ei|apply N.eqb_neq in Ei];
  (destruct (is_nil (r_cno r)) eqn:Ec; [apply is_nil_true in Ec|apply is_nil_false in Ec]);
  (destruct (is_nil (r_uid r)) eqn:Eu; [apply is_nil_true in Eu|apply is_nil_false in Eu]);
    cbn [negb andb In];
    destruct k; (split; [intro H|intro H]);
    repeat match goal with
           | H : _ \/ _ |- _ => destruct H
           | H : False |- _ => destruct H
           | H : _ /\ _ |- _ => destruct H
           | H : @eq key _ _ |- _ => (injection H; clear H; intros; subst) || discriminate H
           end;
    subst; try contradiction; try congruence;
    try (repeat split; congruence);
    try (left; reflexivity);
    try (right; left; reflexivity);
    try (right; right; left; reflexivity);
    try (right; right; right; left; reflexivity);
    try (right; right; right; right; left; reflexivity);
    solve_or.
Qed.
