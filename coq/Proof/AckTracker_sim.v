(* Proof/AckTracker_sim.v — every API call of the model preserves the invariant
   and is accepted by the specification tracker (per-operation lemmas). *)
From WK Require Import Base.Base Gen.Consts_C32 Model.AckTracker.
From WK Require Import Proof.AckTracker_map Proof.AckTracker_entry Proof.AckTracker_index Proof.AckTracker_inv.
From Coq Require Import Permutation.
Open Scope N_scope.

Lemma perm_nil_r {A} (l : list A) : Permutation l [] -> l = [].
Proof. intro H. apply Permutation_sym in H. apply Permutation_nil in H. exact H. Qed.

Lemma tokens_after_del e e' tok :
  Permutation (abs_live e') (live_del tok (abs_live e)) ->
  forall x, In x (map fst (abs_live e')) -> x <> tok /\ In x (map fst (abs_live e)).
Proof.
  intros P x H. eapply Permutation_in in H; [|apply Permutation_map; exact P].
  apply live_del_fst in H. exact H.
Qed.

(* ---- finish ---------------------------------------------------------------------------- *)
Lemma finishBindLocked_sim t s p tok :
  Sim t s -> tok <> 0 ->
  let '(t', ok) := finishBindLocked t p tok in
  let '(s', ok') := spec_finish s p tok in
  ok = ok' /\ Sim t' s'
  /\ t_next t' = t_next t /\ t_limit t' = t_limit t /\ t_shards t' = t_shards t /\ t_count t' = t_count t
  /\ (forall k', k' <> key_of p -> kget k' (t_byMessage t') = kget k' (t_byMessage t))
  /\ (ok = true -> forall e', kget (key_of p) (t_byMessage t') = Some e' -> ~ In tok (map fst (abs_live e'))).
Proof.
  intros [I R] TZ. unfold finishBindLocked, spec_finish, spec_live.
  assert (TB : negb (tok =? 0) = true) by (apply negb_true_iff; apply N.eqb_neq; exact TZ).
  rewrite TB. cbn [andb].
  destruct (kget (key_of p) (t_byMessage t)) as [e|] eqn:G.
  - destruct (inv_entries t I _ _ G) as [[W A K B] KV].
    destruct (rel_some _ _ R _ _ G) as [se [GS [RC RP]]]. rewrite GS.
    pose proof (finishAttempt_abs e tok W TZ) as FA.
    pose proof (finishAttempt_keyed _ _ tok K) as FK.
    destruct (finishAttempt e tok) as [e' ok]. destruct FA as [F1 [F2 F3]].
    rewrite <- (live_mem_perm tok _ _ RP), <- F1.
    destruct ok.
    + destruct (F3 eq_refl) as [C1 [C2 [C3 C4]]].
      split; [reflexivity|]. split; [|repeat split; try reflexivity].
      * split.
        -- constructor; proj.
           ++ apply k_set_nodup. apply (inv_nodup t I).
           ++ rewrite (al_set_length_present _ _ _ _ (inv_nodup t I) G). apply (inv_count t I).
           ++ apply (si_dom (t_byMessage t)); [|apply (inv_index t I)].
              intro k0. rewrite has_key_set. split; [intro H; right; exact H|].
              intros [H|H]; [subst k0; unfold has_key; rewrite G; discriminate|exact H].
           ++ intros k0 e0. destruct (key_eq_dec (key_of p) k0) as [E|E].
              ** subst k0. rewrite k_get_set_same. intro H. inversion H. subst e0. split; [|exact KV].
                 constructor; [exact C3|exact C4|exact FK|].
                 intros x Hx. apply (tokens_after_del _ _ _ C2) in Hx. apply B. apply Hx.
              ** rewrite k_get_set_other by exact E. apply (inv_entries t I).
           ++ apply (inv_limit t I).
        -- proj. apply rel_set; [exact R|]. split; cbn [s_committed s_live].
           ++ rewrite C1. f_equal. symmetry. apply live_at_perm; [exact RP|apply (wf_nodup e W)|].
              rewrite <- F1. reflexivity.
           ++ eapply Permutation_trans; [exact C2|]. apply live_del_perm. exact RP.
      * intros k' Hk. proj. apply k_get_set_other. congruence.
      * intros _ e0. proj. rewrite k_get_set_same. intro H. inversion H. subst e0.
        intro Hx. apply (tokens_after_del _ _ _ C2) in Hx. destruct Hx as [Hx _]. apply Hx. reflexivity.
    + split; [reflexivity|]. split; [split; assumption|]. repeat (split; [reflexivity|]). discriminate.
  - rewrite (rel_none _ _ R _ G).
    split; [reflexivity|]. split; [split; assumption|]. repeat (split; [reflexivity|]). discriminate.
Qed.

Lemma spec_finish_invalid t s p tok :
  Sim t s -> validPendingRecvAck p && negb (tok =? 0) = false -> spec_finish s p tok = (s, false).
Proof.
  intros [I R] H. unfold spec_finish, spec_live.
  destruct (tok =? 0) eqn:TZ; [reflexivity|]. cbn [negb andb].
  rewrite andb_true_r in H. rewrite (rel_none _ _ R _ (invalid_absent t p I H)). reflexivity.
Qed.

Lemma FinishBind_sim t s p tok :
  Sim t s ->
  let '(t', ok) := FinishBind t p tok in
  let '(s', ok') := spec_finish s p tok in
  ok = ok' /\ Sim t' s' /\ t_next t' = t_next t /\ t_limit t' = t_limit t /\ t_shards t' = t_shards t.
Proof.
  intros S. unfold FinishBind.
  destruct (negb (validPendingRecvAck p) || (tok =? 0)) eqn:C.
  - rewrite (spec_finish_invalid t s p tok S).
    + split; [reflexivity|]. split; [exact S|]. repeat split; reflexivity.
    + apply orb_true_iff in C. destruct C as [C|C].
      * apply negb_true_iff in C. rewrite C. reflexivity.
      * rewrite C. apply andb_false_r.
  - apply orb_false_iff in C. destruct C as [_ C]. apply N.eqb_neq in C.
    pose proof (finishBindLocked_sim t s p tok S C) as L.
    destruct (finishBindLocked t p tok) as [t' ok]. destruct (spec_finish s p tok) as [s' ok'].
    destruct L as [L1 [L2 [L3 [L4 [L5 _]]]]]. auto.
Qed.

(* ---- cancel ---------------------------------------------------------------------------- *)
Lemma spec_cancel_invalid t s p tok :
  Sim t s -> validPendingRecvAck p && negb (tok =? 0) = false -> spec_cancel s p tok = (s, false, false).
Proof.
  intros [I R] H. unfold spec_cancel, spec_live.
  destruct (tok =? 0) eqn:TZ; [reflexivity|]. cbn [negb andb].
  rewrite andb_true_r in H. rewrite (rel_none _ _ R _ (invalid_absent t p I H)). reflexivity.
Qed.

Lemma limit_after_delete t (bs' : list (skey * list N)) :
  Inv t ->
  (forall sk' ms', sget sk' bs' = Some ms' ->
                   exists ms, sget sk' (t_bySession t) = Some ms /\ (length ms' <= length ms)%nat) ->
  (0 < t_limit t)%Z -> forall sk ms, sget sk bs' = Some ms -> (Z.of_nat (length ms) <= t_limit t)%Z.
Proof.
  intros I H LP sk ms G. destruct (H _ _ G) as [ms0 [G0 L]].
  pose proof (inv_limit t I LP _ _ G0). lia.
Qed.

Lemma CancelBind_sim t s p tok :
  Sim t s ->
  let '(t', r) := CancelBind t p tok in
  let '(s', c, rm) := spec_cancel s p tok in
  r = RCancel c rm (t_count t') /\ Sim t' s'
  /\ t_next t' = t_next t /\ t_limit t' = t_limit t /\ t_shards t' = t_shards t.
Proof.
  intros S. unfold CancelBind.
  destruct (negb (validPendingRecvAck p) || (tok =? 0)) eqn:C.
  { rewrite (spec_cancel_invalid t s p tok S).
    - split; [reflexivity|]. split; [exact S|]. repeat split; reflexivity.
    - apply orb_true_iff in C. destruct C as [C|C].
      + apply negb_true_iff in C. rewrite C. reflexivity.
      + rewrite C. apply andb_false_r. }
  apply orb_false_iff in C. destruct C as [_ TZ]. apply N.eqb_neq in TZ.
  destruct S as [I R]. unfold spec_cancel, spec_live.
  assert (TB : negb (tok =? 0) = true) by (apply negb_true_iff; apply N.eqb_neq; exact TZ).
  rewrite TB. cbn [andb].
  destruct (kget (key_of p) (t_byMessage t)) as [e|] eqn:G.
  - destruct (inv_entries t I _ _ G) as [[W A K B] KV].
    destruct (rel_some _ _ R _ _ G) as [se [GS [RC RP]]]. rewrite GS.
    pose proof (cancelAttempt_abs e tok W TZ) as CA.
    pose proof (cancelAttempt_keyed _ _ tok K) as CK.
    destruct (cancelAttempt e tok) as [e' ok]. destruct CA as [F1 [F2 F3]].
    rewrite <- (live_mem_perm tok _ _ RP), <- F1.
    destruct ok; cbn [negb].
    + destruct (F3 eq_refl) as [C1 [C2 [C3 [C4 C5]]]].
      assert (PL : Permutation (abs_live e') (live_del tok (s_live se))).
      { eapply Permutation_trans; [exact C2|]. apply live_del_perm. exact RP. }
      destruct (e_committed e' || hasAttempts e') eqn:FL.
      * (* the identity stays *)
        cbv zeta.
        set (t1 := with_maps t (al_set key_eqb (key_of p) e' (t_byMessage t)) (t_bySession t) (t_count t) (t_next t)).
        assert (STAY : RCancel true false (t_count t) = RCancel true false (t_count t1)
                       /\ Sim t1 (al_set key_eqb (key_of p) (SEnt (s_committed se) (live_del tok (s_live se))) s)
                       /\ t_next t1 = t_next t /\ t_limit t1 = t_limit t /\ t_shards t1 = t_shards t).
        { split; [reflexivity|]. split; [|repeat split; reflexivity]. split.
          - constructor; unfold t1; proj.
            + apply k_set_nodup. apply (inv_nodup t I).
            + rewrite (al_set_length_present _ _ _ _ (inv_nodup t I) G). apply (inv_count t I).
            + apply (si_dom (t_byMessage t)); [|apply (inv_index t I)].
              intro k0. rewrite has_key_set. split; [intro H; right; exact H|].
              intros [H|H]; [subst k0; unfold has_key; rewrite G; discriminate|exact H].
            + intros k0 e0. destruct (key_eq_dec (key_of p) k0) as [E|E].
              * subst k0. rewrite k_get_set_same. intro H. inversion H. subst e0. split; [|exact KV].
                constructor; [exact C3|apply C5; reflexivity|exact CK|].
                intros x Hx. apply (tokens_after_del _ _ _ C2) in Hx. apply B. apply Hx.
              * rewrite k_get_set_other by exact E. apply (inv_entries t I).
            + apply (inv_limit t I).
          - unfold t1; proj. apply rel_set; [exact R|]. split; cbn [s_committed s_live]; [rewrite C1; exact RC|exact PL]. }
        destruct (s_committed se) eqn:SC; [exact STAY|].
        destruct (live_del tok (s_live se)) eqn:LD; [|exact STAY].
        exfalso. apply perm_nil_r in PL.
        assert (X : true = false).
        { apply C4. split; [rewrite C1, <- RC; reflexivity|exact PL]. }
        discriminate.
      * (* the last reservation of an uncommitted identity: the identity goes *)
        destruct C4 as [C4 _]. destruct (C4 eq_refl) as [FL1 FL2].
        rewrite FL2 in PL. apply Permutation_nil in PL.
        rewrite RC, <- C1, FL1, PL.
        split; [reflexivity|]. split; [|repeat split; reflexivity]. split.
        -- constructor; proj.
           ++ apply k_del_nodup. apply (inv_nodup t I).
           ++ rewrite (inv_count t I). pose proof (k_del_length _ _ _ (inv_nodup t I) G). lia.
           ++ apply si_del. apply (inv_index t I).
           ++ intros k0 e0. destruct (key_eq_dec (key_of p) k0) as [E|E].
              ** subst k0. rewrite k_get_del_same. discriminate.
              ** rewrite k_get_del_other by exact E. apply (inv_entries t I).
           ++ apply (limit_after_delete t); [exact I|].
              intros sk' ms'. apply deleteSession_rows. apply (si_nodup _ _ (inv_index t I)).
        -- proj. apply rel_del. exact R.
    + split; [reflexivity|]. split; [split; assumption|]. repeat split; reflexivity.
  - rewrite (rel_none _ _ R _ G).
    split; [reflexivity|]. split; [split; assumption|]. repeat split; reflexivity.
Qed.

(* ---- ack ------------------------------------------------------------------------------- *)
Lemma Ack_sim t s u sid m :
  Sim t s ->
  let '(t', r) := Ack t u sid m in
  exists ok p, r = RAck ok p
  /\ ok = spec_has s (u, sid, m)
  /\ (ok = true -> key_of p = (u, sid, m))
  /\ Sim t' (if ok then al_del key_eqb (u, sid, m) s else s)
  /\ t_next t' = t_next t /\ t_limit t' = t_limit t /\ t_shards t' = t_shards t.
Proof.
  intros [I R]. unfold Ack.
  destruct ((u =? 0) || (sid =? 0) || (m =? 0)) eqn:C.
  - exists false, zero_pending. split; [reflexivity|]. split.
    + rewrite (rel_has _ _ _ R). destruct (kget (u, sid, m) (t_byMessage t)) eqn:G; [|reflexivity].
      destruct (inv_entries t I _ _ G) as [_ [K1 [K2 K3]]].
      apply N.eqb_neq in K1, K2, K3. rewrite K1, K2, K3 in C. discriminate.
    + split; [discriminate|]. split; [split; assumption|]. repeat split; reflexivity.
  - destruct (kget (u, sid, m) (t_byMessage t)) as [e|] eqn:G.
    + exists true, (e_pending e). split; [reflexivity|]. split; [rewrite (rel_has _ _ _ R), G; reflexivity|].
      destruct (inv_entries t I _ _ G) as [[W A K B] KV].
      split; [intros _; apply K; left; reflexivity|]. split; [|repeat split; reflexivity]. split.
      * constructor; proj.
        -- apply k_del_nodup. apply (inv_nodup t I).
        -- rewrite (inv_count t I). pose proof (k_del_length _ _ _ (inv_nodup t I) G). lia.
        -- apply si_del. apply (inv_index t I).
        -- intros k0 e0. destruct (key_eq_dec (u, sid, m) k0) as [E|E].
           ++ subst k0. rewrite k_get_del_same. discriminate.
           ++ rewrite k_get_del_other by exact E. apply (inv_entries t I).
        -- apply (limit_after_delete t); [exact I|].
           intros sk' ms'. apply deleteSession_rows. apply (si_nodup _ _ (inv_index t I)).
      * proj. apply rel_del. exact R.
    + exists false, zero_pending. split; [reflexivity|]. split; [rewrite (rel_has _ _ _ R), G; reflexivity|].
      split; [discriminate|]. split; [split; assumption|]. repeat split; reflexivity.
Qed.
