(* Proof/WkEnc_b64.v — the concrete encoders of Model/WkEnc.v are injective:
   base64 (decode ∘ encode = id on byte strings), hexLower / hexMD5String. *)
From WK Require Import Base.Base Base.Bytes Gen.Consts_C25 Model.WkEnc.
From Coq Require Import ZifyBool ZifyN ZifyNat.
Ltac Zify.zify_post_hook ::= Z.div_mod_to_equations.
Open Scope N_scope.

(* ---- finite checks by computation -------------------------------------------- *)

Definition below (n : nat) : list N := map N.of_nat (seq 0 n).

Lemma in_below n i : i < N.of_nat n -> In i (below n).
Proof.
  intro H. unfold below. apply in_map_iff. exists (N.to_nat i). split; [lia|].
  apply in_seq. lia.
Qed.

Lemma forall_below (f : N -> bool) n :
  forallb f (below n) = true -> forall i, i < N.of_nat n -> f i = true.
Proof. intros H i Hi. rewrite forallb_forall in H. apply H. apply in_below. exact Hi. Qed.

(* ---- alphabet facts ---------------------------------------------------------------- *)

Lemma b64_val_char v : v < 64 -> b64_val (b64_char v) = Some v.
Proof.
  intro H.
  assert (E : forallb (fun v => option_eqb N.eqb (b64_val (b64_char v)) (Some v)) (below 64) = true)
    by (vm_compute; reflexivity).
  pose proof (forall_below _ _ E v H) as Hv. cbv beta in Hv.
  destruct (b64_val (b64_char v)) as [w|]; cbn in Hv; [|discriminate].
  apply N.eqb_eq in Hv. subst. reflexivity.
Qed.

Lemma b64_char_not_crlf v : v < 64 -> is_crlf (b64_char v) = false.
Proof.
  intro H.
  assert (E : forallb (fun v => negb (is_crlf (b64_char v))) (below 64) = true) by (vm_compute; reflexivity).
  pose proof (forall_below _ _ E v H) as Hv. cbv beta in Hv. destruct (is_crlf (b64_char v)); [discriminate|reflexivity].
Qed.

Lemma b64_char_byte v : is_byte (b64_char v) = true.
Proof.
  destruct (N.ltb_spec v 64) as [H|H].
  - assert (E : forallb (fun v => is_byte (b64_char v)) (below 64) = true) by (vm_compute; reflexivity).
    exact (forall_below _ _ E v H).
  - unfold b64_char. rewrite nth_overflow; [reflexivity|].
    change (length B64Alphabet) with 64%nat. lia.
Qed.

Lemma b64_pad_facts : b64_val B64Pad = None /\ is_crlf B64Pad = false /\ is_byte B64Pad = true.
Proof. vm_compute. repeat split; reflexivity. Qed.

(* ---- decode (encode d) = d ------------------------------------------------------------ *)

Lemma list_ind3 {A} (P : list A -> Prop) :
  P [] -> (forall a, P [a]) -> (forall a b, P [a; b]) ->
  (forall a b c r, P r -> P (a :: b :: c :: r)) -> forall l, P l.
Proof.
  intros H0 H1 H2 H3.
  fix IH 1. intros [|a [|b [|c r]]]; [exact H0|apply H1|apply H2|apply H3; apply IH].
Qed.

Ltac split_bytes H :=
  cbn [all_bytes forallb] in H;
  repeat (apply andb_true_iff in H; let H1 := fresh "Hb" in destruct H as [H1 H];
          unfold is_byte in H1; apply N.ltb_lt in H1).

Ltac b64_bounds a b c :=
  assert (a / 4 < 64) by lia; assert (a mod 4 * 16 < 64) by lia;
  assert (a mod 4 * 16 + b / 16 < 64) by lia; assert (b mod 16 * 4 < 64) by lia;
  assert (b mod 16 * 4 + c / 64 < 64) by lia; assert (c mod 64 < 64) by lia.

Lemma strip_crlf_encode d : all_bytes d = true -> strip_crlf (b64_encode d) = b64_encode d.
Proof.
  destruct b64_pad_facts as (_ & Hp & _).
  induction d as [|a|a b|a b c r IH] using list_ind3; intro Hd; [reflexivity| | |].
  - split_bytes Hd. b64_bounds a 0 0.
    cbn [b64_encode strip_crlf filter].
    rewrite !b64_char_not_crlf, Hp by assumption. reflexivity.
  - split_bytes Hd. b64_bounds a b 0.
    cbn [b64_encode strip_crlf filter].
    rewrite !b64_char_not_crlf, Hp by assumption. reflexivity.
  - split_bytes Hd. b64_bounds a b c.
    assert (Hr : all_bytes r = true) by exact Hd.
    cbn [b64_encode strip_crlf filter].
    rewrite !b64_char_not_crlf by assumption. cbn [negb].
    fold (strip_crlf (b64_encode r)). rewrite (IH Hr). reflexivity.
Qed.

Lemma b64_decode_quanta_encode d : all_bytes d = true -> b64_decode_quanta (b64_encode d) = Some d.
Proof.
  destruct b64_pad_facts as (Hp & _ & _).
  induction d as [|a|a b|a b c r IH] using list_ind3; intro Hd; [reflexivity| | |].
  - split_bytes Hd. b64_bounds a 0 0.
    cbn [b64_encode b64_decode_quanta].
    rewrite !b64_val_char, Hp by assumption. rewrite N.eqb_refl. cbn [andb is_nil].
    f_equal. f_equal. lia.
  - split_bytes Hd. b64_bounds a b 0.
    cbn [b64_encode b64_decode_quanta].
    rewrite !b64_val_char, Hp by assumption. rewrite N.eqb_refl. cbn [andb is_nil].
    f_equal. f_equal; [lia|]. f_equal. lia.
  - split_bytes Hd. b64_bounds a b c.
    assert (Hr : all_bytes r = true) by exact Hd.
    cbn [b64_encode b64_decode_quanta].
    rewrite !b64_val_char by assumption. rewrite (IH Hr).
    f_equal. f_equal; [lia|]. f_equal; [lia|]. f_equal. lia.
Qed.

Theorem b64_decode_encode d : all_bytes d = true -> b64_decode (b64_encode d) = Some d.
Proof.
  intro H. unfold b64_decode. rewrite strip_crlf_encode by exact H.
  apply b64_decode_quanta_encode. exact H.
Qed.

Theorem b64_encode_inj a b : all_bytes a = true -> all_bytes b = true -> b64_encode a = b64_encode b -> a = b.
Proof.
  intros Ha Hb E. pose proof (b64_decode_encode a Ha) as Da. rewrite E, (b64_decode_encode b Hb) in Da.
  inversion Da. reflexivity.
Qed.

Lemma b64_encode_all_bytes d : all_bytes (b64_encode d) = true.
Proof.
  destruct b64_pad_facts as (_ & _ & Hp).
  induction d as [|a|a b|a b c r IH] using list_ind3; [reflexivity| | |];
    cbn [b64_encode all_bytes forallb]; rewrite ?b64_char_byte, ?Hp; try reflexivity.
  exact IH.
Qed.

(* ---- hex ------------------------------------------------------------------------------- *)

Definition digits_distinct (digits : list N) : bool :=
  forallb (fun i => forallb (fun j => negb (nth (N.to_nat i) digits 0 =? nth (N.to_nat j) digits 0) || (i =? j)) (below 16)) (below 16).

Lemma digits_inj digits i j : digits_distinct digits = true -> i < 16 -> j < 16 ->
  nth (N.to_nat i) digits 0 = nth (N.to_nat j) digits 0 -> i = j.
Proof.
  intros D Hi Hj E. unfold digits_distinct in D.
  pose proof (forall_below _ _ D i Hi) as Di. cbv beta in Di.
  pose proof (forall_below _ _ Di j Hj) as Dij. cbv beta in Dij.
  rewrite E, N.eqb_refl in Dij. cbn in Dij. apply N.eqb_eq. exact Dij.
Qed.

Lemma hex_with_inj digits a : digits_distinct digits = true ->
  forall b, all_bytes a = true -> all_bytes b = true -> hex_with digits a = hex_with digits b -> a = b.
Proof.
  intro D. induction a as [|x a IH]; intros [|y b] Ha Hb E; try reflexivity; try discriminate.
  split_bytes Ha. split_bytes Hb.
  unfold hex_with in E. cbn [flat_map app] in E. injection E as E1 E2 E3.
  fold (hex_with digits a) in E3. fold (hex_with digits b) in E3.
  apply (digits_inj digits) in E1; [|exact D|lia|lia].
  apply (digits_inj digits) in E2; [|exact D|lia|lia].
  f_equal; [lia|]. apply IH; [exact Ha|exact Hb|exact E3].
Qed.

Lemma hexMD5String_inj a b : all_bytes a = true -> all_bytes b = true -> hexMD5String a = hexMD5String b -> a = b.
Proof. apply hex_with_inj. vm_compute. reflexivity. Qed.

Lemma hexLower_inj a b : all_bytes a = true -> all_bytes b = true -> hexLower a = hexLower b -> a = b.
Proof. apply hex_with_inj. vm_compute. reflexivity. Qed.

Lemma hex_with_length digits a : length (hex_with digits a) = (2 * length a)%nat.
Proof. induction a as [|x a IH]; [reflexivity|]. unfold hex_with in *. cbn [flat_map app length]. rewrite IH. lia. Qed.
