(* Proof/Identity_seal.v — what DeriveProposalEntries / SealProposalManifest
   produce: a chain bound to the manifest, every entry verifying against its own
   record; and the link between the C05 monitor and the Identity model. *)
From WK Require Import Base.Base Base.Bytes Gen.Consts_C05 Model.Identity Model.C05Case Proof.Identity.
Open Scope N_scope.

Lemma is_zero32_true b : is_zero32 b = true -> b = zero32.
Proof. unfold is_zero32. apply bytes_eqb_eq. Qed.

Lemma wrap64_small x : x < 18446744073709551616 -> wrap64 x = x.
Proof. intro L. unfold wrap64. apply N.mod_small. exact L. Qed.

Lemma bytes_eqb_refl' (a : bytes) : bytes_eqb a a = true.
Proof. apply bytes_eqb_eq. reflexivity. Qed.

Definition mk_entry (m : manifest) (idx pt pi : N) (pd d : bytes) : entry :=
  Entry ProposalManifestVersion (m_epoch m) (m_term m) (m_fence m) idx pt pi (m_cmd m) pd d.

Definition all_true (l : list bool) : Prop := forallb (fun b => b) l = true.

Section Seal.
  Variable H : bytes -> bytes.

  Lemma derive_loop_cons m idx pt pi pd r rest es0 :
    derive_loop H m idx pt pi pd (r :: rest) = Some es0 ->
    let d := H (preimage (mk_entry m idx pt pi pd zero32) r) in
    exists es, es0 = mk_entry m idx pt pi pd d :: es
               /\ record_admissible (m_epoch m) idx r = true
               /\ derive_loop H m (wrap64 (idx + 1)) (m_term m) idx d rest = Some es.
  Proof.
    cbn [derive_loop]. destruct (record_admissible (m_epoch m) idx r); cbn [negb]; [|discriminate].
    cbv zeta. unfold digest_proposal_entry. cbn [with_digest e_version e_epoch e_term e_fence e_index
      e_prev_term e_prev_index e_cmd e_prev_digest e_digest].
    fold (mk_entry m idx pt pi pd zero32).
    destruct (derive_loop H m (wrap64 (idx + 1)) (m_term m) idx
                (H (preimage (mk_entry m idx pt pi pd zero32) r)) rest) as [es|] eqn:D; [|discriminate].
    intro E. inversion E. exists es. repeat split.
  Qed.

  Lemma derive_loop_length rs : forall m idx pt pi pd es,
    derive_loop H m idx pt pi pd rs = Some es -> length es = length rs.
  Proof.
    induction rs as [|r rest IH]; intros m idx pt pi pd es D.
    - cbn in D. inversion D. reflexivity.
    - apply derive_loop_cons in D. cbv zeta in D. destruct D as (es' & -> & _ & D).
      cbn [length]. f_equal. exact (IH _ _ _ _ _ _ D).
  Qed.

  (* the chain the monitor checks *)
  Lemma derive_loop_chain rs : forall m idx pt pi pd es,
    idx + N.of_nat (length rs) <= 18446744073709551616 ->
    derive_loop H m idx pt pi pd rs = Some es -> chain_ok m idx pt pi pd es = true.
  Proof.
    induction rs as [|r rest IH]; intros m idx pt pi pd es B D.
    - cbn in D. inversion D. reflexivity.
    - apply derive_loop_cons in D. cbv zeta in D. destruct D as (es' & -> & _ & D).
      cbn [chain_ok mk_entry e_version e_epoch e_term e_fence e_index e_prev_term e_prev_index e_cmd
           e_prev_digest e_digest].
      rewrite !N.eqb_refl, !bytes_eqb_refl'. cbn [andb].
      destruct rest as [|r2 rest2].
      + cbn in D. inversion D. reflexivity.
      + rewrite wrap64_small in D by (cbn [length] in B; lia).
        apply (IH _ _ _ _ _ _) in D; [exact D|cbn [length] in B |- *; lia].
  Qed.

  Definition m_ok (m : manifest) : Prop :=
    m_epoch m <> 0 /\ m_term m <> 0 /\ m_fence m <> 0 /\ is_zero32 (m_cmd m) = false.

  Definition pred_ok (pt pi : N) (pd : bytes) : Prop :=
    (pi = 0 -> pt = 0 /\ pd = zero32) /\ (pi <> 0 -> pt <> 0 /\ is_zero32 pd = false).

  Lemma is_zero32_zero32 : is_zero32 zero32 = true.
  Proof. reflexivity. Qed.

  (* the guards of VerifyEntry hold for a derived entry and the record it was derived from *)
  Lemma derived_guards m idx pt pi pd d r :
    m_ok m -> pred_ok pt pi pd -> 1 <= idx -> idx < 18446744073709551616 -> pi + 1 = idx ->
    record_admissible (m_epoch m) idx r = true -> is_zero32 d = false ->
    verify_guards (mk_entry m idx pt pi pd d) r = true.
  Proof.
    intros (M1 & M2 & M3 & M4) [P0 P1] I1 I2 PI A Dz.
    unfold record_admissible in A. rewrite !andb_true_iff in A. destruct A as [[[A1 A2] A3] A4].
    apply negb_true_iff in A1. apply N.eqb_eq in A3. apply Z.ltb_lt in A4.
    unfold verify_guards, mk_entry.
    cbn [e_version e_epoch e_term e_fence e_index e_prev_term e_prev_index e_cmd e_prev_digest e_digest].
    rewrite N.eqb_refl. cbn [negb orb].
    apply N.eqb_neq in M1, M2, M3. rewrite M1, M2, M3. cbn [orb].
    assert (I0 : idx =? 0 = false) by (apply N.eqb_neq; lia). rewrite I0, M4, Dz. cbn [orb].
    rewrite PI, (wrap64_small idx I2), N.eqb_refl. cbn [negb orb].
    rewrite A1. cbn [orb].
    assert (A2' : negb (r_index r =? 0) && negb (r_index r =? idx) = false).
    { destruct (r_index r =? 0); [reflexivity|]. cbn [orb] in A2. rewrite A2. reflexivity. }
    rewrite A2'. cbn [orb]. rewrite A3, N.eqb_refl. cbn [negb orb].
    assert (A4' : (r_ts r <=? 0)%Z = false) by (apply Z.leb_gt; exact A4). rewrite A4'.
    destruct (pi =? 0) eqn:Pz.
    - apply N.eqb_eq in Pz. destruct (P0 Pz) as [-> ->]. reflexivity.
    - apply N.eqb_neq in Pz. destruct (P1 Pz) as [T Z]. apply N.eqb_neq in T. rewrite T, Z. reflexivity.
  Qed.

  (* every derived entry verifies against its own record, unless H maps some
     pre-image to the all-zero digest *)
  Lemma derive_loop_self rs : forall m idx pt pi pd es,
    m_ok m -> pred_ok pt pi pd -> 1 <= idx -> pi + 1 = idx ->
    idx + N.of_nat (length rs) <= 18446744073709551616 ->
    derive_loop H m idx pt pi pd rs = Some es ->
    all_true (self_verify H es rs) \/ zero_image H.
  Proof.
    induction rs as [|r rest IH]; intros m idx pt pi pd es M P I1 PI B D.
    - cbn in D. inversion D. left. reflexivity.
    - apply derive_loop_cons in D. cbv zeta in D. destruct D as (es' & -> & A & D).
      set (d := H (preimage (mk_entry m idx pt pi pd zero32) r)) in *.
      destruct (is_zero32 d) eqn:Dz.
      { right. exists (preimage (mk_entry m idx pt pi pd zero32) r). apply is_zero32_true. exact Dz. }
      assert (I2 : idx < 18446744073709551616) by (cbn [length] in B; lia).
      assert (V : verify_entry H (mk_entry m idx pt pi pd d) r = true).
      { apply verify_entry_iff. split.
        - apply derived_guards; assumption.
        - reflexivity. }
      destruct rest as [|r2 rest2].
      + cbn in D. inversion D. left. unfold all_true. cbn [self_verify forallb]. rewrite V. reflexivity.
      + rewrite wrap64_small in D by (cbn [length] in B; lia).
        destruct M as (M1 & M2 & M3 & M4).
        apply (IH m (idx + 1) (m_term m) idx d es') in D.
        * destruct D as [D|D]; [left|right; exact D].
          unfold all_true in *. cbn [self_verify forallb]. rewrite V. exact D.
        * repeat split; assumption.
        * split; [intro Z; lia|intros _; split; assumption].
        * lia.
        * reflexivity.
        * cbn [length] in B |- *. lia.
  Qed.

  (* derived entries carry the digest of (themselves, their record) and stay in the field domains *)
  Definition good_triple (t : triple) : Prop :=
    match t with
    | (e, r, d) => entry_in_domain e = true /\ record_in_domain r = true /\ d = H (preimage e r)
    end.

  Lemma mk_entry_domain m idx pt pi pd d :
    manifest_in_domain m = true -> idx < 18446744073709551616 -> u64 pt = true -> u64 pi = true ->
    length pd = 32%nat -> entry_in_domain (mk_entry m idx pt pi pd d) = true.
  Proof.
    unfold manifest_in_domain, entry_in_domain, mk_entry. intros MD I T P L.
    rewrite !andb_true_iff in MD. destruct MD as [[[[[[[[A1 A2] A3] A4] A5] A6] A7] A8] A9].
    cbn [e_epoch e_term e_fence e_index e_prev_term e_prev_index e_cmd e_prev_digest].
    rewrite A1, A2, A3, T, P, A8. unfold u64. apply N.ltb_lt in I. rewrite I.
    unfold len32. rewrite L. reflexivity.
  Qed.

  (* ---- equal digests among good triples => equal content, or a collision --------- *)

  Lemma binds_good a b : good_triple a -> good_triple b -> binds a b = true \/ collision H.
  Proof.
    destruct a as [[e r] d], b as [[e' r'] d']. cbn [good_triple binds].
    intros (De & Dr & ->) (De' & Dr' & ->).
    destruct (bytes_eqb (H (preimage e r)) (H (preimage e' r'))) eqn:E; [|left; reflexivity].
    apply bytes_eqb_eq in E. cbn [negb orb].
    destruct (digest_binds H e r e' r' De Dr De' Dr' E) as [C|C]; [left|right; exact C].
    apply content_eqb_iff. exact C.
  Qed.

  Lemma forallb_binds_good a l : good_triple a -> Forall good_triple l ->
    forallb (binds a) l = true \/ collision H.
  Proof.
    intros Ga Gl. induction Gl as [|b l Gb Gl IH]; [left; reflexivity|].
    cbn [forallb]. destruct (binds_good a b Ga Gb) as [B|C]; [|right; exact C].
    destruct IH as [I|C]; [|right; exact C]. left. rewrite B, I. reflexivity.
  Qed.

  Lemma all_pairs_binds_good l : Forall good_triple l -> all_pairs binds l = true \/ collision H.
  Proof.
    intro G. induction G as [|a l Ga Gl IH]; [left; reflexivity|].
    cbn [all_pairs]. destruct (forallb_binds_good a l Ga Gl) as [B|C]; [|right; exact C].
    destruct IH as [I|C]; [|right; exact C]. left. rewrite B, I. reflexivity.
  Qed.

  (* ---- SealProposalManifest ---------------------------------------------------------- *)

  Lemma last_digest_last (es : list entry) dflt : es <> [] -> last_digest es = e_digest (last es dflt).
  Proof.
    intro NE. destruct (exists_last NE) as (es' & e & ->).
    unfold last_digest. rewrite rev_app_distr, last_last. reflexivity.
  Qed.

  Lemma manifest_eqb_refl m : manifest_eqb m m = true.
  Proof. unfold manifest_eqb. rewrite !N.eqb_refl, !bytes_eqb_refl'. reflexivity. Qed.

  (* what the guards of DeriveProposalEntries establish *)
  Lemma derive_guards m rs es : derive_proposal_entries H m rs = Some es ->
    rs <> [] /\ m_base m + N.of_nat (length rs) <= u64max /\ m_ok m
    /\ m_prev_index m = m_base m /\ pred_ok (m_prev_term m) (m_prev_index m) (m_prev_digest m)
    /\ derive_loop H m (m_base m + 1) (m_prev_term m) (m_prev_index m) (m_prev_digest m) rs = Some es.
  Proof.
    unfold derive_proposal_entries. cbv zeta.
    destruct (N.of_nat (length rs) =? 0) eqn:C0; [discriminate|]. cbn [orb].
    destruct (u64max - m_base m <? N.of_nat (length rs)) eqn:C1; [discriminate|]. cbn [orb].
    destruct (m_version m =? ProposalManifestVersion); cbn [negb orb]; [|discriminate].
    destruct (m_epoch m =? 0) eqn:G1; [discriminate|]. cbn [orb].
    destruct (m_term m =? 0) eqn:G2; [discriminate|]. cbn [orb].
    destruct (m_fence m =? 0) eqn:G3; [discriminate|]. cbn [orb].
    destruct (is_zero32 (m_cmd m)) eqn:G4; [discriminate|]. cbn [orb].
    destruct (m_last m =? wrap64 (m_base m + N.of_nat (length rs))); cbn [negb orb]; [|discriminate].
    destruct (m_prev_index m =? m_base m) eqn:G5; cbn [negb]; [|discriminate].
    apply N.eqb_neq in C0, G1, G2, G3. apply N.ltb_ge in C1. apply N.eqb_eq in G5.
    assert (BB : m_base m <= u64max).
    { destruct (N.le_gt_cases (m_base m) u64max) as [L|L]; [exact L|].
      exfalso. assert (u64max - m_base m = 0) by lia. lia. }
    assert (NE : rs <> []) by (destruct rs; [cbn in C0; congruence|discriminate]).
    assert (SUM : m_base m + N.of_nat (length rs) <= u64max) by lia.
    destruct (m_base m =? 0) eqn:B0.
    - destruct (m_prev_term m =? 0) eqn:T0; cbn [negb orb]; [|discriminate].
      destruct (is_zero32 (m_prev_digest m)) eqn:Z0; cbn [negb]; [|discriminate].
      intro D. apply N.eqb_eq in B0, T0. apply is_zero32_true in Z0.
      rewrite wrap64_small in D by (unfold u64max in SUM; lia).
      split; [exact NE|]. split; [exact SUM|]. split; [unfold m_ok; repeat split; assumption|].
      split; [exact G5|]. split; [|exact D]. unfold pred_ok. split.
      + intros _. split; assumption.
      + intro NZ. exfalso. apply NZ. congruence.
    - destruct (m_prev_term m =? 0) eqn:T0; cbn [orb]; [discriminate|].
      destruct (is_zero32 (m_prev_digest m)) eqn:Z0; [discriminate|].
      intro D. apply N.eqb_neq in B0, T0.
      rewrite wrap64_small in D by (unfold u64max in SUM; lia).
      split; [exact NE|]. split; [exact SUM|]. split; [unfold m_ok; repeat split; assumption|].
      split; [exact G5|]. split; [|exact D]. unfold pred_ok. split.
      + intro Z. exfalso. apply B0. congruence.
      + intros _. split; assumption.
  Qed.

  Lemma in_domain_zero_digest m :
    manifest_in_domain (manifest_with_digest m zero32) = manifest_in_domain m.
  Proof. reflexivity. Qed.

  Lemma chain_ok_m_irrel m d : forall es idx pt pi pd,
    chain_ok (manifest_with_digest m d) idx pt pi pd es = chain_ok m idx pt pi pd es.
  Proof. induction es as [|e es IH]; intros; [reflexivity|]. cbn [chain_ok]. rewrite IH. reflexivity. Qed.

  Lemma manifest_len32_prev m : manifest_in_domain m = true ->
    u64 (m_prev_term m) = true /\ u64 (m_prev_index m) = true /\ length (m_prev_digest m) = 32%nat
    /\ u64 (m_base m) = true.
  Proof.
    unfold manifest_in_domain. rewrite !andb_true_iff. intros [[[[[[[[A1 A2] A3] A4] A5] A6] A7] A8] A9].
    repeat split; try assumption. apply len32_eq. exact A9.
  Qed.

  (* the sealed chain satisfies the seal part of the monitor *)
  Lemma seal_ok_model m rs prs : manifest_in_domain m = true ->
    seal_ok (model_case H m rs prs) = true \/ zero_image H.
  Proof.
    intro MD. unfold seal_ok, model_case. cbv zeta.
    cbn [c_seal c_manifest c_records c_self].
    unfold seal_proposal_manifest. cbv zeta.
    destruct (derive_proposal_entries H (manifest_with_digest m zero32) rs) as [es|] eqn:D; [|left; reflexivity].
    destruct (derive_guards _ _ _ D) as (NE & SUM & MOK & PIB & POK & LOOP).
    cbn [m_base m_prev_term m_prev_index m_prev_digest manifest_with_digest] in SUM, PIB, POK, LOOP.
    pose proof (derive_loop_length _ _ _ _ _ _ _ LOOP) as LEN.
    assert (B : m_base m + 1 + N.of_nat (length rs) <= 18446744073709551616) by (unfold u64max in SUM; lia).
    pose proof (derive_loop_chain _ _ _ _ _ _ _ B LOOP) as CH. rewrite chain_ok_m_irrel in CH.
    assert (ENE : es <> []).
    { intro E0. subst es. destruct rs; [congruence|discriminate]. }
    assert (I1 : 1 <= m_base m + 1) by lia.
    assert (PI1 : m_prev_index m + 1 = m_base m + 1) by lia.
    destruct (derive_loop_self rs _ _ _ _ _ es MOK POK I1 PI1 B LOOP) as [SV|Z]; [|right; exact Z].
    left. rewrite LEN, Nat.eqb_refl. cbn [andb].
    assert (ME : manifest_eqb
                   (manifest_with_digest
                      (manifest_with_digest (manifest_with_digest m zero32)
                         (e_digest (last es (with_digest (Entry 0 0 0 0 0 0 0 [] [] []) zero32))))
                      (m_digest m)) m = true).
    { destruct m. apply manifest_eqb_refl. }
    rewrite ME. cbn [andb].
    cbn [m_digest manifest_with_digest].
    rewrite (last_digest_last es (with_digest (Entry 0 0 0 0 0 0 0 [] [] []) zero32) ENE), bytes_eqb_refl'. cbn [andb].
    rewrite CH. cbn [andb].
    assert (SL : length (self_verify H es rs) = length es).
    { clear -LEN. revert rs LEN. induction es as [|e es IH]; intros [|r rs] L; try discriminate; [reflexivity|].
      cbn [self_verify length]. f_equal. apply IH. cbn in L. lia. }
    rewrite SL, LEN, Nat.eqb_refl. cbn [andb]. exact SV.
  Qed.

  Lemma probe_ok_model er : probe_ok (model_probe H er) = true.
  Proof.
    unfold probe_ok, model_probe, verify_entry. cbn [p_verify p_entry p_record p_digest].
    apply Bool.eqb_true_iff. reflexivity.
  Qed.

  (* SealProposalManifest: every sealed entry verifies against its record *)
  Lemma sealed_entries_verify m rs m' es :
    seal_proposal_manifest H m rs = Some (m', es) ->
    length es = length rs /\ (all_true (self_verify H es rs) \/ zero_image H).
  Proof.
    unfold seal_proposal_manifest. cbv zeta.
    destruct (derive_proposal_entries H (manifest_with_digest m zero32) rs) as [es0|] eqn:D; [|discriminate].
    intro E. inversion E; subst es0. clear E.
    destruct (derive_guards _ _ _ D) as (NE & SUM & MOK & PIB & POK & LOOP).
    cbn [m_base m_prev_term m_prev_index m_prev_digest manifest_with_digest] in SUM, PIB, POK, LOOP.
    split; [exact (derive_loop_length _ _ _ _ _ _ _ LOOP)|].
    apply (derive_loop_self rs (manifest_with_digest m zero32) (m_base m + 1) (m_prev_term m) (m_prev_index m) (m_prev_digest m) es MOK POK); try assumption; unfold u64max in SUM; lia.
  Qed.

  (* SealProposalManifest: the entries form the chain the manifest describes and
     the sealed manifest is the input manifest with the tail's digest *)
  Lemma sealed_chain m rs m' es :
    seal_proposal_manifest H m rs = Some (m', es) ->
    chain_ok m (m_base m + 1) (m_prev_term m) (m_prev_index m) (m_prev_digest m) es = true
    /\ m_digest m' = last_digest es /\ manifest_with_digest m' (m_digest m) = m.
  Proof.
    unfold seal_proposal_manifest. cbv zeta.
    destruct (derive_proposal_entries H (manifest_with_digest m zero32) rs) as [es0|] eqn:D; [|discriminate].
    intro E. inversion E; subst es0. clear E.
    destruct (derive_guards _ _ _ D) as (NE & SUM & MOK & PIB & POK & LOOP).
    cbn [m_base m_prev_term m_prev_index m_prev_digest manifest_with_digest] in SUM, PIB, POK, LOOP.
    assert (B : m_base m + 1 + N.of_nat (length rs) <= 18446744073709551616) by (unfold u64max in SUM; lia).
    pose proof (derive_loop_chain _ _ _ _ _ _ _ B LOOP) as CH. rewrite chain_ok_m_irrel in CH.
    pose proof (derive_loop_length _ _ _ _ _ _ _ LOOP) as LEN.
    assert (ENE : es <> []).
    { intro E0. subst es. destruct rs; [congruence|discriminate]. }
    split; [exact CH|]. split.
    - cbn [m_digest manifest_with_digest]. symmetry. apply last_digest_last. exact ENE.
    - destruct m. reflexivity.
  Qed.

  (* from here on: H returns 32 bytes (the derived PreviousDigest stays in its domain) *)
  Hypothesis H_len : forall p, length (H p) = 32%nat.

  Lemma derive_loop_triples rs : forall m idx pt pi pd es,
    manifest_in_domain m = true -> Forall (fun r => record_in_domain r = true) rs ->
    u64 pt = true -> u64 pi = true -> length pd = 32%nat ->
    idx + N.of_nat (length rs) <= 18446744073709551616 ->
    derive_loop H m idx pt pi pd rs = Some es ->
    Forall good_triple (map (fun er => (fst er, snd er, e_digest (fst er))) (combine es rs)).
  Proof.
    induction rs as [|r rest IH]; intros m idx pt pi pd es MD RD T P L B D.
    - cbn in D. inversion D. constructor.
    - apply derive_loop_cons in D. cbv zeta in D. destruct D as (es' & -> & A & D).
      inversion RD as [|? ? Rr Rrest]; subst.
      assert (I2 : idx < 18446744073709551616) by (cbn [length] in B; lia).
      cbn [combine map fst snd]. constructor.
      + cbn [good_triple]. split; [apply mk_entry_domain; assumption|]. split; [exact Rr|]. reflexivity.
      + destruct rest as [|r2 rest2].
        * cbn in D. inversion D. constructor.
        * rewrite wrap64_small in D by (cbn [length] in B; lia).
          assert (MT : u64 (m_term m) = true).
          { unfold manifest_in_domain in MD. rewrite !andb_true_iff in MD. tauto. }
          apply (IH m (idx + 1) (m_term m) idx (H (preimage (mk_entry m idx pt pi pd zero32) r)) es'); try assumption.
          -- unfold u64. apply N.ltb_lt. exact I2.
          -- apply H_len.
          -- cbn [length] in B |- *. lia.
  Qed.

  Definition pair_in_domain (er : entry * record) : Prop :=
    entry_in_domain (fst er) = true /\ record_in_domain (snd er) = true.

  (* C05: the monitor holds on every case the model produces, unless H exhibits a
     collision or a pre-image of the all-zero digest *)
  Lemma model_satisfies_monitor m rs prs :
    manifest_in_domain m = true -> Forall (fun r => record_in_domain r = true) rs ->
    Forall pair_in_domain prs ->
    C05_monitor (model_case H m rs prs) = 0 \/ collision H \/ zero_image H.
  Proof.
    intros MD RD PD. unfold C05_monitor.
    destruct (seal_ok_model m rs prs MD) as [S|Z]; [|right; right; exact Z]. rewrite S. cbn [andb].
    assert (P : forallb probe_ok (c_probes (model_case H m rs prs)) = true).
    { unfold model_case. cbv zeta. cbn [c_probes]. apply forallb_forall. intros p IN.
      apply in_map_iff in IN. destruct IN as (er & <- & _). apply probe_ok_model. }
    rewrite P. cbn [andb].
    assert (G : Forall good_triple (sealed_triples (model_case H m rs prs) ++ probe_triples (model_case H m rs prs))).
    { apply Forall_app. split.
      - unfold sealed_triples, model_case. cbv zeta. cbn [c_seal c_records].
        unfold seal_proposal_manifest. cbv zeta.
        destruct (derive_proposal_entries H (manifest_with_digest m zero32) rs) as [es|] eqn:D; [|constructor].
        destruct (derive_guards _ _ _ D) as (NE & SUM & MOK & PIB & POK & LOOP).
        cbn [m_base m_prev_term m_prev_index m_prev_digest manifest_with_digest] in SUM, PIB, POK, LOOP.
        destruct (manifest_len32_prev m MD) as (U1 & U2 & U3 & U4).
        apply (derive_loop_triples rs (manifest_with_digest m zero32) (m_base m + 1) (m_prev_term m) (m_prev_index m) (m_prev_digest m) es); try assumption.
        unfold u64max in SUM. lia.
      - unfold probe_triples, model_case. cbv zeta. cbn [c_probes]. rewrite map_map.
        apply Forall_map. apply Forall_impl with (P := pair_in_domain); [|exact PD].
        intros [e r] [De Dr]. cbn [model_probe p_entry p_record p_digest fst snd good_triple].
        repeat split; assumption. }
    destruct (all_pairs_binds_good _ G) as [A|C]; [|right; left; exact C].
    rewrite A. left. reflexivity.
  Qed.

End Seal.
