(* Proof/WKProto_types.v — per frame type: the body written by encodeX is the
   explicit byte string [body_bytes], encodeXSize is its length, it is never
   empty, and decodeX reads it back as the normalized frame. *)
From WK Require Import Base.Base Base.Bytes Gen.Consts_C22 Model.WKProto Proof.WKProto.
From Coq Require Import ZifyBool ZifyN ZifyNat.
Open Scope N_scope.

Definition opt_bytes (c : bool) (b : bytes) : bytes := if c then b else [].

(* the body of a frame whose fields are within limits *)
Definition body_bytes (f : frame) (v : N) : bytes :=
  match f with
  | FConnect _ ver dfl ts ck did uid tok =>
      put_u8 ver ++ put_u8 dfl ++ enc_str did ++ enc_str uid ++ enc_str tok ++ put_u64 ts ++ enc_str ck
  | FConnack fl sv td rc nid sk salt =>
      opt_bytes (f_hsv fl) (put_u8 sv) ++ put_u64 td ++ put_u8 rc ++ enc_str sk ++ enc_str salt
      ++ opt_bytes (4 <=? v) (put_u64 nid)
  | FSend _ st ex cs ct mk cmn sn cid tp pl =>
      put_u8 st ++ put_u32 cs ++ enc_str cmn ++ opt_bytes (has_stream v st) (enc_str sn)
      ++ enc_str cid ++ put_u8 ct ++ opt_bytes (3 <=? v) (put_u32 ex) ++ enc_str mk
      ++ opt_bytes (IsSet st SettingTopic) (enc_str tp) ++ pl
  | FSendack _ mid ms cs rc cmn =>
      put_u64 mid ++ put_u32 cs ++ seq_bytes v ms ++ put_u8 rc
      ++ opt_bytes (negb (blen cmn =? 0)) (enc_str cmn)
  | FRecv _ st ex mid ms sid sfl ts ct _ mk cmn sn cid tp fu pl =>
      put_u8 st ++ enc_str mk ++ enc_str fu ++ enc_str cid ++ put_u8 ct
      ++ opt_bytes (3 <=? v) (put_u32 ex) ++ enc_str cmn
      ++ opt_bytes (has_stream v st) (put_u8 sfl ++ enc_str sn ++ put_u64 sid)
      ++ put_u64 mid ++ seq_bytes v ms ++ put_u32 ts
      ++ opt_bytes (IsSet st SettingTopic) (enc_str tp) ++ pl
  | FRecvack _ mid ms => put_u64 mid ++ seq_bytes v ms
  | FPing _ | FPong _ => []
  | FDisconnect _ rc rs => put_u8 rc ++ enc_str rs
  | FSub _ st ct ac sn cid pm =>
      put_u8 st ++ enc_str sn ++ enc_str cid ++ put_u8 ct ++ put_u8 ac ++ enc_str pm
  | FSuback _ ct ac rc sn cid => enc_str sn ++ enc_str cid ++ put_u8 ct ++ put_u8 ac ++ put_u8 rc
  | FEvent _ ts id ty dt => enc_str id ++ enc_str ty ++ put_u64 ts ++ dt
  end.

Ltac split_ok H :=
  repeat match type of H with
         | (_ && _ = true) =>
           let H' := fresh "Hok" in apply andb_prop in H; destruct H as [H H']
         end.

(* ---- A: encodeBody writes body_bytes ------------------------------------------------- *)

Lemma if_W' (c : bool) a : (if c then W a else W []) = W (opt_bytes c a).
Proof. destruct c; reflexivity. Qed.

Ltac enc_norm :=
  repeat rewrite WriteString_ok by assumption;
  repeat rewrite encodeMessageSeq_ok by assumption;
  repeat rewrite wrap32_small by assumption;
  unfold WriteUint8, WriteUint32, WriteUint64, WriteBytes, WriteInt16;
  repeat rewrite wseq_W; repeat rewrite if_W'; repeat rewrite wseq_W.

Lemma encodeBody_ok v f : fields_ok v f = true -> encodeBody f v = W (body_bytes f v).
Proof.
  intro H. destruct f; cbn [fields_ok] in H; split_ok H; cbn [encodeBody body_bytes].
  - unfold encodeConnect. enc_norm. reflexivity.
  - unfold encodeConnack. enc_norm. reflexivity.
  - unfold encodeSend. enc_norm. reflexivity.
  - unfold encodeSendack. enc_norm.
    destruct (blen clientMsgNo =? 0); cbn [negb opt_bytes]; enc_norm; reflexivity.
  - unfold encodeRecv. enc_norm. reflexivity.
  - unfold encodeRecvack. enc_norm. reflexivity.
  - reflexivity.
  - reflexivity.
  - unfold encodeDisConnect. enc_norm. reflexivity.
  - unfold encodeSub. enc_norm. reflexivity.
  - unfold encodeSuback. enc_norm. reflexivity.
  - unfold encodeEvent. enc_norm. reflexivity.
Qed.

(* ---- C: the size precomputation is the length of the body ------------------------------ *)

Lemma blen_opt_bytes c b : blen (opt_bytes c b) = if c then blen b else 0.
Proof. destruct c; reflexivity. Qed.

Ltac blen_norm :=
  repeat first [ rewrite blen_app | rewrite blen_opt_bytes | rewrite blen_put_u8 | rewrite blen_put_u32
               | rewrite blen_put_u64 | rewrite blen_enc_str | rewrite blen_seq_bytes | rewrite blen_nil ].

Ltac unfold_sizes :=
  unfold SettingByteSize, StringFixLenByteSize, ClientSeqByteSize, ChannelTypeByteSize, VersionByteSize,
    DeviceFlagByteSize, ClientTimestampByteSize, TimeDiffByteSize, ReasonCodeByteSize, MessageIDByteSize,
    MessageSeqLegacyByteSize, MessageSeqU64ByteSize, TimestampByteSize, BigTimestampByteSize, ActionByteSize,
    StreamIdByteSize, StreamFlagByteSize, ExpireByteSize, NodeIdByteSize in *.

Ltac clr := repeat match goal with H : _ = true |- _ => clear H end.

Lemma body_size_ok v f : fields_ok v f = true ->
  fst (encodedFrameBodySize f v) = blen (body_bytes f v)
  /\ (is_pingpong f = false -> snd (encodedFrameBodySize f v) = true).
Proof.
  intro H. destruct f; cbn [fields_ok] in H; split_ok H;
    cbn [encodedFrameBodySize body_bytes]; unfold is_pingpong; cbn [frame_type].
  - split; [|reflexivity]. cbn [fst]. unfold encodeConnectSize. blen_norm. unfold_sizes. clr. lia.
  - split; [|reflexivity]. cbn [fst]. unfold encodeConnackSize. blen_norm. unfold_sizes. clr.
    destruct (f_hsv fl), (4 <=? v); lia.
  - assert (P : (PayloadMaxSize <? blen payload) = false) by (match goal with Hp : (blen payload <=? PayloadMaxSize) = true |- _ => clear - Hp; lia end). rewrite P.
    split; [|reflexivity]. cbn [fst]. unfold encodeSendSize. blen_norm. unfold_sizes. clr.
    destruct (has_stream v setting), (3 <=? v), (IsSet setting SettingTopic); lia.
  - split; [|reflexivity]. cbn [fst]. unfold encodeSendackSize, messageSeqSize. blen_norm.
    unfold messageSeqSize. unfold_sizes. clr.
    destruct (blen clientMsgNo =? 0), (v <=? LegacyMessageSeqVersion); cbn [negb]; lia.
  - split; [|reflexivity]. cbn [fst]. unfold encodeRecvSize. blen_norm. unfold messageSeqSize. unfold_sizes. clr.
    destruct (has_stream v setting), (3 <=? v), (IsSet setting SettingTopic), (v <=? LegacyMessageSeqVersion); lia.
  - split; [|reflexivity]. cbn [fst]. unfold encodeRecvackSize. blen_norm. unfold messageSeqSize. unfold_sizes. clr.
    destruct (v <=? LegacyMessageSeqVersion); lia.
  - split; [reflexivity|]. vm_compute. discriminate.
  - split; [reflexivity|]. vm_compute. discriminate.
  - split; [|reflexivity]. cbn [fst]. unfold encodeDisConnectSize. blen_norm. unfold_sizes. clr. lia.
  - split; [|reflexivity]. cbn [fst]. unfold encodeSubSize. blen_norm. unfold_sizes. clr. lia.
  - split; [|reflexivity]. cbn [fst]. unfold encodeSubackSize. blen_norm. unfold_sizes. clr. lia.
  - split; [|reflexivity]. cbn [fst]. unfold encodeEventSize. blen_norm. unfold_sizes. clr. lia.
Qed.

(* every body is at least three bytes: encodeVariable2 0 = [] is unreachable *)
Lemma body_nonzero v f : is_pingpong f = false -> snd (encodedFrameBodySize f v) = true ->
  3 <= fst (encodedFrameBodySize f v).
Proof.
  destruct f; unfold is_pingpong; cbn [frame_type encodedFrameBodySize]; intros NP OK;
    try (vm_compute in NP; discriminate).
  - cbn [fst]. unfold encodeConnectSize. unfold_sizes. clr. lia.
  - cbn [fst]. unfold encodeConnackSize. unfold_sizes. clr. lia.
  - destruct (PayloadMaxSize <? blen payload); [discriminate|]. cbn [fst]. unfold encodeSendSize. unfold_sizes. clr. lia.
  - cbn [fst]. unfold encodeSendackSize, messageSeqSize. unfold_sizes. destruct (v <=? LegacyMessageSeqVersion); lia.
  - cbn [fst]. unfold encodeRecvSize. unfold_sizes. clr. lia.
  - cbn [fst]. unfold encodeRecvackSize, messageSeqSize. unfold_sizes. destruct (v <=? LegacyMessageSeqVersion); lia.
  - cbn [fst]. unfold encodeDisConnectSize. unfold_sizes. clr. lia.
  - cbn [fst]. unfold encodeSubSize. unfold_sizes. clr. lia.
  - cbn [fst]. unfold encodeSubackSize. unfold_sizes. clr. lia.
  - cbn [fst]. unfold encodeEventSize. unfold_sizes. clr. lia.
Qed.

(* ---- B: decodeX reads body_bytes back ---------------------------------------------------- *)

Definition set_flags (f : frame) (fl' : flags) : frame :=
  match f with
  | FConnect _ a b c d e g h => FConnect fl' a b c d e g h
  | FConnack _ a b c d e g => FConnack fl' a b c d e g
  | FSend _ a b c d e g h i j k => FSend fl' a b c d e g h i j k
  | FSendack _ a b c d e => FSendack fl' a b c d e
  | FRecv _ a b c d e g h i j k l m n o p q => FRecv fl' a b c d e g h i j k l m n o p q
  | FRecvack _ a b => FRecvack fl' a b
  | FPing _ => FPing fl'
  | FPong _ => FPong fl'
  | FDisconnect _ a b => FDisconnect fl' a b
  | FSub _ a b c d e g => FSub fl' a b c d e g
  | FSuback _ a b c d e => FSuback fl' a b c d e
  | FEvent _ a b c d => FEvent fl' a b c d
  end.

Ltac dstep :=
  first [ rewrite dUint8_put by assumption
        | rewrite dUint32_put by assumption
        | rewrite dUint64_put by assumption
        | rewrite dString_enc by assumption
        | rewrite decodeMessageSeq_bytes by assumption ];
  cbv beta iota.

Lemma decodeConnect_rt v fl fl' ver dfl ts ck did uid tok :
  fields_ok v (FConnect fl ver dfl ts ck did uid tok) = true ->
  decodeConnect fl' (body_bytes (FConnect fl ver dfl ts ck did uid tok) v) v
  = Some (FConnect fl' ver dfl ts ck did uid tok).
Proof.
  intro H. cbn [fields_ok] in H. split_ok H. cbn [body_bytes].
  rewrite <- (app_nil_r (enc_str ck)). unfold decodeConnect. repeat dstep. reflexivity.
Qed.

Lemma decodeConnack_rt v fl fl' sv td rc nid sk salt :
  fields_ok v (FConnack fl sv td rc nid sk salt) = true -> f_hsv fl' = f_hsv fl ->
  decodeConnack fl' (body_bytes (FConnack fl sv td rc nid sk salt) v) v
  = Some (FConnack fl' (if f_hsv fl then sv else 0) td rc (if 4 <=? v then nid else 0) sk salt).
Proof.
  intros H E. cbn [fields_ok] in H. split_ok H. cbn [body_bytes].
  unfold decodeConnack. rewrite E.
  destruct (f_hsv fl); destruct (4 <=? v); cbn [opt_bytes app].
  - rewrite <- (app_nil_r (put_u64 nid)). repeat dstep. reflexivity.
  - repeat dstep. reflexivity.
  - rewrite <- (app_nil_r (put_u64 nid)). repeat dstep. reflexivity.
  - repeat dstep. reflexivity.
Qed.

Lemma decodeSend_rt v fl fl' st ex cs ct mk cmn sn cid tp pl :
  fields_ok v (FSend fl st ex cs ct mk cmn sn cid tp pl) = true ->
  decodeSend fl' (body_bytes (FSend fl st ex cs ct mk cmn sn cid tp pl) v) v
  = Some (FSend fl' st (if 3 <=? v then ex else 0) cs ct mk cmn (if has_stream v st then sn else [])
                cid (if IsSet st SettingTopic then tp else []) pl).
Proof.
  intro H. cbn [fields_ok] in H. split_ok H. cbn [body_bytes].
  unfold decodeSend. dstep. dstep. dstep.
  destruct (has_stream v st); destruct (3 <=? v); destruct (IsSet st SettingTopic);
    cbn [opt_bytes app]; repeat dstep; unfold dBinaryAll; cbv beta iota; reflexivity.
Qed.

Lemma decodeRecv_rt v fl fl' st ex mid ms sid sfl ts ct cs mk cmn sn cid tp fu pl :
  fields_ok v (FRecv fl st ex mid ms sid sfl ts ct cs mk cmn sn cid tp fu pl) = true ->
  decodeRecv fl' (body_bytes (FRecv fl st ex mid ms sid sfl ts ct cs mk cmn sn cid tp fu pl) v) v
  = Some (FRecv fl' st (if 3 <=? v then ex else 0) mid ms
            (if has_stream v st then sid else 0) (if has_stream v st then sfl else 0) ts ct 0
            mk cmn (if has_stream v st then sn else []) cid (if IsSet st SettingTopic then tp else []) fu pl).
Proof.
  intro H. cbn [fields_ok] in H. split_ok H. cbn [body_bytes].
  unfold decodeRecv. dstep. dstep. dstep. dstep. dstep.
  destruct (has_stream v st); destruct (3 <=? v); destruct (IsSet st SettingTopic);
    cbn [opt_bytes app]; rewrite <- ?app_assoc; repeat dstep; unfold dBinaryAll; cbv beta iota; reflexivity.
Qed.

Lemma decodeRecvack_rt v fl fl' mid ms :
  fields_ok v (FRecvack fl mid ms) = true ->
  decodeRecvack fl' (body_bytes (FRecvack fl mid ms) v) v = Some (FRecvack fl' mid ms).
Proof.
  intro H. cbn [fields_ok] in H. split_ok H. cbn [body_bytes].
  rewrite <- (app_nil_r (seq_bytes v ms)). unfold decodeRecvack. repeat dstep. reflexivity.
Qed.

Lemma decodeDisConnect_rt v fl fl' rc rs :
  fields_ok v (FDisconnect fl rc rs) = true ->
  decodeDisConnect fl' (body_bytes (FDisconnect fl rc rs) v) v = Some (FDisconnect fl' rc rs).
Proof.
  intro H. cbn [fields_ok] in H. split_ok H. cbn [body_bytes].
  rewrite <- (app_nil_r (enc_str rs)). unfold decodeDisConnect. repeat dstep. reflexivity.
Qed.

Lemma decodeSub_rt v fl fl' st ct ac sn cid pm :
  fields_ok v (FSub fl st ct ac sn cid pm) = true ->
  decodeSub fl' (body_bytes (FSub fl st ct ac sn cid pm) v) v = Some (FSub fl' st ct ac sn cid pm).
Proof.
  intro H. cbn [fields_ok] in H. split_ok H. cbn [body_bytes].
  rewrite <- (app_nil_r (enc_str pm)). unfold decodeSub. repeat dstep. reflexivity.
Qed.

Lemma decodeSuback_rt v fl fl' ct ac rc sn cid :
  fields_ok v (FSuback fl ct ac rc sn cid) = true ->
  decodeSuback fl' (body_bytes (FSuback fl ct ac rc sn cid) v) v = Some (FSuback fl' ct ac rc sn cid).
Proof.
  intro H. cbn [fields_ok] in H. split_ok H. cbn [body_bytes].
  rewrite <- (app_nil_r (put_u8 rc)). unfold decodeSuback. repeat dstep. reflexivity.
Qed.

Lemma decodeEvent_rt v fl fl' ts id ty dt :
  fields_ok v (FEvent fl ts id ty dt) = true ->
  decodeEvent fl' (body_bytes (FEvent fl ts id ty dt) v) v = Some (FEvent fl' ts id ty dt).
Proof.
  intro H. cbn [fields_ok] in H. split_ok H. cbn [body_bytes].
  unfold decodeEvent. repeat dstep. reflexivity.
Qed.

Lemma decodeSendack_rt v fl fl' mid ms cs rc cmn :
  fields_ok v (FSendack fl mid ms cs rc cmn) = true ->
  decodeSendack fl' (body_bytes (FSendack fl mid ms cs rc cmn) v) v = Some (FSendack fl' mid ms cs rc cmn).
Proof.
  intro H. cbn [fields_ok] in H. split_ok H. cbn [body_bytes].
  unfold decodeSendack. dstep. dstep. unfold dBinaryAll. cbv beta iota.
  unfold decodeSendackBody, decodeSendackBodyCoreFirst.
  destruct (blen cmn =? 0) eqn:Z; cbn [negb opt_bytes].
  - apply N.eqb_eq in Z. apply blen_zero_nil in Z. subst cmn.
    dstep. rewrite dUint8_put by assumption. cbv beta iota. reflexivity.
  - dstep. rewrite dUint8_put by assumption. cbv beta iota.
    assert (P : (0 <? blen (enc_str cmn)) = true) by (rewrite blen_enc_str; lia). rewrite P.
    rewrite <- (app_nil_r (enc_str cmn)). rewrite dString_enc by assumption. cbv beta iota.
    reflexivity.
Qed.

(* all types at once: the decoder registered for the frame type, run with the
   flags that survive the header, returns the normalized frame *)
Lemma pdm_connect : packetDecodeMap CONNECT = Some decodeConnect. Proof. reflexivity. Qed.
Lemma pdm_connack : packetDecodeMap CONNACK = Some decodeConnack. Proof. reflexivity. Qed.
Lemma pdm_send : packetDecodeMap SEND = Some decodeSend. Proof. reflexivity. Qed.
Lemma pdm_sendack : packetDecodeMap SENDACK = Some decodeSendack. Proof. reflexivity. Qed.
Lemma pdm_recv : packetDecodeMap RECV = Some decodeRecv. Proof. reflexivity. Qed.
Lemma pdm_recvack : packetDecodeMap RECVACK = Some decodeRecvack. Proof. reflexivity. Qed.
Lemma pdm_disconnect : packetDecodeMap DISCONNECT = Some decodeDisConnect. Proof. reflexivity. Qed.
Lemma pdm_sub : packetDecodeMap SUB = Some decodeSub. Proof. reflexivity. Qed.
Lemma pdm_suback : packetDecodeMap SUBACK = Some decodeSuback. Proof. reflexivity. Qed.
Lemma pdm_event : packetDecodeMap EVENT = Some decodeEvent. Proof. reflexivity. Qed.
Lemma pdm_ping : packetDecodeMap PING = None. Proof. reflexivity. Qed.
Lemma pdm_pong : packetDecodeMap PONG = None. Proof. reflexivity. Qed.

Lemma decode_body_rt v f dec : fields_ok v f = true ->
  packetDecodeMap (frame_type f) = Some dec ->
  dec (normalize_flags (frame_type f) (frame_flags f)) (body_bytes f v) v = Some (normalize v f).
Proof.
  intros H D. destruct f; cbn [frame_type] in D;
    rewrite ?pdm_connect, ?pdm_connack, ?pdm_send, ?pdm_sendack, ?pdm_recv, ?pdm_recvack, ?pdm_disconnect,
            ?pdm_sub, ?pdm_suback, ?pdm_event, ?pdm_ping, ?pdm_pong in D;
    try discriminate; inversion D; subst dec; clear D;
    cbn [frame_type frame_flags normalize].
  - apply decodeConnect_rt. exact H.
  - apply decodeConnack_rt; [exact H|]. reflexivity.
  - apply decodeSend_rt. exact H.
  - apply decodeSendack_rt. exact H.
  - apply decodeRecv_rt. exact H.
  - apply decodeRecvack_rt. exact H.
  - apply decodeDisConnect_rt. exact H.
  - apply decodeSub_rt. exact H.
  - apply decodeSuback_rt. exact H.
  - apply decodeEvent_rt. exact H.
Qed.

Lemma packetDecodeMap_some f : is_pingpong f = false -> exists dec, packetDecodeMap (frame_type f) = Some dec.
Proof.
  destruct f; intro NP; try (vm_compute in NP; discriminate); cbn [frame_type]; vm_compute; eexists; reflexivity.
Qed.
