(* Proof/WKProto_types.v — per frame type: the body written by encodeX is the
   explicit byte string [body_bytes], encodeXSize is its length, it is never
   empty, and decodeX reads it back as the normalized frame. *)
From WK Require Import Base.Base Base.Bytes Gen.Consts_C22 Model.WKProto Proof.WKProto.
From Coq Require Import ZifyBool ZifyN ZifyNat.
Open Scope N_scope.

Definition opt_bytes (c : bool) (b : bytes) : bytes := if c then b else [].

(* the body of a frame whose fields are within limits *)
Definition body_bytes (f : frame) (v : N) : bytes :=
  match f with
  | FConnect _ ver dfl ts ck did uid tok =>
      put_u8 ver ++ put_u8 dfl ++ enc_str did ++ enc_str uid ++ enc_str tok ++ put_u64 ts ++ enc_str ck
  | FConnack fl sv td rc nid sk salt =>
      opt_bytes (f_hsv fl) (put_u8 sv) ++ put_u64 td ++ put_u8 rc ++ enc_str sk ++ enc_str salt
      ++ opt_bytes (4 <=? v) (put_u64 nid)
  | FSend _ st ex cs ct mk cmn sn cid tp pl =>
      put_u8 st ++ put_u32 cs ++ enc_str cmn ++ opt_bytes (has_stream v st) (enc_str sn)
      ++ enc_str cid ++ put_u8 ct ++ opt_bytes (3 <=? v) (put_u32 ex) ++ enc_str mk
      ++ opt_bytes (IsSet st SettingTopic) (enc_str tp) ++ pl
  | FSendack _ mid ms cs rc cmn =>
      put_u64 mid ++ put_u32 cs ++ seq_bytes v ms ++ put_u8 rc
      ++ opt_bytes (negb (blen cmn =? 0)) (enc_str cmn)
  | FRecv _ st ex mid ms sid sfl ts ct _ mk cmn sn cid tp fu pl =>
      put_u8 st ++ enc_str mk ++ enc_str fu ++ enc_str cid ++ put_u8 ct
      ++ opt_bytes (3 <=? v) (put_u32 ex) ++ enc_str cmn
      ++ opt_bytes (has_stream v st) (put_u8 sfl ++ enc_str sn ++ put_u64 sid)
      ++ put_u64 mid ++ seq_bytes v ms ++ put_u32 ts
      ++ opt_bytes (IsSet st SettingTopic) (enc_str tp) ++ pl
  | FRecvack _ mid ms => put_u64 mid ++ seq_bytes v ms
  | FPing _ | FPong _ => []
  | FDisconnect _ rc rs => put_u8 rc ++ enc_str rs
  | FSub _ st ct ac sn cid pm =>
      put_u8 st ++ enc_str sn ++ enc_str cid ++ put_u8 ct ++ put_u8 ac ++ enc_str pm
  | FSuback _ ct ac rc sn cid => enc_str sn ++ enc_str cid ++ put_u8 ct ++ put_u8 ac ++ put_u8 rc
  | FEvent _ ts id ty dt => enc_str id ++ enc_str ty ++ put_u64 ts ++ dt
  end.

Ltac split_ok H :=
  repeat match type of H with
         | (_ && _ = true) =>
           let H' := fresh "Hok" in apply andb_prop in H; destruct H as [H H']
         end.

(* ---- A: encodeBody writes body_bytes ------------------------------------------------- *)

Lemma if_W' (c : bool) a : (if c then W a else W []) = W (opt_bytes c a).
Proof. destruct c; reflexivity. Qed.

Ltac enc_norm :=
  repeat rewrite WriteString_ok by assumption;
  repeat rewrite encodeMessageSeq_ok by assumption;
  repeat rewrite wrap32_small by assumption;
  unfold WriteUint8, WriteUint32, WriteUint64, WriteBytes, WriteInt16;
  repeat rewrite wseq_W; repeat rewrite if_W'; repeat rewrite wseq_W.

Lemma encodeBody_ok v f : fields_ok v f = true -> encodeBody f v = W (body_bytes f v).
Proof.
  intro H. destruct f; cbn [fields_ok] in H; split_ok H; cbn [encodeBody body_bytes].
  - unfold encodeConnect. enc_norm. reflexivity.
  - unfold encodeConnack. enc_norm. reflexivity.
  - unfold encodeSend. enc_norm. reflexivity.
  - unfold encodeSendack. enc_norm.
    destruct (blen clientMsgNo =? 0); cbn [negb opt_bytes]; enc_norm; reflexivity.
  - unfold encodeRecv. enc_norm. reflexivity.
  - unfold encodeRecvack. enc_norm. reflexivity.
  - reflexivity.
  - reflexivity.
  - unfold encodeDisConnect. enc_norm. reflexivity.
  - unfold encodeSub. enc_norm. reflexivity.
  - unfold encodeSuback. enc_norm. reflexivity.
  - unfold encodeEvent. enc_norm. reflexivity.
Qed.

