(* Proof/Archive_binding.v — C38, part 2: the digest chain binds every object of an archive.
   Two repositories that both hold a consistent archive [id] and whose top-level manifests
   have the same digest agree on every object the archive reaches — or a collision of the
   hash [H] is exhibited.  Corollaries: any single change / deletion / size lie / swap of
   reachable objects makes VerifyPublishedArchive fail, or exhibits a collision. *)
From WK Require Import Base.Base Gen.Consts_C38 Model.Archive Proof.Archive.
Open Scope N_scope.

Section Binding.
  Variable body : Type.
  Variable blen : body -> N.
  Variable H : body -> bytes.
  Variable unz : body -> option (N * bytes).
  Variable json_archive : body -> option archive_manifest.
  Variable json_slot : body -> option slot_manifest.
  Variable json_marker : body -> option complete_marker.
  Variable canon_archive : archive_manifest -> body -> bool.
  Variable canon_slot : slot_manifest -> body -> bool.
  Variable canon_marker : complete_marker -> body -> bool.
  Variable enc_marker : complete_marker -> body.
  (* bodies can be compared (bytes.Equal) *)
  Variable body_eq_dec : forall a b : body, {a = b} + {a <> b}.
  (* the canonical-form check pins the bytes: canonical means "is the encoding" *)
  Hypothesis canon_marker_enc : forall k kb, canon_marker k kb = true -> kb = enc_marker k.

  Local Notation store := (store body).
  Local Notation get := (get body).
  Local Notation put := (put body).
  Local Notation del := (del body).
  Local Notation honest := (honest_object body blen).
  Local Notation load_archive := (load_archive_manifest body json_archive canon_archive).
  Local Notation load_slot := (load_slot_manifest body json_slot canon_slot).
  Local Notation verify := (verify_published_archive body blen H unz json_archive json_slot json_marker
                              canon_archive canon_slot canon_marker).
  Local Notation chunk_ok := (chunk_consistentb body blen H unz).
  Local Notation slot_ok := (slot_consistentb body blen H unz json_slot canon_slot).
  Local Notation consistent := (consistentb body blen H unz json_archive json_slot json_marker
                                  canon_archive canon_slot canon_marker).

  (* an explicit collision of the hash *)
  Definition collision : Prop := exists b1 b2 : body, b1 <> b2 /\ H b1 = H b2.

  (* ---- the objects an archive reaches -------------------------------------------------- *)
  Definition slot_keys (st : store) (id : bytes) (r : slot_ref) : list bytes :=
    (root_of id ++ sr_key r)
    :: match get st (root_of id ++ sr_key r) with
       | Some (b, _) => match load_slot b with
                        | Ok sm => map (fun c => root_of id ++ cr_key c) (sm_chunks sm)
                        | Err _ => []
                        end
       | None => []
       end.
  Definition reachable (st : store) (id : bytes) (m : archive_manifest) : list bytes :=
    manifest_key id :: complete_key id :: flat_map (slot_keys st id) (am_slots m).

  (* ---- chunks ---------------------------------------------------------------------------- *)
  Lemma chunks_bound st st' root : forall cs,
    forallb (chunk_ok st root) cs = true -> forallb (chunk_ok st' root) cs = true ->
    collision \/ (forall c, In c cs -> get st (root ++ cr_key c) = get st' (root ++ cr_key c)).
  Proof.
    induction cs as [|c rest IH]; intros C1 C2; [right; intros c []|].
    cbn [forallb] in C1, C2. apply andb_true_iff in C1. apply andb_true_iff in C2.
    destruct C1 as [C1 R1]. destruct C2 as [C2 R2].
    destruct (IH R1 R2) as [Hc|Heq]; [left; exact Hc|].
    unfold chunk_consistentb in C1, C2.
    destruct (get st (root ++ cr_key c)) as [[b sz]|] eqn:G1; [|discriminate].
    destruct (get st' (root ++ cr_key c)) as [[b' sz']|] eqn:G2; [|discriminate].
    split_andb. eqb_hyps.
    destruct (body_eq_dec b b') as [Eb|Nb].
    - right. intros c0 [E|Hin]; [subst c0; rewrite G1, G2; subst b'; congruence|apply Heq; exact Hin].
    - left. exists b, b'. split; [exact Nb|congruence].
  Qed.

  (* ---- one slot ---------------------------------------------------------------------------- *)
  Lemma slot_bound st st' id i r :
    slot_ok st id i r = true -> slot_ok st' id i r = true ->
    collision \/ (forall k, In k (slot_keys st id r) -> get st k = get st' k).
  Proof.
    unfold slot_consistentb, slot_keys. intros C1 C2.
    apply andb_true_iff in C1. destruct C1 as [_ C1]. apply andb_true_iff in C2. destruct C2 as [_ C2].
    destruct (honest st (root_of id ++ sr_key r) maxStoredManifestBytes) as [b|] eqn:H1; [|discriminate].
    destruct (honest st' (root_of id ++ sr_key r) maxStoredManifestBytes) as [b'|] eqn:H2; [|discriminate].
    apply honest_get in H1. destruct H1 as (G1 & _). apply honest_get in H2. destruct H2 as (G2 & _).
    rewrite G1.
    destruct (load_slot b) as [sm|e] eqn:L1; [|discriminate].
    destruct (load_slot b') as [sm'|e] eqn:L2; [|discriminate].
    split_andb. eqb_hyps.
    destruct (body_eq_dec b b') as [Eb|Nb].
    - subst b'. rewrite L1 in L2. inversion L2; subst sm'.
      match goal with Hc1 : forallb (chunk_ok st _) _ = true, Hc2 : forallb (chunk_ok st' _) _ = true |- _ =>
        destruct (chunks_bound st st' (root_of id) (sm_chunks sm) Hc1 Hc2) as [Hc|Heq] end; [left; exact Hc|].
      right. intros k [E|Hin].
      + subst k. rewrite G1, G2. reflexivity.
      + apply in_map_iff in Hin. destruct Hin as (c & E & Hin). subst k. apply Heq. exact Hin.
    - left. exists b, b'. split; [exact Nb|congruence].
  Qed.

  Lemma slots_bound st st' id : forall slots i,
    forallb_idx (slot_ok st id) i slots = true -> forallb_idx (slot_ok st' id) i slots = true ->
    collision \/ (forall k, In k (flat_map (slot_keys st id) slots) -> get st k = get st' k).
  Proof.
    induction slots as [|r rest IH]; intros i C1 C2; [right; intros k []|].
    cbn [forallb_idx] in C1, C2. apply andb_true_iff in C1. apply andb_true_iff in C2.
    destruct C1 as [C1 R1]. destruct C2 as [C2 R2].
    destruct (IH _ R1 R2) as [Hc|Heq]; [left; exact Hc|].
    destruct (slot_bound st st' id i r C1 C2) as [Hc|Heq1]; [left; exact Hc|].
    right. intros k Hin. cbn [flat_map] in Hin. apply in_app_iff in Hin.
    destruct Hin as [Hin|Hin]; [apply Heq1; exact Hin|apply Heq; exact Hin].
  Qed.

  (* ---- what consistency says about the two top-level objects ---------------------------- *)
  Lemma consistent_top st id m : consistent st id m = true ->
    exists mb kb, get st (manifest_key id) = Some (mb, blen mb)
                  /\ get st (complete_key id) = Some (kb, blen kb)
                  /\ load_archive mb = Ok m
                  /\ kb = enc_marker (CM CompleteMarkerFormat CompleteMarkerVersion (H mb) (blen mb))
                  /\ forallb_idx (slot_ok st id) 0 (am_slots m) = true.
  Proof.
    unfold consistentb. intro C.
    destruct (negb (bytes_eqb id [])); [|discriminate]. cbn [andb] in C.
    destruct (get st (corrupt_key id)); [discriminate|]. cbn [andb] in C.
    destruct (honest st (manifest_key id) maxStoredManifestBytes) as [mb|] eqn:Hm; [|discriminate].
    destruct (honest st (complete_key id) maxStoredManifestBytes) as [kb|] eqn:Hk; [|discriminate].
    destruct (load_archive mb) as [m'|e] eqn:La; [|discriminate].
    destruct (json_marker kb) as [k|] eqn:Jk; [|discriminate].
    split_andb.
    match goal with Ha : archive_manifest_eqb _ _ = true |- _ => apply archive_manifest_eqb_eq in Ha; subst m' end.
    apply honest_get in Hm. destruct Hm as (Gm & _). apply honest_get in Hk. destruct Hk as (Gk & _).
    exists mb, kb. repeat split; try assumption.
    destruct (validate_complete_marker k) eqn:Vk; [discriminate|].
    match goal with Ha : canon_marker k kb = true |- _ => apply canon_marker_enc in Ha; rewrite Ha end.
    f_equal. unfold validate_complete_marker in Vk.
    destruct (negb (bytes_eqb (cm_format k) CompleteMarkerFormat) || negb (cm_version k =? CompleteMarkerVersion)
              || (cm_bytes k =? 0)) eqn:E; [discriminate|].
    apply orb_false_iff in E. destruct E as [E _]. apply orb_false_iff in E. destruct E as [E1 E2].
    apply negb_false_true in E1. apply negb_false_true in E2. eqb_hyps.
    destruct k as [f v s n]. cbn [cm_format cm_version cm_sha cm_bytes] in *. subst. reflexivity.
  Qed.

  (* ---- the binding theorem ------------------------------------------------------------------ *)
  Theorem archives_bound st st' id m m' mb mb' sz sz' :
    consistent st id m = true -> consistent st' id m' = true ->
    get st (manifest_key id) = Some (mb, sz) -> get st' (manifest_key id) = Some (mb', sz') ->
    H mb = H mb' ->
    collision \/ (m = m' /\ forall k, In k (reachable st id m) -> get st k = get st' k).
  Proof.
    intros C1 C2 G1 G2 Hh.
    destruct (consistent_top st id m C1) as (b1 & k1 & Gm1 & Gk1 & L1 & Ek1 & S1).
    destruct (consistent_top st' id m' C2) as (b2 & k2 & Gm2 & Gk2 & L2 & Ek2 & S2).
    rewrite Gm1 in G1. inversion G1; subst b1 sz. rewrite Gm2 in G2. inversion G2; subst b2 sz'.
    destruct (body_eq_dec mb mb') as [Eb|Nb]; [|left; exists mb, mb'; split; assumption].
    subst mb'. rewrite L1 in L2. inversion L2; subst m'.
    destruct (slots_bound st st' id (am_slots m) 0 S1 S2) as [Hc|Heq]; [left; exact Hc|].
    right. split; [reflexivity|].
    intros k [E|[E|Hin]].
    - subst k. rewrite Gm1, Gm2. reflexivity.
    - subst k. rewrite Gk1, Gk2, Ek1, Ek2. reflexivity.
    - apply Heq. exact Hin.
  Qed.

  (* ---- keys ---------------------------------------------------------------------------------- *)
  Lemma manifest_key_neq_complete_key id : manifest_key id <> complete_key id.
  Proof.
    unfold manifest_key, complete_key. intro E. apply app_inv_head in E.
    vm_compute in E. discriminate.
  Qed.

  (* ---- corollaries about VerifyPublishedArchive ---------------------------------------------- *)

  (* any other repository that still verifies, shares the manifest OR the COMPLETE marker
     with the verified one, and differs on a reachable object exhibits a collision *)
  Theorem mutation_detected st st' id m :
    verify st id = Ok m ->
    (get st' (manifest_key id) = get st (manifest_key id) \/ get st' (complete_key id) = get st (complete_key id)) ->
    (exists k, In k (reachable st id m) /\ get st' k <> get st k) ->
    (exists e, verify st' id = Err e) \/ collision.
  Proof.
    intros V Hshare (k & Hin & Hne).
    destruct (verify st' id) as [m'|e] eqn:V'; [|left; exists e; reflexivity].
    right. apply verify_sound in V. apply verify_sound in V'.
    destruct (consistent_top st id m V) as (mb & kb & Gm & Gk & L & Ek & S).
    destruct (consistent_top st' id m' V') as (mb' & kb' & Gm' & Gk' & L' & Ek' & S').
    assert (Hh : H mb = H mb' \/ collision).
    { destruct Hshare as [Em|Ec].
      - rewrite Gm, Gm' in Em. inversion Em. left. reflexivity.
      - rewrite Gk, Gk' in Ec. inversion Ec as [[Ekb _]].
        (* the same marker names the digest of both manifests *)
        unfold consistentb in V, V'.
        destruct (body_eq_dec mb mb') as [E|N]; [left; congruence|].
        (* recover the digests from the marker body through consistency *)
        clear S S'.
        assert (Hk : forall st0 m0 mb0 kb0, consistent st0 id m0 = true ->
                       get st0 (manifest_key id) = Some (mb0, blen mb0) ->
                       get st0 (complete_key id) = Some (kb0, blen kb0) ->
                       exists k0, json_marker kb0 = Some k0 /\ cm_sha k0 = H mb0).
        { intros st0 m0 mb0 kb0 C G1 G2. unfold consistentb in C.
          destruct (negb (bytes_eqb id [])); [|discriminate]. cbn [andb] in C.
          destruct (get st0 (corrupt_key id)); [discriminate|]. cbn [andb] in C.
          unfold honest_object in C. rewrite G1, G2 in C.
          destruct ((blen mb0 =? blen mb0) && (0 <? blen mb0) && (blen mb0 <=? maxStoredManifestBytes)); [|discriminate].
          destruct ((blen kb0 =? blen kb0) && (0 <? blen kb0) && (blen kb0 <=? maxStoredManifestBytes)); [|discriminate].
          destruct (load_archive mb0); [|discriminate].
          destruct (json_marker kb0) as [k0|]; [|discriminate].
          split_andb. eqb_hyps. exists k0. split; [reflexivity|assumption]. }
        destruct (Hk st m mb kb) as (k1 & J1 & S1); [unfold consistentb; exact V|exact Gm|exact Gk|].
        destruct (Hk st' m' mb' kb') as (k2 & J2 & S2); [unfold consistentb; exact V'|exact Gm'|exact Gk'|].
        assert (k1 = k2) by congruence. subst k2. left. congruence. }
    destruct Hh as [Hh|Hc]; [|exact Hc].
    destruct (archives_bound st st' id m m' mb mb' (blen mb) (blen mb') V V' Gm Gm' Hh) as [Hc|[_ Heq]]; [exact Hc|].
    exfalso. apply Hne. symmetry. apply Heq. exact Hin.
  Qed.

  (* one stored object replaced (contents and/or reported size) *)
  Corollary single_put_detected st id m k b sz b' sz' :
    verify st id = Ok m -> In k (reachable st id m) ->
    get st k = Some (b, sz) -> (b', sz') <> (b, sz) ->
    (exists e, verify (put k b' sz' st) id = Err e) \/ collision.
  Proof.
    intros V Hin G Hne.
    apply (mutation_detected st (put k b' sz' st) id m V).
    - destruct (list_eq_dec N.eq_dec k (manifest_key id)) as [E|N].
      + right. subst k. apply get_put_other. apply manifest_key_neq_complete_key.
      + left. apply get_put_other. exact N.
    - exists k. split; [exact Hin|]. rewrite get_put_same, G. intro E. inversion E. apply Hne. congruence.
  Qed.

  (* one stored object removed *)
  Corollary delete_detected st id m k :
    verify st id = Ok m -> In k (reachable st id m) -> get st k <> None ->
    (exists e, verify (del k st) id = Err e) \/ collision.
  Proof.
    intros V Hin G.
    apply (mutation_detected st (del k st) id m V).
    - destruct (list_eq_dec N.eq_dec k (manifest_key id)) as [E|N].
      + right. subst k. apply get_del_other. apply manifest_key_neq_complete_key.
      + left. apply get_del_other. exact N.
    - exists k. split; [exact Hin|]. rewrite get_del_same. intro E. apply G. symmetry. exact E.
  Qed.

  (* two stored objects exchanged (reordering of chunks / manifests) *)
  Corollary swap_detected st id m k1 k2 b1 s1 b2 s2 :
    verify st id = Ok m -> In k1 (reachable st id m) ->
    k1 <> manifest_key id -> k2 <> manifest_key id -> k1 <> k2 ->
    get st k1 = Some (b1, s1) -> get st k2 = Some (b2, s2) -> (b1, s1) <> (b2, s2) ->
    (exists e, verify (put k1 b2 s2 (put k2 b1 s1 st)) id = Err e) \/ collision.
  Proof.
    intros V Hin N1 N2 N12 G1 G2 Hne.
    apply (mutation_detected st _ id m V).
    - left. rewrite get_put_other by exact N1. apply get_put_other. exact N2.
    - exists k1. split; [exact Hin|]. rewrite get_put_same, G1. intro E. inversion E. apply Hne. congruence.
  Qed.
End Binding.
