(* Proof/QuorumLog_C04.v — admission / fencing lemmas about the owner model
   (Model/QuorumLog.v Install and Commit) for property C04.  Every statement
   quantifies over an arbitrary network [n] (arbitrary replica contents, down set
   and fault plan), i.e. over every outcome of recovery, repair, barrier and
   durability rounds. *)
From WK Require Import Base.Base.
From WK Require Import Model.ReplicaLog Model.QuorumLog Model.Cluster Model.Monitor_C04.
Open Scope N_scope.

(* ---- authority identifiers -------------------------------------------------------------- *)

Lemma authid_eqb_eq (a b : authid) : authid_eqb a b = true <-> a = b.
Proof.
  destruct a as [[e t] f], b as [[e' t'] f']. unfold authid_eqb, aid_e, aid_t, aid_f. cbn [fst snd].
  rewrite !andb_true_iff, !N.eqb_eq. split.
  - intros [[-> ->] ->]. reflexivity.
  - intros H. inversion H. auto.
Qed.

Lemma authid_eqb_refl (a : authid) : authid_eqb a a = true.
Proof. apply authid_eqb_eq. reflexivity. Qed.

Lemma authid_eqb_neq (a b : authid) : authid_eqb a b = false <-> a <> b.
Proof.
  split.
  - intros H E. apply authid_eqb_eq in E. congruence.
  - intros H. destruct (authid_eqb a b) eqn:E; [apply authid_eqb_eq in E; contradiction | reflexivity].
Qed.

(* the order of compareAuthorityID, as a proposition over the three components *)
Definition aid_lt (a b : authid) : Prop :=
  aid_e a < aid_e b \/ (aid_e a = aid_e b /\ (aid_t a < aid_t b \/ (aid_t a = aid_t b /\ aid_f a < aid_f b))).
Definition aid_le (a b : authid) : Prop := aid_lt a b \/ a = b.

Lemma compare_Lt (a b : authid) : compareAuthorityID a b = Lt <-> aid_lt a b.
Proof.
  unfold compareAuthorityID, aid_lt.
  destruct (N.compare_spec (aid_e a) (aid_e b)); destruct (N.compare_spec (aid_t a) (aid_t b));
    destruct (N.compare_spec (aid_f a) (aid_f b)); split; intros; try discriminate; try reflexivity; try lia.
Qed.

Lemma compare_Eq (a b : authid) : compareAuthorityID a b = Eq <-> a = b.
Proof.
  unfold compareAuthorityID.
  destruct a as [[e t] f], b as [[e' t'] f']. unfold aid_e, aid_t, aid_f. cbn [fst snd].
  destruct (N.compare_spec e e'); destruct (N.compare_spec t t'); destruct (N.compare_spec f f');
    split; intros H2; try discriminate; try reflexivity; subst; try reflexivity;
    inversion H2; subst; lia.
Qed.

Lemma compare_Gt (a b : authid) : compareAuthorityID a b = Gt <-> aid_lt b a.
Proof.
  unfold compareAuthorityID, aid_lt.
  destruct (N.compare_spec (aid_e a) (aid_e b)); destruct (N.compare_spec (aid_t a) (aid_t b));
    destruct (N.compare_spec (aid_f a) (aid_f b)); split; intros; try discriminate; try reflexivity; try lia.
Qed.

Lemma aid_lt_irrefl a : ~ aid_lt a a.
Proof. unfold aid_lt. lia. Qed.

Lemma aid_lt_trans a b c : aid_lt a b -> aid_lt b c -> aid_lt a c.
Proof. unfold aid_lt. lia. Qed.

Lemma aid_le_refl a : aid_le a a.
Proof. right. reflexivity. Qed.

Lemma aid_le_trans a b c : aid_le a b -> aid_le b c -> aid_le a c.
Proof.
  intros [H1 | ->] [H2 | ->]; unfold aid_le; auto.
  left. eapply aid_lt_trans; eauto.
Qed.

Lemma aid_le_not_lt a b : aid_le a b -> ~ aid_lt b a.
Proof.
  intros [H | ->] H2; [| exact (aid_lt_irrefl _ H2)].
  exact (aid_lt_irrefl _ (aid_lt_trans _ _ _ H H2)).
Qed.

Lemma aid_le_antisym a b : aid_le a b -> aid_le b a -> a = b.
Proof.
  intros [H1 | ->] H2; [| reflexivity].
  exfalso. exact (aid_le_not_lt _ _ H2 H1).
Qed.

Lemma authid_ltb_spec a b : authid_ltb a b = true <-> aid_lt a b.
Proof.
  unfold authid_ltb. destruct (compareAuthorityID a b) eqn:E.
  - split; [discriminate|]. intro H. apply compare_Eq in E. subst. exfalso. exact (aid_lt_irrefl _ H).
  - apply compare_Lt in E. tauto.
  - split; [discriminate|]. intro H. apply compare_Gt in E. exfalso.
    exact (aid_lt_irrefl _ (aid_lt_trans _ _ _ H E)).
Qed.

(* the generated probes of the real compareAuthorityID agree with the lexicographic order *)
Lemma compare_probes_match_code :
  compareAuthorityID (2, 2, 2) (3, 1, 1) = Lt /\ cmp_epoch_lt_term_gt = (-1)%Z /\
  compareAuthorityID (2, 2, 2) (2, 3, 1) = Lt /\ cmp_term_lt_fence_gt = (-1)%Z /\
  compareAuthorityID (2, 2, 2) (2, 2, 1) = Gt /\ cmp_fence_gt = 1%Z /\
  compareAuthorityID (2, 2, 2) (2, 2, 2) = Eq /\ cmp_equal = 0%Z.
Proof. repeat split; reflexivity. Qed.

(* order on the installed authority of an owner; None (zero authority) is the bottom *)
Definition auth_le (x y : option authority) : Prop :=
  match x, y with
  | None, _ => True
  | Some a, Some b => aid_le (a_id a) (a_id b)
  | Some _, None => False
  end.

Lemma auth_le_refl x : auth_le x x.
Proof. destruct x; cbn; [apply aid_le_refl | exact I]. Qed.

(* ---- the owner invariant ------------------------------------------------------------------ *)

(* ready owners hold an unfenced authority; pending / retained work exists only on
   ready owners, and every retained receipt was issued under the current authority *)
Definition owner_inv (st : qchannel) : Prop :=
  (qc_ready st = true -> exists a, qc_auth st = Some a /\ a_wf a = false) /\
  (qc_pending st <> None -> qc_ready st = true) /\
  (forall c r, get_retained (qc_retained st) c = Some r ->
     qc_ready st = true /\ exists a, qc_auth st = Some a /\ rc_auth (rt_receipt r) = a_id a).

Lemma owner_inv_empty : owner_inv qchannel_empty.
Proof.
  repeat split; cbn; intros; try discriminate; try congruence.
Qed.

Lemma owner_inv_fence a : owner_inv (fenceQuorumChannel a).
Proof. repeat split; cbn; intros; try discriminate; congruence. Qed.

(* ---- Install ----------------------------------------------------------------------------------- *)

Inductive install_base (st : qchannel) (a : authority) : qchannel -> Prop :=
| IB_same cur : qc_auth st = Some cur -> a_id a = a_id cur -> sameAuthority a cur = true -> qc_ready st = false ->
    install_base st a st
| IB_higher cur : qc_auth st = Some cur -> aid_lt (a_id cur) (a_id a) -> install_base st a (fenceQuorumChannel a)
| IB_first : qc_auth st = None -> install_base st a (fenceQuorumChannel a).

(* every way Install can end *)
Inductive install_shape (st : qchannel) (a : authority) (n : net) : net -> qchannel -> install_result -> Prop :=
| IS_invalid : install_shape st a n n st (IErr EInvalid)
| IS_stale cur : qc_auth st = Some cur -> aid_lt (a_id a) (a_id cur) -> install_shape st a n n st (IErr EStale)
| IS_conflict cur : qc_auth st = Some cur -> a_id a = a_id cur -> sameAuthority a cur = false ->
    install_shape st a n n st (IErr EConflict)
| IS_fenced_same cur : qc_auth st = Some cur -> a_id a = a_id cur -> sameAuthority a cur = true -> a_wf a = true ->
    install_shape st a n n st (IErr EFenced)
| IS_idempotent cur : qc_auth st = Some cur -> a_id a = a_id cur -> sameAuthority a cur = true -> a_wf a = false ->
    qc_ready st = true ->
    install_shape st a n n st (IOk (a_id cur) (rs_leo (qc_frontier st)) (qc_hw st))
(* from here on the channel runs under st1 = st (same authority, not ready) or the fenced channel *)
| IS_fenced_new st1 : install_base st a st1 -> a_wf a = true -> install_shape st a n n st1 (IErr EFenced)
| IS_failed st1 n' e : install_base st a st1 -> a_wf a = false -> install_shape st a n n' st1 (IErr e)
| IS_ok st1 n' fr : install_base st a st1 -> a_wf a = false ->
    install_shape st a n n' (QChan (qc_auth st1) fr (rs_leo fr) true None [] []) (IOk (a_id a) (rs_leo fr) (rs_leo fr)).

Lemma Install_shape cfg n st local a n' st' r :
  Install cfg n st local a = (n', st', r) -> install_shape st a n n' st' r.
Proof.
  unfold Install. intro H.
  destruct (negb (validAuthority a) || (cf_maxvoters <? lenN (a_voters a)) || negb (a_leader a =? local)) eqn:Hv.
  { inversion H; subst. constructor. }
  (* admission prefix *)
  assert (Hadm :
    forall st1, install_base st a st1 ->
      (if a_wf a then (n, st1, IErr EFenced)
       else match recoverQuorumPrefix n local (a_voters a) (a_q a) with
            | inl e => (n, st1, IErr e)
            | inr sel =>
                match repairQuorumPrefix n local (a_voters a) (a_q a) sel (cf_pagebytes cfg) with
                | (n1, inl e) => (n1, st1, IErr e)
                | (n1, inr recovered) =>
                    if negb (rstate_is_zero recovered) && negb (frontierUsesAuthority recovered (a_id a))
                    then match writeCurrentTermBarrier n1 a recovered (cf_rot cfg) with
                         | (n2, inl e) => (n2, st1, IErr e)
                         | (n2, inr bs) =>
                             (n2, QChan (qc_auth st1) bs (rs_leo bs) true None [] [], IOk (a_id a) (rs_leo bs) (rs_leo bs))
                         end
                    else (n1, QChan (qc_auth st1) recovered (rs_leo recovered) true None [] [],
                          IOk (a_id a) (rs_leo recovered) (rs_leo recovered))
                end
            end) = (n', st', r) -> install_shape st a n n' st' r).
  { intros st1 Hb Ht. destruct (a_wf a) eqn:Hwf.
    - inversion Ht; subst. eapply IS_fenced_new; eauto.
    - destruct (recoverQuorumPrefix n local (a_voters a) (a_q a)) as [e | sel].
      + inversion Ht; subst. eapply IS_failed; eauto.
      + destruct (repairQuorumPrefix n local (a_voters a) (a_q a) sel (cf_pagebytes cfg)) as [n1 [e | recovered]].
        * inversion Ht; subst. eapply IS_failed; eauto.
        * destruct (negb (rstate_is_zero recovered) && negb (frontierUsesAuthority recovered (a_id a))).
          -- destruct (writeCurrentTermBarrier n1 a recovered (cf_rot cfg)) as [n2 [e | bs]].
             ++ inversion Ht; subst. eapply IS_failed; eauto.
             ++ inversion Ht; subst. eapply IS_ok; eauto.
          -- inversion Ht; subst. eapply IS_ok; eauto. }
  destruct (qc_auth st) as [cur |] eqn:Hauth.
  - destruct (compareAuthorityID (a_id a) (a_id cur)) eqn:Hc.
    + apply compare_Eq in Hc.
      destruct (sameAuthority a cur) eqn:Hs; cbn [negb] in H.
      * destruct (a_wf a) eqn:Hwf.
        -- inversion H; subst. eapply IS_fenced_same; eauto.
        -- destruct (qc_ready st) eqn:Hr.
           ++ inversion H; subst. eapply IS_idempotent; eauto.
           ++ apply (Hadm st); [eapply IB_same; eauto|]. rewrite Hwf. exact H.
      * inversion H; subst. eapply IS_conflict; eauto.
    + apply compare_Lt in Hc. inversion H; subst. eapply IS_stale; eauto.
    + apply compare_Gt in Hc. apply (Hadm (fenceQuorumChannel a)); [eapply IB_higher; eauto|]. exact H.
  - apply (Hadm (fenceQuorumChannel a)); [eapply IB_first; eauto|]. exact H.
Qed.

Lemma sameAuthority_wf a b : sameAuthority a b = true -> a_wf a = a_wf b.
Proof.
  unfold sameAuthority. rewrite !andb_true_iff. intros [[[[_ _] _] H] _].
  apply Bool.eqb_prop in H. exact H.
Qed.

Lemma install_base_auth st a st1 :
  install_base st a st1 -> exists b, qc_auth st1 = Some b /\ a_id b = a_id a /\ a_wf b = a_wf a /\
                                     auth_le (qc_auth st) (qc_auth st1) /\ qc_ready st1 = false /\
                                     (owner_inv st -> owner_inv st1).
Proof.
  intros H. destruct H as [cur Ha Hid Hs Hr | cur Ha Hlt | Ha].
  - exists cur. repeat split; auto.
    + symmetry. apply sameAuthority_wf. exact Hs.
    + rewrite Ha. cbn. apply aid_le_refl.
  - exists a. cbn. repeat split; auto.
    + rewrite Ha. cbn. left. exact Hlt.
    + intros _. apply owner_inv_fence.
  - exists a. cbn. repeat split; auto.
    + rewrite Ha. exact I.
    + intros _. apply owner_inv_fence.
Qed.

(* the installed authority of an owner never decreases *)
Lemma Install_authority_monotone cfg n st local a n' st' r :
  Install cfg n st local a = (n', st', r) -> auth_le (qc_auth st) (qc_auth st').
Proof.
  intro H. apply Install_shape in H.
  destruct H; try apply auth_le_refl;
    match goal with Hb : install_base _ _ _ |- _ => destruct (install_base_auth _ _ _ Hb) as (b & Hb1 & _ & _ & Hle & _) end;
    try exact Hle.
Qed.

(* an older authority is refused and nothing changes: neither the owner nor any replica *)
Lemma Install_older_rejected cfg n st local a cur n' st' r :
  qc_auth st = Some cur -> aid_lt (a_id a) (a_id cur) ->
  Install cfg n st local a = (n', st', r) ->
  n' = n /\ st' = st /\ (r = IErr EStale \/ r = IErr EInvalid).
Proof.
  intros Ha Hlt H. apply Install_shape in H.
  destruct H as [ | cur' Ha' _ | cur' Ha' Hid _ | cur' Ha' Hid _ _ | cur' Ha' Hid _ _ _ | st1 Hb _ | st1 n' e Hb _ | st1 n' fr Hb _];
    auto;
    try (rewrite Ha in Ha'; inversion Ha'; subst cur'; rewrite Hid in Hlt; exfalso; exact (aid_lt_irrefl _ Hlt)).
  all: exfalso; destruct Hb as [cur' Ha' Hid _ _ | cur' Ha' Hlt' | Ha'];
    rewrite Ha in Ha'; try discriminate; inversion Ha'; subst cur'.
  all: try (rewrite Hid in Hlt; exact (aid_lt_irrefl _ Hlt)).
  all: exact (aid_lt_irrefl _ (aid_lt_trans _ _ _ Hlt Hlt')).
Qed.

(* a successful Install answers the requested authority, which carries no fence and is
   not older than the previous one; the owner is then ready under exactly that authority *)
Lemma Install_ok cfg n st local a n' st' x leo hw :
  Install cfg n st local a = (n', st', IOk x leo hw) ->
  x = a_id a /\ a_wf a = false /\ qc_ready st' = true /\
  (exists b, qc_auth st' = Some b /\ a_id b = a_id a /\ a_wf b = false) /\
  (forall cur, qc_auth st = Some cur -> aid_le (a_id cur) (a_id a)).
Proof.
  intro H. apply Install_shape in H. inversion H; subst.
  - (* idempotent *)
    repeat split; auto.
    + exists cur. repeat split; auto. rewrite <- (sameAuthority_wf _ _ H6). assumption.
    + intros c Hc. rewrite H4 in Hc. inversion Hc; subst. rewrite H5. apply aid_le_refl.
  - destruct (install_base_auth _ _ _ H4) as (b & Hb1 & Hb2 & Hb3 & Hle & _ & _).
    repeat split; auto.
    + exists b. cbn. repeat split; auto. congruence.
    + intros c Hc. rewrite Hc, Hb1 in Hle. cbn in Hle. rewrite Hb2 in Hle. exact Hle.
Qed.

(* a fenced authority is never installed *)
Lemma Install_fenced_fails cfg n st local a n' st' r :
  a_wf a = true -> Install cfg n st local a = (n', st', r) -> exists e, r = IErr e /\ n' = n.
Proof.
  intros Hwf H. apply Install_shape in H. inversion H; subst; try congruence; eauto.
Qed.

(* a failed Install leaves the owner not ready whenever it changed it, and in every case a
   ready owner after Install is ready under an authority with the requested id or was untouched *)
Lemma Install_preserves_inv cfg n st local a n' st' r :
  owner_inv st -> Install cfg n st local a = (n', st', r) -> owner_inv st'.
Proof.
  intros Hinv H. apply Install_shape in H.
  destruct H; auto;
    match goal with Hb : install_base _ _ _ |- _ =>
      destruct (install_base_auth _ _ _ Hb) as (b & Hb1 & Hb2 & Hb3 & _ & Hnr & Hk) end; auto.
  (* success *)
  repeat split; cbn; intros; try discriminate; try congruence.
  exists b. split; auto. congruence.
Qed.

(* after a higher (or first) authority reached the admission step, the owner stays fenced
   under it even when recovery fails: not ready, authority = the new one *)
Lemma Install_failed_higher_fences cfg n st local a n' st' e :
  (forall cur, qc_auth st = Some cur -> aid_lt (a_id cur) (a_id a)) ->
  Install cfg n st local a = (n', st', IErr e) ->
  (st' = st /\ n' = n /\ e = EInvalid) \/ (qc_auth st' = Some a /\ qc_ready st' = false).
Proof.
  intros Hhi H. apply Install_shape in H. inversion H; subst; auto.
  1-4: exfalso; match goal with Hq : qc_auth st = Some ?c |- _ => specialize (Hhi _ Hq) end.
  - exact (aid_lt_irrefl _ (aid_lt_trans _ _ _ Hhi H5)).
  - rewrite H5 in Hhi. exact (aid_lt_irrefl _ Hhi).
  - rewrite H5 in Hhi. exact (aid_lt_irrefl _ Hhi).
  - right. destruct H4 as [cur Ha Hid _ _ | cur Ha Hlt | Ha]; cbn; auto.
    exfalso. specialize (Hhi _ Ha). rewrite Hid in Hhi. exact (aid_lt_irrefl _ Hhi).
  - right. destruct H4 as [cur Ha Hid _ _ | cur Ha Hlt | Ha]; cbn; auto.
    exfalso. specialize (Hhi _ Ha). rewrite Hid in Hhi. exact (aid_lt_irrefl _ Hhi).
Qed.
