(* Proof/QuorumLog_C04.v — admission / fencing lemmas about the owner model
   (Model/QuorumLog.v Install and Commit) for property C04.  Every statement
   quantifies over an arbitrary network [n] (arbitrary replica contents, down set
   and fault plan), i.e. over every outcome of recovery, repair, barrier and
   durability rounds. *)
From WK Require Import Base.Base.
From WK Require Import Model.ReplicaLog Model.QuorumLog Model.Cluster Model.Monitor_C04.
Open Scope N_scope.

(* ---- authority identifiers -------------------------------------------------------------- *)

Lemma authid_eqb_eq (a b : authid) : authid_eqb a b = true <-> a = b.
Proof.
  destruct a as [[e t] f], b as [[e' t'] f']. unfold authid_eqb, aid_e, aid_t, aid_f. cbn [fst snd].
  rewrite !andb_true_iff, !N.eqb_eq. split.
  - intros [[-> ->] ->]. reflexivity.
  - intros H. inversion H. auto.
Qed.

Lemma authid_eqb_refl (a : authid) : authid_eqb a a = true.
Proof. apply authid_eqb_eq. reflexivity. Qed.

Lemma authid_eqb_neq (a b : authid) : authid_eqb a b = false <-> a <> b.
Proof.
  split.
  - intros H E. apply authid_eqb_eq in E. congruence.
  - intros H. destruct (authid_eqb a b) eqn:E; [apply authid_eqb_eq in E; contradiction | reflexivity].
Qed.

(* the order of compareAuthorityID, as a proposition over the three components *)
Definition aid_lt (a b : authid) : Prop :=
  aid_e a < aid_e b \/ (aid_e a = aid_e b /\ (aid_t a < aid_t b \/ (aid_t a = aid_t b /\ aid_f a < aid_f b))).
Definition aid_le (a b : authid) : Prop := aid_lt a b \/ a = b.

Lemma compare_Lt (a b : authid) : compareAuthorityID a b = Lt <-> aid_lt a b.
Proof.
  unfold compareAuthorityID, aid_lt.
  destruct (N.compare_spec (aid_e a) (aid_e b)); destruct (N.compare_spec (aid_t a) (aid_t b));
    destruct (N.compare_spec (aid_f a) (aid_f b)); split; intros; try discriminate; try reflexivity; try lia.
Qed.

Lemma compare_Eq (a b : authid) : compareAuthorityID a b = Eq <-> a = b.
Proof.
  unfold compareAuthorityID.
  destruct a as [[e t] f], b as [[e' t'] f']. unfold aid_e, aid_t, aid_f. cbn [fst snd].
  destruct (N.compare_spec e e'); destruct (N.compare_spec t t'); destruct (N.compare_spec f f');
    split; intros H2; try discriminate; try reflexivity; subst; try reflexivity;
    inversion H2; subst; lia.
Qed.

Lemma compare_Gt (a b : authid) : compareAuthorityID a b = Gt <-> aid_lt b a.
Proof.
  unfold compareAuthorityID, aid_lt.
  destruct (N.compare_spec (aid_e a) (aid_e b)); destruct (N.compare_spec (aid_t a) (aid_t b));
    destruct (N.compare_spec (aid_f a) (aid_f b)); split; intros; try discriminate; try reflexivity; try lia.
Qed.

Lemma aid_lt_irrefl a : ~ aid_lt a a.
Proof. unfold aid_lt. lia. Qed.

Lemma aid_lt_trans a b c : aid_lt a b -> aid_lt b c -> aid_lt a c.
Proof. unfold aid_lt. lia. Qed.

Lemma aid_le_refl a : aid_le a a.
Proof. right. reflexivity. Qed.

Lemma aid_le_trans a b c : aid_le a b -> aid_le b c -> aid_le a c.
Proof.
  intros [H1 | ->] [H2 | ->]; unfold aid_le; auto.
  left. eapply aid_lt_trans; eauto.
Qed.

Lemma aid_le_not_lt a b : aid_le a b -> ~ aid_lt b a.
Proof.
  intros [H | ->] H2; [| exact (aid_lt_irrefl _ H2)].
  exact (aid_lt_irrefl _ (aid_lt_trans _ _ _ H H2)).
Qed.

Lemma aid_le_antisym a b : aid_le a b -> aid_le b a -> a = b.
Proof.
  intros [H1 | ->] H2; [| reflexivity].
  exfalso. exact (aid_le_not_lt _ _ H2 H1).
Qed.

Lemma authid_ltb_spec a b : authid_ltb a b = true <-> aid_lt a b.
Proof.
  unfold authid_ltb. destruct (compareAuthorityID a b) eqn:E.
  - split; [discriminate|]. intro H. apply compare_Eq in E. subst. exfalso. exact (aid_lt_irrefl _ H).
  - apply compare_Lt in E. tauto.
  - split; [discriminate|]. intro H. apply compare_Gt in E. exfalso.
    exact (aid_lt_irrefl _ (aid_lt_trans _ _ _ H E)).
Qed.

(* the generated probes of the real compareAuthorityID agree with the lexicographic order *)
Lemma compare_probes_match_code :
  compareAuthorityID (2, 2, 2) (3, 1, 1) = Lt /\ cmp_epoch_lt_term_gt = (-1)%Z /\
  compareAuthorityID (2, 2, 2) (2, 3, 1) = Lt /\ cmp_term_lt_fence_gt = (-1)%Z /\
  compareAuthorityID (2, 2, 2) (2, 2, 1) = Gt /\ cmp_fence_gt = 1%Z /\
  compareAuthorityID (2, 2, 2) (2, 2, 2) = Eq /\ cmp_equal = 0%Z.
Proof. repeat split; reflexivity. Qed.

(* order on the installed authority of an owner; None (zero authority) is the bottom *)
Definition auth_le (x y : option authority) : Prop :=
  match x, y with
  | None, _ => True
  | Some a, Some b => aid_le (a_id a) (a_id b)
  | Some _, None => False
  end.

Lemma auth_le_refl x : auth_le x x.
Proof. destruct x; cbn; [apply aid_le_refl | exact I]. Qed.

(* ---- the owner invariant ------------------------------------------------------------------ *)

(* ready owners hold an unfenced authority; pending / retained work exists only on
   ready owners, and every retained receipt was issued under the current authority *)
Definition owner_inv (st : qchannel) : Prop :=
  (qc_ready st = true -> exists a, qc_auth st = Some a /\ a_wf a = false) /\
  (qc_pending st <> None -> qc_ready st = true) /\
  (qc_retained st <> [] -> qc_ready st = true) /\
  (forall a, qc_auth st = Some a ->
     Forall (fun p => rc_auth (rt_receipt (snd p)) = a_id a) (qc_retained st)).

Lemma owner_inv_empty : owner_inv qchannel_empty.
Proof.
  split; [|split; [|split]]; cbn; intros; try discriminate; try congruence; constructor.
Qed.

Lemma owner_inv_fence a : owner_inv (fenceQuorumChannel a).
Proof.
  split; [|split; [|split]]; cbn; intros; try discriminate; try congruence; constructor.
Qed.

(* ---- Install ----------------------------------------------------------------------------------- *)

Inductive install_base (st : qchannel) (a : authority) : qchannel -> Prop :=
| IB_same cur : qc_auth st = Some cur -> a_id a = a_id cur -> sameAuthority a cur = true -> qc_ready st = false ->
    install_base st a st
| IB_higher cur : qc_auth st = Some cur -> aid_lt (a_id cur) (a_id a) -> install_base st a (fenceQuorumChannel a)
| IB_first : qc_auth st = None -> install_base st a (fenceQuorumChannel a).

(* every way Install can end *)
Inductive install_shape (st : qchannel) (a : authority) (n : net) : net -> qchannel -> install_result -> Prop :=
| IS_invalid : install_shape st a n n st (IErr EInvalid)
| IS_stale cur : qc_auth st = Some cur -> aid_lt (a_id a) (a_id cur) -> install_shape st a n n st (IErr EStale)
| IS_conflict cur : qc_auth st = Some cur -> a_id a = a_id cur -> sameAuthority a cur = false ->
    install_shape st a n n st (IErr EConflict)
| IS_fenced_same cur : qc_auth st = Some cur -> a_id a = a_id cur -> sameAuthority a cur = true -> a_wf a = true ->
    install_shape st a n n st (IErr EFenced)
| IS_idempotent cur : qc_auth st = Some cur -> a_id a = a_id cur -> sameAuthority a cur = true -> a_wf a = false ->
    qc_ready st = true ->
    install_shape st a n n st (IOk (a_id cur) (rs_leo (qc_frontier st)) (qc_hw st))
(* from here on the channel runs under st1 = st (same authority, not ready) or the fenced channel *)
| IS_fenced_new st1 : install_base st a st1 -> a_wf a = true -> install_shape st a n n st1 (IErr EFenced)
| IS_failed st1 n' e : install_base st a st1 -> a_wf a = false -> install_shape st a n n' st1 (IErr e)
| IS_ok st1 n' fr : install_base st a st1 -> a_wf a = false ->
    install_shape st a n n' (QChan (qc_auth st1) fr (rs_leo fr) true None [] []) (IOk (a_id a) (rs_leo fr) (rs_leo fr)).

Lemma Install_shape cfg n st local a n' st' r :
  Install cfg n st local a = (n', st', r) -> install_shape st a n n' st' r.
Proof.
  unfold Install. intro H.
  destruct (negb (validAuthority a) || (cf_maxvoters <? lenN (a_voters a)) || negb (a_leader a =? local)) eqn:Hv.
  { inversion H; subst. constructor. }
  (* admission prefix *)
  assert (Hadm :
    forall st1, install_base st a st1 ->
      (if a_wf a then (n, st1, IErr EFenced)
       else match recoverQuorumPrefix n local (a_voters a) (a_q a) with
            | inl e => (n, st1, IErr e)
            | inr sel =>
                match repairQuorumPrefix n local (a_voters a) (a_q a) sel (cf_pagebytes cfg) with
                | (n1, inl e) => (n1, st1, IErr e)
                | (n1, inr recovered) =>
                    if negb (rstate_is_zero recovered) && negb (frontierUsesAuthority recovered (a_id a))
                    then match writeCurrentTermBarrier n1 a recovered (cf_rot cfg) with
                         | (n2, inl e) => (n2, st1, IErr e)
                         | (n2, inr bs) =>
                             (n2, QChan (qc_auth st1) bs (rs_leo bs) true None [] [], IOk (a_id a) (rs_leo bs) (rs_leo bs))
                         end
                    else (n1, QChan (qc_auth st1) recovered (rs_leo recovered) true None [] [],
                          IOk (a_id a) (rs_leo recovered) (rs_leo recovered))
                end
            end) = (n', st', r) -> install_shape st a n n' st' r).
  { intros st1 Hb Ht. destruct (a_wf a) eqn:Hwf.
    - inversion Ht; subst. eapply IS_fenced_new; eauto.
    - destruct (recoverQuorumPrefix n local (a_voters a) (a_q a)) as [e | sel].
      + inversion Ht; subst. eapply IS_failed; eauto.
      + destruct (repairQuorumPrefix n local (a_voters a) (a_q a) sel (cf_pagebytes cfg)) as [n1 [e | recovered]].
        * inversion Ht; subst. eapply IS_failed; eauto.
        * destruct (negb (rstate_is_zero recovered) && negb (frontierUsesAuthority recovered (a_id a))).
          -- destruct (writeCurrentTermBarrier n1 a recovered (cf_rot cfg)) as [n2 [e | bs]].
             ++ inversion Ht; subst. eapply IS_failed; eauto.
             ++ inversion Ht; subst. eapply IS_ok; eauto.
          -- inversion Ht; subst. eapply IS_ok; eauto. }
  destruct (qc_auth st) as [cur |] eqn:Hauth.
  - destruct (compareAuthorityID (a_id a) (a_id cur)) eqn:Hc.
    + apply compare_Eq in Hc.
      destruct (sameAuthority a cur) eqn:Hs; cbn [negb] in H.
      * destruct (a_wf a) eqn:Hwf.
        -- inversion H; subst. eapply IS_fenced_same; eauto.
        -- destruct (qc_ready st) eqn:Hr.
           ++ inversion H; subst. eapply IS_idempotent; eauto.
           ++ apply (Hadm st); [eapply IB_same; eauto|]. exact H.
      * inversion H; subst. eapply IS_conflict; eauto.
    + apply compare_Lt in Hc. inversion H; subst. eapply IS_stale; eauto.
    + apply compare_Gt in Hc. apply (Hadm (fenceQuorumChannel a)); [eapply IB_higher; eauto|]. exact H.
  - apply (Hadm (fenceQuorumChannel a)); [eapply IB_first; eauto|]. exact H.
Qed.

Lemma sameAuthority_wf a b : sameAuthority a b = true -> a_wf a = a_wf b.
Proof.
  unfold sameAuthority. rewrite !andb_true_iff. intros [[[[_ _] _] H] _].
  apply Bool.eqb_prop in H. exact H.
Qed.

Lemma install_base_auth st a st1 :
  install_base st a st1 -> exists b, qc_auth st1 = Some b /\ a_id b = a_id a /\ a_wf b = a_wf a /\
                                     auth_le (qc_auth st) (qc_auth st1) /\ qc_ready st1 = false /\
                                     (owner_inv st -> owner_inv st1).
Proof.
  intros H. destruct H as [cur Ha Hid Hs Hr | cur Ha Hlt | Ha].
  - exists cur. split; [exact Ha|]. split; [auto|].
    split; [symmetry; apply sameAuthority_wf; exact Hs|].
    split; [rewrite Ha; cbn; apply aid_le_refl|]. split; [exact Hr|]. auto.
  - exists a. cbn. split; [reflexivity|]. split; [reflexivity|]. split; [reflexivity|].
    split; [rewrite Ha; cbn; left; exact Hlt|]. split; [reflexivity|]. intros _. apply owner_inv_fence.
  - exists a. cbn. split; [reflexivity|]. split; [reflexivity|]. split; [reflexivity|].
    split; [rewrite Ha; exact I|]. split; [reflexivity|]. intros _. apply owner_inv_fence.
Qed.

(* the installed authority of an owner never decreases *)
Lemma Install_authority_monotone cfg n st local a n' st' r :
  Install cfg n st local a = (n', st', r) -> auth_le (qc_auth st) (qc_auth st').
Proof.
  intro H. apply Install_shape in H.
  destruct H; try apply auth_le_refl;
    match goal with Hb : install_base _ _ _ |- _ => destruct (install_base_auth _ _ _ Hb) as (b & Hb1 & _ & _ & Hle & _) end;
    try exact Hle.
Qed.

(* an older authority is refused and nothing changes: neither the owner nor any replica *)
Lemma Install_older_rejected cfg n st local a cur n' st' r :
  qc_auth st = Some cur -> aid_lt (a_id a) (a_id cur) ->
  Install cfg n st local a = (n', st', r) ->
  n' = n /\ st' = st /\ (r = IErr EStale \/ r = IErr EInvalid).
Proof.
  intros Ha Hlt H. apply Install_shape in H.
  destruct H as [ | cur' Ha' _ | cur' Ha' Hid _ | cur' Ha' Hid _ _ | cur' Ha' Hid _ _ _ | st1 Hb _ | st1 n' e Hb _ | st1 n' fr Hb _];
    auto;
    try (rewrite Ha in Ha'; inversion Ha'; subst cur'; rewrite Hid in Hlt; exfalso; exact (aid_lt_irrefl _ Hlt)).
  all: exfalso; destruct Hb as [cur' Ha' Hid _ _ | cur' Ha' Hlt' | Ha'];
    rewrite Ha in Ha'; try discriminate; inversion Ha'; subst cur'.
  all: try (rewrite Hid in Hlt; exact (aid_lt_irrefl _ Hlt)).
  all: exact (aid_lt_irrefl _ (aid_lt_trans _ _ _ Hlt Hlt')).
Qed.

(* inversion of install_shape by the kind of result *)
Lemma install_shape_ok st a n n' st' x leo hw :
  install_shape st a n n' st' (IOk x leo hw) ->
  (exists cur, qc_auth st = Some cur /\ a_id a = a_id cur /\ sameAuthority a cur = true /\ a_wf a = false /\
               qc_ready st = true /\ st' = st /\ n' = n /\ x = a_id cur) \/
  (exists st1 fr, install_base st a st1 /\ a_wf a = false /\
                  st' = QChan (qc_auth st1) fr (rs_leo fr) true None [] [] /\ x = a_id a).
Proof.
  intro H. remember (IOk x leo hw) as r eqn:Hr.
  destruct H as [ | cur Ha Hlt | cur Ha Hid Hs | cur Ha Hid Hs Hwf | cur Ha Hid Hs Hwf Hrd
                  | st1 Hb Hwf | st1 n' e Hb Hwf | st1 n' fr Hb Hwf]; try discriminate; inversion Hr; subst.
  - left. exists cur. repeat (split; [assumption || reflexivity|]). reflexivity.
  - right. exists st1, fr. repeat (split; [assumption || reflexivity|]). reflexivity.
Qed.

Lemma install_shape_err st a n n' st' e :
  install_shape st a n n' st' (IErr e) ->
  (st' = st /\ n' = n /\
     (e = EInvalid \/
      (exists cur, qc_auth st = Some cur /\ aid_lt (a_id a) (a_id cur) /\ e = EStale) \/
      (exists cur, qc_auth st = Some cur /\ a_id a = a_id cur /\ sameAuthority a cur = false /\ e = EConflict) \/
      (exists cur, qc_auth st = Some cur /\ a_id a = a_id cur /\ sameAuthority a cur = true /\ a_wf a = true /\ e = EFenced))) \/
  (install_base st a st' /\ ((a_wf a = true /\ e = EFenced /\ n' = n) \/ a_wf a = false)).
Proof.
  intro H. remember (IErr e) as r eqn:Hr.
  destruct H as [ | cur Ha Hlt | cur Ha Hid Hs | cur Ha Hid Hs Hwf | cur Ha Hid Hs Hwf Hrd
                  | st1 Hb Hwf | st1 n' e' Hb Hwf | st1 n' fr Hb Hwf]; try discriminate; inversion Hr; subst.
  - left. auto.
  - left. split; [reflexivity|]. split; [reflexivity|]. right. left. exists cur. auto.
  - left. split; [reflexivity|]. split; [reflexivity|]. right. right. left. exists cur. auto.
  - left. split; [reflexivity|]. split; [reflexivity|]. right. right. right. exists cur. auto.
  - right. split; [assumption|]. left. auto.
  - right. split; [assumption|]. right. assumption.
Qed.

(* a successful Install answers the requested authority, which carries no fence and is
   not older than the previous one; the owner is then ready under exactly that authority *)
Lemma Install_ok cfg n st local a n' st' x leo hw :
  Install cfg n st local a = (n', st', IOk x leo hw) ->
  x = a_id a /\ a_wf a = false /\ qc_ready st' = true /\
  (exists b, qc_auth st' = Some b /\ a_id b = a_id a /\ a_wf b = false) /\
  (forall cur, qc_auth st = Some cur -> aid_le (a_id cur) (a_id a)).
Proof.
  intro H. apply Install_shape in H. apply install_shape_ok in H.
  destruct H as [(cur & Ha & Hid & Hs & Hwf & Hrd & -> & -> & ->) | (st1 & fr & Hb & Hwf & -> & ->)].
  - split; [symmetry; exact Hid|]. split; [exact Hwf|]. split; [exact Hrd|]. split.
    + exists cur. split; [exact Ha|]. split; [symmetry; exact Hid|].
      rewrite <- (sameAuthority_wf _ _ Hs). exact Hwf.
    + intros c Hc. rewrite Ha in Hc. inversion Hc; subst. rewrite Hid. apply aid_le_refl.
  - destruct (install_base_auth _ _ _ Hb) as (b & Hb1 & Hb2 & Hb3 & Hle & _ & _).
    split; [reflexivity|]. split; [exact Hwf|]. split; [reflexivity|]. split.
    + exists b. cbn. split; [exact Hb1|]. split; [exact Hb2|]. congruence.
    + intros c Hc. rewrite Hc, Hb1 in Hle. cbn in Hle. rewrite Hb2 in Hle. exact Hle.
Qed.

(* a fenced authority is never installed, and the attempt touches no replica *)
Lemma Install_fenced_fails cfg n st local a n' st' r :
  a_wf a = true -> Install cfg n st local a = (n', st', r) -> exists e, r = IErr e /\ n' = n.
Proof.
  intros Hwf H. apply Install_shape in H. destruct r as [e | x leo hw].
  - exists e. split; [reflexivity|]. apply install_shape_err in H.
    destruct H as [(_ & Hn & _) | (_ & [(_ & _ & Hn) | Hf])]; auto. congruence.
  - exfalso. apply install_shape_ok in H.
    destruct H as [(cur & _ & _ & _ & Hf & _) | (st1 & fr & _ & Hf & _)]; congruence.
Qed.

Lemma Install_preserves_inv cfg n st local a n' st' r :
  owner_inv st -> Install cfg n st local a = (n', st', r) -> owner_inv st'.
Proof.
  intros Hinv H. apply Install_shape in H. destruct r as [e | x leo hw].
  - apply install_shape_err in H. destruct H as [(-> & _) | (Hb & _)]; [exact Hinv|].
    destruct (install_base_auth _ _ _ Hb) as (b & _ & _ & _ & _ & _ & Hk). auto.
  - apply install_shape_ok in H.
    destruct H as [(cur & _ & _ & _ & _ & _ & -> & _) | (st1 & fr & Hb & Hwf & -> & _)]; [exact Hinv|].
    destruct (install_base_auth _ _ _ Hb) as (b & Hb1 & Hb2 & Hb3 & _ & _ & _).
    split; [|split; [|split]]; cbn; intros; try discriminate; try congruence; try constructor.
    exists b. split; [exact Hb1|]. congruence.
Qed.

(* after a higher (or first) authority reached the admission step, the owner stays fenced
   under it even when recovery, repair or the barrier fails: not ready, authority = the new one *)
Lemma Install_failed_higher_fences cfg n st local a n' st' e :
  (forall cur, qc_auth st = Some cur -> aid_lt (a_id cur) (a_id a)) ->
  Install cfg n st local a = (n', st', IErr e) ->
  (st' = st /\ n' = n /\ e = EInvalid) \/ (qc_auth st' = Some a /\ qc_ready st' = false).
Proof.
  intros Hhi H. apply Install_shape in H. apply install_shape_err in H.
  destruct H as [(-> & -> & [-> | [(cur & Ha & Hlt & _) | [(cur & Ha & Hid & _) | (cur & Ha & Hid & _)]]]) | (Hb & _)].
  - left. auto.
  - exfalso. specialize (Hhi _ Ha). exact (aid_lt_irrefl _ (aid_lt_trans _ _ _ Hhi Hlt)).
  - exfalso. specialize (Hhi _ Ha). rewrite Hid in Hhi. exact (aid_lt_irrefl _ Hhi).
  - exfalso. specialize (Hhi _ Ha). rewrite Hid in Hhi. exact (aid_lt_irrefl _ Hhi).
  - right. destruct Hb as [cur Ha Hid _ _ | cur Ha Hlt | Ha]; cbn; auto.
    exfalso. specialize (Hhi _ Ha). rewrite Hid in Hhi. exact (aid_lt_irrefl _ Hhi).
Qed.

(* ---- Commit ------------------------------------------------------------------------------------- *)

Lemma get_retained_In l c r : get_retained l c = Some r -> exists c', In (c', r) l.
Proof.
  induction l as [|[c' r'] l IH]; cbn; [discriminate|].
  destruct (tag_eqb c c').
  - intro H. inversion H; subst. exists c'. left. reflexivity.
  - intro H. destruct (IH H) as [c'' Hin]. exists c''. right. exact Hin.
Qed.

Lemma Forall_del {P : tag * retained -> Prop} l c : Forall P l -> Forall P (del_retained l c).
Proof.
  unfold del_retained. intro H. induction H; cbn; [constructor|].
  destruct (negb (tag_eqb (fst x) c)); [constructor|]; assumption.
Qed.

(* remember touches only the retained map / order *)
Lemma remember_fields cfg st r :
  qc_auth (remember cfg st r) = qc_auth st /\ qc_ready (remember cfg st r) = qc_ready st /\
  qc_pending (remember cfg st r) = qc_pending st /\ qc_frontier (remember cfg st r) = qc_frontier st /\
  qc_hw (remember cfg st r) = qc_hw st.
Proof.
  unfold remember. destruct (get_retained (qc_retained st) _); cbn.
  - repeat split.
  - destruct (lenN (qc_order st) =? cf_retained cfg); [destruct (qc_order st)|]; cbn; repeat split.
Qed.

Lemma remember_retained (P : tag * retained -> Prop) cfg st r :
  Forall P (qc_retained st) -> P (m_cmd (dp_manifest (rt_prop r)), r) ->
  Forall P (qc_retained (remember cfg st r)).
Proof.
  intros HF HP. unfold remember. destruct (get_retained (qc_retained st) _); cbn.
  - constructor; [exact HP|]. apply Forall_del. exact HF.
  - destruct (lenN (qc_order st) =? cf_retained cfg); [destruct (qc_order st)|]; cbn;
      constructor; try exact HP; try exact HF. apply Forall_del. exact HF.
Qed.

(* agreement of two owner states on everything admission looks at *)
Definition same_admission (st st' : qchannel) : Prop :=
  qc_auth st' = qc_auth st /\ qc_ready st' = qc_ready st.

Lemma same_admission_refl st : same_admission st st.
Proof. split; reflexivity. Qed.

(* the receipts a state can hand out all carry authority [x] *)
Definition retained_auth (x : authid) (st : qchannel) : Prop :=
  Forall (fun p => rc_auth (rt_receipt (snd p)) = x) (qc_retained st).

Lemma finishCommit_facts cfg st a r res st' out :
  finishCommit cfg st a r res = (st', out) ->
  same_admission st st' /\
  (qc_pending st' = None \/ st' = st) /\
  (retained_auth (a_id a) st -> retained_auth (a_id a) st') /\
  (forall rc, out = COk rc -> rc_auth rc = a_id a).
Proof.
  unfold finishCommit.
  destruct (negb (rr_local res) || (rr_votes res <? a_q a) || negb (outcome_durable (rr_outcome res))).
  { intro H. inversion H; subst. split; [apply same_admission_refl|]. split; [right; reflexivity|].
    split; [auto|]. intros rc Hrc. discriminate. }
  destruct (SealProposalManifest (dp_manifest (rt_prop r)) (dp_records (rt_prop r))) as [[m es]|].
  2:{ intro H. inversion H; subst. split; [apply same_admission_refl|]. split; [right; reflexivity|].
      split; [auto|]. intros rc Hrc. discriminate. }
  intro H. inversion H; subst. clear H.
  match goal with |- context[remember cfg ?s ?x] =>
    destruct (remember_fields cfg s x) as (Ha & Hr & Hp & _ & _); set (st1 := s) in *; set (rr := x) in * end.
  split; [split; [rewrite Ha | rewrite Hr]; reflexivity|].
  split; [left; rewrite Hp; reflexivity|].
  split.
  - intro HF. unfold retained_auth. apply remember_retained; [exact HF | reflexivity].
  - intros rc Hrc. inversion Hrc; subst. reflexivity.
Qed.

Lemma retryPending_facts cfg n st a local r n' st' out :
  retryPending cfg n st a local r = (n', st', out) ->
  same_admission st st' /\
  (qc_pending st' = None \/ st' = st) /\
  (retained_auth (a_id a) st -> retained_auth (a_id a) st') /\
  (forall rc, out = COk rc -> rc_auth rc = a_id a).
Proof.
  unfold retryPending.
  destruct (runDurableRound n local (a_voters a) (a_q a) (cf_rot cfg) (rt_prop r)) as [n1 res].
  destruct (negb (rr_ok res)).
  - intro H. inversion H; subst. split; [apply same_admission_refl|]. split; [right; reflexivity|].
    split; [auto|]. intros rc Hrc. discriminate.
  - destruct (finishCommit cfg st a r res) as [st2 out2] eqn:Hf. intro H. inversion H; subst.
    eapply finishCommit_facts. exact Hf.
Qed.

Lemma loadRetainedProposal_auth cfg n st a local c r :
  loadRetainedProposal cfg n st a local c = inr (Some r) -> rc_auth (rt_receipt r) = a_id a.
Proof.
  unfold loadRetainedProposal.
  destruct (lookupCommand (nt_kind n) (net_rep n local) c (cf_maxrecs cfg)) as [e | [[m recs] |]]; try discriminate.
  destruct (negb (StructurallyValid m) || negb (tag_eqb (m_cmd m) c) || (qc_hw st <? m_last m) ||
            negb (m_e m =? aid_e (a_id a)) || negb (m_t m =? aid_t (a_id a)) || negb (m_f m =? aid_f (a_id a)));
    try discriminate.
  destruct (SealProposalManifest m recs) as [[sealed es]|]; try discriminate.
  destruct (negb (manifest_eqb sealed m) || (lenN es =? 0)); try discriminate.
  intro H. inversion H; subst. reflexivity.
Qed.

Lemma reconcile_facts cfg n st a local p st' out :
  reconcileCommandConflict cfg n st a local p = (st', out) ->
  same_admission st st' /\ qc_pending st' = qc_pending st /\
  (retained_auth (a_id a) st -> retained_auth (a_id a) st') /\
  (forall rc, out = COk rc -> rc_auth rc = a_id a).
Proof.
  unfold reconcileCommandConflict.
  destruct (loadRetainedProposal cfg n st a local (pr_cmd p)) as [e | [loaded |]] eqn:Hl.
  - intro H. inversion H; subst. split; [apply same_admission_refl|]. split; [reflexivity|].
    split; [auto|]. intros rc Hrc. discriminate.
  - destruct (negb (sameProposalContent (rt_prop loaded) (pr_records p))).
    + intro H. inversion H; subst. split; [apply same_admission_refl|]. split; [reflexivity|].
      split; [auto|]. intros rc Hrc. discriminate.
    + intro H. inversion H; subst. clear H.
      destruct (remember_fields cfg st loaded) as (Ha & Hr & Hp & _ & _).
      pose proof (loadRetainedProposal_auth _ _ _ _ _ _ _ Hl) as Hau.
      split; [split; assumption|]. split; [exact Hp|]. split.
      * intro HF. unfold retained_auth. apply remember_retained; [exact HF | exact Hau].
      * intros rc Hrc. inversion Hrc; subst. exact Hau.
  - intro H. inversion H; subst. split; [apply same_admission_refl|]. split; [reflexivity|].
    split; [auto|]. intros rc Hrc. discriminate.
Qed.

(* what a commit that is refused at admission looks like *)
Definition commit_rejected (n n' : net) (st st' : qchannel) (r : commit_result) : Prop :=
  n' = n /\ st' = st /\ exists e, r = CErr e.

(* the complete admission analysis of Commit *)
Lemma Commit_admission cfg n st local p n' st' r :
  Commit cfg n st local p = (n', st', r) ->
  (* refused before any state is read or written *)
  (commit_rejected n n' st st' r /\
     (r = CErr EInvalid \/
      ((qc_ready st = false \/ qc_auth st = None) /\ r = CErr ENotReady) \/
      (exists a, qc_auth st = Some a /\ pr_expected p <> a_id a /\ r = CErr EStale) \/
      (exists a, qc_auth st = Some a /\ a_wf a = true /\ r = CErr EFenced)))
  \/
  (* admitted: ready, expected authority = installed authority, no fence *)
  (exists a, qc_ready st = true /\ qc_auth st = Some a /\ pr_expected p = a_id a /\ a_wf a = false /\
     same_admission st st' /\
     (retained_auth (a_id a) st -> retained_auth (a_id a) st' /\ forall rc, r = COk rc -> rc_auth rc = a_id a) /\
     (qc_pending st' <> None -> qc_ready st' = true)).
Proof.
  unfold Commit.
  destruct (authid_eqb (pr_expected p) authid_zero || tag_is_zero (pr_cmd p) || (lenN (pr_records p) =? 0) ||
            (cf_maxrecs cfg <? lenN (pr_records p)) || negb (validProposalRecords (pr_records p))).
  { intro H. inversion H; subst. left. split; [repeat split; eauto|]. left. reflexivity. }
  destruct (qc_ready st) eqn:Hrd; cbn [negb].
  2:{ intro H. inversion H; subst. left. split; [repeat split; eauto|]. right. left. auto. }
  destruct (qc_auth st) as [a|] eqn:Hau.
  2:{ intro H. inversion H; subst. left. split; [repeat split; eauto|]. right. left. auto. }
  destruct (authid_eqb (pr_expected p) (a_id a)) eqn:Hex; cbn [negb].
  2:{ intro H. inversion H; subst. left. split; [repeat split; eauto|]. right. right. left.
      exists a. split; [reflexivity|]. split; [apply authid_eqb_neq; exact Hex | reflexivity]. }
  apply authid_eqb_eq in Hex.
  destruct (a_wf a) eqn:Hwf.
  { intro H. inversion H; subst. left. split; [repeat split; eauto|]. right. right. right. exists a. auto. }
  intro H. right. exists a.
  split; [first [reflexivity | assumption]|]. split; [first [reflexivity | assumption]|]. split; [exact Hex|]. split; [first [reflexivity | assumption]|].
  (* the admitted part: three facts about (st', r) *)
  assert (Hgoal : same_admission st st' /\
     (retained_auth (a_id a) st -> retained_auth (a_id a) st' /\ forall rc, r = COk rc -> rc_auth rc = a_id a) /\
     (qc_pending st' <> None -> qc_ready st' = true)); [| exact Hgoal].
  destruct (get_retained (qc_retained st) (pr_cmd p)) as [rt|] eqn:Hget.
  - destruct (negb (sameProposalContent (rt_prop rt) (pr_records p))).
    { inversion H; subst. split; [apply same_admission_refl|]. split; [|intros _; exact Hrd].
      intro HF. split; [exact HF|]. intros rc Hrc. discriminate. }
    destruct (rt_durable rt).
    { inversion H; subst. split; [apply same_admission_refl|]. split; [|intros _; exact Hrd].
      intro HF. split; [exact HF|]. intros rc Hrc. inversion Hrc; subst.
      destruct (get_retained_In _ _ _ Hget) as [c' Hin].
      unfold retained_auth in HF. rewrite Forall_forall in HF. exact (HF _ Hin). }
    destruct (retryPending_facts _ _ _ _ _ _ _ _ _ H) as (Hs & Hp & Hk & Hrc).
    split; [exact Hs|]. split; [auto|]. intros _. destruct Hs as [_ Hs]. rewrite Hs. exact Hrd.
  - destruct (qc_pending st) as [pend|] eqn:Hpend.
    + destruct (tag_eqb (m_cmd (dp_manifest (rt_prop pend))) (pr_cmd p)).
      * destruct (negb (sameProposalContent (rt_prop pend) (pr_records p))).
        { inversion H; subst. split; [apply same_admission_refl|]. split; [|intros _; exact Hrd].
          intro HF. split; [exact HF|]. intros rc Hrc. discriminate. }
        destruct (retryPending_facts _ _ _ _ _ _ _ _ _ H) as (Hs & Hp & Hk & Hrc).
        split; [exact Hs|]. split; [auto|]. intros _. destruct Hs as [_ Hs]. rewrite Hs. exact Hrd.
      * inversion H; subst. split; [apply same_admission_refl|]. split; [|intros _; exact Hrd].
        intro HF. split; [exact HF|]. intros rc Hrc. discriminate.
    + destruct (sealBusinessProposal a (qc_frontier st) (qc_hw st) (pr_cmd p) (pr_records p) (pr_sa p)) as [d|].
      2:{ inversion H; subst. split; [apply same_admission_refl|]. split; [|intros _; exact Hrd].
          intro HF. split; [exact HF|]. intros rc Hrc. discriminate. }
      destruct (runDurableRound n local (a_voters a) (a_q a) (cf_rot cfg) d) as [n1 res].
      set (st1 := set_pending st (Some (Retained d receipt_zero false))) in *.
      assert (Hs1 : same_admission st st1) by (split; reflexivity).
      assert (Hr1 : retained_auth (a_id a) st -> retained_auth (a_id a) st1) by (intro HF; exact HF).
      destruct (negb (rr_ok res)).
      * destruct (rr_outcome res);
          try (inversion H; subst; split; [exact Hs1|]; split; [|intros _; destruct Hs1 as [_ Hq]; rewrite Hq; exact Hrd];
               intro HF; split; [exact (Hr1 HF)|]; intros rc Hrc; discriminate).
        destruct (reconcileCommandConflict cfg n1 (set_pending st1 None) a local p) as [st3 out] eqn:Hrec.
        inversion H; subst. destruct (reconcile_facts _ _ _ _ _ _ _ _ Hrec) as ([Hsa Hsr] & Hp & Hk & Hrc).
        split; [split; [rewrite Hsa | rewrite Hsr]; reflexivity|].
        split; [intro HF; split; [apply Hk; exact HF | exact Hrc]|].
        intros _. rewrite Hsr. exact Hrd.
      * destruct (finishCommit cfg st1 a (Retained d receipt_zero false) res) as [st2 out] eqn:Hf.
        inversion H; subst. destruct (finishCommit_facts _ _ _ _ _ _ _ Hf) as ([Hsa Hsr] & Hp & Hk & Hrc).
        split; [split; [rewrite Hsa | rewrite Hsr]; reflexivity|].
        split; [intro HF; split; [apply Hk; exact HF | exact Hrc]|].
        intros _. rewrite Hsr. exact Hrd.
Qed.

Lemma Commit_keeps_admission cfg n st local p n' st' r :
  Commit cfg n st local p = (n', st', r) -> same_admission st st'.
Proof.
  intro H. apply Commit_admission in H.
  destruct H as [((_ & -> & _) & _) | (a & _ & _ & _ & _ & Hs & _)]; [apply same_admission_refl | exact Hs].
Qed.

Lemma Commit_preserves_inv cfg n st local p n' st' r :
  owner_inv st -> Commit cfg n st local p = (n', st', r) -> owner_inv st'.
Proof.
  intros Hinv H. apply Commit_admission in H.
  destruct H as [((_ & -> & _) & _) | (a & Hrd & Hau & _ & Hwf & [Hsa Hsr] & Hk & Hp)]; [exact Hinv|].
  destruct Hinv as (I1 & I2 & I3 & I4).
  destruct (Hk (I4 _ Hau)) as [HF _].
  split; [|split; [|split]].
  - intros _. exists a. rewrite Hsa. auto.
  - exact Hp.
  - intros _. rewrite Hsr. exact Hrd.
  - intros a0 Ha0. rewrite Hsa, Hau in Ha0. inversion Ha0; subst. exact HF.
Qed.

(* a receipt is only ever issued by a ready owner, under its installed, unfenced authority,
   which is the authority the proposal expected *)
Lemma Commit_receipt_authority cfg n st local p n' st' rc :
  owner_inv st -> Commit cfg n st local p = (n', st', COk rc) ->
  qc_ready st = true /\ exists a, qc_auth st = Some a /\ a_wf a = false /\
                                  pr_expected p = a_id a /\ rc_auth rc = a_id a.
Proof.
  intros Hinv H. apply Commit_admission in H.
  destruct H as [((_ & _ & e & He) & _) | (a & Hrd & Hau & Hex & Hwf & _ & Hk & _)]; [discriminate|].
  split; [exact Hrd|]. exists a. repeat (split; [assumption|]).
  destruct Hinv as (_ & _ & _ & I4). destruct (Hk (I4 _ Hau)) as [_ Hrc]. apply Hrc. reflexivity.
Qed.

(* a commit under any other authority than the installed one, on a fenced authority, or on
   an owner that is not ready, is refused and changes nothing *)
Lemma Commit_stale_rejected cfg n st local p a n' st' r :
  qc_auth st = Some a -> (pr_expected p <> a_id a \/ a_wf a = true \/ qc_ready st = false) ->
  Commit cfg n st local p = (n', st', r) ->
  n' = n /\ st' = st /\
  (r = CErr EInvalid \/ r = CErr ENotReady \/ r = CErr EStale \/ r = CErr EFenced).
Proof.
  intros Hau Hbad H. apply Commit_admission in H.
  destruct H as [((-> & -> & _) & Hr) | (a' & Hrd & Hau' & Hex & Hwf & _)].
  - split; [reflexivity|]. split; [reflexivity|].
    destruct Hr as [-> | [(_ & ->) | [(x & _ & _ & ->) | (x & _ & _ & ->)]]]; auto.
  - exfalso. rewrite Hau in Hau'. inversion Hau'; subst a'.
    destruct Hbad as [Hb | [Hb | Hb]]; congruence.
Qed.

(* ---- association lists ------------------------------------------------------------------------ *)

Lemma c04_get_put l v s v' : c04_get (c04_put l v s) v' = if v' =? v then s else c04_get l v'.
Proof.
  induction l as [|[w t] l IH]; cbn.
  - destruct (v' =? v); reflexivity.
  - destruct (v =? w) eqn:E; cbn.
    + apply N.eqb_eq in E. subst w. destruct (v' =? v); reflexivity.
    + destruct (v' =? w) eqn:E2.
      * apply N.eqb_eq in E2. subst w. rewrite N.eqb_sym, E. reflexivity.
      * exact IH.
Qed.

Lemma get_owner_put l v s v' : get_owner (put_owner l v s) v' = if v' =? v then s else get_owner l v'.
Proof.
  induction l as [|[w t] l IH]; cbn.
  - destruct (v' =? v); reflexivity.
  - destruct (v =? w) eqn:E; cbn.
    + apply N.eqb_eq in E. subst w. destruct (v' =? v); reflexivity.
    + destruct (v' =? w) eqn:E2.
      * apply N.eqb_eq in E2. subst w. rewrite N.eqb_sym, E. reflexivity.
      * exact IH.
Qed.

Lemma get_owner_init (vs : list N) v : get_owner (map (fun x => (x, qchannel_empty)) vs) v = qchannel_empty.
Proof. induction vs as [|w vs IH]; cbn; [reflexivity|]. destruct (v =? w); [reflexivity | exact IH]. Qed.

(* ---- the monitor accepts every trace of the model ------------------------------------------------- *)

Fixpoint model_trace (cfg : qconfig) (c : cluster) (ops : list qop) : list (qop * qres) :=
  match ops with
  | [] => []
  | op :: rest => let '(c', r) := q_step cfg c op in (op, r) :: model_trace cfg c' rest
  end.

(* monitor state of a node versus the model's owner of that node *)
Definition c04_rel (s : c04_node) (st : qchannel) : Prop :=
  owner_inv st /\
  (cn_hi s = None -> qc_ready st = false) /\
  (forall h, cn_hi s = Some h ->
     exists a, qc_auth st = Some a /\ aid_le h (a_id a) /\ (qc_ready st = true -> a_id a = h)) /\
  (cn_blocked s = true -> qc_ready st = false).

Lemma c04_rel_init : c04_rel c04_node_init qchannel_empty.
Proof.
  split; [apply owner_inv_empty|]. split; [reflexivity|]. split; [intros h Hh; discriminate | reflexivity].
Qed.

Lemma c04_rel_same s st st' :
  c04_rel s st -> owner_inv st' -> same_admission st st' -> c04_rel s st'.
Proof.
  intros (I & R1 & R2 & R3) I' [Ha Hr]. split; [exact I'|]. rewrite Hr, Ha. auto.
Qed.

(* an Install that failed, or did nothing, keeps the relation with the same [hi];
   [blocked] may be set when the answer was ErrWriteFenced *)
Lemma c04_rel_install_err cfg n st local a n' st' e s b :
  c04_rel s st -> Install cfg n st local a = (n', st', IErr e) ->
  (b = true -> cn_blocked s = true \/ e = EFenced) -> (b = false -> cn_blocked s = false) ->
  c04_rel (C04Node (cn_hi s) b) st'.
Proof.
  intros (I & R1 & R2 & R3) H Hb1 Hb2.
  pose proof (Install_preserves_inv _ _ _ _ _ _ _ _ I H) as I'.
  pose proof (Install_authority_monotone _ _ _ _ _ _ _ _ H) as Hmono.
  apply Install_shape in H. apply install_shape_err in H.
  destruct H as [(-> & _ & Hcase) | (Hbase & _)].
  - (* owner untouched *)
    split; [exact I|]. split; [exact R1|]. split; [exact R2|]. cbn. intro Hbt.
    destruct (Hb1 Hbt) as [Hbl | ->]; [auto|].
    destruct Hcase as [He | [(cur & _ & _ & He) | [(cur & _ & _ & _ & He) | (cur & Ha & _ & Hs & Hwf & _)]]];
      try discriminate.
    destruct (qc_ready st) eqn:Hrd; [|reflexivity].
    destruct I as (I1 & _). destruct (I1 Hrd) as (a0 & Ha0 & Hwf0).
    rewrite Ha in Ha0. inversion Ha0; subst a0. rewrite <- (sameAuthority_wf _ _ Hs) in Hwf0. congruence.
  - destruct (install_base_auth _ _ _ Hbase) as (b0 & Hb01 & Hb02 & Hb03 & Hle & Hnr & _).
    split; [exact I'|]. split; [intros _; exact Hnr|]. split; [|intros _; exact Hnr].
    cbn. intros h Hh. destruct (R2 _ Hh) as (a0 & Ha0 & Hle0 & _).
    exists b0. split; [exact Hb01|]. split; [|rewrite Hnr; discriminate].
    rewrite Ha0, Hb01 in Hle. cbn in Hle. eapply aid_le_trans; eauto.
Qed.

Lemma c04_step_model cfg c op ms :
  (forall v, c04_rel (c04_get ms v) (get_owner (cl_owners c) v)) ->
  let '(c', r) := q_step cfg c op in
  exists ms', c04_step ms op r = Some ms' /\
              forall v, c04_rel (c04_get ms' v) (get_owner (cl_owners c') v).
Proof.
  intro Hrel. destruct op as [node aid wf q f | node expected cmd recs sa f | node | node | node | l fo fr th | node hw];
    cbn [q_step].
  - (* Install *)
    destruct (Install cfg (with_faults (cl_net c) f) (get_owner (cl_owners c) node) node
                      (Auth aid node (voters_of cfg) q wf)) as [[n' st'] r] eqn:HI.
    cbn [c04_step cl_owners]. specialize (Hrel node) as Hn.
    destruct r as [e | x leo hw].
    + destruct (e =? EFenced) eqn:He.
      * eexists. split; [reflexivity|]. intro v. rewrite c04_get_put, get_owner_put.
        destruct (v =? node) eqn:Ev; [|apply Hrel].
        apply (c04_rel_install_err _ _ _ _ _ _ _ _ _ true Hn HI).
        -- intros _. right. apply N.eqb_eq. exact He.
        -- discriminate.
      * exists ms. split; [reflexivity|]. intro v. rewrite get_owner_put.
        destruct (v =? node) eqn:Ev; [|apply Hrel]. apply N.eqb_eq in Ev. subst v.
        replace (c04_get ms node) with (C04Node (cn_hi (c04_get ms node)) (cn_blocked (c04_get ms node)))
          by (destruct (c04_get ms node); reflexivity).
        apply (c04_rel_install_err _ _ _ _ _ _ _ _ _ (cn_blocked (c04_get ms node)) Hn HI).
        -- intro Hb. left. exact Hb.
        -- auto.
    + destruct (Install_ok _ _ _ _ _ _ _ _ _ _ HI) as (Hx & Hwf & Hrd & (b & Hb1 & Hb2 & Hb3) & Hle).
      cbn [a_id a_wf] in Hx, Hwf, Hb2, Hle. subst x wf.
      destruct Hn as (I & R1 & R2 & R3).
      assert (Hhi : match cn_hi (c04_get ms node) with Some h => authid_ltb aid h | None => false end = false).
      { destruct (cn_hi (c04_get ms node)) as [h|] eqn:Hh; [|reflexivity].
        destruct (R2 _ eq_refl) as (a0 & Ha0 & Hle0 & _).
        destruct (authid_ltb aid h) eqn:El; [|reflexivity].
        apply authid_ltb_spec in El. exfalso.
        exact (aid_le_not_lt _ _ (aid_le_trans _ _ _ Hle0 (Hle _ Ha0)) El). }
      rewrite authid_eqb_refl, Hhi. cbn [negb orb].
      eexists. split; [reflexivity|]. intro v. rewrite c04_get_put, get_owner_put.
      destruct (v =? node) eqn:Ev; [|apply Hrel].
      split; [eapply Install_preserves_inv; eauto|]. cbn.
      split; [discriminate|]. split; [|discriminate].
      intros h Hh. inversion Hh; subst h. exists b. split; [exact Hb1|]. split; [rewrite Hb2; apply aid_le_refl|].
      intros _. exact Hb2.
  - (* Commit *)
    destruct (Commit cfg (with_faults (cl_net c) f) (get_owner (cl_owners c) node) node
                     (Proposal expected cmd recs sa)) as [[n' st'] r] eqn:HC.
    cbn [c04_step cl_owners]. specialize (Hrel node) as Hn. destruct Hn as (I & R1 & R2 & R3).
    assert (Hkeep : forall v, c04_rel (c04_get ms v) (get_owner (put_owner (cl_owners c) node st') v)).
    { intro v. rewrite get_owner_put. destruct (v =? node) eqn:Ev; [|apply Hrel].
      apply N.eqb_eq in Ev. subst v.
      eapply c04_rel_same; [apply Hrel | eapply Commit_preserves_inv; eauto | eapply Commit_keeps_admission; eauto]. }
    destruct r as [e | rc].
    + exists ms. split; [reflexivity | exact Hkeep].
    + destruct (Commit_receipt_authority _ _ _ _ _ _ _ _ I HC) as (Hrd & a & Ha & Hwf & Hex & Hrc).
      cbn [pr_expected] in Hex.
      assert (Hb : cn_blocked (c04_get ms node) = false).
      { destruct (cn_blocked (c04_get ms node)); [|reflexivity]. rewrite (R3 eq_refl) in Hrd. discriminate. }
      destruct (cn_hi (c04_get ms node)) as [h|] eqn:Hh.
      2:{ rewrite (R1 eq_refl) in Hrd. discriminate. }
      destruct (R2 _ eq_refl) as (a0 & Ha0 & _ & Heq). rewrite Ha in Ha0. inversion Ha0; subst a0.
      specialize (Heq Hrd).
      rewrite Hb, Hrc, Hex, Heq, authid_eqb_refl. cbn [negb orb].
      exists ms. split; [reflexivity | exact Hkeep].
  - exists ms. split; [reflexivity | exact Hrel].
  - exists ms. split; [reflexivity | exact Hrel].
  - (* restart *)
    eexists. split; [reflexivity|]. cbn [cl_owners]. intro v. rewrite c04_get_put, get_owner_put.
    destruct (v =? node); [apply c04_rel_init | apply Hrel].
  - destruct (RepairFollower cfg (cl_net c) l fo fr th) as [n' ok]. exists ms. split; [reflexivity | exact Hrel].
  - exists ms. split; [reflexivity | exact Hrel].
Qed.

Lemma c04_run_model cfg ops : forall c ms,
  (forall v, c04_rel (c04_get ms v) (get_owner (cl_owners c) v)) ->
  c04_run ms (model_trace cfg c ops) = true.
Proof.
  induction ops as [|op ops IH]; intros c ms Hrel; cbn; [reflexivity|].
  pose proof (c04_step_model cfg c op ms Hrel) as Hs.
  destruct (q_step cfg c op) as [c' r]. destruct Hs as (ms' & Hstep & Hrel').
  cbn. rewrite Hstep. apply IH. exact Hrel'.
Qed.

(* every schedule: the trace the model produces from the initial cluster satisfies C04 *)
Lemma model_satisfies_c04 cfg ops : c04_holds (model_trace cfg (cluster_init cfg) ops) = true.
Proof.
  unfold c04_holds. apply c04_run_model. intro v. cbn. rewrite get_owner_init. apply c04_rel_init.
Qed.

(* ---- termination: the round loop never runs out of fuel ------------------------------------------- *)

Lemma submit_all_length n local p vs : forall q n' q',
  submit_all n local p vs q = (n', q') -> length q' = (length q + length vs)%nat.
Proof.
  revert n. induction vs as [|v vs IH]; intros n q n' q' H; cbn in H.
  - inversion H; subst. cbn. lia.
  - destruct (submitReplica n local v p) as [n1 o]. apply IH in H. rewrite app_length in H. cbn in *. lia.
Qed.

(* with enough fuel for the completions still to be consumed, more fuel changes nothing *)
Lemma round_loop_fuel : forall f1 f2 n local wq p queue next ld votes out cf lf,
  (length queue + length next < f1)%nat -> (length queue + length next < f2)%nat ->
  round_loop f1 n local wq p queue next ld votes out cf lf =
  round_loop f2 n local wq p queue next ld votes out cf lf.
Proof.
  induction f1 as [|f1 IH]; intros f2 n local wq p queue next ld votes out cf lf H1 H2; [lia|].
  destruct f2 as [|f2]; [lia|]. cbn [round_loop].
  destruct queue as [|[isLocal o] queue']; [reflexivity|]. cbn [length] in H1, H2.
  destruct ((ld || outcome_durable o && isLocal) && (wq <=? (if outcome_durable o then votes + 1 else votes)));
    [reflexivity|].
  destruct (isLocal && negb (outcome_durable o)).
  - destruct (submit_all n local p next queue') as [n1 q1] eqn:Hs.
    apply submit_all_length in Hs. apply IH; cbn; lia.
  - destruct (negb lf && negb isLocal && negb (outcome_durable o)).
    + destruct next as [|v next'].
      * apply IH; cbn in *; lia.
      * destruct (submitReplica n local v p) as [n1 o1]. apply IH; rewrite app_length; cbn in *; lia.
    + apply IH; lia.
Qed.

Lemma rotate_length {A} (k : nat) : forall l : list A, length (rotate l k) = length l.
Proof.
  induction k as [|k IH]; intro l; cbn; [reflexivity|].
  destruct l as [|x r]; [reflexivity|]. rewrite IH, app_length. cbn. lia.
Qed.

Lemma round_followers_length voters local rot : (length (round_followers voters local rot) <= length voters)%nat.
Proof.
  unfold round_followers.
  assert (H : (length (filter (fun v => negb (N.eqb v local)) voters) <= length voters)%nat).
  { induction voters as [|v vs IH]; cbn; [lia|]. destruct (negb (v =? local)); cbn; lia. }
  destruct (1 <? lenN (filter (fun v => negb (v =? local)) voters)); [rewrite rotate_length|]; exact H.
Qed.

(* runDurableRound with its own fuel equals the same loop with any larger fuel: the
   out-of-fuel branch of [round_loop] is never taken *)
Lemma runDurableRound_fuel_sufficient n local voters wq rot p k :
  runDurableRound n local voters wq rot p =
  (let fs := round_followers voters local rot in
   let '(n1, o1) := submitLocal n local p in
   let '(n2, queue) := submit_all n1 local p (firstn (N.to_nat (wq - 1)) fs) [(true, o1)] in
   round_loop (S (S (length voters)) + k) n2 local wq p queue (skipn (N.to_nat (wq - 1)) fs)
              false 0 ONotWritten false false).
Proof.
  unfold runDurableRound. cbv zeta.
  destruct (submitLocal n local p) as [n1 o1].
  destruct (submit_all n1 local p (firstn (N.to_nat (wq - 1)) (round_followers voters local rot)) [(true, o1)])
    as [n2 queue] eqn:Hs.
  apply submit_all_length in Hs. cbn [length] in Hs.
  pose proof (round_followers_length voters local rot) as Hl.
  pose proof (firstn_skipn (N.to_nat (wq - 1)) (round_followers voters local rot)) as Hfs.
  apply (f_equal (@length N)) in Hfs. rewrite app_length in Hfs.
  apply round_loop_fuel; lia.
Qed.
