(* Proof/Cluster_LiftStep.v — the generic lifting of Proof/Cluster_Lift.v extended to whole schedule
   steps (standalone checkpoints within the node's log) and to schedules. *)
From WK Require Import Base.Base.
From WK Require Import Model.ReplicaLog Model.QuorumLog Model.Cluster.
From WK Require Import Proof.ReplicaLog Proof.QuorumLog_Commit Proof.ReplicaLog_WF Proof.Cluster_WF Proof.Cluster_Lift.
Open Scope N_scope.

Section LiftStep.
  Variable R : replica -> replica -> Prop.
  Hypothesis R_refl : forall rp, R rp rp.
  Hypothesis R_trans : forall a b c, R a b -> R b c -> R a c.
  Hypothesis R_sync : forall k rp mu rp' o nf, sync k rp mu = (rp', o, nf) -> R rp rp'.
  Hypothesis R_replace : forall k rp q rp' lo, replace k rp q = inr (rp', lo) -> R rp rp'.
  Hypothesis R_ckpt : forall rp w, w <= rp_leo rp -> R rp (storeCheckpoint rp w).

  Lemma q_step_lift cfg c op c' r :
    ckpt_bounded c op -> q_step cfg c op = (c', r) -> Cluster_Lift.net_ok R (cl_net c) (cl_net c').
  Proof.
    intros Hb. destruct op as [node aid wf q f | node expected cmd recs sa f | node | node | node | l fo fr th | node hw];
      cbn [q_step].
    - destruct (Install cfg (with_faults (cl_net c) f) _ node _) as [[n' st'] res] eqn:E.
      intro H. inversion H; subst. cbn [cl_net].
      destruct (Cluster_Lift.Install_net_ok R R_refl R_trans R_sync R_replace _ _ _ _ _ _ _ _ E) as [K1 K2].
      split; [exact K1|]. intro v. exact (K2 v).
    - destruct (Commit cfg (with_faults (cl_net c) f) _ node _) as [[n' st'] res] eqn:E.
      intro H. inversion H; subst. cbn [cl_net].
      destruct (Cluster_Lift.Commit_net_ok R R_refl R_trans R_sync _ _ _ _ _ _ _ _ E) as [K1 K2].
      split; [exact K1|]. intro v. exact (K2 v).
    - intro H. inversion H; subst. cbn [cl_net]. split; [reflexivity | intro v; apply R_refl].
    - intro H. inversion H; subst. cbn [cl_net]. split; [reflexivity | intro v; apply R_refl].
    - intro H. inversion H; subst. cbn [cl_net]. split; [reflexivity | intro v; apply R_refl].
    - destruct (RepairFollower cfg (cl_net c) l fo fr th) as [n' ok] eqn:E.
      intro H. inversion H; subst. cbn [cl_net].
      eapply (Cluster_Lift.RepairFollower_ok R R_refl R_trans R_sync); eauto.
    - intro H. inversion H; subst. cbn [cl_net]. apply (Cluster_Lift.net_set_ok R R_refl). apply R_ckpt. exact Hb.
  Qed.

  Lemma run_cluster_lift cfg : forall ops c, run_bounded cfg c ops ->
    forall v, R (net_rep (cl_net c) v) (net_rep (cl_net (run_cluster cfg c ops)) v).
  Proof.
    induction ops as [|op ops IH]; intros c Hb v; cbn; [apply R_refl|].
    destruct Hb as [Hb1 Hb2]. destruct (q_step cfg c op) as [c' r] eqn:E. cbn [fst] in *.
    destruct (q_step_lift _ _ _ _ _ Hb1 E) as [_ K].
    eapply R_trans; [apply K | apply IH; exact Hb2].
  Qed.
End LiftStep.
