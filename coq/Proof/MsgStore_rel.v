(* Proof/MsgStore_rel.v — the simulation relation between the durable store of
   the model and the plain sequential logs of the C07 specification, and what it
   gives for the scans and reads. *)
From WK Require Import Base.Base Model.KV Gen.Consts_C07 Model.MsgStore Model.MsgStore_C07
     Proof.KV Proof.MsgStore_base.
From Coq Require Import Sorting.Permutation Sorting.Sorted.

Definition arow_of (r : row) : arow :=
  AR (messageFromRow r) (negb (N.land (r_flags r) syncOnceFlag =? 0)).

Definition row_ok (c : N) (r : row) : Prop :=
  r_ch r = c /\ r_id r <> 0 /\ r_hash r = hashPayload (r_payload r) /\ 1 <= r_seq r.

Definition local_of (kv : kvs) (c : N) : N :=
  match loadRetentionState kv c with Some (l, _, _) => l | None => 0 end.

Definition has (kv : kvs) (k : key) : Prop := kget k kv <> None.

(* one channel: the store holds exactly the rows [rows] of the plain log, with
   exact per-sequence indexes, a sound (and, for untainted pairs, complete)
   idempotency index, and a recoverable log end *)
Record Rchan (kv : kvs) (s : aspec) (c : N) (rows : list row) : Prop := {
  rc_rows : al_rows (as_log s c) = map arow_of rows;
  rc_sorted : sorted_lt r_seq rows;
  rc_get : forall q r, kget (KyRow c q) kv = Some (VRow r) <-> (In r rows /\ r_seq r = q);
  rc_ok : Forall (row_ok c) rows;
  rc_leo : recoverLEO kv c = al_leo (as_log s c);
  rc_le_leo : Forall (fun r => r_seq r <= al_leo (as_log s c)) rows;
  rc_ret : match loadRetentionState kv c with
           | Some (l, p, rm) => p <= l /\ l <= rm /\ rm <= al_leo (as_log s c) /\ l <> 0
                                /\ Forall (fun r => p < r_seq r) rows
           | None => True
           end;
  rc_contig : forall q, local_of kv c < q <= al_leo (as_log s c) -> exists r, In r rows /\ r_seq r = q;
  rc_cidx : forall n q, has kv (KyCidx c n q)
                        <-> exists r, In r rows /\ r_seq r = q /\ r_cno r = n /\ n <> [] /\ r_uid r = [];
  rc_sseq : forall u q, has kv (KySseq c u q)
                        <-> exists r, In r rows /\ r_seq r = q /\ r_uid r = u /\ u <> []
                                      /\ N.land (r_flags r) syncOnceFlag = 0;
  rc_idem_sound : forall n u q i h, kget (KyIdem c n u) kv = Some (VIdem q i h) ->
                    exists r, In r rows /\ r_seq r = q /\ r_cno r = n /\ r_uid r = u /\ r_id r = i /\ r_hash r = h
                              /\ n <> [] /\ u <> [];
  rc_idem_complete : forall r, In r rows -> r_uid r <> [] -> r_cno r <> [] ->
                    pair_tainted (as_log s c) (r_uid r) (r_cno r) = false ->
                    kget (KyIdem c (r_cno r) (r_uid r)) kv = Some (VIdem (r_seq r) (r_id r) (r_hash r));
  rc_ck : loadCheckpoint kv c = al_ck (as_log s c);
  rc_hist : loadHistory kv c = al_hist (as_log s c)
}.

Definition gid_sound (kv : kvs) : Prop :=
  forall i c q, kget (KyGid i) kv = Some (VGid c q) ->
                exists r, kget (KyRow c q) kv = Some (VRow r) /\ r_id r = i.

Definition gid_complete (kv : kvs) (s : aspec) : Prop :=
  forall c q r, kget (KyRow c q) kv = Some (VRow r) -> ~ In (r_id r) (as_tids s) ->
                kget (KyGid (r_id r)) kv = Some (VGid c q).

(* rows live only in the channels the specification looks at *)
Definition chans_only (kv : kvs) : Prop :=
  forall c q v, kget (KyRow c q) kv = Some v -> In c all_chans.

Record Rkv (kv : kvs) (s : aspec) : Prop := {
  rk_wf : swf kv;
  rk_chan : forall c, exists rows, Rchan kv s c rows;
  rk_gs : gid_sound kv;
  rk_gc : gid_complete kv s;
  rk_co : chans_only kv
}.

(* ---- the rows of a channel ---------------------------------------------------------------- *)

Lemma nodup_rows_unsorted (s : kvs) c :
  swf s -> (forall q r, In (KyRow c q, VRow r) s -> r_seq r = q) -> NoDup (rows_unsorted s c).
Proof.
  unfold swf, wf, keys, rows_unsorted.
  induction s as [|[k v] s IH]; intros W H; cbn [flat_map]; [constructor|].
  cbn [map fst] in W. inversion W as [|? ? Wn Wd]; subst.
  assert (IH' : NoDup (flat_map (fun kv : key * value => match kv with
                         | (KyRow c' _, VRow r) => if c' =? c then [r] else []
                         | _ => [] end) s)).
  { apply IH; [exact Wd|]. intros q r Hin. apply H. right. exact Hin. }
  destruct k; try exact IH'. destruct v; try exact IH'.
  destruct (c0 =? c) eqn:E; [|exact IH']. apply N.eqb_eq in E. subst c0.
  cbn [app]. constructor; [|exact IH'].
  intro Hin. apply in_flat_map in Hin. destruct Hin as [[k2 v2] [Hin2 Hr]].
  destruct k2; try contradiction. destruct v2; try contradiction.
  destruct (c0 =? c) eqn:E2; [|contradiction]. apply N.eqb_eq in E2. subst c0.
  destruct Hr as [Hr|[]]. subst r0.
  assert (seq0 = r_seq r) by (symmetry; apply H; right; exact Hin2).
  assert (seq = r_seq r) by (symmetry; apply H; left; reflexivity).
  subst. apply Wn. apply in_map_iff. exists (KyRow c (r_seq r), VRow r). split; [reflexivity|exact Hin2].
Qed.

Lemma sort_by_sorted_id {A} (f : A -> N) l : sorted_lt f l -> sort_by f l = l.
Proof.
  intro H. apply (sorted_lt_unique f); [|exact H|intro x; apply in_sort_by].
  apply sorted_le_lt; [|apply sort_by_sorted].
  eapply Permutation_NoDup; [apply Permutation_map, Permutation_sym, sort_by_perm|].
  apply sorted_lt_nodup. exact H.
Qed.

Lemma rows_of_char (kv : kvs) c rows :
  swf kv -> sorted_lt r_seq rows ->
  (forall q r, kget (KyRow c q) kv = Some (VRow r) <-> (In r rows /\ r_seq r = q)) ->
  rows_of kv c = rows.
Proof.
  intros W Hs Hg. unfold rows_of.
  assert (Hmem : forall r, In r (rows_unsorted kv c) <-> In r rows).
  { intro r. rewrite in_rows_unsorted. split.
    - intros [q Hin]. apply (kin_iff_get _ _ _ W) in Hin. apply Hg in Hin. exact (proj1 Hin).
    - intro Hin. exists (r_seq r). apply (kin_iff_get _ _ _ W). apply Hg. split; [exact Hin|reflexivity]. }
  assert (Hnd : NoDup (rows_unsorted kv c)).
  { apply nodup_rows_unsorted; [exact W|]. intros q r Hin.
    apply (kin_iff_get _ _ _ W) in Hin. apply Hg in Hin. exact (proj2 Hin). }
  assert (Hnd2 : NoDup rows).
  { apply sorted_lt_nodup in Hs. eapply NoDup_map_inv. exact Hs. }
  assert (P : Permutation (rows_unsorted kv c) rows) by (apply NoDup_Permutation; assumption).
  apply (sorted_lt_unique r_seq); [|exact Hs|].
  - apply sorted_le_lt; [|apply sort_by_sorted].
    eapply Permutation_NoDup; [apply Permutation_map, Permutation_sym; eapply perm_trans; [apply sort_by_perm|exact P]|].
    apply sorted_lt_nodup. exact Hs.
  - intro x. rewrite in_sort_by. apply Hmem.
Qed.

Lemma Rchan_rows_of kv s c rows : swf kv -> Rchan kv s c rows -> rows_of kv c = rows.
Proof. intros W R. apply rows_of_char; [exact W|apply R|apply R]. Qed.

Lemma Rchan_amsgs kv s c rows : Rchan kv s c rows -> amsgs (as_log s c) = map messageFromRow rows.
Proof. intro R. unfold amsgs. rewrite (rc_rows _ _ _ _ R), map_map. reflexivity. Qed.

Lemma Rchan_unique kv s c rows rows' : swf kv -> Rchan kv s c rows -> Rchan kv s c rows' -> rows = rows'.
Proof. intros W R R'. rewrite <- (Rchan_rows_of _ _ _ _ W R). eapply Rchan_rows_of; eassumption. Qed.

(* two rows of a sorted log with the same sequence are the same row *)
Lemma sorted_lt_inj rows r r' : sorted_lt r_seq rows -> In r rows -> In r' rows -> r_seq r = r_seq r' -> r = r'.
Proof.
  unfold sorted_lt. induction 1 as [|x l Hs IH Hall]; intros H1 H2 E; [destruct H1|].
  destruct H1 as [H1|H1], H2 as [H2|H2]; subst.
  - reflexivity.
  - eapply Forall_forall in Hall; [|exact H2]. lia.
  - eapply Forall_forall in Hall; [|exact H1]. lia.
  - apply IH; assumption.
Qed.

(* ---- validity and reads ------------------------------------------------------------------------ *)

Lemma row_ok_valid c r : row_ok c r -> validateMaterializedMessageRow r = ok tt.
Proof.
  intros [_ [Hid [Hh _]]]. unfold validateMaterializedMessageRow.
  destruct (r_id r =? 0) eqn:E; [apply N.eqb_eq in E; contradiction|].
  rewrite Hh, N.eqb_refl. reflexivity.
Qed.

(* the read loop on valid rows is the specification's take *)
Lemma read_loop_take c rows : Forall (row_ok c) rows -> forall lim mb acc total,
  exists X, read_loop rows lim mb acc total = ok (rev acc ++ X)
            /\ map messageFromRow X = spec_take (map messageFromRow rows) lim mb (Z.of_nat (length acc)) total.
Proof.
  induction 1 as [|r rows Hr Hrows IH]; intros lim mb acc total; cbn [read_loop map spec_take].
  - exists []. rewrite app_nil_r. split; reflexivity.
  - rewrite (row_ok_valid _ _ Hr). cbn [m_payload messageFromRow].
    assert (En : is_nil_rows acc = negb (0 <? Z.of_nat (length acc))%Z).
    { destruct acc; cbn [is_nil_rows length]; [reflexivity|]. symmetry. apply negb_false_iff. apply Z.ltb_lt. lia. }
    rewrite En, negb_involutive.
    destruct ((0 <? mb)%Z && (0 <? Z.of_nat (length acc))%Z && (mb <? total + Z.of_nat (length (r_payload r)))%Z) eqn:E1.
    + exists []. rewrite app_nil_r. split; reflexivity.
    + cbn [length]. replace (Z.of_nat (S (length acc))) with (Z.of_nat (length acc) + 1)%Z by lia.
      destruct ((0 <? lim)%Z && (lim <=? Z.of_nat (length acc) + 1)%Z) eqn:E2.
      * exists [r]. cbn [rev map]. split; reflexivity.
      * destruct (IH lim mb (r :: acc) (total + Z.of_nat (length (r_payload r)))%Z) as [X [HX1 HX2]].
        exists (r :: X). cbn [rev] in HX1. rewrite <- app_assoc in HX1. cbn [app] in HX1.
        split; [exact HX1|]. cbn [map]. f_equal. rewrite HX2. f_equal. cbn [length]. lia.
Qed.

Lemma read_loop_spec c rows lim mb : Forall (row_ok c) rows ->
  exists X, read_loop rows lim mb [] 0%Z = ok X
            /\ map messageFromRow X = spec_take (map messageFromRow rows) lim mb 0%Z 0%Z.
Proof. intro H. destruct (read_loop_take c rows H lim mb [] 0%Z) as [X [H1 H2]]. exists X. split; assumption. Qed.

Lemma filter_map_msg (p : N -> bool) rows :
  filter (fun m => p (m_seq m)) (map messageFromRow rows) = map messageFromRow (filter (fun r => p (r_seq r)) rows).
Proof.
  induction rows as [|r rows IH]; cbn [map filter]; [reflexivity|].
  cbn [m_seq messageFromRow]. destruct (p (r_seq r)); cbn [map]; rewrite IH; reflexivity.
Qed.

Lemma Forall_filter {A} (P : A -> Prop) f l : Forall P l -> Forall P (filter f l).
Proof.
  induction 1 as [|x l Hx Hl IH]; cbn [filter]; [constructor|].
  destruct (f x); [constructor; assumption|assumption].
Qed.

Lemma readForward_spec kv s c rows f mx lim mb :
  swf kv -> Rchan kv s c rows ->
  exists X, readForward kv c f mx lim mb = ok X
    /\ map messageFromRow X
       = spec_take (filter (fun m => (f <=? m_seq m) && ((mx =? 0) || (m_seq m <=? mx))) (amsgs (as_log s c))) lim mb 0%Z 0%Z
    /\ (forall r, In r X -> In r rows /\ f <= r_seq r /\ (mx = 0 \/ r_seq r <= mx)).
Proof.
  intros W R. unfold readForward. rewrite (Rchan_rows_of _ _ _ _ W R).
  set (p := fun q => (f <=? q) && ((mx =? 0) || (q <=? mx))).
  assert (HF : Forall (row_ok c) (filter (fun r => p (r_seq r)) rows)) by (apply Forall_filter; apply R).
  destruct (read_loop_take c _ HF lim mb [] 0%Z) as [X [H1 H2]].
  exists X. split; [exact H1|]. split.
  - rewrite H2. rewrite (Rchan_amsgs _ _ _ _ R). rewrite (filter_map_msg p). reflexivity.
  - (* elements of X come from the filtered rows *)
    assert (Hsub : forall l lim mb acc total Y, read_loop l lim mb acc total = ok Y ->
                   forall r, In r Y -> In r acc \/ In r l).
    { induction l as [|x l IHl]; intros lim0 mb0 acc total Y HY r Hr; cbn [read_loop] in HY.
      - injection HY as <-. left. apply in_rev. exact Hr.
      - destruct (validateMaterializedMessageRow x); [|discriminate].
        destruct (_ && _ && _) in HY.
        + injection HY as <-. left. apply in_rev. exact Hr.
        + destruct (_ && _) in HY.
          * injection HY as <-. assert (Hr' : In r (x :: acc)) by (apply in_rev; exact Hr).
            destruct Hr' as [Hr'|Hr']; [right; left; exact Hr'|left; exact Hr'].
          * destruct (IHl _ _ _ _ _ HY r Hr) as [H|H]; [destruct H as [H|H]; [right; left; exact H|left; exact H]|right; right; exact H]. }
    intros r Hr. destruct (Hsub _ _ _ _ _ _ H1 r Hr) as [[]|Hin].
    apply filter_In in Hin. destruct Hin as [Hin Hp]. unfold p in Hp.
    apply andb_true_iff in Hp. destruct Hp as [Hp1 Hp2]. apply N.leb_le in Hp1.
    split; [exact Hin|]. split; [exact Hp1|].
    apply orb_true_iff in Hp2. destruct Hp2 as [Hp2|Hp2]; [left; apply N.eqb_eq; exact Hp2|right; apply N.leb_le; exact Hp2].
Qed.

(* with no limits the forward read returns every row of the range *)
Lemma spec_take_all l : forall n t, spec_take l 0 0 n t = l.
Proof.
  induction l as [|m l IH]; intros n t; cbn [spec_take]; [reflexivity|].
  cbn [Z.ltb andb]. rewrite IH. reflexivity.
Qed.

Lemma read_loop_all c rows : Forall (row_ok c) rows -> forall acc total,
  read_loop rows 0 0 acc total = ok (rev acc ++ rows).
Proof.
  induction 1 as [|r rows Hr Hrows IH]; intros acc total; cbn [read_loop].
  - rewrite app_nil_r. reflexivity.
  - rewrite (row_ok_valid _ _ Hr). cbn [Z.ltb andb].
    rewrite IH. cbn [rev]. rewrite <- app_assoc. reflexivity.
Qed.

Lemma readForward_all kv s c rows f mx :
  swf kv -> Rchan kv s c rows ->
  readForward kv c f mx 0 0 = ok (filter (fun r => (f <=? r_seq r) && ((mx =? 0) || (r_seq r <=? mx))) rows).
Proof.
  intros W R. unfold readForward. rewrite (Rchan_rows_of _ _ _ _ W R).
  rewrite (read_loop_all c); [reflexivity|]. apply Forall_filter. apply R.
Qed.
