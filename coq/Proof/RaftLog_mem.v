(* Proof/RaftLog_mem.v — memory.go against the reference, for requests shaped
   like a raft Ready (entries of a snapshot-carrying save lie above the snapshot). *)
From WK Require Import Base.Base Gen.Consts_C14 Model.RaftLog
     Proof.RaftLog_lists Proof.RaftLog_ref Proof.RaftLog_pebble Proof.RaftLog_ops.
From Coq Require Import ZifyBool ZifyN ZifyNat.
Open Scope N_scope.

Definition mem_of_ref (r : rstate) : mstate :=
  MS (r_hs r) (r_applied r) (r_cfg r) (r_ents r) (r_snap r).

Lemma same_snapshot_eq r s :
  snapshot_ok r s = true -> s_idx s = r_sidx r -> same_snapshot s (r_snap r) = true -> s = r_snap r.
Proof.
  intros Hok Hi Hs. destruct (snap_eqb_fields _ _ Hs) as (Hi' & Ht & Hc & Hd).
  unfold snapshot_ok in Hok. apply andb_true_iff in Hok. destruct Hok as [_ Hcoll].
  unfold r_sidx in Hcoll. rewrite Hi', Ht, Hc, !N.eqb_refl, conf_eqb_refl in Hcoll.
  cbn [andb negb orb] in Hcoll. rewrite Hd, bytes_eqb_refl in Hcoll. apply eqb_prop in Hcoll.
  symmetry in Hcoll. apply andb_true_iff in Hcoll. destruct Hcoll as [_ Hsum].
  apply N.eqb_eq in Hsum. destruct s, (r_snap r). cbn in *. congruence.
Qed.

Lemma mem_save_sim r hs ents snap r' :
  wf r ->
  req_valid r (WSave hs ents snap) = true -> not_k1 r (WSave hs ents snap) ->
  req_ready_shaped (WSave hs ents snap) = true ->
  ref_save false r hs ents snap = ROk r' ->
  mem_save (mem_of_ref r) hs ents snap = mem_of_ref r'.
Proof.
  intros Hwf Hv Hk Hsh Href.
  destruct (ref_save_ok r hs ents snap r' Hwf Hv Hk Href) as (Hspec & Hao & Hwf').
  pose proof (ref_save_ok_cases r hs ents snap r' Href) as Hcases.
  pose proof Hwf as (Hcont & _).
  pose proof Hv as Hv'. unfold req_valid in Hv'. rewrite Href in Hv'.
  apply andb_true_iff in Hv'. destruct Hv' as [Hv' _].
  apply andb_true_iff in Hv'. destruct Hv' as [Hv' Hsn].
  apply andb_true_iff in Hv'. destruct Hv' as [Hok Hcg].
  pose proof (spec_snap_contig r snap Hwf) as Hbase.
  rewrite Hspec. unfold mem_save, mem_of_ref, save_spec.
  cbn [ms_hs ms_ents ms_snap ms_applied ms_cfg r_hs r_applied r_cfg r_ents r_snap].
  (* the snapshot part *)
  assert (Hsnap : (match snap with
                   | None => (match hs with Some h => h | None => r_hs r end, r_ents r, r_snap r)
                   | Some s => ((if hs_commit (match hs with Some h => h | None => r_hs r end) <? s_idx s
                                 then set_commit (match hs with Some h => h | None => r_hs r end) (s_idx s)
                                 else match hs with Some h => h | None => r_hs r end),
                                trimEntriesAfterSnapshot (r_ents r) (s_idx s), s)
                   end)
                  = (raise (match hs with Some h => h | None => r_hs r end) snap,
                     snd (spec_snap r snap), fst (spec_snap r snap))).
  { destruct snap as [s|]; [|reflexivity]. unfold raise, spec_snap, trimEntriesAfterSnapshot.
    rewrite (filter_gt_skipn (r_sidx r + 1) _ _ Hcont).
    destruct Hcases as [[Heq Hsm]|Hgt].
    - replace (r_sidx r <? s_idx s) with false by lia. cbn [fst snd].
      replace (N.to_nat (s_idx s + 1 - (r_sidx r + 1))) with O by lia. cbn [skipn].
      rewrite (same_snapshot_eq r s Hsn Heq Hsm) at 3. reflexivity.
    - replace (r_sidx r <? s_idx s) with true by lia. cbn [fst snd].
      replace (N.to_nat (s_idx s + 1 - (r_sidx r + 1))) with (N.to_nat (s_idx s - r_sidx r)) by lia.
      reflexivity. }
  rewrite Hsnap. clear Hsnap.
  set (sn' := fst (spec_snap r snap)) in *. set (base := snd (spec_snap r snap)) in *.
  (* the entries part *)
  assert (Hfil : filterEntriesAfterSnapshot ents (s_idx sn') = ents).
  { apply filter_all_gt; [exact Hcg|]. destruct ents as [|e0 l]; [reflexivity|].
    subst sn'. unfold spec_snap. destruct snap as [s|].
    - cbn [req_ready_shaped] in Hsh. destruct (r_sidx r <? s_idx s) eqn:E; cbn [fst]; [exact Hsh|].
      destruct Hcases as [[Heq _]|Hgt]; [|lia]. unfold r_sidx in Heq. rewrite <- Heq. exact Hsh.
    - cbn [fst]. fold (r_sidx r). exact Hsn. }
  unfold append_spec, append_ok in *. rewrite Hfil in *.
  destruct ents as [|e0 l]; [reflexivity|].
  unfold replaceEntriesFromIndex. rewrite (take_below_firstn (s_idx sn' + 1) base (e_idx e0) Hbase).
  replace (N.to_nat (e_idx e0 - (s_idx sn' + 1))) with (N.to_nat (e_idx e0 - s_idx sn' - 1)) by lia.
  reflexivity.
Qed.

Lemma mem_req_sim r q r' :
  wf r -> req_valid r q = true -> not_k1 r q -> req_ready_shaped q = true ->
  ref_req false r q = ROk r' -> mem_req (mem_of_ref r) q = mem_of_ref r'.
Proof.
  intros Hwf Hv Hk Hsh H. destruct q as [hs ents snap|i|i]; cbn [ref_req mem_req] in *.
  - apply mem_save_sim; assumption.
  - inversion H; subst. reflexivity.
  - inversion H; subst. reflexivity.
Qed.

Lemma mem_observe_sim r : wf r -> mem_observe (mem_of_ref r) = ref_observe r.
Proof.
  intros (Hc & Hb & _ & Hz & _). unfold mem_observe, ref_observe, ref_conf, mem_of_ref.
  cbn [ms_hs ms_ents ms_snap ms_applied ms_cfg].
  destruct (deriveConfState (smeta_of (r_snap r)) (r_ents r) (hs_commit (r_hs r))); [|reflexivity].
  f_equal. f_equal.
  - unfold mem_first, r_first. cbn [ms_ents ms_snap]. destruct (r_ents r) as [|e l] eqn:E.
    + unfold r_sidx. destruct (s_idx (r_snap r) =? 0) eqn:Ez; cbn [negb]; lia.
    + apply contig_first_idx in Hc. exact Hc.
  - unfold mem_last, r_last. cbn [ms_ents ms_snap]. rewrite (last_idx_of_contig _ _ Hc).
    destruct (r_ents r) as [|e l] eqn:E; [unfold r_sidx; cbn; lia|]. unfold r_sidx.
    change (N.of_nat (length (e :: l))) with (len (e :: l)). rewrite len_cons. lia.
  - apply filter_true. intros x Hx. exact (proj1 (forallb_forall _ _) Hb x Hx).
Qed.

Lemma mem_entries_eq r lo hi mx :
  0 < hi ->
  mem_entries (mem_of_ref r) lo hi mx = limit_size mx (filter (fun e => in_window lo hi (e_idx e)) (r_ents r)).
Proof.
  intro H. unfold mem_entries, mem_of_ref. cbn [ms_ents]. f_equal. apply filter_ext.
  intro e. unfold in_window. replace (hi =? 0) with false by lia. cbn [orb]. lia.
Qed.

Lemma judge_entries_mem r lo hi mx :
  wf r -> 0 < hi -> judge_entries lo hi mx (mem_entries (mem_of_ref r) lo hi mx) r = true.
Proof.
  intros Hwf Hhi. rewrite (mem_entries_eq r lo hi mx Hhi). unfold judge_entries.
  destruct ((r_first r <=? lo) && (lo <=? hi) && (hi <=? r_last r + 1)) eqn:E.
  - rewrite (ref_entries_window r lo hi mx Hwf) by lia. apply entries_eqb_refl.
  - apply window_limit_safe. exact Hwf.
Qed.

Lemma judge_term_mem r i : wf r -> judge_term i (mem_term (mem_of_ref r) i) r = true.
Proof.
  intros (Hc & _ & _ & Hz & _). unfold mem_term, mem_of_ref. cbn [ms_ents ms_snap].
  rewrite (find_idx_contig (r_sidx r + 1) (r_ents r) i Hc). unfold judge_term, r_term. fold (r_sidx r).
  destruct ((r_sidx r + 1 <=? i) && (i <? r_sidx r + 1 + len (r_ents r))) eqn:Ein.
  - assert (Hlt : (N.to_nat (i - (r_sidx r + 1)) < length (r_ents r))%nat) by (unfold len in *; lia).
    destruct (nth_error (r_ents r) (N.to_nat (i - (r_sidx r + 1)))) as [e|] eqn:En.
    2:{ apply nth_error_None in En. lia. }
    replace (i <? r_sidx r) with false by lia. replace (i =? r_sidx r) with false by lia.
    replace (N.to_nat (i - r_sidx r - 1)) with (N.to_nat (i - (r_sidx r + 1))) by lia.
    rewrite En. apply N.eqb_refl.
  - destruct (i <? r_sidx r) eqn:E1.
    + replace (r_sidx r =? i) with false by lia. reflexivity.
    + destruct (i =? r_sidx r) eqn:E2.
      * replace (r_sidx r =? i) with true by lia. apply N.eqb_refl.
      * replace (r_sidx r =? i) with false by lia.
        destruct (nth_error (r_ents r) (N.to_nat (i - r_sidx r - 1))) eqn:En; [|reflexivity].
        assert (N.to_nat (i - r_sidx r - 1) < length (r_ents r))%nat
          by (apply nth_error_Some; rewrite En; discriminate).
        unfold len in *. lia.
Qed.
