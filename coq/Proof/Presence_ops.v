(* Proof/Presence_ops.v — every slot operation preserves the slot invariant *)
From WK Require Import Base.Base Gen.Consts_C33 Model.Presence Proof.AckTracker_map Proof.Presence_map Proof.Presence_inv.
From Coq Require Import Permutation.
Open Scope N_scope.

Lemma SInv_ext s s' :
  sl_active s' = sl_active s -> sl_byUID s' = sl_byUID s -> sl_expiry s' = sl_expiry s -> sl_tomb s' = sl_tomb s ->
  SInv s -> SInv s'.
Proof.
  destruct s, s'. simpl. intros -> -> -> -> [H1 H2 H3 H4 H5 H6 H7].
  constructor; [exact H1|exact H2|exact H3|exact H4|exact H5|exact H6|exact H7].
Qed.

Lemma tombstoned_ext s s' k q : sl_tomb s' = sl_tomb s -> tombstoned s' k q = tombstoned s k q.
Proof. unfold tombstoned. intros ->. reflexivity. Qed.

(* ---- registerLocked -------------------------------------------------------------------------- *)
Lemma registerLocked_inv s r :
  SInv s ->
  let '(s', e, tok, acts) := registerLocked s r in
  SInv s' /\ sl_tomb s' = sl_tomb s /\ sl_target s' = sl_target s.
Proof.
  intro I. unfold registerLocked.
  destruct (tombstoned s (makeRouteIdentityKey r) (r_oseq r)) eqn:T; [auto|].
  destruct (r_oseq r <? seq_of (makeRouteIdentityKey r) (sl_ownerSeq s)); [auto|].
  set (s1 := set_ownerSeq s (makeRouteIdentityKey r) (r_oseq r)).
  assert (I1 : SInv s1) by (apply (SInv_ext s); try reflexivity; exact I).
  destruct (conflictsLocked s1 (normalizeRouteSeen r)) as [|c0 cr] eqn:C.
  - pose proof (upsert_facts s1 (normalizeRouteSeen r) I1) as U.
    rewrite normalize_key, normalize_oseq in U. specialize (U T).
    cbv zeta in U. destruct U as [U1 [_ [U3 [_ [_ [U6 _]]]]]]. split; [exact U1|]. split; [exact U6|exact U3].
  - split; [|split; reflexivity]. apply (SInv_ext s1); try reflexivity. exact I1.
Qed.

(* ---- commitRouteLocked ------------------------------------------------------------------------- *)
Lemma remove_conflicts_inv cks : forall s,
  SInv s -> SInv (remove_conflicts s cks) /\ sl_tomb (remove_conflicts s cks) = sl_tomb s
            /\ sl_target (remove_conflicts s cks) = sl_target s
            /\ sl_ownerSeq (remove_conflicts s cks) = sl_ownerSeq s.
Proof.
  induction cks as [|k rest IH]; intros s I; simpl; [auto|].
  destruct (iget k (sl_active s)) as [ex|] eqn:G; [|apply IH; exact I].
  destruct (IH (removeActiveLocked s k ex) (removeActive_inv s k ex I G)) as [H1 [H2 [H3 H4]]].
  split; [exact H1|]. split; [rewrite H2|split; [rewrite H3|rewrite H4]]; reflexivity.
Qed.

Lemma commitRouteLocked_inv s tok :
  SInv s ->
  let '(s', e) := commitRouteLocked s tok in
  SInv s' /\ sl_tomb s' = sl_tomb s /\ sl_target s' = sl_target s.
Proof.
  intro I. unfold commitRouteLocked.
  destruct (nget tok (sl_pending s)) as [[r acked]|]; [|auto].
  destruct (tombstoned s (makeRouteIdentityKey r) (r_oseq r)) eqn:T.
  { split; [|split; reflexivity]. apply (SInv_ext s); try reflexivity. exact I. }
  destruct (r_oseq r <? seq_of (makeRouteIdentityKey r) (sl_ownerSeq s)).
  { split; [|split; reflexivity]. apply (SInv_ext s); try reflexivity. exact I. }
  destruct (negb (forallb (fun ck => mem_key ck acked) (conflictsLocked s r))); [auto|].
  destruct (remove_conflicts_inv acked s I) as [I1 [T1 [G1 _]]].
  set (s1 := remove_conflicts s acked) in *.
  pose proof (upsert_facts s1 r I1) as U. rewrite (tombstoned_ext s s1 _ _ T1) in U. specialize (U T).
  cbv zeta in U. destruct U as [U1 [_ [U3 [_ [_ [U6 _]]]]]].
  split; [|split; [cbn [sl_tomb set_pending]; congruence|cbn [sl_target set_pending]; congruence]].
  apply (SInv_ext (upsertActiveLocked s1 r)); try reflexivity. exact U1.
Qed.

(* ---- touchLocked ------------------------------------------------------------------------------- *)
Lemma touchLocked_inv s r :
  SInv s -> SInv (touchLocked s r) /\ sl_tomb (touchLocked s r) = sl_tomb s /\ sl_target (touchLocked s r) = sl_target s.
Proof.
  intro I. unfold touchLocked.
  destruct (r_uid r =? 0); [auto|].
  destruct (tombstoned s (makeRouteIdentityKey r) (r_oseq r)) eqn:T; [auto|].
  destruct (r_oseq r <? seq_of (makeRouteIdentityKey r) (sl_ownerSeq s)); [auto|].
  set (s1 := set_ownerSeq s (makeRouteIdentityKey r) (r_oseq r)).
  assert (I1 : SInv s1) by (apply (SInv_ext s); try reflexivity; exact I).
  assert (UP : forall x, makeRouteIdentityKey x = makeRouteIdentityKey r -> r_oseq x = r_oseq r ->
                         SInv (upsertActiveLocked s1 x) /\ sl_tomb (upsertActiveLocked s1 x) = sl_tomb s
                         /\ sl_target (upsertActiveLocked s1 x) = sl_target s).
  { intros x K Q. pose proof (upsert_facts s1 x I1) as U. rewrite K, Q in U. specialize (U T).
    cbv zeta in U. destruct U as [U1 [_ [U3 [_ [_ [U6 _]]]]]]. split; [exact U1|]. split; [exact U6|exact U3]. }
  destruct (iget (makeRouteIdentityKey r) (sl_active s1)) as [ex|].
  - destruct (r_seen (normalizeRouteSeen r) <? r_seen ex)%Z; apply UP;
      try apply normalize_key; try apply normalize_oseq.
  - destruct (conflictsLocked s1 (normalizeRouteSeen r)).
    + apply UP; [apply normalize_key|apply normalize_oseq].
    + split; [exact I1|split; reflexivity].
Qed.

Lemma fold_touch_inv rs : forall s,
  SInv s -> SInv (fold_left touchLocked rs s) /\ sl_tomb (fold_left touchLocked rs s) = sl_tomb s
            /\ sl_target (fold_left touchLocked rs s) = sl_target s.
Proof.
  induction rs as [|r rest IH]; intros s I; simpl; [auto|].
  destruct (touchLocked_inv s r I) as [H1 [H2 H3]]. destruct (IH _ H1) as [H4 [H5 H6]].
  split; [exact H4|]. split; congruence.
Qed.

(* ---- unregisterLocked --------------------------------------------------------------------------- *)
Lemma raise_fence_get m k q k' :
  iget k' (raise_fence m k q) =
  if ikey_eqb k k' then Some (match iget k m with Some t => if t <? q then q else t | None => q end)
  else iget k' m.
Proof.
  unfold raise_fence. destruct (ikey_eqb k k') eqn:E.
  - apply ikey_eqb_spec in E. subst k'. destruct (iget k m) as [t|] eqn:G.
    + destruct (t <? q); [apply i_get_set_same|exact G].
    + apply i_get_set_same.
  - assert (NE : k <> k') by (intro X; subst; rewrite ikey_eqb_refl in E; discriminate).
    destruct (iget k m) as [t|]; [destruct (t <? q)|]; try reflexivity; apply i_get_set_other; exact NE.
Qed.

Lemma SInv_raise_tomb s k q pend oseqs next :
  SInv s -> (forall r, iget k (sl_active s) = Some r -> q < r_oseq r) ->
  SInv (Slot (sl_target s) (sl_active s) (sl_byUID s) pend oseqs (raise_fence (sl_tomb s) k q) (sl_expiry s) next).
Proof.
  intros I H. pose proof (si_tomb s I) as H7. destruct I as [H1 H2 H3 H4 H5 H6 _].
  constructor; [exact H1|exact H2|exact H3|exact H4|exact H5|exact H6|].
  intros k' r' G. cbn [sl_active] in G. pose proof (H7 _ _ G) as T. unfold tombstoned in *. cbn [sl_tomb].
  rewrite raise_fence_get. destruct (ikey_eqb k k') eqn:E; [|exact T].
  apply ikey_eqb_spec in E. subst k'. specialize (H _ G). apply N.leb_gt.
  destruct (iget k (sl_tomb s)) as [t|]; [|exact H].
  apply N.leb_gt in T. destruct (t <? q); [exact H|exact T].
Qed.

Lemma unregisterLocked_inv s k q :
  SInv s ->
  SInv (unregisterLocked s k q) /\ sl_target (unregisterLocked s k q) = sl_target s
  /\ sl_tomb (unregisterLocked s k q) = raise_fence (sl_tomb s) k q.
Proof.
  intro I.
  set (sR := match iget k (sl_active s) with
             | Some existing => if r_oseq existing <=? q then removeActiveLocked s k existing else s
             | None => s
             end).
  assert (IR : SInv sR).
  { unfold sR. destruct (iget k (sl_active s)) eqn:G; [|exact I].
    destruct (r_oseq r <=? q); [apply removeActive_inv; assumption|exact I]. }
  assert (AB : forall r, iget k (sl_active sR) = Some r -> q < r_oseq r).
  { unfold sR. intros r. destruct (iget k (sl_active s)) as [ex|] eqn:G.
    - destruct (r_oseq ex <=? q) eqn:L.
      + rewrite removeActive_active, i_get_del_same. discriminate.
      + rewrite G. intro X. inversion X. subst. apply N.leb_gt. exact L.
    - rewrite G. discriminate. }
  assert (TR : sl_tomb sR = sl_tomb s /\ sl_target sR = sl_target s).
  { unfold sR. destruct (iget k (sl_active s)); [destruct (r_oseq r <=? q)|]; auto. }
  destruct TR as [TR1 TR2].
  pose proof (SInv_raise_tomb sR k q
               (filter (fun tp : N * (route * list ikey) =>
                          negb (ikey_eqb (makeRouteIdentityKey (fst (snd tp))) k && (r_oseq (fst (snd tp)) <=? q)))
                       (sl_pending sR))
               (if seq_of k (sl_ownerSeq s) <? q then al_set ikey_eqb k q (sl_ownerSeq s) else sl_ownerSeq s)
               (sl_nextID sR) IR AB) as F.
  rewrite TR1 in F.
  assert (EQ : unregisterLocked s k q =
               Slot (sl_target sR) (sl_active sR) (sl_byUID sR)
                    (filter (fun tp : N * (route * list ikey) =>
                               negb (ikey_eqb (makeRouteIdentityKey (fst (snd tp))) k && (r_oseq (fst (snd tp)) <=? q)))
                            (sl_pending sR))
                    (if seq_of k (sl_ownerSeq s) <? q then al_set ikey_eqb k q (sl_ownerSeq s) else sl_ownerSeq s)
                    (raise_fence (sl_tomb s) k q)
                    (sl_expiry sR) (sl_nextID sR)).
  { unfold unregisterLocked, sR. cbn [sl_active]. destruct (iget k (sl_active s)) as [ex|]; [|reflexivity].
    destruct (r_oseq ex <=? q); reflexivity. }
  rewrite EQ. split; [exact F|]. split; [exact TR2|reflexivity].
Qed.

(* ---- expiry --------------------------------------------------------------------------------------- *)
Definition route_due (nowS nowN ttl : Z) (r : route) : bool :=
  (0 <? ttl)%Z && negb ((nowS =? zero_time_unix)%Z && (nowN =? 0)%Z)
  && negb (r_seen r =? 0)%Z && deadline_before (r_seen r) ttl nowS nowN.

Lemma filter_filter {A} (f g : A -> bool) l : filter f (filter g l) = filter (fun x => g x && f x) l.
Proof.
  induction l as [|a l IH]; simpl; [reflexivity|]. destruct (g a); simpl; [destruct (f a)|]; rewrite IH; reflexivity.
Qed.

Lemma expire_keys_spec due : forall s,
  SInv s -> NoDup (al_keys due) -> (forall k z, In (k, z) due -> iget k (sl_expiry s) = Some z) ->
  let '(s', n) := expire_keys s due in
  SInv s' /\ n = Z.of_nat (length due)
  /\ sl_active s' = filter (fun kr : ikey * route => negb (mem_key (fst kr) (al_keys due))) (sl_active s)
  /\ sl_tomb s' = sl_tomb s /\ sl_target s' = sl_target s.
Proof.
  induction due as [|[k z] rest IH]; intros s I ND H.
  - simpl. split; [exact I|]. split; [reflexivity|]. split; [|auto].
    symmetry. clear. induction (sl_active s) as [|a l IHl]; simpl; [reflexivity|]. rewrite IHl at 1. reflexivity.
  - cbn [expire_keys]. cbn [sl_active with_active].
    pose proof (H k z (or_introl eq_refl)) as G. rewrite (si_expiry s I) in G.
    destruct (iget k (sl_active s)) as [r|] eqn:GA; [|discriminate].
    set (s0 := with_active s (sl_active s) (sl_byUID s) (al_del ikey_eqb k (sl_expiry s))).
    assert (EQ : removeActiveLocked s0 k r = removeActiveLocked s k r).
    { unfold removeActiveLocked, s0, unscheduleExpiryLocked, with_active.
      cbn [sl_active sl_byUID sl_expiry sl_target sl_pending sl_ownerSeq sl_tomb sl_nextID].
      f_equal. apply i_del_notin. apply i_get_del_same. }
    rewrite EQ.
    inversion ND as [|? ? Hn ND']. subst.
    assert (I1 : SInv (removeActiveLocked s k r)) by (apply removeActive_inv; assumption).
    assert (H1 : forall k' z', In (k', z') rest -> iget k' (sl_expiry (removeActiveLocked s k r)) = Some z').
    { intros k' z' Hin. rewrite removeActive_expiry. rewrite i_get_del_other.
      - apply H. right. exact Hin.
      - intro X. subst k'. apply Hn. apply (in_map fst) in Hin. exact Hin. }
    specialize (IH _ I1 ND' H1).
    destruct (expire_keys (removeActiveLocked s k r) rest) as [s' n].
    destruct IH as [J1 [J2 [J3 [J4 J5]]]].
    split; [exact J1|]. split; [rewrite J2; simpl length; lia|]. split; [|split; [rewrite J4|rewrite J5]; reflexivity].
    rewrite J3, removeActive_active, al_del_filter, filter_filter. apply filter_ext. intros [k' r']. simpl.
    destruct (ikey_eqb k' k) eqn:E1.
    + apply ikey_eqb_spec in E1. subst k'. rewrite ikey_eqb_refl. reflexivity.
    + assert (E2 : ikey_eqb k k' = false).
      { apply ikey_eqb_neq. intro X. subst. rewrite ikey_eqb_refl in E1. discriminate. }
      rewrite E2. reflexivity.
Qed.

Lemma expireLocked_spec s nowS nowN ttl :
  SInv s ->
  let '(s', (expired, _, _, _, _)) := expireLocked s nowS nowN ttl in
  SInv s'
  /\ sl_active s' = filter (fun kr : ikey * route => negb (route_due nowS nowN ttl (snd kr))) (sl_active s)
  /\ expired = Z.of_nat (length (filter (fun kr : ikey * route => route_due nowS nowN ttl (snd kr)) (sl_active s)))
  /\ sl_tomb s' = sl_tomb s /\ sl_target s' = sl_target s.
Proof.
  intro I. unfold expireLocked.
  set (enabled := (0 <? ttl)%Z && negb ((nowS =? zero_time_unix)%Z && (nowN =? 0)%Z)).
  set (due := if enabled then filter (fun ke : ikey * Z => deadline_before (snd ke) ttl nowS nowN) (sl_expiry s) else []).
  assert (ND : NoDup (al_keys due)).
  { unfold due. destruct enabled; [apply al_filter_nodup; apply (si_exp_nodup s I)|constructor]. }
  assert (HIN : forall k z, In (k, z) due -> iget k (sl_expiry s) = Some z).
  { unfold due. intros k z Hin. destruct enabled; [|destruct Hin]. apply filter_In in Hin.
    apply (i_in_get _ _ _ (si_exp_nodup s I)). apply Hin. }
  pose proof (expire_keys_spec due s I ND HIN) as ES.
  destruct (expire_keys s due) as [s' n]. destruct ES as [J1 [J2 [J3 [J4 J5]]]].
  (* membership of the due keys in terms of the routes *)
  assert (DUE : forall k r, iget k (sl_active s) = Some r ->
                            mem_key k (al_keys due) = route_due nowS nowN ttl r).
  { intros k r G. unfold route_due. fold enabled.
    destruct (mem_key k (al_keys due)) eqn:M.
    - apply mem_key_in in M. unfold al_keys in M. apply in_map_iff in M. destruct M as [[k0 z] [E1 E2]]. simpl in E1. subst k0.
      pose proof (HIN _ _ E2) as GE. rewrite (si_expiry s I), G in GE.
      unfold due in E2. destruct enabled; [|destruct E2]. apply filter_In in E2. destruct E2 as [_ E3]. simpl in E3.
      destruct (r_seen r =? 0)%Z; [discriminate|]. inversion GE. subst z. rewrite E3. reflexivity.
    - destruct enabled eqn:EN; [|reflexivity]. simpl.
      destruct (r_seen r =? 0)%Z eqn:Z0; [reflexivity|]. simpl.
      destruct (deadline_before (r_seen r) ttl nowS nowN) eqn:DB; [|reflexivity].
      exfalso. rewrite <- not_true_iff_false in M. apply M. apply mem_key_in.
      unfold al_keys. apply in_map_iff. exists (k, r_seen r). split; [reflexivity|].
      unfold due. apply filter_In. split; [|exact DB].
      apply (i_get_some_in). rewrite (si_expiry s I), G, Z0. reflexivity. }
  assert (FE : forall f g : ikey * route -> bool,
             (forall k r, iget k (sl_active s) = Some r -> f (k, r) = g (k, r)) ->
             filter f (sl_active s) = filter g (sl_active s)).
  { intros f g X. apply filter_ext_in. intros [k r] Hin. apply X. apply (i_in_get _ _ _ (si_act_nodup s I) Hin). }
  split; [exact J1|]. split; [|split; [|auto]].
  - rewrite J3. apply FE. intros k r G. simpl. rewrite (DUE k r G). reflexivity.
  - rewrite J2.
    assert (L : length due = length (filter (fun kr : ikey * route => mem_key (fst kr) (al_keys due)) (sl_active s))).
    { (* due keys are distinct keys of active routes *)
      transitivity (length (al_keys due)); [unfold al_keys; rewrite map_length; reflexivity|].
      transitivity (length (al_keys (filter (fun kr : ikey * route => mem_key (fst kr) (al_keys due)) (sl_active s))));
        [|unfold al_keys; rewrite map_length; reflexivity].
      apply nodup_same_length; [exact ND|apply al_filter_nodup; apply (si_act_nodup s I)|].
      intro k. split.
      - intro Hk. pose proof Hk as Hk2. unfold al_keys in Hk. apply in_map_iff in Hk. destruct Hk as [[k0 z] [E1 E2]].
        simpl in E1. subst k0. pose proof (HIN _ _ E2) as GE. rewrite (si_expiry s I) in GE.
        destruct (iget k (sl_active s)) as [r|] eqn:G; [|discriminate].
        unfold al_keys. apply in_map_iff. exists (k, r). split; [reflexivity|]. apply filter_In.
        split; [apply (i_get_some_in _ _ _ G)|]. simpl. apply mem_key_in. exact Hk2.
      - intro Hk. unfold al_keys in Hk. apply in_map_iff in Hk. destruct Hk as [[k0 r] [E1 E2]]. simpl in E1. subst k0.
        apply filter_In in E2. destruct E2 as [_ E3]. simpl in E3. apply mem_key_in. exact E3. }
    rewrite L. f_equal. f_equal. apply FE. intros k r G. simpl. apply DUE. exact G.
Qed.
