(* Proof/MsgEvent_monitor.v — the model satisfies the C40 monitor: the durable
   tables of the model refine the abstract table specification the monitor
   runs on the implementation's results ([spec_append]); reducer calls satisfy
   [reduce_monitor]. *)
From WK Require Import Base.Base.
From WK Require Import Gen.Consts_C40 Model.MsgEvent Model.MsgEvent_C40 Proof.MsgEvent.
From Coq Require Import ZifyBool ZifyN ZifyNat.
Open Scope N_scope.

(* ---- reflexivity of the observable equalities -------------------------------------------- *)

Lemma state_eqb_refl s : state_eqb s s = true.
Proof. unfold state_eqb. rewrite !bytes_eqb_refl, !Z.eqb_refl, !N.eqb_refl. reflexivity. Qed.
Lemma cursor_eqb_refl c : cursor_eqb c c = true.
Proof. unfold cursor_eqb. rewrite !bytes_eqb_refl, !Z.eqb_refl, !N.eqb_refl. reflexivity. Qed.
Lemma applied_eqb_refl a : applied_eqb a a = true.
Proof. unfold applied_eqb. rewrite !bytes_eqb_refl, !Z.eqb_refl, !N.eqb_refl. reflexivity. Qed.
Lemma result_eqb_refl r : result_eqb r r = true.
Proof. unfold result_eqb. rewrite !bytes_eqb_refl, !Z.eqb_refl, !N.eqb_refl, state_eqb_refl. reflexivity. Qed.

Lemma subset_b_refl {A} (eqb : A -> A -> bool) (R : forall x, eqb x x = true) l : subset_b eqb l l = true.
Proof.
  unfold subset_b. apply forallb_forall. intros x Hx. apply existsb_exists. exists x. split; [exact Hx|apply R].
Qed.

Lemma same_set_refl {A} (eqb : A -> A -> bool) (R : forall x, eqb x x = true) l : same_set eqb l l = true.
Proof. unfold same_set. rewrite Nat.eqb_refl, subset_b_refl by exact R. reflexivity. Qed.

Lemma dump_eqb_refl d : dump_eqb d d = true.
Proof.
  unfold dump_eqb. rewrite !same_set_refl by (apply state_eqb_refl || apply applied_eqb_refl).
  destruct (d_cursor d); cbn; [rewrite cursor_eqb_refl|]; reflexivity.
Qed.

(* ---- erasing the payload-dependent columns commutes with the table operations --------------- *)

Definition abs_srow (x : N * State) := (fst x, abs_state (snd x)).
Definition abs_crow (x : N * Cursor) := (fst x, abs_cursor (snd x)).
Definition abs_arow (x : N * Applied) := (fst x, abs_applied (snd x)).

Definition abs_db (db : DB) : DB :=
  mkDB (map abs_srow (db_states db)) (map abs_crow (db_cursors db)) (map abs_arow (db_applied db)).

Lemma find_map {A B} (f : A -> B) (P : B -> bool) l : find P (map f l) = option_map f (find (fun x => P (f x)) l).
Proof. induction l as [|x l IH]; cbn; [reflexivity|]. destruct (P (f x)); [reflexivity|exact IH]. Qed.

Lemma find_ext {A} (P Q : A -> bool) l : (forall x, P x = Q x) -> find P l = find Q l.
Proof. intro H. induction l as [|x l IH]; cbn; [reflexivity|]. rewrite H, IH. reflexivity. Qed.

Lemma filter_map_comm {A B} (f : A -> B) (P : B -> bool) l : filter P (map f l) = map f (filter (fun x => P (f x)) l).
Proof. induction l as [|x l IH]; cbn; [reflexivity|]. destruct (P (f x)); cbn; rewrite IH; reflexivity. Qed.

Lemma upsert_map {A B} (f : A -> B) (P : A -> bool) (P' : B -> bool) x l :
  (forall y, P' (f y) = P y) -> map f (upsert P x l) = upsert P' (f x) (map f l).
Proof.
  intro H. induction l as [|y l IH]; cbn; [reflexivity|]. rewrite H. destruct (P y); cbn; [reflexivity|].
  rewrite IH. reflexivity.
Qed.

Lemma get_state_abs db hs c t m key : get_state (abs_db db) hs c t m key = option_map abs_state (get_state db hs c t m key).
Proof.
  unfold get_state, abs_db. cbn [db_states]. rewrite find_map.
  rewrite (find_ext _ (state_at hs c t m key)) by (intros [h s]; reflexivity).
  destruct (find _ _) as [[h s]|]; reflexivity.
Qed.

Lemma get_cursor_abs db hs c t m : get_cursor (abs_db db) hs c t m = option_map abs_cursor (get_cursor db hs c t m).
Proof.
  unfold get_cursor, abs_db. cbn [db_cursors]. rewrite find_map.
  rewrite (find_ext _ (cursor_at hs c t m)) by (intros [h s]; reflexivity).
  destruct (find _ _) as [[h s]|]; reflexivity.
Qed.

Lemma get_applied_abs db hs c t m id : get_applied (abs_db db) hs c t m id = option_map abs_applied (get_applied db hs c t m id).
Proof.
  unfold get_applied, abs_db. cbn [db_applied]. rewrite find_map.
  rewrite (find_ext _ (applied_at hs c t m id)) by (intros [h s]; reflexivity).
  destruct (find _ _) as [[h s]|]; reflexivity.
Qed.

Lemma cursor_seq_abs db hs c t m : cursor_seq (abs_db db) hs c t m = cursor_seq db hs c t m.
Proof. unfold cursor_seq. rewrite get_cursor_abs. destruct (get_cursor db hs c t m); reflexivity. Qed.

Lemma abs_put_rows db hs s cu a :
  abs_db (put_rows db hs s cu a) = put_rows (abs_db db) hs (abs_state s) (abs_cursor cu) (abs_applied a).
Proof.
  unfold abs_db, put_rows. cbn [db_states db_cursors db_applied]. f_equal.
  - apply (upsert_map abs_srow). intros [h y]. reflexivity.
  - apply (upsert_map abs_crow). intros [h y]. reflexivity.
  - apply (upsert_map abs_arow). intros [h y]. reflexivity.
Qed.

Lemma abs_dump_of db hs c t m : abs_dump (dump_of db hs c t m) = dump_of (abs_db db) hs c t m.
Proof.
  unfold abs_dump, dump_of. cbn [d_hs d_channel d_ctype d_msgno d_states d_cursor d_applied].
  f_equal.
  - unfold states_of, abs_db. cbn [db_states]. rewrite filter_map_comm, !map_map.
    erewrite filter_ext; [reflexivity|]. intros [h s]. reflexivity.
  - symmetry. apply get_cursor_abs.
  - unfold applied_of, abs_db. cbn [db_applied]. rewrite filter_map_comm, !map_map.
    erewrite filter_ext; [reflexivity|]. intros [h s]. reflexivity.
Qed.

(* ---- one append refines one specification step -------------------------------------------- *)

Lemma normalize_etype e ne :
  normalizeMessageEventAppend e = Some ne -> e_etype ne = ToLower (TrimSpace (e_etype e)).
Proof.
  unfold normalizeMessageEventAppend.
  destruct (is_empty (TrimSpace (e_channel e)) || (e_ctype e <=? 0)%Z || is_empty (TrimSpace (e_msgno e))
            || is_empty (TrimSpace (e_id e)) || is_empty (ToLower (TrimSpace (e_etype e)))); [discriminate|].
  destruct (event_kind (ToLower (TrimSpace (e_etype e)))); [|discriminate].
  intro H. inversion H. reflexivity.
Qed.

Lemma spec_append_refines db hs e r db' :
  AppendMessageEvent db hs e = ((ENone, Some r), db') ->
  spec_append (abs_db db) hs (event_is_terminal e) r = Some (abs_db db').
Proof.
  intros E. pose proof (append_cases db hs e) as C. rewrite E in C.
  inversion C as [ | ne a Nm Ga | ne s Nm Ga Gs Cd | ne st' cu' Nm Ga Gc Sc St Sm Sk Sl Cc Ct Cm Cs Ss Tm]; subst.
  - (* replay *)
    unfold spec_append. cbn [r_channel r_ctype r_msgno r_id messageEventAppendResultFromApplied].
    rewrite get_applied_abs, Ga. cbn [option_map ap_key ap_seq ap_status abs_applied r_key r_seq r_status].
    rewrite !bytes_eqb_refl, N.eqb_refl. reflexivity.
  - (* finalized lane *)
    unfold spec_append. cbn [r_channel r_ctype r_msgno r_id r_key r_seq r_status messageEventAppendResult].
    destruct (get_state_key _ _ _ _ _ _ _ Gs) as (_ & _ & _ & K).
    rewrite get_applied_abs, Ga. cbn [option_map]. rewrite K, get_state_abs, Gs. cbn [option_map st_last_id st_status st_seq abs_state].
    rewrite Cd, N.eqb_refl, bytes_eqb_refl. reflexivity.
  - (* applied *)
    unfold spec_append. cbn [r_channel r_ctype r_msgno r_id r_key r_seq r_status messageEventAppendResult].
    rewrite get_applied_abs, Ga. cbn [option_map]. rewrite Sk, get_state_abs.
    assert (Ht : Bool.eqb (isMessageEventTerminal (st_status st')) (event_is_terminal e) = true).
    { unfold event_is_terminal. rewrite <- (normalize_etype _ _ Nm), Tm. apply eqb_reflx. }
    assert (Hq : (st_seq st' =? wrap_succ (cursor_seq (abs_db db) hs (e_channel ne) (e_ctype ne) (e_msgno ne))) = true).
    { rewrite cursor_seq_abs. apply N.eqb_eq. congruence. }
    assert (Hrows : put_rows (abs_db db) hs
                      (mkState (e_channel ne) (e_ctype ne) (e_msgno ne) (e_key ne) (st_status st') (st_seq st') (e_id ne) [] [] 0%Z snap_empty 0 [] 0%Z)
                      (mkCursor (e_channel ne) (e_ctype ne) (e_msgno ne) (st_seq st') 0%Z)
                      (mkApplied (e_channel ne) (e_ctype ne) (e_msgno ne) (e_id ne) (e_key ne) (st_seq st') (st_status st') 0%Z)
                    = abs_db (put_rows db hs st' cu' (messageEventAppliedFromResult ne (messageEventAppendResult ne st')))).
    { rewrite abs_put_rows. f_equal.
      - unfold abs_state. rewrite Sc, St, Sm, Sk, Sl. reflexivity.
      - unfold abs_cursor. rewrite Cc, Ct, Cm, Ss. reflexivity.
      - unfold abs_applied, messageEventAppliedFromResult, messageEventAppendResult. cbn. rewrite Sk. reflexivity. }
    unfold cursor_seq in Hq.
    destruct (get_state db hs (e_channel ne) (e_ctype ne) (e_msgno ne) (e_key ne)) as [s|] eqn:Gs; cbn [option_map].
    + cbn [st_last_id st_status abs_state]. rewrite Gc, Hq, Ht. cbn [andb]. rewrite Hrows. reflexivity.
    + rewrite Hq, Ht. cbn [andb]. rewrite Hrows. reflexivity.
Qed.

(* the two possible outcomes of an append *)
Lemma append_outcome db hs e :
  (exists r db', AppendMessageEvent db hs e = ((ENone, Some r), db'))
  \/ AppendMessageEvent db hs e = ((EInvalidArgument, None), db).
Proof.
  pose proof (append_cases db hs e) as C. destruct (AppendMessageEvent db hs e) as [out db'] eqn:E.
  inversion C; subst; try (right; reflexivity); left; eauto.
Qed.

(* ---- lists of append calls ------------------------------------------------------------------ *)

Lemma spec_appends_refines evs : forall db,
  exists calls,
    zip_exact evs (fst (batch_appends db evs)) = Some calls
    /\ spec_appends (abs_db db) calls = Some (abs_db (snd (batch_appends db evs))).
Proof.
  induction evs as [|[hs e] r IH]; intros db.
  - exists []. cbn [zip_exact batch_appends fst snd spec_appends]. split; reflexivity.
  - cbn [batch_appends].
    destruct (append_outcome db hs e) as [(res & db1 & E) | E]; rewrite E.
    + destruct (IH db1) as (calls & Z & Sp).
      destruct (batch_appends db1 r) as [os db2] eqn:Eb. cbn [fst snd] in *.
      exists ((hs, e, (ENone, Some res)) :: calls). cbn [zip_exact]. rewrite Z.
      split; [reflexivity|]. cbn [spec_appends]. rewrite (spec_append_refines db hs e res db1 E). exact Sp.
    + destruct (IH db) as (calls & Z & Sp).
      destruct (batch_appends db r) as [os db2] eqn:Eb. cbn [fst snd] in *.
      exists ((hs, e, (EInvalidArgument, None)) :: calls). cbn [zip_exact]. rewrite Z.
      split; [reflexivity|]. cbn [spec_appends]. exact Sp.
Qed.

(* ---- meta histories ---------------------------------------------------------------------------- *)

Definition dump_key := (N * bytes * Z * bytes)%type.

Definition dumps_for (db : DB) (ks : list dump_key) : list Dump :=
  map (fun k => match k with (hs, c, t, m) => dump_of db hs c t m end) ks.

(* the trace the model produces for a history: what the harness would observe *)
Fixpoint meta_trace (ks : list dump_key) (db : DB) (ops : list MetaOp) : list (MetaOp * MetaObs) :=
  match ops with
  | [] => []
  | op :: r =>
    let '(outs, db') := meta_step db op in
    (op, mkMetaObs outs ENone (dumps_for db' ks)) :: meta_trace ks db' r
  end.

Lemma dumps_are_model db ks : dumps_are (abs_db db) (dumps_for db ks) = true.
Proof.
  unfold dumps_are, dumps_for. apply forallb_forall. intros d Hd. apply in_map_iff in Hd.
  destruct Hd as ([[[hs c] t] m] & <- & _). cbn [d_hs d_channel d_ctype d_msgno dump_of].
  rewrite abs_dump_of. apply dump_eqb_refl.
Qed.

Definition op_events (op : MetaOp) : list (N * Event) :=
  match op with MAppend hs e => [(hs, e)] | MBatch evs => evs end.

Lemma meta_step_batch db op : meta_step db op = batch_appends db (op_events op).
Proof.
  destruct op as [hs e|evs]; cbn [meta_step op_events batch_appends]; [|reflexivity].
  destruct (AppendMessageEvent db hs e) as [o db']. reflexivity.
Qed.

Lemma meta_model_satisfies_monitor ops : forall ks db,
  meta_monitor (abs_db db) (meta_trace ks db ops) = 0.
Proof.
  induction ops as [|op r IH]; intros ks db; cbn [meta_trace meta_monitor]; [reflexivity|].
  destruct (spec_appends_refines (op_events op) db) as (calls & Z & Sp).
  rewrite meta_step_batch. destruct (batch_appends db (op_events op)) as [outs db'] eqn:Eb. cbn [fst snd] in *.
  cbn [meta_monitor]. unfold meta_calls. cbn [mo_results mo_commit mo_dumps].
  assert (Zc : match op with MAppend hs e => zip_exact [(hs, e)] outs | MBatch evs => zip_exact evs outs end = Some calls)
    by (destruct op; exact Z).
  rewrite Zc, Sp, dumps_are_model. apply IH.
Qed.

(* ---- reducer calls -------------------------------------------------------------------------------- *)

Lemma reduce_model_satisfies_monitor st ex cu (cex : bool) e :
  let '(st', cu', did, res) := reduceMessageEventAppend st ex cu cex e in
  reduce_monitor st ex cu cex e st' cu' did res = 0.
Proof.
  destruct (reduce_noop_cond st ex e) eqn:C.
  - rewrite (reduce_noop _ _ cu cex _ C). unfold reduce_monitor. unfold reduce_noop_cond in C. rewrite C.
    cbn [negb andb r_seq r_status r_state messageEventAppendResult].
    rewrite !state_eqb_refl, cursor_eqb_refl, N.eqb_refl, bytes_eqb_refl. reflexivity.
  - destruct (reduce_apply st ex cu cex e C) as (st' & cu' & res & E & Sh). rewrite E.
    unfold reduce_monitor. unfold reduce_noop_cond in C. rewrite C.
    destruct Sh as [Hres Hcur Hseq Hlast _ _ _ _ _ _ _ Hterm]. subst res.
    cbn [r_seq r_status messageEventAppendResult].
    rewrite Hseq, Hcur, Hlast, Hterm, !N.eqb_refl, !bytes_eqb_refl, eqb_reflx. reflexivity.
Qed.
