(* Proof/MsgEvent_node.v — the leader node: stream cache, finish path, and the
   durable tables behind the slot FSM.  Lemmas behind c40_finish_fail_closed,
   c40_cache_only_not_durable, c40_finish_persists_cached and the node part of
   c40_model_satisfies_monitor. *)
From WK Require Import Base.Base.
From WK Require Import Gen.Consts_C40 Model.MsgEvent Model.MsgEvent_C40 Proof.MsgEvent Proof.MsgEvent_monitor.
From Coq Require Import ZifyBool ZifyN ZifyNat.
Open Scope N_scope.

(* ---- one slot command = an all-or-nothing list of appends ------------------------------------- *)

Definition ok_calls (hs : N) (evs : list Event) (rs : list Result) : list (N * Event * (Err * option Result)) :=
  map (fun er => (hs, fst er, (ENone, Some (snd er)))) (combine evs rs).

Lemma fsm_apply_refines evs : forall db hs rs db',
  fsm_apply_events db hs evs = Some (rs, db') ->
  length rs = length evs
  /\ spec_appends (abs_db db) (ok_calls hs evs rs) = Some (abs_db db')
  /\ db' = run_appends db (map (fun e => (hs, e)) evs).
Proof.
  induction evs as [|e r IH]; intros db hs rs db' E; cbn [fsm_apply_events] in E.
  - inversion E; subst. repeat split.
  - destruct (AppendMessageEvent db hs e) as [[err ores] db1] eqn:Ea.
    destruct err; try discriminate. destruct ores as [res|]; try discriminate.
    destruct (fsm_apply_events db1 hs r) as [[rs1 db2]|] eqn:Er; [|discriminate].
    inversion E; subst. destruct (IH _ _ _ _ Er) as (L & Sp & Rn).
    cbn [length map run_appends]. rewrite Ea. cbn [snd]. split; [congruence|]. split; [|exact Rn].
    unfold ok_calls. cbn [combine map spec_appends fst snd].
    rewrite (spec_append_refines db hs e res db1 Ea). exact Sp.
Qed.

Lemma fsm_apply_unfold_none evs db hs : fsm_apply_events db hs evs = None -> True.
Proof. trivial. Qed.

(* ---- proposals --------------------------------------------------------------------------------- *)

Definition same_channel (c : bytes) (evs : list Event) : Prop := forall e, In e evs -> e_channel e = c.

Lemma proposal_calls_ok chan c evs rs :
  same_channel c evs -> length rs = length evs ->
  proposal_calls chan [with_results evs (Some rs)] = ok_calls (opt_or (assoc c chan) 0) evs rs.
Proof.
  intros Hc _. unfold proposal_calls, with_results, ok_calls. cbn [flat_map]. rewrite app_nil_r.
  revert rs. induction evs as [|e r IH]; intros rs; [reflexivity|].
  destruct rs as [|x rs]; [reflexivity|]. cbn [map combine fst snd].
  rewrite (Hc e) by (left; reflexivity). f_equal. apply IH. intros e' He'. apply Hc. right. exact He'.
Qed.

Lemma spec_appends_rejected g chan evs : spec_appends g (proposal_calls chan [with_results evs None]) = Some g.
Proof.
  unfold proposal_calls, with_results. cbn [flat_map]. rewrite app_nil_r.
  induction evs as [|e r IH]; [reflexivity|]. cbn [map fst snd spec_appends]. exact IH.
Qed.

Lemma atomic_some evs rs : proposal_atomic (with_results evs (Some rs)) = true.
Proof.
  unfold proposal_atomic, with_results. apply orb_true_iff. left. apply forallb_forall.
  intros [e o] Hin. apply in_combine_r in Hin. apply in_map_iff in Hin. destruct Hin as (r & <- & _). reflexivity.
Qed.

Lemma atomic_none evs : proposal_atomic (with_results evs None) = true.
Proof.
  unfold proposal_atomic, with_results. apply orb_true_iff. right. apply forallb_forall.
  intros [e o] Hin. apply in_map_iff in Hin. destruct Hin as (e' & E & _). inversion E. reflexivity.
Qed.

(* what a step does to the durable side *)
Record durable_step (st : NodeSt) (out : AppendOut) (st' : NodeSt) : Prop := {
  ds_chan : n_chan_hs st' = n_chan_hs st;
  ds_atomic : forallb proposal_atomic (ao_proposals out) = true;
  ds_spec : spec_appends (abs_db (n_db st)) (proposal_calls (n_chan_hs st) (ao_proposals out)) = Some (abs_db (n_db st'))
}.

Lemma durable_nothing st st' err res :
  n_chan_hs st' = n_chan_hs st -> n_db st' = n_db st -> durable_step st (mkAppendOut err res []) st'.
Proof. intros H1 H2. split; [exact H1 | reflexivity | cbn; rewrite H2; reflexivity]. Qed.

Lemma propose_events_durable st evs fail c :
  same_channel c evs -> evs <> [] ->
  match propose_events st evs fail with
  | (Some rs, st') =>
    n_cache st' = n_cache st /\ n_chan_hs st' = n_chan_hs st /\ n_local st' = n_local st
    /\ length rs = length evs
    /\ spec_appends (abs_db (n_db st)) (proposal_calls (n_chan_hs st) [with_results evs (Some rs)]) = Some (abs_db (n_db st'))
    /\ fsm_apply_events (n_db st) (hash_slot_of st c) evs = Some (rs, n_db st')
  | (None, st') => st' = st
  end.
Proof.
  intros Hc Hne. unfold propose_events. destruct fail; [reflexivity|].
  destruct (validateMessageEventAppendBatch evs); cbn [negb]; [|reflexivity].
  destruct evs as [|first r]; [congruence|].
  assert (Hf : e_channel first = c) by (apply Hc; left; reflexivity). rewrite Hf.
  destruct (fsm_apply_events (n_db st) (hash_slot_of st c) (first :: r)) as [[rs db']|] eqn:E; [|reflexivity].
  destruct (fsm_apply_refines _ _ _ _ _ E) as (L & Sp & _).
  cbn [set_db n_cache n_chan_hs n_local n_db]. repeat split; try assumption.
  rewrite (proposal_calls_ok _ c) by assumption. exact Sp.
Qed.

(* ---- the events of a finish proposal share the finish's channel ------------------------------------ *)

Lemma flush_channel fin s : e_channel (finishFlushMessageEvent fin s) = e_channel fin.
Proof. reflexivity. Qed.

Lemma finish_events_channel fin opens :
  same_channel (e_channel fin) (map (finishFlushMessageEvent fin) opens ++ [fin]).
Proof.
  intros e He. apply in_app_or in He. destruct He as [He|[<-|[]]]; [|reflexivity].
  apply in_map_iff in He. destruct He as (s & <- & _). reflexivity.
Qed.

Lemma mergeTerminalPayload_channel ca e : e_channel (mergeTerminalPayload ca e) = e_channel e.
Proof.
  unfold mergeTerminalPayload. destruct (negb _); [reflexivity|].
  destruct (find_session _ _ _ _); [|reflexivity]. destruct (assoc _ _); [|reflexivity].
  destruct (_ || _); reflexivity.
Qed.

Lemma single_channel e : same_channel (e_channel e) [e].
Proof. intros x [<-|[]]. reflexivity. Qed.

(* ---- every node step is a durable step -------------------------------------------------------------- *)

Lemma finish_local_durable st e fail out st' :
  appendMessageEventFinishLocal st e fail = (out, st') -> durable_step st out st'.
Proof.
  unfold appendMessageEventFinishLocal.
  destruct (nil_b _ && negb _); [intro E; inversion E; subst; apply durable_nothing; reflexivity|].
  set (events := map (finishFlushMessageEvent e) (openStatesForFinish (n_cache st) e) ++ [e]).
  pose proof (propose_events_durable st events fail (e_channel e) (finish_events_channel e _)) as P.
  assert (Hne : events <> []) by (unfold events; intro X; apply app_eq_nil in X; destruct X; discriminate).
  specialize (P Hne).
  destruct (propose_events st events fail) as [[rs|] st1].
  - destruct P as (Pc & Ph & Pl & L & Sp & _).
    destruct (last_result rs); intro E; inversion E; subst; clear E.
    + split; [exact Ph | apply andb_true_iff; split; [exact (atomic_some _ _)|reflexivity] | exact Sp].
    + split; [exact Ph | apply andb_true_iff; split; [exact (atomic_some _ _)|reflexivity] | exact Sp].
  - subst st1. intro E; inversion E; subst; clear E.
    split; [reflexivity | apply andb_true_iff; split; [exact (atomic_none _)|reflexivity] | apply spec_appends_rejected].
Qed.

Lemma single_proposal_durable st e fail c (k : list Result -> NodeSt -> AppendOut * NodeSt) out st' :
  e_channel e = c ->
  (forall rs st1, n_chan_hs (snd (k rs st1)) = n_chan_hs st1 /\ n_db (snd (k rs st1)) = n_db st1
                  /\ ao_proposals (fst (k rs st1)) = [with_results [e] (Some rs)]) ->
  match propose_events st [e] fail with
  | (Some rs, st1) => k rs st1
  | (None, st1) => (mkAppendOut EOther None [with_results [e] None], st1)
  end = (out, st') ->
  durable_step st out st'.
Proof.
  intros Hc Hk.
  pose proof (propose_events_durable st [e] fail c) as P.
  assert (Hs : same_channel c [e]) by (intros x [<-|[]]; exact Hc).
  specialize (P Hs ltac:(discriminate)).
  destruct (propose_events st [e] fail) as [[rs|] st1].
  - destruct P as (Pc & Ph & Pl & L & Sp & _). intro E.
    destruct (Hk rs st1) as (K1 & K2 & K3). rewrite E in K1, K2, K3. cbn [fst snd] in *.
    split; [congruence | rewrite K3; apply andb_true_iff; split; [exact (atomic_some _ _)|reflexivity] | rewrite K3, K2; exact Sp].
  - subst st1. intro E. inversion E; subst.
    split; [reflexivity | apply andb_true_iff; split; [exact (atomic_none [e])|reflexivity] | apply (spec_appends_rejected _ _ [e])].
Qed.

Lemma append_local_durable st e fail out st' :
  appendMessageEventLocal st e fail = (out, st') -> durable_step st out st'.
Proof.
  unfold appendMessageEventLocal.
  destruct (normalizeMessageEventAppend e) as [ne|]; [|intro E; inversion E; subst; apply durable_nothing; reflexivity].
  destruct (negb (slot_local _ _)); [intro E; inversion E; subst; apply durable_nothing; reflexivity|].
  destruct (isMessageEventCacheOnlyEvent (e_etype ne)).
  { destruct (appendCachedObserved (n_cache st) ne) as [[err res] ca]. intro E; inversion E; subst.
    apply durable_nothing; reflexivity. }
  destruct (bytes_eqb (e_etype ne) EventTypeStreamFinish); [apply finish_local_durable|].
  destruct (isMessageEventTerminalEvent (e_etype ne)).
  - apply (single_proposal_durable st (mergeTerminalPayload (n_cache st) ne) fail (e_channel ne)
             (fun rs st1 => match last_result rs with
                            | Some r => (mkAppendOut ENone (Some r) [with_results [mergeTerminalPayload (n_cache st) ne] (Some rs)],
                                         set_cache st1 (markTerminalPersisted (n_cache st1) (mergeTerminalPayload (n_cache st) ne) r))
                            | None => (mkAppendOut EOther None [with_results [mergeTerminalPayload (n_cache st) ne] (Some rs)], st1)
                            end)).
    + apply mergeTerminalPayload_channel.
    + intros rs st1. destruct (last_result rs); cbn; repeat split.
  - apply (single_proposal_durable st ne fail (e_channel ne)
             (fun rs st1 => (mkAppendOut (match last_result rs with Some _ => ENone | None => EOther end)
                                         (last_result rs) [with_results [ne] (Some rs)], st1))).
    + reflexivity.
    + intros rs st1. cbn. repeat split.
Qed.

Lemma node_step_durable st op out st' : node_step st op = (out, st') -> durable_step st out st'.
Proof.
  destruct op; cbn [node_step]; try (intro E; inversion E; subst; apply durable_nothing; reflexivity).
  apply append_local_durable.
Qed.

(* ---- node histories: on the model's own traces the table part of the monitor never fires ------------ *)

Definition cache_dumps_for (ca : Cache) (ks : list dump_key) : list CacheDump :=
  map (fun k => match k with (_, c, t, m) => mkCacheDump c t m (cache_dump_of ca c t m) end) ks.

Definition obs_of (ks : list dump_key) (out : AppendOut) (st' : NodeSt) : NodeObs :=
  mkNodeObs (ao_err out) (ao_result out) (ao_proposals out) (cache_dumps_for (n_cache st') ks)
            (N.of_nat (length (c_sessions (n_cache st')))) (dumps_for (n_db st') ks).

(* the trace the model produces for a node history: what the harness would observe *)
Fixpoint node_trace (ks : list dump_key) (st : NodeSt) (ops : list NodeOp) : list (NodeOp * NodeObs) :=
  match ops with
  | [] => []
  | op :: r => let '(out, st') := node_step st op in (op, obs_of ks out st') :: node_trace ks st' r
  end.

(* the clause part of the monitor along the model's own run *)
Fixpoint node_clauses (ks : list dump_key) (st : NodeSt) (cache : list CacheDump) (ops : list NodeOp) : N :=
  match ops with
  | [] => 0
  | op :: r =>
    let '(out, st') := node_step st op in
    let obs := obs_of ks out st' in
    max_code (clause_monitor (abs_db (n_db st)) (n_chan_hs st) cache op obs) (node_clauses ks st' (no_cache obs) r)
  end.

Lemma node_model_durable ops : forall ks st cache,
  node_monitor (abs_db (n_db st)) (n_chan_hs st) cache (node_trace ks st ops) = node_clauses ks st cache ops.
Proof.
  induction ops as [|op r IH]; intros ks st cache; cbn [node_trace node_clauses node_monitor]; [reflexivity|].
  destruct (node_step st op) as [out st'] eqn:E. cbn [node_monitor].
  destruct (node_step_durable _ _ _ _ E) as [Hc Ha Hs].
  unfold node_calls. cbn [obs_of no_proposals no_dumps no_cache]. rewrite Ha, Hs. cbn [negb].
  rewrite dumps_are_model. cbn [negb]. rewrite <- Hc. rewrite IH. reflexivity.
Qed.

(* ---- clause: cache-only events are not durable ----------------------------------------------------------- *)

Lemma cache_only_not_durable st e fail ne :
  normalizeMessageEventAppend e = Some ne -> isMessageEventCacheOnlyEvent (e_etype ne) = true ->
  let '(out, st') := appendMessageEventLocal st e fail in
  ao_proposals out = [] /\ n_db st' = n_db st.
Proof.
  intros Nm Co. unfold appendMessageEventLocal. rewrite Nm.
  destruct (negb (slot_local _ _)); [split; reflexivity|]. rewrite Co.
  destruct (appendCachedObserved (n_cache st) ne) as [[err res] ca]. split; reflexivity.
Qed.

(* ---- clause F1: a finish without open cached lanes and without a snapshot fails closed --------------------- *)

Lemma finish_not_cache_only et : bytes_eqb et EventTypeStreamFinish = true -> isMessageEventCacheOnlyEvent et = false.
Proof. intro H. unfold isMessageEventCacheOnlyEvent. rewrite (finish_eqb_kind _ H). reflexivity. Qed.

Lemma finish_cache_miss st e fail fin :
  normalizeMessageEventAppend e = Some fin ->
  bytes_eqb (e_etype fin) EventTypeStreamFinish = true ->
  slot_local (n_local st) (hash_slot_of st (e_channel fin) + 1) = true ->
  openStatesForFinish (n_cache st) fin = [] ->
  p_hassnap (e_payload fin) = false ->
  appendMessageEventLocal st e fail = (mkAppendOut ECacheMiss None [], st).
Proof.
  intros Nm Fi Lo Op Hs. unfold appendMessageEventLocal. rewrite Nm, Lo. cbn [negb].
  rewrite (finish_not_cache_only _ Fi), Fi. unfold appendMessageEventFinishLocal. rewrite Op, Hs. reflexivity.
Qed.

(* a lost cache has no open lanes *)
Lemma open_states_no_session ca e :
  find_session ca (e_channel e) (e_ctype e) (e_msgno e) = None -> openStatesForFinish ca e = [].
Proof. intro H. unfold openStatesForFinish. destruct (negb _); [reflexivity|]. rewrite H. reflexivity. Qed.

Lemma open_states_after_reset ca e : openStatesForFinish (resetAfterRestore ca) e = [].
Proof. apply open_states_no_session. reflexivity. Qed.
Lemma open_states_after_pause ca e : openStatesForFinish (pauseForRestore ca) e = [].
Proof. apply open_states_no_session. reflexivity. Qed.
Lemma open_states_after_resume ca e : openStatesForFinish (resumeAfterRestore ca) e = [].
Proof. apply open_states_no_session. reflexivity. Qed.

Lemma find_filter_none {A} (P Q : A -> bool) l : (forall x, P x = true -> Q x = false) -> find P (filter Q l) = None.
Proof.
  intro H. induction l as [|x l IH]; cbn; [reflexivity|]. destruct (Q x) eqn:Qx; [|exact IH].
  cbn. destruct (P x) eqn:Px; [rewrite (H x Px) in Qx; discriminate | exact IH].
Qed.

Lemma open_states_after_authority_loss ca hash_slot_of lost e :
  existsb (N.eqb (hash_slot_of (e_channel e))) lost = true ->
  openStatesForFinish (removeHashSlotsObserved ca hash_slot_of lost) e = [].
Proof.
  intro H. apply open_states_no_session. unfold find_session, removeHashSlotsObserved. cbn [c_sessions].
  apply find_filter_none. intros s Hs. unfold session_at in Hs. apply msg_eqb_iff in Hs. destruct Hs as (-> & _ & _).
  rewrite H. reflexivity.
Qed.

Lemma cache_loss_leaves_no_open_lane ca e :
  openStatesForFinish (resetAfterRestore ca) e = []
  /\ openStatesForFinish (pauseForRestore ca) e = []
  /\ openStatesForFinish (resumeAfterRestore ca) e = []
  /\ (forall hash_slot_of lost, existsb (N.eqb (hash_slot_of (e_channel e))) lost = true ->
        openStatesForFinish (removeHashSlotsObserved ca hash_slot_of lost) e = []).
Proof.
  split; [apply open_states_after_reset|]. split; [apply open_states_after_pause|].
  split; [apply open_states_after_resume|]. intros. apply open_states_after_authority_loss. assumption.
Qed.

(* when it does not fail closed, the finish
   issues exactly one proposal: one flush close per open cached lane, in lane
   order, followed by the finish itself *)
Lemma finish_proposal st e fail fin :
  normalizeMessageEventAppend e = Some fin ->
  bytes_eqb (e_etype fin) EventTypeStreamFinish = true ->
  slot_local (n_local st) (hash_slot_of st (e_channel fin) + 1) = true ->
  (nil_b (openStatesForFinish (n_cache st) fin) && negb (p_hassnap (e_payload fin))) = false ->
  exists rs, ao_proposals (fst (appendMessageEventLocal st e fail))
             = [with_results (map (finishFlushMessageEvent fin) (openStatesForFinish (n_cache st) fin) ++ [fin]) rs].
Proof.
  intros Nm Fi Lo Op. unfold appendMessageEventLocal. rewrite Nm, Lo. cbn [negb].
  rewrite (finish_not_cache_only _ Fi), Fi. unfold appendMessageEventFinishLocal. rewrite Op.
  destruct (propose_events st _ fail) as [[rs|] st1].
  - exists (Some rs). destruct (last_result rs); reflexivity.
  - exists None. reflexivity.
Qed.

(* ---- clause F2: a successful finish makes the cached snapshots durable ------------------------------------- *)

Lemma run_appends_app a b db : run_appends db (a ++ b) = run_appends (run_appends db a) b.
Proof. revert db. induction a as [|[hs e] a IH]; intro db; cbn [app run_appends]; [reflexivity|apply IH]. Qed.

(* an event that is its own normal form, addressed to another lane / carrying
   another id, does not create the lane / the applied row *)
Lemma append_keeps_absent_lane db hs ev hs' c t m key :
  normalizeMessageEventAppend ev = Some ev ->
  e_key ev <> key ->
  get_state db hs' c t m key = None ->
  get_state (snd (AppendMessageEvent db hs ev)) hs' c t m key = None.
Proof.
  intros Nm Hk G. pose proof (append_cases db hs ev) as C.
  destruct (AppendMessageEvent db hs ev) as [out db'] eqn:E. cbn [snd].
  inversion C as [ | | | ne st' cu' Nm' Ga Gc Sc St Sm Sk Sl Cc Ct Cm Cs Ss Tm]; subst; try exact G.
  assert (ne = ev) by congruence. subst ne.
  rewrite get_state_put. destruct (state_at hs' c t m key (hs, st')) eqn:Q; [|exact G].
  apply state_at_iff in Q. cbn in Q. destruct Q as (_ & _ & _ & _ & Q). congruence.
Qed.

Lemma append_keeps_absent_id db hs ev hs' c t m id :
  normalizeMessageEventAppend ev = Some ev ->
  e_id ev <> id ->
  get_applied db hs' c t m id = None ->
  get_applied (snd (AppendMessageEvent db hs ev)) hs' c t m id = None.
Proof.
  intros Nm Hk G. pose proof (append_cases db hs ev) as C.
  destruct (AppendMessageEvent db hs ev) as [out db'] eqn:E. cbn [snd].
  inversion C as [ | | | ne st' cu' Nm' Ga Gc Sc St Sm Sk Sl Cc Ct Cm Cs Ss Tm]; subst; try exact G.
  assert (ne = ev) by congruence. subst ne.
  rewrite get_applied_put.
  destruct (applied_at hs' c t m id (hs, messageEventAppliedFromResult ev (messageEventAppendResult ev st'))) eqn:Q; [|exact G].
  apply applied_at_iff in Q. cbn in Q. destruct Q as (_ & _ & _ & _ & Q). congruence.
Qed.

Lemma run_keeps_absent evs : forall db hs hs' c t m key id,
  (forall ev, In ev evs -> normalizeMessageEventAppend ev = Some ev /\ e_key ev <> key /\ e_id ev <> id) ->
  get_state db hs' c t m key = None -> get_applied db hs' c t m id = None ->
  get_state (run_appends db (map (fun e => (hs, e)) evs)) hs' c t m key = None
  /\ get_applied (run_appends db (map (fun e => (hs, e)) evs)) hs' c t m id = None.
Proof.
  induction evs as [|ev r IH]; intros db hs hs' c t m key id H Gs Ga; cbn [map run_appends]; [split; assumption|].
  destruct (H ev (or_introl eq_refl)) as (Nm & Hk & Hi).
  apply IH.
  - intros x Hx. apply H. right. exact Hx.
  - apply append_keeps_absent_lane; assumption.
  - apply append_keeps_absent_id; assumption.
Qed.

(* a fresh close event creates its lane, closed, with the snapshot its payload decodes to *)
Lemma append_fresh_close db hs ev :
  normalizeMessageEventAppend ev = Some ev ->
  event_kind (e_etype ev) = Some KClose ->
  get_applied db hs (e_channel ev) (e_ctype ev) (e_msgno ev) (e_id ev) = None ->
  get_state db hs (e_channel ev) (e_ctype ev) (e_msgno ev) (e_key ev) = None ->
  exists st',
    get_state (snd (AppendMessageEvent db hs ev)) hs (e_channel ev) (e_ctype ev) (e_msgno ev) (e_key ev) = Some st'
    /\ st_status st' = EventStatusClosed
    /\ st_snap st' = opt_or (terminal_snapshot (e_payload ev)) snap_empty.
Proof.
  intros Nm K Ga Gs. unfold AppendMessageEvent. rewrite Nm, Ga, Gs. cbn [opt_or is_some].
  unfold reduceMessageEventAppend. cbn [andb]. rewrite K.
  destruct (get_cursor db hs (e_channel ev) (e_ctype ev) (e_msgno ev)) as [cu|]; cbn [opt_or is_some snd];
    (eexists; split; [rewrite get_state_put;
                      match goal with |- (if ?b then _ else _) = _ => assert (b = true) as -> by (apply state_at_iff; cbn; tauto) end;
                      reflexivity|]);
    cbn [st_status st_snap]; (split; [reflexivity|]); destruct (terminal_snapshot (e_payload ev)); reflexivity.
Qed.

(* the snapshot a flush payload decodes to.
   [views_coherent]: relations between the views of one payload that hold for
   every byte string (an object with a non-null "snapshot" member is a
   non-empty JSON object and, when it decodes into the terminal struct, the
   struct's snapshot is that member) *)
Definition views_coherent (p : Payload) : Prop :=
  p_hassnap p = true ->
  p_obj p = true /\ is_empty (p_raw p) = false /\ (p_tok p = true -> p_tsnap p <> None).

Lemma tsnap_of_canon_some c c' : tsnap_of_canon c = Some c' -> c' = c.
Proof. unfold tsnap_of_canon. destruct (bytes_eqb c _); [discriminate|]. intro H. inversion H. reflexivity. Qed.

Lemma merged_snapshot p s c0 :
  views_coherent p ->
  (p_obj p = true -> merge_decodes p = true) ->      (* not the undecodable-object defect *)
  is_empty (s_raw s) = false -> tsnap_of_canon (s_canon s) = Some c0 ->
  exists raw, terminal_snapshot (mergeMessageEventTerminalPayload p s) = Some raw
              /\ s_raw raw = (if p_hassnap p then p_tsnap_canon p else s_canon s).
Proof.
  intros Vc Hd Hs Hc. unfold mergeMessageEventTerminalPayload. rewrite Hs.
  pose proof (tsnap_of_canon_some _ _ Hc) as X. subst c0.
  destruct (p_obj p) eqn:Ho.
  - specialize (Hd eq_refl). destruct (p_hassnap p) eqn:Hh.
    + destruct (Vc Hh) as (_ & Hne & Ht).
      unfold merge_decodes in Hd. rewrite Hne in Hd. cbn [orb] in Hd. rewrite Hd. specialize (Ht Hd).
      destruct (p_tsnap p) as [x|]; [|congruence].
      unfold terminal_snapshot. cbn [p_tsnap p_tsnap_canon option_map]. eexists. split; reflexivity.
    + rewrite Hd. unfold terminal_snapshot. cbn [p_tsnap p_tsnap_canon]. rewrite Hc.
      eexists. split; reflexivity.
  - assert (Hh : p_hassnap p = false).
    { destruct (p_hassnap p) eqn:Hh; [|reflexivity]. destruct (Vc Hh) as (X & _). congruence. }
    rewrite Hh. unfold terminal_snapshot. cbn [p_tsnap p_tsnap_canon]. rewrite Hc.
    eexists. split; reflexivity.
Qed.

Lemma flush_id_injective fid k1 k2 : finishFlushMessageEventID fid k1 = finishFlushMessageEventID fid k2 -> k1 = k2.
Proof. unfold finishFlushMessageEventID. intro H. apply app_inv_head in H. apply app_inv_head in H. exact H. Qed.

Lemma kind_close : event_kind EventTypeStreamClose = Some KClose.
Proof. vm_compute. reflexivity. Qed.

(* c40_finish_persists_cached (partial): hypotheses made explicit —
     [Hnorm]   the proposed events are their own normal forms (the cache only
               holds lanes of normalized events; flush ids and lane keys
               contain no surrounding white space),
     [Hnodup]  the open cached lanes have distinct keys (they are the entries
               of a map),
     [Hdec]    the finish payload is not an undecodable JSON object (the
               signature of known finding 2),
     [Hpend]   the lane is not durable yet and its flush id is unused *)
Lemma finish_persists_cached st fin out st' lane c0 :
  let opens := openStatesForFinish (n_cache st) fin in
  let hs := hash_slot_of st (e_channel fin) in
  let events := map (finishFlushMessageEvent fin) opens ++ [fin] in
  appendMessageEventFinishLocal st fin false = (out, st') -> ao_err out = ENone ->
  (forall ev, In ev events -> normalizeMessageEventAppend ev = Some ev) ->
  NoDup (map st_key opens) ->
  views_coherent (e_payload fin) ->
  (p_obj (e_payload fin) = true -> merge_decodes (e_payload fin) = true) ->
  In lane opens ->
  is_empty (s_raw (st_snap lane)) = false -> tsnap_of_canon (s_canon (st_snap lane)) = Some c0 ->
  get_state (n_db st) hs (e_channel fin) (e_ctype fin) (e_msgno fin) (st_key lane) = None ->
  get_applied (n_db st) hs (e_channel fin) (e_ctype fin) (e_msgno fin) (finishFlushMessageEventID (e_id fin) (st_key lane)) = None ->
  exists s', get_state (n_db st') hs (e_channel fin) (e_ctype fin) (e_msgno fin) (st_key lane) = Some s'
             /\ isMessageEventTerminal (st_status s') = true
             /\ s_raw (st_snap s') = (if p_hassnap (e_payload fin) then p_tsnap_canon (e_payload fin) else s_canon (st_snap lane)).
Proof.
  intros opens hs events E Ok Hnorm Hnodup Vc Hdec Hin Hsn Hc0 Gs Ga.
  unfold appendMessageEventFinishLocal in E. fold opens in E.
  destruct (nil_b opens && negb (p_hassnap (e_payload fin))); [inversion E; subst; discriminate|].
  fold events in E.
  pose proof (propose_events_durable st events false (e_channel fin) (finish_events_channel fin opens)) as P.
  assert (Hne : events <> []) by (unfold events; intro X; apply app_eq_nil in X; destruct X; discriminate).
  specialize (P Hne).
  destruct (propose_events st events false) as [[rs|] st1]; [|inversion E; subst; discriminate].
  destruct P as (_ & _ & _ & _ & _ & Hf).
  assert (Hdb : n_db st' = n_db st1) by (destruct (last_result rs); inversion E; subst; reflexivity).
  rewrite Hdb. fold hs in Hf.
  destruct (fsm_apply_refines _ _ _ _ _ Hf) as (_ & _ & Hrun). rewrite Hrun. clear Hrun Hf E Hdb.
  destruct (in_split _ _ Hin) as (before & after & Hsplit).
  set (fl := finishFlushMessageEvent fin) in *.
  assert (Hev : events = map fl before ++ fl lane :: (map fl after ++ [fin])).
  { unfold events. rewrite Hsplit, map_app. cbn [map]. rewrite <- app_assoc. reflexivity. }
  rewrite Hev, map_app, run_appends_app. cbn [map run_appends].
  (* the lanes before do not touch this lane *)
  assert (Hkeys : forall x, In x before -> st_key x <> st_key lane).
  { intros x Hx Heq. rewrite Hsplit, map_app in Hnodup. cbn [map] in Hnodup.
    apply NoDup_remove_2 in Hnodup. apply Hnodup. apply in_or_app. left. rewrite <- Heq. apply in_map. exact Hx. }
  destruct (run_keeps_absent (map fl before) (n_db st) hs hs (e_channel fin) (e_ctype fin) (e_msgno fin) (st_key lane)
                             (finishFlushMessageEventID (e_id fin) (st_key lane))) as (Gs1 & Ga1); try assumption.
  { intros ev Hev'. apply in_map_iff in Hev'. destruct Hev' as (x & <- & Hx). split; [|split].
    - apply Hnorm. rewrite Hev. apply in_or_app. left. apply in_map. exact Hx.
    - cbn. apply Hkeys. exact Hx.
    - cbn. intro Heq. apply flush_id_injective in Heq. exact (Hkeys x Hx Heq). }
  set (db1 := run_appends (n_db st) (map (fun e => (hs, e)) (map fl before))) in *.
  (* its own flush event creates it, closed, with the merged snapshot *)
  assert (Nl : normalizeMessageEventAppend (fl lane) = Some (fl lane)).
  { apply Hnorm. rewrite Hev. apply in_or_app. right. left. reflexivity. }
  destruct (append_fresh_close db1 hs (fl lane) Nl kind_close Ga1 Gs1) as (s' & Gs2 & St2 & Sn2).
  cbn [fl finishFlushMessageEvent e_channel e_ctype e_msgno e_key e_payload] in Gs2, Sn2.
  destruct (merged_snapshot (e_payload fin) (st_snap lane) c0 Vc Hdec Hsn Hc0) as (raw & Tr & Rr).
  rewrite Tr in Sn2. cbn [opt_or] in Sn2.
  (* the remaining events leave a terminal lane alone *)
  assert (Tm : isMessageEventTerminal (st_status s') = true) by (rewrite St2; exact terminal_closed).
  exists s'. split; [|split; [exact Tm|rewrite Sn2; exact Rr]].
  apply run_preserves_terminal; assumption.
Qed.

(* ---- close / error / cancel carry the cached snapshot into the durable append ---------------------------- *)

Lemma terminal_merges_cache ca e session state c0 :
  isMessageEventTerminalEvent (e_etype e) = true ->
  find_session ca (e_channel e) (e_ctype e) (e_msgno e) = Some session ->
  assoc (e_key e) (ss_states session) = Some state ->
  is_empty (st_key state) = false ->
  is_empty (s_raw (st_snap state)) = false -> tsnap_of_canon (s_canon (st_snap state)) = Some c0 ->
  views_coherent (e_payload e) ->
  (p_obj (e_payload e) = true -> merge_decodes (e_payload e) = true) ->
  exists raw, terminal_snapshot (e_payload (mergeTerminalPayload ca e)) = Some raw
              /\ s_raw raw = (if p_hassnap (e_payload e) then p_tsnap_canon (e_payload e) else s_canon (st_snap state)).
Proof.
  intros Te Fs As Ke Sn Hc Vc Hd. unfold mergeTerminalPayload. rewrite Te, Fs, As, Ke, Sn. cbn [negb orb e_payload with_payload].
  eapply merged_snapshot; eassumption.
Qed.

(* the durable reducer stores that snapshot when it applies a close / error / cancel *)
Lemma reduce_terminal_snapshot state ex cursor cex e raw k :
  reduce_noop_cond state ex e = false ->
  event_kind (e_etype e) = Some k -> (k = KClose \/ k = KError \/ k = KCancel) ->
  terminal_snapshot (e_payload e) = Some raw ->
  let '(st', _, _, _) := reduceMessageEventAppend state ex cursor cex e in st_snap st' = raw.
Proof.
  intros C K Hk Tr. unfold reduceMessageEventAppend. unfold reduce_noop_cond in C. rewrite C, K.
  destruct Hk as [-> | [-> | ->]]; rewrite Tr; reflexivity.
Qed.

(* ---- the statements of Properties/C40.v about whole cases ------------------------------------------------ *)

Lemma meta_model_satisfies_monitor_empty ops ks : C40_monitor (C40Meta (meta_trace ks db_empty ops)) = 0.
Proof. exact (meta_model_satisfies_monitor ops ks db_empty). Qed.

Lemma node_model_satisfies_monitor ops ks max_sessions chan_hs hs_count :
  C40_monitor (C40Node max_sessions hs_count chan_hs (node_trace ks (node_init max_sessions chan_hs hs_count) ops))
  = node_clauses ks (node_init max_sessions chan_hs hs_count) [] ops.
Proof. exact (node_model_durable ops ks (node_init max_sessions chan_hs hs_count) []). Qed.
