(* Proof/Pending_monitor.v — the C26 (b) table monitor [mon_pend] (a checker over
   implementation observations: registered owners + per-channel mailboxes)
   accepts every history the Pending model produces. *)
From WK Require Import Base.Base Base.Bytes Gen.Consts_C26 Model.Wire Model.Pending Model.C26Case Proof.Pending.
Open Scope N_scope.

Definition proj (cm : N * msg) : N * outcome := (fst cm, msg_outcome (snd cm)).

(* trySend on the model's buffers *)
Definition post_m (cap : N -> N) (b : list (N * msg)) (cm : N * msg) : list (N * msg) :=
  if count_chan (fst cm) b <? cap (fst cm) then b ++ [cm] else b.

Lemma count_chan_proj c (b : list (N * msg)) : count_chan c (map proj b) = count_chan c b.
Proof.
  unfold count_chan. f_equal. induction b as [|x b IH]; [reflexivity|].
  cbn [map filter proj fst]. destruct (fst x =? c); cbn [length]; rewrite IH; reflexivity.
Qed.

Lemma post_proj caps b cm :
  map proj (post_m (cap_of caps) b cm) = post caps (fst cm) (msg_outcome (snd cm)) (map proj b).
Proof.
  unfold post_m, post. rewrite count_chan_proj.
  destruct (count_chan (fst cm) b <? cap_of caps (fst cm)); [|reflexivity].
  rewrite map_app. reflexivity.
Qed.

(* flush = trySend of every in-flight message, in order *)
Lemma send_all_spec cap : forall l e cl ce b,
  send_all cap (length l) (PState e cl ce l b) = PState e cl ce [] (fold_left (post_m cap) l b).
Proof.
  induction l as [|[c m] l IH]; intros e cl ce b; [reflexivity|].
  cbn [length send_all ps_inflight]. unfold send at 1. cbn [ps_inflight nth_error remove_nth ps_bufs ps_entries ps_closed ps_close_err].
  cbn [fold_left]. unfold post_m at 2. cbn [fst].
  destruct (count_chan c b <? cap c); cbn [fst]; apply IH.
Qed.

Lemma flush_spec cap e cl ce l b :
  flush cap (PState e cl ce l b) = PState e cl ce [] (fold_left (post_m cap) l b).
Proof. unfold flush. cbn [ps_inflight]. apply send_all_spec. Qed.

Lemma take_first_proj c : forall b,
  take_mail c (map proj b) =
  (match fst (take_first c b) with Some m => Some (msg_outcome m) | None => None end,
   map proj (snd (take_first c b))).
Proof.
  induction b as [|x b IH]; [reflexivity|].
  cbn [map take_mail take_first proj fst]. destruct (fst x =? c); [reflexivity|].
  rewrite IH. destruct (take_first c b) as [m r]. reflexivity.
Qed.

Lemma nodup_insert id c es : NoDup (map fst es) -> NoDup (map fst ((id, c) :: remove_id id es)).
Proof.
  intro ND. cbn [map fst]. constructor; [|apply nodup_remove_id; exact ND].
  intro I. apply in_map_iff in I. destruct I as (x & Ex & Ix). apply in_remove_id in Ix.
  destruct Ix as [_ Ne]. contradiction.
Qed.

(* FailAll's sweep: with unique ids every entry is taken once, in order *)
Lemma fold_fail_spec e : forall es cl ce infl b, NoDup (map fst es) ->
  fold_left (fun st id => fail_one id e st) (map fst es) (PState es cl ce infl b)
  = PState [] cl ce (infl ++ map (fun ic => (snd ic, Msg None [] e)) es) b.
Proof.
  induction es as [|[id c] es IH]; intros cl ce infl b ND.
  - cbn. rewrite app_nil_r. reflexivity.
  - cbn [map fst] in ND. inversion ND as [|? ? NI ND']; subst.
    cbn [map fold_left fst]. unfold fail_one at 2, remove. cbn [ps_entries].
    unfold lookup. cbn [find fst]. rewrite N.eqb_refl. cbn [snd fst ps_closed ps_close_err ps_inflight ps_bufs].
    assert (RE : remove_id id ((id, c) :: es) = es).
    { unfold remove_id. cbn [filter fst]. rewrite N.eqb_refl. cbn [negb]. apply not_in_remove_id. exact NI. }
    rewrite RE, IH by exact ND'. rewrite <- app_assoc. reflexivity.
Qed.

(* the simulation between the model state and the monitor's bookkeeping *)
Record Sim (s : pstate) (p : pm_state) : Prop := MkSim {
  sim_owner : ps_entries s = pm_owner p;
  sim_closed : ps_closed s = pm_closed p;
  sim_err : ps_close_err s = pm_close_err p;
  sim_infl : ps_inflight s = [];
  sim_mail : map proj (ps_bufs s) = pm_mail p;
  sim_nodup : NoDup (map fst (ps_entries s)) }.

Lemma fold_post_proj caps e : forall (es : list (N * N)) (b : list (N * msg)),
  map proj (fold_left (post_m (cap_of caps)) (map (fun ic => (snd ic, Msg None [] e)) es) b)
  = fold_left (fun m ic => post caps (snd ic) ([], e) m) es (map proj b).
Proof.
  induction es as [|x es IH]; intro b; [reflexivity|].
  cbn [map fold_left]. rewrite IH, post_proj. reflexivity.
Qed.

Lemma sim_step caps s p o : Sim s p ->
  let so := pstep caps s o in
  let po := pm_step caps p (o, snd so) in
  snd po = true /\ Sim (fst so) (fst po).
Proof.
  intros [SO SC SE SI SM SN]. destruct s as [es cl ce infl b]. destruct p as [ow ml pc pe].
  cbn [ps_entries ps_closed ps_close_err ps_inflight ps_bufs pm_owner pm_mail pm_closed pm_close_err] in *.
  subst ow pc pe infl ml.
  destruct o as [id c|id|id pl e|e| |c]; cbn [pstep pm_step].
  - (* Store *)
    destruct (cap_of caps c =? 0) eqn:C0; cbn [snd fst].
    + split; [reflexivity|]. constructor; cbn; try reflexivity; assumption.
    + cbn [pm_closed pm_owner pm_mail pm_close_err]. unfold store. cbn [ps_closed].
      destruct cl.
      * cbn [snd fst]. split; [reflexivity|].
        unfold store_closed. cbn [ps_entries ps_closed ps_close_err ps_inflight ps_bufs app].
        rewrite flush_spec. cbn [fold_left].
        constructor; cbn [ps_entries ps_closed ps_close_err ps_inflight ps_bufs pm_owner pm_mail pm_closed pm_close_err];
          try reflexivity; try assumption.
        rewrite post_proj. reflexivity.
      * cbn [snd fst]. split; [reflexivity|].
        constructor; cbn [insert ps_entries ps_closed ps_close_err ps_inflight ps_bufs pm_owner pm_mail pm_closed pm_close_err];
          try reflexivity. apply nodup_insert. exact SN.
  - (* Delete *)
    cbn [snd fst]. split; [reflexivity|].
    constructor; cbn [delete ps_entries ps_closed ps_close_err ps_inflight ps_bufs pm_owner pm_mail pm_closed pm_close_err];
      try reflexivity. apply nodup_remove_id. exact SN.
  - (* Complete *)
    unfold complete, remove. cbn [ps_entries pm_owner].
    destruct (lookup id es) as [c|] eqn:L; cbn [snd fst].
    + split; [reflexivity|].
      cbn [ps_entries ps_closed ps_close_err ps_inflight ps_bufs app]. rewrite flush_spec. cbn [fold_left].
      constructor; cbn [ps_entries ps_closed ps_close_err ps_inflight ps_bufs pm_owner pm_mail pm_closed pm_close_err];
        try reflexivity.
      * rewrite post_proj. reflexivity.
      * apply nodup_remove_id. exact SN.
    + split; [reflexivity|]. constructor; cbn; try reflexivity; assumption.
  - (* FailAll *)
    cbn [snd fst]. split; [reflexivity|].
    unfold fail_all, close. cbv zeta. cbn [ps_closed].
    assert (G : forall cl' ce', fold_left (fun st id => fail_one id e st) (map fst es) (PState es cl' ce' [] b)
                                = PState [] cl' ce' (map (fun ic => (snd ic, Msg None [] e)) es) b).
    { intros. rewrite fold_fail_spec by exact SN. reflexivity. }
    destruct cl; cbn [ps_entries]; rewrite G, flush_spec;
      (constructor; cbn [ps_entries ps_closed ps_close_err ps_inflight ps_bufs pm_owner pm_mail pm_closed pm_close_err];
       try reflexivity; [apply fold_post_proj|constructor]).
  - (* Len *)
    cbn [snd fst pm_owner]. unfold plen. cbn [ps_entries]. rewrite N.eqb_refl. split; [reflexivity|].
    constructor; cbn; try reflexivity; assumption.
  - (* Recv *)
    unfold recv. cbn [ps_bufs pm_mail]. rewrite take_first_proj.
    destruct (take_first c b) as [m r]. cbn [snd fst].
    split.
    + unfold opt_eqb. destruct m as [x|]; cbn [option_eqb]; [|reflexivity].
      unfold outcome_eqb, msg_outcome. cbn [fst snd]. rewrite N.eqb_refl, andb_true_r. apply bytes_eqb_eq. reflexivity.
    + constructor; cbn [ps_entries ps_closed ps_close_err ps_inflight ps_bufs pm_owner pm_mail pm_closed pm_close_err];
        try reflexivity. exact SN.
Qed.

Lemma pm_run_model caps : forall ops s p, Sim s p ->
  pm_run caps p (combine ops (prun caps s ops)) = true.
Proof.
  induction ops as [|o ops IH]; intros s p S; [reflexivity|].
  cbn [prun]. pose proof (sim_step caps s p o S) as ST. cbv zeta in ST.
  destruct (pstep caps s o) as [s' ob] eqn:PS. cbn [combine pm_run]. cbn [snd fst] in ST.
  destruct (pm_step caps p (o, ob)) as [p' ok] eqn:PM. cbn [snd fst] in ST. destruct ST as [-> S'].
  cbn [andb]. exact (IH s' p' S').
Qed.

(* C26 (b): the table monitor accepts every sequential history of the model *)
Lemma mon_pend_model caps ops : mon_pend caps (combine ops (prun caps pinit ops)) = true.
Proof.
  unfold mon_pend. apply pm_run_model. constructor; cbn; try reflexivity. constructor.
Qed.
