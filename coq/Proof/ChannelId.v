(* Proof/ChannelId.v — lemmas about Model/ChannelId.v (person / command / agent
   channel ids).  Everything is over arbitrary byte lists; no length bound. *)
From WK Require Import Base.Base Model.Crc32 Gen.Consts_C35 Model.ChannelId.
Open Scope N_scope.

(* ---- generated constants have the shape the model relies on ----------------- *)

Lemma person_separator_is_at : PersonSeparator = [at_sign].
Proof. reflexivity. Qed.

Lemma agent_separator_is_at : AgentSeparator = [at_sign].
Proof. reflexivity. Qed.

Lemma suffix_nonempty : CommandChannelSuffix <> [].
Proof. discriminate. Qed.

(* ---- bytes_eqb ---------------------------------------------------------------- *)

Lemma bytes_eqb_refl a : bytes_eqb a a = true.
Proof. apply bytes_eqb_eq. reflexivity. Qed.

Lemma bytes_eqb_neq a b : a <> b -> bytes_eqb a b = false.
Proof.
  intro H. destruct (bytes_eqb a b) eqn:E; [|reflexivity].
  apply bytes_eqb_eq in E. contradiction.
Qed.

Lemma bytes_eqb_false a b : bytes_eqb a b = false -> a <> b.
Proof. intros E H. subst. rewrite bytes_eqb_refl in E. discriminate. Qed.

Lemma bytes_eq_dec (a b : bytes) : {a = b} + {a <> b}.
Proof. apply list_eq_dec. apply N.eq_dec. Qed.

(* ---- Go string order ---------------------------------------------------------- *)

Lemma bytes_compare_eq : forall a b, bytes_compare a b = Eq -> a = b.
Proof.
  induction a as [|x a IH]; destruct b as [|y b]; cbn [bytes_compare]; intro H;
    try reflexivity; try discriminate.
  destruct (x ?= y) eqn:E; try discriminate.
  apply N.compare_eq in E. subst. f_equal. apply IH. exact H.
Qed.

Lemma bytes_compare_refl : forall a, bytes_compare a a = Eq.
Proof.
  induction a as [|x a IH]; cbn [bytes_compare]; [reflexivity|].
  rewrite N.compare_refl. exact IH.
Qed.

Lemma bytes_compare_antisym : forall a b, bytes_compare b a = CompOpp (bytes_compare a b).
Proof.
  induction a as [|x a IH]; destruct b as [|y b]; cbn [bytes_compare]; try reflexivity.
  rewrite (N.compare_antisym x y).
  destruct (x ?= y); cbn [CompOpp]; try reflexivity. apply IH.
Qed.

Lemma bytes_gtb_total a b : a <> b -> bytes_gtb a b = negb (bytes_gtb b a).
Proof.
  intro Hne. unfold bytes_gtb. rewrite (bytes_compare_antisym a b).
  destruct (bytes_compare a b) eqn:E; cbn [CompOpp negb]; try reflexivity.
  apply bytes_compare_eq in E. contradiction.
Qed.

(* ---- EncodePersonChannel ------------------------------------------------------ *)

Lemma encode_cases a b :
  EncodePersonChannel a b = join a b \/ EncodePersonChannel a b = join b a.
Proof.
  unfold EncodePersonChannel, join. rewrite person_separator_is_at.
  cbv zeta. destruct (crc32_bitwise b <? crc32_bitwise a); [left; reflexivity|].
  destruct ((crc32_bitwise a =? crc32_bitwise b) && bytes_gtb a b); [left|right]; reflexivity.
Qed.

Lemma encode_sym a b : EncodePersonChannel a b = EncodePersonChannel b a.
Proof.
  destruct (bytes_eq_dec a b) as [->|Hne]; [reflexivity|].
  unfold EncodePersonChannel. cbv zeta.
  set (ha := crc32_bitwise a). set (hb := crc32_bitwise b).
  destruct (N.lt_total ha hb) as [Hlt|[Heq|Hgt]].
  - assert (E1 : hb <? ha = false) by (apply N.ltb_ge; lia).
    assert (E2 : ha =? hb = false) by (apply N.eqb_neq; lia).
    assert (E3 : ha <? hb = true) by (apply N.ltb_lt; exact Hlt).
    rewrite E1, E2, E3. reflexivity.
  - rewrite Heq. rewrite N.ltb_irrefl, N.eqb_refl. cbn [andb].
    rewrite (bytes_gtb_total a b Hne). destruct (bytes_gtb b a); reflexivity.
  - assert (E1 : hb <? ha = true) by (apply N.ltb_lt; exact Hgt).
    assert (E2 : ha <? hb = false) by (apply N.ltb_ge; lia).
    assert (E3 : hb =? ha = false) by (apply N.eqb_neq; lia).
    rewrite E1, E2, E3. reflexivity.
Qed.

(* the order written: the uid with the larger CRC first; on a tie the larger string *)
Lemma encode_first a b :
  exists x y, EncodePersonChannel a b = join x y
    /\ ((x = a /\ y = b) \/ (x = b /\ y = a))
    /\ (crc32_bitwise y < crc32_bitwise x
        \/ (crc32_bitwise y = crc32_bitwise x /\ bytes_gtb y x = false)).
Proof.
  unfold EncodePersonChannel, join. rewrite person_separator_is_at. cbv zeta.
  destruct (crc32_bitwise b <? crc32_bitwise a) eqn:E1.
  - exists a, b. split; [reflexivity|]. split; [left; split; reflexivity|].
    left. apply N.ltb_lt. exact E1.
  - destruct (crc32_bitwise a =? crc32_bitwise b) eqn:E2; cbn [andb].
    + apply N.eqb_eq in E2. destruct (bytes_gtb a b) eqn:E3.
      * exists a, b. split; [reflexivity|]. split; [left; split; reflexivity|].
        right. split; [symmetry; exact E2|].
        destruct (bytes_eq_dec a b) as [->|Hne].
        -- unfold bytes_gtb. rewrite bytes_compare_refl. reflexivity.
        -- rewrite (bytes_gtb_total b a) by (intro; subst; contradiction).
           rewrite E3. reflexivity.
      * exists b, a. split; [reflexivity|]. split; [right; split; reflexivity|].
        right. split; [exact E2|exact E3].
    + exists b, a. split; [reflexivity|]. split; [right; split; reflexivity|].
      left. apply N.ltb_ge in E1. apply N.eqb_neq in E2. lia.
Qed.

(* ---- strings.Split / Contains --------------------------------------------------- *)

Lemma split_on_nonnil sep s : split_on sep s <> [].
Proof.
  destruct s as [|c r]; cbn [split_on]; [discriminate|].
  destruct (c =? sep); [discriminate|]. destruct (split_on sep r); discriminate.
Qed.

Lemma contains_cons sep c r : contains sep (c :: r) = (sep =? c) || contains sep r.
Proof. reflexivity. Qed.

Lemma contains_app sep l r : contains sep (l ++ r) = contains sep l || contains sep r.
Proof. unfold contains. apply existsb_app. Qed.

Lemma split_clean sep : forall s, contains sep s = false -> split_on sep s = [s].
Proof.
  induction s as [|c r IH]; intro H; [reflexivity|].
  rewrite contains_cons in H. apply orb_false_iff in H. destruct H as [Hc Hr].
  cbn [split_on]. rewrite N.eqb_sym, Hc. rewrite (IH Hr). reflexivity.
Qed.

Lemma split_app sep : forall l r, contains sep l = false ->
  split_on sep (l ++ sep :: r) = l :: split_on sep r.
Proof.
  induction l as [|c l IH]; intros r H.
  - cbn [app split_on]. rewrite N.eqb_refl. reflexivity.
  - rewrite contains_cons in H. apply orb_false_iff in H. destruct H as [Hc Hl].
    cbn [app split_on]. rewrite N.eqb_sym, Hc. rewrite (IH r Hl). reflexivity.
Qed.

Lemma split_single sep : forall s p, split_on sep s = [p] -> s = p /\ contains sep s = false.
Proof.
  induction s as [|c r IH]; intros p H.
  - cbn [split_on] in H. inversion H. split; reflexivity.
  - cbn [split_on] in H. destruct (c =? sep) eqn:E.
    + inversion H as [[H0 H1]]. exfalso. exact (split_on_nonnil sep r H1).
    + destruct (split_on sep r) as [|q qs] eqn:S; [exfalso; exact (split_on_nonnil sep r S)|].
      inversion H as [[H0 H1]]. subst qs. destruct (IH q eq_refl) as [Hr Hc].
      split; [rewrite Hr; reflexivity|].
      rewrite contains_cons, N.eqb_sym, E, Hc. reflexivity.
Qed.

Lemma split_two sep : forall s p0 p1, split_on sep s = [p0; p1] ->
  s = p0 ++ sep :: p1 /\ contains sep p0 = false /\ contains sep p1 = false.
Proof.
  induction s as [|c r IH]; intros p0 p1 H.
  - cbn [split_on] in H. discriminate.
  - cbn [split_on] in H. destruct (c =? sep) eqn:E.
    + inversion H as [[H0 H1]]. apply split_single in H1. destruct H1 as [Hr Hc].
      apply N.eqb_eq in E. subst. split; [reflexivity|]. split; [reflexivity|exact Hc].
    + destruct (split_on sep r) as [|q qs] eqn:S; [discriminate|].
      inversion H as [[H0 H1]]. subst qs. destruct (IH q p1 eq_refl) as [Hr [Hq Hp1]].
      split; [rewrite Hr; reflexivity|]. split; [|exact Hp1].
      rewrite contains_cons, N.eqb_sym, E, Hq. reflexivity.
Qed.

(* number of separators *)
Definition count (sep : N) (s : bytes) : nat := length (filter (N.eqb sep) s).

Lemma count_app sep l r : count sep (l ++ r) = (count sep l + count sep r)%nat.
Proof. unfold count. rewrite filter_app, app_length. reflexivity. Qed.

Lemma count_zero sep : forall s, contains sep s = false <-> count sep s = 0%nat.
Proof.
  induction s as [|c r IH]; [split; reflexivity|].
  rewrite contains_cons. unfold count in *. cbn [filter].
  destruct (sep =? c); cbn [orb length]; [split; discriminate|exact IH].
Qed.

Lemma count_join sep l r : count sep (l ++ sep :: r) = S (count sep l + count sep r).
Proof.
  rewrite count_app. unfold count at 2. cbn [filter]. rewrite N.eqb_refl. cbn [length].
  fold (count sep r). lia.
Qed.

Lemma join_inj sep : forall l p0 r p1,
  contains sep l = false -> contains sep p0 = false ->
  l ++ sep :: r = p0 ++ sep :: p1 -> l = p0 /\ r = p1.
Proof.
  induction l as [|c l IH]; intros p0 r p1 Hl Hp H.
  - destruct p0 as [|d p0]; cbn [app] in H.
    + inversion H. split; reflexivity.
    + inversion H as [[H0 H1]]. subst d. rewrite contains_cons, N.eqb_refl in Hp. discriminate.
  - destruct p0 as [|d p0]; cbn [app] in H.
    + inversion H as [[H0 H1]]. subst c. rewrite contains_cons, N.eqb_refl in Hl. discriminate.
    + inversion H as [[H0 H1]]. subst d.
      rewrite contains_cons in Hl, Hp.
      apply orb_false_iff in Hl. apply orb_false_iff in Hp.
      destruct (IH p0 r p1 (proj2 Hl) (proj2 Hp) H1) as [E1 E2]. subst. split; reflexivity.
Qed.

(* ---- clean uids ------------------------------------------------------------------ *)

Lemma clean_spec u : clean u = true <-> u <> [] /\ contains at_sign u = false.
Proof.
  unfold clean. rewrite andb_true_iff, !negb_true_iff. split; intros [H1 H2]; split; try exact H2.
  - intro E. subst. discriminate.
  - destruct u; [contradiction|reflexivity].
Qed.

Lemma is_nil_false u : is_nil u = false <-> u <> [].
Proof. destruct u; split; intro H; try reflexivity; try discriminate; contradiction. Qed.

(* ---- DecodePersonChannel: exact characterisation ------------------------------- *)

Lemma decode_spec c p0 p1 :
  DecodePersonChannel c = Some (p0, p1) <->
  c = join p0 p1 /\ clean p0 = true /\ clean p1 = true.
Proof.
  unfold DecodePersonChannel, join. split.
  - intro H. destruct (split_on at_sign c) as [|q0 [|q1 [|q2 qs]]] eqn:S; try discriminate.
    destruct (is_nil q0) eqn:N0; cbn [orb] in H; [discriminate|].
    destruct (is_nil q1) eqn:N1; [discriminate|]. inversion H. subst q0 q1.
    apply split_two in S. destruct S as [Hc [H0 H1]].
    split; [exact Hc|]. split; apply clean_spec; split; try assumption; apply is_nil_false; assumption.
  - intros [Hc [H0 H1]]. apply clean_spec in H0. apply clean_spec in H1.
    destruct H0 as [N0 C0]. destruct H1 as [N1 C1].
    subst c. rewrite split_app by exact C0. rewrite split_clean by exact C1.
    apply is_nil_false in N0. apply is_nil_false in N1. rewrite N0, N1. reflexivity.
Qed.

Lemma decode_join_clean l r : clean l = true -> clean r = true ->
  DecodePersonChannel (join l r) = Some (l, r).
Proof. intros Hl Hr. apply decode_spec. split; [reflexivity|]. split; assumption. Qed.

(* decoding l@r never yields anything but (l, r), and yields it only for clean uids *)
Lemma decode_join_inv l r p0 p1 :
  DecodePersonChannel (join l r) = Some (p0, p1) ->
  p0 = l /\ p1 = r /\ clean l = true /\ clean r = true.
Proof.
  intro H. apply decode_spec in H. destruct H as [Hj [H0 H1]].
  pose proof H0 as H0'. pose proof H1 as H1'.
  apply clean_spec in H0. apply clean_spec in H1.
  destruct H0 as [N0 C0]. destruct H1 as [N1 C1]. unfold join in Hj.
  assert (Hcnt : count at_sign (l ++ at_sign :: r) = 1%nat).
  { rewrite Hj, count_join. apply count_zero in C0. apply count_zero in C1. lia. }
  rewrite count_join in Hcnt.
  assert (Cl : contains at_sign l = false) by (apply count_zero; lia).
  assert (Cr : contains at_sign r = false) by (apply count_zero; lia).
  destruct (join_inj at_sign l p0 r p1 Cl C0 Hj) as [E1 E2]. subst p0 p1.
  split; [reflexivity|]. split; [reflexivity|]. split; assumption.
Qed.

Lemma decode_join_unclean l r : clean l && clean r = false ->
  DecodePersonChannel (join l r) = None.
Proof.
  intro H. destruct (DecodePersonChannel (join l r)) as [[p0 p1]|] eqn:D; [|reflexivity].
  apply decode_join_inv in D. destruct D as [_ [_ [Hl Hr]]]. rewrite Hl, Hr in H. discriminate.
Qed.

Lemma decode_encode a b : clean a = true -> clean b = true ->
  exists x y, DecodePersonChannel (EncodePersonChannel a b) = Some (x, y)
    /\ EncodePersonChannel a b = join x y
    /\ ((x = a /\ y = b) \/ (x = b /\ y = a))
    /\ (crc32_bitwise y < crc32_bitwise x
        \/ (crc32_bitwise y = crc32_bitwise x /\ bytes_gtb y x = false)).
Proof.
  intros Ha Hb. destruct (encode_first a b) as [x [y [He [Hxy Hord]]]].
  exists x, y. split; [|split; [exact He|split; [exact Hxy|exact Hord]]].
  rewrite He. apply decode_join_clean; destruct Hxy as [[-> ->]|[-> ->]]; assumption.
Qed.

Lemma decode_encode_unclean a b : clean a && clean b = false ->
  DecodePersonChannel (EncodePersonChannel a b) = None.
Proof.
  intro H. destruct (encode_cases a b) as [E|E]; rewrite E; apply decode_join_unclean.
  - exact H.
  - rewrite andb_comm. exact H.
Qed.

(* whatever the uids: a successful decode of the canonical id gives the two users *)
Lemma decode_encode_sound a b x y :
  DecodePersonChannel (EncodePersonChannel a b) = Some (x, y) ->
  EncodePersonChannel a b = join x y /\ ((x = a /\ y = b) \/ (x = b /\ y = a))
  /\ clean a = true /\ clean b = true.
Proof.
  intro H. destruct (encode_cases a b) as [E|E]; rewrite E in *;
    apply decode_join_inv in H; destruct H as [-> [-> [H1 H2]]].
  - split; [reflexivity|]. split; [left; split; reflexivity|]. split; assumption.
  - split; [reflexivity|]. split; [right; split; reflexivity|]. split; assumption.
Qed.

(* ---- NormalizePersonChannel ------------------------------------------------------- *)

Lemma normalize_spec s c r :
  NormalizePersonChannel s c = Some r <->
  s <> [] /\ c <> [] /\
  ((contains at_sign c = false /\ r = EncodePersonChannel s c)
   \/ (exists l r', c = join l r' /\ clean l = true /\ clean r' = true
                    /\ (l = s \/ r' = s) /\ r = EncodePersonChannel l r')).
Proof.
  unfold NormalizePersonChannel. split.
  - intro H. destruct (is_nil s) eqn:Ns; cbn [orb] in H; [discriminate|].
    destruct (is_nil c) eqn:Nc; [discriminate|].
    apply is_nil_false in Ns. apply is_nil_false in Nc.
    split; [exact Ns|]. split; [exact Nc|].
    destruct (contains at_sign c) eqn:Cc; cbn [negb] in H.
    + right. destruct (DecodePersonChannel c) as [[l r']|] eqn:D; [|discriminate].
      apply decode_spec in D. destruct D as [Hc [Hl Hr]].
      destruct (bytes_eqb l s) eqn:E1; cbn [negb andb] in H.
      * apply bytes_eqb_eq in E1. inversion H. exists l, r'. repeat split; try assumption. left; exact E1.
      * destruct (bytes_eqb r' s) eqn:E2; cbn [negb] in H; [|discriminate].
        apply bytes_eqb_eq in E2. inversion H. exists l, r'. repeat split; try assumption. right; exact E2.
    + left. inversion H. split; reflexivity.
  - intros [Ns [Nc H]]. apply is_nil_false in Ns. apply is_nil_false in Nc.
    rewrite Ns, Nc. cbn [orb]. destruct H as [[Cc Hr]|[l [r' [Hc [Hl [Hr' [Hs Hr]]]]]]].
    + rewrite Cc. cbn [negb]. subst r. reflexivity.
    + assert (Cc : contains at_sign c = true).
      { subst c. unfold join. rewrite contains_app, contains_cons, N.eqb_refl.
        cbn [orb]. apply orb_true_r. }
      rewrite Cc. cbn [negb].
      assert (D : DecodePersonChannel c = Some (l, r')) by (apply decode_spec; repeat split; assumption).
      rewrite D. subst r. destruct Hs as [Hs|Hs]; subst s.
      * rewrite bytes_eqb_refl. reflexivity.
      * rewrite (bytes_eqb_refl r'). cbn [negb]. rewrite andb_false_r. reflexivity.
Qed.

(* a sender only ever obtains the two-user id of itself and one other uid *)
Lemma normalize_sender_belongs s c r :
  NormalizePersonChannel s c = Some r ->
  s <> [] /\ exists o, r = EncodePersonChannel s o /\ (r = join s o \/ r = join o s).
Proof.
  intro H. apply normalize_spec in H. destruct H as [Ns [_ H]]. split; [exact Ns|].
  destruct H as [[_ Hr]|[l [r' [_ [_ [_ [Hs Hr]]]]]]].
  - exists c. split; [exact Hr|]. subst r. apply encode_cases.
  - destruct Hs as [Hs|Hs]; subst.
    + exists r'. split; [reflexivity|]. apply encode_cases.
    + exists l. split; [apply encode_sym|]. rewrite encode_sym. apply encode_cases.
Qed.

(* an id that decodes to two other users is rejected *)
Lemma normalize_rejects_foreign s c l r' :
  DecodePersonChannel c = Some (l, r') -> l <> s -> r' <> s ->
  NormalizePersonChannel s c = None.
Proof.
  intros D H1 H2. destruct (NormalizePersonChannel s c) as [r|] eqn:E; [|reflexivity].
  apply normalize_spec in E. destruct E as [_ [_ [[Cc _]|[l2 [r2 [Hc [Hl [Hr [Hs _]]]]]]]]].
  - apply decode_spec in D. destruct D as [Hc _]. subst c. unfold join in Cc.
    rewrite contains_app, contains_cons, N.eqb_refl in Cc. cbn [orb] in Cc.
    rewrite orb_true_r in Cc. discriminate.
  - subst c. apply decode_join_inv in D. destruct D as [-> [-> _]].
    destruct Hs; contradiction.
Qed.

(* an id with "@" that does not decode is rejected *)
Lemma normalize_rejects_undecodable s c :
  contains at_sign c = true -> DecodePersonChannel c = None -> NormalizePersonChannel s c = None.
Proof.
  intros Cc D. unfold NormalizePersonChannel. rewrite Cc, D. cbn [negb].
  destruct (is_nil s || is_nil c); reflexivity.
Qed.

Lemma contains_join l r : contains at_sign (join l r) = true.
Proof. unfold join. rewrite contains_app, contains_cons, N.eqb_refl. cbn [orb]. apply orb_true_r. Qed.

Lemma contains_encode a b : contains at_sign (EncodePersonChannel a b) = true.
Proof. destruct (encode_cases a b) as [E|E]; rewrite E; apply contains_join. Qed.

Lemma encode_nonnil a b : EncodePersonChannel a b <> [].
Proof.
  intro E. pose proof (contains_encode a b) as H. rewrite E in H. discriminate.
Qed.

(* both senders obtain the canonical id, from the peer uid or from the id itself *)
Lemma normalize_canonical a b : clean a = true -> clean b = true ->
  NormalizePersonChannel a b = Some (EncodePersonChannel a b)
  /\ NormalizePersonChannel b a = Some (EncodePersonChannel a b)
  /\ NormalizePersonChannel a (EncodePersonChannel a b) = Some (EncodePersonChannel a b)
  /\ NormalizePersonChannel b (EncodePersonChannel a b) = Some (EncodePersonChannel a b).
Proof.
  intros Ha Hb. pose proof Ha as Ha'. pose proof Hb as Hb'.
  apply clean_spec in Ha'. apply clean_spec in Hb'.
  destruct Ha' as [Na Ca]. destruct Hb' as [Nb Cb].
  split; [|split; [|split]].
  - apply normalize_spec. split; [exact Na|]. split; [exact Nb|]. left. split; [exact Cb|reflexivity].
  - apply normalize_spec. split; [exact Nb|]. split; [exact Na|]. left. split; [exact Ca|apply encode_sym].
  - apply normalize_spec. split; [exact Na|]. split; [apply encode_nonnil|]. right.
    destruct (encode_cases a b) as [E|E].
    + exists a, b. repeat split; try assumption. left; reflexivity.
    + exists b, a. repeat split; try assumption. right; reflexivity. apply encode_sym.
  - apply normalize_spec. split; [exact Nb|]. split; [apply encode_nonnil|]. right.
    destruct (encode_cases a b) as [E|E].
    + exists a, b. repeat split; try assumption. right; reflexivity.
    + exists b, a. repeat split; try assumption. left; reflexivity. apply encode_sym.
Qed.

(* normalizing a normalized id changes nothing, for senders whose uid has no "@" *)
Lemma normalize_idempotent s c r : contains at_sign s = false ->
  NormalizePersonChannel s c = Some r -> NormalizePersonChannel s r = Some r.
Proof.
  intros Cs H. apply normalize_spec in H. destruct H as [Ns [Nc H]].
  assert (Hs : clean s = true) by (apply clean_spec; split; assumption).
  destruct H as [[Cc Hr]|[l [r' [Hc [Hl [Hr' [Hsl Hr]]]]]]]; subst r.
  - assert (Hcc : clean c = true) by (apply clean_spec; split; assumption).
    apply (normalize_canonical s c Hs Hcc).
  - destruct Hsl as [E|E]; subst s.
    + apply (normalize_canonical l r' Hl Hr').
    + apply (normalize_canonical l r' Hl Hr').
Qed.

(* the corner the package does not exclude: a sender uid containing "@" gets an
   id that can be neither decoded nor normalized again *)
Lemma normalize_at_sender_not_idempotent s c :
  contains at_sign s = true -> c <> [] -> contains at_sign c = false ->
  exists r, NormalizePersonChannel s c = Some r
            /\ DecodePersonChannel r = None /\ NormalizePersonChannel s r = None.
Proof.
  intros Cs Nc Cc. exists (EncodePersonChannel s c).
  assert (Ns : s <> []) by (intro E; subst; discriminate).
  assert (Hu : clean s && clean c = false).
  { unfold clean at 1. rewrite Cs. cbn [negb]. rewrite andb_false_r. reflexivity. }
  split; [|split].
  - apply normalize_spec. split; [exact Ns|]. split; [exact Nc|]. left. split; [exact Cc|reflexivity].
  - apply decode_encode_unclean. exact Hu.
  - apply normalize_rejects_undecodable; [apply contains_encode|].
    apply decode_encode_unclean. exact Hu.
Qed.

(* ---- suffix / prefix ---------------------------------------------------------------- *)

Lemma has_suffix_app s suf : has_suffix (s ++ suf) suf = true.
Proof.
  unfold has_suffix. rewrite app_length.
  replace (length s + length suf - length suf)%nat with (length s) by lia.
  rewrite skipn_app, skipn_all, Nat.sub_diag. cbn [app skipn].
  rewrite bytes_eqb_refl, andb_true_r. apply Nat.leb_le. lia.
Qed.

Lemma has_suffix_split s suf : has_suffix s suf = true ->
  s = firstn (length s - length suf) s ++ suf.
Proof.
  unfold has_suffix. intro H. apply andb_true_iff in H. destruct H as [_ H].
  apply bytes_eqb_eq in H.
  rewrite <- (firstn_skipn (length s - length suf) s) at 1. rewrite H. reflexivity.
Qed.

Lemma firstn_app_exact (s suf : bytes) :
  firstn (length (s ++ suf) - length suf) (s ++ suf) = s.
Proof.
  rewrite app_length. replace (length s + length suf - length suf)%nat with (length s) by lia.
  rewrite firstn_app, firstn_all, Nat.sub_diag. cbn [firstn]. apply app_nil_r.
Qed.

Lemma has_prefix_app s t : has_prefix (s ++ t) s = true.
Proof.
  unfold has_prefix. rewrite app_length, firstn_app, firstn_all, Nat.sub_diag.
  cbn [firstn]. rewrite app_nil_r, bytes_eqb_refl, andb_true_r. apply Nat.leb_le. lia.
Qed.

Lemma contains_user_left s o : contains_user s (join s o) = true.
Proof.
  unfold contains_user, join. replace (s ++ at_sign :: o) with ((s ++ [at_sign]) ++ o)
    by (rewrite <- app_assoc; reflexivity).
  rewrite has_prefix_app. reflexivity.
Qed.

Lemma contains_user_right s o : contains_user s (join o s) = true.
Proof.
  unfold contains_user, join. rewrite (has_suffix_app o (at_sign :: s)). apply orb_true_r.
Qed.

(* ---- command.go ------------------------------------------------------------------------ *)

Lemma to_command_is_command x : IsCommandChannel (ToCommandChannel x) = true.
Proof.
  unfold ToCommandChannel. destruct (IsCommandChannel x) eqn:E; [exact E|].
  unfold IsCommandChannel. apply has_suffix_app.
Qed.

Lemma to_command_idempotent x : ToCommandChannel (ToCommandChannel x) = ToCommandChannel x.
Proof.
  unfold ToCommandChannel at 1. rewrite to_command_is_command. reflexivity.
Qed.

Lemma from_to_command x : IsCommandChannel x = false ->
  FromCommandChannel (ToCommandChannel x) = (x, true).
Proof.
  intro H. unfold FromCommandChannel. rewrite to_command_is_command. cbn [negb].
  unfold ToCommandChannel. rewrite H. unfold trim_suffix. rewrite has_suffix_app.
  rewrite firstn_app_exact. reflexivity.
Qed.

Lemma from_command_spec x :
  (IsCommandChannel x = false /\ FromCommandChannel x = (x, false))
  \/ (IsCommandChannel x = true /\ exists y, FromCommandChannel x = (y, true)
        /\ x = y ++ CommandChannelSuffix).
Proof.
  unfold FromCommandChannel. destruct (IsCommandChannel x) eqn:E; cbn [negb]; [right|left].
  - split; [reflexivity|]. unfold IsCommandChannel in E. unfold trim_suffix. rewrite E.
    eexists. split; [reflexivity|]. apply has_suffix_split. exact E.
  - split; reflexivity.
Qed.

(* ids that already carry the suffix: applied once only, so one suffix is stripped *)
Lemma command_suffix_corner x : IsCommandChannel x = true ->
  ToCommandChannel x = x
  /\ exists y, FromCommandChannel (ToCommandChannel x) = (y, true) /\ x = y ++ CommandChannelSuffix.
Proof.
  intro H. unfold ToCommandChannel. rewrite H. split; [reflexivity|].
  destruct (from_command_spec x) as [[E _]|[_ Hy]]; [rewrite H in E; discriminate|exact Hy].
Qed.

Lemma to_from_command x y : FromCommandChannel x = (y, true) -> IsCommandChannel y = false ->
  ToCommandChannel y = x.
Proof.
  intros H Hy. destruct (from_command_spec x) as [[_ E]|[_ [y' [E Hx]]]]; rewrite E in H.
  - inversion H.
  - inversion H. subst y'. unfold ToCommandChannel. rewrite Hy. symmetry. exact Hx.
Qed.

Lemma to_command_injective x y : IsCommandChannel x = false -> IsCommandChannel y = false ->
  ToCommandChannel x = ToCommandChannel y -> x = y.
Proof.
  intros Hx Hy. unfold ToCommandChannel. rewrite Hx, Hy. apply app_inv_tail.
Qed.

(* ---- agent.go ------------------------------------------------------------------------------ *)

Lemma agent_encode_is_join u g : EncodeAgentChannel u g = join u g.
Proof. unfold EncodeAgentChannel, join. rewrite agent_separator_is_at. reflexivity. Qed.

Lemma agent_decode_is_person c : DecodeAgentChannel c = DecodePersonChannel c.
Proof. reflexivity. Qed.

Lemma agent_decode_encode u g : clean u = true -> clean g = true ->
  DecodeAgentChannel (EncodeAgentChannel u g) = Some (u, g).
Proof. intros. rewrite agent_encode_is_join, agent_decode_is_person. apply decode_join_clean; assumption. Qed.

Lemma agent_decode_encode_sound u g x y :
  DecodeAgentChannel (EncodeAgentChannel u g) = Some (x, y) ->
  x = u /\ y = g /\ clean u = true /\ clean g = true.
Proof. rewrite agent_encode_is_join, agent_decode_is_person. apply decode_join_inv. Qed.

(* ---- the monitor accepts every trace of the model ----------------------------------------- *)

Lemma is_id_of_encode a b : is_id_of a b (EncodePersonChannel a b) = true.
Proof.
  unfold is_id_of. destruct (encode_cases a b) as [E|E]; rewrite E, bytes_eqb_refl;
    [reflexivity|apply orb_true_r].
Qed.

Lemma decode_ok_model a b :
  decode_ok a b (EncodePersonChannel a b) (DecodePersonChannel (EncodePersonChannel a b)) = true.
Proof.
  unfold decode_ok. destruct (DecodePersonChannel (EncodePersonChannel a b)) as [[l r]|] eqn:D.
  - apply decode_encode_sound in D. destruct D as [E [Hlr _]]. rewrite E, bytes_eqb_refl. cbn [andb].
    destruct Hlr as [[-> ->]|[-> ->]]; rewrite !bytes_eqb_refl; [reflexivity|apply orb_true_r].
  - destruct (clean a && clean b) eqn:C; [|reflexivity].
    apply andb_true_iff in C. destruct C as [Ha Hb].
    destruct (decode_encode a b Ha Hb) as [x [y [D' _]]]. rewrite D' in D. discriminate.
Qed.

Lemma normalize_ok_model s ch dch :
  dch = None \/ dch = Some (DecodePersonChannel ch) ->
  normalize_ok s ch dch (NormalizePersonChannel s ch) = true.
Proof.
  intro Hd. unfold normalize_ok. destruct (NormalizePersonChannel s ch) as [r|] eqn:E; [|reflexivity].
  pose proof (normalize_sender_belongs s ch r E) as [Ns [o [_ Hj]]].
  apply is_nil_false in Ns. rewrite Ns. cbn [negb andb].
  assert (Hcu : contains_user s r = true).
  { destruct Hj as [-> | ->]; [apply contains_user_left|apply contains_user_right]. }
  rewrite Hcu. cbn [andb].
  apply normalize_spec in E. destruct E as [_ [_ [[Cc Hr]|[l [r' [Hc [Hl [Hr' [Hs Hr]]]]]]]]].
  - rewrite Cc. subst r. apply is_id_of_encode.
  - assert (Cc : contains at_sign ch = true) by (subst ch; apply contains_join).
    rewrite Cc. destruct Hd as [-> | ->]; [reflexivity|].
    assert (D : DecodePersonChannel ch = Some (l, r')) by (apply decode_spec; repeat split; assumption).
    rewrite D. subst r. rewrite is_id_of_encode, andb_true_r.
    destruct Hs as [<- | <-]; rewrite bytes_eqb_refl; [reflexivity|apply orb_true_r].
Qed.

Lemma obytes_eqb_refl o : obytes_eqb o o = true.
Proof. destruct o; [apply bytes_eqb_refl|reflexivity]. Qed.

Lemma person_ok_model a b c x : person_ok (c35_model a b c x) = true.
Proof.
  unfold person_ok, c35_model.
  cbn [c35_a c35_b c35_c c35_enc_ab c35_enc_ba c35_dec_enc c35_dec_c c35_norm_ab c35_norm_ba
       c35_norm_a_enc c35_norm_b_enc c35_norm_ac c35_norm_ac2].
  rewrite <- (encode_sym a b), bytes_eqb_refl, is_id_of_encode, decode_ok_model. cbn [andb].
  rewrite !normalize_ok_model by (first [left; reflexivity | right; reflexivity]).
  rewrite !andb_true_r.
  apply andb_true_iff. split.
  - destruct (clean a && clean b) eqn:C; [|reflexivity].
    apply andb_true_iff in C. destruct C as [Ha Hb].
    destruct (normalize_canonical a b Ha Hb) as [E1 [E2 [E3 E4]]].
    rewrite E1, E2, E3, E4. cbn [obytes_eqb option_eqb]. rewrite bytes_eqb_refl. reflexivity.
  - destruct (NormalizePersonChannel a c) as [r|] eqn:E; [|reflexivity].
    destruct (contains at_sign a) eqn:Ca; [reflexivity|].
    rewrite (normalize_idempotent a c r Ca E). apply obytes_eqb_refl.
Qed.

Lemma command_ok_model a b c x : command_ok (c35_model a b c x) = true.
Proof.
  unfold command_ok, c35_model.
  cbn [c35_x c35_is_x c35_to_x c35_to_to_x c35_is_to_x c35_from_x c35_from_to_x].
  rewrite to_command_idempotent, to_command_is_command, bytes_eqb_refl.
  fold (IsCommandChannel x). rewrite eqb_reflx. cbn [andb].
  destruct (IsCommandChannel x) eqn:E.
  - destruct (command_suffix_corner x E) as [T [y [F Hx]]].
    rewrite T, bytes_eqb_refl. cbn [andb].
    rewrite T in F. rewrite F. cbn [fst snd andb]. rewrite <- Hx, bytes_eqb_refl. reflexivity.
  - rewrite (from_to_command x E). unfold ToCommandChannel. rewrite E.
    unfold FromCommandChannel. rewrite E. cbn [negb fst snd andb]. rewrite !bytes_eqb_refl. reflexivity.
Qed.

Lemma agent_ok_model a b c x : agent_ok (c35_model a b c x) = true.
Proof.
  unfold agent_ok, c35_model. cbn [c35_a c35_b c35_agent_enc c35_agent_dec].
  rewrite agent_encode_is_join, bytes_eqb_refl. cbn [andb]. rewrite agent_decode_is_person.
  destruct (DecodePersonChannel (join a b)) as [[l r]|] eqn:D.
  - apply decode_join_inv in D. destruct D as [-> [-> _]]. rewrite !bytes_eqb_refl. reflexivity.
  - destruct (clean a && clean b) eqn:C; [|reflexivity].
    apply andb_true_iff in C. destruct C as [Ha Hb].
    rewrite (decode_join_clean a b Ha Hb) in D. discriminate.
Qed.

Lemma model_satisfies_monitor a b c x : C35_monitor (c35_model a b c x) = 0.
Proof.
  unfold C35_monitor. rewrite person_ok_model, command_ok_model, agent_ok_model. reflexivity.
Qed.

Lemma model_no_mismatch a b c x : C35_mismatch (c35_model a b c x) = false.
Proof.
  unfold C35_mismatch.
  assert (H : forall k, c35_case_eqb k k = true).
  { intro k. unfold c35_case_eqb, opair_eqb, obytes_eqb, fromres_eqb.
    assert (P : forall o : option (bytes * bytes), option_eqb pair_eqb o o = true).
    { intros [[u v]|]; [|reflexivity]. unfold option_eqb, pair_eqb. cbn [fst snd].
      rewrite !bytes_eqb_refl. reflexivity. }
    assert (Q : forall o : option bytes, option_eqb bytes_eqb o o = true) by apply obytes_eqb_refl.
    rewrite !N.eqb_refl, !bytes_eqb_refl, !P, !Q, !eqb_reflx. reflexivity. }
  cbn [c35_a c35_b c35_c c35_x c35_model]. rewrite H. reflexivity.
Qed.
