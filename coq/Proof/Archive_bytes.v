(* Proof/Archive_bytes.v — C38, part 5: the concrete instance [body := bytes].
   The canonical-form check pins the bytes; the encoding of a valid COMPLETE marker is a
   small non-empty object; bounded reads; and the instantiated forms of the main theorems
   with only SHA-256 [H], Zstandard [unz] and the strict JSON decoders [json_*] abstract. *)
From WK Require Import Base.Base Gen.Consts_C38 Model.Archive.
From WK Require Import Proof.Archive Proof.Archive_binding Proof.Archive_publish.
Open Scope N_scope.

(* ---- canonical = "is the encoding" -------------------------------------------------------- *)
Lemma canon_archive_bytes_enc m b : canon_archive_bytes m b = true -> b = enc_archive_manifest_bytes m.
Proof. unfold canon_archive_bytes. intro E. apply bytes_eqb_eq in E. auto. Qed.
Lemma canon_slot_bytes_enc m b : canon_slot_bytes m b = true -> b = enc_slot_manifest_bytes m.
Proof. unfold canon_slot_bytes. intro E. apply bytes_eqb_eq in E. auto. Qed.
Lemma canon_marker_bytes_enc m b : canon_marker_bytes m b = true -> b = enc_complete_marker_bytes m.
Proof. unfold canon_marker_bytes. intro E. apply bytes_eqb_eq in E. auto. Qed.
Lemma canon_msg_bytes_enc m b : canon_msg_bytes m b = true -> b = enc_msg_manifest_bytes m.
Proof. unfold canon_msg_bytes. intro E. apply bytes_eqb_eq in E. auto. Qed.
Lemma canon_repo_bytes_enc m b : canon_repo_bytes m b = true -> b = enc_repo_marker_bytes m.
Proof. unfold canon_repo_bytes. intro E. apply bytes_eqb_eq in E. auto. Qed.

(* ---- size of the encoded COMPLETE marker ---------------------------------------------------- *)
Lemma dec_digits_length : forall fuel n acc, (length (dec_digits fuel n acc) <= fuel + length acc)%nat.
Proof.
  induction fuel as [|f IH]; intros n acc; cbn [dec_digits]; [lia|].
  destruct (n / 10 =? 0); [cbn [length]; lia|].
  specialize (IH (n / 10) ((48 + n mod 10) :: acc)). cbn [length] in IH. lia.
Qed.

Lemma dec_N_length n : (length (dec_N n) <= S (N.to_nat (N.log2 n)))%nat.
Proof. unfold dec_N. pose proof (dec_digits_length (S (N.to_nat (N.log2 n))) n []). cbn [length] in *. lia. Qed.

Lemma dec_digits_mono : forall f x acc, (length acc <= length (dec_digits f x acc))%nat.
Proof.
  induction f as [|f IH]; intros x acc; cbn [dec_digits]; [lia|].
  destruct (x / 10 =? 0); [cbn [length]; lia|].
  specialize (IH (x / 10) ((48 + x mod 10) :: acc)). cbn [length] in IH. lia.
Qed.

Lemma dec_N_nonempty n : (1 <= length (dec_N n))%nat.
Proof.
  unfold dec_N. cbn [dec_digits]. destruct (n / 10 =? 0); [cbn [length]; lia|].
  pose proof (dec_digits_mono (N.to_nat (N.log2 n)) (n / 10) [48 + n mod 10]) as Hm. cbn [length] in Hm. lia.
Qed.

(* a string of lower-case hexadecimal digits is emitted verbatim *)
Lemma json_str_body_hex : forall s, forallb is_lower_hex s = true -> json_str_body s = s.
Proof.
  induction s as [|c s IH]; [reflexivity|]. cbn [forallb]. intro E. apply andb_true_iff in E. destruct E as [Ec Es].
  cbn [json_str_body].
  assert (Hlt : (c <? 128) = true).
  { unfold is_lower_hex, is_digit in Ec. apply N.ltb_lt.
    apply orb_true_iff in Ec. destruct Ec as [Ec|Ec]; apply andb_true_iff in Ec; destruct Ec as [_ Ec];
      apply N.leb_le in Ec; lia. }
  rewrite Hlt.
  assert (He : esc_ascii c = [c]).
  { unfold is_lower_hex, is_digit in Ec. unfold esc_ascii.
    assert (Hr : 48 <= c /\ c <= 102).
    { apply orb_true_iff in Ec. destruct Ec as [Ec|Ec]; apply andb_true_iff in Ec; destruct Ec as [E1 E2];
        apply N.leb_le in E1; apply N.leb_le in E2; lia. }
    assert (Hn : forall x, x < 48 \/ 102 < x -> (c =? x) = false) by (intros x Hx; apply N.eqb_neq; lia).
    assert (H92 : (c =? 92) = false).
    { apply N.eqb_neq. intro E92. subst c.
      apply orb_true_iff in Ec. destruct Ec as [Ec|Ec]; apply andb_true_iff in Ec; destruct Ec as [E1 E2];
        apply N.leb_le in E1; apply N.leb_le in E2; lia. }
    assert (H60 : (c =? 60) = false).
    { apply N.eqb_neq. intro E60. subst c.
      apply orb_true_iff in Ec. destruct Ec as [Ec|Ec]; apply andb_true_iff in Ec; destruct Ec as [E1 E2];
        apply N.leb_le in E1; apply N.leb_le in E2; lia. }
    assert (H62 : (c =? 62) = false).
    { apply N.eqb_neq. intro E62. subst c.
      apply orb_true_iff in Ec. destruct Ec as [Ec|Ec]; apply andb_true_iff in Ec; destruct Ec as [E1 E2];
        apply N.leb_le in E1; apply N.leb_le in E2; lia. }
    rewrite (Hn 34), H92, (Hn 8), (Hn 12), (Hn 10), (Hn 13), (Hn 9), H60, H62, (Hn 38) by lia.
    assert (H32 : (c <? 32) = false) by (apply N.ltb_ge; lia). rewrite H32. reflexivity. }
  rewrite He, IH by exact Es. reflexivity.
Qed.

Lemma marker_fixed_small :
  Nat.leb (length (jstr CompleteMarkerFormat) + length (dec_N CompleteMarkerVersion)
           + length (concat fields_CompleteMarker) + length fields_CompleteMarker * 4 + 16) 4000 = true.
Proof. vm_compute. reflexivity. Qed.

Lemma fields_CompleteMarker_4 : exists a b c d, fields_CompleteMarker = [a; b; c; d].
Proof. unfold fields_CompleteMarker. do 4 eexists. reflexivity. Qed.

Lemma enc_marker_small k :
  validate_complete_marker k = None -> cm_bytes k <= maxArchiveManifestBytes ->
  0 < blen_bytes (enc_complete_marker_bytes k) /\ blen_bytes (enc_complete_marker_bytes k) <= maxStoredManifestBytes.
Proof.
  intros V Hle. unfold validate_complete_marker in V.
  destruct (negb (bytes_eqb (cm_format k) CompleteMarkerFormat) || negb (cm_version k =? CompleteMarkerVersion)
            || (cm_bytes k =? 0)) eqn:E; [discriminate|].
  apply orb_false_iff in E. destruct E as [E _]. apply orb_false_iff in E. destruct E as [E1 E2].
  apply negb_false_true in E1. apply negb_false_true in E2. apply bytes_eqb_eq in E1. apply N.eqb_eq in E2.
  destruct (negb (validate_sha256 (cm_sha k))) eqn:Es; [discriminate|]. apply negb_false_true in Es.
  unfold validate_sha256 in Es. apply andb_true_iff in Es. destruct Es as [Es1 Es2]. apply Nat.eqb_eq in Es1.
  unfold blen_bytes, enc_complete_marker_bytes, jobj.
  split; [cbn [app length]; lia|].
  pose proof marker_fixed_small as Hf. apply Nat.leb_le in Hf.
  destruct fields_CompleteMarker_4 as (a & b & c & d & Ef). rewrite Ef in *.
  rewrite E1, E2.
  cbn [jkv jjoin concat] in *. unfold jstr at 2. rewrite (json_str_body_hex _ Es2).
  repeat (rewrite app_length in * || cbn [length] in * ).
  pose proof (dec_N_length (cm_bytes k)) as Hd.
  assert (Hlog : (N.to_nat (N.log2 (cm_bytes k)) <= 22)%nat).
  { destruct (N.eq_dec (cm_bytes k) 0) as [Ez|Nz]; [rewrite Ez; cbn; lia|].
    assert (N.log2 (cm_bytes k) <= N.log2 maxArchiveManifestBytes) by (apply N.log2_le_mono; exact Hle).
    assert (N.log2 maxArchiveManifestBytes <= 22) by (vm_compute; discriminate). lia. }
  unfold maxStoredManifestBytes. lia.
Qed.

(* ====================================================================================== *)
(* The instantiated theorems: bodies are byte strings, json.Marshal is the concrete
   encoder, the canonical-form check is byte equality with it. *)
Section Bytes.
  Variable H : bytes -> bytes.                                 (* SHA-256, hex *)
  Variable unz : bytes -> option (N * bytes).                  (* Zstandard decode *)
  Variable json_archive : bytes -> option archive_manifest.    (* strict JSON decode *)
  Variable json_slot : bytes -> option slot_manifest.
  Variable json_marker : bytes -> option complete_marker.
  Variable json_repo : bytes -> option repo_marker.

  Definition verify_b := verify_published_archive bytes blen_bytes H unz json_archive json_slot json_marker
                           canon_archive_bytes canon_slot_bytes canon_marker_bytes.
  Definition consistent_b := consistentb bytes blen_bytes H unz json_archive json_slot json_marker
                               canon_archive_bytes canon_slot_bytes canon_marker_bytes.
  Definition publish_b := publish_archive bytes blen_bytes H unz json_archive json_slot json_marker json_repo
                            canon_archive_bytes canon_slot_bytes canon_marker_bytes canon_repo_bytes
                            enc_archive_manifest_bytes enc_complete_marker_bytes enc_repo_marker_bytes bytes_eqb.
  Definition reachable_b := reachable bytes json_slot canon_slot_bytes.
  Definition collision_b : Prop := exists b1 b2 : bytes, b1 <> b2 /\ H b1 = H b2.

  Lemma bytes_eq_dec : forall a b : bytes, {a = b} + {a <> b}.
  Proof. apply list_eq_dec. apply N.eq_dec. Qed.

  Theorem verify_iff_consistent_b st id m : verify_b st id = Ok m <-> consistent_b st id m = true.
  Proof. apply verify_iff_consistent. Qed.

  Theorem mutation_detected_b st st' id m :
    verify_b st id = Ok m ->
    (get bytes st' (manifest_key id) = get bytes st (manifest_key id)
     \/ get bytes st' (complete_key id) = get bytes st (complete_key id)) ->
    (exists k, In k (reachable_b st id m) /\ get bytes st' k <> get bytes st k) ->
    (exists e, verify_b st' id = Err e) \/ collision_b.
  Proof.
    apply (mutation_detected bytes blen_bytes H unz json_archive json_slot json_marker
             canon_archive_bytes canon_slot_bytes canon_marker_bytes enc_complete_marker_bytes bytes_eq_dec).
    intros k kb. apply canon_marker_bytes_enc.
  Qed.

  Theorem single_put_detected_b st id m k b sz b' sz' :
    verify_b st id = Ok m -> In k (reachable_b st id m) ->
    get bytes st k = Some (b, sz) -> (b', sz') <> (b, sz) ->
    (exists e, verify_b (put bytes k b' sz' st) id = Err e) \/ collision_b.
  Proof.
    apply (single_put_detected bytes blen_bytes H unz json_archive json_slot json_marker
             canon_archive_bytes canon_slot_bytes canon_marker_bytes enc_complete_marker_bytes bytes_eq_dec).
    intros k0 kb. apply canon_marker_bytes_enc.
  Qed.

  Theorem delete_detected_b st id m k :
    verify_b st id = Ok m -> In k (reachable_b st id m) -> get bytes st k <> None ->
    (exists e, verify_b (del bytes k st) id = Err e) \/ collision_b.
  Proof.
    apply (delete_detected bytes blen_bytes H unz json_archive json_slot json_marker
             canon_archive_bytes canon_slot_bytes canon_marker_bytes enc_complete_marker_bytes bytes_eq_dec).
    intros k0 kb. apply canon_marker_bytes_enc.
  Qed.

  Theorem swap_detected_b st id m k1 k2 b1 s1 b2 s2 :
    verify_b st id = Ok m -> In k1 (reachable_b st id m) ->
    k1 <> manifest_key id -> k2 <> manifest_key id -> k1 <> k2 ->
    get bytes st k1 = Some (b1, s1) -> get bytes st k2 = Some (b2, s2) -> (b1, s1) <> (b2, s2) ->
    (exists e, verify_b (put bytes k1 b2 s2 (put bytes k2 b1 s1 st)) id = Err e) \/ collision_b.
  Proof.
    apply (swap_detected bytes blen_bytes H unz json_archive json_slot json_marker
             canon_archive_bytes canon_slot_bytes canon_marker_bytes enc_complete_marker_bytes bytes_eq_dec).
    intros k0 kb. apply canon_marker_bytes_enc.
  Qed.

  (* the strict decoder inverts the encoder on what this run encodes: stated as hypotheses of
     the theorem (the JSON layer is abstract; tied to encoding/json by the codec cases) *)
  Theorem published_verifies_b st rq st' m :
    (forall k, validate_complete_marker k = None -> json_marker (enc_complete_marker_bytes k) = Some k) ->
    (forall a a', json_archive (enc_archive_manifest_bytes a) = Some a' ->
                  canon_archive_bytes a' (enc_archive_manifest_bytes a) = true -> a' = a) ->
    publish_b st rq = (st', Ok m) -> get bytes st (corrupt_key (pr_id rq)) = None ->
    verify_b st' (pr_id rq) = Ok m.
  Proof.
    intros Hjk Hja P Hnc.
    apply (published_verifies bytes blen_bytes H unz json_archive json_slot json_marker json_repo
             canon_archive_bytes canon_slot_bytes canon_marker_bytes canon_repo_bytes
             enc_archive_manifest_bytes enc_complete_marker_bytes enc_repo_marker_bytes bytes_eqb
             (fun a b E => proj1 (bytes_eqb_eq a b) E) Hja st rq st' m P Hnc).
    intros k Vk Hle. unfold marker_faithful. split; [apply Hjk; exact Vk|].
    split; [unfold canon_marker_bytes; apply bytes_eqb_refl|]. apply enc_marker_small; assumption.
  Qed.

  (* ---- decoder strictness --------------------------------------------------------------------- *)
  Theorem load_archive_strict b m :
    load_archive_manifest bytes json_archive canon_archive_bytes b = Ok m <->
    json_archive b = Some m /\ validate_archive_manifest m = None /\ b = enc_archive_manifest_bytes m.
  Proof.
    unfold load_archive_manifest. split.
    - destruct (json_archive b) as [m0|]; [|discriminate].
      destruct (validate_archive_manifest m0) eqn:V; [discriminate|].
      destruct (canon_archive_bytes m0 b) eqn:C; [|discriminate].
      intro E. inversion E; subst. repeat split; auto. apply canon_archive_bytes_enc. exact C.
    - intros (J & V & E). rewrite J, V. unfold canon_archive_bytes. rewrite <- E, bytes_eqb_refl. reflexivity.
  Qed.

  Theorem load_slot_strict b m :
    load_slot_manifest bytes json_slot canon_slot_bytes b = Ok m <->
    json_slot b = Some m /\ validate_slot_manifest m = None /\ b = enc_slot_manifest_bytes m.
  Proof.
    unfold load_slot_manifest. split.
    - destruct (json_slot b) as [m0|]; [|discriminate].
      destruct (validate_slot_manifest m0) eqn:V; [discriminate|].
      destruct (canon_slot_bytes m0 b) eqn:C; [|discriminate].
      intro E. inversion E; subst. repeat split; auto. apply canon_slot_bytes_enc. exact C.
    - intros (J & V & E). rewrite J, V. unfold canon_slot_bytes. rewrite <- E, bytes_eqb_refl. reflexivity.
  Qed.

  Theorem load_marker_strict kb mb k :
    load_complete_marker bytes blen_bytes H json_archive json_marker canon_archive_bytes canon_marker_bytes kb mb = Ok k ->
    kb = enc_complete_marker_bytes k /\ validate_complete_marker k = None
    /\ cm_bytes k = blen_bytes mb /\ cm_sha k = H mb
    /\ exists m, mb = enc_archive_manifest_bytes m /\ validate_archive_manifest m = None.
  Proof.
    intro L. apply load_marker_ok in L. destruct L as (_ & V & C & Hb & Hs & (m & La)).
    apply load_archive_strict in La. destruct La as (_ & Vm & Em).
    repeat split; auto; [apply canon_marker_bytes_enc; exact C|]. exists m. auto.
  Qed.
End Bytes.

(* msg chunk manifests: strict too, and bounded in entries *)
Theorem load_msg_strict (json_msg : bytes -> option msg_manifest) b m :
  load_message_chunk_manifest bytes json_msg canon_msg_bytes b = Ok m ->
  json_msg b = Some m /\ validate_message_chunk_manifest m = None /\ b = enc_msg_manifest_bytes m
  /\ N.of_nat (length (mm_chunks m)) <= maxMessageChunks.
Proof.
  unfold load_message_chunk_manifest.
  destruct (json_msg b) as [m0|]; [|discriminate].
  destruct (validate_message_chunk_manifest m0) eqn:V; [discriminate|].
  destruct (canon_msg_bytes m0 b) eqn:C; [|discriminate].
  intro E. inversion E; subst. repeat split; auto; [apply canon_msg_bytes_enc; exact C|].
  unfold validate_message_chunk_manifest in V.
  destruct (negb (bytes_eqb (mm_format m) messageChunkManifestFormat) || negb (mm_version m =? messageChunkManifestVersion)
            || (DefaultHashSlotCount <=? mm_hash_slot m)); [discriminate|].
  destruct (mm_chunks m) as [|c cs] eqn:Ec; [discriminate|].
  destruct (maxMessageChunks <? N.of_nat (length (c :: cs))) eqn:El; [discriminate|].
  apply N.ltb_ge in El. exact El.
Qed.

(* bounded reads, for any body type *)
Theorem read_bounded (body : Type) (blen : body -> N) st key maxb :
  read_pulled body blen st key maxb <= maxb + 1
  /\ forall b, read_stored_object body blen st key maxb = Ok b ->
               get body st key = Some (b, blen b) /\ 0 < blen b /\ blen b <= maxb.
Proof.
  split.
  - unfold read_pulled. destruct (get body st key) as [[b sz]|]; [|lia].
    destruct ((sz =? 0) || (maxb <? sz)); [lia|]. apply N.le_min_r.
  - intros b R. apply read_ok_iff in R. apply honest_get in R. exact R.
Qed.
