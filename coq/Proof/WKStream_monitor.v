(* Proof/WKStream_monitor.v — C23: the monitor evaluated on implementation traces
   accepts every trace the model produces. *)
From WK Require Import Base.Base Base.Bytes Gen.Consts_C22 Model.WKProto Model.WKStream.
From WK Require Import Proof.WKProto Proof.WKProto_types Proof.WKProto_frame Proof.WKStream Proof.WKStream_feed.
From Coq Require Import ZifyBool ZifyN ZifyNat.
Open Scope N_scope.

(* the case the model itself produces for an input *)
Definition raw_of_step (s : step_obs) : step_raw := StepR (st_batches s) (InBytes (st_inbound s)) (st_closed s).

Definition model_case (sv : option N) (limit : N) (frames : list frame) (chunks : list bytes) : c23_case :=
  let v := sessionVersion_inbound sv in
  C23Case sv limit frames (map (fun f => EncLit (EncodeFrame f v)) frames) chunks
          (Adapter_Decode sv (concat chunks))
          (map raw_of_step (feed_obs limit sv gw_init chunks))
          true.

Lemma resolve_raw : forall steps chunks received,
  resolve_steps chunks (map raw_of_step steps) received = steps.
Proof.
  induction steps as [|s ss IH]; intros chunks received; [reflexivity|].
  cbn [map resolve_steps raw_of_step sr_batches sr_inbound sr_closed resolve_inb].
  rewrite IH. destruct s; reflexivity.
Qed.

Lemma feed_obs_length limit sv : forall chunks st, length (feed_obs limit sv st chunks) = length chunks.
Proof.
  induction chunks as [|c cs IH]; intro st; [reflexivity|].
  cbn [feed_obs]. destruct (onData limit sv st c) as [st1 b]. cbn [length]. rewrite IH. reflexivity.
Qed.

Lemma closed_stays_feed limit sv : forall chunks st flag,
  (flag = true -> gw_closed st = true) ->
  closed_stays (feed_obs limit sv st chunks) flag = true.
Proof.
  induction chunks as [|c cs IH]; intros st flag H; [reflexivity|].
  cbn [feed_obs]. destruct (onData limit sv st c) as [st1 b] eqn:OD.
  cbn [closed_stays st_closed st_batches].
  rewrite (IH st1 (gw_closed st1)) by (intro; assumption). rewrite andb_true_r.
  destruct flag; [|reflexivity].
  specialize (H eq_refl). unfold onData in OD. rewrite H in OD. inversion OD; subst. rewrite H. reflexivity.
Qed.

(* ---- small list facts -------------------------------------------------------------------- *)

Lemma frames_eqb_refl l : frames_eqb l l = true.
Proof.
  unfold frames_eqb. induction l as [|f r IH]; [reflexivity|].
  cbn [list_eqb]. rewrite frame_eqb_refl, IH. reflexivity.
Qed.

Lemma sum_len_concat l : sum_len l = blen (concat l).
Proof.
  induction l as [|a r IH]; [reflexivity|].
  cbn [sum_len fold_right concat]. fold (sum_len r). rewrite IH, blen_app. reflexivity.
Qed.

Lemma firstn_length_app {A} (a b : list A) : firstn (length a) (a ++ b) = a.
Proof. rewrite firstn_app, Nat.sub_diag, firstn_all, firstn_O, app_nil_r. reflexivity. Qed.

Lemma firstn_map_app {A B} (g : A -> B) (a b : list A) :
  firstn (length a) (map g (a ++ b)) = map g a.
Proof. rewrite map_app. rewrite <- (map_length g a). apply firstn_length_app. Qed.

Lemma frame_type_normalize v f : frame_type (normalize v f) = frame_type f.
Proof. destruct f; reflexivity. Qed.

Lemma types_ok_decoded v fs tl : types_ok (decoded v fs tl) = true.
Proof.
  unfold types_ok. induction fs as [|f r IH]; [reflexivity|].
  cbn [decoded forallb fst snd m_type]. rewrite frame_type_normalize, N.eqb_refl. exact IH.
Qed.

Lemma stream_of_app v a b : stream_of v (a ++ b) = stream_of v a ++ stream_of v b.
Proof. unfold stream_of. rewrite map_app, concat_app. reflexivity. Qed.

Lemma concat_batch v mid tl :
  concat (match mid with [] => [] | _ => [decoded v mid tl] end) = decoded v mid tl.
Proof. destruct mid; [reflexivity|]. cbn [concat]. apply app_nil_r. Qed.

(* ---- the walk over the steps of a valid stream ------------------------------------------------ *)

Section Valid.
Variable sv : option N.
Variable limit : N.
Let v : N := sessionVersion_inbound sv.

Lemma valid_steps_feed : forall chunks done rem p0,
  Forall (fun f => within_limits v f = true) rem ->
  pending v p0 rem ->
  p0 ++ concat chunks = stream_of v rem ->
  limit_ok limit (blen (stream_of v rem)) ->
  valid_steps_ok (map (normalize v) (done ++ rem)) (map (enc v) (done ++ rem)) chunks
                 (feed_obs limit sv (GW p0 false false) chunks)
                 (map (normalize v) done) (blen (stream_of v done) + blen p0) = true.
Proof.
  induction chunks as [|c cs IH]; intros done rem p0 W P E L.
  - cbn [concat] in E. rewrite app_nil_r in E.
    destruct (pending_all v p0 rem P E) as [-> ->]. rewrite app_nil_r.
    cbn [feed_obs valid_steps_ok]. apply frames_eqb_refl.
  - cbn [concat] in E. rewrite app_assoc in E.
    destruct (split_stream v rem (p0 ++ c) (concat cs) E) as [mid [rem2 [p [F [A [B P2]]]]]].
    subst rem. destruct (Forall_app_inv _ _ _ W) as [Wm Wr].
    assert (Np : needy p v) by (apply (pending_needy v p rem2 Wr P2)).
    assert (OL : over_limit limit (blen (p0 ++ c)) = false).
    { apply (limit_ok_over limit _ _ L). rewrite <- E. apply blen_concat_app. }
    pose proof (onData_frames sv limit p0 c mid p Wm Np A OL) as OD. fold v in OD.
    assert (L2 : limit_ok limit (blen (stream_of v rem2))).
    { destruct L as [L|L]; [left; exact L|right]. rewrite stream_of_app, blen_app in L. lia. }
    cbn [feed_obs]. rewrite OD. cbn [gw_closed gw_inbound].
    cbn [valid_steps_ok st_closed st_batches st_inbound negb andb].
    rewrite concat_batch, map_fst_decoded, <- map_app, types_ok_decoded.
    rewrite map_length.
    (* expected / encodings split at done ++ mid *)
    rewrite (app_assoc done mid rem2).
    rewrite !firstn_map_app, frames_eqb_refl, sum_len_concat.
    fold (stream_of v (done ++ mid)).
    assert (Ar : blen (stream_of v (done ++ mid)) + blen p = blen (stream_of v done) + blen p0 + blen c).
    { rewrite stream_of_app, blen_app.
      apply (f_equal blen) in A. rewrite !blen_app in A. lia. }
    rewrite Ar, N.eqb_refl. cbn [andb].
    (* the last chunk leaves nothing buffered *)
    match goal with |- ?m && _ = true => assert (Last : m = true) end.
    { destruct cs; [|reflexivity]. cbn [concat] in B. rewrite app_nil_r in B.
      destruct (pending_all v p rem2 P2 B) as [-> _]. reflexivity. }
    rewrite Last. cbn [andb].
    rewrite <- Ar.
    apply (IH (done ++ mid) rem2 p Wr P2 B L2).
Qed.

End Valid.

(* ---- the monitor accepts the model's own trace ------------------------------------------------ *)

Lemma encs_model v : forall frames bs,
  forallb (within_limits v) frames = true ->
  encs_bytes (map (fun f => EncodeFrame f v) frames) = Some bs -> bs = map (enc v) frames.
Proof.
  induction frames as [|f r IH]; intros bs W H.
  - cbn in H. inversion H. reflexivity.
  - cbn [forallb] in W. apply andb_prop in W. destruct W as [Wf Wr].
    cbn [map encs_bytes] in H. rewrite (EncodeFrame_ok v f Wf) in H.
    destruct (encs_bytes (map (fun f0 => EncodeFrame f0 v) r)) as [bs'|] eqn:E; [|discriminate].
    inversion H; subst. cbn [map]. rewrite (IH bs' Wr eq_refl). reflexivity.
Qed.

Theorem model_satisfies_monitor sv limit frames chunks :
  C23_monitor (model_case sv limit frames chunks) = 0.
Proof.
  set (c := model_case sv limit frames chunks).
  set (v := sessionVersion_inbound sv).
  assert (St : c23_steps c = feed_obs limit sv gw_init chunks).
  { unfold c23_steps, c, model_case. cbn [c23_chunks c23_steps_raw]. apply resolve_raw. }
  assert (En : c23_encs c = map (fun f => EncodeFrame f v) frames).
  { unfold c23_encs, c, model_case. cbn [c23_encs_raw]. rewrite map_map. reflexivity. }
  unfold C23_monitor, safety_ok, valid_stream.
  rewrite St, En.
  change (c23_sv c) with sv. change (c23_frames c) with frames. change (c23_chunks c) with chunks.
  change (c23_limit c) with limit. change (c23_whole c) with (Adapter_Decode sv (concat chunks)).
  change (c23_detach c) with true. fold v.
  clearbody c. clear St En c.
  (* safety *)
  destruct (Adapter_Decode_total sv (concat chunks)) as [NP LE].
  rewrite closed_stays_feed by discriminate.
  rewrite feed_obs_length, Nat.eqb_refl.
  assert (Saf : match Adapter_Decode sv (concat chunks) with
                | AOk _ consumed => consumed <=? blen (concat chunks)
                | AErr => true
                | APanic => false
                end = true).
  { destruct (Adapter_Decode sv (concat chunks)) as [fs cn| |] eqn:AD.
    - specialize (LE fs cn eq_refl). lia.
    - reflexivity.
    - exfalso. apply NP. reflexivity. }
  rewrite Saf. cbn [andb negb].
  (* valid streams *)
  destruct (encs_bytes (map (fun f => EncodeFrame f v) frames)) as [bs|] eqn:EB; [|reflexivity].
  destruct (forallb (within_limits v) frames) eqn:W; [|reflexivity]. cbn [andb].
  destruct ((length bs =? length frames)%nat) eqn:LN; [|reflexivity]. cbn [andb].
  destruct (bytes_eqb (concat chunks) (concat bs)) eqn:BE; [|reflexivity]. cbn [andb].
  destruct ((limit =? 0) || (blen (concat bs) <=? limit)) eqn:LM; [|reflexivity].
  pose proof (encs_model v frames bs W EB) as Ebs. subst bs.
  apply bytes_eqb_eq in BE. fold (stream_of v frames) in BE, LM.
  assert (WF : Forall (fun f => within_limits v f = true) frames).
  { apply Forall_forall. intros f I. rewrite forallb_forall in W. apply W. exact I. }
  assert (LO : limit_ok limit (blen (stream_of v frames))).
  { unfold limit_ok. apply orb_prop in LM. destruct LM as [Z|Z]; [left|right]; lia. }
  (* the whole-buffer decode *)
  rewrite BE.
  pose proof (Adapter_Decode_frames sv frames [] WF (or_introl eq_refl)) as AD. fold v in AD.
  rewrite app_nil_r in AD. rewrite AD.
  rewrite map_fst_decoded, frames_eqb_refl, N.eqb_refl. cbn [andb].
  (* the steps *)
  pose proof (valid_steps_feed sv limit chunks [] frames [] WF (or_introl eq_refl) BE LO) as VS.
  fold v in VS. cbn [app map] in VS. unfold gw_init.
  change (blen (stream_of v []) + blen []) with 0 in VS.
  rewrite VS. reflexivity.
Qed.
