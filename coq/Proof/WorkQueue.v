(* Proof/WorkQueue.v — lemmas shared by the three work-queue developments:
   list utilities, reflection of the monitor's clauses, and the reduction of
   "C37_monitor h is 0 or the known code k" to first-order facts about h. *)
From WK Require Import Base.Base Model.WorkQueue.
Open Scope N_scope.

(* ---- set_nth ------------------------------------------------------------------- *)

Lemma nth_set_nth_eq {A} (t : nat) (x d : A) : forall l, nth t (set_nth t x d l) d = x.
Proof.
  induction t as [|t IH]; intros [|y r]; cbn [set_nth nth]; auto.
Qed.

Lemma nth_set_nth_neq {A} (t t' : nat) (x d : A) : t <> t' ->
  forall l, nth t' (set_nth t x d l) d = nth t' l d.
Proof.
  revert t'. induction t as [|t IH]; intros [|t'] Hne [|y r]; cbn [set_nth nth]; try congruence; auto.
  - destruct t'; reflexivity.
  - rewrite IH by congruence. destruct t'; reflexivity.
Qed.

Lemma nth_set_nth {A} (t t' : nat) (x d : A) l :
  nth t' (set_nth t x d l) d = if Nat.eqb t t' then x else nth t' l d.
Proof.
  destruct (Nat.eqb_spec t t') as [->|Hne]; [apply nth_set_nth_eq|apply nth_set_nth_neq; exact Hne].
Qed.

Lemma In_set_nth {A} (t : nat) (x d y : A) : forall l,
  In y (set_nth t x d l) -> y = x \/ y = d \/ In y l.
Proof.
  induction t as [|t IH]; intros [|z r] H; cbn [set_nth] in H.
  - destruct H as [<-|[]]. left; reflexivity.
  - destruct H as [<-|H]; [left; reflexivity|right; right; right; exact H].
  - destruct H as [<-|H]; [right; left; reflexivity|].
    destruct (IH [] H) as [E|[E|[]]]; auto.
  - destruct H as [<-|H]; [right; right; left; reflexivity|].
    destruct (IH r H) as [E|[E|E]]; auto. right; right; right; exact E.
Qed.

Lemma nth_In_or_default {A} (t : nat) (l : list A) d : In (nth t l d) l \/ nth t l d = d.
Proof. destruct (nth_in_or_default t l d); auto. Qed.

Lemma In_nth_ex {A} (x : A) l d : In x l -> exists t, nth t l d = x.
Proof. intro H. destruct (In_nth l x d H) as (t & _ & E). exists t. exact E. Qed.

Lemma NoDup_insert {A} (x : A) l1 l2 : NoDup (l1 ++ l2) -> ~ In x (l1 ++ l2) -> NoDup (l1 ++ x :: l2).
Proof.
  induction l1 as [|y l1 IH]; cbn [app]; intros Hnd Hnin.
  - constructor; assumption.
  - inversion Hnd; subst. constructor.
    + intro Hin. apply in_app_or in Hin. destruct Hin as [Hin|[E|Hin]].
      * apply H1. apply in_or_app. left; exact Hin.
      * apply Hnin. left. symmetry; exact E.
      * apply H1. apply in_or_app. right; exact Hin.
    + apply IH; [assumption|]. intro Hin. apply Hnin. right. exact Hin.
Qed.

Lemma NoDup_map_inj {A B} (f : A -> B) l a b :
  NoDup (map f l) -> In a l -> In b l -> f a = f b -> a = b.
Proof.
  induction l as [|y l IH]; intros Hnd Ha Hb E; [destruct Ha|].
  cbn [map] in Hnd. inversion Hnd; subst.
  destruct Ha as [->|Ha], Hb as [->|Hb]; auto.
  - exfalso. apply H1. rewrite E. apply in_map. exact Hb.
  - exfalso. apply H1. rewrite <- E. apply in_map. exact Ha.
Qed.

Lemma NoDup_app_r {A} (l1 l2 : list A) : NoDup (l1 ++ l2) -> NoDup l2.
Proof. induction l1 as [|x l1 IH]; cbn [app]; intro H; [exact H|]. inversion H; subst. apply IH. assumption. Qed.

Lemma NoDup_app_l {A} (l1 l2 : list A) : NoDup (l1 ++ l2) -> NoDup l1.
Proof.
  induction l1 as [|x l1 IH]; cbn [app]; intro H; [constructor|]. inversion H; subst. constructor.
  - intro Hin. apply H2. apply in_or_app. left; exact Hin.
  - apply IH. assumption.
Qed.

(* ---- boolean reflection ------------------------------------------------------------ *)

Lemma existsb_eqb_In x l : existsb (N.eqb x) l = true <-> In x l.
Proof.
  rewrite existsb_exists. split.
  - intros (y & Hy & E). apply N.eqb_eq in E. subst. exact Hy.
  - intro H. exists x. split; [exact H|apply N.eqb_refl].
Qed.

Lemma existsb_eqb_notIn x l : existsb (N.eqb x) l = false <-> ~ In x l.
Proof.
  rewrite <- existsb_eqb_In. destruct (existsb (N.eqb x) l); split; intro H; try reflexivity; try discriminate.
  exfalso. apply H. reflexivity.
Qed.

Lemma nodupb_NoDup l : nodupb l = true <-> NoDup l.
Proof.
  induction l as [|x r IH]; cbn [nodupb].
  - split; [constructor|reflexivity].
  - rewrite andb_true_iff, negb_true_iff, existsb_eqb_notIn, IH. split.
    + intros [H1 H2]. constructor; assumption.
    + intro H. inversion H; subst. split; assumption.
Qed.

Lemma all_pairs_intro {A} (f : A -> A -> bool) l :
  (forall l1 a l2 b l3, l = l1 ++ a :: l2 ++ b :: l3 -> f a b = true /\ f b a = true) ->
  all_pairs f l = true.
Proof.
  induction l as [|a r IH]; intro H; [reflexivity|].
  cbn [all_pairs]. apply andb_true_iff. split.
  - apply forallb_forall. intros b Hb. apply in_split in Hb. destruct Hb as (l2 & l3 & ->).
    apply andb_true_iff. apply (H [] a l2 b l3). reflexivity.
  - apply IH. intros l1 a' l2 b l3 E. apply (H (a :: l1) a' l2 b l3). rewrite E. reflexivity.
Qed.

(* ---- the monitor from first-order facts -------------------------------------------- *)

Definition allowed (k c : N) : Prop := c = 0 \/ c = k.

Lemma comb_allowed k a b : k <> 1 -> allowed k a -> allowed k b -> allowed k (comb a b).
Proof.
  intros Hk [-> | ->] [-> | ->]; unfold comb, allowed;
    change (0 =? 1) with false; change (0 =? 0) with true;
    try (destruct (N.eqb_spec k 1) as [E|_]; [contradiction|]); cbn [orb];
    try (destruct (N.eqb_spec k 0) as [E0|_]); auto.
Qed.

Lemma close_code_allowed h c k : k <> 1 ->
  (l_ok c = true -> forall s, In s (h_subs h) -> is_ok (s_res s) = true -> allowed k (task_code h c s)) ->
  allowed k (close_code h c).
Proof.
  intros Hk H. unfold close_code. destruct (l_ok c); [|left; reflexivity].
  specialize (H eq_refl). induction (h_subs h) as [|s r IH]; cbn [fold_right]; [left; reflexivity|].
  destruct (is_ok (s_res s)) eqn:E.
  - apply comb_allowed; [exact Hk|apply H; [left; reflexivity|exact E]|].
    apply IH. intros s' Hs'. apply H. right; exact Hs'.
  - apply IH. intros s' Hs'. apply H. right; exact Hs'.
Qed.

Lemma closes_code_allowed h k : k <> 1 ->
  (forall c, In c (h_clos h) -> l_ok c = true ->
     forall s, In s (h_subs h) -> is_ok (s_res s) = true -> allowed k (task_code h c s)) ->
  allowed k (closes_code h).
Proof.
  intros Hk H. unfold closes_code. induction (h_clos h) as [|c r IH]; cbn [fold_right]; [left; reflexivity|].
  apply comb_allowed; [exact Hk| |].
  - apply close_code_allowed; [exact Hk|]. intros Hok s Hs Es. apply (H c); auto. left; reflexivity.
  - apply IH. intros c' Hc'. apply H. right; exact Hc'.
Qed.

Lemma ok_once_intro h : NoDup (terminal_ids h) -> ok_once h = true.
Proof. intro H. unfold ok_once. apply nodupb_NoDup. exact H. Qed.

Lemma ok_rejected_intro h :
  (forall s, In s (h_subs h) -> is_ok (s_res s) = false -> ~ In (s_task s) (terminal_ids h)) ->
  ok_rejected h = true.
Proof.
  intro H. unfold ok_rejected. apply forallb_forall. intros s Hs.
  destruct (is_ok (s_res s)) eqn:E; [reflexivity|]. cbn [orb]. apply negb_true_iff.
  unfold has_terminal. apply existsb_eqb_notIn. apply H; assumption.
Qed.

Lemma monitor_allowed h k : k <> 1 ->
  ok_once h = true -> ok_rejected h = true -> ok_cancel_cfg h = true -> ok_mailbox h = true ->
  (forall c, In c (h_clos h) -> l_ok c = true ->
     forall s, In s (h_subs h) -> is_ok (s_res s) = true -> allowed k (task_code h c s)) ->
  allowed k (C37_monitor h).
Proof.
  intros Hk H1 H2 H3 H4 H5. unfold C37_monitor. rewrite H1, H2, H3, H4. cbn [andb].
  apply closes_code_allowed; assumption.
Qed.

Lemma terminal_before_run h x ce r :
  In r (h_runs h) -> r_task r = x -> r_e r < ce -> terminal_before h x ce = true.
Proof.
  intros Hin E Hlt. unfold terminal_before. apply orb_true_iff. left.
  apply existsb_exists. exists r. split; [exact Hin|].
  apply andb_true_iff. split; [apply N.eqb_eq; exact E|apply N.ltb_lt; exact Hlt].
Qed.

Lemma terminal_before_can h x ce r :
  In r (h_cans h) -> k_task r = x -> k_at r < ce -> terminal_before h x ce = true.
Proof.
  intros Hin E Hlt. unfold terminal_before. apply orb_true_iff. right.
  apply existsb_exists. exists r. split; [exact Hin|].
  apply andb_true_iff. split; [apply N.eqb_eq; exact E|apply N.ltb_lt; exact Hlt].
Qed.

Lemma task_code_zero h c s : terminal_before h (s_task s) (l_e c) = true -> task_code h c s = 0.
Proof. intro H. unfold task_code. rewrite H. reflexivity. Qed.

Lemma has_terminal_false h x : ~ In x (terminal_ids h) -> has_terminal h x = false.
Proof. intro H. unfold has_terminal. apply existsb_eqb_notIn. exact H. Qed.

Lemma terminal_before_false h x ce : ~ In x (terminal_ids h) -> terminal_before h x ce = false.
Proof.
  intro H. unfold terminal_before. apply orb_false_iff. split.
  - apply not_true_is_false. intro E. apply existsb_exists in E. destruct E as (r & Hr & E).
    apply andb_true_iff in E. destruct E as [E _]. apply N.eqb_eq in E. apply H.
    unfold terminal_ids. apply in_or_app. left. rewrite <- E. apply in_map. exact Hr.
  - apply not_true_is_false. intro E. apply existsb_exists in E. destruct E as (r & Hr & E).
    apply andb_true_iff in E. destruct E as [E _]. apply N.eqb_eq in E. apply H.
    unfold terminal_ids. apply in_or_app. right. rewrite <- E. apply in_map. exact Hr.
Qed.
