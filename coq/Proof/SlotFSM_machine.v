(* Proof/SlotFSM_machine.v — the overlay theorem of the batch machine of Model/SlotFSM.v.

   Hypotheses (Section variables; discharged for the slot state machine in
   Proof/SlotFSM_inst.v):
     eqv          an equivalence on stores ("equal up to the applied-index watermark")
     good, good_op the commands / deferred operations the theorem is about
     Vinv s v     well-formedness of a commit overlay v over the committed store s
     Agree s t v  the staging state t and the commit overlay v, built from the same
                  commands over s, describe the same virtual store
     H_init       the empty overlay: flush s (v0 s) = s
     H_op         a deferred operation reads only through the overlay: on overlays with
                  equivalent flushed stores it has the same outcome, and equivalent results
     H_stage      a loop iteration reads only through the staging state: staging a command
                  in the middle of a batch (s, t) and staging it at the head of a fresh
                  batch over the flushed store give the same operations and result, and
                  running those operations keeps Agree
     H_fatal      whether staging a good command fails does not depend on the state
     H_finish     the SetSlotAppliedIndex operations succeed and stay inside eqv
   Theorems:
     machine_batch_eq_singles     a batch that returns results = one command per batch
     machine_abort_no_effect      a batch stopped by a staging / commit error changes nothing
     machine_fatal_agrees         a failing batch: the one-per-batch run fails too, and the
                                  store is the initial one or the one-per-batch store
     machine_partition_invariant  every partition of a log whose one-per-batch run succeeds
                                  gives the same results and an equivalent store *)
From WK Require Import Base.Base Model.SlotFSM.
Open Scope N_scope.

Section MachineTheory.
  Context {S T V O C R : Type}.
  Variable stage : S -> T -> C -> @sres T O R.
  Variable t0 : T.
  Variable finish : list C -> list O.
  Variable v0 : S -> V.
  Variable run_op : S -> V -> O -> @ores V.
  Variable flush : S -> V -> S.
  Variable r_stale : R.

  Variable eqv : S -> S -> Prop.
  Hypothesis eqv_refl : forall s, eqv s s.
  Hypothesis eqv_sym : forall a b, eqv a b -> eqv b a.
  Hypothesis eqv_trans : forall a b c, eqv a b -> eqv b c -> eqv a c.

  Variable good : C -> Prop.
  Variable good_op : O -> Prop.
  Variable Vinv : S -> V -> Prop.
  Variable Agree : S -> T -> V -> Prop.

  Definition sim_ores (s s' : S) (a b : @ores V) : Prop :=
    match a, b with
    | OOk x, OOk y => eqv (flush s x) (flush s' y) /\ Vinv s x /\ Vinv s' y
    | OStale, OStale => True
    | OFatal e, OFatal e' => e = e'
    | _, _ => False
    end.

  Hypothesis H_init : forall s, Vinv s (v0 s) /\ Agree s t0 (v0 s) /\ flush s (v0 s) = s.

  Hypothesis H_op : forall s v s' v' o,
      good_op o -> Vinv s v -> Vinv s' v' -> eqv (flush s v) (flush s' v') ->
      sim_ores s s' (run_op s v o) (run_op s' v' o).

  Hypothesis H_stage : forall s t v s1 c,
      good c -> Vinv s v -> Agree s t v -> eqv s1 (flush s v) ->
      match stage s t c, stage s1 t0 c with
      | SFatal e, SFatal e' => e = e'
      | SDone t' ops r, SDone _ ops' r' =>
          ops = ops' /\ r = r' /\ Forall good_op ops /\
          (forall v', run_ops run_op s v ops = OOk v' -> Agree s t' v')
      | _, _ => False
      end.

  Hypothesis H_fatal : forall s t c e, good c -> stage s t c = SFatal e -> forall s' t', stage s' t' c = SFatal e.

  Hypothesis H_finish : forall s v cs, Vinv s v ->
      exists v', run_ops run_op s v (finish cs) = OOk v' /\ eqv (flush s v') (flush s v) /\ Vinv s v'.

  Notation stage_all := (stage_all stage).
  Notation run_ops := (run_ops run_op).
  Notation apply_core := (apply_core stage t0 finish v0 run_op flush).
  Notation apply_one := (apply_one stage t0 finish v0 run_op flush r_stale).
  Notation apply_individually := (apply_individually stage t0 finish v0 run_op flush r_stale).
  Notation ApplyBatch := (ApplyBatch stage t0 finish v0 run_op flush r_stale).
  Notation apply_partition := (apply_partition stage t0 finish v0 run_op flush r_stale).

  (* ---- run_ops ---------------------------------------------------------------------- *)

  Lemma run_ops_app s v a b :
    run_ops s v (a ++ b) =
    match run_ops s v a with
    | OOk v' => run_ops s v' b
    | OStale => OStale
    | OFatal e => OFatal e
    end.
  Proof.
    revert v. induction a as [|o a IH]; intro v; cbn [app SlotFSM.run_ops]; [reflexivity|].
    destruct (run_op s v o); auto.
  Qed.

  Lemma run_ops_sim ops : forall s v s' v',
      Forall good_op ops -> Vinv s v -> Vinv s' v' -> eqv (flush s v) (flush s' v') ->
      sim_ores s s' (run_ops s v ops) (run_ops s' v' ops).
  Proof.
    induction ops as [|o ops IH]; intros s v s' v' Hg Hv Hv' He; cbn [SlotFSM.run_ops].
    - cbn. auto.
    - inversion Hg as [|? ? Ho Hops]; subst.
      pose proof (H_op s v s' v' o Ho Hv Hv' He) as Hs. unfold sim_ores in Hs.
      destruct (run_op s v o) as [a| |e], (run_op s' v' o) as [b| |e']; try contradiction.
      + destruct Hs as (E & A & B). apply IH; assumption.
      + exact I.
      + cbn. exact Hs.
  Qed.

  (* a single command at the head of a fresh batch over a store equivalent to the flushed one *)
  Lemma single_sim s t v s1 c t' ops x :
    good c -> Vinv s v -> Agree s t v -> eqv s1 (flush s v) ->
    stage s t c = SDone t' ops x ->
    exists t1, stage s1 t0 c = SDone t1 ops x /\ Forall good_op ops /\
               (forall v', run_ops s v ops = OOk v' -> Agree s t' v').
  Proof.
    intros Hg Hv Ha He Hst. pose proof (H_stage s t v s1 c Hg Hv Ha He) as H. rewrite Hst in H.
    destruct (stage s1 t0 c) as [e|t1 ops' r']; [contradiction|].
    destruct H as (-> & -> & F & A). exists t1. auto.
  Qed.

  Lemma apply_core_single s1 c t1 ops x :
    stage s1 t0 c = SDone t1 ops x ->
    apply_core s1 [c] =
    match run_ops s1 (v0 s1) (ops ++ finish [c]) with
    | OOk v => CoreOk (flush s1 v) [x]
    | OStale => CoreStale
    | OFatal e => CoreErr e
    end.
  Proof.
    intro H. unfold SlotFSM.apply_core. cbn [SlotFSM.stage_all]. rewrite H. rewrite app_nil_r. reflexivity.
  Qed.

  (* the commands of a batch whose operations all commit, replayed one per batch *)
  Lemma batch_sim cs : forall s t v s1 ops rs vf,
      Forall good cs -> Vinv s v -> Agree s t v -> eqv s1 (flush s v) ->
      stage_all s t cs = inr (ops, rs) ->
      run_ops s v ops = OOk vf ->
      exists s1', apply_individually s1 cs = (s1', BRes rs) /\ eqv s1' (flush s vf) /\ Vinv s vf.
  Proof.
    induction cs as [|c cs IH]; intros s t v s1 ops rs vf Hg Hv Ha He Hst Hrun.
    - cbn in Hst. inversion Hst; subst. cbn in Hrun. inversion Hrun; subst.
      exists s1. split; [reflexivity|split; assumption].
    - inversion Hg as [|? ? Hc Hcs]; subst.
      cbn [SlotFSM.stage_all] in Hst.
      destruct (stage s t c) as [e|t' ops_c x] eqn:Hsc; [discriminate|].
      destruct (stage_all s t' cs) as [e|[ops_r rs']] eqn:Hsr; [discriminate|].
      inversion Hst; subst ops rs. clear Hst.
      rewrite run_ops_app in Hrun.
      destruct (run_ops s v ops_c) as [v'| |e] eqn:Hrc; try discriminate.
      destruct (single_sim s t v s1 c t' ops_c x Hc Hv Ha He Hsc) as (t1 & Hs1 & Fg & Hag).
      destruct (H_init s1) as (Hv1 & _ & Hf1).
      assert (Hsim : sim_ores s1 s (run_ops s1 (v0 s1) ops_c) (run_ops s v ops_c)).
      { apply run_ops_sim; auto. rewrite Hf1. assumption. }
      rewrite Hrc in Hsim. unfold sim_ores in Hsim.
      destruct (run_ops s1 (v0 s1) ops_c) as [w| |e] eqn:Hrw; try contradiction.
      destruct Hsim as (Ew & Vw & Vv').
      destruct (H_finish s1 w [c] Vw) as (w' & Hfin & Ew' & Vw').
      assert (Hone : apply_one s1 c = (flush s1 w', inr x)).
      { unfold SlotFSM.apply_one. rewrite (apply_core_single s1 c t1 ops_c x Hs1).
        rewrite run_ops_app, Hrw, Hfin. reflexivity. }
      destruct (IH s t' v' (flush s1 w') ops_r rs' vf Hcs Vv' (Hag v' Hrc)) as (s1' & Hind & Efin & Vfin); auto.
      { eapply eqv_trans; eauto. }
      exists s1'. split; [|split; assumption].
      cbn [SlotFSM.apply_individually]. rewrite Hone, Hind. reflexivity.
  Qed.

  (* ... and when one of the operations fails fatally *)
  Lemma batch_sim_fatal cs : forall s t v s1 ops rs e,
      Forall good cs -> Vinv s v -> Agree s t v -> eqv s1 (flush s v) ->
      stage_all s t cs = inr (ops, rs) ->
      run_ops s v ops = OFatal e ->
      exists s1', apply_individually s1 cs = (s1', BErr e).
  Proof.
    induction cs as [|c cs IH]; intros s t v s1 ops rs e Hg Hv Ha He Hst Hrun.
    - cbn in Hst. inversion Hst; subst. cbn in Hrun. discriminate.
    - inversion Hg as [|? ? Hc Hcs]; subst.
      cbn [SlotFSM.stage_all] in Hst.
      destruct (stage s t c) as [e0|t' ops_c x] eqn:Hsc; [discriminate|].
      destruct (stage_all s t' cs) as [e0|[ops_r rs']] eqn:Hsr; [discriminate|].
      inversion Hst; subst ops rs. clear Hst.
      rewrite run_ops_app in Hrun.
      destruct (single_sim s t v s1 c t' ops_c x Hc Hv Ha He Hsc) as (t1 & Hs1 & Fg & Hag).
      destruct (H_init s1) as (Hv1 & _ & Hf1).
      assert (Hsim : sim_ores s1 s (run_ops s1 (v0 s1) ops_c) (run_ops s v ops_c)).
      { apply run_ops_sim; auto. rewrite Hf1. assumption. }
      destruct (run_ops s v ops_c) as [v'| |e1] eqn:Hrc; try discriminate.
      + unfold sim_ores in Hsim.
        destruct (run_ops s1 (v0 s1) ops_c) as [w| |e1] eqn:Hrw; try contradiction.
        destruct Hsim as (Ew & Vw & Vv').
        destruct (H_finish s1 w [c] Vw) as (w' & Hfin & Ew' & Vw').
        assert (Hone : apply_one s1 c = (flush s1 w', inr x)).
        { unfold SlotFSM.apply_one. rewrite (apply_core_single s1 c t1 ops_c x Hs1).
          rewrite run_ops_app, Hrw, Hfin. reflexivity. }
        destruct (IH s t' v' (flush s1 w') ops_r rs' e Hcs Vv' (Hag v' eq_refl)) as (s1' & Hind); auto.
        { eapply eqv_trans; eauto. }
        exists s1'. cbn [SlotFSM.apply_individually]. rewrite Hone, Hind. reflexivity.
      + inversion Hrun; subst e1. unfold sim_ores in Hsim.
        destruct (run_ops s1 (v0 s1) ops_c) as [w| |e1] eqn:Hrw; try contradiction. subst e1.
        exists s1. cbn [SlotFSM.apply_individually]. unfold SlotFSM.apply_one.
        rewrite (apply_core_single s1 c t1 ops_c x Hs1), run_ops_app, Hrw. reflexivity.
  Qed.

  (* a staging error: the one-per-batch run fails as well (at that command or earlier) *)
  Lemma stage_fatal_singles cs : forall s t e s1,
      Forall good cs ->
      stage_all s t cs = inl e -> exists s1' e', apply_individually s1 cs = (s1', BErr e').
  Proof.
    induction cs as [|c cs IH]; intros s t e s1 Hg Hst; cbn [SlotFSM.stage_all] in Hst; [discriminate|].
    inversion Hg as [|? ? Hc Hcs]; subst.
    cbn [SlotFSM.apply_individually].
    destruct (stage s t c) as [e0|t' ops_c x] eqn:Hsc.
    - pose proof (H_fatal s t c e0 Hc Hsc s1 t0) as Hf.
      exists s1, e0. unfold SlotFSM.apply_one, SlotFSM.apply_core. cbn [SlotFSM.stage_all]. rewrite Hf. reflexivity.
    - destruct (stage_all s t' cs) as [e0|[ops_r rs']] eqn:Hsr; [|discriminate].
      destruct (apply_one s1 c) as [sx [ex|x']] eqn:Hone.
      + exists sx, ex. reflexivity.
      + destruct (IH s t' e0 sx Hcs Hsr) as (s1' & e' & Hind). exists s1', e'. rewrite Hind. reflexivity.
  Qed.

  (* ---- the theorems --------------------------------------------------------------------------- *)

  Theorem machine_abort_no_effect s cs e :
    apply_core s cs = CoreErr e -> ApplyBatch s cs = (s, BErr e).
  Proof. intro H. unfold SlotFSM.ApplyBatch. rewrite H. reflexivity. Qed.

  Theorem machine_batch_eq_singles s cs s' rs :
    Forall good cs ->
    ApplyBatch s cs = (s', BRes rs) ->
    exists s'', apply_individually s cs = (s'', BRes rs) /\ eqv s'' s'.
  Proof.
    intros Hg H. unfold SlotFSM.ApplyBatch in H.
    destruct (apply_core s cs) as [e| |s1 rs1] eqn:Hc.
    - discriminate.
    - destruct cs as [|c [|c2 cs]].
      + exists s'. split; [exact H|apply eqv_refl].
      + inversion H; subst. exists s'. split; [|apply eqv_refl].
        cbn [SlotFSM.apply_individually]. unfold SlotFSM.apply_one. rewrite Hc. reflexivity.
      + exists s'. split; [exact H|apply eqv_refl].
    - inversion H; subst s1 rs1. clear H.
      unfold SlotFSM.apply_core in Hc.
      destruct (stage_all s t0 cs) as [e|[ops rs0]] eqn:Hst; [discriminate|].
      rewrite run_ops_app in Hc.
      destruct (run_ops s (v0 s) ops) as [vf| |e] eqn:Hrun; try discriminate.
      destruct (run_ops s vf (finish cs)) as [vfin| |e] eqn:Hfin; try discriminate.
      inversion Hc; subst. clear Hc.
      destruct (H_init s) as (Hv & Ha & Hf).
      destruct (batch_sim cs s t0 (v0 s) s ops rs vf Hg Hv Ha) as (s1' & Hind & E & Vvf); auto.
      { rewrite Hf. apply eqv_refl. }
      exists s1'. split; [assumption|].
      destruct (H_finish s vf cs Vvf) as (w & Hw & Ew & _).
      rewrite Hw in Hfin. inversion Hfin; subst. eapply eqv_trans; [exact E|apply eqv_sym; exact Ew].
  Qed.

  Theorem machine_fatal_agrees s cs s' e :
    Forall good cs ->
    ApplyBatch s cs = (s', BErr e) ->
    exists s'' e', apply_individually s cs = (s'', BErr e') /\ (s' = s \/ s' = s'').
  Proof.
    intros Hg H. unfold SlotFSM.ApplyBatch in H.
    destruct (apply_core s cs) as [e0| |s1 rs1] eqn:Hc.
    - inversion H; subst s' e0. clear H.
      unfold SlotFSM.apply_core in Hc.
      destruct (stage_all s t0 cs) as [e0|[ops rs0]] eqn:Hst.
      + inversion Hc; subst e0.
        destruct (stage_fatal_singles cs s t0 e s Hg Hst) as (s1' & e' & Hind).
        exists s1', e'. split; [assumption|left; reflexivity].
      + rewrite run_ops_app in Hc.
        destruct (H_init s) as (Hv & Ha & Hf).
        destruct (run_ops s (v0 s) ops) as [vf| |e0] eqn:Hrun.
        * exfalso.
          destruct (batch_sim cs s t0 (v0 s) s ops rs0 vf Hg Hv Ha) as (s1' & _ & _ & Vvf); auto.
          { rewrite Hf. apply eqv_refl. }
          destruct (H_finish s vf cs Vvf) as (w & Hw & _). rewrite Hw in Hc. discriminate.
        * discriminate.
        * inversion Hc; subst e0.
          destruct (batch_sim_fatal cs s t0 (v0 s) s ops rs0 e Hg Hv Ha) as (s1' & Hind); auto.
          { rewrite Hf. apply eqv_refl. }
          exists s1', e. split; [assumption|left; reflexivity].
    - destruct cs as [|c [|c2 cs]]; try discriminate.
      exists s', e. split; [exact H|right; reflexivity].
    - discriminate.
  Qed.

  (* the one-per-batch run respects eqv *)
  Lemma apply_one_eqv s s1 c :
    good c -> eqv s1 s ->
    match apply_one s c, apply_one s1 c with
    | (a, inl e), (b, inl e') => e = e' /\ a = s /\ b = s1
    | (a, inr x), (b, inr x') => x = x' /\ eqv b a
    | _, _ => False
    end.
  Proof.
    intros Hc He. destruct (H_init s) as (Hv & Ha & Hf). destruct (H_init s1) as (Hv1 & Ha1 & Hf1).
    pose proof (H_stage s t0 (v0 s) s1 c Hc Hv Ha) as Hst. rewrite Hf in Hst. specialize (Hst He).
    unfold SlotFSM.apply_one, SlotFSM.apply_core. cbn [SlotFSM.stage_all].
    destruct (stage s t0 c) as [e|t' ops x], (stage s1 t0 c) as [e'|t1 ops' x']; try contradiction.
    - subst e'. auto.
    - destruct Hst as (<- & <- & Fg & _). rewrite !app_nil_r, !run_ops_app.
      assert (Hsim : sim_ores s1 s (run_ops s1 (v0 s1) ops) (run_ops s (v0 s) ops)).
      { apply run_ops_sim; auto. rewrite Hf, Hf1. assumption. }
      unfold sim_ores in Hsim.
      destruct (run_ops s (v0 s) ops) as [v| |e], (run_ops s1 (v0 s1) ops) as [w| |e']; try contradiction.
      + destruct Hsim as (E & Vw & Vv).
        destruct (H_finish s v [c] Vv) as (v' & -> & Ev & _).
        destruct (H_finish s1 w [c] Vw) as (w' & -> & Ew & _).
        split; [reflexivity|].
        eapply eqv_trans; [exact Ew|]. eapply eqv_trans; [exact E|]. apply eqv_sym. exact Ev.
      + split; [reflexivity|assumption].
      + subst e'. auto.
  Qed.

  Lemma singles_eqv cs : forall s s1,
      Forall good cs -> eqv s1 s ->
      match apply_individually s cs, apply_individually s1 cs with
      | (a, BRes rs), (b, BRes rs') => rs = rs' /\ eqv b a
      | (_, BErr e), (_, BErr e') => e = e'
      | _, _ => False
      end.
  Proof.
    induction cs as [|c cs IH]; intros s s1 Hg He; cbn [SlotFSM.apply_individually].
    - auto.
    - inversion Hg as [|? ? Hc Hcs]; subst.
      pose proof (apply_one_eqv s s1 c Hc He) as H1.
      destruct (apply_one s c) as [a [e|x]], (apply_one s1 c) as [b [e'|x']]; try contradiction.
      + destruct H1 as (-> & _). reflexivity.
      + destruct H1 as (<- & Eb). specialize (IH a b Hcs Eb).
        destruct (apply_individually a cs) as [a' [e|rs]], (apply_individually b cs) as [b' [e'|rs']]; try contradiction.
        * assumption.
        * destruct IH as (-> & E). auto.
  Qed.

  Lemma singles_app a : forall s b,
      apply_individually s (a ++ b) =
      match apply_individually s a with
      | (s', BErr e) => (s', BErr e)
      | (s', BRes rs) => match apply_individually s' b with
                         | (s'', BErr e) => (s'', BErr e)
                         | (s'', BRes rs') => (s'', BRes (rs ++ rs'))
                         end
      end.
  Proof.
    induction a as [|c a IH]; intros s b; cbn [app SlotFSM.apply_individually].
    - destruct (apply_individually s b) as [s'' [e|rs']]; reflexivity.
    - destruct (apply_one s c) as [s' [e|x]]; [reflexivity|].
      rewrite IH. destruct (apply_individually s' a) as [s2 [e|rs]]; [reflexivity|].
      destruct (apply_individually s2 b) as [s3 [e|rs']]; reflexivity.
  Qed.

  Fixpoint all_results (outs : list (@bres R)) : option (list R) :=
    match outs with
    | [] => Some []
    | BRes rs :: r => match all_results r with Some x => Some (rs ++ x) | None => None end
    | BErr _ :: _ => None
    end.

  Theorem machine_partition_invariant bs : forall s s' rs,
      Forall good (concat bs) ->
      apply_individually s (concat bs) = (s', BRes rs) ->
      exists s'' outs, apply_partition s bs = (s'', outs) /\ all_results outs = Some rs /\ eqv s'' s'.
  Proof.
    induction bs as [|b bs IH]; intros s s' rs Hg Hind; cbn [concat] in *.
    - cbn in Hind. inversion Hind; subst. exists s', []. cbn. auto.
    - apply Forall_app in Hg. destruct Hg as (Hgb & Hgr).
      rewrite singles_app in Hind.
      destruct (apply_individually s b) as [sb [e|rsb]] eqn:Hb; [discriminate|].
      destruct (apply_individually sb (concat bs)) as [sr [e|rsr]] eqn:Hr; [discriminate|].
      inversion Hind; subst s' rs. clear Hind.
      cbn [SlotFSM.apply_partition].
      destruct (ApplyBatch s b) as [s2 [e|rs2]] eqn:HB.
      + exfalso. destruct (machine_fatal_agrees s b s2 e Hgb HB) as (s3 & e' & H3 & _).
        rewrite Hb in H3. discriminate.
      + destruct (machine_batch_eq_singles s b s2 rs2 Hgb HB) as (s3 & H3 & E3).
        rewrite Hb in H3. inversion H3; subst s3 rs2. clear H3.
        pose proof (singles_eqv (concat bs) sb s2 Hgr (eqv_sym _ _ E3)) as Hs. rewrite Hr in Hs.
        destruct (apply_individually s2 (concat bs)) as [s4 [e|rs4]] eqn:H4; [contradiction|].
        destruct Hs as (<- & E4).
        destruct (IH s2 s4 rsr Hgr H4) as (s5 & outs & Hp & Hall & E5).
        rewrite Hp. exists s5, (BRes rsb :: outs). split; [reflexivity|]. split.
        * cbn [all_results]. rewrite Hall. reflexivity.
        * eapply eqv_trans; eauto.
  Qed.
End MachineTheory.

(* ---- the hypotheses as one predicate, and the theorems restated over it ---------------------------------- *)

Definition overlay_machine {S T V O C R : Type}
           (stage : S -> T -> C -> @sres T O R) (t0 : T) (finish : list C -> list O) (v0 : S -> V)
           (run_op : S -> V -> O -> @ores V) (flush : S -> V -> S)
           (eqv : S -> S -> Prop) (good : C -> Prop) (good_op : O -> Prop)
           (Vinv : S -> V -> Prop) (Agree : S -> T -> V -> Prop) : Prop :=
  (forall s, eqv s s) /\ (forall a b, eqv a b -> eqv b a) /\ (forall a b c, eqv a b -> eqv b c -> eqv a c)
  (* the empty overlay *)
  /\ (forall s, Vinv s (v0 s) /\ Agree s t0 (v0 s) /\ flush s (v0 s) = s)
  (* deferred operations read only through the overlay *)
  /\ (forall s v s' v' o, good_op o -> Vinv s v -> Vinv s' v' -> eqv (flush s v) (flush s' v') ->
        sim_ores flush eqv Vinv s s' (run_op s v o) (run_op s' v' o))
  (* the command loop reads only through the staging state, which tracks the overlay *)
  /\ (forall s t v s1 c, good c -> Vinv s v -> Agree s t v -> eqv s1 (flush s v) ->
        match stage s t c, stage s1 t0 c with
        | SFatal e, SFatal e' => e = e'
        | SDone t' ops r, SDone _ ops' r' =>
            ops = ops' /\ r = r' /\ Forall good_op ops /\
            (forall v', run_ops run_op s v ops = OOk v' -> Agree s t' v')
        | _, _ => False
        end)
  (* staging errors (decode, ownership, validation) do not depend on the state *)
  /\ (forall s t c e, good c -> stage s t c = SFatal e -> forall s' t', stage s' t' c = SFatal e)
  (* the applied-index watermark stays inside eqv *)
  /\ (forall s v cs, Vinv s v ->
        exists v', run_ops run_op s v (finish cs) = OOk v' /\ eqv (flush s v') (flush s v) /\ Vinv s v').

Section Restated.
  Context {S T V O C R : Type}.
  Variable stage : S -> T -> C -> @sres T O R.
  Variable t0 : T.
  Variable finish : list C -> list O.
  Variable v0 : S -> V.
  Variable run_op : S -> V -> O -> @ores V.
  Variable flush : S -> V -> S.
  Variable r_stale : R.
  Variable eqv : S -> S -> Prop.
  Variable good : C -> Prop.
  Variable good_op : O -> Prop.
  Variable Vinv : S -> V -> Prop.
  Variable Agree : S -> T -> V -> Prop.
  Hypothesis M : overlay_machine stage t0 finish v0 run_op flush eqv good good_op Vinv Agree.

  Lemma overlay_seq s cs s' rs :
    Forall good cs ->
    ApplyBatch stage t0 finish v0 run_op flush r_stale s cs = (s', BRes rs) ->
    exists s'', apply_individually stage t0 finish v0 run_op flush r_stale s cs = (s'', BRes rs) /\ eqv s'' s'.
  Proof.
    destruct M as (A & B & C' & D & E & F & G & H).
    eapply machine_batch_eq_singles; eauto.
  Qed.

  Lemma overlay_fatal s cs s' e :
    Forall good cs ->
    ApplyBatch stage t0 finish v0 run_op flush r_stale s cs = (s', BErr e) ->
    exists s'' e', apply_individually stage t0 finish v0 run_op flush r_stale s cs = (s'', BErr e')
                   /\ (s' = s \/ s' = s'').
  Proof.
    destruct M as (A & B & C' & D & E & F & G & H).
    eapply machine_fatal_agrees; eauto.
  Qed.

  Lemma overlay_partition bs s s' rs :
    Forall good (concat bs) ->
    apply_individually stage t0 finish v0 run_op flush r_stale s (concat bs) = (s', BRes rs) ->
    exists s'' outs, apply_partition stage t0 finish v0 run_op flush r_stale s bs = (s'', outs)
                     /\ all_results outs = Some rs /\ eqv s'' s'.
  Proof.
    destruct M as (A & B & C' & D & E & F & G & H).
    eapply machine_partition_invariant; eauto.
  Qed.
End Restated.
