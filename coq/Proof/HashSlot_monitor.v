(* Proof/HashSlot_monitor.v — the property monitor evaluated on traces produced by
   the model: every step has code 0, except add / remove plans whose code is the
   balance classification (0, or 2 = known finding C20-K1, or 3 = C20-K2), and the
   classification is 0 whenever the theorems promise balance. *)
From WK Require Import Base.Base Base.Bytes Gen.Consts_C20 Model.HashSlot.
From WK Require Import Proof.HashSlot_table Proof.HashSlot_codec Proof.HashSlot_lists Proof.HashSlot_plan Proof.HashSlot_balance.
From Coq Require Import ZifyBool ZifyN ZifyNat Sorting.Sorted Sorting.Permutation.
Open Scope N_scope.

(* ---- reflexivity of the equality tests ---------------------------------------------------- *)

Lemma list_eqb_refl {A} (eqb : A -> A -> bool) : (forall x, eqb x x = true) -> forall l, list_eqb eqb l l = true.
Proof. intros H l. induction l as [|x l IH]; cbn [list_eqb]; [reflexivity|]. rewrite H, IH. reflexivity. Qed.

Lemma mig_eqb_refl m : mig_eqb m m = true.
Proof. unfold mig_eqb. rewrite !N.eqb_refl. reflexivity. Qed.

Lemma nlist_eqb_refl l : nlist_eqb l l = true.
Proof. apply list_eqb_refl, N.eqb_refl. Qed.

Lemma nlist_eqb_eq a b : nlist_eqb a b = true <-> a = b.
Proof. apply list_eqb_spec. intros. apply N.eqb_eq. Qed.

Lemma table_eqb_refl t : table_eqb t t = true.
Proof. unfold table_eqb. rewrite !N.eqb_refl, nlist_eqb_refl, (list_eqb_refl _ mig_eqb_refl). reflexivity. Qed.

Lemma content_eqb_refl t : content_eqb t t = true.
Proof. unfold content_eqb. rewrite !N.eqb_refl, nlist_eqb_refl, (list_eqb_refl _ mig_eqb_refl). reflexivity. Qed.

(* ---- the clauses common to the in-place operations ------------------------------------------ *)

Lemma version_ok_effect t t' : effect t t' -> t_version t < ver_small -> version_ok t t' = true.
Proof.
  intros E L. unfold version_ok. destruct (content_eqb t t') eqn:C; [reflexivity|].
  destruct E as [E|[E _]]; [subst t'; rewrite content_eqb_refl in C; discriminate|].
  rewrite E, bump_lt by (unfold ver_small, u64max in *; lia). apply orb_true_iff. right. apply N.ltb_lt. lia.
Qed.

Lemma good_keep t t' (k : bool) : (k = true -> fully_assigned t -> fully_assigned t') ->
  negb (good t && k) || good t' = true.
Proof.
  intro H. destruct (good t) eqn:G; [|reflexivity]. destruct k; [|reflexivity]. cbn [andb negb orb].
  apply good_iff. apply H; [reflexivity|]. apply good_iff. exact G.
Qed.

Lemma basic_effect t t' k : effect t t' -> t_version t < ver_small -> t_count t' = t_count t ->
  (k = true -> fully_assigned t -> fully_assigned t') -> basic t t' k = true.
Proof.
  intros E L C G. unfold basic. rewrite C, N.eqb_refl, (version_ok_effect t t' E L), (good_keep t t' k G). reflexivity.
Qed.

Lemma effect_version_le t t' : effect t t' -> t_version t < ver_small ->
  t_version t' <= t_version t + 1.
Proof.
  intros [E|[E _]] L; [subst; lia|]. rewrite E, bump_lt by (unfold ver_small, u64max in *; lia). lia.
Qed.

(* ---- the balance classification of the three planners ---------------------------------------- *)

Lemma act_perm t : Permutation (distinct_nz (t_assign t)) (active_slot_ids t).
Proof. apply Permutation_sym, active_perm. Qed.

Lemma balanced_perm total assign l l' : Permutation l l' -> balanced total assign l = balanced total assign l'.
Proof.
  intro P. unfold balanced.
  assert (forall l l', Permutation l l' -> forallb (fun s => within_one (cnt assign s) (spec_ideal total l s)) l = true ->
                       forallb (fun s => within_one (cnt assign s) (spec_ideal total l' s)) l' = true) as H.
  { intros a b Pab Q. rewrite forallb_forall in *. intros s Is.
    rewrite <- (spec_ideal_perm total a b s Pab). apply Q. apply (Permutation_in s (Permutation_sym Pab) Is). }
  destruct (forallb (fun s => within_one (cnt assign s) (spec_ideal total l s)) l) eqn:E1;
    destruct (forallb (fun s => within_one (cnt assign s) (spec_ideal total l' s)) l') eqn:E2; try reflexivity.
  - rewrite (H l l' P E1) in E2. discriminate.
  - rewrite (H l' l (Permutation_sym P) E2) in E1. discriminate.
Qed.

Lemma not_over_perm total assign l l' : Permutation l l' -> not_over total assign l = true -> not_over total assign l' = true.
Proof.
  intros P Q. unfold not_over in *. rewrite forallb_forall in *. intros s Is.
  rewrite <- (spec_ideal_perm total l l' s P). apply Q. apply (Permutation_in s (Permutation_sym P) Is).
Qed.

Lemma within_one_refl a : within_one a a = true.
Proof. unfold within_one. apply andb_true_iff. split; apply N.leb_le; lia. Qed.

Lemma plan_code_rebalance t : wf t -> plan_code t PRebalance (compute_rebalance_plan t) = 0.
Proof.
  intro W. unfold plan_code. destruct (rebalance_moves_ok t W) as [MO _]. rewrite MO. cbn [negb].
  destruct (all_nz (t_assign t)) eqn:NZ; [|reflexivity]. cbn [negb]. apply all_nz_iff in NZ.
  rewrite (balanced_perm _ _ _ _ (act_perm t)).
  assert (B : balanced (t_count t) (apply_moves (compute_rebalance_plan t) (t_assign t)) (active_slot_ids t) = true).
  { unfold balanced. apply forallb_forall. intros s Is. rewrite (rebalance_exact t W NZ s Is). apply within_one_refl. }
  rewrite B. reflexivity.
Qed.

Lemma filter_perm (f : N -> bool) l l' : Permutation l l' -> Permutation (filter f l) (filter f l').
Proof.
  induction 1 as [|x l l' P IH|x y l|l l' l'' P1 IH1 P2 IH2]; cbn [filter].
  - constructor.
  - destruct (f x); [constructor; exact IH|exact IH].
  - destruct (f x); destruct (f y); try apply Permutation_refl. apply perm_swap.
  - eapply Permutation_trans; eassumption.
Qed.

Lemma plan_code_add t n : wf t ->
  let c := plan_code t (PAdd n) (compute_add_slot_plan t n) in
  (c = 0 \/ c = 2)
  /\ (balanced (t_count t) (t_assign t) (distinct_nz (t_assign t)) = true -> c = 0).
Proof.
  intro W. cbn zeta. unfold plan_code.
  destruct (add_plan_struct t n W) as [F [ND _]].
  rewrite (moves_ok_of t _ _ W F ND). cbn [negb].
  destruct (all_nz (t_assign t)) eqn:NZ; [|split; [left; reflexivity|reflexivity]]. cbn [negb]. apply all_nz_iff in NZ.
  destruct (n =? 0) eqn:E0; [split; [left; reflexivity|reflexivity]|]. cbn [orb]. apply N.eqb_neq in E0.
  destruct (mem n (distinct_nz (t_assign t))) eqn:M; [split; [left; reflexivity|reflexivity]|].
  assert (Nnew : ~ In n (active_slot_ids t)).
  { apply mem_false in M. intro I. apply M. apply (Permutation_in n (active_perm t) I). }
  destruct (add_plan_result t n W NZ E0 Nnew) as [_ [_ BAL]].
  rewrite (balanced_perm _ (t_assign t) _ _ (act_perm t)).
  rewrite (balanced_perm _ _ (n :: distinct_nz (t_assign t)) (n :: active_slot_ids t)) by (constructor; apply act_perm).
  destruct (balanced (t_count t) (t_assign t) (active_slot_ids t)) eqn:PRE.
  - rewrite (BAL eq_refl). split; [left; reflexivity|reflexivity].
  - destruct (balanced (t_count t) (apply_moves (compute_add_slot_plan t n) (t_assign t)) (n :: active_slot_ids t));
      (split; [|discriminate]); [left|right]; reflexivity.
Qed.

Lemma plan_code_remove t x : wf t ->
  let c := plan_code t (PRemove x) (compute_remove_slot_plan t x) in
  (c = 0 \/ c = 2 \/ c = 3)
  /\ (c = 2 -> balanced (t_count t) (t_assign t) (distinct_nz (t_assign t)) = false)
  /\ (c = 3 -> balanced (t_count t) (t_assign t) (distinct_nz (t_assign t)) = true).
Proof.
  intro W. cbn zeta. unfold plan_code.
  destruct (remove_plan_struct t x W) as [F [ND _]].
  rewrite (moves_ok_of t _ _ W F ND). cbn [negb].
  assert (Z : forall P Q : Prop, (0 = 0 \/ 0 = 2 \/ 0 = 3) /\ (0 = 2 -> P) /\ (0 = 3 -> Q)).
  { intros P Q. split; [left; reflexivity|]. split; intro H; discriminate. }
  destruct (all_nz (t_assign t)) eqn:NZ; [|apply Z]. cbn [negb]. apply all_nz_iff in NZ.
  destruct (mem x (distinct_nz (t_assign t))) eqn:M; [|apply Z]. cbn [negb].
  assert (Xin : In x (active_slot_ids t)).
  { apply mem_iff in M. apply (Permutation_in x (act_perm t) M). }
  set (rem := filter (fun y => negb (y =? x)) (distinct_nz (t_assign t))).
  assert (PR : Permutation rem (active_slot_ids_excluding t x)).
  { unfold rem, active_slot_ids_excluding. apply filter_perm, act_perm. }
  destruct rem as [|r0 rr] eqn:ER; [apply Z|]. rewrite <- ER in *.
  assert (RNE : active_slot_ids_excluding t x <> []).
  { intro Q. rewrite Q in PR. apply Permutation_sym, Permutation_nil in PR. rewrite ER in PR. discriminate. }
  destruct (remove_plan_result t x W NZ Xin RNE) as [EMP [_ NOV]].
  set (post := apply_moves (compute_remove_slot_plan t x) (t_assign t)) in *.
  rewrite EMP. cbn [N.leb N.eqb]. rewrite andb_true_r.
  rewrite (balanced_perm _ (t_assign t) _ _ (act_perm t)).
  destruct (balanced (t_count t) post rem); [apply Z|].
  destruct (balanced (t_count t) (t_assign t) (active_slot_ids t)) eqn:PRE; cbn [negb].
  - assert (NO : not_over (t_count t) post rem = true).
    { apply (not_over_perm _ _ _ _ (Permutation_sym PR)). apply NOV. reflexivity. }
    rewrite NO. cbn [andb]. split; [right; right; reflexivity|]. split; [discriminate|reflexivity].
  - split; [right; left; reflexivity|]. split; [reflexivity|discriminate].
Qed.

(* ---- model traces ------------------------------------------------------------------------------ *)

Definition mstep (t : table) (o : op) : step :=
  Step o (fst (model_step t o)) (SFull (snd (model_step t o))).

Fixpoint model_trace (t : table) (ops : list op) : list step :=
  match ops with
  | [] => []
  | o :: r => mstep t o :: model_trace (snd (model_step t o)) r
  end.

(* arguments within the ranges of their Go types; payloads from outside (ODecode)
   are not part of the property's quantifier *)
Definition op_ok (o : op) : Prop :=
  match o with
  | OReassign _ s => u64 s
  | OStart _ a b => u64 a /\ u64 b
  | OAdvance _ ph => ph < 256
  | OAdd n _ => u64 n
  | ODecode _ => False
  | _ => True
  end.

Definition is_add_remove (o : op) : bool :=
  match o with OAdd _ _ | ORemove _ _ => true | _ => false end.

Definition step_budget : N := 65537.

Lemma plan_fuel_bound t : codec_ok t -> N.of_nat (plan_fuel t) <= 65536.
Proof. intros [W C _ _ _ _ _]. unfold plan_fuel, wf in *. lia. Qed.

Lemma active_u64 t s : codec_ok t -> In s (active_slot_ids t) -> u64 s.
Proof.
  intros H I. apply in_active in I. destruct I as [_ I]. pose proof (co_assign t H) as F.
  rewrite Forall_forall in F. apply F. exact I.
Qed.

(* what every planner's plan satisfies, in the form the step lemma needs *)
Lemma plan_common t p dom : codec_ok t -> t_version t + step_budget < ver_small ->
  Forall (move_ok (t_assign t) dom) p -> NoDup (map mv_hs p) -> (length p <= plan_fuel t)%nat ->
  (forall s, In s dom -> u64 s) ->
  forall ap : bool,
    let t' := if ap then apply_plan t p else t in
    codec_ok t' /\ t_version t' <= t_version t + step_budget
    /\ basic t t' true = true
    /\ nlist_eqb (t_assign t') (if ap then apply_moves p (t_assign t) else t_assign t) = true.
Proof.
  intros CO V F ND LEN DOM ap. cbn zeta. destruct ap.
  - pose proof (plan_fuel_bound t CO) as PB.
    assert (LV : t_version t + N.of_nat (length p) < u64max) by (unfold step_budget, ver_small, u64max in *; lia).
    destruct (apply_plan_version p t LV) as [[V1 V2] [V3 V4]].
    assert (TO : Forall (fun m => mv_to m <> 0) p).
    { apply Forall_forall. intros m Im. rewrite Forall_forall in F. destruct (F m Im) as [_ [_ [_ [Q _]]]]. exact Q. }
    split; [|split; [|split]].
    + apply apply_plan_codec_ok; [|exact CO]. apply Forall_forall. intros m Im. rewrite Forall_forall in F.
      destruct (F m Im) as [_ [_ [_ [_ [_ Q]]]]]. apply DOM. exact Q.
    + unfold step_budget. lia.
    + unfold basic. rewrite apply_plan_count, N.eqb_refl. cbn [andb].
      rewrite (good_keep t (apply_plan t p) true) by (intros _ G; apply apply_plan_fully; assumption).
      rewrite andb_true_r. unfold version_ok. destruct (content_eqb t (apply_plan t p)) eqn:C; [reflexivity|].
      apply orb_true_iff. right. apply N.ltb_lt. apply V3. intro Q. rewrite Q, content_eqb_refl in C. discriminate.
    + rewrite apply_plan_assign. apply nlist_eqb_refl.
  - split; [exact CO|]. split; [unfold step_budget; lia|]. split; [|apply nlist_eqb_refl].
    apply basic_effect; [left; reflexivity|unfold step_budget in V; lia|reflexivity|intros _ G; exact G].
Qed.

Lemma lookup_obs_eq t hs : wf t -> lookup t hs = lookup_obs t hs.
Proof.
  intro W. unfold lookup, lookup_obs, alen, at_hs. unfold wf in W. rewrite W.
  destruct (t_count t <=? hs) eqn:E1; destruct (hs <? t_count t) eqn:E2; try reflexivity; lia.
Qed.

Lemma decode_wf data t : decode_hash_slot_table data = Some t -> wf t.
Proof.
  assert (GA : forall n bs l r, get_assign n bs = Some (l, r) -> length l = n).
  { induction n as [|n IH]; intros bs l r H; cbn [get_assign] in H; [inversion H; reflexivity|].
    destruct (get_be 8 bs) as [[v r1]|]; [|discriminate]. destruct (get_assign n r1) as [[l1 r2]|] eqn:G; [|discriminate].
    inversion H; subst. cbn [length]. rewrite (IH _ _ _ G). reflexivity. }
  unfold decode_hash_slot_table. intro H.
  destruct (get_be 2 data) as [[ver r1]|]; [|discriminate].
  destruct (get_be 2 r1) as [[count r2]|]; [|discriminate].
  destruct (get_be 8 r2) as [[version r3]|]; [|discriminate].
  destruct (negb ((ver =? 1) || (ver =? enc_version))); [discriminate|].
  destruct (get_assign (N.to_nat count) r3) as [[assign r4]|] eqn:G; [|discriminate].
  pose proof (GA _ _ _ _ G) as L.
  assert (WF : forall migs, wf (Tbl version count assign migs)) by (intro; unfold wf; cbn [t_assign t_count]; lia).
  destruct (ver =? 1).
  - destruct r4; [inversion H; apply WF|discriminate].
  - destruct r4 as [|b r4']; [inversion H; apply WF|].
    destruct (get_be 2 (b :: r4')) as [[mc r5]|]; [|discriminate].
    destruct (N.of_nat (length r5) =? mc * 20); [inversion H; apply WF|discriminate].
Qed.

(* one model step under the monitor *)
Lemma step_code_model t o : codec_ok t -> t_version t + step_budget < ver_small -> op_ok o ->
  let t' := snd (model_step t o) in
  codec_ok t' /\ t_version t' <= t_version t + step_budget
  /\ step_code t (mstep t o) =
     match o with
     | OAdd n _ => plan_code t (PAdd n) (compute_add_slot_plan t n)
     | ORemove x _ => plan_code t (PRemove x) (compute_remove_slot_plan t x)
     | _ => 0
     end.
Proof.
  intros CO V OK. pose proof (co_wf t CO) as W.
  assert (VS : t_version t < ver_small) by (unfold step_budget in V; lia).
  assert (SB : forall a, a <= t_version t + 1 -> a <= t_version t + step_budget) by (unfold step_budget; intros; lia).
  assert (SAME : codec_ok t /\ t_version t <= t_version t + step_budget) by (split; [exact CO|unfold step_budget; lia]).
  unfold mstep, step_code, after. cbn [s_snap s_op s_res unsnap].
  destruct o; cbn [model_step fst snd op_ok] in *.
  - (* reassign *)
    pose proof (reassign_codec_ok t hs slot OK CO) as CO'. rewrite (proj2 (snap_wf_iff _) (co_wf _ CO')). cbn [negb].
    split; [exact CO'|]. split; [apply SB, effect_version_le; [apply reassign_effect|exact VS]|].
    rewrite basic_effect; [reflexivity|apply reassign_effect|exact VS| |].
    + unfold reassign. destruct (alen t <=? hs); [reflexivity|]. destruct (at_hs t hs =? slot); reflexivity.
    + intros K G. apply reassign_fully; [|exact G]. apply negb_true_iff, N.eqb_neq in K. exact K.
  - (* start *)
    destruct OK as [O1 O2]. pose proof (start_codec_ok t hs src tgt O1 O2 CO) as CO'.
    rewrite (proj2 (snap_wf_iff _) (co_wf _ CO')). cbn [negb].
    split; [exact CO'|]. split; [apply SB, effect_version_le; [apply start_effect|exact VS]|].
    rewrite basic_effect; [reflexivity|apply start_effect|exact VS| |intros _ G; apply start_fully; exact G].
    unfold start_migration. destruct (alen t <=? hs); [reflexivity|].
    destruct ((src =? 0) || (tgt =? 0) || (src =? tgt) || negb (at_hs t hs =? src)); [reflexivity|].
    destruct (mig_find hs (t_migs t)); reflexivity.
  - (* advance *)
    pose proof (advance_codec_ok t hs phase OK CO) as CO'.
    rewrite (proj2 (snap_wf_iff _) (co_wf _ CO')). cbn [negb].
    split; [exact CO'|]. split; [apply SB, effect_version_le; [apply advance_effect|exact VS]|].
    rewrite basic_effect; [reflexivity|apply advance_effect|exact VS| |intros _ G; apply advance_fully; exact G].
    unfold advance_migration. destruct (mig_find hs (t_migs t)) as [m|]; [|reflexivity]. destruct (m_phase m =? phase); reflexivity.
  - (* finalize *)
    pose proof (finalize_codec_ok t hs CO) as CO'.
    rewrite (proj2 (snap_wf_iff _) (co_wf _ CO')). cbn [negb].
    split; [exact CO'|]. split; [apply SB, effect_version_le; [apply finalize_effect|exact VS]|].
    rewrite basic_effect; [reflexivity|apply finalize_effect|exact VS| |intros _ G; apply finalize_fully; exact G].
    unfold finalize_migration. destruct (mig_find hs (t_migs t)) as [m|]; reflexivity.
  - (* abort *)
    pose proof (abort_codec_ok t hs CO) as CO'.
    rewrite (proj2 (snap_wf_iff _) (co_wf _ CO')). cbn [negb].
    split; [exact CO'|]. split; [apply SB, effect_version_le; [apply abort_effect|exact VS]|].
    rewrite basic_effect; [reflexivity|apply abort_effect|exact VS| |intros _ G; apply abort_fully; exact G].
    unfold abort_migration. destruct (mig_find hs (t_migs t)) as [m|]; reflexivity.
  - (* lookup *)
    rewrite (proj2 (snap_wf_iff _) W), table_eqb_refl, (lookup_obs_eq t hs W), N.eqb_refl. cbn [negb andb].
    split; [exact CO|]. split; [apply (proj2 SAME)|reflexivity].
  - (* owners *)
    rewrite (proj2 (snap_wf_iff _) W), table_eqb_refl. unfold hash_slots_of. rewrite nlist_eqb_refl. cbn [negb andb].
    split; [exact CO|]. split; [apply (proj2 SAME)|reflexivity].
  - (* assigned *)
    rewrite (proj2 (snap_wf_iff _) W), table_eqb_refl. cbn [negb].
    split; [exact CO|]. split; [apply (proj2 SAME)|reflexivity].
  - (* getmig *)
    rewrite (proj2 (snap_wf_iff _) W), table_eqb_refl. cbn [negb].
    split; [exact CO|]. split; [apply (proj2 SAME)|reflexivity].
  - (* encdec *)
    rewrite (decode_encode t CO). cbn [option_map fst snd unsnap].
    rewrite (proj2 (snap_wf_iff _) W), table_eqb_refl. cbn [negb andb].
    split; [exact CO|]. split; [apply (proj2 SAME)|reflexivity].
  - (* decode: excluded *)
    destruct OK.
  - (* add *)
    destruct (add_plan_struct t slot W) as [F [ND LEN]].
    assert (DOM : forall s, In s (slot :: active_slot_ids t) -> u64 s).
    { intros s [Q|Q]; [subst; exact OK|apply (active_u64 t s CO Q)]. }
    destruct (plan_common t _ _ CO V F ND LEN DOM apply) as [CO' [V' [B AS]]].
    unfold plan_step. cbn [fst snd].
    rewrite (proj2 (snap_wf_iff _) (co_wf _ CO')). cbn [negb]. unfold plan_obs_code. rewrite B, AS. cbn [negb].
    split; [exact CO'|]. split; [exact V'|reflexivity].
  - (* remove *)
    destruct (remove_plan_struct t slot W) as [F [ND LEN]].
    assert (DOM : forall s, In s (active_slot_ids t) -> u64 s) by (intros s Q; apply (active_u64 t s CO Q)).
    destruct (plan_common t _ _ CO V F ND LEN DOM apply) as [CO' [V' [B AS]]].
    unfold plan_step. cbn [fst snd].
    rewrite (proj2 (snap_wf_iff _) (co_wf _ CO')). cbn [negb]. unfold plan_obs_code. rewrite B, AS. cbn [negb].
    split; [exact CO'|]. split; [exact V'|reflexivity].
  - (* rebalance *)
    destruct (rebalance_plan_struct t W) as [F [ND LEN]].
    assert (DOM : forall s, In s (active_slot_ids t) -> u64 s) by (intros s Q; apply (active_u64 t s CO Q)).
    destruct (plan_common t _ _ CO V F ND LEN DOM apply) as [CO' [V' [B AS]]].
    unfold plan_step. cbn [fst snd].
    rewrite (proj2 (snap_wf_iff _) (co_wf _ CO')). cbn [negb]. unfold plan_obs_code. rewrite B, AS. cbn [negb].
    split; [exact CO'|]. split; [exact V'|apply plan_code_rebalance; exact W].
  - (* ideal *)
    rewrite (proj2 (snap_wf_iff _) W), table_eqb_refl. cbn [negb].
    split; [exact CO|]. split; [apply (proj2 SAME)|reflexivity].
  - (* select *)
    rewrite (proj2 (snap_wf_iff _) W), table_eqb_refl. cbn [negb].
    split; [exact CO|]. split; [apply (proj2 SAME)|reflexivity].
  - (* buildinit *)
    rewrite (proj2 (snap_wf_iff _) W), table_eqb_refl. cbn [negb].
    split; [exact CO|]. split; [apply (proj2 SAME)|reflexivity].
  - (* clone *)
    rewrite (proj2 (snap_wf_iff _) W), table_eqb_refl. cbn [negb].
    split; [exact CO|]. split; [apply (proj2 SAME)|reflexivity].
Qed.

Definition code_fine (c : N) : Prop := c = 0 \/ c = 2 \/ c = 3.

Lemma join_fine a b : code_fine a -> code_fine b -> code_fine (join_code a b).
Proof.
  unfold code_fine, join_code. intros [A|[A|A]] [B|[B|B]]; subst; cbn; auto.
Qed.

Lemma step_code_fine t o : codec_ok t -> t_version t + step_budget < ver_small -> op_ok o ->
  code_fine (step_code t (mstep t o)) /\ (is_add_remove o = false -> step_code t (mstep t o) = 0).
Proof.
  intros CO V OK. destruct (step_code_model t o CO V OK) as [_ [_ E]]. pose proof (co_wf t CO) as W.
  rewrite E. destruct o; try (split; [left; reflexivity|reflexivity]).
  - destruct (plan_code_add t slot W) as [[A|A] _]; cbn zeta in A; rewrite A;
      (split; [unfold code_fine; auto|cbn; discriminate]).
  - destruct (plan_code_remove t slot W) as [[A|[A|A]] _]; cbn zeta in A; rewrite A;
      (split; [unfold code_fine; auto|cbn; discriminate]).
Qed.

Lemma monitor_steps_model : forall ops t, codec_ok t ->
  t_version t + step_budget * N.of_nat (length ops) < ver_small -> Forall op_ok ops ->
  code_fine (monitor_steps t (model_trace t ops))
  /\ (forallb (fun o => negb (is_add_remove o)) ops = true -> monitor_steps t (model_trace t ops) = 0).
Proof.
  induction ops as [|o ops IH]; intros t CO V OK; cbn [model_trace monitor_steps].
  - split; [left; reflexivity|reflexivity].
  - inversion OK as [|? ? O1 O2]; subst. cbn [length] in V.
    assert (V1 : t_version t + step_budget < ver_small) by (unfold step_budget in *; lia).
    destruct (step_code_model t o CO V1 O1) as [CO' [V' _]].
    destruct (step_code_fine t o CO V1 O1) as [F1 Z1].
    assert (AF : after t (mstep t o) = snd (model_step t o)) by reflexivity. rewrite AF.
    destruct (IH (snd (model_step t o)) CO') as [F2 Z2]; [unfold step_budget in *; lia|exact O2|].
    split; [apply join_fine; assumption|].
    cbn [forallb]. intro H. apply andb_true_iff in H. destruct H as [H1 H2]. apply negb_true_iff in H1.
    rewrite (Z1 H1), (Z2 H2). reflexivity.
Qed.

(* the monitor on a complete model trace from NewHashSlotTable *)
Theorem model_satisfies_monitor count phys ops : count < 65536 -> Forall op_ok ops ->
  1 + step_budget * N.of_nat (length ops) < ver_small ->
  let c := C20_monitor (C20Case count phys (new_hash_slot_table count phys)
                                (model_trace (new_hash_slot_table count phys) ops)) in
  c <> 1 /\ (forallb (fun o => negb (is_add_remove o)) ops = true -> c = 0).
Proof.
  intros C OK V. cbn zeta. unfold C20_monitor.
  assert (CO : codec_ok (new_hash_slot_table count phys)) by (apply new_codec_ok; exact C).
  assert (IO : init_ok (C20Case count phys (new_hash_slot_table count phys)
                                (model_trace (new_hash_slot_table count phys) ops)) = true).
  { unfold init_ok. cbn [c_init c_count c_phys].
    rewrite (proj2 (snap_wf_iff _) (co_wf _ CO)). cbn [andb].
    assert (TC : t_count (new_hash_slot_table count phys) = count).
    { unfold new_hash_slot_table. destruct ((count =? 0) || (phys <=? 0)%Z); reflexivity. }
    rewrite TC, N.eqb_refl. cbn [andb].
    destruct ((1 <=? count) && (1 <=? phys)%Z) eqn:G; [|reflexivity]. cbn [negb orb].
    apply good_iff, new_fully_assigned. lia. }
  rewrite IO. cbn [c_init c_steps].
  assert (V0 : t_version (new_hash_slot_table count phys) = 1).
  { unfold new_hash_slot_table. destruct ((count =? 0) || (phys <=? 0)%Z); reflexivity. }
  destruct (monitor_steps_model ops _ CO) as [F Z]; [rewrite V0; exact V|exact OK|].
  split; [|exact Z]. destruct F as [F|[F|F]]; rewrite F; discriminate.
Qed.

(* every operation of the model, including decoding arbitrary bytes, keeps the
   assignment as long as the hash-slot count *)
Lemma model_step_wf t o : wf t -> wf (snd (model_step t o)).
Proof.
  intro W. destruct o; cbn [model_step snd fst]; try exact W.
  - apply reassign_wf; exact W.
  - apply start_wf; exact W.
  - apply advance_wf; exact W.
  - apply finalize_wf; exact W.
  - apply abort_wf; exact W.
  - destruct (decode_hash_slot_table (encode t)) as [t'|] eqn:D; cbn [snd]; [apply (decode_wf _ _ D)|exact W].
  - destruct (decode_hash_slot_table data) as [t'|] eqn:D; cbn [snd]; [apply (decode_wf _ _ D)|exact W].
  - unfold plan_step. cbn [snd]. destruct apply; [apply apply_plan_wf|]; exact W.
  - unfold plan_step. cbn [snd]. destruct apply; [apply apply_plan_wf|]; exact W.
  - unfold plan_step. cbn [snd]. destruct apply; [apply apply_plan_wf|]; exact W.
Qed.

(* ---- BuildInitialHashSlotTable (pkg/controller/state) lays the hash slots out as NewHashSlotTable does ---- *)

Definition expand_ranges (rs : list range) : list N :=
  flat_map (fun r => repeat (r_slot r) (N.to_nat (r_to r + 1 - r_from r))) rs.

Lemma build_ranges_expand base rem : 1 <= base -> forall fuel i next,
  expand_ranges (build_ranges fuel (i + 1) next base rem) = new_fill fuel i base rem.
Proof.
  intro B. induction fuel as [|f IH]; intros i next; cbn [build_ranges new_fill]; [reflexivity|].
  unfold expand_ranges. cbn [flat_map r_slot r_to r_from]. fold (expand_ranges (build_ranges f (i + 1 + 1)
    (next + (base + (if i + 1 <=? rem then 1 else 0)) - 1 + 1) base rem)).
  rewrite IH. f_equal. f_equal.
  destruct (i + 1 <=? rem) eqn:E1; destruct (i <? rem) eqn:E2; lia.
Qed.

Lemma initial_layout_agrees slots count c rs :
  build_initial_hash_slot_table slots count = Some (c, rs) ->
  c = count /\ expand_ranges rs = t_assign (new_hash_slot_table count (Z.of_N slots)).
Proof.
  unfold build_initial_hash_slot_table.
  destruct ((slots =? 0) || (count =? 0) || (count <? slots)) eqn:G; [discriminate|].
  intro H. inversion H; subst. split; [reflexivity|].
  assert (S1 : 1 <= slots) by lia. assert (C1 : slots <= c) by lia.
  unfold new_hash_slot_table.
  assert (E : ((c =? 0) || (Z.of_N slots <=? 0)%Z) = false) by lia. rewrite E. cbn [t_assign].
  rewrite N2Z.id, (N.min_l slots c) by lia.
  assert (B : 1 <= c / slots) by (apply N.div_le_lower_bound; lia).
  rewrite (build_ranges_expand _ _ B (N.to_nat slots) 0 0).
  set (filled := new_fill (N.to_nat slots) 0 (c / slots) (c mod slots)).
  assert (L : N.of_nat (length filled) = c).
  { unfold filled. rewrite new_fill_length, N2Nat.id.
    pose proof (N.div_mod c slots ltac:(lia)). pose proof (N.mod_lt c slots ltac:(lia)). lia. }
  rewrite firstn_app. replace (N.to_nat c - length filled)%nat with O by lia.
  rewrite firstn_O, app_nil_r, firstn_all2 by lia. reflexivity.
Qed.
