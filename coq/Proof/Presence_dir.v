(* Proof/Presence_dir.v — directory-level invariant, preserved by every API call *)
From WK Require Import Base.Base Gen.Consts_C33 Model.Presence Proof.AckTracker_map Proof.Presence_map
     Proof.Presence_inv Proof.Presence_ops.
From Coq Require Import Permutation.
Open Scope N_scope.

Record DInv (d : directory) : Prop := {
  di_nodup : NoDup (al_keys (d_slots d));
  di_slots : forall hs s, nget hs (d_slots d) = Some s -> SInv s /\ g_hs (sl_target s) = hs }.

Lemma DInv_new l : DInv (NewDirectory l).
Proof. constructor; simpl; [constructor|discriminate]. Qed.

Lemma validate_some d g s :
  validateTargetLocked d g = Some s ->
  nget (g_hs g) (d_slots d) = Some s /\ sameAuthorityIdentity (sl_target s) g = true.
Proof.
  unfold validateTargetLocked. destruct (negb (d_local d =? 0) && negb (g_leader g =? d_local d)); [discriminate|].
  destruct (nget (g_hs g) (d_slots d)) as [s0|]; [|discriminate].
  destruct (sameAuthorityIdentity (sl_target s0) g) eqn:E; [|discriminate].
  intro H. inversion H. subst. auto.
Qed.

Ltac dproj := cbn [d_slots d_local d_touch d_expired put_slot LoseAuthority fst snd].

Lemma put_slot_inv d hs s :
  DInv d -> SInv s -> g_hs (sl_target s) = hs -> DInv (put_slot d hs s).
Proof.
  intros [H1 H2] I G. constructor; dproj.
  - apply n_set_nodup. exact H1.
  - intros hs' s'. destruct (N.eq_dec hs hs') as [E|E].
    + subst. rewrite n_get_set_same. intro X. inversion X. subst. auto.
    + rewrite n_get_set_other by exact E. apply H2.
Qed.

Lemma put_slot_get d hs s hs' :
  nget hs' (d_slots (put_slot d hs s)) = if hs' =? hs then Some s else nget hs' (d_slots d).
Proof.
  dproj. destruct (N.eqb_spec hs' hs) as [E|E].
  - subst. apply n_get_set_same.
  - apply n_get_set_other. congruence.
Qed.

(* expire_slots maps expireLocked over the slots *)
Lemma expire_slots_get slots nowS nowN ttl hs :
  nget hs (fst (expire_slots slots nowS nowN ttl)) =
  match nget hs slots with
  | Some s => Some (fst (expireLocked s nowS nowN ttl))
  | None => None
  end.
Proof.
  induction slots as [|[h s] rest IH]; simpl; [reflexivity|].
  destruct (expireLocked s nowS nowN ttl) as [s' r1] eqn:E1.
  destruct (expire_slots rest nowS nowN ttl) as [rest' r2] eqn:E2. simpl in *.
  destruct (hs =? h); [rewrite E1; reflexivity|exact IH].
Qed.

Lemma expire_slots_keys slots nowS nowN ttl :
  al_keys (fst (expire_slots slots nowS nowN ttl)) = al_keys slots.
Proof.
  induction slots as [|[h s] rest IH]; simpl; [reflexivity|].
  destruct (expireLocked s nowS nowN ttl) as [s' r1].
  destruct (expire_slots rest nowS nowN ttl) as [rest' r2]. simpl in *. rewrite IH. reflexivity.
Qed.

Lemma expireLocked_inv s nowS nowN ttl :
  SInv s -> SInv (fst (expireLocked s nowS nowN ttl))
            /\ sl_target (fst (expireLocked s nowS nowN ttl)) = sl_target s
            /\ sl_tomb (fst (expireLocked s nowS nowN ttl)) = sl_tomb s.
Proof.
  intro I. pose proof (expireLocked_spec s nowS nowN ttl I) as E.
  destruct (expireLocked s nowS nowN ttl) as [s' [[[[a b] c] e] f]]. simpl. tauto.
Qed.

Lemma step_inv d o : DInv d -> DInv (fst (step d o)).
Proof.
  intro I. destruct o; cbn [step].
  - (* become *)
    simpl. unfold BecomeAuthority.
    destruct (nget (g_hs g) (d_slots d)) as [cur|] eqn:G.
    + destruct (sameAuthorityIdentity (sl_target cur) g).
      * destruct (g_rev (sl_target cur) <=? g_rev g); [|exact I].
        apply put_slot_inv; [exact I| |reflexivity].
        apply (SInv_ext cur); try reflexivity. apply (di_slots d I _ _ G).
      * apply put_slot_inv; [exact I|apply SInv_new|reflexivity].
    + apply put_slot_inv; [exact I|apply SInv_new|reflexivity].
  - (* lose *)
    dproj. constructor; dproj.
    + apply n_del_nodup. apply (di_nodup d I).
    + intros hs' s'. destruct (N.eq_dec hs hs') as [E|E].
      * subst. rewrite n_get_del_same. discriminate.
      * rewrite n_get_del_other by exact E. apply (di_slots d I).
  - (* register *)
    unfold RegisterRoute. destruct (validateTargetLocked d g) as [s|] eqn:V; [|exact I].
    apply validate_some in V. destruct V as [V _]. destruct (di_slots d I _ _ V) as [IS GH].
    pose proof (registerLocked_inv s r IS) as R. destruct (registerLocked s r) as [[[s' e] tok] acts].
    destruct R as [R1 [_ R3]]. simpl. apply put_slot_inv; [exact I|exact R1|congruence].
  - (* commit *)
    unfold CommitRoute. destruct (validateTargetLocked d g) as [s|] eqn:V; [|exact I].
    apply validate_some in V. destruct V as [V _]. destruct (di_slots d I _ _ V) as [IS GH].
    pose proof (commitRouteLocked_inv s tok IS) as R. destruct (commitRouteLocked s tok) as [s' e].
    destruct R as [R1 [_ R3]]. simpl. apply put_slot_inv; [exact I|exact R1|congruence].
  - (* abort *)
    unfold AbortRoute. destruct (validateTargetLocked d g) as [s|] eqn:V; [|exact I].
    apply validate_some in V. destruct V as [V _]. destruct (di_slots d I _ _ V) as [IS GH].
    destruct (nget tok (sl_pending s)); [|exact I]. simpl.
    apply put_slot_inv; [exact I| |exact GH]. apply (SInv_ext s); try reflexivity. exact IS.
  - (* unregister *)
    unfold UnregisterRoute. destruct (validateTargetLocked d g) as [s|] eqn:V; [|exact I].
    apply validate_some in V. destruct V as [V _]. destruct (di_slots d I _ _ V) as [IS GH].
    destruct (unregisterLocked_inv s k oseq IS) as [R1 [R2 _]]. simpl.
    apply put_slot_inv; [exact I|exact R1|congruence].
  - (* touch *)
    unfold TouchRoutes. destruct (validateTargetLocked d g) as [s|] eqn:V; [|exact I].
    apply validate_some in V. destruct V as [V _]. destruct (di_slots d I _ _ V) as [IS GH].
    destruct (fold_touch_inv rs s IS) as [R1 [_ R3]].
    pose proof (put_slot_inv d (g_hs g) _ I R1 ltac:(congruence)) as P.
    destruct P as [P1 P2]. constructor; [exact P1|exact P2].
  - (* expire *)
    unfold ExpireRoutesDetailed.
    pose proof (expire_slots_get (d_slots d) nowS nowN ttl) as EG.
    pose proof (expire_slots_keys (d_slots d) nowS nowN ttl) as EK.
    destruct (expire_slots (d_slots d) nowS nowN ttl) as [slots' [[[[a b] c] e] f]]. simpl in *.
    constructor; simpl.
    + rewrite EK. apply (di_nodup d I).
    + intros hs s'. rewrite EG. destruct (nget hs (d_slots d)) as [s|] eqn:G; [|discriminate].
      intro X. inversion X. subst s'. destruct (di_slots d I _ _ G) as [IS GH].
      destruct (expireLocked_inv s nowS nowN ttl IS) as [R1 [R2 _]]. split; [exact R1|congruence].
  - (* lookups, snapshot *)
    simpl. destruct (EndpointsByUIDs d g uids). exact I.
  - simpl. destruct (EndpointsByUID d g uid). exact I.
  - exact I.
  - simpl. destruct (Snapshot d) as [[[[[a b] c] e] f] g]. exact I.
Qed.

Lemma run_inv ops : forall d, DInv d -> DInv (fst (run d ops)).
Proof.
  induction ops as [|o rest IH]; intros d I; simpl; [exact I|].
  pose proof (step_inv d o I) as S. destruct (step d o) as [d1 r]. simpl in S.
  specialize (IH d1 S). destruct (run d1 rest) as [d' tr]. exact IH.
Qed.

Definition reachable (d : directory) : Prop := exists localNode ops, fst (run (NewDirectory localNode) ops) = d.

Lemma reachable_inv d : reachable d -> DInv d.
Proof. intros [l [ops E]]. subst. apply run_inv. apply DInv_new. Qed.
