(* Proof/Delivery_queue_pop.v — pop of the array / free-list queue simulates
   removing the head of the shard's FIFO list; histories of queue operations. *)
From WK Require Import Base.Base Gen.Consts_C31 Model.Delivery Proof.Delivery_queue.
From Coq Require Import Permutation.
Open Scope nat_scope.

Lemma pop_refines q fl sl s q' g :
  QInv q fl sl -> pq_pop q s = (q', g) ->
  exists fl' sl', QInv q' fl' sl'
    /\ aq_pop (abs q sl) s = (abs q' sl', g)
    /\ pq_cap q' = pq_cap q /\ length sl' = length sl.
Proof.
  intros I E. unfold pq_pop in E. unfold aq_pop.
  destruct (Nat.lt_ge_cases s (length sl)) as [Hs|Hs].
  2:{ rewrite nth_overflow in E by (rewrite (qi_len_heads _ _ _ I); exact Hs).
      inversion E; subst. exists fl, sl.
      rewrite nth_overflow by (unfold abs; rewrite map_length; exact Hs). auto. }
  destruct (qi_shards _ _ _ I s Hs) as [Hch Htail].
  unfold abs at 1. rewrite nth_abs.
  destruct (nth s (pq_heads q) None) as [i|] eqn:Hh.
  2:{ destruct (nth s sl []) as [|x l]; [|simpl in Hch; destruct Hch; discriminate].
      inversion E; subst. exists fl, sl. auto. }
  destruct (nth s sl []) as [|i0 r] eqn:Hl; [simpl in Hch; discriminate|].
  simpl in Hch. destruct Hch as [Ei Hch]. inversion Ei; subst i0. clear Ei.
  inversion E; subst q' g. clear E.
  set (sl' := upd s r sl).
  pose proof (concat_upd_tail sl s i r Hl) as Hp. fold sl' in Hp.
  pose proof (qi_nodup _ _ _ I) as ND.
  destruct (nodup_app_inv _ _ ND) as (NDf & NDc & Dfc).
  assert (Hi_c : In i (concat sl)) by (apply (in_nth_concat sl s); rewrite Hl; left; reflexivity).
  assert (Hi_fl : ~ In i fl) by (intro H; exact (Dfc i H Hi_c)).
  assert (NDc' : NoDup (i :: concat sl')) by exact (Permutation_NoDup Hp NDc).
  inversion NDc' as [|? ? Hi_c' NDc'']; subst.
  assert (Hib : i < pq_cap q).
  { apply (qi_bound _ _ _ I). apply in_or_app. right. exact Hi_c. }
  assert (Hperm : Permutation ((i :: fl) ++ concat sl') (fl ++ concat sl)).
  { simpl. eapply Permutation_trans; [apply Permutation_middle|].
    apply Permutation_app_head. apply Permutation_sym. exact Hp. }
  assert (Hlenl' : length sl' = length sl) by (unfold sl'; apply upd_length).
  assert (Hnth_s : nth s sl' [] = r) by (unfold sl'; apply nth_upd_eq; exact Hs).
  assert (Hnth_o : forall s', s' <> s -> nth s' sl' [] = nth s' sl []).
  { intros s' Hne. unfold sl'. apply nth_upd_neq. congruence. }
  assert (Hr_in : forall j, In j r -> In j (concat sl')).
  { intros j Hj. apply (in_nth_concat sl' s). rewrite Hnth_s. exact Hj. }
  assert (Hi_r : ~ In i r) by (intro H; apply Hi_c'; apply Hr_in; exact H).
  exists (i :: fl), sl'. split; [|split; [|split; [reflexivity| exact Hlenl']]].
  - constructor; cbn [pq_cap pq_plans pq_next pq_heads pq_tails pq_free pq_depth].
    + rewrite upd_length. exact (qi_len_plans _ _ _ I).
    + rewrite upd_length. exact (qi_len_next _ _ _ I).
    + rewrite upd_length, Hlenl'. exact (qi_len_heads _ _ _ I).
    + destruct (nth i (pq_next q) None); [|rewrite upd_length]; rewrite Hlenl'; exact (qi_len_tails _ _ _ I).
    + simpl. split; [reflexivity|].
      rewrite nth_upd_eq by (rewrite (qi_len_next _ _ _ I); exact Hib).
      apply chain_upd_notin; [exact Hi_fl| exact (qi_free _ _ _ I)].
    + intros s' Hs'. rewrite Hlenl' in Hs'.
      destruct (Nat.eq_dec s' s) as [->|Hne].
      * rewrite Hnth_s. split.
        -- rewrite nth_upd_eq by (rewrite (qi_len_heads _ _ _ I); exact Hs).
           apply chain_upd_notin; [exact Hi_r| exact Hch].
        -- destruct r as [|j r'].
           ++ simpl in Hch. rewrite Hch.
              rewrite nth_upd_eq by (rewrite (qi_len_tails _ _ _ I); exact Hs). reflexivity.
           ++ simpl in Hch. destruct Hch as [Ej _]. rewrite Ej.
              rewrite Htail. reflexivity.
      * rewrite (Hnth_o s' Hne). destruct (qi_shards _ _ _ I s' Hs') as [Hc' Ht'].
        rewrite nth_upd_neq by congruence. split.
        -- apply chain_upd_notin; [|exact Hc'].
           intro H. apply (concat_disjoint sl NDc s s' i); [congruence| rewrite Hl; left; reflexivity| exact H].
        -- destruct (nth i (pq_next q) None); [exact Ht'|].
           rewrite nth_upd_neq by congruence. exact Ht'.
    + exact (Permutation_NoDup (Permutation_sym Hperm) ND).
    + intros j Hj. apply (qi_bound _ _ _ I). exact (Permutation_in j Hperm Hj).
    + rewrite (Permutation_length Hperm). exact (qi_count _ _ _ I).
    + rewrite (qi_depth _ _ _ I). rewrite (Permutation_length Hp). reflexivity.
    + rewrite Hlenl'. exact (qi_pos _ _ _ I).
  - simpl. f_equal.
    unfold abs. cbn [pq_plans]. unfold sl'. rewrite map_upd.
    assert (Hr : map (plan_at (upd i zero_plan (pq_plans q))) r = map (plan_at (pq_plans q)) r).
    { apply map_ext_in. intros j Hj. unfold plan_at. apply nth_upd_neq.
      intro Eij. subst j. exact (Hi_r Hj). }
    rewrite Hr. apply (upd_ext s _ _ _ []).
    + rewrite !map_length. reflexivity.
    + intros k Hk. rewrite !nth_abs. apply map_ext_in. intros j Hj.
      unfold plan_at. symmetry. apply nth_upd_neq. intro Eij. subst j.
      apply (concat_disjoint sl NDc s k i); [congruence| rewrite Hl; left; reflexivity| exact Hj].
Qed.
