(* Proof/ChanAppend_writer.v — the per-channel writer's sequencing and reorder
   buffer (state.go recordAppendCompletion / popNextAppendCompletion and the pop
   loop of writer.go applyAppendCompletion): for ANY arrival order of completion
   events the pops deliver consecutive sequence numbers, each once; stale and
   duplicated arrivals are never delivered twice; when the arrivals are a
   permutation of 0..n-1 everything is delivered, in sequence order, and the
   buffer ends empty. *)
From WK Require Import Base.Base Gen.Consts_C29 Model.ChanAppend.
From Coq Require Import Permutation.
Open Scope N_scope.

(* ---- association lists ----------------------------------------------------------- *)

Definition keys {A} (m : list (N * A)) : list N := map fst m.

Lemma map_get_in {A} k (m : list (N * A)) v : map_get k m = Some v -> In (k, v) m.
Proof.
  induction m as [|[k' v'] m IH]; cbn [map_get]; intro H; [discriminate|].
  destruct (k =? k') eqn:E.
  - apply N.eqb_eq in E. inversion H; subst. left; reflexivity.
  - right; auto.
Qed.

Lemma map_get_none {A} k (m : list (N * A)) : map_get k m = None <-> ~ In k (keys m).
Proof.
  induction m as [|[k' v'] m IH]; cbn [map_get keys map fst]; [tauto|].
  destruct (k =? k') eqn:E.
  - apply N.eqb_eq in E. subst. split; [discriminate|]. intro H; exfalso; apply H; left; reflexivity.
  - apply N.eqb_neq in E. rewrite IH. unfold keys. split; intro H.
    + intros [H1|H1]; [congruence|tauto].
    + intro H1. apply H. right; exact H1.
Qed.

Lemma map_get_some_key {A} k (m : list (N * A)) v : map_get k m = Some v -> In k (keys m).
Proof. intro H. apply map_get_in in H. unfold keys. apply in_map_iff. exists (k, v). auto. Qed.

Lemma in_map_del {A} k (m : list (N * A)) p : In p (map_del k m) <-> In p m /\ fst p <> k.
Proof.
  unfold map_del. rewrite filter_In. split; intros [H1 H2]; split; auto.
  - apply negb_true_iff in H2. apply N.eqb_neq in H2. exact H2.
  - apply negb_true_iff. apply N.eqb_neq. exact H2.
Qed.

Lemma keys_map_del {A} k (m : list (N * A)) x : In x (keys (map_del k m)) <-> In x (keys m) /\ x <> k.
Proof.
  unfold keys. rewrite !in_map_iff. split.
  - intros [p [E H]]. apply in_map_del in H. destruct H as [H1 H2]. subst x. split; eauto.
  - intros [[p [E H]] Hn]. exists p. split; auto. apply in_map_del. subst x. auto.
Qed.

Lemma filter_len_le {A} (f : A -> bool) (l : list A) : (length (filter f l) <= length l)%nat.
Proof. induction l as [|x l IH]; cbn [filter length]; [lia|]. destruct (f x); cbn [length]; lia. Qed.

Lemma map_del_length_lt {A} k (m : list (N * A)) :
  In k (keys m) -> (length (map_del k m) < length m)%nat.
Proof.
  induction m as [|[k' v] m IH]; cbn [keys map fst]; intro H; [contradiction|].
  unfold map_del. cbn [filter fst]. destruct (k' =? k) eqn:E; cbn [negb].
  - pose proof (filter_len_le (fun p : N * A => negb (fst p =? k)) m). cbn [length]. lia.
  - apply N.eqb_neq in E. destruct H as [H|H]; [congruence|].
    cbn [length]. specialize (IH H). unfold map_del in IH. lia.
Qed.

Lemma map_del_length_le {A} k (m : list (N * A)) : (length (map_del k m) <= length m)%nat.
Proof. unfold map_del. apply filter_len_le. Qed.

(* ---- what the buffer holds --------------------------------------------------------- *)

Definition buffered (s : wstate) : list event :=
  (match ws_ready s with Some e => [e] | None => [] end) ++ map snd (ws_completed s).

(* every buffered entry is filed under its own sequence number *)
Definition entries_ok (s : wstate) : Prop := forall k e, In (k, e) (ws_completed s) -> ev_seq e = k.

Lemma entries_ok_init hw limit : entries_ok (newChannelState hw limit).
Proof. intros k e H. contradiction. Qed.

Lemma record_entries_ok s ev : entries_ok s -> entries_ok (recordAppendCompletion s ev).
Proof.
  intros H. unfold recordAppendCompletion.
  destruct (ev_seq ev <? ws_drain s); [exact H|].
  destruct ((ev_seq ev =? ws_drain s) && negb (match ws_ready s with Some _ => true | None => false end)).
  - exact H.
  - intros k e Hin. cbn [ws_completed] in Hin. unfold map_put in Hin.
    destruct Hin as [Hin|Hin].
    + inversion Hin; subst. reflexivity.
    + apply in_map_del in Hin. destruct Hin as [Hin _]. apply (H _ _ Hin).
Qed.

Lemma record_buffered s ev e : In e (buffered (recordAppendCompletion s ev)) -> e = ev \/ In e (buffered s).
Proof.
  unfold recordAppendCompletion.
  destruct (ev_seq ev <? ws_drain s); [auto|].
  destruct ((ev_seq ev =? ws_drain s) && negb (match ws_ready s with Some _ => true | None => false end)) eqn:E.
  - apply andb_true_iff in E. destruct E as [_ E]. destruct (ws_ready s) eqn:R; [discriminate|].
    unfold buffered. cbn [ws_ready ws_completed]. rewrite R. cbn [app]. intros [H|H]; [left; auto|right; auto].
  - unfold buffered. cbn [ws_ready ws_completed]. rewrite !in_app_iff. intros [H|H]; [right; left; exact H|].
    unfold map_put in H. cbn [map snd] in H. destruct H as [H|H]; [left; auto|].
    right. right. apply in_map_iff in H. destruct H as [p [E1 H]]. apply in_map_del in H.
    apply in_map_iff. exists p. tauto.
Qed.

Lemma record_drain s ev : ws_drain (recordAppendCompletion s ev) = ws_drain s.
Proof.
  unfold recordAppendCompletion.
  destruct (ev_seq ev <? ws_drain s); [reflexivity|].
  destruct ((ev_seq ev =? ws_drain s) && negb (match ws_ready s with Some _ => true | None => false end)); reflexivity.
Qed.

Definition wmeasure (s : wstate) : nat :=
  (length (ws_completed s) + match ws_ready s with Some _ => 1 | None => 0 end)%nat.

(* one successful pop: the event carries the current drain sequence, which then advances by one *)
Lemma pop_some s e s' :
  entries_ok s -> popNextAppendCompletion s = (Some e, s') ->
  ev_seq e = ws_drain s /\ ws_drain s' = ws_drain s + 1 /\ entries_ok s' /\ In e (buffered s)
  /\ (forall x, In x (buffered s') -> In x (buffered s))
  /\ (wmeasure s' < wmeasure s)%nat.
Proof.
  intros Hok. unfold popNextAppendCompletion.
  assert (Hmap : pop_map s = (Some e, s') ->
    ev_seq e = ws_drain s /\ ws_drain s' = ws_drain s + 1 /\ entries_ok s' /\ In e (buffered s)
    /\ (forall x, In x (buffered s') -> In x (buffered s))
    /\ (wmeasure s' < wmeasure s)%nat).
  { unfold pop_map. destruct (map_get (ws_drain s) (ws_completed s)) eqn:G; [|discriminate].
    intro H. inversion H; subst. cbn [ws_drain ws_completed ws_ready].
    pose proof (map_get_in _ _ _ G) as Hin.
    split; [apply (Hok _ _ Hin)|]. split; [reflexivity|]. split.
    { intros k x Hx. apply in_map_del in Hx. destruct Hx as [Hx _]. apply (Hok _ _ Hx). }
    split.
    { unfold buffered. apply in_or_app. right. apply in_map_iff. exists (ws_drain s, e). auto. }
    split.
    { intro x. unfold buffered. cbn [ws_ready ws_completed]. rewrite !in_app_iff. intros [Hx|Hx]; [left; exact Hx|].
      right. apply in_map_iff in Hx. destruct Hx as [p [E1 Hx]]. apply in_map_del in Hx.
      apply in_map_iff. exists p. tauto. }
    unfold wmeasure. cbn [ws_completed ws_ready].
    pose proof (map_del_length_lt (ws_drain s) (ws_completed s) (map_get_some_key _ _ _ G)). lia. }
  destruct (ws_ready s) as [r|] eqn:R; [|exact Hmap].
  destruct (ev_seq r =? ws_drain s) eqn:E; [|exact Hmap].
  intro H. inversion H; subst. cbn [ws_drain ws_completed ws_ready].
  apply N.eqb_eq in E.
  split; [exact E|]. split; [reflexivity|]. split; [exact Hok|]. split.
  { unfold buffered. rewrite R. left; reflexivity. }
  split.
  { intro x. unfold buffered. cbn [ws_ready ws_completed]. rewrite R. cbn [app]. intro Hx. right; exact Hx. }
  unfold wmeasure. cbn [ws_completed ws_ready]. rewrite R. lia.
Qed.

Lemma pop_none_state s s' : popNextAppendCompletion s = (None, s') -> s' = s.
Proof.
  unfold popNextAppendCompletion, pop_map.
  destruct (ws_ready s) as [r|].
  - destruct (ev_seq r =? ws_drain s); [discriminate|].
    destruct (map_get (ws_drain s) (ws_completed s)); [discriminate|]. intro H; inversion H; reflexivity.
  - destruct (map_get (ws_drain s) (ws_completed s)); [discriminate|]. intro H; inversion H; reflexivity.
Qed.

Lemma finish_fields s n :
  ws_drain (finishAppend s n) = ws_drain s /\ ws_ready (finishAppend s n) = ws_ready s
  /\ ws_completed (finishAppend s n) = ws_completed s /\ ws_next (finishAppend s n) = ws_next s
  /\ ws_pending (finishAppend s n) = ws_pending s.
Proof. repeat split. Qed.

Lemma finish_entries_ok s n : entries_ok s -> entries_ok (finishAppend s n).
Proof. intros H k e Hin. apply (H k e Hin). Qed.

Lemma finish_buffered s n : buffered (finishAppend s n) = buffered s.
Proof. reflexivity. Qed.

Lemma finish_pop s n :
  fst (popNextAppendCompletion (finishAppend s n)) = fst (popNextAppendCompletion s).
Proof.
  unfold popNextAppendCompletion, pop_map. cbn [ws_ready ws_drain ws_completed finishAppend].
  destruct (ws_ready s) as [r|].
  - destruct (ev_seq r =? ws_drain s); [reflexivity|].
    destruct (map_get (ws_drain s) (ws_completed s)); reflexivity.
  - destruct (map_get (ws_drain s) (ws_completed s)); reflexivity.
Qed.

(* consecutive sequence numbers k, k+1, ... *)
Fixpoint consec (k : N) (l : list N) : Prop :=
  match l with
  | [] => True
  | x :: r => x = k /\ consec (k + 1) r
  end.

Lemma consec_app k l1 l2 : consec k l1 -> consec (k + N.of_nat (length l1)) l2 -> consec k (l1 ++ l2).
Proof.
  revert k. induction l1 as [|x l1 IH]; intros k H1 H2; cbn [app length] in *.
  - replace (k + N.of_nat 0) with k in H2 by lia. exact H2.
  - destruct H1 as [E H1]. split; [exact E|]. apply IH; [exact H1|].
    replace (k + 1 + N.of_nat (length l1)) with (k + N.of_nat (S (length l1))) by lia. exact H2.
Qed.

Lemma consec_nseq n k l : consec k l -> length l = n -> l = map (fun i => k + N.of_nat i) (seq 0 n).
Proof.
  revert k l. induction n as [|n IH]; intros k l H L.
  - destruct l; [reflexivity|discriminate].
  - destruct l as [|x l]; [discriminate|]. cbn [consec] in H. destruct H as [E H]. subst x.
    cbn [seq map]. f_equal; [lia|]. rewrite <- seq_shift, map_map.
    rewrite (IH (k + 1) l H); [|cbn [length] in L; lia].
    apply map_ext. intro i. lia.
Qed.

(* ---- the pop loop ------------------------------------------------------------------------ *)

Lemma drain_spec fuel : forall s out s',
  entries_ok s -> drain fuel s = (out, s') ->
  consec (ws_drain s) (map ev_seq out)
  /\ ws_drain s' = ws_drain s + N.of_nat (length out)
  /\ entries_ok s'
  /\ (forall e, In e out -> In e (buffered s))
  /\ (forall e, In e (buffered s') -> In e (buffered s)).
Proof.
  induction fuel as [|fuel IH]; intros s out s' Hok H; cbn [drain] in H.
  - inversion H; subst. cbn [map consec length]. repeat split; auto; try contradiction. lia.
  - destruct (popNextAppendCompletion s) as [[e|] s1] eqn:P.
    + destruct (drain fuel (finishAppend s1 (N.of_nat (length (ev_items e))))) as [evs s2] eqn:D.
      inversion H; subst. clear H.
      destruct (pop_some _ _ _ Hok P) as [Hs [Hd [Hok1 [Hin [Hsub _]]]]].
      specialize (IH _ _ _ (finish_entries_ok _ _ Hok1) D).
      rewrite finish_buffered in IH. cbn [ws_drain finishAppend] in IH.
      destruct IH as [Hc [Hd2 [Hok2 [Hin2 Hsub2]]]].
      cbn [map consec length]. rewrite Hd in Hc, Hd2.
      split; [split; auto|]. split; [lia|]. split; [exact Hok2|]. split.
      * intros x [Hx|Hx]; [subst; exact Hin|]. apply Hsub. apply Hin2. exact Hx.
      * intros x Hx. apply Hsub. apply Hsub2. exact Hx.
    + pose proof (pop_none_state _ _ P) as E1. subst s1. inversion H; subst.
      cbn [map consec length]. repeat split; auto; try contradiction. lia.
Qed.

(* the fuel of applyAppendCompletion is enough: the loop ends because nothing is poppable *)
Lemma drain_stops fuel : forall s out s',
  entries_ok s -> (wmeasure s < fuel)%nat ->
  drain fuel s = (out, s') -> fst (popNextAppendCompletion s') = None.
Proof.
  induction fuel as [|fuel IH]; intros s out s' Hok Hf H; [lia|]. cbn [drain] in H.
  destruct (popNextAppendCompletion s) as [[e|] s1] eqn:P.
  - destruct (drain fuel (finishAppend s1 (N.of_nat (length (ev_items e))))) as [evs s2] eqn:D.
    inversion H; subst. clear H.
    destruct (pop_some _ _ _ Hok P) as [_ [_ [Hok1 [_ [_ Hm]]]]].
    apply (IH _ _ _ (finish_entries_ok _ _ Hok1)) in D; [exact D|].
    unfold wmeasure in *. cbn [ws_completed ws_ready finishAppend]. lia.
  - pose proof (pop_none_state _ _ P) as E1. subst s1. inversion H; subst. rewrite P. reflexivity.
Qed.

Lemma drain_fuel_enough s : (wmeasure s < drain_fuel s)%nat.
Proof. unfold wmeasure, drain_fuel. destruct (ws_ready s); lia. Qed.

(* ---- applyAppendCompletion and sequences of arrivals ---------------------------------------- *)

Lemma apply_spec s ev out s' :
  entries_ok s -> applyAppendCompletion s ev = (out, s') ->
  consec (ws_drain s) (map ev_seq out)
  /\ ws_drain s' = ws_drain s + N.of_nat (length out)
  /\ entries_ok s'
  /\ (forall e, In e out -> e = ev \/ In e (buffered s))
  /\ (forall e, In e (buffered s') -> e = ev \/ In e (buffered s))
  /\ fst (popNextAppendCompletion s') = None.
Proof.
  intros Hok H. unfold applyAppendCompletion in H.
  pose proof (record_entries_ok s ev Hok) as Hok1.
  destruct (drain_spec _ _ _ _ Hok1 H) as [Hc [Hd [Hok2 [Hin Hsub]]]].
  rewrite record_drain in Hc, Hd.
  split; [exact Hc|]. split; [exact Hd|]. split; [exact Hok2|]. split; [|split].
  - intros e He. apply record_buffered. apply Hin. exact He.
  - intros e He. apply record_buffered. apply Hsub. exact He.
  - eapply drain_stops; [exact Hok1| |exact H]. apply drain_fuel_enough.
Qed.

(* completions arriving one after the other, each applied by applyAppendCompletion *)
Fixpoint apply_all (s : wstate) (evs : list event) : list event * wstate :=
  match evs with
  | [] => ([], s)
  | ev :: r =>
      let '(o1, s1) := applyAppendCompletion s ev in
      let '(o2, s2) := apply_all s1 r in
      (o1 ++ o2, s2)
  end.

Lemma consec_lt k l x : consec k l -> In x l -> k <= x.
Proof.
  revert k. induction l as [|y l IH]; intros k H Hin; [contradiction|].
  destruct H as [E H]. destruct Hin as [Hin|Hin]; [subst; lia|].
  specialize (IH _ H Hin). lia.
Qed.

Lemma consec_nodup k l : consec k l -> NoDup l.
Proof.
  revert k. induction l as [|y l IH]; intros k H; [constructor|].
  destruct H as [E H]. constructor; [|eapply IH; eauto].
  intro Hin. pose proof (consec_lt _ _ _ H Hin). lia.
Qed.

(* ANY arrivals (duplicates, stale, not yet issued): deliveries carry consecutive
   sequence numbers starting at the drain position — in order, none twice — and
   every delivered event is one that arrived (or was already buffered) *)
Theorem drain_in_order_any : forall evs s out s',
  entries_ok s -> apply_all s evs = (out, s') ->
  consec (ws_drain s) (map ev_seq out)
  /\ ws_drain s' = ws_drain s + N.of_nat (length out)
  /\ entries_ok s'
  /\ (forall e, In e out -> In e evs \/ In e (buffered s))
  /\ NoDup (map ev_seq out).
Proof.
  induction evs as [|ev r IH]; intros s out s' Hok H; cbn [apply_all] in H.
  - inversion H; subst. cbn [map consec length]. repeat split; auto; try contradiction; try lia. constructor.
  - destruct (applyAppendCompletion s ev) as [o1 s1] eqn:A1.
    destruct (apply_all s1 r) as [o2 s2] eqn:A2. inversion H; subst. clear H.
    destruct (apply_spec _ _ _ _ Hok A1) as [Hc1 [Hd1 [Hok1 [Hin1 [Hsub1 _]]]]].
    destruct (IH _ _ _ Hok1 A2) as [Hc2 [Hd2 [Hok2 [Hin2 _]]]].
    assert (Hc : consec (ws_drain s) (map ev_seq (o1 ++ o2))).
    { rewrite map_app. apply consec_app; [exact Hc1|]. rewrite map_length, <- Hd1. exact Hc2. }
    split; [exact Hc|]. split; [rewrite app_length; lia|]. split; [exact Hok2|]. split.
    + intros e He. apply in_app_or in He. destruct He as [He|He].
      * destruct (Hin1 _ He) as [E|E]; [left; left; auto|right; exact E].
      * destruct (Hin2 _ He) as [E|E]; [left; right; exact E|].
        destruct (Hsub1 _ E) as [E1|E1]; [left; left; auto|right; exact E1].
    + eapply consec_nodup; eauto.
Qed.

(* ---- arrivals with pairwise distinct sequence numbers --------------------------------------- *)

(* the buffer after the pop loop, given the set [A] of sequence numbers that arrived so far *)
Record Loop (s : wstate) (A : list N) : Prop := {
  lp_ready : ws_ready s = None;
  lp_entries : entries_ok s;
  lp_keys : forall k, In k (keys (ws_completed s)) <-> In k A /\ ws_drain s <= k;
  lp_below : forall k, k < ws_drain s -> In k A }.

Definition Clean (s : wstate) (A : list N) : Prop := Loop s A /\ ~ In (ws_drain s) A.

Lemma Loop_ext s A B : (forall k, In k A <-> In k B) -> Loop s A -> Loop s B.
Proof.
  intros E [H1 H2 H3 H4]. constructor; auto.
  - intro k. rewrite H3, E. tauto.
  - intros k Hk. apply E. auto.
Qed.

Lemma Clean_ext s A B : (forall k, In k A <-> In k B) -> Clean s A -> Clean s B.
Proof. intros E [H1 H2]. split; [eapply Loop_ext; eauto|]. rewrite <- E. exact H2. Qed.

Lemma finish_loop s n A : Loop s A -> Loop (finishAppend s n) A.
Proof. intros [H1 H2 H3 H4]. constructor; auto. Qed.

Lemma drain_loop fuel : forall s A out s',
  Loop s A -> (wmeasure s < fuel)%nat -> drain fuel s = (out, s') -> Clean s' A.
Proof.
  induction fuel as [|fuel IH]; intros s A out s' HL Hf H; [lia|]. cbn [drain] in H.
  destruct (popNextAppendCompletion s) as [[e|] s1] eqn:P.
  - destruct (drain fuel (finishAppend s1 (N.of_nat (length (ev_items e))))) as [evs s2] eqn:D.
    inversion H; subst. clear H.
    destruct (pop_some _ _ _ (lp_entries _ _ HL) P) as [_ [_ [Hok1 [_ [_ Hm]]]]].
    assert (HL1 : Loop s1 A).
    { destruct HL as [H1 H2 H3 H4].
      unfold popNextAppendCompletion in P. rewrite H1 in P. unfold pop_map in P.
      destruct (map_get (ws_drain s) (ws_completed s)) eqn:G; [|discriminate].
      inversion P; subst. constructor; cbn [ws_ready ws_completed ws_drain].
      - exact H1.
      - exact Hok1.
      - intro k. rewrite keys_map_del, H3. split.
        + intros [[Ha Hb] Hc]. split; [exact Ha|lia].
        + intros [Ha Hb]. split; [split; [exact Ha|lia]|lia].
      - intros k Hk. destruct (N.eq_dec k (ws_drain s)) as [E|E].
        + subst k. apply map_get_some_key in G. apply H3 in G. tauto.
        + apply H4. lia. }
    eapply IH; [apply finish_loop; exact HL1| |exact D].
    unfold wmeasure in *. cbn [ws_completed ws_ready finishAppend]. lia.
  - pose proof (pop_none_state _ _ P) as E1. subst s1. inversion H; subst.
    split; [exact HL|].
    destruct HL as [H1 H2 H3 H4].
    unfold popNextAppendCompletion in P. rewrite H1 in P. unfold pop_map in P.
    destruct (map_get (ws_drain s') (ws_completed s')) eqn:G; [discriminate|].
    apply map_get_none in G. intro Hin. apply G. apply H3. split; [exact Hin|lia].
Qed.

Lemma drain_S f s :
  drain (S f) s =
  match popNextAppendCompletion s with
  | (Some ev, s1) =>
      let '(evs, s2) := drain f (finishAppend s1 (N.of_nat (length (ev_items ev)))) in (ev :: evs, s2)
  | (None, s1) => ([], s1)
  end.
Proof. reflexivity. Qed.

Lemma pop_ready s e :
  ws_ready s = Some e -> ev_seq e = ws_drain s ->
  popNextAppendCompletion s =
  (Some e, WS (ws_hw s) (ws_limit s) (ws_pending s) (ws_inflight s) (ws_inflight_items s)
              (ws_next s) (ws_drain s + 1) None (ws_completed s)).
Proof. intros R E. unfold popNextAppendCompletion. rewrite R, E, N.eqb_refl. reflexivity. Qed.

Lemma apply_clean s A ev out s' :
  Clean s A -> ~ In (ev_seq ev) A -> applyAppendCompletion s ev = (out, s') ->
  Clean s' (ev_seq ev :: A).
Proof.
  intros [[H1 H2 H3 H4] H5] Hq H. unfold applyAppendCompletion in H.
  remember (recordAppendCompletion s ev) as R eqn:ER.
  unfold recordAppendCompletion in ER.
  destruct (ev_seq ev <? ws_drain s) eqn:E1.
  { apply N.ltb_lt in E1. exfalso. apply Hq. apply H4. exact E1. }
  apply N.ltb_ge in E1. rewrite H1 in ER. cbn [negb] in ER. rewrite andb_true_r in ER.
  destruct (ev_seq ev =? ws_drain s) eqn:E2.
  - (* the in-order completion: parked in the ready slot, popped at once *)
    apply N.eqb_eq in E2.
    assert (R1 : ws_ready R = Some ev) by (subst R; reflexivity).
    assert (R2 : ws_drain R = ws_drain s) by (subst R; reflexivity).
    assert (R3 : ws_completed R = ws_completed s) by (subst R; reflexivity).
    clear ER. unfold drain_fuel in H. rewrite drain_S in H.
    rewrite (pop_ready R ev R1) in H by congruence.
    match type of H with
    | (let '(evs, s2) := drain ?f ?st in _) = _ => destruct (drain f st) as [evs s2] eqn:D
    end.
    inversion H; subst. clear H.
    eapply drain_loop; [| |exact D].
    + constructor; cbn [ws_ready ws_completed ws_drain finishAppend]; rewrite ?R2, ?R3.
      * reflexivity.
      * exact H2.
      * intro k. rewrite H3. cbn [In]. split.
        -- intros [Ha Hb]. split; [right; exact Ha|].
           destruct (N.eq_dec k (ws_drain s)); [subst; contradiction|lia].
        -- intros [[Ha|Ha] Hb]; [lia|]. split; [exact Ha|lia].
      * intros k Hk. cbn [In]. destruct (N.eq_dec k (ws_drain s)) as [E|E]; [left; congruence|].
        right. apply H4. lia.
    + unfold wmeasure. cbn [ws_completed ws_ready finishAppend]. lia.
  - apply N.eqb_neq in E2. subst R.
    eapply drain_loop; [| |exact H].
    + constructor; cbn [ws_ready ws_completed ws_drain].
      * reflexivity.
      * intros k e Hin. unfold map_put in Hin. destruct Hin as [Hin|Hin].
        -- inversion Hin; subst. reflexivity.
        -- apply in_map_del in Hin. destruct Hin as [Hin _]. apply (H2 _ _ Hin).
      * intro k. unfold map_put. cbn [keys map fst In].
        fold (keys (map_del (ev_seq ev) (ws_completed s))). rewrite keys_map_del, H3. split.
        -- intros [Ha|[[Ha Hb] Hc]]; [subst; split; [left; reflexivity|lia]|split; [right; exact Ha|exact Hb]].
        -- intros [[Ha|Ha] Hb]; [left; exact Ha|]. right. split; [split; assumption|].
           intro E. subst k. contradiction.
      * intros k Hk. right. apply H4. exact Hk.
    + apply drain_fuel_enough.
Qed.

Lemma apply_all_clean : forall evs s A out s',
  Clean s A -> NoDup (map ev_seq evs) -> (forall e, In e evs -> ~ In (ev_seq e) A) ->
  apply_all s evs = (out, s') -> Clean s' (map ev_seq evs ++ A).
Proof.
  induction evs as [|ev r IH]; intros s A out s' HC Hnd Hfresh H; cbn [apply_all] in H.
  - inversion H; subst. exact HC.
  - destruct (applyAppendCompletion s ev) as [o1 s1] eqn:A1.
    destruct (apply_all s1 r) as [o2 s2] eqn:A2. inversion H; subst. clear H.
    cbn [map] in Hnd. inversion Hnd as [|x l Hx Hnd']; subst.
    pose proof (apply_clean _ _ _ _ _ HC (Hfresh ev (or_introl eq_refl)) A1) as HC1.
    specialize (IH s1 (ev_seq ev :: A) o2 s' HC1 Hnd').
    assert (Hf : forall e, In e r -> ~ In (ev_seq e) (ev_seq ev :: A)).
    { intros e He [E|E].
      - apply Hx. rewrite E. apply in_map. exact He.
      - apply (Hfresh e (or_intror He)). exact E. }
    specialize (IH Hf A2).
    eapply Clean_ext; [|exact IH].
    intro k. cbn [map app]. rewrite !in_app_iff. cbn [In]. rewrite in_app_iff. tauto.
Qed.

Definition nseq (n : nat) : list N := map N.of_nat (seq 0 n).

Lemma nseq_in n k : In k (nseq n) <-> k < N.of_nat n.
Proof.
  unfold nseq. rewrite in_map_iff. split.
  - intros [i [E H]]. apply in_seq in H. lia.
  - intro H. exists (N.to_nat k). split; [lia|]. apply in_seq. lia.
Qed.

Lemma nseq_nodup n : NoDup (nseq n).
Proof.
  unfold nseq. apply FinFun.Injective_map_NoDup; [|apply seq_NoDup].
  intros a b E. lia.
Qed.

Lemma nseq_length n : length (nseq n) = n.
Proof. unfold nseq. rewrite map_length, seq_length. reflexivity. Qed.

(* the arrivals are the completions of effects 0..n-1, each exactly once, in ANY order:
   all are delivered, in sequence order, each exactly once, and the buffer ends empty *)
Theorem drain_in_order_perm : forall hw limit evs out s',
  NoDup (map ev_seq evs) ->
  (forall k, k < N.of_nat (length evs) -> In k (map ev_seq evs)) ->
  apply_all (newChannelState hw limit) evs = (out, s') ->
  map ev_seq out = nseq (length evs)
  /\ Permutation out evs
  /\ ws_drain s' = N.of_nat (length evs)
  /\ ws_ready s' = None /\ ws_completed s' = [].
Proof.
  intros hw limit evs out s' Hnd Hall H.
  set (s0 := newChannelState hw limit) in *.
  assert (HC0 : Clean s0 []).
  { split; [|intros []]. constructor; cbn.
    - reflexivity.
    - apply entries_ok_init.
    - intro k. split; [intros []|intros [[] _]].
    - intros k Hk. lia. }
  pose proof (apply_all_clean evs s0 [] out s' HC0 Hnd (fun e _ F => F) H) as HC.
  rewrite app_nil_r in HC.
  destruct (drain_in_order_any evs s0 out s' (entries_ok_init hw limit) H) as [Hc [Hd [_ [Hin Hndo]]]].
  cbn [ws_drain s0 newChannelState] in Hc, Hd. rewrite N.add_0_l in Hd.
  assert (Hincl : incl out evs).
  { intros e He. destruct (Hin e He) as [E|E]; [exact E|]. cbn in E. contradiction. }
  assert (Hndout : NoDup out) by (eapply NoDup_map_inv; eauto).
  assert (Hle : (length out <= length evs)%nat) by (apply NoDup_incl_length; assumption).
  destruct HC as [[C1 C2 C3 C4] C5].
  assert (Hge : N.of_nat (length evs) <= ws_drain s').
  { destruct (N.le_gt_cases (N.of_nat (length evs)) (ws_drain s')) as [L|L]; [exact L|].
    exfalso. apply C5. apply Hall. exact L. }
  assert (Hlen : length out = length evs) by lia.
  split.
  { rewrite (consec_nseq (length evs) 0 (map ev_seq out) Hc); [|rewrite map_length; exact Hlen].
    unfold nseq. apply map_ext. intro i. lia. }
  split.
  { apply NoDup_Permutation_bis; [exact Hndout|lia|exact Hincl]. }
  split; [lia|]. split; [exact C1|].
  (* every arrived sequence number is below n, so nothing can remain buffered *)
  assert (Hsub : incl (map ev_seq evs) (nseq (length evs))).
  { apply NoDup_length_incl; [apply nseq_nodup|rewrite nseq_length, map_length; lia|].
    intros k Hk. apply nseq_in in Hk. apply Hall. exact Hk. }
  destruct (ws_completed s') as [|[k e] m] eqn:EC; [reflexivity|].
  exfalso. assert (Hk : In k (keys ((k, e) :: m))) by (left; reflexivity).
  apply C3 in Hk. destruct Hk as [Hk1 Hk2]. apply Hsub in Hk1. apply nseq_in in Hk1. lia.
Qed.

(* ---- nothing is lost or duplicated in the buffer (used by the pipeline invariant) ------------- *)

Lemma map_del_absent {A} k (m : list (N * A)) : ~ In k (keys m) -> map_del k m = m.
Proof.
  induction m as [|[k' v] m IH]; intro H; [reflexivity|].
  unfold map_del. cbn [filter fst]. cbn [keys map fst] in H.
  destruct (k' =? k) eqn:E.
  - apply N.eqb_eq in E. exfalso. apply H. left. exact E.
  - cbn [negb]. f_equal. apply IH. intro Hin. apply H. right. exact Hin.
Qed.

Lemma map_get_perm {A} k (m : list (N * A)) v :
  NoDup (keys m) -> map_get k m = Some v -> Permutation m ((k, v) :: map_del k m).
Proof.
  induction m as [|[k' v'] m IH]; intros Hnd H; [discriminate|].
  cbn [keys map fst] in Hnd. inversion Hnd as [|x l Hx Hnd']; subst.
  cbn [map_get] in H. destruct (k =? k') eqn:E.
  - apply N.eqb_eq in E. subst k'. inversion H; subst v'.
    unfold map_del. cbn [filter fst]. rewrite N.eqb_refl. cbn [negb].
    fold (map_del k m). rewrite map_del_absent by exact Hx. apply Permutation_refl.
  - unfold map_del. cbn [filter fst]. rewrite N.eqb_sym, E. cbn [negb]. fold (map_del k m).
    eapply perm_trans; [apply perm_skip; apply IH; assumption|]. apply perm_swap.
Qed.

Lemma nodup_keys_del {A} k (m : list (N * A)) : NoDup (keys m) -> NoDup (keys (map_del k m)).
Proof.
  induction m as [|[k' v] m IH]; intro H; [constructor|].
  cbn [keys map fst] in H. inversion H as [|x l Hx Hnd]; subst.
  unfold map_del. cbn [filter fst]. destruct (k' =? k); cbn [negb]; [apply IH; exact Hnd|].
  cbn [keys map fst]. constructor; [|apply IH; exact Hnd].
  intro Hin. apply keys_map_del in Hin. tauto.
Qed.

(* the buffer's well-formedness: the ready slot holds the drain sequence, map keys are distinct *)
Record BufOK (s : wstate) : Prop := {
  bo_entries : entries_ok s;
  bo_nodup : NoDup (keys (ws_completed s));
  bo_ready : forall e, ws_ready s = Some e -> ev_seq e = ws_drain s }.

Lemma pop_perm s e s' :
  BufOK s -> popNextAppendCompletion s = (Some e, s') ->
  Permutation (buffered s) (e :: buffered s') /\ BufOK s'.
Proof.
  intros [B1 B2 B3] P. unfold popNextAppendCompletion in P.
  assert (Hmap : pop_map s = (Some e, s') -> Permutation (buffered s) (e :: buffered s') /\ BufOK s').
  { unfold pop_map. destruct (map_get (ws_drain s) (ws_completed s)) as [v|] eqn:G; [|discriminate].
    intro H. inversion H; subst. split.
    - unfold buffered. cbn [ws_ready ws_completed].
      pose proof (map_get_perm _ _ _ B2 G) as Pm.
      apply (Permutation_map snd) in Pm. cbn [map snd] in Pm.
      eapply perm_trans; [apply Permutation_app_head; exact Pm|].
      apply Permutation_sym. apply Permutation_middle.
    - constructor; cbn [ws_ready ws_completed ws_drain].
      + intros k x Hx. apply in_map_del in Hx. destruct Hx as [Hx _]. apply (B1 _ _ Hx).
      + apply nodup_keys_del. exact B2.
      + intros x Hx. exfalso.
        (* a pop from the map happens only when the ready slot cannot be popped *)
        destruct (ws_ready s) as [r|] eqn:R; [|discriminate].
        rewrite (B3 r eq_refl), N.eqb_refl in P. inversion P. }
  destruct (ws_ready s) as [r|] eqn:R; [|exact (Hmap P)].
  destruct (ev_seq r =? ws_drain s) eqn:E; [|exact (Hmap P)].
  inversion P; subst. split.
  - unfold buffered. cbn [ws_ready ws_completed]. rewrite R. apply Permutation_refl.
  - constructor; cbn [ws_ready ws_completed ws_drain]; auto. intros x Hx. discriminate.
Qed.

Lemma finish_bufok s n : BufOK s -> BufOK (finishAppend s n).
Proof. intros [B1 B2 B3]. constructor; auto. Qed.

Lemma drain_perm fuel : forall s out s',
  BufOK s -> drain fuel s = (out, s') -> Permutation (buffered s) (out ++ buffered s') /\ BufOK s'.
Proof.
  induction fuel as [|fuel IH]; intros s out s' HB H; cbn [drain] in H.
  - inversion H; subst. split; [apply Permutation_refl|exact HB].
  - destruct (popNextAppendCompletion s) as [[e|] s1] eqn:P.
    + destruct (drain fuel (finishAppend s1 (N.of_nat (length (ev_items e))))) as [evs s2] eqn:D.
      inversion H; subst. clear H.
      destruct (pop_perm _ _ _ HB P) as [P1 HB1].
      destruct (IH _ _ _ (finish_bufok _ _ HB1) D) as [P2 HB2]. rewrite finish_buffered in P2.
      split; [|exact HB2]. cbn [app]. eapply perm_trans; [exact P1|]. apply perm_skip. exact P2.
    + pose proof (pop_none_state _ _ P) as E1. subst s1. inversion H; subst.
      split; [apply Permutation_refl|exact HB].
Qed.

(* recording a completion whose sequence number is new and not yet drained keeps it *)
Lemma record_perm s ev :
  BufOK s -> ws_drain s <= ev_seq ev -> ~ In (ev_seq ev) (map ev_seq (buffered s)) ->
  Permutation (buffered (recordAppendCompletion s ev)) (ev :: buffered s)
  /\ BufOK (recordAppendCompletion s ev).
Proof.
  intros [B1 B2 B3] Hge Hnew. unfold recordAppendCompletion.
  destruct (ev_seq ev <? ws_drain s) eqn:E1; [apply N.ltb_lt in E1; lia|].
  destruct ((ev_seq ev =? ws_drain s) && negb (match ws_ready s with Some _ => true | None => false end)) eqn:E2.
  - apply andb_true_iff in E2. destruct E2 as [E2 E3]. apply N.eqb_eq in E2.
    destruct (ws_ready s) eqn:R; [discriminate|]. split.
    + unfold buffered. cbn [ws_ready ws_completed]. rewrite R. apply Permutation_refl.
    + constructor; cbn [ws_ready ws_completed ws_drain]; auto. intros x Hx. inversion Hx; subst. exact E2.
  - assert (Hk : ~ In (ev_seq ev) (keys (ws_completed s))).
    { intro Hin. apply Hnew. unfold buffered. rewrite map_app. apply in_or_app. right.
      unfold keys in Hin. apply in_map_iff in Hin. destruct Hin as [[k x] [Ek Hx]]. cbn in Ek. subst k.
      rewrite map_map. apply in_map_iff. exists (ev_seq ev, x). split; [|exact Hx].
      cbn. apply (B1 _ _ Hx). }
    split.
    + unfold buffered. cbn [ws_ready ws_completed]. unfold map_put. rewrite map_del_absent by exact Hk.
      cbn [map snd]. apply Permutation_sym. apply Permutation_middle.
    + constructor; cbn [ws_ready ws_completed ws_drain]; auto.
      * intros k x Hx. unfold map_put in Hx. destruct Hx as [Hx|Hx]; [inversion Hx; reflexivity|].
        apply in_map_del in Hx. destruct Hx as [Hx _]. apply (B1 _ _ Hx).
      * unfold map_put. cbn [keys map fst]. rewrite map_del_absent by exact Hk. constructor; assumption.
Qed.

Lemma apply_perm s ev out s' :
  BufOK s -> ws_drain s <= ev_seq ev -> ~ In (ev_seq ev) (map ev_seq (buffered s)) ->
  applyAppendCompletion s ev = (out, s') ->
  Permutation (ev :: buffered s) (out ++ buffered s') /\ BufOK s'.
Proof.
  intros HB Hge Hnew H. unfold applyAppendCompletion in H.
  destruct (record_perm _ _ HB Hge Hnew) as [P1 HB1].
  destruct (drain_perm _ _ _ _ HB1 H) as [P2 HB2].
  split; [|exact HB2]. eapply perm_trans; [apply Permutation_sym; exact P1|exact P2].
Qed.
