(* Proof/Wire.v — header codec round trips, rejection of malformed headers,
   validation before allocation, frame write/read round trip. *)
From WK Require Import Base.Base Base.Bytes Gen.Consts_C26 Model.Wire.
Open Scope N_scope.

(* ---- slices ------------------------------------------------------------- *)

Lemma slice_skip (a l : bytes) n w :
  (length a <= n)%nat -> slice n w (a ++ l) = slice (n - length a) w l.
Proof.
  intro H. unfold slice. rewrite skipn_app.
  rewrite (skipn_all2 a) by exact H. reflexivity.
Qed.

Lemma slice_here (v l : bytes) w : length v = w -> slice 0 w (v ++ l) = v.
Proof.
  intro H. unfold slice. cbn [skipn]. subst w.
  rewrite firstn_app, Nat.sub_diag, firstn_all. cbn [firstn]. apply app_nil_r.
Qed.

Lemma slice_length n w (l : bytes) : (n + w <= length l)%nat -> length (slice n w l) = w.
Proof. intro H. unfold slice. rewrite firstn_length, skipn_length. lia. Qed.

Lemma all_bytes_firstn n (l : bytes) : all_bytes l = true -> all_bytes (firstn n l) = true.
Proof.
  revert n. induction l as [|x l IH]; intros [|n] H; try reflexivity.
  cbn [all_bytes forallb] in H. apply andb_true_iff in H. destruct H as [Hx Hl].
  cbn [firstn all_bytes forallb]. rewrite Hx. exact (IH n Hl).
Qed.

Lemma all_bytes_skipn n (l : bytes) : all_bytes l = true -> all_bytes (skipn n l) = true.
Proof.
  revert n. induction l as [|x l IH]; intros [|n] H; try reflexivity; try exact H.
  cbn [all_bytes forallb] in H. apply andb_true_iff in H. destruct H as [Hx Hl].
  cbn [skipn]. exact (IH n Hl).
Qed.

Lemma all_bytes_slice n w (l : bytes) : all_bytes l = true -> all_bytes (slice n w l) = true.
Proof. intro H. unfold slice. apply all_bytes_firstn, all_bytes_skipn, H. Qed.

Lemma firstn_slice a b (l : bytes) : firstn (a + b) l = firstn a l ++ slice a b l.
Proof.
  unfold slice. revert l. induction a as [|a IH]; intro l; [reflexivity|].
  destruct l as [|x l]; cbn [Nat.add firstn skipn app].
  - rewrite firstn_nil. reflexivity.
  - rewrite IH. reflexivity.
Qed.

Lemma slice_one n (l : bytes) : (n < length l)%nat -> slice n 1 l = [nth n l 0].
Proof.
  unfold slice. revert n. induction l as [|x l IH]; intros n H; [cbn in H; lia|].
  destruct n as [|n]; [reflexivity|]. cbn [skipn nth]. apply IH. cbn in H. lia.
Qed.

Lemma be_get_one x : be_get [x] = x.
Proof. unfold be_get. cbn [fold_left]. lia. Qed.

(* ---- the encoded header as a concatenation of its fields ----------------- *)

Definition encode_flat (h : header) : bytes :=
  put_u16 Magic ++ put_u8 Version ++ put_u8 0 ++ put_u8 (h_kind h) ++ put_u8 (h_prio h)
  ++ put_u16 (h_service h) ++ put_u64 (h_reqid h) ++ put_u32 (h_bodylen h) ++ put_u32 0.

(* depends on the regenerated offsets: a changed layout re-opens this proof *)
Lemma encode_header_eq h : encode_header h = encode_flat h.
Proof.
  destruct h as [k p s r b].
  unfold encode_header, encode_flat, put_u8, put_u16, put_u32, put_u64, be_put, header_size, off.
  cbn [h_kind h_prio h_service h_reqid h_bodylen le_put rev app].
  lazy [N.to_nat Pos.to_nat Pos.iter_op Nat.add HeaderSize headerMagicOffset headerVersionOffset
        headerFlagsOffset headerKindOffset headerPriorityOffset headerServiceIDOffset
        headerRequestIDOffset headerBodyLenOffset headerReservedOffset repeat set_at app length skipn].
  reflexivity.
Qed.

Lemma encode_header_length h : length (encode_header h) = header_size.
Proof.
  rewrite encode_header_eq. unfold encode_flat, put_u8, put_u16, put_u32, put_u64.
  rewrite !app_length, !be_put_length. reflexivity.
Qed.

Lemma encode_header_all_bytes h : all_bytes (encode_header h) = true.
Proof.
  rewrite encode_header_eq. unfold encode_flat, put_u8, put_u16, put_u32, put_u64.
  rewrite !all_bytes_app, !be_put_all_bytes. reflexivity.
Qed.

(* the field slices of an encoded header (followed by anything) *)
Ltac slice_field :=
  unfold encode_flat, put_u8, put_u16, put_u32, put_u64;
  rewrite <- ?app_assoc;
  repeat (rewrite slice_skip by (rewrite be_put_length; cbv; lia);
          rewrite be_put_length; cbn [Nat.sub]);
  apply slice_here; apply be_put_length.

Section Slices.
  Variable h : header.
  Variable x : bytes.
  Let e := encode_flat h ++ x.

  Lemma sl_magic : slice 0 2 e = be_put 2 Magic. Proof. subst e. slice_field. Qed.
  Lemma sl_version : slice 2 1 e = be_put 1 Version. Proof. subst e. slice_field. Qed.
  Lemma sl_flags : slice 3 1 e = be_put 1 0. Proof. subst e. slice_field. Qed.
  Lemma sl_kind : slice 4 1 e = be_put 1 (h_kind h). Proof. subst e. slice_field. Qed.
  Lemma sl_prio : slice 5 1 e = be_put 1 (h_prio h). Proof. subst e. slice_field. Qed.
  Lemma sl_service : slice 6 2 e = be_put 2 (h_service h). Proof. subst e. slice_field. Qed.
  Lemma sl_reqid : slice 8 8 e = be_put 8 (h_reqid h). Proof. subst e. slice_field. Qed.
  Lemma sl_bodylen : slice 16 4 e = be_put 4 (h_bodylen h). Proof. subst e. slice_field. Qed.
  Lemma sl_reserved : slice 20 4 e = be_put 4 0. Proof. subst e. slice_field. Qed.
End Slices.

Lemma pow1 : 256 ^ N.of_nat 1 = 256. Proof. reflexivity. Qed.
Lemma pow2 : 256 ^ N.of_nat 2 = 65536. Proof. reflexivity. Qed.
Lemma pow4 : 256 ^ N.of_nat 4 = 4294967296. Proof. reflexivity. Qed.
Lemma pow8 : 256 ^ N.of_nat 8 = 18446744073709551616. Proof. reflexivity. Qed.

Lemma in_domain_inv h : header_in_domain h = true ->
  h_kind h < 256 /\ h_prio h < 256 /\ h_service h < 65536
  /\ h_reqid h < 18446744073709551616 /\ h_bodylen h < 4294967296.
Proof.
  unfold header_in_domain. rewrite !andb_true_iff, !N.ltb_lt. tauto.
Qed.

(* ---- decode after encode -------------------------------------------------- *)

(* DecodeHeader(EncodeHeader(h) ‖ anything) performs exactly the outbound validation *)
Lemma decode_encode h x max : header_in_domain h = true ->
  decode_header (encode_header h ++ x) max =
  match validate_outbound_header h max with Some e => WErr e | None => WOk h end.
Proof.
  intro D. apply in_domain_inv in D. destruct D as (Dk & Dp & Ds & Dr & Db).
  unfold decode_header.
  assert (L : Nat.ltb (length (encode_header h ++ x)) header_size = false).
  { apply Nat.ltb_ge. rewrite app_length, encode_header_length. lia. }
  rewrite L. rewrite encode_header_eq.
  change (off headerMagicOffset) with 0%nat. change (off headerVersionOffset) with 2%nat.
  change (off headerFlagsOffset) with 3%nat. change (off headerReservedOffset) with 20%nat.
  change (off headerKindOffset) with 4%nat. change (off headerPriorityOffset) with 5%nat.
  change (off headerServiceIDOffset) with 6%nat. change (off headerRequestIDOffset) with 8%nat.
  change (off headerBodyLenOffset) with 16%nat.
  rewrite sl_magic, sl_version, sl_flags, sl_reserved, sl_kind, sl_prio, sl_service, sl_reqid, sl_bodylen.
  rewrite !be_get_put; try (rewrite ?pow1, ?pow2, ?pow4, ?pow8; first [assumption | reflexivity]).
  rewrite !N.eqb_refl. cbn [negb h_kind h_prio h_bodylen].
  unfold validate_outbound_header.
  destruct (kind_valid (h_kind h)); cbn [negb]; [|reflexivity].
  destruct (prio_valid (h_prio h)); cbn [negb]; [|reflexivity].
  destruct (body_exceeds_max (h_bodylen h) max); [reflexivity|].
  destruct h; reflexivity.
Qed.

Lemma header_ok_validate h max : header_ok h max = true ->
  header_in_domain h = true /\ validate_outbound_header h max = None.
Proof.
  unfold header_ok, validate_outbound_header. rewrite !andb_true_iff.
  intros [[[D K] P] B]. rewrite K, P. cbn [negb].
  apply negb_true_iff in B. rewrite B. split; [exact D|reflexivity].
Qed.

Lemma validate_not_ok h max : header_in_domain h = true -> header_ok h max = false ->
  exists e, validate_outbound_header h max = Some e /\ validation_error e = true.
Proof.
  unfold header_ok, validate_outbound_header. intros D H. rewrite D in H. cbn [andb] in H.
  destruct (kind_valid (h_kind h)); cbn [negb andb] in *; [|eexists; split; reflexivity].
  destruct (prio_valid (h_prio h)); cbn [negb andb] in *; [|eexists; split; reflexivity].
  destruct (body_exceeds_max (h_bodylen h) max); cbn [negb] in *; [eexists; split; reflexivity|discriminate].
Qed.

(* C26 (a) round trip *)
Lemma header_roundtrip h x max : header_ok h max = true ->
  decode_header (encode_header h ++ x) max = WOk h.
Proof.
  intro H. apply header_ok_validate in H. destruct H as [D V].
  rewrite decode_encode by exact D. rewrite V. reflexivity.
Qed.

(* an in-domain header that is not acceptable is rejected by the decoder too *)
Lemma header_not_ok_rejected h x max : header_in_domain h = true -> header_ok h max = false ->
  exists e, decode_header (encode_header h ++ x) max = WErr e /\ validation_error e = true.
Proof.
  intros D H. destruct (validate_not_ok h max D H) as (e & V & E).
  exists e. rewrite decode_encode by exact D. rewrite V. split; [reflexivity|exact E].
Qed.

(* ---- decode accepts exactly the well-formed headers ----------------------- *)

Lemma offsets_below : forall enc : bytes, Nat.ltb (length enc) header_size = false ->
  (N.to_nat headerVersionOffset < length enc)%nat /\ (N.to_nat headerFlagsOffset < length enc)%nat
  /\ (N.to_nat headerKindOffset < length enc)%nat /\ (N.to_nat headerPriorityOffset < length enc)%nat.
Proof.
  intros enc L. apply Nat.ltb_ge in L. change header_size with 24%nat in L.
  change (N.to_nat headerVersionOffset) with 2%nat. change (N.to_nat headerFlagsOffset) with 3%nat.
  change (N.to_nat headerKindOffset) with 4%nat. change (N.to_nat headerPriorityOffset) with 5%nat.
  lia.
Qed.

(* decode = "not malformed", and the returned fields are the bytes at the fixed positions *)
Lemma decode_spec enc max :
  decode_header enc max =
  if hdr_malformed enc max
  then WErr (match decode_header enc max with WErr e => e | WOk _ => EOther end)
  else WOk (Header (byte_at headerKindOffset enc) (byte_at headerPriorityOffset enc)
                   (be_at headerServiceIDOffset 2 enc) (be_at headerRequestIDOffset 8 enc)
                   (be_at headerBodyLenOffset 4 enc)).
Proof.
  unfold decode_header, hdr_malformed.
  destruct (Nat.ltb (length enc) header_size) eqn:L; [reflexivity|].
  destruct (offsets_below enc L) as (Ov & Of & Ok & Op).
  unfold off, be_at, byte_at.
  rewrite (slice_one _ enc Ov), (slice_one _ enc Of), (slice_one _ enc Ok), (slice_one _ enc Op).
  rewrite !be_get_one. cbn [orb h_kind h_prio h_bodylen].
  destruct (be_get (slice (N.to_nat headerMagicOffset) 2 enc) =? Magic); cbn [negb orb]; [|reflexivity].
  destruct (nth (N.to_nat headerVersionOffset) enc 0 =? Version); cbn [negb orb]; [|reflexivity].
  destruct (nth (N.to_nat headerFlagsOffset) enc 0 =? 0); cbn [negb orb]; [|reflexivity].
  destruct (be_get (slice (N.to_nat headerReservedOffset) 4 enc) =? 0); cbn [negb orb]; [|reflexivity].
  destruct (kind_valid (nth (N.to_nat headerKindOffset) enc 0)); cbn [negb orb]; [|reflexivity].
  destruct (prio_valid (nth (N.to_nat headerPriorityOffset) enc 0)); cbn [negb orb]; [|reflexivity].
  destruct (body_exceeds_max (be_get (slice (N.to_nat headerBodyLenOffset) 4 enc)) max); reflexivity.
Qed.

Lemma decode_err_validation enc max e : decode_header enc max = WErr e -> validation_error e = true.
Proof.
  unfold decode_header.
  repeat match goal with
         | |- (if ?c then _ else _) = _ -> _ => destruct c
         | |- (let _ := _ in _) = _ -> _ => cbv zeta
         end; intro E; inversion E; reflexivity.
Qed.

(* C26 (a) reject: malformed (bad magic / version / flags / reserved / kind /
   priority / oversize body / short) headers are rejected with a validation error *)
Lemma malformed_rejected enc max : hdr_malformed enc max = true ->
  exists e, decode_header enc max = WErr e /\ validation_error e = true.
Proof.
  intro M. pose proof (decode_spec enc max) as S. rewrite M in S.
  destruct (decode_header enc max) as [h|e] eqn:D; [discriminate|].
  exists e. split; [reflexivity|]. exact (decode_err_validation enc max e D).
Qed.

Lemma wellformed_accepted enc max : hdr_malformed enc max = false ->
  exists h, decode_header enc max = WOk h.
Proof. intro M. rewrite decode_spec, M. eexists. reflexivity. Qed.

Lemma decode_ok_wellformed enc max h : decode_header enc max = WOk h -> hdr_malformed enc max = false.
Proof.
  intro D. destruct (hdr_malformed enc max) eqn:M; [|reflexivity].
  destruct (malformed_rejected enc max M) as (e & E & _). congruence.
Qed.

(* accepted headers are exactly the encodings: decode is injective on accepted input *)
Lemma be_put_of_slice n w (enc : bytes) : all_bytes enc = true -> (n + w <= length enc)%nat ->
  be_put w (be_get (slice n w enc)) = slice n w enc.
Proof.
  intros A L. pose proof (slice_length n w enc L) as SL.
  rewrite <- SL at 1. apply be_put_get. apply all_bytes_slice, A.
Qed.

Lemma decode_ok_is_encoding enc max h : all_bytes enc = true ->
  decode_header enc max = WOk h -> firstn header_size enc = encode_header h.
Proof.
  intros A D. pose proof D as D0. unfold decode_header in D.
  destruct (Nat.ltb (length enc) header_size) eqn:L; [discriminate|].
  apply Nat.ltb_ge in L. change header_size with 24%nat in L.
  change (off headerMagicOffset) with 0%nat in D. change (off headerVersionOffset) with 2%nat in D.
  change (off headerFlagsOffset) with 3%nat in D. change (off headerReservedOffset) with 20%nat in D.
  change (off headerKindOffset) with 4%nat in D. change (off headerPriorityOffset) with 5%nat in D.
  change (off headerServiceIDOffset) with 6%nat in D. change (off headerRequestIDOffset) with 8%nat in D.
  change (off headerBodyLenOffset) with 16%nat in D.
  destruct (be_get (slice 0 2 enc) =? Magic) eqn:E1; cbn [negb] in D; [|discriminate].
  destruct (be_get (slice 2 1 enc) =? Version) eqn:E2; cbn [negb] in D; [|discriminate].
  destruct (be_get (slice 3 1 enc) =? 0) eqn:E3; cbn [negb] in D; [|discriminate].
  destruct (be_get (slice 20 4 enc) =? 0) eqn:E4; cbn [negb] in D; [|discriminate].
  cbv zeta in D. cbn [h_kind h_prio h_bodylen] in D.
  destruct (kind_valid (be_get (slice 4 1 enc))); cbn [negb] in D; [|discriminate].
  destruct (prio_valid (be_get (slice 5 1 enc))); cbn [negb] in D; [|discriminate].
  destruct (body_exceeds_max (be_get (slice 16 4 enc)) max); [discriminate|].
  inversion D; subst h; clear D.
  apply N.eqb_eq in E1, E2, E3, E4.
  rewrite encode_header_eq. unfold encode_flat, put_u8, put_u16, put_u32, put_u64.
  cbn [h_kind h_prio h_service h_reqid h_bodylen].
  rewrite <- E1, <- E2, <- E3 at 1. rewrite <- E4 at 1.
  rewrite !be_put_of_slice by (try exact A; lia).
  change header_size with (0 + 2 + 1 + 1 + 1 + 1 + 2 + 8 + 4 + 4)%nat.
  rewrite !firstn_slice. cbn [Nat.add firstn app]. rewrite <- !app_assoc. reflexivity.
Qed.

(* ---- ReadFrame ------------------------------------------------------------ *)

(* validate-before-allocate: the allocator is only ever reached with the BodyLen
   of a header that passed every check, in particular BodyLen <= max *)
Lemma read_alloc_validated stream max n : ro_alloc (read_frame stream max) = Some n ->
  exists h, decode_header (firstn header_size stream) max = WOk h /\ n = h_bodylen h
            /\ body_exceeds_max n max = false /\ (0 <= max)%Z /\ (Z.of_N n <= max)%Z.
Proof.
  unfold read_frame. destruct stream as [|b0 s]; [discriminate|].
  set (st := b0 :: s).
  destruct (Nat.ltb (length st) header_size); [discriminate|].
  destruct (decode_header (firstn header_size st) max) as [h|e] eqn:D; [|discriminate].
  assert (B : body_exceeds_max (h_bodylen h) max = false).
  { pose proof (decode_ok_wellformed _ _ _ D) as M. rewrite decode_spec, M in D.
    unfold hdr_malformed in M. rewrite !orb_false_iff in M. destruct M as [_ M].
    inversion D. cbn [h_bodylen]. exact M. }
  unfold body_len_to_int. destruct (IntMax <? h_bodylen h); [discriminate|].
  assert (Z : (0 <= max)%Z /\ (Z.of_N (h_bodylen h) <= max)%Z).
  { unfold body_exceeds_max in B. destruct (max <? 0)%Z eqn:N0; [discriminate|].
    apply Z.ltb_ge in N0, B. split; assumption. }
  destruct (h_bodylen h =? 0) eqn:Z0.
  - cbn [ro_alloc]. intro E; inversion E; subst n. apply N.eqb_eq in Z0.
    exists h. rewrite Z0 in *. repeat split; try reflexivity; tauto.
  - destruct (Nat.ltb (length (skipn header_size st)) (N.to_nat (h_bodylen h)));
      cbn [ro_alloc]; intro E; inversion E; subst n; exists h; repeat split; try reflexivity; tauto.
Qed.

(* a rejected header stops the reader at the header: nothing allocated, nothing read past it *)
Lemma read_rejected stream max e : (header_size <= length stream)%nat ->
  decode_header (firstn header_size stream) max = WErr e ->
  read_frame stream max = ReadOut (WErr e) HeaderSize None.
Proof.
  intros L D. unfold read_frame. destruct stream as [|b0 s]; [cbn in L; change header_size with 24%nat in L; lia|].
  apply Nat.ltb_ge in L. rewrite L, D. reflexivity.
Qed.

Lemma read_validation_error stream max e : ro_res (read_frame stream max) = WErr e ->
  validation_error e = true ->
  ro_alloc (read_frame stream max) = None /\ ro_consumed (read_frame stream max) = HeaderSize.
Proof.
  unfold read_frame. destruct stream as [|b0 s]; [cbn; intros E; inversion E; subst; discriminate|].
  cbv iota beta. remember (b0 :: s) as st eqn:Hst. clear Hst.
  destruct (Nat.ltb (length st) header_size); [cbn [ro_res]; intros E; inversion E; subst; discriminate|].
  destruct (decode_header (firstn header_size st) max) as [h|e'] eqn:D.
  - unfold body_len_to_int. destruct (IntMax <? h_bodylen h); [cbn [ro_alloc ro_consumed]; intros; split; reflexivity|].
    destruct (h_bodylen h =? 0); [cbn [ro_res]; discriminate|].
    destruct (Nat.ltb (length (skipn header_size st)) (N.to_nat (h_bodylen h))); [|cbn [ro_res]; discriminate].
    cbn [ro_res]. intros E V. destruct (skipn header_size st); inversion E; subst e; discriminate V.
  - cbn [ro_alloc ro_consumed]. intros; split; reflexivity.
Qed.

(* ---- WriteFrames / ReadFrame round trip ----------------------------------- *)

Lemma append_frame_ok f max b : append_frame f max = WOk b ->
  let h := with_bodylen (f_hdr f) (N.of_nat (length (f_body f))) in
  b = encode_header h ++ f_body f /\ validate_outbound_header h max = None
  /\ N.of_nat (length (f_body f)) <= u32max.
Proof.
  unfold append_frame.
  destruct (max <? Z.of_nat (length (f_body f)))%Z; [discriminate|].
  destruct (u32max <? N.of_nat (length (f_body f))) eqn:U; [discriminate|].
  destruct (validate_outbound_header _ max) eqn:V; [discriminate|].
  intro E; inversion E. cbv zeta. repeat split. apply N.ltb_ge in U. exact U.
Qed.

Definition frame_in_domain (f : frame) : bool :=
  (h_kind (f_hdr f) <? 256) && (h_prio (f_hdr f) <? 256) && (h_service (f_hdr f) <? 65536)
  && (h_reqid (f_hdr f) <? 18446744073709551616).

Lemma frame_hdr_domain f : frame_in_domain f = true -> N.of_nat (length (f_body f)) <= u32max ->
  header_in_domain (with_bodylen (f_hdr f) (N.of_nat (length (f_body f)))) = true.
Proof.
  unfold frame_in_domain, header_in_domain, with_bodylen. cbn [h_kind h_prio h_service h_reqid h_bodylen].
  intros D U. rewrite D. cbn [andb]. apply N.ltb_lt. unfold u32max in U. lia.
Qed.

Lemma validate_none_not_exceeds h max : validate_outbound_header h max = None ->
  body_exceeds_max (h_bodylen h) max = false.
Proof.
  unfold validate_outbound_header.
  destruct (kind_valid (h_kind h)); cbn [negb]; [|discriminate].
  destruct (prio_valid (h_prio h)); cbn [negb]; [|discriminate].
  destruct (body_exceeds_max (h_bodylen h) max); [discriminate|reflexivity].
Qed.

Lemma u32_le_intmax n : n <= u32max -> (IntMax <? n) = false.
Proof. intro H. apply N.ltb_ge. unfold u32max in H. unfold IntMax. lia. Qed.

(* one written frame, followed by anything, reads back as itself and leaves the rest *)
Lemma read_written_frame f max b rest : frame_in_domain f = true ->
  append_frame f max = WOk b ->
  let h := with_bodylen (f_hdr f) (N.of_nat (length (f_body f))) in
  read_frame (b ++ rest) max =
    ReadOut (WOk (h, f_body f)) (N.of_nat (length b)) (Some (N.of_nat (length (f_body f))))
  /\ skipn (length b) (b ++ rest) = rest.
Proof.
  intros D A. cbv zeta. destruct (append_frame_ok f max b A) as (Eb & V & U).
  set (h := with_bodylen (f_hdr f) (N.of_nat (length (f_body f)))) in *.
  pose proof (frame_hdr_domain f D U) as HD. fold h in HD.
  split; [|rewrite skipn_app, skipn_all, Nat.sub_diag; reflexivity].
  unfold read_frame.
  assert (Lb : length b = (header_size + length (f_body f))%nat).
  { rewrite Eb, app_length, encode_header_length. reflexivity. }
  destruct (b ++ rest) as [|x0 xs] eqn:BR.
  { apply (f_equal (@length N)) in BR. rewrite app_length, Lb in BR.
    change header_size with 24%nat in BR. cbn in BR. lia. }
  rewrite <- BR. clear BR x0 xs.
  assert (L : Nat.ltb (length (b ++ rest)) header_size = false).
  { apply Nat.ltb_ge. rewrite app_length, Lb. lia. }
  rewrite L.
  assert (F : firstn header_size (b ++ rest) = encode_header h).
  { rewrite Eb, <- app_assoc. rewrite firstn_app, encode_header_length, Nat.sub_diag.
    rewrite <- (encode_header_length h), firstn_all. cbn [firstn]. apply app_nil_r. }
  rewrite F. rewrite <- (app_nil_r (encode_header h)).
  rewrite decode_encode by exact HD. rewrite V.
  unfold body_len_to_int. subst h. cbn [h_bodylen with_bodylen].
  rewrite (u32_le_intmax _ U).
  assert (S : skipn header_size (b ++ rest) = f_body f ++ rest).
  { rewrite Eb, <- app_assoc. rewrite skipn_app, encode_header_length, Nat.sub_diag.
    rewrite <- (encode_header_length (with_bodylen (f_hdr f) (N.of_nat (length (f_body f))))), skipn_all. reflexivity. }
  rewrite S, Nnat.Nat2N.id.
  destruct (N.of_nat (length (f_body f)) =? 0) eqn:Z0.
  - apply N.eqb_eq in Z0. assert (length (f_body f) = 0%nat) as L0 by lia.
    destruct (f_body f); [|discriminate]. rewrite Lb. cbn [length]. rewrite Nat.add_0_r. reflexivity.
  - assert (L2 : Nat.ltb (length (f_body f ++ rest)) (length (f_body f)) = false).
    { apply Nat.ltb_ge. rewrite app_length. lia. }
    rewrite L2. rewrite firstn_app, Nat.sub_diag, firstn_all. cbn [firstn]. rewrite app_nil_r.
    rewrite Lb. rewrite Nnat.Nat2N.inj_add. reflexivity.
Qed.

(* C26 (a): every written batch of frames reads back as exactly those frames, in order *)
Lemma write_read_roundtrip fs : forall max b rest, forallb frame_in_domain fs = true ->
  write_frames fs max = WOk b ->
  read_frames (length fs) (b ++ rest) max = written_frames fs.
Proof.
  induction fs as [|f fs IH]; intros max b rest D W; [reflexivity|].
  cbn [forallb] in D. apply andb_true_iff in D. destruct D as [Df Dfs].
  cbn [write_frames] in W.
  destruct (append_frame f max) as [bf|] eqn:A; [|discriminate].
  destruct (write_frames fs max) as [br|] eqn:Wr; [|discriminate].
  inversion W; subst b. clear W.
  cbn [length read_frames written_frames map]. rewrite <- app_assoc.
  destruct (read_written_frame f max bf (br ++ rest) Df A) as [R S].
  rewrite R. cbn [ro_res ro_consumed]. rewrite Nnat.Nat2N.id, S.
  f_equal. apply IH; assumption.
Qed.
