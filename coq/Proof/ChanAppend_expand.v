(* Proof/ChanAppend_expand.v — alignment of the completion vectors (append.go):
   appendResultCompletions gives one completion per item, in item order,
   whatever the length of the appender's result vector; expandCompletions gives
   one completion per ORIGINAL item, in its own position, carrying its owner's
   result, and only the first emission of an owner stays committed;
   activeAppendItems splits a batch into its live items (in order) and one error
   completion per inactive item. *)
From WK Require Import Base.Base Gen.Consts_C29 Model.ChanAppend Proof.ChanAppend_coalesce.
From Coq Require Import Sorted.
Local Open Scope nat_scope.

(* ---- appendResultCompletions ------------------------------------------------------------ *)

Definition arc_one (it : psend) (r : option ares) : comp :=
  match r with
  | None => errcomp it E_RESULT_MISSING
  | Some a =>
      if (a_err a =? 0)%N
      then Comp it (SRes (a_id a) (a_seq a) c29_reason_success 0) (a_id a, a_seq a) true 0
      else Comp it (SRes 0 0 (reasonForAppendError (a_err a)) 0) (a_id a, a_seq a) false (a_err a)
  end.

Lemma arc_items : forall items res, map cp_item (appendResultCompletions items res) = items.
Proof.
  induction items as [|it r IH]; intro res; cbn [appendResultCompletions map]; [reflexivity|].
  destruct res as [|a res']; cbn [map].
  - rewrite IH. reflexivity.
  - rewrite IH. destruct (a_err a =? 0)%N; reflexivity.
Qed.

Lemma arc_length items res : length (appendResultCompletions items res) = length items.
Proof. rewrite <- (arc_items items res) at 2. rewrite map_length. reflexivity. Qed.

Lemma arc_nth_error : forall items res i it,
  nth_error items i = Some it ->
  nth_error (appendResultCompletions items res) i = Some (arc_one it (nth_error res i)).
Proof.
  induction items as [|x r IH]; intros res i it H; [destruct i; discriminate|].
  destruct i as [|i]; cbn [nth_error] in H.
  - inversion H; subst. destruct res as [|a res']; reflexivity.
  - destruct res as [|a res']; cbn [appendResultCompletions nth_error].
    + rewrite (IH [] i it H). destruct i; reflexivity.
    + apply IH. exact H.
Qed.

Lemma arc_aligned : forall items res,
  map cp_item (appendResultCompletions items res) = items
  /\ forall i it, nth_error items i = Some it ->
       nth_error (appendResultCompletions items res) i = Some (arc_one it (nth_error res i)).
Proof. intros items res. split; [apply arc_items|apply arc_nth_error]. Qed.

(* a committed completion of appendResultCompletions is a success reported by the appender *)
Lemma arc_committed items res c :
  In c (appendResultCompletions items res) -> cp_committed c = true ->
  exists i a, nth_error items i = Some (cp_item c) /\ nth_error res i = Some a /\ a_err a = 0%N
              /\ cp_res c = SRes (a_id a) (a_seq a) c29_reason_success 0.
Proof.
  intros Hin Hc. apply In_nth_error in Hin. destruct Hin as [i Hi].
  assert (Hlt : i < length items).
  { rewrite <- (arc_length items res). apply nth_error_Some. congruence. }
  destruct (nth_error items i) as [it|] eqn:E; [|apply nth_error_None in E; lia].
  rewrite (arc_nth_error _ res _ _ E) in Hi. inversion Hi; subst c. clear Hi.
  unfold arc_one in *. destruct (nth_error res i) as [a|] eqn:Er; [|discriminate].
  destruct (a_err a =? 0)%N eqn:Ea; [|discriminate].
  apply N.eqb_eq in Ea. exists i, a. cbn [cp_item cp_res]. repeat split; auto.
Qed.

(* ---- expandCompletions ----------------------------------------------------------------------- *)

Lemma set_nth_length {A} n (x : A) l : length (set_nth n x l) = length l.
Proof.
  revert n. induction l as [|y l IH]; intro n; destruct n; cbn [set_nth length]; auto.
Qed.

Lemma nth_set_nth {A} n m (x d : A) l :
  n < length l -> nth m (set_nth n x l) d = if Nat.eqb m n then x else nth m l d.
Proof.
  revert n m. induction l as [|y l IH]; intros n m H; [cbn in H; lia|].
  destruct n as [|n]; destruct m as [|m]; cbn [set_nth nth Nat.eqb]; try reflexivity.
  apply IH. cbn in H. lia.
Qed.

Lemma expand_loop_length unique : forall ows orig em,
  length ows = length orig -> length (expand_loop unique ows orig em) = length orig.
Proof.
  induction ows as [|o ows IH]; intros orig em H; destruct orig as [|it orig]; cbn in *; try lia.
  f_equal. apply IH. lia.
Qed.

Lemma expand_loop_nth unique : forall ows orig em i,
  length ows = length orig -> i < length ows ->
  Forall (fun o => o < length em) ows ->
  nth i (expand_loop unique ows orig em) dflt_comp =
  let o := nth i ows 0 in
  let u := nth o unique dflt_comp in
  Comp (nth i orig dflt_psend) (cp_res u) (cp_app u)
       (if nth o em false || existsb (Nat.eqb o) (firstn i ows) then false else cp_committed u)
       (cp_trace u).
Proof.
  induction ows as [|o0 ows IH]; intros orig em i Hlen Hi Hb; [cbn in Hi; lia|].
  destruct orig as [|it orig]; [cbn in Hlen; lia|].
  inversion Hb as [|x l Hb1 Hb2]; subst.
  destruct i as [|i]; cbn [expand_loop nth firstn existsb].
  - rewrite orb_false_r. reflexivity.
  - rewrite IH; [|cbn in Hlen; lia|cbn in Hi; lia|].
    2:{ eapply Forall_impl; [|exact Hb2]. intros a Ha. rewrite set_nth_length. exact Ha. }
    cbv zeta. f_equal.
    rewrite nth_set_nth by exact Hb1.
    destruct (Nat.eqb (nth i ows 0) o0) eqn:E.
    + cbn [orb]. rewrite orb_true_r. reflexivity.
    + cbn [orb]. reflexivity.
Qed.

Lemma nth_repeat_false n o : nth o (repeat false n) false = false.
Proof. revert o. induction n as [|n IH]; intro o; destruct o; cbn; auto. Qed.

Lemma nth_error_firstn_lt {A} (l : list A) : forall i i', i' < i -> nth_error (firstn i l) i' = nth_error l i'.
Proof.
  induction l as [|x l IH]; intros i i' H.
  - rewrite firstn_nil. reflexivity.
  - destruct i as [|i]; [lia|]. destruct i' as [|i']; cbn [firstn nth_error]; [reflexivity|].
    apply IH. lia.
Qed.

Lemma existsb_firstn_iff (ow : list nat) i o :
  existsb (Nat.eqb o) (firstn i ow) = true <-> exists i', i' < i /\ i' < length ow /\ nth i' ow 0 = o.
Proof.
  rewrite existsb_exists. split.
  - intros [x [Hin E]]. apply Nat.eqb_eq in E. subst x.
    apply In_nth_error in Hin. destruct Hin as [i' Hi'].
    assert (L : i' < length (firstn i ow)) by (apply nth_error_Some; congruence).
    rewrite firstn_length in L.
    exists i'. split; [lia|]. split; [lia|].
    rewrite nth_error_firstn_lt in Hi' by lia.
    apply nth_error_nth with (d := 0) in Hi'. exact Hi'.
  - intros [i' [H1 [H2 H3]]]. exists o. split; [|apply Nat.eqb_refl].
    rewrite <- H3. rewrite <- (firstn_skipn i ow) at 1.
    rewrite app_nth1 by (rewrite firstn_length; lia).
    apply nth_In. rewrite firstn_length. lia.
Qed.

(* the completion expandCompletions builds for item i *)
Definition expanded_at (items : list psend) (b : ibatch) (pos : list nat) (unique : list comp) (i : nat) : comp :=
  let u := nth (owner_of b i) unique dflt_comp in
  Comp (nth i items dflt_psend) (cp_res u) (cp_app u)
       (cp_committed u && Nat.eqb (nth (owner_of b i) pos 0) i) (cp_trace u).

Theorem expand_aligned : forall items b pos unique,
  coalesced items b pos -> map cp_item unique = ib_items b ->
  length (expandCompletions b unique) = length items
  /\ forall i, i < length items ->
       nth i (expandCompletions b unique) dflt_comp = expanded_at items b pos unique i.
Proof.
  intros items b pos unique C Hu.
  assert (Hlen : length unique = length pos).
  { rewrite <- (map_length cp_item unique), Hu, (cz_items _ _ _ C), map_length. reflexivity. }
  unfold expandCompletions, expanded_at, owner_of.
  destruct (ib_owners b) as [ow|] eqn:O.
  - destruct (cz_owners _ _ _ C ow O) as [L Eo]. rewrite Eo.
    split; [apply expand_loop_length; exact L|].
    intros i Hi.
    assert (Hb : Forall (fun o => o < length (repeat false (length unique))) ow).
    { apply Forall_forall. intros o Ho. rewrite repeat_length, Hlen.
      apply In_nth with (d := 0) in Ho. destruct Ho as [j [Hj Ej]]. subst o.
      destruct (cz_owner _ _ _ C j ltac:(lia)) as [p [P1 _]]. unfold owner_of in P1. rewrite O in P1.
      apply nth_error_Some. congruence. }
    rewrite expand_loop_nth by (try exact L; try lia; exact Hb).
    cbv zeta. f_equal. rewrite nth_repeat_false. cbn [orb].
    destruct (cz_owner _ _ _ C i Hi) as [p [P1 [P2 P3]]]. unfold owner_of in P1. rewrite O in P1.
    rewrite (nth_error_nth _ _ 0 P1).
    destruct (existsb (Nat.eqb (nth i ow 0)) (firstn i ow)) eqn:E.
    + apply existsb_firstn_iff in E. destruct E as [i' [E1 [E2 E3]]].
      (* an earlier item uses the same slot, so the slot's own position is before i *)
      destruct (cz_owner _ _ _ C i' ltac:(lia)) as [p' [Q1 [Q2 _]]]. unfold owner_of in Q1. rewrite O in Q1.
      rewrite E3, P1 in Q1. inversion Q1; subst p'.
      replace (Nat.eqb p i) with false; [rewrite andb_false_r; reflexivity|].
      symmetry. apply Nat.eqb_neq. lia.
    + destruct (Nat.eq_dec p i) as [Ep|Ep].
      * subst p. rewrite Nat.eqb_refl, andb_true_r. reflexivity.
      * exfalso. assert (Hp : p < i) by lia.
        assert (Et : existsb (Nat.eqb (nth i ow 0)) (firstn i ow) = true).
        { apply existsb_firstn_iff. exists p. split; [exact Hp|]. split; [lia|].
          pose proof (cz_slot _ _ _ C _ _ P1) as S. unfold owner_of in S. rewrite O in S. exact S. }
        congruence.
  - pose proof (cz_none _ _ _ C O) as Ep. subst pos.
    rewrite seq_length in Hlen. split; [exact Hlen|].
    intros i Hi. rewrite seq_nth by exact Hi. cbn [plus]. rewrite Nat.eqb_refl, andb_true_r.
    assert (Ei : cp_item (nth i unique dflt_comp) = nth i items dflt_psend).
    { change dflt_psend with (cp_item dflt_comp) at 1.
      rewrite <- (map_nth cp_item), Hu, (cz_items _ _ _ C).
      rewrite map_nth_seq by lia. rewrite firstn_all. reflexivity. }
    rewrite <- Ei. destruct (nth i unique dflt_comp); reflexivity.
Qed.

(* every original item gets exactly one completion, in its own position *)
Corollary expand_items : forall items b pos unique,
  coalesced items b pos -> map cp_item unique = ib_items b ->
  map cp_item (expandCompletions b unique) = items.
Proof.
  intros items b pos unique C Hu. destruct (expand_aligned _ _ _ _ C Hu) as [L N].
  apply nth_ext with (d := dflt_psend) (d' := dflt_psend); [rewrite map_length; exact L|].
  intros i Hi. rewrite map_length in Hi.
  change dflt_psend with (cp_item dflt_comp) at 1. rewrite map_nth, N by lia. reflexivity.
Qed.

(* at most one completion per owner is committed: the owner's own *)
Corollary expand_committed_owner : forall items b pos unique i,
  coalesced items b pos -> map cp_item unique = ib_items b -> i < length items ->
  cp_committed (nth i (expandCompletions b unique) dflt_comp) = true ->
  nth_error pos (owner_of b i) = Some i /\ cp_committed (nth (owner_of b i) unique dflt_comp) = true.
Proof.
  intros items b pos unique i C Hu Hi Hc. destruct (expand_aligned _ _ _ _ C Hu) as [_ N].
  rewrite N in Hc by exact Hi. unfold expanded_at in Hc. cbn [cp_committed] in Hc.
  apply andb_true_iff in Hc. destruct Hc as [H1 H2]. apply Nat.eqb_eq in H2.
  destruct (cz_owner _ _ _ C i Hi) as [p [P1 _]].
  rewrite (nth_error_nth _ _ 0 P1) in H2. subst p. auto.
Qed.

(* ---- activeAppendItems ------------------------------------------------------------------------- *)

Lemma active_loop_spec all : forall rest i active filtered,
  i + length rest = length all -> rest = skipn i all ->
  (filtered = true -> active = filter alive (firstn i all)) ->
  (filtered = false -> filter alive (firstn i all) = firstn i all) ->
  let '(a, f) := active_loop all i rest active filtered in
  (f = true -> a = filter alive all) /\ (f = false -> filter alive all = all).
Proof.
  induction rest as [|it rest IH]; intros i active filtered Hlen Hrest H1 H2; cbn [active_loop].
  - cbn in Hlen. assert (E : firstn i all = all) by (apply firstn_all2; lia). rewrite E in *. auto.
  - cbn [length] in Hlen.
    assert (Hi : i < length all) by lia.
    assert (Hit : it = nth i all dflt_psend /\ rest = skipn (S i) all).
    { clear -Hrest Hi. revert i Hrest Hi. induction all as [|x l IHl]; intros i Hrest Hi; [cbn in Hi; lia|].
      destruct i as [|i]; cbn [skipn nth] in *.
      - inversion Hrest. split; reflexivity.
      - apply IHl; [exact Hrest|cbn in Hi; lia]. }
    destruct Hit as [E1 E2].
    assert (Ef : firstn (S i) all = firstn i all ++ [it]).
    { subst it. clear -Hi. revert i Hi. induction all as [|x l IHl]; intros i Hi; [cbn in Hi; lia|].
      destruct i as [|i]; cbn [firstn nth app]; [reflexivity|]. f_equal. apply IHl. cbn in Hi. lia. }
    destruct (alive it) eqn:A.
    + apply IH; [lia|exact E2| |].
      * intro F. rewrite F in *. rewrite Ef, filter_app. cbn [filter]. rewrite A. rewrite (H1 eq_refl). reflexivity.
      * intro F. rewrite Ef, filter_app. cbn [filter]. rewrite A. rewrite (H2 F). reflexivity.
    + apply IH; [lia|exact E2| |].
      * intros _. rewrite Ef, filter_app. cbn [filter]. rewrite A, app_nil_r.
        destruct filtered; [apply H1; reflexivity|symmetry; apply H2; reflexivity].
      * discriminate.
Qed.

(* activeAppendItems computes its specification: the live items in order, and
   one error completion per inactive item *)
Theorem activeAppendItems_correct : forall items, activeAppendItems items = activeAppendItems_spec items.
Proof.
  intro items. unfold activeAppendItems, activeAppendItems_spec.
  pose proof (active_loop_spec items items 0 [] false eq_refl eq_refl) as H.
  destruct (active_loop items 0 items [] false) as [a f].
  destruct H as [H1 H2]; [discriminate|reflexivity|].
  destruct f; [rewrite (H1 eq_refl)|rewrite (H2 eq_refl)]; reflexivity.
Qed.
