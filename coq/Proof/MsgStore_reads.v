(* Proof/MsgStore_reads.v — every read / lookup of the model, evaluated on a store
   related to the plain logs by [Rkv], passes the specification's check
   [spec_check_read]. *)
From WK Require Import Base.Base Model.KV Gen.Consts_C07 Model.MsgStore Model.MsgStore_C07
     Proof.KV Proof.MsgStore_base Proof.MsgStore_rel.
From Coq Require Import Sorting.Permutation Sorting.Sorted.

(* ---- reflexivity of the observation equalities ---------------------------------------------- *)

Lemma msg_eqb_refl m : msg_eqb m m = true.
Proof. unfold msg_eqb. rewrite !N.eqb_refl, !bytes_eqb_refl, Z.eqb_refl. reflexivity. Qed.

Lemma list_eqb_refl {A} (eqb : A -> A -> bool) (H : forall x, eqb x x = true) l : list_eqb eqb l l = true.
Proof. induction l as [|x l IH]; cbn [list_eqb]; [reflexivity|]. rewrite H, IH. reflexivity. Qed.

Lemma msgs_eqb_refl l : msgs_eqb l l = true.
Proof. apply list_eqb_refl. apply msg_eqb_refl. Qed.

Lemma triple_eqb_refl t : triple_eqb t t = true.
Proof. destruct t as [[a b] c]. cbn. rewrite !N.eqb_refl. reflexivity. Qed.

Lemma npair_eqb_refl p : npair_eqb p p = true.
Proof. unfold npair_eqb. rewrite !N.eqb_refl. reflexivity. Qed.

Lemma option_eqb_refl {A} (eqb : A -> A -> bool) (H : forall x, eqb x x = true) o : option_eqb eqb o o = true.
Proof. destruct o; cbn; [apply H|reflexivity]. Qed.

Lemma msg_eqb_eq a b : msg_eqb a b = true -> a = b.
Proof.
  destruct a as [a1 a2 a3 a4 a5 a6 a7 a8], b as [b1 b2 b3 b4 b5 b6 b7 b8]. unfold msg_eqb. cbn [m_seq m_id m_ch m_cno m_uid m_hash m_payload m_ts].
  intro H. beq. apply Z.eqb_eq in H0. subst. reflexivity.
Qed.

(* ---- find in a sorted log ------------------------------------------------------------------------ *)

Lemma find_unique {A} (p : A -> bool) l x :
  In x l -> p x = true -> (forall y, In y l -> p y = true -> y = x) -> find p l = Some x.
Proof.
  induction l as [|y l IH]; intros Hin Hp Hu; [destruct Hin|]. cbn [find].
  destruct (p y) eqn:E.
  - f_equal. apply Hu; [left; reflexivity|exact E].
  - destruct Hin as [->|Hin]; [rewrite Hp in E; discriminate|].
    apply IH; [exact Hin|exact Hp|]. intros z Hz. apply Hu. right. exact Hz.
Qed.

Lemma find_none {A} (p : A -> bool) l : (forall y, In y l -> p y = false) -> find p l = None.
Proof.
  induction l as [|y l IH]; intro H; cbn [find]; [reflexivity|].
  rewrite (H y (or_introl eq_refl)). apply IH. intros z Hz. apply H. right. exact Hz.
Qed.

Lemma find_map_row (p : msg -> bool) rows r :
  In r rows -> p (messageFromRow r) = true ->
  (forall r', In r' rows -> p (messageFromRow r') = true -> r' = r) ->
  find p (map messageFromRow rows) = Some (messageFromRow r).
Proof.
  intros Hin Hp Hu. apply find_unique.
  - apply in_map. exact Hin.
  - exact Hp.
  - intros y Hy Hpy. apply in_map_iff in Hy. destruct Hy as [r' [<- Hr']]. f_equal. apply Hu; assumption.
Qed.

Lemma find_map_none (p : msg -> bool) rows :
  (forall r', In r' rows -> p (messageFromRow r') = false) -> find p (map messageFromRow rows) = None.
Proof.
  intro H. apply find_none. intros y Hy. apply in_map_iff in Hy. destruct Hy as [r' [<- Hr']]. apply H. exact Hr'.
Qed.

Lemma fold_Nmax_ext l1 l2 : (forall x, In x l1 <-> In x l2) -> fold_left N.max l1 0 = fold_left N.max l2 0.
Proof.
  intro H. apply N.le_antisymm.
  - destruct (fold_Nmax_cases l1 0) as [E|Hin]; [lia|]. apply fold_Nmax_in. apply H. exact Hin.
  - destruct (fold_Nmax_cases l2 0) as [E|Hin]; [lia|]. apply fold_Nmax_in. apply H. exact Hin.
Qed.

(* ---- the volatile part of the relation --------------------------------------------------------- *)

Section Reads.
  Variable F : Type.
  Variable f_empty : F.
  Variable f_may : F -> bytes * bytes -> bool.
  Variable f_add : F -> bytes * bytes -> F.

  Notation mstate := (mstate F).
  Notation loadLEOLocked := (loadLEOLocked F).

  Definition Rcache (st : mstate) (s : aspec) : Prop :=
    forall c, cc_loaded F (st_cache F st c) = true -> cc_leo F (st_cache F st c) = al_leo (as_log s c).

  Definition R (st : mstate) (s : aspec) : Prop := Rkv (st_kv F st) s /\ Rcache st s.

  Lemma loadLEO_R st s c :
    R st s ->
    snd (loadLEOLocked st c) = al_leo (as_log s c)
    /\ R (fst (loadLEOLocked st c)) s
    /\ st_kv F (fst (loadLEOLocked st c)) = st_kv F st
    /\ st_log F (fst (loadLEOLocked st c)) = st_log F st.
  Proof.
    intros [Hk Hc]. unfold MsgStore.loadLEOLocked.
    destruct (cc_loaded F (st_cache F st c)) eqn:E; cbn [fst snd].
    - split; [apply Hc; exact E|]. split; [split; assumption|]. split; reflexivity.
    - destruct (rk_chan _ _ Hk c) as [rows Rc].
      split; [apply Rc|]. split; [|split; reflexivity].
      split; [exact Hk|]. intros c' Hl. unfold set_cache in *. cbn [st_cache] in *.
      destruct (c' =? c) eqn:E2.
      + apply N.eqb_eq in E2. subst. cbn [cc_leo]. apply Rc.
      + apply Hc. exact Hl.
  Qed.

  (* ---- the individual lookups ------------------------------------------------------------------ *)

  Lemma getRowBySeq_spec kv s c rows q :
    Rchan kv s c rows -> q <> 0 ->
    (exists r, In r rows /\ r_seq r = q /\ getRowBySeq kv c q = ok (Some r))
    \/ ((forall r, In r rows -> r_seq r <> q) /\ getRowBySeq kv c q = ok None).
  Proof.
    intros Rc Hq. unfold getRowBySeq.
    destruct (q =? 0) eqn:E; [apply N.eqb_eq in E; contradiction|].
    destruct (kget (KyRow c q) kv) as [v|] eqn:G.
    - destruct v as [r| | | | |];
        try (right; split; [intros r Hr Hs; assert (X : kget (KyRow c q) kv = Some (VRow r)) by (apply Rc; split; assumption);
                            rewrite G in X; discriminate|reflexivity]).
      left. apply Rc in G. destruct G as [Hin Hs]. exists r. split; [exact Hin|]. split; [exact Hs|].
      assert (Hok : row_ok c r) by (eapply Forall_forall; [apply Rc|exact Hin]).
      rewrite (row_ok_valid _ _ Hok). reflexivity.
    - right. split; [|reflexivity]. intros r Hr Hs.
      assert (X : kget (KyRow c q) kv = Some (VRow r)) by (apply Rc; split; assumption).
      rewrite G in X. discriminate.
  Qed.

  Lemma row_seq_pos kv s c rows r : Rchan kv s c rows -> In r rows -> r_seq r <> 0.
  Proof.
    intros Rc Hin. assert (Hok : row_ok c r) by (eapply Forall_forall; [apply Rc|exact Hin]).
    destruct Hok as [_ [_ [_ H]]]. lia.
  Qed.

  Lemma spec_get_ok kv s c rows q : Rchan kv s c rows ->
    spec_get (as_log s c) q = match find (fun r => r_seq r =? q) rows with Some r => Some (messageFromRow r) | None => None end.
  Proof.
    intro Rc. unfold spec_get. rewrite (Rchan_amsgs _ _ _ _ Rc).
    induction rows as [|r rows IH] in |- *; cbn [map find]; [reflexivity|].
    cbn [m_seq messageFromRow]. destruct (r_seq r =? q); [reflexivity|]. exact IH.
  Qed.

  Lemma check_get st s c q : R st s -> spec_check_read s (OGet c q) (out_of (GetBySeq F st c q) (fun ro => XMsgO (option_map messageFromRow ro))) = true.
  Proof.
    intros [Hk _]. destruct (rk_chan _ _ Hk c) as [rows Rc]. unfold GetBySeq.
    destruct (N.eq_dec q 0) as [->|Hq].
    - cbn. reflexivity.
    - cbn [spec_check_read]. rewrite (spec_get_ok _ _ _ _ q Rc).
      destruct (getRowBySeq_spec _ _ _ _ q Rc Hq) as [[r [Hin [Hs E]]]|[Hno E]]; rewrite E; cbn [out_of option_map].
      + rewrite (find_unique (fun r => r_seq r =? q) rows r Hin).
        * cbn. apply msg_eqb_refl.
        * apply N.eqb_eq. exact Hs.
        * intros y Hy Ey. apply N.eqb_eq in Ey. apply (sorted_lt_inj rows); [apply Rc|exact Hy|exact Hin|lia].
      + rewrite find_none; [reflexivity|]. intros y Hy. apply N.eqb_neq. apply Hno. exact Hy.
  Qed.

  Lemma in_msgs_row kv s c rows r : Rchan kv s c rows -> In r rows -> in_msgs (messageFromRow r) (as_log s c) = true.
  Proof.
    intros Rc Hin. unfold in_msgs. rewrite (Rchan_amsgs _ _ _ _ Rc). apply existsb_exists.
    exists (messageFromRow r). split; [apply in_map; exact Hin|apply msg_eqb_refl].
  Qed.

  Lemma existsb_Neqb_in i l : existsb (N.eqb i) l = true <-> In i l.
  Proof.
    rewrite existsb_exists. split.
    - intros [x [Hx E]]. apply N.eqb_eq in E. subst. exact Hx.
    - intro H. exists i. split; [exact H|apply N.eqb_refl].
  Qed.

  Lemma byid_stored kv s c rows i :
    Rkv kv s -> Rchan kv s c rows -> ~ In i (as_tids s) ->
    forall r, In r rows -> r_id r = i -> kget (KyGid i) kv = Some (VGid c (r_seq r)).
  Proof.
    intros Hk Rc Ht r Hin Hid. rewrite <- Hid. apply (rk_gc _ _ Hk).
    - apply Rc. split; [exact Hin|reflexivity].
    - rewrite Hid. exact Ht.
  Qed.

  Lemma byid_none kv s c rows i :
    Rkv kv s -> Rchan kv s c rows -> (forall q, kget (KyGid i) kv <> Some (VGid c q)) ->
    spec_check_read s (OById c i) (XMsgO None) = true.
  Proof.
    intros Hk Rc Hno. cbn [spec_check_read].
    destruct (existsb (N.eqb i) (as_tids s)) eqn:T; [reflexivity|].
    rewrite (Rchan_amsgs _ _ _ _ Rc), find_map_none; [reflexivity|].
    intros r' Hr'. cbn [m_id messageFromRow]. apply N.eqb_neq. intro Hid.
    assert (Ht : ~ In i (as_tids s)) by (intro X; apply existsb_Neqb_in in X; rewrite T in X; discriminate).
    apply (Hno (r_seq r')). eapply byid_stored; eassumption.
  Qed.

  Lemma check_byid st s c i : R st s ->
    spec_check_read s (OById c i) (out_of (GetByMessageID F st c i) (fun ro => XMsgO (option_map messageFromRow ro))) = true.
  Proof.
    intros [Hk _]. destruct (rk_chan _ _ Hk c) as [rows Rc]. unfold GetByMessageID.
    destruct (i =? 0) eqn:Ei.
    - cbn. rewrite Ei. reflexivity.
    - destruct (kget (KyGid i) (st_kv F st)) as [v|] eqn:G.
      2:{ cbn [out_of option_map]. eapply byid_none; [exact Hk|exact Rc|]. intros q X. rewrite G in X. discriminate. }
      destruct v as [|c' q| | | |];
        try (cbn [out_of option_map]; eapply byid_none; [exact Hk|exact Rc|]; intros q0 X; rewrite G in X; discriminate).
      destruct (c' =? c) eqn:Ec; cbn [negb].
      2:{ cbn [out_of option_map]. eapply byid_none; [exact Hk|exact Rc|]. intros q0 X. rewrite G in X.
          injection X as X _. subst. rewrite N.eqb_refl in Ec. discriminate. }
      apply N.eqb_eq in Ec. subst c'.
      destruct (rk_gs _ _ Hk _ _ _ G) as [r [Gr Hid]].
      apply Rc in Gr. destruct Gr as [Hin Hs].
      assert (Hq : q <> 0) by (rewrite <- Hs; eapply row_seq_pos; eassumption).
      destruct (getRowBySeq_spec _ _ _ _ q Rc Hq) as [[r2 [Hin2 [Hs2 E]]]|[Hno E]].
      2:{ exfalso. apply (Hno r Hin). exact Hs. }
      assert (r2 = r) by (apply (sorted_lt_inj rows); [apply Rc|assumption|assumption|lia]). subst r2.
      rewrite E. cbn [bind ok]. rewrite Hid, N.eqb_refl. cbn [out_of option_map spec_check_read ok].
      destruct (existsb (N.eqb i) (as_tids s)) eqn:T.
      + rewrite (in_msgs_row _ _ _ _ _ Rc Hin). cbn [m_id messageFromRow]. rewrite Hid, N.eqb_refl. reflexivity.
      + rewrite (Rchan_amsgs _ _ _ _ Rc).
        rewrite (find_map_row (fun m => m_id m =? i) rows r Hin).
        * cbn. apply msg_eqb_refl.
        * cbn [m_id messageFromRow]. rewrite Hid. apply N.eqb_refl.
        * intros r' Hr' Hid'. cbn [m_id messageFromRow] in Hid'. apply N.eqb_eq in Hid'.
          assert (Ht : ~ In i (as_tids s)) by (intro X; apply existsb_Neqb_in in X; rewrite T in X; discriminate).
          pose proof (byid_stored _ _ _ _ _ Hk Rc Ht r' Hr' Hid') as X. rewrite G in X. injection X as X.
          apply (sorted_lt_inj rows); [apply Rc|assumption|assumption|lia].
  Qed.
End Reads.
