(* Proof/MsgStore_reads.v — every read / lookup of the model, evaluated on a store
   related to the plain logs by [Rkv], passes the specification's check
   [spec_check_read]. *)
From WK Require Import Base.Base Model.KV Gen.Consts_C07 Model.MsgStore Model.MsgStore_C07
     Proof.KV Proof.MsgStore_base Proof.MsgStore_rel.
From Coq Require Import Sorting.Permutation Sorting.Sorted.

(* ---- reflexivity of the observation equalities ---------------------------------------------- *)

Lemma msg_eqb_refl m : msg_eqb m m = true.
Proof. unfold msg_eqb. rewrite !N.eqb_refl, !bytes_eqb_refl, Z.eqb_refl. reflexivity. Qed.

Lemma list_eqb_refl {A} (eqb : A -> A -> bool) (H : forall x, eqb x x = true) l : list_eqb eqb l l = true.
Proof. induction l as [|x l IH]; cbn [list_eqb]; [reflexivity|]. rewrite H, IH. reflexivity. Qed.

Lemma msgs_eqb_refl l : msgs_eqb l l = true.
Proof. apply list_eqb_refl. apply msg_eqb_refl. Qed.

Lemma triple_eqb_refl t : triple_eqb t t = true.
Proof. destruct t as [[a b] c]. cbn. rewrite !N.eqb_refl. reflexivity. Qed.

Lemma npair_eqb_refl p : npair_eqb p p = true.
Proof. unfold npair_eqb. rewrite !N.eqb_refl. reflexivity. Qed.

Lemma option_eqb_refl {A} (eqb : A -> A -> bool) (H : forall x, eqb x x = true) o : option_eqb eqb o o = true.
Proof. destruct o; cbn; [apply H|reflexivity]. Qed.

Lemma msg_eqb_eq a b : msg_eqb a b = true -> a = b.
Proof.
  destruct a as [a1 a2 a3 a4 a5 a6 a7 a8], b as [b1 b2 b3 b4 b5 b6 b7 b8]. unfold msg_eqb. cbn [m_seq m_id m_ch m_cno m_uid m_hash m_payload m_ts].
  intro H. beq. apply Z.eqb_eq in H0. subst. reflexivity.
Qed.

(* ---- find in a sorted log ------------------------------------------------------------------------ *)

Lemma find_unique {A} (p : A -> bool) l x :
  In x l -> p x = true -> (forall y, In y l -> p y = true -> y = x) -> find p l = Some x.
Proof.
  induction l as [|y l IH]; intros Hin Hp Hu; [destruct Hin|]. cbn [find].
  destruct (p y) eqn:E.
  - f_equal. apply Hu; [left; reflexivity|exact E].
  - destruct Hin as [->|Hin]; [rewrite Hp in E; discriminate|].
    apply IH; [exact Hin|exact Hp|]. intros z Hz. apply Hu. right. exact Hz.
Qed.

Lemma find_none {A} (p : A -> bool) l : (forall y, In y l -> p y = false) -> find p l = None.
Proof.
  induction l as [|y l IH]; intro H; cbn [find]; [reflexivity|].
  rewrite (H y (or_introl eq_refl)). apply IH. intros z Hz. apply H. right. exact Hz.
Qed.

Lemma find_map_row (p : msg -> bool) rows r :
  In r rows -> p (messageFromRow r) = true ->
  (forall r', In r' rows -> p (messageFromRow r') = true -> r' = r) ->
  find p (map messageFromRow rows) = Some (messageFromRow r).
Proof.
  intros Hin Hp Hu. apply find_unique.
  - apply in_map. exact Hin.
  - exact Hp.
  - intros y Hy Hpy. apply in_map_iff in Hy. destruct Hy as [r' [<- Hr']]. f_equal. apply Hu; assumption.
Qed.

Lemma find_map_none (p : msg -> bool) rows :
  (forall r', In r' rows -> p (messageFromRow r') = false) -> find p (map messageFromRow rows) = None.
Proof.
  intro H. apply find_none. intros y Hy. apply in_map_iff in Hy. destruct Hy as [r' [<- Hr']]. apply H. exact Hr'.
Qed.

Lemma fold_Nmax_ext l1 l2 : (forall x, In x l1 <-> In x l2) -> fold_left N.max l1 0 = fold_left N.max l2 0.
Proof.
  intro H. apply N.le_antisymm.
  - destruct (fold_Nmax_cases l1 0) as [E|Hin]; [lia|]. apply fold_Nmax_in. apply H. exact Hin.
  - destruct (fold_Nmax_cases l2 0) as [E|Hin]; [lia|]. apply fold_Nmax_in. apply H. exact Hin.
Qed.

(* ---- the volatile part of the relation --------------------------------------------------------- *)

Section Reads.
  Variable F : Type.
  Variable f_empty : F.
  Variable f_may : F -> bytes * bytes -> bool.
  Variable f_add : F -> bytes * bytes -> F.

  Notation mstate := (mstate F).
  Notation loadLEOLocked := (loadLEOLocked F).

  Definition Rcache (st : mstate) (s : aspec) : Prop :=
    forall c, cc_loaded F (st_cache F st c) = true -> cc_leo F (st_cache F st c) = al_leo (as_log s c).

  Definition R (st : mstate) (s : aspec) : Prop := Rkv (st_kv F st) s /\ Rcache st s.

  Lemma loadLEO_R st s c :
    R st s ->
    snd (loadLEOLocked st c) = al_leo (as_log s c)
    /\ R (fst (loadLEOLocked st c)) s
    /\ st_kv F (fst (loadLEOLocked st c)) = st_kv F st
    /\ st_log F (fst (loadLEOLocked st c)) = st_log F st.
  Proof.
    intros [Hk Hc]. unfold MsgStore.loadLEOLocked.
    destruct (cc_loaded F (st_cache F st c)) eqn:E; cbn [fst snd].
    - split; [apply Hc; exact E|]. split; [split; assumption|]. split; reflexivity.
    - destruct (rk_chan _ _ Hk c) as [rows Rc].
      split; [apply Rc|]. split; [|split; reflexivity].
      split; [exact Hk|]. intros c' Hl. unfold set_cache in *. cbn [st_cache] in *.
      destruct (c' =? c) eqn:E2.
      + apply N.eqb_eq in E2. subst. cbn [cc_leo]. apply Rc.
      + apply Hc. exact Hl.
  Qed.

  (* ---- the individual lookups ------------------------------------------------------------------ *)

  Lemma getRowBySeq_spec kv s c rows q :
    Rchan kv s c rows -> q <> 0 ->
    (exists r, In r rows /\ r_seq r = q /\ getRowBySeq kv c q = ok (Some r))
    \/ ((forall r, In r rows -> r_seq r <> q) /\ getRowBySeq kv c q = ok None).
  Proof.
    intros Rc Hq. unfold getRowBySeq.
    destruct (q =? 0) eqn:E; [apply N.eqb_eq in E; contradiction|].
    destruct (kget (KyRow c q) kv) as [v|] eqn:G.
    - destruct v as [r| | | | |];
        try (right; split; [intros r Hr Hs; assert (X : kget (KyRow c q) kv = Some (VRow r)) by (apply Rc; split; assumption);
                            rewrite G in X; discriminate|reflexivity]).
      left. apply Rc in G. destruct G as [Hin Hs]. exists r. split; [exact Hin|]. split; [exact Hs|].
      assert (Hok : row_ok c r) by (eapply Forall_forall; [apply Rc|exact Hin]).
      rewrite (row_ok_valid _ _ Hok). reflexivity.
    - right. split; [|reflexivity]. intros r Hr Hs.
      assert (X : kget (KyRow c q) kv = Some (VRow r)) by (apply Rc; split; assumption).
      rewrite G in X. discriminate.
  Qed.

  Lemma row_seq_pos kv s c rows r : Rchan kv s c rows -> In r rows -> r_seq r <> 0.
  Proof.
    intros Rc Hin. assert (Hok : row_ok c r) by (eapply Forall_forall; [apply Rc|exact Hin]).
    destruct Hok as [_ [_ [_ H]]]. lia.
  Qed.

  Lemma spec_get_ok kv s c rows q : Rchan kv s c rows ->
    spec_get (as_log s c) q = match find (fun r => r_seq r =? q) rows with Some r => Some (messageFromRow r) | None => None end.
  Proof.
    intro Rc. unfold spec_get. rewrite (Rchan_amsgs _ _ _ _ Rc).
    induction rows as [|r rows IH] in |- *; cbn [map find]; [reflexivity|].
    cbn [m_seq messageFromRow]. destruct (r_seq r =? q); [reflexivity|]. exact IH.
  Qed.

  Lemma check_get st s c q : R st s -> spec_check_read s (OGet c q) (out_of (GetBySeq F st c q) (fun ro => XMsgO (option_map messageFromRow ro))) = true.
  Proof.
    intros [Hk _]. destruct (rk_chan _ _ Hk c) as [rows Rc]. unfold GetBySeq.
    destruct (N.eq_dec q 0) as [->|Hq].
    - cbn. reflexivity.
    - cbn [spec_check_read]. rewrite (spec_get_ok _ _ _ _ q Rc).
      destruct (getRowBySeq_spec _ _ _ _ q Rc Hq) as [[r [Hin [Hs E]]]|[Hno E]]; rewrite E; cbn [out_of option_map].
      + rewrite (find_unique (fun r => r_seq r =? q) rows r Hin).
        * cbn. apply msg_eqb_refl.
        * apply N.eqb_eq. exact Hs.
        * intros y Hy Ey. apply N.eqb_eq in Ey. apply (sorted_lt_inj rows); [apply Rc|exact Hy|exact Hin|lia].
      + rewrite find_none; [reflexivity|]. intros y Hy. apply N.eqb_neq. apply Hno. exact Hy.
  Qed.

  Lemma in_msgs_row kv s c rows r : Rchan kv s c rows -> In r rows -> in_msgs (messageFromRow r) (as_log s c) = true.
  Proof.
    intros Rc Hin. unfold in_msgs. rewrite (Rchan_amsgs _ _ _ _ Rc). apply existsb_exists.
    exists (messageFromRow r). split; [apply in_map; exact Hin|apply msg_eqb_refl].
  Qed.

  Lemma existsb_Neqb_in i l : existsb (N.eqb i) l = true <-> In i l.
  Proof.
    rewrite existsb_exists. split.
    - intros [x [Hx E]]. apply N.eqb_eq in E. subst. exact Hx.
    - intro H. exists i. split; [exact H|apply N.eqb_refl].
  Qed.

  Lemma byid_stored kv s c rows i :
    Rkv kv s -> Rchan kv s c rows -> ~ In i (as_tids s) ->
    forall r, In r rows -> r_id r = i -> kget (KyGid i) kv = Some (VGid c (r_seq r)).
  Proof.
    intros Hk Rc Ht r Hin Hid. rewrite <- Hid. apply (rk_gc _ _ Hk).
    - apply Rc. split; [exact Hin|reflexivity].
    - rewrite Hid. exact Ht.
  Qed.

  Lemma byid_none kv s c rows i :
    Rkv kv s -> Rchan kv s c rows -> (forall q, kget (KyGid i) kv <> Some (VGid c q)) ->
    spec_check_read s (OById c i) (XMsgO None) = true.
  Proof.
    intros Hk Rc Hno. cbn [spec_check_read].
    destruct (existsb (N.eqb i) (as_tids s)) eqn:T; [reflexivity|].
    rewrite (Rchan_amsgs _ _ _ _ Rc), find_map_none; [reflexivity|].
    intros r' Hr'. cbn [m_id messageFromRow]. apply N.eqb_neq. intro Hid.
    assert (Ht : ~ In i (as_tids s)) by (intro X; apply existsb_Neqb_in in X; rewrite T in X; discriminate).
    apply (Hno (r_seq r')). eapply byid_stored; eassumption.
  Qed.

  Lemma check_byid st s c i : R st s ->
    spec_check_read s (OById c i) (out_of (GetByMessageID F st c i) (fun ro => XMsgO (option_map messageFromRow ro))) = true.
  Proof.
    intros [Hk _]. destruct (rk_chan _ _ Hk c) as [rows Rc]. unfold GetByMessageID.
    destruct (i =? 0) eqn:Ei.
    - cbn. rewrite Ei. reflexivity.
    - destruct (kget (KyGid i) (st_kv F st)) as [v|] eqn:G.
      2:{ cbn [out_of option_map]. eapply byid_none; [exact Hk|exact Rc|]. intros q X. rewrite G in X. discriminate. }
      destruct v as [|c' q| | | |];
        try (cbn [out_of option_map]; eapply byid_none; [exact Hk|exact Rc|]; intros q0 X; rewrite G in X; discriminate).
      destruct (c' =? c) eqn:Ec; cbn [negb].
      2:{ cbn [out_of option_map]. eapply byid_none; [exact Hk|exact Rc|]. intros q0 X. rewrite G in X.
          injection X as X _. subst. rewrite N.eqb_refl in Ec. discriminate. }
      apply N.eqb_eq in Ec. subst c'.
      destruct (rk_gs _ _ Hk _ _ _ G) as [r [Gr Hid]].
      apply Rc in Gr. destruct Gr as [Hin Hs].
      assert (Hq : q <> 0) by (rewrite <- Hs; eapply row_seq_pos; eassumption).
      destruct (getRowBySeq_spec _ _ _ _ q Rc Hq) as [[r2 [Hin2 [Hs2 E]]]|[Hno E]].
      2:{ exfalso. apply (Hno r Hin). exact Hs. }
      assert (r2 = r) by (apply (sorted_lt_inj rows); [apply Rc|assumption|assumption|lia]). subst r2.
      rewrite E. cbn [bind ok]. rewrite Hid, N.eqb_refl. cbn [out_of option_map spec_check_read ok].
      destruct (existsb (N.eqb i) (as_tids s)) eqn:T.
      + rewrite (in_msgs_row _ _ _ _ _ Rc Hin). cbn [m_id messageFromRow]. rewrite Hid, N.eqb_refl. reflexivity.
      + rewrite (Rchan_amsgs _ _ _ _ Rc).
        rewrite (find_map_row (fun m => m_id m =? i) rows r Hin).
        * cbn. apply msg_eqb_refl.
        * cbn [m_id messageFromRow]. rewrite Hid. apply N.eqb_refl.
        * intros r' Hr' Hid'. cbn [m_id messageFromRow] in Hid'. apply N.eqb_eq in Hid'.
          assert (Ht : ~ In i (as_tids s)) by (intro X; apply existsb_Neqb_in in X; rewrite T in X; discriminate).
          pose proof (byid_stored _ _ _ _ _ Hk Rc Ht r' Hr' Hid') as X. rewrite G in X. injection X as X.
          apply (sorted_lt_inj rows); [apply Rc|assumption|assumption|lia].
  Qed.

  (* ---- Read / ReadReverse ------------------------------------------------------------------------ *)

  Lemma check_read st s c f lim mb : R st s ->
    spec_check_read s (ORead c f lim mb) (out_of (Read F st c f lim mb) (fun rs => XMsgs (map messageFromRow rs))) = true.
  Proof.
    intros [Hk _]. destruct (rk_chan _ _ Hk c) as [rows Rc]. unfold Read.
    destruct (readForward_spec _ _ _ _ (if f =? 0 then 1 else f) 0 lim mb (rk_wf _ _ Hk) Rc) as [X [E [HX _]]].
    rewrite E. cbn [out_of spec_check_read ok]. rewrite HX. unfold spec_read.
    erewrite filter_ext; [apply msgs_eqb_refl|].
    intro m. cbn. rewrite andb_true_r. reflexivity.
  Qed.

  Lemma Forall_rev' {A} (P : A -> Prop) l : Forall P l -> Forall P (rev l).
  Proof. intro H. apply Forall_forall. intros x Hx. apply in_rev in Hx. eapply Forall_forall in H; eassumption. Qed.

  Lemma check_rread st s c f lim mb : R st s ->
    let '(st', r) := ReadReverse F st c f lim mb in
    R st' s /\ st_kv F st' = st_kv F st /\ st_log F st' = st_log F st
    /\ spec_check_read s (ORRead c f lim mb) (out_of r (fun rs => XMsgs (map messageFromRow rs))) = true.
  Proof.
    intro HR. unfold ReadReverse.
    set (p := if f =? 0 then loadLEOLocked st c else (st, f)).
    assert (Hp : snd p = (if f =? 0 then al_leo (as_log s c) else f) /\ R (fst p) s
                 /\ st_kv F (fst p) = st_kv F st /\ st_log F (fst p) = st_log F st).
    { unfold p. destruct (f =? 0).
      - destruct (loadLEO_R st s c HR) as [H1 [H2 [H3 H4]]]. split; [exact H1|split; [exact H2|split; [exact H3|exact H4]]].
      - cbn [fst snd]. split; [reflexivity|split; [exact HR|split; reflexivity]]. }
    destruct p as [st1 f1]. cbn [fst snd] in Hp. destruct Hp as [Hf [HR1 [Hkv Hlog]]].
    destruct HR1 as [Hk Hc]. destruct (rk_chan _ _ Hk c) as [rows Rc].
    rewrite (readForward_all _ _ _ _ 1 f1 (rk_wf _ _ Hk) Rc). unfold ok at 1. cbv iota beta.
    set (all := filter (fun r => (1 <=? r_seq r) && ((f1 =? 0) || (r_seq r <=? f1))) rows).
    assert (HF : Forall (row_ok c) (rev all)) by (apply Forall_rev'; apply Forall_filter; apply Rc).
    destruct (read_loop_spec c (rev all) lim mb HF) as [X [E HX]].
    rewrite E. split; [split; assumption|]. split; [exact Hkv|]. split; [exact Hlog|].
    cbn [out_of spec_check_read ok]. rewrite HX. unfold spec_rread. rewrite <- Hf.
    rewrite map_rev. unfold all.
    rewrite <- (filter_map_msg (fun q => (1 <=? q) && ((f1 =? 0) || (q <=? f1)))).
    rewrite <- (Rchan_amsgs _ _ _ _ Rc).
    assert (Hflt : filter (fun m => (1 <=? m_seq m) && ((f1 =? 0) || (m_seq m <=? f1))) (amsgs (as_log s c))
                   = filter (fun m => (f1 =? 0) || (m_seq m <=? f1)) (amsgs (as_log s c))).
    { apply filter_ext_in. intros m Hm. rewrite (Rchan_amsgs _ _ _ _ Rc) in Hm.
      apply in_map_iff in Hm. destruct Hm as [r [<- Hr]]. cbn [m_seq messageFromRow].
      assert (Hok : row_ok c r) by (eapply Forall_forall; [apply Rc|exact Hr]).
      destruct Hok as [_ [_ [_ H1]]]. apply N.leb_le in H1. rewrite H1. reflexivity. }
    rewrite Hflt. apply msgs_eqb_refl.
  Qed.

  (* ---- LookupIdempotency ------------------------------------------------------------------------------ *)

  Lemma lookupIdem_spec kv s c rows uid cno :
    Rchan kv s c rows ->
    (exists r, In r rows /\ r_uid r = uid /\ r_cno r = cno
               /\ lookupIdempotencyByKey kv c uid cno = ok (Some (r_seq r, r_id r, r_hash r)))
    \/ (lookupIdempotencyByKey kv c uid cno = ok None
        /\ forall q i h, kget (KyIdem c cno uid) kv <> Some (VIdem q i h)).
  Proof.
    intro Rc. unfold lookupIdempotencyByKey.
    destruct (kget (KyIdem c cno uid) kv) as [v|] eqn:G.
    2:{ right. split; [reflexivity|]. intros q i h X. discriminate. }
    destruct v as [| | |q i h| |]; try (right; split; [reflexivity|]; intros q0 i0 h0 X; discriminate).
    left. destruct (rc_idem_sound _ _ _ _ Rc _ _ _ _ _ G) as [r [Hin [Hs [Hn [Hu [Hi [Hh _]]]]]]].
    assert (Hq : q <> 0) by (rewrite <- Hs; eapply row_seq_pos; eassumption).
    destruct (getRowBySeq_spec _ _ _ _ q Rc Hq) as [[r2 [Hin2 [Hs2 E]]]|[Hno E]].
    2:{ exfalso. apply (Hno r Hin). exact Hs. }
    assert (r2 = r) by (apply (sorted_lt_inj rows); [apply Rc|assumption|assumption|lia]). subst r2.
    exists r. split; [exact Hin|]. split; [exact Hu|]. split; [exact Hn|].
    rewrite E. cbn [bind ok]. rewrite Hi, Hh, Hu, Hn, !N.eqb_refl, !bytes_eqb_refl. cbn [andb].
    rewrite Hs. reflexivity.
  Qed.

  Lemma pair_find_none_or_tainted kv s c rows uid cno :
    Rchan kv s c rows -> uid <> [] -> cno <> [] ->
    (forall q i h, kget (KyIdem c cno uid) kv <> Some (VIdem q i h)) ->
    match find (fun m => bytes_eqb (m_uid m) uid && bytes_eqb (m_cno m) cno) (amsgs (as_log s c)) with
    | Some _ => pair_tainted (as_log s c) uid cno
    | None => true
    end = true.
  Proof.
    intros Rc Hu Hn Hno.
    destruct (find _ _) as [m|] eqn:Fd; [|reflexivity].
    apply find_some in Fd. destruct Fd as [Hm Hp].
    rewrite (Rchan_amsgs _ _ _ _ Rc) in Hm. apply in_map_iff in Hm. destruct Hm as [r [<- Hr]].
    cbn [m_uid m_cno messageFromRow] in Hp. beq.
    destruct (pair_tainted (as_log s c) uid cno) eqn:T; [reflexivity|].
    exfalso. subst. eapply Hno. apply (rc_idem_complete _ _ _ _ Rc r Hr); assumption.
  Qed.

  Lemma check_idem st s c uid cno : R st s ->
    spec_check_read s (OIdem c uid cno)
      (out_of (LookupIdempotency F st c uid cno)
              (fun h => XHit (option_map (fun x => let '(q, i, hh) := x in (q, i, q - 1, hh)) h))) = true.
  Proof.
    intros [Hk _]. destruct (rk_chan _ _ Hk c) as [rows Rc]. unfold LookupIdempotency.
    destruct (is_nil uid || is_nil cno) eqn:En.
    - cbn [out_of err spec_check_read]. rewrite En, N.eqb_refl. reflexivity.
    - apply orb_false_iff in En. destruct En as [Eu Ec]. apply is_nil_false in Eu, Ec.
      destruct (lookupIdem_spec _ _ _ _ uid cno Rc) as [[r [Hin [Hu [Hn E]]]]|[E Hno]]; rewrite E;
        cbn [out_of ok option_map spec_check_read].
      + rewrite N.eqb_refl. cbn [andb]. apply existsb_exists. exists (messageFromRow r).
        split; [rewrite (Rchan_amsgs _ _ _ _ Rc); apply in_map; exact Hin|].
        cbn [m_seq m_id m_hash m_uid m_cno messageFromRow].
        rewrite Hu, Hn, !N.eqb_refl, !bytes_eqb_refl. reflexivity.
      + eapply pair_find_none_or_tainted; eassumption.
  Qed.

  (* ---- GetLastSenderMessageSeq -------------------------------------------------------------------------- *)

  Lemma check_lasts st s c uid t : R st s ->
    spec_check_read s (OLastS c uid t) (out_of (GetLastSenderMessageSeq F st c uid t) XNO) = true.
  Proof.
    intros [Hk _]. destruct (rk_chan _ _ Hk c) as [rows Rc]. unfold GetLastSenderMessageSeq.
    destruct (is_nil uid || (t =? 0)) eqn:En.
    - cbn [out_of err spec_check_read]. rewrite En, N.eqb_refl. reflexivity.
    - apply orb_false_iff in En. destruct En as [Eu Et]. apply is_nil_false in Eu.
      set (l1 := filter (fun q => q <=? t) (sseq_seqs (st_kv F st) c uid)).
      set (l2 := flat_map (fun a => if bytes_eqb (m_uid (a_msg a)) uid && negb (a_sync a) && (m_seq (a_msg a) <=? t)
                                    then [m_seq (a_msg a)] else []) (al_rows (as_log s c))).
      assert (Hmem : forall q, In q l1 <-> In q l2).
      { intro q. unfold l1, l2. rewrite filter_In, (in_sseq_seqs _ _ _ _ (rk_wf _ _ Hk)), in_flat_map.
        rewrite (rc_rows _ _ _ _ Rc). split.
        - intros [[v Hv] Hle].
          assert (Hh : has (st_kv F st) (KySseq c uid q)) by (unfold has; rewrite Hv; discriminate).
          apply (rc_sseq _ _ _ _ Rc) in Hh. destruct Hh as [r [Hin [Hs [Hu [_ Hf]]]]].
          exists (arow_of r). split; [apply in_map; exact Hin|].
          cbn [arow_of a_msg a_sync m_uid m_seq messageFromRow].
          rewrite Hu, bytes_eqb_refl, Hf, N.eqb_refl, Hs, Hle. left. reflexivity.
        - intros [a [Ha Hq]]. apply in_map_iff in Ha. destruct Ha as [r [<- Hr]].
          cbn [arow_of a_msg a_sync m_uid m_seq messageFromRow] in Hq.
          destruct (bytes_eqb (r_uid r) uid && negb (negb (N.land (r_flags r) syncOnceFlag =? 0)) && (r_seq r <=? t)) eqn:Ec; [|destruct Hq].
          destruct Hq as [<-|[]]. rewrite negb_involutive in Ec. beq. split; [|assumption].
          assert (Hh : has (st_kv F st) (KySseq c uid (r_seq r))).
          { apply (rc_sseq _ _ _ _ Rc). exists r. repeat split; try assumption. }
          unfold has in Hh. destruct (kget _ _) as [v|]; [exists v; reflexivity|contradiction]. }
      fold l1. cbn [spec_check_read]. fold l2.
      destruct l1 as [|x1 l1'] eqn:E1; destruct l2 as [|x2 l2'] eqn:E2; cbn [out_of ok option_eqb].
      + reflexivity.
      + exfalso. apply (proj2 (Hmem x2)). left. reflexivity.
      + exfalso. apply (proj1 (Hmem x1)). left. reflexivity.
      + rewrite (fold_Nmax_ext _ _ Hmem). apply N.eqb_refl.
  Qed.

  (* ---- the small ones -------------------------------------------------------------------------------------- *)

  Lemma check_lck st s c : R st s -> spec_check_read s (OLoadCk c) (XTriple (loadCheckpoint (st_kv F st) c)) = true.
  Proof.
    intros [Hk _]. destruct (rk_chan _ _ Hk c) as [rows Rc]. cbn [spec_check_read].
    rewrite (rc_ck _ _ _ _ Rc). apply option_eqb_refl. apply triple_eqb_refl.
  Qed.

  Lemma check_hist st s c : R st s -> spec_check_read s (OHist c) (XPairs (loadHistory (st_kv F st) c)) = true.
  Proof.
    intros [Hk _]. destruct (rk_chan _ _ Hk c) as [rows Rc]. cbn [spec_check_read].
    rewrite (rc_hist _ _ _ _ Rc). apply list_eqb_refl. apply npair_eqb_refl.
  Qed.

  (* ---- ListByClientMsgNo ------------------------------------------------------------------------------------ *)

  Lemma NoDup_app_intro {A} (l1 l2 : list A) :
    NoDup l1 -> NoDup l2 -> (forall x, In x l1 -> In x l2 -> False) -> NoDup (l1 ++ l2).
  Proof.
    induction 1 as [|x l1 Hx Hl IH]; intros H2 Hd; cbn [app]; [exact H2|].
    constructor.
    - intro Hin. apply in_app_or in Hin. destruct Hin as [Hin|Hin]; [contradiction|].
      apply (Hd x); [left; reflexivity|exact Hin].
    - apply IH; [exact H2|]. intros y Hy1 Hy2. apply (Hd y); [right; exact Hy1|exact Hy2].
  Qed.

  Lemma NoDup_flat_map_inj {A B} (g : A -> list B) l :
    NoDup l -> (forall x, In x l -> NoDup (g x)) ->
    (forall x y b, In x l -> In y l -> In b (g x) -> In b (g y) -> x = y) ->
    NoDup (flat_map g l).
  Proof.
    induction 1 as [|x l Hx Hl IH]; intros Hg Hinj; cbn [flat_map]; [constructor|].
    apply NoDup_app_intro.
    - apply Hg. left. reflexivity.
    - apply IH; [intros y Hy; apply Hg; right; exact Hy|].
      intros y z b Hy Hz. apply Hinj; right; assumption.
    - intros b Hb1 Hb2. apply in_flat_map in Hb2. destruct Hb2 as [y [Hy Hb2]].
      assert (x = y) by (apply (Hinj x y b); [left; reflexivity|right; exact Hy|exact Hb1|exact Hb2]).
      subst. contradiction.
  Qed.

  Lemma swf_nodup (kv : kvs) : swf kv -> NoDup kv.
  Proof. intro W. eapply NoDup_map_inv. exact W. Qed.

  Lemma list_rows_ok kv s c rows cno : Rchan kv s c rows ->
    forall l rs, Forall2 (fun (e : N * bool) r => In r rows /\ r_seq r = fst e /\ r_cno r = cno) l rs ->
    list_rows kv c cno l = ok rs.
  Proof.
    intro Rc. induction 1 as [|[q b] r l rs [Hin [Hs Hn]] Hrest IH]; cbn [list_rows]; [reflexivity|].
    cbn [fst] in Hs.
    assert (Hq : q <> 0) by (rewrite <- Hs; eapply row_seq_pos; eassumption).
    destruct (getRowBySeq_spec _ _ _ _ q Rc Hq) as [[r2 [Hin2 [Hs2 E]]]|[Hno E]].
    2:{ exfalso. apply (Hno r Hin). exact Hs. }
    assert (r2 = r) by (apply (sorted_lt_inj rows); [apply Rc|assumption|assumption|lia]). subst r2.
    rewrite E. cbn [bind ok]. rewrite Hn, bytes_eqb_refl. cbn [negb]. rewrite IH. reflexivity.
  Qed.

  (* every index entry the lookup collects points at a stored row with that client msg no *)
  Definition bycno_entries (kv : kvs) c cno before : list (N * bool) :=
    let want q := (before =? 0) || (q <? before) in
    flat_map (fun e : bytes * bytes * (N * N * N) => let '(n, _, (q, _, _)) := e in
                       if bytes_eqb n cno && want q then [(q, true)] else []) (idem_entries kv c)
    ++ flat_map (fun q => if want q then [(q, false)] else []) (cidx_seqs kv c cno).

  Lemma bycno_entry_sound kv s c rows cno before q b :
    swf kv -> Rchan kv s c rows -> In (q, b) (bycno_entries kv c cno before) ->
    exists r, In r rows /\ r_seq r = q /\ r_cno r = cno
              /\ ((before =? 0) || (q <? before)) = true /\ b = negb (is_nil (r_uid r)).
  Proof.
    intros W Rc Hin. unfold bycno_entries in Hin. apply in_app_or in Hin. destruct Hin as [Hin|Hin].
    - apply in_flat_map in Hin. destruct Hin as [[[n u] [[q0 i] h]] [He Hq]].
      destruct (bytes_eqb n cno && ((before =? 0) || (q0 <? before))) eqn:Ec; [|destruct Hq].
      destruct Hq as [Hq|[]]. injection Hq as <- <-. apply andb_true_iff in Ec. destruct Ec as [En Ew].
      apply bytes_eqb_eq in En. subst n.
      apply (in_idem_entries _ _ _ _ _ _ _ W) in He.
      destruct (rc_idem_sound _ _ _ _ Rc _ _ _ _ _ He) as [r [Hr [Hs [Hn [Hu [_ [_ [_ Hune]]]]]]]].
      exists r. repeat split; try assumption. rewrite Hu. apply is_nil_false in Hune. rewrite Hune. reflexivity.
    - apply in_flat_map in Hin. destruct Hin as [q0 [He Hq]].
      destruct ((before =? 0) || (q0 <? before)) eqn:Ew; [|destruct Hq].
      destruct Hq as [Hq|[]]. injection Hq as <- <-.
      apply (in_cidx_seqs _ _ _ _ W) in He. destruct He as [v Hv].
      assert (Hh : has kv (KyCidx c cno q0)) by (unfold has; rewrite Hv; discriminate).
      apply (rc_cidx _ _ _ _ Rc) in Hh. destruct Hh as [r [Hr [Hs [Hn [_ Hu]]]]].
      exists r. repeat split; try assumption. rewrite Hu. reflexivity.
  Qed.

  Lemma Forall2_sound kv s c rows cno before l :
    swf kv -> Rchan kv s c rows -> (forall e, In e l -> In e (bycno_entries kv c cno before)) ->
    exists rs, Forall2 (fun (e : N * bool) r => In r rows /\ r_seq r = fst e /\ r_cno r = cno) l rs
               /\ map r_seq rs = map fst l.
  Proof.
    intros W Rc. induction l as [|[q b] l IH]; intro H.
    - exists []. split; [constructor|reflexivity].
    - destruct (bycno_entry_sound _ _ _ _ _ _ q b W Rc (H _ (or_introl eq_refl))) as [r [Hr [Hs [Hn _]]]].
      destruct IH as [rs [H2 Hm]]; [intros e He; apply H; right; exact He|].
      exists (r :: rs). split; [constructor; [repeat split; assumption|exact H2]|].
      cbn [map fst]. rewrite Hs, Hm. reflexivity.
  Qed.

  (* a list of rows of the log is determined by its sequences *)
  Lemma rows_by_seq rows l1 l2 : sorted_lt r_seq rows ->
    (forall r, In r l1 -> In r rows) -> (forall r, In r l2 -> In r rows) ->
    map r_seq l1 = map r_seq l2 -> l1 = l2.
  Proof.
    intro Hs. revert l2. induction l1 as [|x l1 IH]; intros [|y l2] H1 H2 E; try discriminate; [reflexivity|].
    cbn [map] in E. injection E as E1 E2. f_equal.
    - apply (sorted_lt_inj rows); [exact Hs|apply H1; left; reflexivity|apply H2; left; reflexivity|exact E1].
    - apply IH; [intros r Hr; apply H1; right; exact Hr|intros r Hr; apply H2; right; exact Hr|exact E2].
  Qed.

  Lemma sorted_lt_filter {A} (f : A -> N) p l : sorted_lt f l -> sorted_lt f (filter p l).
  Proof.
    unfold sorted_lt. induction 1 as [|x l Hs IH Hall]; cbn [filter]; [constructor|].
    destruct (p x); [|exact IH]. constructor; [exact IH|].
    apply Forall_forall. intros y Hy. apply filter_In in Hy. eapply Forall_forall in Hall; [exact Hall|apply Hy].
  Qed.

  Lemma sorted_lt_map {A B} (f : B -> N) (g : A -> B) l : sorted_lt (fun a => f (g a)) l -> sorted_lt f (map g l).
  Proof.
    unfold sorted_lt. induction 1 as [|x l Hs IH Hall]; cbn [map]; [constructor|].
    constructor; [exact IH|]. apply Forall_forall. intros y Hy. apply in_map_iff in Hy.
    destruct Hy as [z [<- Hz]]. eapply Forall_forall in Hall; [exact Hall|exact Hz].
  Qed.

  Lemma nodup_idem_entries kv c : swf kv -> NoDup (idem_entries kv c).
  Proof.
    intro W. unfold idem_entries. apply NoDup_flat_map_inj.
    - apply swf_nodup. exact W.
    - intros [k v] _. destruct k; try constructor. destruct v; try constructor.
      destruct (c0 =? c); [|constructor]. constructor; [intros []|constructor].
    - intros [k1 v1] [k2 v2] b H1 H2 Hb1 Hb2.
      destruct k1; try contradiction. destruct v1; try contradiction.
      destruct (c0 =? c) eqn:E1; [|contradiction]. destruct Hb1 as [<-|[]].
      destruct k2; try contradiction. destruct v2; try contradiction.
      destruct (c1 =? c) eqn:E2; [|contradiction]. destruct Hb2 as [Hb2|[]].
      injection Hb2 as -> -> -> -> ->. apply N.eqb_eq in E1, E2. subst. reflexivity.
  Qed.

  Lemma nodup_cidx_seqs kv c cno : swf kv -> NoDup (cidx_seqs kv c cno).
  Proof.
    intro W. unfold cidx_seqs. apply NoDup_flat_map_inj.
    - apply swf_nodup. exact W.
    - intros [k v] _. destruct k; try constructor.
      destruct ((c0 =? c) && bytes_eqb cno0 cno); [|constructor]. constructor; [intros []|constructor].
    - intros [k1 v1] [k2 v2] b H1 H2 Hb1 Hb2.
      destruct k1; try contradiction.
      destruct ((c0 =? c) && bytes_eqb cno0 cno) eqn:E1; [|contradiction]. destruct Hb1 as [<-|[]].
      destruct k2; try contradiction.
      destruct ((c1 =? c) && bytes_eqb cno1 cno) eqn:E2; [|contradiction]. destruct Hb2 as [Hb2|[]].
      subst. beq. subst.
      (* same key: the store has one binding per key *)
      assert (G1 := proj1 (kin_iff_get _ _ _ W) H1). assert (G2 := proj1 (kin_iff_get _ _ _ W) H2).
      rewrite G1 in G2. injection G2 as ->. reflexivity.
  Qed.

  Lemma nodup_bycno_entries kv s c rows cno before :
    swf kv -> Rchan kv s c rows -> NoDup (bycno_entries kv c cno before).
  Proof.
    intros W Rc. unfold bycno_entries. apply NoDup_app_intro.
    - apply NoDup_flat_map_inj.
      + apply nodup_idem_entries. exact W.
      + intros [[n u] [[q i] h]] _. destruct (_ && _); constructor; [intros []|constructor].
      + intros [[n1 u1] [[q1 i1] h1]] [[n2 u2] [[q2 i2] h2]] b H1 H2 Hb1 Hb2.
        destruct (bytes_eqb n1 cno && ((before =? 0) || (q1 <? before))) eqn:E1; [|destruct Hb1].
        destruct (bytes_eqb n2 cno && ((before =? 0) || (q2 <? before))) eqn:E2; [|destruct Hb2].
        destruct Hb1 as [<-|[]]. destruct Hb2 as [Hb2|[]]. injection Hb2 as ->.
        apply andb_true_iff in E1, E2. destruct E1 as [E1 _], E2 as [E2 _].
        apply bytes_eqb_eq in E1, E2. subst n1 n2.
        apply (in_idem_entries _ _ _ _ _ _ _ W) in H1, H2.
        destruct (rc_idem_sound _ _ _ _ Rc _ _ _ _ _ H1) as [r1 [Hr1 [Hs1 [_ [Hu1 _]]]]].
        destruct (rc_idem_sound _ _ _ _ Rc _ _ _ _ _ H2) as [r2 [Hr2 [Hs2 [_ [Hu2 _]]]]].
        assert (r1 = r2) by (apply (sorted_lt_inj rows); [apply Rc|assumption|assumption|lia]). subst r2.
        rewrite <- Hu2 in H2 |- *. rewrite <- Hu1 in H1 |- *. rewrite H1 in H2. injection H2 as -> ->. reflexivity.
    - apply NoDup_flat_map_inj.
      + apply nodup_cidx_seqs. exact W.
      + intros q _. destruct (_ || _); constructor; [intros []|constructor].
      + intros q1 q2 b _ _ Hb1 Hb2.
        destruct ((before =? 0) || (q1 <? before)); [|destruct Hb1].
        destruct ((before =? 0) || (q2 <? before)); [|destruct Hb2].
        destruct Hb1 as [<-|[]]. destruct Hb2 as [Hb2|[]]. injection Hb2 as ->. reflexivity.
    - intros [q b] H1 H2.
      apply in_flat_map in H1. destruct H1 as [[[n u] [[q1 i] h]] [_ Hb1]].
      destruct (_ && _); [|destruct Hb1]. destruct Hb1 as [Hb1|[]]. injection Hb1 as <- <-.
      apply in_flat_map in H2. destruct H2 as [q2 [_ Hb2]].
      destruct (_ || _); [|destruct Hb2]. destruct Hb2 as [Hb2|[]]. discriminate.
  Qed.

  Lemma NoDup_map_inj_in {A B} (f : A -> B) l :
    NoDup l -> (forall x y, In x l -> In y l -> f x = f y -> x = y) -> NoDup (map f l).
  Proof.
    induction 1 as [|x l Hx Hl IH]; intro Hinj; cbn [map]; [constructor|].
    constructor.
    - intro Hin. apply in_map_iff in Hin. destruct Hin as [y [E Hy]].
      assert (y = x) by (apply Hinj; [right; exact Hy|left; reflexivity|exact E]). subst. contradiction.
    - apply IH. intros y z Hy Hz. apply Hinj; right; assumption.
  Qed.

  Lemma cno_untainted_pair l u cno : cno_tainted l cno = false -> pair_tainted l u cno = false.
  Proof.
    unfold cno_tainted, pair_tainted. intro H.
    destruct (existsb (fun p => bytes_eqb (fst p) u && bytes_eqb (snd p) cno) (al_tpairs l)) eqn:E; [|reflexivity].
    apply existsb_exists in E. destruct E as [p [Hp Hb]]. apply andb_true_iff in Hb.
    assert (X : existsb (fun p => bytes_eqb (snd p) cno) (al_tpairs l) = true)
      by (apply existsb_exists; exists p; split; [exact Hp|apply Hb]).
    rewrite H in X. discriminate.
  Qed.

  Lemma map_rev_last (rows : list row) :
    match rev (map messageFromRow rows) with m :: _ => m_seq m | [] => 0 end = last_seq rows.
  Proof.
    unfold last_seq. rewrite <- map_rev. destruct (rev rows); reflexivity.
  Qed.

  Lemma check_bycno st s c cno before lim : R st s ->
    spec_check_read s (OByCno c cno before lim)
      (out_of (ListByClientMsgNo F st c cno before lim)
              (fun x => let '(rs, more, nb) := x in XPage (map messageFromRow rs) more nb)) = true.
  Proof.
    intros [Hk _]. destruct (rk_chan _ _ Hk c) as [rows Rc]. pose proof (rk_wf _ _ Hk) as W.
    unfold ListByClientMsgNo.
    destruct (is_nil cno || (lim <=? 0)%Z) eqn:En.
    { cbn [out_of err spec_check_read]. rewrite En, N.eqb_refl. reflexivity. }
    apply orb_false_iff in En. destruct En as [Ecn Elim]. apply is_nil_false in Ecn.
    change (flat_map _ (idem_entries (st_kv F st) c) ++ flat_map _ (cidx_seqs (st_kv F st) c cno))
      with (bycno_entries (st_kv F st) c cno before).
    set (E := bycno_entries (st_kv F st) c cno before).
    assert (Hsub : forall e, In e (sort_desc E) -> In e E).
    { intros e He. unfold sort_desc in He. rewrite <- in_rev in He. exact (proj1 (in_sort_by _ _ _) He). }
    destruct (Forall2_sound _ _ _ _ cno before (sort_desc E) W Rc Hsub) as [rs [HF Hseq]].
    rewrite (list_rows_ok _ _ _ _ cno Rc _ _ HF). cbn [bind ok].
    assert (Hrs : forall r, In r rs -> In r rows /\ r_cno r = cno).
    { clear - HF. induction HF as [|e r l rs' [H1 [_ H3]] _ IH]; [intros r0 []|intros r0 [<-|Hr0]; [split; assumption|apply IH; exact Hr0]]. }
    set (p := fun q => (before =? 0) || (q <? before)).
    set (pr := fun r : row => bytes_eqb (r_cno r) cno && p (r_seq r)).
    destruct (cno_tainted (as_log s c) cno) eqn:T.
    - (* a tainted client msg no: soundness only *)
      assert (Hall : forall l, (forall r, In r l -> In r rs) ->
                     forallb (fun m => in_msgs m (as_log s c) && bytes_eqb (m_cno m) cno) (map messageFromRow l) = true).
      { intros l Hl. apply forallb_forall. intros m Hm. apply in_map_iff in Hm. destruct Hm as [r [<- Hr]].
        destruct (Hrs r (Hl r Hr)) as [Hin Hc]. rewrite (in_msgs_row _ _ _ _ _ Rc Hin).
        cbn [m_cno messageFromRow]. rewrite Hc, bytes_eqb_refl. reflexivity. }
      destruct (lim <? Z.of_nat (length rs))%Z; cbn [out_of ok spec_check_read]; rewrite T; apply Hall.
      + intros r Hr. unfold firstn_rows in Hr. rewrite <- (firstn_skipn (Z.to_nat lim) rs). apply in_or_app. left. exact Hr.
      + intros r Hr. exact Hr.
    - (* untainted: exactly the rows with that client msg no, newest first *)
      assert (HT : sort_by (fun x : N * bool => fst x) E
                   = map (fun r => (r_seq r, negb (is_nil (r_uid r)))) (filter pr rows)).
      { apply (sorted_lt_unique (fun x : N * bool => fst x)).
        - apply sorted_le_lt; [|apply sort_by_sorted].
          eapply Permutation_NoDup; [apply Permutation_map, Permutation_sym, sort_by_perm|].
          apply NoDup_map_inj_in; [eapply nodup_bycno_entries; eassumption|].
          intros [q1 b1] [q2 b2] H1 H2 Eq. cbn [fst] in Eq. subst q2.
          destruct (bycno_entry_sound _ _ _ _ _ _ _ _ W Rc H1) as [r1 [Hr1 [Hs1 [_ [_ Hb1]]]]].
          destruct (bycno_entry_sound _ _ _ _ _ _ _ _ W Rc H2) as [r2 [Hr2 [Hs2 [_ [_ Hb2]]]]].
          assert (r1 = r2) by (apply (sorted_lt_inj rows); [apply Rc|assumption|assumption|lia]). subst. reflexivity.
        - apply (sorted_lt_map (fun x : N * bool => fst x)). cbn [fst]. apply sorted_lt_filter. apply Rc.
        - intros [q b]. rewrite (in_sort_by (fun x : N * bool => fst x)). rewrite in_map_iff. split.
          + intro He. destruct (bycno_entry_sound _ _ _ _ _ _ _ _ W Rc He) as [r [Hr [Hs [Hn [Hw Hb]]]]].
            exists r. split; [rewrite Hs, Hb; reflexivity|]. apply filter_In. split; [exact Hr|].
            unfold pr, p. rewrite Hn, bytes_eqb_refl, Hs, Hw. reflexivity.
          + intros [r [Hqb Hr]]. injection Hqb as <- <-. apply filter_In in Hr. destruct Hr as [Hr Hp].
            unfold pr, p in Hp. apply andb_true_iff in Hp. destruct Hp as [Hn Hw]. apply bytes_eqb_eq in Hn.
            unfold E, bycno_entries. apply in_or_app.
            destruct (r_uid r) as [|u0 ur] eqn:Eu.
            * right. apply in_flat_map. exists (r_seq r). split.
              -- apply (in_cidx_seqs _ _ _ _ W).
                 assert (Hh : has (st_kv F st) (KyCidx c cno (r_seq r))).
                 { apply (rc_cidx _ _ _ _ Rc). exists r. repeat split; assumption. }
                 unfold has in Hh. destruct (kget _ _) as [v|]; [exists v; reflexivity|contradiction].
              -- rewrite Hw. left. reflexivity.
            * left. apply in_flat_map.
              exists (cno, r_uid r, (r_seq r, r_id r, r_hash r)). split.
              -- apply (in_idem_entries _ _ _ _ _ _ _ W). rewrite <- Hn.
                 apply (rc_idem_complete _ _ _ _ Rc r Hr).
                 ++ rewrite Eu. discriminate.
                 ++ rewrite Hn. exact Ecn.
                 ++ rewrite Hn. apply cno_untainted_pair. exact T.
              -- cbn beta iota. rewrite bytes_eqb_refl. unfold p in Hw. rewrite Hw. left. reflexivity. }
      assert (Hrs_eq : rs = rev (filter pr rows)).
      { apply (rows_by_seq rows); [apply Rc|intros r Hr; apply Hrs; exact Hr| |].
        - intros r Hr. apply in_rev in Hr. apply filter_In in Hr. apply Hr.
        - rewrite Hseq. unfold sort_desc. rewrite HT. rewrite <- !map_rev, map_map. reflexivity. }
      assert (Hwant : rev (filter (fun m => bytes_eqb (m_cno m) cno && ((before =? 0) || (m_seq m <? before))) (amsgs (as_log s c)))
                      = map messageFromRow rs).
      { rewrite (Rchan_amsgs _ _ _ _ Rc), Hrs_eq, map_rev. f_equal.
        clear. induction rows as [|r rows IH]; cbn [map filter]; [reflexivity|].
        cbn [m_cno m_seq messageFromRow]. unfold pr, p. destruct (_ && _); cbn [map]; rewrite IH; reflexivity. }
      cbn [spec_check_read].
      destruct (lim <? Z.of_nat (length rs))%Z eqn:El; cbn [out_of ok spec_check_read]; rewrite T, Hwant, map_length, El.
      + unfold firstn_rows. rewrite firstn_map, msgs_eqb_refl, map_rev_last, N.eqb_refl. reflexivity.
      + rewrite msgs_eqb_refl, N.eqb_refl. reflexivity.
  Qed.
End Reads.
